import ConcVerif.Model.DObj
/-! Proofs about the sequential specification of `DelayedObjects` (`Seq.apply`): association-list
facts, the well-formedness invariant `WF`, its preservation, definedness (no `set_value` on a
satisfied promise), stability of satisfied promises, the value rule.  The concurrent layer is in
`Proof/DObjConc.lean`. -/
namespace ConcVerif.DObj

/-! ### association lists -/

theorem lookup_mem {k : Key} {p : Id} {l : AList} (h : lookup k l = some p) : (k, p) ∈ l := by
  induction l with
  | nil => simp [lookup] at h
  | cons e r ih =>
    simp only [lookup] at h
    split at h
    · rename_i he
      injection h with h
      have : e = (k, p) := by cases e; simp_all
      simp [this]
    · exact List.mem_cons_of_mem _ (ih h)

theorem lookup_none_iff {k : Key} {l : AList} : lookup k l = none ↔ ∀ p, (k, p) ∉ l := by
  induction l with
  | nil => simp [lookup]
  | cons e r ih =>
    simp only [lookup]
    split
    · rename_i he
      constructor
      · intro h; cases h
      · intro h; exfalso; apply h e.2; cases e; simp_all
    · rename_i he
      rw [ih]
      constructor
      · intro h p hp
        cases hp with
        | head => exact he rfl
        | tail _ hp => exact h p hp
      · intro h p hp; exact h p (List.mem_cons_of_mem _ hp)

theorem lookup_some_of_mem {k : Key} {p : Id} {l : AList} (h : (k, p) ∈ l) : ∃ q, lookup k l = some q := by
  cases hq : lookup k l with
  | some q => exact ⟨q, rfl⟩
  | none => exact absurd h (lookup_none_iff.1 hq p)

/-- keys are unique: membership determines `find` -/
theorem lookup_of_mem {k : Key} {p : Id} {l : AList} (hn : (l.map (·.1)).Nodup) (h : (k, p) ∈ l) :
    lookup k l = some p := by
  induction l with
  | nil => cases h
  | cons e r ih =>
    simp only [List.map_cons, List.nodup_cons] at hn
    simp only [lookup]
    cases h with
    | head => simp
    | tail _ h =>
      have : e.1 ≠ k := by
        intro he; apply hn.1; rw [he]; exact List.mem_map.2 ⟨(k, p), h, rfl⟩
      simp [this, ih hn.2 h]

/-- promise ids are unique: an id sits under one key only -/
theorem key_of_id {k k' : Key} {p : Id} {l : AList} (hn : (l.map (·.2)).Nodup) (h : (k, p) ∈ l)
    (h' : (k', p) ∈ l) : k = k' := by
  induction l with
  | nil => cases h
  | cons e r ih =>
    simp only [List.map_cons, List.nodup_cons] at hn
    cases h with
    | head =>
      cases h' with
      | head => rfl
      | tail _ h' => exact absurd (List.mem_map.2 ⟨(k', p), h', rfl⟩) hn.1
    | tail _ h =>
      cases h' with
      | head => exact absurd (List.mem_map.2 ⟨(k, p), h, rfl⟩) hn.1
      | tail _ h' => exact ih hn.2 h h'

theorem mem_erase {e : Key × Id} {k : Key} {l : AList} : e ∈ erase k l ↔ e ∈ l ∧ e.1 ≠ k := by
  simp [erase, List.mem_filter]

theorem lookup_erase (k k' : Key) (l : AList) : lookup k (erase k' l) = if k = k' then none else lookup k l := by
  induction l with
  | nil => simp [erase, lookup]
  | cons e r ih =>
    by_cases he : e.1 = k'
    · have : erase k' (e :: r) = erase k' r := by simp [erase, he]
      rw [this, ih]
      by_cases hk : k = k'
      · simp [hk]
      · have : e.1 ≠ k := by rw [he]; exact fun h => hk h.symm
        simp [hk, lookup, this]
    · have : erase k' (e :: r) = e :: erase k' r := by simp [erase, he]
      rw [this]
      simp only [lookup]
      by_cases hk : e.1 = k
      · have : k ≠ k' := by rw [← hk]; exact he
        simp [hk, this]
      · simp [hk]; exact ih

theorem erase_sublist (k : Key) (l : AList) : List.Sublist (erase k l) l := List.filter_sublist

theorem lookup_insert (k k' : Key) (p : Id) (l : AList) :
    lookup k (insert k' p l) = if k = k' then some p else lookup k l := by
  simp only [insert, lookup]
  by_cases hk : k = k'
  · simp [hk]
  · have : k' ≠ k := fun h => hk h.symm
    simp [hk, this, lookup_erase]

theorem mem_insert {e : Key × Id} {k : Key} {p : Id} {l : AList} :
    e ∈ insert k p l ↔ e = (k, p) ∨ (e ∈ l ∧ e.1 ≠ k) := by
  simp [insert, mem_erase]

theorem mem_moveAll {e : Key × Id} {a b : AList} (h : e ∈ moveAll a b) : e ∈ a ∨ e ∈ b := by
  simp only [moveAll, List.mem_append, List.mem_filter] at h
  rcases h with h | h
  · exact Or.inl h
  · exact Or.inr h.1

theorem lookup_append (k : Key) (a b : AList) :
    lookup k (a ++ b) = match lookup k a with | some p => some p | none => lookup k b := by
  induction a with
  | nil => simp [lookup]
  | cons e r ih =>
    simp only [List.cons_append, lookup]
    split
    · rfl
    · exact ih

theorem lookup_filter_none (k : Key) (a b : AList) (h : lookup k a = none) :
    lookup k (b.filter (fun e => lookup e.1 a = none)) = lookup k b := by
  induction b with
  | nil => rfl
  | cons e r ih =>
    by_cases he : lookup e.1 a = none
    · simp only [List.filter_cons, he, decide_true, if_true, lookup]
      split
      · rfl
      · exact ih
    · have hk : e.1 ≠ k := by intro hh; rw [hh] at he; exact he h
      simp only [List.filter_cons, he, decide_false, lookup, hk, if_false]
      simpa using ih

/-- `find` after the move loop of `fulfillAllPromises` -/
theorem lookup_moveAll (k : Key) (a b : AList) :
    lookup k (moveAll a b) = match lookup k a with | some p => some p | none => lookup k b := by
  simp only [moveAll, lookup_append]
  cases h : lookup k a with
  | some p => rfl
  | none => exact lookup_filter_none k a b h

/-! ### promise-state helpers -/

theorem allUnset_iff {f : Id → PState} {l : AList} : allUnset f l = true ↔ ∀ k p, (k, p) ∈ l → f p = .unset := by
  simp [allUnset, List.all_eq_true]

theorem fulfil_mem {f : Id → PState} {l : AList} {v : Val} {k : Key} {p : Id} (h : (k, p) ∈ l) :
    fulfil f l v p = .val v := by
  have : p ∈ l.map (·.2) := List.mem_map.2 ⟨(k, p), h, rfl⟩
  simp [fulfil, this]

theorem fulfil_not_mem {f : Id → PState} {l : AList} {v : Val} {p : Id} (h : ∀ k, (k, p) ∉ l) :
    fulfil f l v p = f p := by
  have : p ∉ l.map (·.2) := by
    intro hm
    obtain ⟨e, he, hp⟩ := List.mem_map.1 hm
    apply h e.1; cases e; simp_all
  simp [fulfil, this]

theorem fulfil_cases (f : Id → PState) (l : AList) (v : Val) (p : Id) :
    (∃ k, (k, p) ∈ l) ∧ fulfil f l v p = .val v ∨ (∀ k, (k, p) ∉ l) ∧ fulfil f l v p = f p := by
  by_cases h : ∃ k, (k, p) ∈ l
  · obtain ⟨k, hk⟩ := h
    exact Or.inl ⟨⟨k, hk⟩, fulfil_mem hk⟩
  · have h' : ∀ k, (k, p) ∉ l := fun k hk => h ⟨k, hk⟩
    exact Or.inr ⟨h', fulfil_not_mem h'⟩

/-! ### well-formedness of the sequential state -/

structure WF (σ : Seq) : Prop where
  pendUnset : ∀ k p, (k, p) ∈ σ.pending → σ.promise p = .unset
  pendHanded : ∀ k p, (k, p) ∈ σ.pending → p ∈ σ.handed
  pendIds : (σ.pending.map (·.2)).Nodup
  pendKeys : (σ.pending.map (·.1)).Nodup
  usedDone : ∀ k p, (k, p) ∈ σ.used → ∃ v, σ.promise p = .val v
  fresh : ∀ p, p ∉ σ.handed → σ.promise p = .unset
  handedAcc : ∀ p, p ∈ σ.handed → σ.promise p = .unset → ∃ k, (k, p) ∈ σ.pending
  deadEmpty : σ.dead = true → σ.pending = [] ∧ σ.used = []

theorem wf_init : WF Seq.init := by
  constructor <;> simp [Seq.init]

theorem breakOld_apply (f : Id → PState) (o : Option Id) (x : Id) :
    breakOld f o x = if o = some x ∧ f x = .unset then .broken else f x := by
  cases o with
  | none => simp [breakOld]
  | some q =>
    simp only [breakOld]
    by_cases hq : f q = .unset
    · by_cases hx : x = q
      · subst hx; simp [hq]
      · have : q ≠ x := fun h => hx h.symm
        simp [hq, upd, hx, this]
    · by_cases hx : q = x
      · subst hx; simp [hq]
      · simp [hq, hx]

/-! ### inversion of `Seq.app` (one lemma per method) -/

theorem app_get {σ : Seq} {k : Key} {p : Id} {x : Seq × Res × List (Id × Val)} (h : σ.app (.get k p) = some x) :
    p ∉ σ.handed ∧
    x = ({ σ with pending := insert k p σ.pending, promise := breakOld σ.promise (lookup k σ.pending),
                  handed := p :: σ.handed }, .unit, []) := by
  simp only [Seq.app] at h
  split at h
  · cases h
  · rename_i hp; injection h with h; exact ⟨hp, h.symm⟩

theorem app_set {σ : Seq} {k : Key} {v : Val} {mv : Bool} {x : Seq × Res × List (Id × Val)}
    (h : σ.app (.set k v mv) = some x) :
    (lookup k σ.pending = none ∧ x = (σ, .unit, [])) ∨
    (∃ p, lookup k σ.pending = some p ∧ σ.promise p = .unset ∧
      x = ({ σ with pending := erase k σ.pending, used := insert k p σ.used,
                    promise := upd σ.promise p (.val v) }, .unit, [(p, v)])) := by
  simp only [Seq.app] at h
  split at h
  · rename_i hl; injection h with h; exact Or.inl ⟨hl, h.symm⟩
  · rename_i p hl
    split at h
    · rename_i hu; injection h with h; exact Or.inr ⟨p, hl, hu, h.symm⟩
    · cases h

theorem app_ful {σ : Seq} {v : Val} {x : Seq × Res × List (Id × Val)} (h : σ.app (.ful v) = some x) :
    allUnset σ.promise σ.pending = true ∧
    x = ({ σ with pending := [], used := moveAll σ.pending σ.used, promise := fulfil σ.promise σ.pending v },
         .unit, σ.pending.map (fun e => (e.2, v))) := by
  simp only [Seq.app] at h
  split at h
  · rename_i hu; injection h with h; exact ⟨hu, h.symm⟩
  · cases h

theorem app_dtor {σ : Seq} {x : Seq × Res × List (Id × Val)} (h : σ.app .dtor = some x) :
    allUnset σ.promise σ.pending = true ∧
    x = ({ σ with pending := [], used := [], promise := fulfil σ.promise σ.pending 0, dead := true },
         .unit, σ.pending.map (fun e => (e.2, 0))) := by
  simp only [Seq.app] at h
  split at h
  · rename_i hu; injection h with h; exact ⟨hu, h.symm⟩
  · cases h

theorem app_isRec (σ : Seq) (k : Key) :
    σ.app (.isRec k) = some (σ, .bool ((lookup k σ.pending).isSome || (lookup k σ.used).isSome), []) := rfl

theorem app_isComp (σ : Seq) (k : Key) : σ.app (.isComp k) = some (σ, .bool (lookup k σ.used).isSome, []) := rfl

theorem app_fin (σ : Seq) (k : Key) : σ.app (.fin k) = some ({ σ with used := erase k σ.used }, .unit, []) := rfl

theorem apply_eq {σ : Seq} {o : Op} {x : Seq × Res × List (Id × Val)} (h : σ.apply o = some x) :
    σ.dead = false ∧ σ.app o = some x := by
  simp only [Seq.apply] at h
  split at h
  · cases h
  · rename_i hd; exact ⟨by simpa using hd, h⟩

/-! ### preservation of `WF` -/

theorem wf_get {σ : Seq} (w : WF σ) (hd : σ.dead = false) {k : Key} {p : Id} (hp : p ∉ σ.handed) :
    WF { σ with pending := insert k p σ.pending, promise := breakOld σ.promise (lookup k σ.pending),
                handed := p :: σ.handed } := by
  have hold : ∀ q, lookup k σ.pending = some q → q ∈ σ.handed := fun q hq => w.pendHanded k q (lookup_mem hq)
  constructor <;> (try dsimp only)
  · intro k' p' hm
    simp only [breakOld_apply]
    rcases mem_insert.1 hm with he | ⟨hm, hk⟩
    · injection he with _ he; subst he
      have : lookup k σ.pending ≠ some p' := fun h => hp (hold _ h)
      simp [this, w.fresh p' hp]
    · have : lookup k σ.pending ≠ some p' := by
        intro h
        exact hk (key_of_id w.pendIds hm (lookup_mem h))
      simp [this, w.pendUnset k' p' hm]
  · intro k' p' hm
    rcases mem_insert.1 hm with he | ⟨hm, _⟩
    · injection he with _ he; subst he; simp
    · exact List.mem_cons_of_mem _ (w.pendHanded k' p' hm)
  · simp only [insert, List.map_cons, List.nodup_cons]
    refine ⟨?_, List.Nodup.sublist ((erase_sublist k σ.pending).map _) w.pendIds⟩
    intro hm
    obtain ⟨e, he, hpe⟩ := List.mem_map.1 hm
    apply hp; apply w.pendHanded e.1
    have := (mem_erase.1 he).1
    cases e; simp_all
  · simp only [insert, List.map_cons, List.nodup_cons]
    refine ⟨?_, List.Nodup.sublist ((erase_sublist k σ.pending).map _) w.pendKeys⟩
    intro hm
    obtain ⟨e, he, hke⟩ := List.mem_map.1 hm
    exact (mem_erase.1 he).2 hke
  · intro k' p' hm
    obtain ⟨v, hv⟩ := w.usedDone k' p' hm
    exact ⟨v, by simp [breakOld_apply, hv]⟩
  · intro p' hp'
    simp only [List.mem_cons, not_or] at hp'
    have : lookup k σ.pending ≠ some p' := fun h => hp'.2 (hold _ h)
    simp [breakOld_apply, this, w.fresh p' hp'.2]
  · intro p' hp' hu
    simp only [breakOld_apply] at hu
    by_cases hpp : p' = p
    · subst hpp; exact ⟨k, mem_insert.2 (Or.inl rfl)⟩
    · have hh : p' ∈ σ.handed := by
        simp only [List.mem_cons] at hp'
        rcases hp' with h | h
        · exact absurd h hpp
        · exact h
      split at hu
      · cases hu
      · rename_i hc
        obtain ⟨k', hk'⟩ := w.handedAcc p' hh hu
        refine ⟨k', mem_insert.2 (Or.inr ⟨hk', ?_⟩)⟩
        intro hkk; subst hkk
        exact hc ⟨lookup_of_mem w.pendKeys hk', hu⟩
  · intro h; simp [hd] at h

theorem wf_set {σ : Seq} (w : WF σ) (hd : σ.dead = false) {k : Key} {p : Id} {v : Val}
    (hl : lookup k σ.pending = some p) :
    WF { σ with pending := erase k σ.pending, used := insert k p σ.used, promise := upd σ.promise p (.val v) } := by
  have hmem := lookup_mem hl
  constructor <;> (try dsimp only)
  · intro k' p' hm
    obtain ⟨hm, hk⟩ := mem_erase.1 hm
    have : p' ≠ p := by
      intro h; subst h; exact hk (key_of_id w.pendIds hm hmem)
    simp [upd, this, w.pendUnset k' p' hm]
  · intro k' p' hm
    exact w.pendHanded k' p' (mem_erase.1 hm).1
  · exact List.Nodup.sublist ((erase_sublist k σ.pending).map _) w.pendIds
  · exact List.Nodup.sublist ((erase_sublist k σ.pending).map _) w.pendKeys
  · intro k' p' hm
    rcases mem_insert.1 hm with he | ⟨hm, _⟩
    · injection he with _ he; subst he; exact ⟨v, by simp [upd]⟩
    · obtain ⟨v', hv'⟩ := w.usedDone k' p' hm
      by_cases hpp : p' = p
      · subst hpp; exact ⟨v, by simp [upd]⟩
      · exact ⟨v', by simp [upd, hpp, hv']⟩
  · intro p' hp'
    have : p' ≠ p := by intro h; subst h; exact hp' (w.pendHanded k p' hmem)
    simp [upd, this, w.fresh p' hp']
  · intro p' hp' hu
    have hpp : p' ≠ p := by intro h; subst h; simp [upd] at hu
    simp only [upd, hpp, if_false] at hu
    obtain ⟨k', hk'⟩ := w.handedAcc p' hp' hu
    refine ⟨k', mem_erase.2 ⟨hk', ?_⟩⟩
    intro hkk; subst hkk
    have := lookup_of_mem w.pendKeys hk'
    rw [hl] at this; injection this with this; exact hpp this.symm
  · intro h; simp [hd] at h

theorem wf_ful {σ : Seq} (w : WF σ) (hd : σ.dead = false) (v : Val) :
    WF { σ with pending := [], used := moveAll σ.pending σ.used, promise := fulfil σ.promise σ.pending v } := by
  constructor <;> (try dsimp only)
  · intro k p hm; cases hm
  · intro k p hm; cases hm
  · simp
  · simp
  · intro k p hm
    rcases mem_moveAll hm with h | h
    · exact ⟨v, fulfil_mem h⟩
    · obtain ⟨v', hv'⟩ := w.usedDone k p h
      rcases fulfil_cases σ.promise σ.pending v p with ⟨_, h2⟩ | ⟨_, h2⟩
      · exact ⟨v, h2⟩
      · exact ⟨v', by rw [h2, hv']⟩
  · intro p hp
    have : ∀ k, (k, p) ∉ σ.pending := fun k hk => hp (w.pendHanded k p hk)
    rw [fulfil_not_mem this]; exact w.fresh p hp
  · intro p hp hu
    rcases fulfil_cases σ.promise σ.pending v p with ⟨_, h2⟩ | ⟨h1, h2⟩
    · rw [h2] at hu; cases hu
    · rw [h2] at hu
      obtain ⟨k, hk⟩ := w.handedAcc p hp hu
      exact absurd hk (h1 k)
  · intro h; simp [hd] at h

theorem wf_dtor {σ : Seq} (w : WF σ) :
    WF { σ with pending := [], used := [], promise := fulfil σ.promise σ.pending 0, dead := true } := by
  constructor <;> (try dsimp only)
  · intro k p hm; cases hm
  · intro k p hm; cases hm
  · simp
  · simp
  · intro k p hm; cases hm
  · intro p hp
    have : ∀ k, (k, p) ∉ σ.pending := fun k hk => hp (w.pendHanded k p hk)
    rw [fulfil_not_mem this]; exact w.fresh p hp
  · intro p hp hu
    rcases fulfil_cases σ.promise σ.pending 0 p with ⟨_, h2⟩ | ⟨h1, h2⟩
    · rw [h2] at hu; cases hu
    · rw [h2] at hu
      obtain ⟨k, hk⟩ := w.handedAcc p hp hu
      exact absurd hk (h1 k)
  · intro _; exact ⟨rfl, rfl⟩

theorem wf_fin {σ : Seq} (w : WF σ) (hd : σ.dead = false) (k : Key) : WF { σ with used := erase k σ.used } := by
  constructor <;> (try dsimp only)
  · exact w.pendUnset
  · exact w.pendHanded
  · exact w.pendIds
  · exact w.pendKeys
  · intro k' p hm; exact w.usedDone k' p (mem_erase.1 hm).1
  · exact w.fresh
  · exact w.handedAcc
  · intro h; simp [hd] at h

theorem wf_apply {σ σ' : Seq} {o : Op} {r : Res} {l : List (Id × Val)} (w : WF σ)
    (h : σ.apply o = some (σ', r, l)) : WF σ' := by
  obtain ⟨hd, h⟩ := apply_eq h
  cases o with
  | get k p =>
    obtain ⟨hp, hx⟩ := app_get h
    injection hx with hx _; subst hx; exact wf_get w hd hp
  | set k v mv =>
    rcases app_set h with ⟨_, hx⟩ | ⟨p, hl, _, hx⟩
    · injection hx with hx _; subst hx; exact w
    · injection hx with hx _; subst hx; exact wf_set w hd hl
  | ful v =>
    obtain ⟨_, hx⟩ := app_ful h
    injection hx with hx _; subst hx; exact wf_ful w hd v
  | isRec k => rw [app_isRec] at h; injection h with h; injection h with h _; subst h; exact w
  | isComp k => rw [app_isComp] at h; injection h with h; injection h with h _; subst h; exact w
  | fin k => rw [app_fin] at h; injection h with h; injection h with h _; subst h; exact wf_fin w hd k
  | dtor =>
    obtain ⟨_, hx⟩ := app_dtor h
    injection hx with hx _; subst hx; exact wf_dtor w

/-- **No `promise_already_satisfied`.**  On a well-formed live container every method is defined
(for `getFuture`: given a fresh promise name): no `set_value` is ever attempted on a promise that
already holds a value. -/
theorem apply_defined {σ : Seq} (w : WF σ) (hd : σ.dead = false) (o : Op)
    (hf : ∀ k p, o = .get k p → p ∉ σ.handed) : ∃ x, σ.apply o = some x := by
  have hall : allUnset σ.promise σ.pending = true := allUnset_iff.2 w.pendUnset
  cases o with
  | get k p => simp [Seq.apply, hd, Seq.app, hf k p rfl]
  | set k v mv =>
    cases hl : lookup k σ.pending with
    | none => simp [Seq.apply, hd, Seq.app, hl]
    | some p => simp [Seq.apply, hd, Seq.app, hl, w.pendUnset k p (lookup_mem hl)]
  | ful v => simp [Seq.apply, hd, Seq.app, hall]
  | isRec k => simp [Seq.apply, hd, Seq.app]
  | isComp k => simp [Seq.apply, hd, Seq.app]
  | fin k => simp [Seq.apply, hd, Seq.app]
  | dtor => simp [Seq.apply, hd, Seq.app, hall]

/-! ### what one method does to the promises -/

/-- a satisfied promise keeps its value for ever (no method overwrites or breaks it) -/
theorem apply_val_stable {σ σ' : Seq} {o : Op} {r : Res} {l : List (Id × Val)} {p : Id} {v : Val}
    (h : σ.apply o = some (σ', r, l)) (hv : σ.promise p = .val v) : σ'.promise p = .val v := by
  obtain ⟨_, h⟩ := apply_eq h
  cases o with
  | get k q =>
    obtain ⟨_, hx⟩ := app_get h
    injection hx with hx _; subst hx
    simp [breakOld_apply, hv]
  | set k w mv =>
    rcases app_set h with ⟨_, hx⟩ | ⟨q, _, hq, hx⟩
    · injection hx with hx _; subst hx; exact hv
    · injection hx with hx _; subst hx
      have : p ≠ q := by intro hh; subst hh; rw [hq] at hv; cases hv
      simp [upd, this, hv]
  | ful w =>
    obtain ⟨hu, hx⟩ := app_ful h
    injection hx with hx _; subst hx
    have : ∀ k, (k, p) ∉ σ.pending := by
      intro k hk; have := allUnset_iff.1 hu k p hk; rw [this] at hv; cases hv
    dsimp only; rw [fulfil_not_mem this]; exact hv
  | isRec k => rw [app_isRec] at h; injection h with h; injection h with h _; subst h; exact hv
  | isComp k => rw [app_isComp] at h; injection h with h; injection h with h _; subst h; exact hv
  | fin k => rw [app_fin] at h; injection h with h; injection h with h _; subst h; exact hv
  | dtor =>
    obtain ⟨hu, hx⟩ := app_dtor h
    injection hx with hx _; subst hx
    have : ∀ k, (k, p) ∉ σ.pending := by
      intro k hk; have := allUnset_iff.1 hu k p hk; rw [this] at hv; cases hv
    dsimp only; rw [fulfil_not_mem this]; exact hv

/-- the `set_value` calls of one method: each on a promise that was unset, each giving it its value, no
promise twice; and a promise has a value afterwards only if it had it before or was set now -/
theorem apply_sets {σ σ' : Seq} {o : Op} {r : Res} {l : List (Id × Val)} (w : WF σ)
    (h : σ.apply o = some (σ', r, l)) :
    (∀ p v, (p, v) ∈ l → σ.promise p = .unset ∧ σ'.promise p = .val v) ∧ (l.map (·.1)).Nodup ∧
    (∀ p v, σ'.promise p = .val v → σ.promise p = .val v ∨ (p, v) ∈ l) := by
  obtain ⟨_, h⟩ := apply_eq h
  cases o with
  | get k q =>
    obtain ⟨_, hx⟩ := app_get h
    injection hx with hx hx2; injection hx2 with _ hl; subst hx; subst hl
    refine ⟨by simp, by simp, ?_⟩
    intro p v hv
    simp only [breakOld_apply] at hv
    split at hv
    · cases hv
    · exact Or.inl hv
  | set k u mv =>
    rcases app_set h with ⟨_, hx⟩ | ⟨q, _, hq, hx⟩
    · injection hx with hx hx2; injection hx2 with _ hl; subst hx; subst hl
      exact ⟨by simp, by simp, fun p v hv => Or.inl hv⟩
    · injection hx with hx hx2; injection hx2 with _ hl; subst hx; subst hl
      refine ⟨?_, by simp, ?_⟩
      · intro p v hm
        simp only [List.mem_singleton] at hm
        injection hm with h1 h2; subst h1; subst h2
        exact ⟨hq, by simp [upd]⟩
      · intro p v hv
        by_cases hp : p = q
        · subst hp
          simp only [upd, if_true] at hv
          injection hv with hv; subst hv; exact Or.inr (by simp)
        · simp only [upd, hp, if_false] at hv; exact Or.inl hv
  | ful u =>
    obtain ⟨hu, hx⟩ := app_ful h
    injection hx with hx hx2; injection hx2 with _ hl; subst hx; subst hl
    refine ⟨?_, ?_, ?_⟩
    · intro p v hm
      obtain ⟨e, he, hpe⟩ := List.mem_map.1 hm
      injection hpe with h1 h2; subst h1; subst h2
      exact ⟨allUnset_iff.1 hu e.1 e.2 he, fulfil_mem (k := e.1) he⟩
    · rw [List.map_map]; exact w.pendIds
    · intro p v hv
      dsimp only at hv
      rcases fulfil_cases σ.promise σ.pending u p with ⟨⟨k, hk⟩, h2⟩ | ⟨_, h2⟩
      · rw [h2] at hv; injection hv with hv; subst hv
        exact Or.inr (List.mem_map.2 ⟨(k, p), hk, rfl⟩)
      · rw [h2] at hv; exact Or.inl hv
  | isRec k =>
    rw [app_isRec] at h; injection h with h; injection h with h h2; injection h2 with _ hl; subst h; subst hl
    exact ⟨by simp, by simp, fun p v hv => Or.inl hv⟩
  | isComp k =>
    rw [app_isComp] at h; injection h with h; injection h with h h2; injection h2 with _ hl; subst h; subst hl
    exact ⟨by simp, by simp, fun p v hv => Or.inl hv⟩
  | fin k =>
    rw [app_fin] at h; injection h with h; injection h with h h2; injection h2 with _ hl; subst h; subst hl
    exact ⟨by simp, by simp, fun p v hv => Or.inl hv⟩
  | dtor =>
    obtain ⟨hu, hx⟩ := app_dtor h
    injection hx with hx hx2; injection hx2 with _ hl; subst hx; subst hl
    refine ⟨?_, ?_, ?_⟩
    · intro p v hm
      obtain ⟨e, he, hpe⟩ := List.mem_map.1 hm
      injection hpe with h1 h2; subst h1; subst h2
      exact ⟨allUnset_iff.1 hu e.1 e.2 he, fulfil_mem (k := e.1) he⟩
    · rw [List.map_map]; exact w.pendIds
    · intro p v hv
      dsimp only at hv
      rcases fulfil_cases σ.promise σ.pending 0 p with ⟨⟨k, hk⟩, h2⟩ | ⟨_, h2⟩
      · rw [h2] at hv; injection hv with hv; subst hv
        exact Or.inr (List.mem_map.2 ⟨(k, p), hk, rfl⟩)
      · rw [h2] at hv; exact Or.inl hv

/-- the promise a method hands out -/
def Op.newIds : Op → List Id
  | .get _ p => [p]
  | _ => []

theorem apply_handed {σ σ' : Seq} {o : Op} {r : Res} {l : List (Id × Val)} (h : σ.apply o = some (σ', r, l)) :
    σ'.handed = o.newIds ++ σ.handed := by
  obtain ⟨_, h⟩ := apply_eq h
  cases o with
  | get k q => obtain ⟨_, hx⟩ := app_get h; injection hx with hx _; subst hx; rfl
  | set k u mv =>
    rcases app_set h with ⟨_, hx⟩ | ⟨q, _, _, hx⟩ <;> (injection hx with hx _; subst hx; rfl)
  | ful u => obtain ⟨_, hx⟩ := app_ful h; injection hx with hx _; subst hx; rfl
  | isRec k => rw [app_isRec] at h; injection h with h; injection h with h _; subst h; rfl
  | isComp k => rw [app_isComp] at h; injection h with h; injection h with h _; subst h; rfl
  | fin k => rw [app_fin] at h; injection h with h; injection h with h _; subst h; rfl
  | dtor => obtain ⟨_, hx⟩ := app_dtor h; injection hx with hx _; subst hx; rfl

theorem mem_newIds {o : Op} {p : Id} : p ∈ o.newIds ↔ ∃ k, o = .get k p := by
  cases o <;> simp [Op.newIds]
  rename_i k q
  constructor
  · intro h; subst h; rfl
  · intro h; exact h.symm

theorem apply_dead {σ σ' : Seq} {o : Op} {r : Res} {l : List (Id × Val)} (h : σ.apply o = some (σ', r, l)) :
    σ.dead = false ∧ (σ'.dead = true ↔ o = .dtor) := by
  obtain ⟨hd, h⟩ := apply_eq h
  refine ⟨hd, ?_⟩
  cases o with
  | get k q => obtain ⟨_, hx⟩ := app_get h; injection hx with hx _; subst hx; simp [hd]
  | set k u mv =>
    rcases app_set h with ⟨_, hx⟩ | ⟨q, _, _, hx⟩ <;> (injection hx with hx _; subst hx; simp [hd])
  | ful u => obtain ⟨_, hx⟩ := app_ful h; injection hx with hx _; subst hx; simp [hd]
  | isRec k => rw [app_isRec] at h; injection h with h; injection h with h _; subst h; simp [hd]
  | isComp k => rw [app_isComp] at h; injection h with h; injection h with h _; subst h; simp [hd]
  | fin k => rw [app_fin] at h; injection h with h; injection h with h _; subst h; simp [hd]
  | dtor => obtain ⟨_, hx⟩ := app_dtor h; injection hx with hx _; subst hx; simp

/-! ### histories -/

theorem run_cons {σ σ' : Seq} {e : HEntry} {es : List HEntry} (h : σ.run (e :: es) = some σ') :
    ∃ σ1 l, σ.apply e.op = some (σ1, e.res, l) ∧ σ1.run es = some σ' := by
  simp only [Seq.run] at h
  split at h
  · rename_i σ1 r l ha
    split at h
    · rename_i hr; subst hr; exact ⟨σ1, l, ha, h⟩
    · cases h
  · cases h

theorem run_append (σ : Seq) (a b : List HEntry) : σ.run (a ++ b) = (σ.run a).bind (fun σ' => σ'.run b) := by
  induction a generalizing σ with
  | nil => simp [Seq.run]
  | cons e es ih =>
    simp only [List.cons_append, Seq.run]
    split
    · split
      · exact ih _
      · simp
    · simp

theorem run_wf {σ σ' : Seq} {h : List HEntry} (w : WF σ) (hr : σ.run h = some σ') : WF σ' := by
  induction h generalizing σ with
  | nil => simp [Seq.run] at hr; subst hr; exact w
  | cons e es ih =>
    obtain ⟨σ1, l, ha, hr⟩ := run_cons hr
    exact ih (wf_apply w ha) hr

theorem run_val_stable {σ σ' : Seq} {h : List HEntry} {p : Id} {v : Val} (hr : σ.run h = some σ')
    (hv : σ.promise p = .val v) : σ'.promise p = .val v := by
  induction h generalizing σ with
  | nil => simp [Seq.run] at hr; subst hr; exact hv
  | cons e es ih =>
    obtain ⟨σ1, l, ha, hr⟩ := run_cons hr
    exact ih hr (apply_val_stable ha hv)

/-- the destructor is in the history of a destroyed container -/
theorem run_dead {σ σ' : Seq} {h : List HEntry} (hr : σ.run h = some σ') (hd : σ'.dead = true)
    (h0 : σ.dead = false) : ∃ e ∈ h, e.op = .dtor := by
  induction h generalizing σ with
  | nil => simp [Seq.run] at hr; subst hr; rw [h0] at hd; cases hd
  | cons e es ih =>
    obtain ⟨σ1, l, ha, hr⟩ := run_cons hr
    by_cases he : e.op = .dtor
    · exact ⟨e, by simp, he⟩
    · have h1 : σ1.dead = false := by
        cases hh : σ1.dead with
        | false => rfl
        | true => exact absurd ((apply_dead ha).2.1 hh) he
      obtain ⟨e', hm, he'⟩ := ih hr h1
      exact ⟨e', List.mem_cons_of_mem _ hm, he'⟩

/-- the futures handed out are exactly the `getFuture` entries of the history -/
theorem run_handed {σ σ' : Seq} {h : List HEntry} (hr : σ.run h = some σ') (p : Id) :
    p ∈ σ'.handed ↔ p ∈ σ.handed ∨ ∃ e ∈ h, ∃ k, e.op = .get k p := by
  induction h generalizing σ with
  | nil => simp [Seq.run] at hr; subst hr; simp
  | cons e es ih =>
    obtain ⟨σ1, l, ha, hr1⟩ := run_cons hr
    rw [ih hr1, apply_handed ha, List.mem_append, mem_newIds]
    constructor
    · rintro ((h1 | h1) | ⟨e', hm, k, he'⟩)
      · exact Or.inr ⟨e, by simp, h1⟩
      · exact Or.inl h1
      · exact Or.inr ⟨e', List.mem_cons_of_mem _ hm, k, he'⟩
    · rintro (h1 | ⟨e', hm, k, he'⟩)
      · exact Or.inl (Or.inr h1)
      · simp only [List.mem_cons] at hm
        rcases hm with hm | hm
        · subst hm; exact Or.inl (Or.inl ⟨k, he'⟩)
        · exact Or.inr ⟨e', hm, k, he'⟩

/-! ### the value rule -/

/-- the first event after a `getFuture(k)` that satisfies its promise: a matching `setDelayedValue`, a
`fulfillAllPromises`, or the destructor (default value `X{}` = 0) -/
def firstHit (k : Key) : List HEntry → Option Val
  | [] => none
  | e :: es =>
      match e.op with
      | .set k' v _ => if k' = k then some v else firstHit k es
      | .ful v => some v
      | .dtor => some 0
      | _ => firstHit k es

/-- the value an operation gives to the pending promise of key `k`, if it satisfies it -/
def Op.hits (k : Key) : Op → Option Val
  | .set k' v _ => if k' = k then some v else none
  | .ful v => some v
  | .dtor => some 0
  | _ => none

/-- `firstHit` is the standard "first element for which … is defined" -/
theorem firstHit_eq_findSome (k : Key) (h : List HEntry) : firstHit k h = h.findSome? (fun e => e.op.hits k) := by
  induction h with
  | nil => rfl
  | cons e es ih =>
    simp only [firstHit, List.findSome?_cons]
    cases hop : e.op <;> simp only [Op.hits]
    · exact ih
    · rename_i k' v mv
      by_cases hk : k' = k
      · simp [hk]
      · simp only [hk, if_false]; exact ih
    · exact ih
    · exact ih
    · exact ih

theorem firstHit_dtor {k : Key} {h : List HEntry} (hd : ∃ e ∈ h, e.op = .dtor) : (firstHit k h).isSome = true := by
  induction h with
  | nil => obtain ⟨e, hm, _⟩ := hd; cases hm
  | cons e es ih =>
    simp only [firstHit]
    split
    · split
      · rfl
      · rename_i hop _
        apply ih
        obtain ⟨e', hm, he'⟩ := hd
        simp only [List.mem_cons] at hm
        rcases hm with hm | hm
        · subst hm; rw [hop] at he'; cases he'
        · exact ⟨e', hm, he'⟩
    · rfl
    · rfl
    · rename_i h1 h2 h3
      apply ih
      obtain ⟨e', hm, he'⟩ := hd
      simp only [List.mem_cons] at hm
      rcases hm with hm | hm
      · subst hm; exact absurd he' h3
      · exact ⟨e', hm, he'⟩

/-- **Value rule** on the sequential object: while key `k` is not requested again, the promise `p` pending
under `k` ends up with the value of the first matching `setDelayedValue`, else of the first
`fulfillAllPromises`, else the default at destruction — and is still pending if none of them happened. -/
theorem value_rule {k : Key} {p : Id} (h : List HEntry) (σ σ' : Seq) (w : WF σ)
    (hl : lookup k σ.pending = some p) (hn : ∀ e ∈ h, ∀ q, e.op ≠ .get k q) (hr : σ.run h = some σ') :
    σ'.promise p = (match firstHit k h with | some v => .val v | none => .unset) ∧
    (firstHit k h = none → lookup k σ'.pending = some p) := by
  induction h generalizing σ with
  | nil =>
    simp [Seq.run] at hr; subst hr
    simp [firstHit, hl, w.pendUnset k p (lookup_mem hl)]
  | cons e es ih =>
    obtain ⟨σ1, l, ha, hr1⟩ := run_cons hr
    have w1 := wf_apply w ha
    have hn' : ∀ e' ∈ es, ∀ q, e'.op ≠ .get k q := fun e' hm => hn e' (List.mem_cons_of_mem _ hm)
    have hne := hn e (by simp)
    obtain ⟨_, ha'⟩ := apply_eq ha
    cases hop : e.op with
    | get k' q =>
      rw [hop] at ha'
      obtain ⟨_, hx⟩ := app_get ha'
      injection hx with hx _; subst hx
      have hk : k ≠ k' := by intro hh; subst hh; exact hne q hop
      have := ih _ w1 (by simp [lookup_insert, hk, hl]) hn' hr1
      simpa [firstHit, hop] using this
    | set k' v mv =>
      rw [hop] at ha'
      by_cases hk : k' = k
      · subst hk
        rcases app_set ha' with ⟨hnone, _⟩ | ⟨q, hq, _, hx⟩
        · rw [hl] at hnone; cases hnone
        · rw [hl] at hq; injection hq with hq; subst hq
          injection hx with hx _; subst hx
          have : σ'.promise p = .val v := run_val_stable hr1 (by simp [upd])
          simp [firstHit, hop, this]
      · have hk' : k ≠ k' := fun hh => hk hh.symm
        rcases app_set ha' with ⟨_, hx⟩ | ⟨q, _, _, hx⟩
        · injection hx with hx _; subst hx
          have := ih _ w1 hl hn' hr1
          simpa [firstHit, hop, hk] using this
        · injection hx with hx _; subst hx
          have := ih _ w1 (by simp [lookup_erase, hk', hl]) hn' hr1
          simpa [firstHit, hop, hk] using this
    | ful v =>
      rw [hop] at ha'
      obtain ⟨_, hx⟩ := app_ful ha'
      injection hx with hx _; subst hx
      have : σ'.promise p = .val v := run_val_stable hr1 (fulfil_mem (lookup_mem hl))
      simp [firstHit, hop, this]
    | dtor =>
      rw [hop] at ha'
      obtain ⟨_, hx⟩ := app_dtor ha'
      injection hx with hx _; subst hx
      have : σ'.promise p = .val 0 := run_val_stable hr1 (fulfil_mem (lookup_mem hl))
      simp [firstHit, hop, this]
    | isRec k' =>
      rw [hop, app_isRec] at ha'; injection ha' with ha'; injection ha' with hx _; subst hx
      have := ih _ w1 hl hn' hr1
      simpa [firstHit, hop] using this
    | isComp k' =>
      rw [hop, app_isComp] at ha'; injection ha' with ha'; injection ha' with hx _; subst hx
      have := ih _ w1 hl hn' hr1
      simpa [firstHit, hop] using this
    | fin k' =>
      rw [hop, app_fin] at ha'; injection ha' with ha'; injection ha' with hx _; subst hx
      have := ih _ w1 hl hn' hr1
      simpa [firstHit, hop] using this

/-- right after `getFuture(k)` named `p`, `p` is the pending promise of `k` -/
theorem get_pending {σ σ' : Seq} {k : Key} {p : Id} {r : Res} {l : List (Id × Val)}
    (h : σ.apply (.get k p) = some (σ', r, l)) : lookup k σ'.pending = some p := by
  obtain ⟨_, h⟩ := apply_eq h
  obtain ⟨_, hx⟩ := app_get h
  injection hx with hx _; subst hx
  simp [lookup_insert]

/-! ### life cycle of a key -/

/-- `both` is the quirk: a completed key whose future was requested again before `finishedWithValue` -/
inductive Phase
  | unknown | pending | completed | both
  deriving DecidableEq, Repr

def Seq.phase (σ : Seq) (k : Key) : Phase :=
  match lookup k σ.pending, lookup k σ.used with
  | none, none => .unknown
  | some _, none => .pending
  | none, some _ => .completed
  | some _, some _ => .both

/-- the life-cycle automaton: phase of key `k` after method `o` -/
def Phase.after (o : Op) (k : Key) (ph : Phase) : Phase :=
  match o with
  | .get k' _ =>
      if k' = k then (match ph with | .unknown => .pending | .pending => .pending | .completed => .both | .both => .both)
      else ph
  | .set k' _ _ =>
      if k' = k then (match ph with | .pending => .completed | .both => .completed | x => x) else ph
  | .ful _ => (match ph with | .pending => .completed | .both => .completed | x => x)
  | .fin k' =>
      if k' = k then (match ph with | .completed => .unknown | .both => .pending | x => x) else ph
  | .dtor => .unknown
  | _ => ph

theorem phase_step {σ σ' : Seq} {o : Op} {r : Res} {l : List (Id × Val)} (h : σ.apply o = some (σ', r, l))
    (k : Key) : σ'.phase k = Phase.after o k (σ.phase k) := by
  obtain ⟨_, h⟩ := apply_eq h
  cases o with
  | get k' q =>
    obtain ⟨_, hx⟩ := app_get h
    injection hx with hx _; subst hx
    simp only [Seq.phase, Phase.after, lookup_insert]
    by_cases hk : k = k'
    · subst hk; cases lookup k σ.pending <;> cases lookup k σ.used <;> simp
    · have : k' ≠ k := fun hh => hk hh.symm
      simp [hk, this]
  | set k' u mv =>
    rcases app_set h with ⟨hn, hx⟩ | ⟨q, hq, _, hx⟩
    · injection hx with hx _; subst hx
      simp only [Seq.phase, Phase.after]
      by_cases hk : k' = k
      · subst hk; rw [hn]; split <;> simp_all
      · simp [hk]
    · injection hx with hx _; subst hx
      simp only [Seq.phase, Phase.after, lookup_erase, lookup_insert]
      by_cases hk : k = k'
      · subst hk; rw [hq]; cases lookup k σ.used <;> simp
      · have : k' ≠ k := fun hh => hk hh.symm
        simp [hk, this]
  | ful u =>
    obtain ⟨_, hx⟩ := app_ful h
    injection hx with hx _; subst hx
    simp only [Seq.phase, Phase.after, lookup_moveAll, lookup]
    cases lookup k σ.pending <;> cases lookup k σ.used <;> simp
  | isRec k' => rw [app_isRec] at h; injection h with h; injection h with h _; subst h; rfl
  | isComp k' => rw [app_isComp] at h; injection h with h; injection h with h _; subst h; rfl
  | fin k' =>
    rw [app_fin] at h; injection h with h; injection h with h _; subst h
    simp only [Seq.phase, Phase.after, lookup_erase]
    by_cases hk : k = k'
    · subst hk; cases lookup k σ.pending <;> cases lookup k σ.used <;> simp
    · have : k' ≠ k := fun hh => hk hh.symm
      simp [hk, this]
  | dtor =>
    obtain ⟨_, hx⟩ := app_dtor h
    injection hx with hx _; subst hx
    simp [Seq.phase, Phase.after, lookup]

theorem phase_unknown_iff (σ : Seq) (k : Key) :
    ((lookup k σ.pending).isSome || (lookup k σ.used).isSome) = true ↔ σ.phase k ≠ .unknown := by
  unfold Seq.phase; split <;> simp_all

theorem phase_completed_iff (σ : Seq) (k : Key) :
    (lookup k σ.used).isSome = true ↔ (σ.phase k = .completed ∨ σ.phase k = .both) := by
  unfold Seq.phase; split <;> simp_all

/-- results of the queries in terms of the phase -/
theorem isRec_result {σ σ' : Seq} {k : Key} {r : Res} {l : List (Id × Val)}
    (h : σ.apply (.isRec k) = some (σ', r, l)) :
    σ' = σ ∧ l = [] ∧ ∃ b, r = .bool b ∧ (b = true ↔ σ.phase k ≠ .unknown) := by
  obtain ⟨_, h⟩ := apply_eq h
  rw [app_isRec] at h; injection h with h; injection h with h h2; injection h2 with h2 h3
  exact ⟨h.symm, h3.symm, _, h2.symm, phase_unknown_iff σ k⟩

theorem isComp_result {σ σ' : Seq} {k : Key} {r : Res} {l : List (Id × Val)}
    (h : σ.apply (.isComp k) = some (σ', r, l)) :
    σ' = σ ∧ l = [] ∧ ∃ b, r = .bool b ∧ (b = true ↔ (σ.phase k = .completed ∨ σ.phase k = .both)) := by
  obtain ⟨_, h⟩ := apply_eq h
  rw [app_isComp] at h; injection h with h; injection h with h h2; injection h2 with h2 h3
  exact ⟨h.symm, h3.symm, _, h2.symm, phase_completed_iff σ k⟩

/-- what the phases mean for the promises -/
theorem phase_promise {σ : Seq} (w : WF σ) (k : Key) :
    (∀ p, lookup k σ.pending = some p → σ.promise p = .unset) ∧
    (∀ p, lookup k σ.used = some p → ∃ v, σ.promise p = .val v) :=
  ⟨fun p h => w.pendUnset k p (lookup_mem h), fun p h => w.usedDone k p (lookup_mem h)⟩

end ConcVerif.DObj
