import ConcVerif.Proof.HBRcuLinkStep
/-! rcu_list and happens-before, part 6: a thread whose iterator points to a node knows the
initialisation of that node (`RN`); every access to a node happens-after its initialisation. -/
namespace ConcVerif.Rcu
open HB (HBeq Kn)

/-- how a step changes the iterators -/
theorem it_cases {s s' : St} {t : Tid} {e : Ev} (hS : Step s t e s') (hnd : inDtor (s.pc t) = false) :
    s'.it = s.it ∨
    (∃ o, e = .ald .head o s.head ∧ o.isSc = true ∧ s'.it = upd s.it t (some s.head)) ∨
    (∃ n o, e = .ald (.nnext n) o (s.nodes n).next ∧ o.isSc = true ∧ s.it t = some (some n) ∧
      s'.it = upd s.it t (some (s.nodes n).next)) ∨
    (∃ orig, e = .mul ∧ s.wmtx = some t ∧ s'.it = upd s.it t (some orig)) ∨
    s'.it = upd s.it t none := by
  cases hS <;> first | (left; rfl) | (left; simp; done) | no_dtor | skip
  case beg w r o hpc hh ho => exact .inr (.inl ⟨o, rfl, ho, rfl⟩)
  case nxt w r n o hpc hh hi ho => exact .inr (.inr (.inl ⟨n, o, rfl, ho, hi, rfl⟩))
  case eUnlock orig hpc hm => exact .inr (.inr (.inr (.inl ⟨orig, rfl, hm, rfl⟩)))
  case relFresh w hpc hh => exact .inr (.inr (.inr (.inr rfl)))
  case uClear r o hpc ho => exact .inr (.inr (.inr (.inr rfl)))

theorem RN_gen {w : Ords} {sel : Bool} {es : List (Tid × Ev)} {s s' : St} {t : Tid} {e : Ev} (h : RN w sel es s)
    (hin : ∀ n, e.initN = some n → ∀ u, s'.it u ≠ some (some n))
    (hit : ∀ u c, s'.it u = some (some c) → s.it u = some (some c) ∨
      (u = t ∧ ∀ (i : Nat) (x : Tid) (ei : Ev), es[i]? = some (x, ei) → ei.initN = some c →
        Kn (hbTrace w sel (es ++ [(t, e)])) t i)) :
    RN w sel (es ++ [(t, e)]) s' := by
  intro u c hc i x ei hi hinit
  rcases HB.lq_snoc hi with ⟨_, hi'⟩ | ⟨_, hp⟩
  · rcases hit u c hc with h1 | ⟨h1, h2⟩
    · rw [hbTrace_append]; exact (h u c h1 i x ei hi' hinit).mono _
    · subst h1; exact h2 i x ei hi' hinit
  · injection hp with _ h2; subst h2
    exact absurd hc (hin c hinit u)

/-- a load of a link that publishes node `c` gives the loading thread the initialisation of `c` -/
theorem kn_of_load {w : Ords} (hw : w.OK) {sel : Bool} {es : List (Tid × Ev)} (hscd : SCD es) {f : Fld} (hf : f.isLink = true)
    {c : Nat} (hp : PubBy w sel es f c) {t : Tid} {o : Ord} (ho : o.isSc = true) (v : Option Nat)
    {i : Nat} {x : Tid} {ei : Ev} (hi : es[i]? = some (x, ei)) (hinit : ei.initN = some c) :
    Kn (hbTrace w sel (es ++ [(t, .ald f o v)])) t i := by
  obtain ⟨q, y, o2, v2, hq, hl, hb⟩ := hp i x ei hi hinit
  rw [hbTrace_snoc]
  refine .of_sw hb (sw_st_ld ?_ ?_ hq (hscd.1 q y f o2 v2 hq (.inl hf)) ho hl)
  · cases f <;> simp [Fld.isLink] at hf <;> exact hw.stLink
  · cases f <;> simp [Fld.isLink] at hf <;> exact hw.ldLink

theorem RN_step {w : Ords} (hw : w.OK) {sel : Bool} {es : List (Tid × Ev)} {s s' : St} {t : Tid} {e : Ev}
    (hi : Inv s) (hi' : Inv s') (hnd : inDtor (s.pc t) = false) (hscd : SCD es) (hNP : NP w sel es s.wmtx)
    (hFV : FV w sel es s) (h : RN w sel es s) (hS : Step s t e s') : RN w sel (es ++ [(t, e)]) s' := by
  have hin : ∀ n, e.initN = some n → ∀ u, s'.it u ≠ some (some n) := by
    intro n hn u hc
    have h1 := hi'.c.itv u n
    simp only [cview_it, cview_order] at h1
    have h2 := (init_facts hi hS hn).2.1
    have h3 : s'.order = s.order := by
      apply order_frame hS _ hnd
      intro f o v hc'; subst hc'; simp [Ev.initN] at hn
    rw [h3] at h1
    exact h2 (h1 hc)
  refine RN_gen h hin ?_
  intro u c hc
  rcases it_cases hS hnd with h1 | ⟨o, he, ho, h1⟩ | ⟨n, o, he, ho, hn, h1⟩ | ⟨orig, he, hm, h1⟩ | h1
  · rw [h1] at hc; exact .inl hc
  · rw [h1] at hc
    by_cases hu : u = t
    · subst hu
      rw [upd_same] at hc; injection hc with hc
      right; refine ⟨rfl, ?_⟩
      intro i x ei hi2 hinit
      rw [he]
      exact kn_of_load hw hscd rfl (hFV.1 c hc) ho _ hi2 hinit
    · rw [upd_other _ _ _ _ hu] at hc; exact .inl hc
  · rw [h1] at hc
    by_cases hu : u = t
    · subst hu
      rw [upd_same] at hc; injection hc with hc
      right; refine ⟨rfl, ?_⟩
      intro i x ei hi2 hinit
      rw [he]
      have hord : n ∈ s.order := by
        have := hi.c.itv u n
        simp only [cview_it, cview_order] at this
        exact this hn
      exact kn_of_load hw hscd rfl (hFV.2 n c (.inl hord) hc) ho _ hi2 hinit
    · rw [upd_other _ _ _ _ hu] at hc; exact .inl hc
  · rw [h1] at hc
    by_cases hu : u = t
    · subst hu
      right; refine ⟨rfl, ?_⟩
      intro i x ei hi2 hinit
      rw [hm] at hNP
      have : Kn (hbTrace w sel es) u i := hNP i x ei c hi2 hinit
      rw [hbTrace_append]; exact this.mono _
    · rw [upd_other _ _ _ _ hu] at hc; exact .inl hc
  · rw [h1] at hc
    by_cases hu : u = t
    · subst hu; rw [upd_same] at hc; cases hc
    · rw [upd_other _ _ _ _ hu] at hc; exact .inl hc

/-- the node whose memory an event reads or writes (construction included; destruction and deallocation are
the subject of the reclamation theorems) -/
def Ev.nodeAcc : Ev → Option Nat
  | .ald (.nnext n) _ _ | .ald (.nback n) _ _ | .ast (.nnext n) _ _ | .ast (.nback n) _ _ => some n
  | .pldDel n _ | .pstDel n _ | .pldData n _ | .pstData n _ => some n
  | .conN n _ => some n
  | _ => none

/-- who accesses a node: the holder of the write mutex, or a thread whose iterator points to it -/
theorem nodeAcc_cases {s s' : St} {t : Tid} {e : Ev} {n : Nat} (hi : Inv s) (hS : Step s t e s')
    (hnd : inDtor (s.pc t) = false) (hn : e.nodeAcc = some n) : s.wmtx = some t ∨ s.it t = some (some n) := by
  have wm : holdsW (s.pc t) = true → s.wmtx = some t := fun h => (hi.a.wm t).1 h
  cases hS <;> simp only [Ev.nodeAcc] at hn <;> first | (cases hn; done) | no_dtor | skip
  all_goals first
    | (left; apply wm; simp [*, holdsW]; done)
    | (right; injection hn with hn; subst hn; assumption)

end ConcVerif.Rcu
