import ConcVerif.Proof.HBRcuRCoverStep
/-! rcu_list and happens-before, part 23: `TR` is kept by every step; the destruction / deallocation of a log
record happens-after every access to it. -/
namespace ConcVerif.Rcu
open HB (HBeq Kn)

variable {w : Ords} {sel : Bool} {es : List (Tid × Ev)} {s s' : St} {t : Tid} {e : Ev} {i m : Nat}

/-- who accesses a record: the thread that holds it privately, its owner, or a thread scanning down to it -/
theorem recAcc_cases2 (hi : Inv s) (hS : Step s t e s') (hnd : inDtor (s.pc t) = false) (hm : e.recAcc = some m) :
    privRec (BView (s.pc t)) = some m ∨ (∃ b, s.hnd t = .reg b m) ∨
      ∃ b a, s.hnd t = .reg b a ∧ SafeR s a m ∧ m ∈ Below s.log a := by
  have hsc := hi.b.scan t
  simp only [bview_vpc] at hsc
  have my : ∀ a, myRec (s.pc t) = some a → ∃ b, s.hnd t = .reg b a := fun a h => hi.a.myr t a h
  cases hS <;> simp only [Ev.recAcc] at hm <;> first | (cases hm; done) | no_dtor | skip
  all_goals (injection hm with hm; subst hm)
  case relSome w r m' o hpc hh ho hv => exact .inr (.inl ⟨w, hh⟩)
  case relNone w r o hpc hh ho hv => exact .inr (.inl ⟨w, hh⟩)
  case uTrunc r o hpc ho => exact .inr (.inl (my r (by simp [hpc, myRec])))
  case uClear r o hpc ho => exact .inr (.inl (my r (by simp [hpc, myRec])))
  case uOwnerActive r c m' o u hpc ho hv =>
    rw [hpc] at hsc; simp only [BView, ScanP, bview_log, bview_recs] at hsc
    obtain ⟨b, hb⟩ := my r (by simp [hpc, myRec]); exact .inr (.inr ⟨b, r, hb, .inr ⟨hsc.1, hsc.2.2⟩, hsc.1⟩)
  case uOwnerInactive r c m' o hpc ho hv =>
    rw [hpc] at hsc; simp only [BView, ScanP, bview_log, bview_recs] at hsc
    obtain ⟨b, hb⟩ := my r (by simp [hpc, myRec]); exact .inr (.inr ⟨b, r, hb, .inr ⟨hsc.1, hsc.2.2⟩, hsc.1⟩)
  case uNextSome r c m' m2 o hpc ho hv =>
    rw [hpc] at hsc; simp only [BView, ScanP, bview_log, bview_recs] at hsc
    obtain ⟨b, hb⟩ := my r (by simp [hpc, myRec]); exact .inr (.inr ⟨b, r, hb, .inr ⟨hsc.1, hsc.2.2.2⟩, hsc.1⟩)
  case uNextNone r c m' o hpc ho hv =>
    rw [hpc] at hsc; simp only [BView, ScanP, bview_log, bview_recs] at hsc
    obtain ⟨b, hb⟩ := my r (by simp [hpc, myRec]); exact .inr (.inr ⟨b, r, hb, .inr ⟨hsc.1, hsc.2.2.2⟩, hsc.1⟩)
  all_goals (left; simp [*, BView, privRec]; done)

/-- the access to a record that has just been performed is covered -/
theorem rcover_new (hi : Inv s) (hi' : Inv s') (hnd : inDtor (s.pc t) = false) (hS : Step s t e s') (hacc : e.recAcc = some m) :
    RCover w sel (es ++ [(t, e)]) s' es.length m := by
  have hnodup := hi.b.logNd
  simp only [bview_log] at hnodup
  have self : Kn (hbTrace w sel (es ++ [(t, e)])) t es.length := .self (hbTrace_get (HB.lq_last _ _))
  rcases recAcc_cases2 hi hS hnd hacc with hP | ⟨b, hO⟩ | ⟨b, a, hO, hsafe, hbel⟩
  · rcases priv_kind hP with g | ⟨a, g⟩ | g
    · rcases build_step hS g with g1 | ⟨o, x, c, g1⟩
      · exact .build t g1 self
      · subst g1; simp [Ev.recAcc] at hacc
    · rcases reaper_step hS hnd g with hr | ⟨_, g2, _⟩
      · rcases priv_reaper_step hS g hP with g1 | ⟨nx, g1⟩
        · exact .reaped t a hr self (.inr g1)
        · exfalso; cases hS <;> simp_all [Ev.recAcc]
      · simp [g2, BView, privRec] at hP
    · rw [hnd] at g; cases g
  · have om := hi.b.own1 t b m hO
    simp only [bview_log] at om
    by_cases hreg : s'.hnd t = .reg b m
    · exact .open_ t b m hreg (.inl rfl) self
    · obtain ⟨_, ⟨o, g2⟩, g3, _⟩ := unreg_cases hi hS hnd hO hreg
      subst g2
      exact .closed m es.length t o none (HB.lq_last _ _) (.inl rfl) (by rw [g3]; exact om.1) (.inl rfl)
  · have oa := hi.b.own1 t b a hO
    simp only [bview_log] at oa
    by_cases hreg : s'.hnd t = .reg b a
    · by_cases hm' : m ∈ s'.log
      · have oa' := (hi'.b.own1 t b a hreg).1
        simp only [bview_log] at oa'
        exact .open_ t b a hreg (saferec_step hi hS hnd oa.1 oa' (.inr hm') hsafe) self
      · obtain ⟨a1, _, _, _, _, _, _, _, g7, g8, _⟩ := taken_reaper hi hS hnd (mem_of_mem_below hbel) hm'
        exact .reaped t a1 g7 self (.inr g8)
    · exfalso
      obtain ⟨_, ⟨o, g2⟩, _, _⟩ := unreg_cases hi hS hnd hO hreg
      subst g2
      simp only [Ev.recAcc] at hacc
      injection hacc with hacc; subst hacc
      exact not_mem_below_self hnodup hbel

end ConcVerif.Rcu
