import ConcVerif.Proof.Barrier
import ConcVerif.Base.Live
/-! Ranking function for `Barrier`: instance of `Base/Live.lean`.

Environment events (may occur any finite number of times, they do not lower the rank): `call`, plain
field accesses (`plain`, unbounded self-loops of the model), spurious wake-ups.  Every other event
strictly decreases the rank of the thread that performs it. -/
namespace ConcVerif.Barrier

/-- a sleeping thread that waits for the current generation is (still) in the wait set -/
def Awake (s : St) : Prop := ∀ t k, s.pc t = .sleep k → s.lGen t = s.generation → t ∈ s.waiters

theorem awake_init (P : List Tid) : Awake (init P) := by
  intro t k h; simp [init] at h

theorem awake_step {s s' : St} {t : Tid} {e : Ev} (hi : Inv s) (ha : Awake s) (hs : step s t e = some s') :
    Awake s' := by
  intro u k hu hg
  cases hp : s.pc t <;> cases e <;> simp [step, hp] at hs
  case idle.call =>
    obtain ⟨_, hs⟩ := hs; subst hs
    by_cases hut : u = t
    · subst hut; simp [St.setPc] at hu
    · simp [St.setPc, upd, hut] at hu hg ⊢; exact ha u k hu hg
  case called.mlk =>
    obtain ⟨_, hs⟩ := hs; subst hs
    by_cases hut : u = t
    · subst hut; simp [St.setPc] at hu
    · simp [St.setPc, upd, hut] at hu hg ⊢; exact ha u k hu hg
  case locked.plain => obtain ⟨_, hs⟩ := hs; subst hs; exact ha u k hu hg
  case notified.plain => obtain ⟨_, hs⟩ := hs; subst hs; exact ha u k hu hg
  case woken.plain => obtain ⟨_, hs⟩ := hs; subst hs; exact ha u k hu hg
  case locked.cna =>
    obtain ⟨_, hs⟩ := hs; subst hs
    by_cases hut : u = t
    · subst hut; simp [St.setPc] at hu
    · simp [St.setPc, upd, hut, St.arriveRelease] at hu hg
      have := (hi.waitg u (by simp [hu, Pc.waiting])).2
      omega
  case locked.cwt =>
    obtain ⟨_, hs⟩ := hs; subst hs
    by_cases hut : u = t
    · subst hut; simp [St.setPc, St.arriveWait]
    · simp [St.setPc, upd, hut, St.arriveWait] at hu hg ⊢
      exact ha u k hu hg
  case notified.mul =>
    obtain ⟨_, hs⟩ := hs; subst hs
    by_cases hut : u = t
    · subst hut; simp [St.setPc] at hu
    · simp [St.setPc, upd, hut] at hu hg ⊢; exact ha u k hu hg
  case sleep.cwk =>
    rename_i k0 r
    obtain ⟨_, hs⟩ := hs
    cases r <;> simp at hs
    · obtain ⟨_, hs⟩ := hs; subst hs
      by_cases hut : u = t
      · subst hut; simp [St.setPc] at hu
      · simp [St.setPc, upd, hut] at hu hg ⊢; exact ha u k hu hg
    · obtain ⟨_, hs⟩ := hs; subst hs
      by_cases hut : u = t
      · subst hut; simp [St.setPc] at hu
      · simp [St.setPc, upd, hut] at hu hg ⊢
        exact ha u k hu hg
  case woken.cwt =>
    obtain ⟨_, hs⟩ := hs; subst hs
    by_cases hut : u = t
    · subst hut; simp [St.setPc]
    · simp [St.setPc, upd, hut] at hu hg ⊢; exact ha u k hu hg
  case woken.mul =>
    obtain ⟨_, hs⟩ := hs; subst hs
    by_cases hut : u = t
    · subst hut; simp [St.setPc] at hu
    · simp [St.setPc, upd, hut] at hu hg ⊢; exact ha u k hu hg
  case unlocked.ret =>
    obtain ⟨_, hs⟩ := hs; subst hs
    by_cases hut : u = t
    · subst hut; simp [St.setPc] at hu
    · simp [St.setPc, upd, hut] at hu hg ⊢; exact ha u k hu hg

/-- environment events: calls, plain field accesses, spurious wake-ups -/
def isEnv : Ev → Bool
  | .call _ => true
  | .plain => true
  | .cwk .spurious => true
  | _ => false

/-- remaining protocol steps of thread `t` -/
def μ (s : St) (t : Tid) : Nat :=
  match s.pc t with
  | .idle => 0
  | .called _ => 7
  | .locked _ => 6
  | .notified _ => 2
  | .sleep _ => 3
  | .woken _ => if s.generation = s.lGen t then 4 else 2
  | .unlocked _ => 1

def Good (s : St) : Prop := Inv s ∧ Awake s

theorem gen_mono {s s' : St} {t : Tid} {e : Ev} (hs : step s t e = some s') : s.generation ≤ s'.generation := by
  rcases step_shape hs with ⟨_, h⟩ | ⟨_, m', w', p', h⟩ | ⟨k, _, _, h⟩ | ⟨k, o, _, _, h⟩ <;> subst h <;>
    simp [St.setPc, St.arriveRelease, St.arriveWait]

theorem other_frame {s s' : St} {t u : Tid} {e : Ev} (hs : step s t e = some s') (hu : u ≠ t) :
    s'.pc u = s.pc u ∧ s'.lGen u = s.lGen u := by
  rcases step_shape hs with ⟨_, h⟩ | ⟨_, m', w', p', h⟩ | ⟨k, _, _, h⟩ | ⟨k, o, _, _, h⟩ <;> subst h <;>
    simp [St.setPc, St.arriveRelease, St.arriveWait, upd, hu]

theorem ranked : Live.Ranked step Good isEnv μ 7 where
  good := by
    intro s t e s' hg hs
    exact ⟨inv_step s t e s' hg.1 hs, awake_step hg.1 hg.2 hs⟩
  dec := by
    intro s t e s' hg hs hc
    obtain ⟨hi, ha⟩ := hg
    cases hp : s.pc t <;> cases e <;> simp [step, hp, isEnv] at hs hc
    case called.mlk => obtain ⟨_, hs⟩ := hs; subst hs; simp [μ, hp, St.setPc]
    case locked.cna => obtain ⟨_, hs⟩ := hs; subst hs; simp [μ, hp, St.setPc]
    case locked.cwt => obtain ⟨_, hs⟩ := hs; subst hs; simp [μ, hp, St.setPc]
    case notified.mul => obtain ⟨_, hs⟩ := hs; subst hs; simp [μ, hp, St.setPc]
    case sleep.cwk =>
      rename_i k r
      cases r <;> simp [isEnv] at hc
      obtain ⟨_, hs⟩ := hs
      simp at hs
      obtain ⟨hnin, hs⟩ := hs; subst hs
      have hne : s.lGen t ≠ s.generation := fun h => hnin (ha t k hp h)
      have hne' : ¬ (s.generation = s.lGen t) := fun h => hne h.symm
      simp [μ, hp, St.setPc, hne']
    case woken.cwt =>
      obtain ⟨⟨_, hg, _⟩, hs⟩ := hs; subst hs; simp [μ, hp, St.setPc, hg]
    case woken.mul =>
      obtain ⟨⟨_, hg, _⟩, hs⟩ := hs; subst hs; simp [μ, hp, St.setPc, hg]
    case unlocked.ret => obtain ⟨_, hs⟩ := hs; subst hs; simp [μ, hp, St.setPc]
  call := by
    intro s t e s' hg hs hc
    cases hp : s.pc t <;> cases e <;> simp [step, hp, isEnv] at hs hc
    case idle.call => obtain ⟨_, hs⟩ := hs; subst hs; simp [μ, hp, St.setPc]
    case locked.plain => obtain ⟨_, hs⟩ := hs; subst hs; omega
    case notified.plain => obtain ⟨_, hs⟩ := hs; subst hs; omega
    case woken.plain => obtain ⟨_, hs⟩ := hs; subst hs; omega
    case sleep.cwk =>
      rename_i k r
      cases r <;> simp [isEnv] at hc
      obtain ⟨_, hs⟩ := hs
      simp at hs
      obtain ⟨_, hs⟩ := hs; subst hs
      simp only [μ, hp, St.setPc, upd_same]
      by_cases hge : s.generation = s.lGen t <;> simp [hge]
  frame := by
    intro s t e s' u hg hs hu
    obtain ⟨hpc, hl⟩ := other_frame hs hu
    have hgm := gen_mono hs
    unfold μ
    rw [hpc, hl]
    cases hp : s.pc u <;> simp
    -- woken: the rank can only drop (generation only grows, and `lGen u ≤ generation`)
    have := (hg.1.waitg u (by simp [hp, Pc.waiting])).2
    split <;> split <;> omega

end ConcVerif.Barrier
