import ConcVerif.Proof.HBRcuMain2
/-! rcu_list and happens-before, part 21: the reclamation invariant for log records (`TR`).  Every access to a
record that is not yet freed is *covered*:

* `build`  — the thread constructing the record knows it; or
* `pushed` — it is ordered before the CAS that published the record; or
* `open_`  — a registered thread knows it and has the record in view (`SafeR`: its own record, or a record it has
             scanned down to); or
* `closed` — it is ordered before the store that cleared `owner` of a record still on the log that had it in view; or
* `reaped` — the thread in the reclaim phase knows it, and the record lies below the reclaimer's or is the one it
             has just taken off the log. -/
namespace ConcVerif.Rcu
open HB (HBeq Kn)

/-- record `m` is in view of (the owner of) record `x`: it is `x`, or it lies below `x` and every record in
between is inactive -/
def SafeR (s : St) (x m : Nat) : Prop :=
  x = m ∨ (m ∈ Below s.log x ∧ ∀ y ∈ Below s.log x, m ∈ Below s.log y → (s.recs y).owner = none)

inductive RCover (w : Ords) (sel : Bool) (es : List (Tid × Ev)) (s : St) (i m : Nat) : Prop
  | build (u : Tid) (h1 : buildRec (s.pc u) = some m) (h2 : Kn (hbTrace w sel es) u i)
  | pushed (p : Nat) (u : Tid) (o : Ord) (a c : Option Nat) (h1 : es[p]? = some (u, Ev.cas o a (some m) true c))
      (h2 : HBeq (hbTrace w sel es) i p)
  | open_ (v : Tid) (b : Bool) (x : Nat) (h1 : s.hnd v = .reg b x) (h2 : SafeR s x m) (h3 : Kn (hbTrace w sel es) v i)
  | closed (x q : Nat) (y : Tid) (o : Ord) (v : Option Nat) (h1 : es[q]? = some (y, Ev.ast (.rowner x) o v))
      (h2 : HBeq (hbTrace w sel es) i q) (h3 : x ∈ s.log) (h4 : SafeR s x m)
  | reaped (t : Tid) (a : Nat) (h1 : reaper (BView (s.pc t)) = some a) (h2 : Kn (hbTrace w sel es) t i)
      (h3 : m ∈ Below s.log a ∨ privRec (BView (s.pc t)) = some m)

def TR (w : Ords) (sel : Bool) (es : List (Tid × Ev)) (s : St) : Prop :=
  ∀ (i : Nat) (u : Tid) (e : Ev) (m : Nat), es[i]? = some (u, e) → e.recAcc = some m → s.rled m ≠ .freed →
    RCover w sel es s i m

/-- a freed record stays freed -/
theorem rfreed_keep {s s' : St} {t : Tid} {e : Ev} (hi : Inv s) (hS : Step s t e s') (hnd : inDtor (s.pc t) = false) {m : Nat}
    (h : s.rled m = .freed) : s'.rled m = .freed := by
  have hc := hi.b.cntR s.nR
  simp only [bview_rled, bview_nR] at hc
  have hn : s.rled s.nR = .none := hc.2 (Nat.le_refl _)
  have hp := hi.b.privOk t
  simp only [bview_vpc, bview_rled] at hp
  cases hS <;> first | exact h | (simp; exact h) | no_dtor | skip
  all_goals
    simp only [setPc_rled, setRled_rled, reapAt_rled, upd_apply]
    split
    · rename_i hx; subst hx
      first
        | rfl
        | (exfalso; rw [hn] at h; cases h)
        | (exfalso
           have := (hp m (by simp [*, BView, privRec])).2
           rw [h] at this; simp [*, BView, privLed] at this)
    · exact h

/-- a view that stays on the log keeps the records that stay on the log -/
theorem saferec_step {s s' : St} {t : Tid} {e : Ev} (hi : Inv s) (hS : Step s t e s') (hnd : inDtor (s.pc t) = false)
    {x m : Nat} (hx : x ∈ s.log) (hx' : x ∈ s'.log) (hm' : x = m ∨ m ∈ s'.log) (h : SafeR s x m) : SafeR s' x m := by
  rcases h with h | ⟨h1, h2⟩
  · exact .inl h
  · rcases hm' with hm' | hm'
    · exact .inl hm'
    · right
      refine ⟨below_keep hi hS hnd hx hx' h1 hm', ?_⟩
      intro y hy hmy
      have hy1 := below_step2 hi hS hnd hx hx' hy
      have hyl := mem_of_mem_below hy1
      have hmy1 := below_step2 hi hS hnd hyl (mem_of_mem_below hy) hmy
      have hlc := hi.b.logCons y
      simp only [bview_log, bview_rled] at hlc
      exact owner_keep hi hS hnd (h2 y hy1 hmy1) (by rw [hlc hyl]; simp)

/-- a privately held record is under construction, or held by a reclaimer (or by the destructor) -/
theorem priv_kind {p : Pc} {m : Nat} (h : privRec (BView p) = some m) :
    buildRec p = some m ∨ (∃ a, reaper (BView p) = some a) ∨ inDtor p = true := by
  cases p <;> first
    | (simp at h; done)
    | (simp [BView, privRec] at h; done)
    | (simp [BView, privRec] at h; simp [buildRec, BView, reaper, inDtor, h])

/-- a view from an active record never contains a record a reclaimer is taking off the log, and a view from a
record that stays on the log is kept when another record is taken off -/
theorem saferec_taken {s : St} (hi : Inv s) {a z x m : Nat} (ha : a ∈ s.log) (hact : (s.recs a).owner ≠ none)
    (hz : (Below s.log a).head? = some z) (hx : x ∈ s.log) (h : SafeR s x m) (hm : m = z ∨ x = z) :
    x = z ∨ x = a := by
  have hnodup := hi.b.logNd
  simp only [bview_log] at hnodup
  have hza := head_mem_below hz
  rcases hm with hm | hm
  · subst hm
    rcases h with h | ⟨h1, h2⟩
    · exact .inl h
    · by_cases hxa : x = a
      · exact .inr hxa
      · exfalso
        rcases below_total hx ha hxa with g | g
        · rcases mem_below_cases hnodup hz g with g' | g'
          · subst g'; exact not_mem_below_self hnodup h1
          · exact below_antisymm hnodup g' h1
        · exact hact (h2 a g hza)
  · exact .inl hm

end ConcVerif.Rcu
