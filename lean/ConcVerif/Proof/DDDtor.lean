import ConcVerif.Proof.DD
/-! The container's destructor in the DelayedDestructor model: it returns only after the vector member is empty, and
nothing can be added afterwards (client obligation: no calls once the destructor has started). -/
namespace ConcVerif.DD

def ActOk (s : St) : Prop := ∀ u, u ∈ s.act ↔ s.stk u ≠ []

theorem actOk_setStk {s : St} (t fs) (h : ActOk s) : ActOk (s.setStk t fs) := by
  intro u
  by_cases hu : u = t
  · subst hu
    by_cases hf : fs = []
    · simp [St.setStk, hf]
    · simp [St.setStk, hf]
  · have := h u
    by_cases hf : fs = []
    · simp [St.setStk, hf, hu, this, upd_apply]
    · simp [St.setStk, hf, hu, this, upd_apply]

theorem actOk_vdrain {s : St} (t rest) (v : List ObjId) (h : ActOk s) : ActOk (vdrain s t rest v) := by
  induction v generalizing s with
  | nil => exact actOk_setStk (s := { s with vec := [], vdead := true }) _ _ h
  | cons a v ih =>
    simp only [vdrain]; split
    · exact actOk_setStk (s := { s with vec := v, vrel := a :: s.vrel, pend := a :: s.pend }) _ _ h
    · exact ih (s := { s with vec := v, vrel := a :: s.vrel }) h

theorem actOk_xTop {s : St} (t ii rest) (h : ActOk s) : ActOk (xTop s t ii rest) := by
  unfold xTop; split
  · exact actOk_setStk (s := { s with vdead := true }) _ _ h
  · exact actOk_setStk _ _ h

theorem actOk_xAfter {s : St} (t ii rest) (h : ActOk s) : ActOk (xAfter s t ii rest) := by
  unfold xAfter; repeat' split
  · exact actOk_setStk (s := { s with vdead := true }) _ _ h
  all_goals exact actOk_setStk _ _ h

theorem actOk_dDone {s : St} (t r rest) (h : ActOk s) : ActOk (dDone s t r rest) := by
  unfold dDone; split
  · exact actOk_setStk _ _ h
  · exact actOk_xAfter _ _ _ h
  · exact actOk_vdrain _ _ _ h
  · exact actOk_setStk _ _ h

theorem actOk_drain {s : St} (t sz cbs thrown rest) (ec : List ObjId) (h : ActOk s) :
    ActOk (drain s t sz cbs thrown rest ec) := by
  induction ec generalizing s with
  | nil => simp only [drain]; split; exact actOk_dDone _ _ _ h; exact actOk_setStk _ _ h
  | cons k ec ih =>
    simp only [drain]; split
    · exact actOk_setStk (s := { s with ecs := s.ecs.erase (t, k), pend := k :: s.pend }) _ _ h
    · exact ih (s := { s with ecs := s.ecs.erase (t, k) }) h

theorem actOk_resume {s : St} (t fs) (h : ActOk s) : ActOk (resume s t fs) := by
  unfold resume; split
  · exact actOk_drain _ _ _ _ _ _ h
  · exact actOk_vdrain _ _ _ h
  · exact actOk_setStk _ _ h

theorem actOk_select {s : St} (t skip rest) (h : ActOk s) : ActOk (select s t skip rest) := by
  unfold select; dsimp only; split
  · exact actOk_setStk (s := { s with lock := some t }) _ _ h
  · exact actOk_setStk (s := { s with lock := some t, vec := _, ecs := _, reaped := _ }) _ _ h

theorem actOk_stepUser {s s' : St} {t : Tid} {fs e} (hI : ActOk s) (h : stepUser s t fs e = some s') : ActOk s' := by
  unfold stepUser at h
  split at h
  all_goals (try (repeat' (split at h)))
  all_goals (first | cases h | skip)
  all_goals (first
    | exact hI
    | exact actOk_setStk _ _ hI
    | exact actOk_setStk (s := { s.decExt _ with pend := _ }) _ _ hI
    | exact actOk_setStk (s := { s with ext := _ }) _ _ hI
    | exact actOk_xTop (s := { s with dead := _ }) _ _ _ hI)

theorem actOk_step {s s' : St} {t : Tid} {e} (hI : ActOk s) (h : step s t e = some s') : ActOk s' := by
  unfold step at h
  split at h
  all_goals (first | exact actOk_stepUser hI h | skip)
  all_goals (try (repeat' (split at h)))
  all_goals (first | cases h | skip)
  all_goals (first
    | exact actOk_setStk _ _ hI
    | exact actOk_setStk (s := unlock s) _ _ hI
    | exact actOk_setStk (s := { s with lock := _ }) _ _ hI
    | exact actOk_setStk (s := { s with lock := _, vec := _, added := _, ext := _ }) _ _ hI
    | exact actOk_setStk (s := { s with pend := _, destroyed := _ }) _ _ hI
    | exact actOk_dDone _ _ _ hI
    | exact actOk_dDone (s := unlock s) _ _ _ hI
    | exact actOk_drain _ _ _ _ _ _ hI
    | exact actOk_drain (s := unlock s) _ _ _ _ _ _ hI
    | exact actOk_resume _ _ hI
    | exact actOk_xTop _ _ _ hI
    | exact actOk_select _ _ _ hI)

theorem actOk_init (cb ns nt) : ActOk (init cb ns nt) := by intro u; simp [init]

/-! ### frames versus the destructor flags -/

def isAdd : Frame → Bool
  | .addCalled _ _ => true
  | _ => false

def isX : Frame → Bool
  | .xInner _ | .xYield _ | .xSleep _ | .xInnerLast | .xVec | .xRet => true
  | _ => false

/-- `addCalled` frames exist only before the destructor starts, `x` frames only after, `xRet` only once the vector is gone -/
def PF (d : Option Tid) (v : Bool) (f : Frame) : Prop :=
  (isAdd f = true → d = none) ∧ (f = .xRet → v = true) ∧ (isX f = true → d ≠ none)

def AllPF (d : Option Tid) (v : Bool) (fs : List Frame) : Prop := ∀ f ∈ fs, PF d v f

@[simp] theorem allPF_nil (d v) : AllPF d v [] := by intro f h; cases h
@[simp] theorem allPF_cons (d v f fs) : AllPF d v (f :: fs) ↔ PF d v f ∧ AllPF d v fs := by simp [AllPF]

theorem AllPF.mono {d : Option Tid} {v v' : Bool} {fs} (h : AllPF d v fs) (hv : v = true → v' = true) : AllPF d v' fs :=
  fun f hf => ⟨(h f hf).1, fun hx => hv ((h f hf).2.1 hx), (h f hf).2.2⟩

/-- a frame that is neither `addCalled` nor an `x` frame -/
theorem pf_plain (d v) {f : Frame} (h1 : isAdd f = false) (h2 : isX f = false) : PF d v f := by
  refine ⟨by simp [h1], ?_, by simp [h2]⟩
  intro hx; subst hx; simp [isX] at h2

theorem pf_x {d : Option Tid} (v) {f : Frame} (hd : d ≠ none) (h1 : isAdd f = false) (h3 : f ≠ .xRet) : PF d v f :=
  ⟨by simp [h1], fun h => absurd h h3, fun _ => hd⟩

theorem pf_xRet {d : Option Tid} (hd : d ≠ none) : PF d true .xRet := ⟨by simp [isAdd], fun _ => rfl, fun _ => hd⟩

theorem allPF_vdrain (s : St) (t rest) (v : List ObjId) (hd : s.dead ≠ none) (h : AllPF s.dead s.vdead rest) :
    AllPF (vdrain s t rest v).dead (vdrain s t rest v).vdead ((vdrain s t rest v).stk t) := by
  induction v generalizing s with
  | nil =>
    simp only [vdrain, setStk_dead, setStk_vdead, setStk_stk_same, allPF_cons]
    exact ⟨pf_xRet hd, h.mono (fun _ => rfl)⟩
  | cons a v ih =>
    simp only [vdrain]; split
    · simp only [setStk_dead, setStk_vdead, setStk_stk_same, allPF_cons]
      exact ⟨pf_plain _ _ rfl rfl, pf_x _ hd rfl (by simp), h⟩
    · exact ih { s with vec := v, vrel := a :: s.vrel } hd h

theorem allPF_xTop (s : St) (t ii rest) (hd : s.dead ≠ none) (h : AllPF s.dead s.vdead rest) :
    AllPF (xTop s t ii rest).dead (xTop s t ii rest).vdead ((xTop s t ii rest).stk t) := by
  unfold xTop; split
  · simp only [setStk_dead, setStk_vdead, setStk_stk_same, allPF_cons]
    exact ⟨pf_xRet hd, h.mono (fun _ => rfl)⟩
  · simp only [setStk_dead, setStk_vdead, setStk_stk_same, allPF_cons]
    exact ⟨pf_plain _ _ rfl rfl, pf_x _ hd rfl (by simp), h⟩

theorem allPF_xAfter (s : St) (t ii rest) (hd : s.dead ≠ none) (h : AllPF s.dead s.vdead rest) :
    AllPF (xAfter s t ii rest).dead (xAfter s t ii rest).vdead ((xAfter s t ii rest).stk t) := by
  unfold xAfter; repeat' split
  · simp only [setStk_dead, setStk_vdead, setStk_stk_same, allPF_cons]
    exact ⟨pf_xRet hd, h.mono (fun _ => rfl)⟩
  · simp only [setStk_dead, setStk_vdead, setStk_stk_same, allPF_cons]
    exact ⟨pf_plain _ _ rfl rfl, pf_x _ hd rfl (by simp), h⟩
  · simp only [setStk_dead, setStk_vdead, setStk_stk_same, allPF_cons]
    exact ⟨pf_x _ hd rfl (by simp), h⟩
  · simp only [setStk_dead, setStk_vdead, setStk_stk_same, allPF_cons]
    exact ⟨pf_x _ hd rfl (by simp), h⟩

theorem allPF_dDone (s : St) (t r rest) (h : AllPF s.dead s.vdead rest) :
    AllPF (dDone s t r rest).dead (dDone s t r rest).vdead ((dDone s t r rest).stk t) := by
  unfold dDone; split
  · simp only [allPF_cons] at h
    simp only [setStk_dead, setStk_vdead, setStk_stk_same, allPF_cons]
    exact ⟨pf_plain _ _ rfl rfl, h.2⟩
  · simp only [allPF_cons] at h
    exact allPF_xAfter _ _ _ _ (h.1.2.2 rfl) h.2
  · simp only [allPF_cons] at h
    exact allPF_vdrain _ _ _ _ (h.1.2.2 rfl) h.2
  · simp only [setStk_dead, setStk_vdead, setStk_stk_same, allPF_cons]
    exact ⟨pf_plain _ _ rfl rfl, h⟩

theorem allPF_drain (s : St) (t sz cbs thrown rest) (ec : List ObjId) (h : AllPF s.dead s.vdead rest) :
    AllPF (drain s t sz cbs thrown rest ec).dead (drain s t sz cbs thrown rest ec).vdead
      ((drain s t sz cbs thrown rest ec).stk t) := by
  induction ec generalizing s with
  | nil =>
    simp only [drain]; split
    · exact allPF_dDone _ _ _ _ h
    · simp only [setStk_dead, setStk_vdead, setStk_stk_same, allPF_cons]
      exact ⟨pf_plain _ _ rfl rfl, h⟩
  | cons k ec ih =>
    simp only [drain]; split
    · simp only [setStk_dead, setStk_vdead, setStk_stk_same, allPF_cons]
      exact ⟨pf_plain _ _ rfl rfl, pf_plain _ _ rfl rfl, h⟩
    · exact ih { s with ecs := s.ecs.erase (t, k) } h

theorem allPF_resume (s : St) (t fs) (h : AllPF s.dead s.vdead fs) :
    AllPF (resume s t fs).dead (resume s t fs).vdead ((resume s t fs).stk t) := by
  unfold resume; split
  · simp only [allPF_cons] at h; exact allPF_drain _ _ _ _ _ _ _ h.2
  · simp only [allPF_cons] at h; exact allPF_vdrain _ _ _ _ (h.1.2.2 rfl) h.2
  · simpa using h

theorem allPF_select (s : St) (t skip rest) (h : AllPF s.dead s.vdead rest) :
    AllPF (select s t skip rest).dead (select s t skip rest).vdead ((select s t skip rest).stk t) := by
  unfold select; dsimp only; split
  · simp only [setStk_dead, setStk_vdead, setStk_stk_same, allPF_cons]
    exact ⟨pf_plain _ _ rfl rfl, h⟩
  · simp only [setStk_dead, setStk_vdead, setStk_stk_same, allPF_cons]
    exact ⟨pf_plain _ _ rfl rfl, h⟩

theorem pf_gBody (d v) (len dc cnt : Nat) : PF d v (gBody len dc cnt) := by
  unfold gBody; split <;> exact pf_plain _ _ rfl rfl

theorem pf_gNext (d v) (len dc cnt es : Nat) : PF d v (gNext len dc cnt es) := by
  unfold gNext; repeat' split
  all_goals (first | exact pf_gBody _ _ _ _ _ | exact pf_plain _ _ rfl rfl)

theorem mayCall_dead {s : St} {t : Tid} (h : s.mayCall t = true) : s.dead = none := by
  simp only [St.mayCall, Bool.and_eq_true, Option.isNone_iff_eq_none] at h; exact h.2

theorem pf_add {s : St} {t : Tid} (hm : ¬(!s.mayCall t) = true) (v k mv) : PF s.dead v (.addCalled k mv) := by
  have hm' : s.mayCall t = true := by simpa using hm
  refine ⟨fun _ => mayCall_dead hm', ?_, ?_⟩
  · intro hx; exact Frame.noConfusion hx
  · intro hx; exact absurd hx (by simp [isX])

theorem allPF_stepUser {s s' : St} {t : Tid} {fs e} (h : stepUser s t fs e = some s') (hfs : s.stk t = fs)
    (hI : AllPF s.dead s.vdead fs) : AllPF s'.dead s'.vdead (s'.stk t) := by
  unfold stepUser at h
  split at h
  all_goals (try (repeat' (split at h)))
  all_goals (first | cases h | skip)
  all_goals (first
    | (show AllPF s.dead s.vdead (s.stk t); rw [hfs]; exact hI)
    | (simp only [setStk_dead, setStk_vdead, setStk_stk_same, allPF_cons]; exact ⟨pf_plain _ _ rfl rfl, hI⟩)
    | (simp only [setStk_dead, setStk_vdead, setStk_stk_same, allPF_cons]
       exact ⟨pf_add (by assumption) _ _ _, hI⟩)
    | (rename_i hc; obtain ⟨rfl, _⟩ := hc
       exact allPF_xTop { s with dead := some t } t 0 [] (by simp) (by simp))
    | skip)

theorem allPF_step {s s' : St} {t : Tid} {e} (h : step s t e = some s') (hI : AllPF s.dead s.vdead (s.stk t)) :
    AllPF s'.dead s'.vdead (s'.stk t) := by
  unfold step at h
  split at h
  all_goals (try rw [show s.stk t = _ from by assumption] at hI)
  all_goals (first | exact allPF_stepUser h (by assumption) hI | skip)
  all_goals (try (repeat' (split at h)))
  all_goals (first | cases h | skip)
  all_goals (simp only [allPF_cons] at hI)
  all_goals (first
    | (simp only [setStk_dead, setStk_vdead, setStk_stk_same, allPF_cons]
       first
       | exact ⟨pf_plain _ _ rfl rfl, hI.2⟩
       | exact ⟨pf_plain _ _ rfl rfl, pf_plain _ _ rfl rfl, hI.2⟩
       | exact ⟨pf_gNext _ _ _ _ _ _, hI.2⟩
       | exact ⟨pf_gBody _ _ _ _ _, hI.2⟩
       | exact hI.2)
    | exact allPF_dDone _ _ _ _ hI.2
    | exact allPF_drain _ _ _ _ _ _ _ hI.2
    | exact allPF_resume _ _ _ hI.2
    | exact allPF_select _ _ _ _ hI.2
    | exact allPF_xTop _ _ _ _ (hI.1.2.2 rfl) hI.2
    | skip)

/-! ### once the vector member is gone it stays empty -/

def G1 (s : St) : Prop := s.vdead = true → s.vec = [] ∧ s.dead ≠ none

theorem g1_vdrain {s : St} (t rest) (v : List ObjId) (hv : s.vec = v) (hd : s.dead ≠ none) (h : G1 s) :
    G1 (vdrain s t rest v) := by
  induction v generalizing s with
  | nil => intro _; exact ⟨rfl, hd⟩
  | cons a v ih =>
    simp only [vdrain]; split
    · intro hvd
      have := h hvd
      rw [hv] at this; exact absurd this.1 (by simp)
    · refine ih (s := { s with vec := v, vrel := a :: s.vrel }) rfl hd ?_
      intro hvd
      have := h hvd
      rw [hv] at this; exact absurd this.1 (by simp)

theorem g1_xTop {s : St} (t ii rest) (hd : s.dead ≠ none) (h : G1 s) : G1 (xTop s t ii rest) := by
  unfold xTop; split
  · rename_i hv; intro _; exact ⟨hv, hd⟩
  · exact h

theorem g1_xAfter {s : St} (t ii rest) (hd : s.dead ≠ none) (h : G1 s) : G1 (xAfter s t ii rest) := by
  unfold xAfter; repeat' split
  · rename_i hv; intro _; exact ⟨hv, hd⟩
  all_goals exact h

theorem g1_dDone {s : St} (t r rest) (hp : AllPF s.dead s.vdead rest) (h : G1 s) : G1 (dDone s t r rest) := by
  unfold dDone; split
  · exact h
  · simp only [allPF_cons] at hp; exact g1_xAfter _ _ _ (hp.1.2.2 rfl) h
  · simp only [allPF_cons] at hp; exact g1_vdrain _ _ _ rfl (hp.1.2.2 rfl) h
  · exact h

theorem g1_drain {s : St} (t sz cbs thrown rest) (ec : List ObjId) (hp : AllPF s.dead s.vdead rest) (h : G1 s) :
    G1 (drain s t sz cbs thrown rest ec) := by
  induction ec generalizing s with
  | nil => simp only [drain]; split; exact g1_dDone _ _ _ hp h; exact h
  | cons k ec ih =>
    simp only [drain]; split
    · exact h
    · exact ih (s := { s with ecs := s.ecs.erase (t, k) }) hp h

theorem g1_resume {s : St} (t fs) (hp : AllPF s.dead s.vdead fs) (h : G1 s) : G1 (resume s t fs) := by
  unfold resume; split
  · simp only [allPF_cons] at hp; exact g1_drain _ _ _ _ _ _ hp.2 h
  · simp only [allPF_cons] at hp; exact g1_vdrain _ _ _ rfl (hp.1.2.2 rfl) h
  · exact h

theorem g1_select {s : St} (t skip rest) (h : G1 s) : G1 (select s t skip rest) := by
  unfold select; dsimp only; split
  · exact h
  · intro hvd
    have := h hvd
    simp only [setStk_vec, setStk_dead]
    exact ⟨by rw [this.1]; rfl, this.2⟩

theorem g1_add {s : St} (t : Tid) (k : ObjId) (l : Option Tid) (e : ObjId → Nat) (fs) (hd : s.dead = none) (h : G1 s) :
    G1 ({ s with lock := l, vec := s.vec ++ [k], added := k :: s.added, ext := e }.setStk t fs) := by
  intro hvd
  exact absurd hd (h hvd).2

theorem g1_stepUser {s s' : St} {t : Tid} {fs e} (h : stepUser s t fs e = some s') (hI : G1 s) : G1 s' := by
  unfold stepUser at h
  split at h
  all_goals (try (repeat' (split at h)))
  all_goals (first | cases h | skip)
  all_goals (first
    | exact hI
    | exact g1_xTop (s := { s with dead := some t }) _ _ _ (by simp) (fun hv => ⟨(hI hv).1, by simp⟩))

theorem g1_step {s s' : St} {t : Tid} {e} (h : step s t e = some s') (hp : AllPF s.dead s.vdead (s.stk t))
    (hI : G1 s) : G1 s' := by
  unfold step at h
  split at h
  all_goals (try rw [show s.stk t = _ from by assumption] at hp)
  all_goals (first | exact g1_stepUser h hI | skip)
  all_goals (try (repeat' (split at h)))
  all_goals (first | cases h | skip)
  all_goals (simp only [allPF_cons] at hp)
  all_goals (first
    | exact hI
    | exact g1_add _ _ _ _ _ (hp.1.1 rfl) hI
    | exact g1_dDone _ _ _ hp.2 hI
    | exact g1_dDone (s := unlock s) _ _ _ hp.2 hI
    | exact g1_drain _ _ _ _ _ _ hp.2 hI
    | exact g1_drain (s := unlock s) _ _ _ _ _ _ hp.2 hI
    | exact g1_resume _ _ hp.2 hI
    | exact g1_select _ _ _ hI
    | exact g1_xTop _ _ _ (hp.1.2.2 rfl) hI)

@[simp] theorem select_dead (s : St) (t skip rest) : (select s t skip rest).dead = s.dead := by
  unfold select; dsimp only; split <;> rfl

theorem stepUser_dead {s s' : St} {t : Tid} {fs e} (h : stepUser s t fs e = some s') :
    s'.dead = s.dead ∨ s.act = [] := by
  unfold stepUser at h
  split at h
  all_goals (try (repeat' (split at h)))
  all_goals (first | cases h | skip)
  all_goals (first | (left; rfl) | (left; simp; done) | (right; rename_i hc; exact hc.2.1))

theorem step_dead {s s' : St} {t : Tid} {e} (h : step s t e = some s') : s'.dead = s.dead ∨ s.act = [] := by
  unfold step at h
  split at h
  all_goals (first | exact stepUser_dead h | skip)
  all_goals (try (repeat' (split at h)))
  all_goals (first | cases h | skip)
  all_goals (left; first | rfl | simp [unlock])

theorem vdead_vdrain (s : St) (t rest) (v : List ObjId) (h : s.vdead = true) : (vdrain s t rest v).vdead = true := by
  induction v generalizing s with
  | nil => rfl
  | cons a v ih => simp only [vdrain]; split; exact h; exact ih _ h
theorem vdead_xTop (s : St) (t ii rest) (h : s.vdead = true) : (xTop s t ii rest).vdead = true := by
  unfold xTop; split; rfl; exact h
theorem vdead_xAfter (s : St) (t ii rest) (h : s.vdead = true) : (xAfter s t ii rest).vdead = true := by
  unfold xAfter; repeat' split
  · rfl
  all_goals exact h
theorem vdead_dDone (s : St) (t r rest) (h : s.vdead = true) : (dDone s t r rest).vdead = true := by
  unfold dDone; split
  · exact h
  · exact vdead_xAfter _ _ _ _ h
  · exact vdead_vdrain _ _ _ _ h
  · exact h
theorem vdead_drain (s : St) (t sz cbs thrown rest) (ec : List ObjId) (h : s.vdead = true) :
    (drain s t sz cbs thrown rest ec).vdead = true := by
  induction ec generalizing s with
  | nil => simp only [drain]; split; exact vdead_dDone _ _ _ _ h; exact h
  | cons k ec ih => simp only [drain]; split; exact h; exact ih _ h
theorem vdead_resume (s : St) (t fs) (h : s.vdead = true) : (resume s t fs).vdead = true := by
  unfold resume; split
  · exact vdead_drain _ _ _ _ _ _ _ h
  · exact vdead_vdrain _ _ _ _ h
  · exact h
theorem vdead_select (s : St) (t skip rest) (h : s.vdead = true) : (select s t skip rest).vdead = true := by
  unfold select; dsimp only; split <;> exact h

theorem stepUser_vdead {s s' : St} {t : Tid} {fs e} (h : stepUser s t fs e = some s') (hv : s.vdead = true) :
    s'.vdead = true := by
  unfold stepUser at h
  split at h
  all_goals (try (repeat' (split at h)))
  all_goals (first | cases h | skip)
  all_goals (first | exact hv | exact vdead_xTop _ _ _ _ hv)

theorem step_vdead {s s' : St} {t : Tid} {e} (h : step s t e = some s') (hv : s.vdead = true) : s'.vdead = true := by
  unfold step at h
  split at h
  all_goals (first | exact stepUser_vdead h hv | skip)
  all_goals (try (repeat' (split at h)))
  all_goals (first | cases h | skip)
  all_goals (first
    | exact hv
    | exact vdead_dDone _ _ _ _ hv
    | exact vdead_drain _ _ _ _ _ _ _ hv
    | exact vdead_resume _ _ _ hv
    | exact vdead_select _ _ _ _ hv
    | exact vdead_xTop _ _ _ _ hv)

/-- the destructor-related invariant -/
structure Dt (s : St) : Prop where
  act : ActOk s
  pf : ∀ t, AllPF s.dead s.vdead (s.stk t)
  g1 : G1 s

theorem dt_step {s s' : St} {t : Tid} {e} (hI : Dt s) (h : step s t e = some s') : Dt s' := by
  refine ⟨actOk_step hI.act h, fun u => ?_, g1_step h (hI.pf t) hI.g1⟩
  by_cases hu : u = t
  · subst hu; exact allPF_step h (hI.pf u)
  · rw [step_stk_other h hu]
    rcases step_dead h with hd | ha
    · rw [hd]; exact (hI.pf u).mono (step_vdead h)
    · have : s.stk u = [] := by
        apply Classical.byContradiction; intro hne
        have := (hI.act u).mpr hne
        rw [ha] at this; cases this
      rw [this]; simp

theorem dt_init (cb ns nt) : Dt (init cb ns nt) :=
  ⟨actOk_init cb ns nt, fun t => by simp [init], fun h => by simp [init] at h⟩

end ConcVerif.DD
