import ConcVerif.Model.Rcu
/-! The transitions of `Model/Rcu.lean` as an inductive relation with one named constructor per
transition (`step_sound`: every accepted step of the executable `step` is one of them).  The
invariant proofs do case analysis on this relation. -/
namespace ConcVerif.Rcu

/-- coarse classification of events: the invariant proofs are split along it (one lemma per kind keeps each
proof within the default heartbeat budget) -/
inductive EvKind | call | ret | exc | mlk | mul | alo | afl | con | des | fre | ald | ast | cas | plain
  deriving DecidableEq

def Ev.kind : Ev → EvKind
  | .call _ => .call | .ret _ => .ret | .exc _ => .exc | .mlk => .mlk | .mul => .mul | .alo .. => .alo | .afl _ => .afl
  | .conN .. => .con | .conR .. => .con | .des .. => .des | .fre .. => .fre | .ald .. => .ald | .ast .. => .ast
  | .cas .. => .cas | .pldDel .. => .plain | .pstDel .. => .plain | .pldData .. => .plain | .pstData .. => .plain
  | .pldZn .. => .plain | .pstZn .. => .plain

inductive Step (s : St) (t : Tid) : Ev → St → Prop
  -- client calls
  | callLock (w : Bool) (hpc : s.pc t = .idle) (hh : s.hnd t = .none) (hd : s.dt = false) :
      Step s t (.call (.lock w)) (s.setPc t (.called (.lock w)))
  | callRel (hpc : s.pc t = .idle) (hh : s.hnd t ≠ .none) : Step s t (.call .rel) (s.setPc t (.called .rel))
  | callBeg (hpc : s.pc t = .idle) (hh : s.hnd t ≠ .none) : Step s t (.call .beg) (s.setPc t (.called .beg))
  | callNxt (w : Bool) (r c : Nat) (hpc : s.pc t = .idle) (hh : s.hnd t = .reg w r) (hi : s.it t = some (some c)) :
      Step s t (.call .nxt) (s.setPc t (.called .nxt))
  | callDer (w : Bool) (r c : Nat) (hpc : s.pc t = .idle) (hh : s.hnd t = .reg w r) (hi : s.it t = some (some c)) :
      Step s t (.call .der) (s.setPc t (.called .der))
  | callPush (f em : Bool) (v : Int) (hpc : s.pc t = .idle) (hh : (s.hnd t).isW = true) :
      Step s t (.call (.push f em v)) (s.setPc t (.called (.push f em v)))
  | callErase (adv : Bool) (r c : Nat) (hpc : s.pc t = .idle) (hh : s.hnd t = .reg true r) (hi : s.it t = some (some c)) :
      Step s t (.call (.erase adv)) (s.setPc t (.called (.erase adv)))
  | callDtor (hpc : s.pc t = .idle) (hl : s.live = []) (hd : s.dt = false) :
      Step s t (.call .dtor) ({ s with dt := true }.setPc t (.called .dtor))
  | retLock (w : Bool) (hpc : s.pc t = .called (.lock w)) (hd : s.dt = false) :
      Step s t (.ret (.lock w)) ({ s with hnd := upd s.hnd t (.fresh w), live := t :: s.live }.setPc t .idle)
  | relFresh (w : Bool) (hpc : s.pc t = .called .rel) (hh : s.hnd t = .fresh w) :
      Step s t (.ret .rel) ((s.dropHnd t).setPc t .idle)
  | relSome (w : Bool) (r m : Nat) (o : Ord) (hpc : s.pc t = .called .rel) (hh : s.hnd t = .reg w r) (ho : o.isSc = true)
      (hv : (s.recs r).next = some m) : Step s t (.ald (.rnext r) o (some m)) (s.setPc t (.uOwner r (some m) m))
  | relNone (w : Bool) (r : Nat) (o : Ord) (hpc : s.pc t = .called .rel) (hh : s.hnd t = .reg w r) (ho : o.isSc = true)
      (hv : (s.recs r).next = none) : Step s t (.ald (.rnext r) o none) (s.setPc t (.uTrunc r))
  | dtorHead (o : Ord) (hpc : s.pc t = .called .dtor) (ho : o.isSc = true) :
      Step s t (.ald .head o s.head) (s.dNodeAt t s.head)
  | regAlo (k : Op) (w : Bool) (hpc : s.pc t = .called k) (hk : k = .beg ∨ ∃ f em v, k = .push f em v)
      (hh : s.hnd t = .fresh w) :
      Step s t (.alo true s.nR) (({ s with nR := s.nR + 1 }.setRled s.nR .alloc).setPc t (.regAlloc k s.nR))
  | regFail (k : Op) (w : Bool) (hpc : s.pc t = .called k) (hk : k = .beg ∨ ∃ f em v, k = .push f em v)
      (hh : s.hnd t = .fresh w) : Step s t (.afl true) (s.setPc t (.rExc k))
  | rExc (k : Op) (hpc : s.pc t = .rExc k) : Step s t (.exc k) (s.setPc t .idle)
  | beg (w : Bool) (r : Nat) (o : Ord) (hpc : s.pc t = .called .beg) (hh : s.hnd t = .reg w r) (ho : o.isSc = true) :
      Step s t (.ald .head o s.head) ({ s with it := upd s.it t (some s.head) }.setPc t (.retp .beg))
  | nxt (w : Bool) (r n : Nat) (o : Ord) (hpc : s.pc t = .called .nxt) (hh : s.hnd t = .reg w r)
      (hi : s.it t = some (some n)) (ho : o.isSc = true) :
      Step s t (.ald (.nnext n) o (s.nodes n).next) ({ s with it := upd s.it t (some (s.nodes n).next) }.setPc t (.retp .nxt))
  | der (w : Bool) (r n : Nat) (hpc : s.pc t = .called .der) (hh : s.hnd t = .reg w r) (hi : s.it t = some (some n)) :
      Step s t (.pldData n (s.nodes n).val) (s.setPc t (.retp .der))
  | pushLock (f em : Bool) (v : Int) (r : Nat) (hpc : s.pc t = .called (.push f em v)) (hh : s.hnd t = .reg true r)
      (hm : s.wmtx = none) : Step s t .mlk ({ s with wmtx := some t }.setPc t (.pAlloc (.push f em v)))
  | eraseLock (adv : Bool) (r c : Nat) (hpc : s.pc t = .called (.erase adv)) (hh : s.hnd t = .reg true r)
      (hi : s.it t = some (some c)) (hm : s.wmtx = none) :
      Step s t .mlk ({ s with wmtx := some t }.setPc t (.eOrig c adv))
  | ret (k : Op) (hpc : s.pc t = .retp k) : Step s t (.ret k) (s.setPc t .idle)
  -- pushing a record
  | regPst (k : Op) (r : Nat) (hpc : s.pc t = .regAlloc k r) : Step s t (.pstZn r true) s
  | regCon (k : Op) (r : Nat) (hpc : s.pc t = .regAlloc k r) :
      Step s t (.conR r (some t) none)
        (({ s with recs := upd s.recs r { next := none, owner := some t, znode := none } }.setRled r .cons).setPc t (.regCons k r))
  | regZh (k : Op) (r : Nat) (o : Ord) (v : Option Nat) (hpc : s.pc t = .regCons k r) :
      Step s t (.ald .zhead o v) (s.setPc t (.pushStore (.reg k) r v))
  | pushStore (c : Cont) (r : Nat) (exp : Option Nat) (o : Ord) (hpc : s.pc t = .pushStore c r exp) :
      Step s t (.ast (.rnext r) o exp) ((s.setRNext r exp).setPc t (.pushCas c r exp))
  | casRegOk (k : Op) (r : Nat) (o : Ord) (hpc : s.pc t = .pushCas (.reg k) r s.zhead) (ho : o.isSc = true) :
      Step s t (.cas o s.zhead (some r) true s.zhead)
        ({ s with zhead := some r, log := r :: s.log, hnd := upd s.hnd t (.reg (s.hnd t).isW r) }.setPc t (.called k))
  | casEraseOk (orig : Option Nat) (r : Nat) (o : Ord) (hpc : s.pc t = .pushCas (.erase orig) r s.zhead) (ho : o.isSc = true) :
      Step s t (.cas o s.zhead (some r) true s.zhead)
        ({ s with zhead := some r, log := r :: s.log }.setPc t (.eUnlock orig))
  | casFail (c : Cont) (r : Nat) (exp : Option Nat) (o : Ord) (hpc : s.pc t = .pushCas c r exp) (ho : o.isSc = true) :
      Step s t (.cas o exp (some r) false s.zhead) (s.setPc t (.pushStore c r s.zhead))
  -- release
  | uOwnerActive (r : Nat) (cached : Option Nat) (m : Nat) (o : Ord) (u : Tid) (hpc : s.pc t = .uOwner r cached m)
      (ho : o.isSc = true) (hv : (s.recs m).owner = some u) : Step s t (.ald (.rowner m) o (some u)) (s.setPc t (.uClear r))
  | uOwnerInactive (r : Nat) (cached : Option Nat) (m : Nat) (o : Ord) (hpc : s.pc t = .uOwner r cached m)
      (ho : o.isSc = true) (hv : (s.recs m).owner = none) : Step s t (.ald (.rowner m) o none) (s.setPc t (.uNext r cached m))
  | uNextSome (r : Nat) (cached : Option Nat) (m m2 : Nat) (o : Ord) (hpc : s.pc t = .uNext r cached m)
      (ho : o.isSc = true) (hv : (s.recs m).next = some m2) :
      Step s t (.ald (.rnext m) o (some m2)) (s.setPc t (.uOwner r cached m2))
  | uNextNone (r : Nat) (cached : Option Nat) (m : Nat) (o : Ord) (hpc : s.pc t = .uNext r cached m)
      (ho : o.isSc = true) (hv : (s.recs m).next = none) : Step s t (.ald (.rnext m) o none) (s.reapAt t r cached)
  | rZnNode (r m d : Nat) (hpc : s.pc t = .rZn r m) (hz : (s.recs m).znode = some d) :
      Step s t (.pldZn m false) (s.setPc t (.rDesN r m d))
  | rZnNull (r m : Nat) (hpc : s.pc t = .rZn r m) (hz : (s.recs m).znode = none) :
      Step s t (.pldZn m true) (s.setPc t (.rNext r m))
  | rDesN (r m d : Nat) (hpc : s.pc t = .rDesN r m d) : Step s t (.des false d) ((s.setNled d .dest).setPc t (.rFreN r m d))
  | rFreN (r m d : Nat) (hpc : s.pc t = .rFreN r m d) : Step s t (.fre false d) ((s.setNled d .freed).setPc t (.rNext r m))
  | rNext (r m : Nat) (o : Ord) (hpc : s.pc t = .rNext r m) (ho : o.isSc = true) :
      Step s t (.ald (.rnext m) o (s.recs m).next) (s.setPc t (.rDesZ r m (s.recs m).next))
  | rDesZ (r m : Nat) (nx : Option Nat) (hpc : s.pc t = .rDesZ r m nx) :
      Step s t (.des true m) ((s.setRled m .dest).setPc t (.rFreZ r m nx))
  | rFreZ (r m : Nat) (nx : Option Nat) (hpc : s.pc t = .rFreZ r m nx) :
      Step s t (.fre true m) ((s.setRled m .freed).reapAt t r nx)
  | uTrunc (r : Nat) (o : Ord) (hpc : s.pc t = .uTrunc r) (ho : o.isSc = true) :
      Step s t (.ast (.rnext r) o none) ((s.setRNext r none).setPc t (.uClear r))
  | uClear (r : Nat) (o : Ord) (hpc : s.pc t = .uClear r) (ho : o.isSc = true) :
      Step s t (.ast (.rowner r) o none) (((s.setOwner r none).dropHnd t).setPc t (.retp .rel))
  -- push
  | pAlo (k : Op) (hpc : s.pc t = .pAlloc k) :
      Step s t (.alo false s.nN) (({ s with nN := s.nN + 1 }.setNled s.nN .alloc).setPc t (.pCons k s.nN))
  | pAloFail (k : Op) (hpc : s.pc t = .pAlloc k) : Step s t (.afl false) (s.setPc t (.pThrown k))
  | pPstDel (f em : Bool) (x : Int) (n : Nat) (hpc : s.pc t = .pCons (.push f em x) n) : Step s t (.pstDel n false) s
  | pPstData (f em : Bool) (x : Int) (n : Nat) (hpc : s.pc t = .pCons (.push f em x) n) : Step s t (.pstData n x) s
  | pCon (f em : Bool) (x : Int) (n : Nat) (hpc : s.pc t = .pCons (.push f em x) n) :
      Step s t (.conN n x)
        (({ s with nodes := upd s.nodes n { next := none, back := none, deleted := false, val := x } }.setNled n .cons).setPc t
          (.pLoad (.push f em x) n))
  | pThrow (f em : Bool) (x : Int) (n : Nat) (hpc : s.pc t = .pCons (.push f em x) n) :
      Step s t (.fre false n) ((s.setNled n .freed).setPc t (.pThrown (.push f em x)))
  | pThrownMul (k : Op) (hpc : s.pc t = .pThrown k) (hm : s.wmtx = some t) :
      Step s t .mul ({ s with wmtx := none }.setPc t (.pExc k))
  | pExc (k : Op) (hpc : s.pc t = .pExc k) : Step s t (.exc k) (s.setPc t .idle)
  | pLoadFrontNone (em : Bool) (x : Int) (n : Nat) (o : Ord) (hpc : s.pc t = .pLoad (.push true em x) n) (ho : o.isSc = true)
      (hv : s.head = none) : Step s t (.ald .head o none) (s.setPc t (.pE1 (.push true em x) n))
  | pLoadFrontSome (em : Bool) (x : Int) (n h : Nat) (o : Ord) (hpc : s.pc t = .pLoad (.push true em x) n) (ho : o.isSc = true)
      (hv : s.head = some h) : Step s t (.ald .head o (some h)) (s.setPc t (.pF1 (.push true em x) n h))
  | pLoadBackNone (em : Bool) (x : Int) (n : Nat) (o : Ord) (hpc : s.pc t = .pLoad (.push false em x) n)
      (hv : s.tail = none) : Step s t (.ald .tail o none) (s.setPc t (.pE1 (.push false em x) n))
  | pLoadBackSome (em : Bool) (x : Int) (n h : Nat) (o : Ord) (hpc : s.pc t = .pLoad (.push false em x) n)
      (hv : s.tail = some h) : Step s t (.ald .tail o (some h)) (s.setPc t (.pB1 (.push false em x) n h))
  | pE1 (k : Op) (n : Nat) (o : Ord) (hpc : s.pc t = .pE1 k n) (ho : o.isSc = true) :
      Step s t (.ast .head o (some n)) ({ s with head := some n, lst := n :: s.lst, order := n :: s.order }.setPc t (.pE2 k n))
  | pE2 (k : Op) (n : Nat) (o : Ord) (hpc : s.pc t = .pE2 k n) (ho : o.isSc = true) :
      Step s t (.ast .tail o (some n)) ({ s with tail := some n }.setPc t (.pUnlock k))
  | pF1 (k : Op) (n h : Nat) (o : Ord) (hpc : s.pc t = .pF1 k n h) (ho : o.isSc = true) :
      Step s t (.ast (.nnext n) o (some h)) ((s.setNext n (some h)).setPc t (.pF2 k n h))
  | pF2 (k : Op) (n h : Nat) (o : Ord) (hpc : s.pc t = .pF2 k n h) (ho : o.isSc = true) :
      Step s t (.ast (.nback h) o (some n)) ((s.setBack h (some n)).setPc t (.pF3 k n))
  | pF3 (k : Op) (n : Nat) (o : Ord) (hpc : s.pc t = .pF3 k n) (ho : o.isSc = true) :
      Step s t (.ast .head o (some n)) ({ s with head := some n, lst := n :: s.lst, order := n :: s.order }.setPc t (.pUnlock k))
  | pB1 (k : Op) (n h : Nat) (o : Ord) (hpc : s.pc t = .pB1 k n h) (ho : o.isSc = true) :
      Step s t (.ast (.nback n) o (some h)) ((s.setBack n (some h)).setPc t (.pB2 k n h))
  | pB2 (k : Op) (n h : Nat) (o : Ord) (hpc : s.pc t = .pB2 k n h) (ho : o.isSc = true) :
      Step s t (.ast (.nnext h) o (some n))
        ({ (s.setNext h (some n)) with lst := s.lst ++ [n], order := s.order ++ [n] }.setPc t (.pB3 k n))
  | pB3 (k : Op) (n : Nat) (o : Ord) (hpc : s.pc t = .pB3 k n) (ho : o.isSc = true) :
      Step s t (.ast .tail o (some n)) ({ s with tail := some n }.setPc t (.pUnlock k))
  | pUnlock (k : Op) (hpc : s.pc t = .pUnlock k) (hm : s.wmtx = some t) :
      Step s t .mul ({ s with wmtx := none }.setPc t (.retp k))
  -- erase
  | eOrig (c : Nat) (adv : Bool) (o : Ord) (hpc : s.pc t = .eOrig c adv) (ho : o.isSc = true) :
      Step s t (.ald (.nnext c) o (s.nodes c).next) (s.setPc t (.eDel c (if adv = true then (s.nodes c).next else some c)))
  | eDelDeleted (c : Nat) (orig : Option Nat) (hpc : s.pc t = .eDel c orig) (hv : (s.nodes c).deleted = true) :
      Step s t (.pldDel c true) (s.setPc t (.eUnlock orig))
  | eDelFresh (c : Nat) (orig : Option Nat) (hpc : s.pc t = .eDel c orig) (hv : (s.nodes c).deleted = false) :
      Step s t (.pldDel c false) (s.setPc t (.eAlloc c orig))
  | eAlo (c : Nat) (orig : Option Nat) (hpc : s.pc t = .eAlloc c orig) :
      Step s t (.alo true s.nR) (({ s with nR := s.nR + 1 }.setRled s.nR .alloc).setPc t (.eCons c orig s.nR))
  | eAloFail (c : Nat) (orig : Option Nat) (hpc : s.pc t = .eAlloc c orig) :
      Step s t (.afl true) (s.setPc t (.pThrown (.erase true)))
  | ePst (c : Nat) (orig : Option Nat) (z : Nat) (hpc : s.pc t = .eCons c orig z) : Step s t (.pstZn z false) s
  | eCon (c : Nat) (orig : Option Nat) (z : Nat) (hpc : s.pc t = .eCons c orig z) :
      Step s t (.conR z none (some c))
        (({ s with recs := upd s.recs z { next := none, owner := none, znode := some c } }.setRled z .cons).setPc t (.eMark c orig z))
  | eMark (c : Nat) (orig : Option Nat) (z : Nat) (hpc : s.pc t = .eMark c orig z) :
      Step s t (.pstDel c true) ((s.setDel c true).setPc t (.eBack c orig z))
  | eBack (c : Nat) (orig : Option Nat) (z : Nat) (o : Ord) (hpc : s.pc t = .eBack c orig z) (ho : o.isSc = true) :
      Step s t (.ald (.nback c) o (s.nodes c).back) (s.setPc t (.eNext c orig (s.nodes c).back z))
  | eNext (c : Nat) (orig p : Option Nat) (z : Nat) (o : Ord) (hpc : s.pc t = .eNext c orig p z) (ho : o.isSc = true) :
      Step s t (.ald (.nnext c) o (s.nodes c).next) (s.setPc t (.eUnl c orig p (s.nodes c).next z))
  | eUnlPrev (c : Nat) (orig : Option Nat) (pp : Nat) (x : Option Nat) (z : Nat) (o : Ord)
      (hpc : s.pc t = .eUnl c orig (some pp) x z) (ho : o.isSc = true) :
      Step s t (.ast (.nnext pp) o x) ({ (s.setNext pp x) with lst := s.lst.erase c }.setPc t (.eFix c orig (some pp) x z))
  | eUnlHead (c : Nat) (orig x : Option Nat) (z : Nat) (o : Ord) (hpc : s.pc t = .eUnl c orig none x z) (ho : o.isSc = true) :
      Step s t (.ast .head o x) ({ s with head := x, lst := s.lst.erase c }.setPc t (.eFix c orig none x z))
  | eFixNext (c : Nat) (orig p : Option Nat) (xx z : Nat) (o : Ord) (hpc : s.pc t = .eFix c orig p (some xx) z)
      (ho : o.isSc = true) : Step s t (.ast (.nback xx) o p) ((s.setBack xx p).setPc t (.eZh orig z))
  | eFixTail (c : Nat) (orig p : Option Nat) (z : Nat) (o : Ord) (hpc : s.pc t = .eFix c orig p none z) (ho : o.isSc = true) :
      Step s t (.ast .tail o p) ({ s with tail := p }.setPc t (.eZh orig z))
  | eZh (orig : Option Nat) (z : Nat) (o : Ord) (v : Option Nat) (hpc : s.pc t = .eZh orig z) :
      Step s t (.ald .zhead o v) (s.setPc t (.pushStore (.erase orig) z v))
  | eUnlock (orig : Option Nat) (hpc : s.pc t = .eUnlock orig) (hm : s.wmtx = some t) :
      Step s t .mul ({ s with wmtx := none, it := upd s.it t (some orig) }.setPc t (.retp (.erase true)))
  -- destructor
  | dNext (m : Nat) (o : Ord) (hpc : s.pc t = .dNext m) (ho : o.isSc = true) :
      Step s t (.ald (.nnext m) o (s.nodes m).next) (s.setPc t (.dDesN m (s.nodes m).next))
  | dDesN (m : Nat) (nx : Option Nat) (hpc : s.pc t = .dDesN m nx) :
      Step s t (.des false m) ((s.setNled m .dest).setPc t (.dFreN m nx))
  | dFreN (m : Nat) (nx : Option Nat) (hpc : s.pc t = .dFreN m nx) :
      Step s t (.fre false m) ({ (s.setNled m .freed) with lst := s.lst.erase m }.dNodeAt t nx)
  | dZhead (o : Ord) (hpc : s.pc t = .dZhead) (ho : o.isSc = true) : Step s t (.ald .zhead o s.zhead) (s.dRecAt t s.zhead)
  | dOwner (m : Nat) (o : Ord) (hpc : s.pc t = .dOwner m) (ho : o.isSc = true) (hv : (s.recs m).owner = none) :
      Step s t (.ald (.rowner m) o none) (s.setPc t (.dRNext m))
  | dRNext (m : Nat) (o : Ord) (hpc : s.pc t = .dRNext m) (ho : o.isSc = true) :
      Step s t (.ald (.rnext m) o (s.recs m).next) (s.setPc t (.dZn m (s.recs m).next))
  | dZnNode (m : Nat) (nx : Option Nat) (d : Nat) (hpc : s.pc t = .dZn m nx) (hz : (s.recs m).znode = some d) :
      Step s t (.pldZn m false) (s.setPc t (.dDesZN m nx d))
  | dZnNull (m : Nat) (nx : Option Nat) (hpc : s.pc t = .dZn m nx) (hz : (s.recs m).znode = none) :
      Step s t (.pldZn m true) (s.setPc t (.dDesZ m nx))
  | dDesZNpld (m : Nat) (nx : Option Nat) (d : Nat) (hpc : s.pc t = .dDesZN m nx d) : Step s t (.pldZn m false) s
  | dDesZN (m : Nat) (nx : Option Nat) (d : Nat) (hpc : s.pc t = .dDesZN m nx d) :
      Step s t (.des false d) ((s.setNled d .dest).setPc t (.dFreZN m nx d))
  | dFreZNpld (m : Nat) (nx : Option Nat) (d : Nat) (hpc : s.pc t = .dFreZN m nx d) : Step s t (.pldZn m false) s
  | dFreZN (m : Nat) (nx : Option Nat) (d : Nat) (hpc : s.pc t = .dFreZN m nx d) :
      Step s t (.fre false d) ((s.setNled d .freed).setPc t (.dDesZ m nx))
  | dDesZ (m : Nat) (nx : Option Nat) (hpc : s.pc t = .dDesZ m nx) :
      Step s t (.des true m) ((s.setRled m .dest).setPc t (.dFreZ m nx))
  | dFreZ (m : Nat) (nx : Option Nat) (hpc : s.pc t = .dFreZ m nx) :
      Step s t (.fre true m) ((s.setRled m .freed).dRecAt t nx)

end ConcVerif.Rcu

namespace ConcVerif.Rcu

theorem step_sound {s s' : St} {t : Tid} {e : Ev} (h : step s t e = some s') : Step s t e s' := by
  unfold step at h
  split at h
  all_goals (repeat' split at h)
  all_goals (try contradiction)
  all_goals (injection h with h; subst h)
  all_goals (try (first
    | (rename_i hc; have ⟨h1, h2, h3, h4, h5⟩ := hc; clear hc)
    | (rename_i hc; have ⟨h1, h2, h3, h4⟩ := hc; clear hc)
    | (rename_i hc; have ⟨h1, h2, h3⟩ := hc; clear hc)
    | (rename_i hc; have ⟨h1, h2⟩ := hc; clear hc)
    | (rename_i hc _; have ⟨h1, h2, h3, h4, h5⟩ := hc; clear hc)
    | (rename_i hc _; have ⟨h1, h2, h3, h4⟩ := hc; clear hc)
    | (rename_i hc _; have ⟨h1, h2, h3⟩ := hc; clear hc)
    | (rename_i hc _; have ⟨h1, h2⟩ := hc; clear hc)
    | (rename_i hc _ _; have ⟨h1, h2, h3, h4, h5⟩ := hc; clear hc)
    | (rename_i hc _ _; have ⟨h1, h2, h3, h4⟩ := hc; clear hc)
    | (rename_i hc _ _; have ⟨h1, h2, h3⟩ := hc; clear hc)
    | (rename_i hc _ _; have ⟨h1, h2⟩ := hc; clear hc)))
  all_goals (try (have h6 := h5 rfl; clear h5))
  all_goals (try simp only [Bool.not_eq_true] at *)
  all_goals (try subst_vars)
  all_goals (try (constructor <;> first | assumption | (symm; assumption) | (simp_all; done)))
  all_goals first
    | exact Step.pB3 _ _ _ (by assumption) (by assumption)
    | exact Step.eOrig _ _ _ (by assumption) (by assumption)
    | exact Step.dFreZNpld _ _ _ (by assumption)
    | exact Step.pExc _ (by assumption)
    | exact Step.rExc _ (by assumption)
    | (rw [‹(s.recs _).znode = none›]
       first
       | exact Step.rZnNull _ _ (by assumption) (by assumption)
       | exact Step.dZnNull _ _ (by assumption) (by assumption))
    | (obtain ⟨rfl, rfl⟩ := ‹_ ∧ _›
       rw [‹(s.recs _).znode = some _›]
       first
       | exact Step.rZnNode _ _ _ (by assumption) (by assumption)
       | exact Step.dZnNode _ _ _ (by assumption) (by assumption))
    | (obtain ⟨h1, h2, h3, h4, h5⟩ := ‹_ ∧ _›
       have h6 := h5 rfl
       subst_vars
       first
       | exact Step.casRegOk _ _ _ (by assumption) (by assumption)
       | exact Step.casEraseOk _ _ _ (by assumption) (by assumption))

end ConcVerif.Rcu
