import ConcVerif.Proof.HBCowFacts
/-! cow_guarded and happens-before, part 5: the happens-before image of the projected left-right trace embeds into
the cow trace's, so the left-right theorem orders the accesses of the two `shared_ptr` copies of `m_data`. -/
namespace ConcVerif.Cow
open ConcVerif.LR (Side)

/-- cow position of a projected left-right event -/
def pf (P : List PEv) (i : Nat) : Nat :=
  match P[i]? with
  | some a => a.1
  | none => 0

theorem toHB_nofork (o : LR.Ords) (e : LR.Ev) (u : Tid) : LR.toHB o e ≠ .fork u ∧ LR.toHB o e ≠ .join u := by
  cases e <;> simp [LR.toHB]

theorem proj_get {P : List PEv} {i : Nat} {t : Tid} {e : LR.Ev} (h : (P.map (fun x => x.2))[i]? = some (t, e)) :
    ∃ k, P[i]? = some (k, t, e) := by
  obtain ⟨a, h1, h2⟩ := get_map_inv h
  obtain ⟨k, t', e'⟩ := a
  injection h2 with h3 h4
  exact ⟨k, by rw [h1, h3, h4]⟩

theorem cow_embed {o : LR.Ords} {pay b : Bool} {es : List (Tid × Ev)} {s : St} {P : List PEv} (h : ProjP o pay b es s P) :
    HB.Embed (LR.hbTrace o (P.map (fun x => x.2))) (hbTraceC o pay es) (pf P) := by
  refine ⟨?_, ?_, ?_, ?_, ?_, ?_⟩
  · intro i j hij hj
    simp only [LR.hbTrace_length, List.length_map] at hj
    have hi : i < P.length := by omega
    simp only [pf, List.getElem?_eq_getElem hi, List.getElem?_eq_getElem hj]
    exact h.sorted i j _ _ hij (List.getElem?_eq_getElem hi) (List.getElem?_eq_getElem hj)
  · intro i t he hi
    obtain ⟨e, h1, _⟩ := LR.hbTrace_get_inv hi
    obtain ⟨k, hk⟩ := proj_get h1
    obtain ⟨ce, h2, _⟩ := h.thr i k t e hk
    exact ⟨toHBc o pay ce, by simp only [pf, hk]; exact hbTraceC_get h2⟩
  · intro i t he hi hne
    obtain ⟨e, h1, h3⟩ := LR.hbTrace_get_inv hi
    obtain ⟨k, hk⟩ := proj_get h1
    obtain ⟨ce, h2, h4⟩ := h.thr i k t e hk
    rcases h4 with h4 | h4
    · rw [h4] at h3; exact absurd h3.symm hne
    · simp only [pf, hk]; rw [← h3, h4]; exact hbTraceC_get h2
  · intro i j t u he he' hij hi hj n1 n2
    obtain ⟨e, h1, h3⟩ := LR.hbTrace_get_inv hi
    obtain ⟨e', h1', h3'⟩ := LR.hbTrace_get_inv hj
    obtain ⟨k, hk⟩ := proj_get h1
    obtain ⟨k', hk'⟩ := proj_get h1'
    simp only [pf, hk, hk']
    have hle := h.sorted i j _ _ (Nat.le_of_lt hij) hk hk'
    rcases Nat.lt_or_eq_of_le hle with g | g
    · exact g
    · exfalso
      simp only at g
      subst g
      rcases h.one i j k t u e e' hij hk hk' with g | g
      · exact n1 (by rw [← h3, g])
      · exact n2 (by rw [← h3', g])
  · intro p t a od hp
    obtain ⟨ce, h1, h2⟩ := hbTraceC_get_inv hp
    obtain ⟨i, e, h3, h4⟩ := h.st p t ce a od h1 h2
    refine ⟨i, by simp [pf, h3], ?_⟩
    have : (P.map (fun x => x.2))[i]? = some (t, e) := by simp [h3]
    rw [← h4]; exact LR.hbTrace_get this
  · intro i t u
    refine ⟨?_, ?_⟩ <;> intro hc <;> obtain ⟨e, _, h3⟩ := LR.hbTrace_get_inv hc
    · exact (toHB_nofork o e u).1 h3
    · exact (toHB_nofork o e u).2 h3

/-- two cow events that access the same `shared_ptr` copy of `m_data` through the left-right model, at least one of
them inside an assignment window of a release -/
def SideConf (e1 e2 : Ev) : Prop :=
  ∃ x, ((∃ v, e1 = .stPtr x v) ∧ ((∃ v, e2 = .stPtr x v) ∨ ∃ v, e2 = .ldPtr x v)) ∨
       ((∃ v, e1 = .ldPtr x v) ∧ ∃ v, e2 = .stPtr x v)

/-- **the two `shared_ptr` copies**: the store that opens an assignment window on a side happens-after every earlier
load of that side's pointer word under a read handle and every earlier window on it; a load of the pointer word
happens-after every earlier window on that side (`C07_lr_order` through the projection) -/
theorem cow_lr_order {o : LR.Ords} (ho : o.OK) {pay b : Bool} {es : List (Tid × Ev)} {s : St} (h : run (init b) es = some s)
    {q r : Nat} {t0 u : Tid} {e1 e2 : Ev} (hqr : q < r) (hq : es[q]? = some (t0, e1)) (hr : es[r]? = some (u, e2))
    (hc : SideConf e1 e2) : HB.HB (hbTraceC o pay es) q r := by
  obtain ⟨P, hP⟩ := projP_run o pay h
  have E := cow_embed hP
  -- the projected positions and events
  have key : ∀ (i j : Nat) (a a' : LR.Ev), P[i]? = some (q, t0, a) → P[j]? = some (r, u, a') → LR.LRConf a a' →
      LR.toHB o a ≠ .nop → LR.toHB o a' ≠ .nop → HB.HB (hbTraceC o pay es) q r := by
    intro i j a a' hi hj hconf n1 n2
    have hij : i < j := by
      apply Classical.byContradiction
      intro hn
      have := hP.sorted j i _ _ (by omega) hj hi
      simp at this; omega
    have li : (P.map (fun x => x.2))[i]? = some (t0, a) := by simp [hi]
    have lj : (P.map (fun x => x.2))[j]? = some (u, a') := by simp [hj]
    have hb := LR.lr_order ho hP.run hij li lj hconf
    have := E.hb hb (LR.hbTrace_get li) (LR.hbTrace_get lj) n1 n2
    simpa [pf, hi, hj] using this
  obtain ⟨x, ⟨⟨v, rfl⟩, ⟨v', rfl⟩ | ⟨v', rfl⟩⟩ | ⟨⟨v, rfl⟩, ⟨v', rfl⟩⟩⟩ := hc
  · obtain ⟨i, hi⟩ := hP.wr q t0 x v hq
    obtain ⟨j, hj⟩ := hP.wr r u x v' hr
    exact key i j _ _ hi hj ⟨x, .inl ⟨rfl, .inl rfl⟩⟩ (by simp [LR.toHB]) (by simp [LR.toHB])
  · obtain ⟨i, hi⟩ := hP.wr q t0 x v hq
    obtain ⟨j, val, hj⟩ := hP.rd r u x v' hr
    exact key i j _ _ hi hj ⟨x, .inl ⟨rfl, .inr rfl⟩⟩ (by simp [LR.toHB]) (by simp [LR.toHB])
  · obtain ⟨i, val, hi⟩ := hP.rd q t0 x v hq
    obtain ⟨j, hj⟩ := hP.wr r u x v' hr
    exact key i j _ _ hi hj ⟨x, .inr ⟨.inr rfl, rfl⟩⟩ (by simp [LR.toHB]) (by simp [LR.toHB])

end ConcVerif.Cow
