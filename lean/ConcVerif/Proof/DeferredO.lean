import ConcVerif.Proof.DeferredC
/-! Groups F (the pending flag), O (order of application) and U (outcomes / futures) of the
`deferred_guarded` invariants, the combined invariant and its preservation. -/
namespace ConcVerif.Deferred

/-! ## group F: a queued task is never hidden from the drainers -/

/-- queued task `k` of submitter `u` is announced: the flag is up, or `u` is about to raise it, or a
drainer that has cleared the flag has not yet swapped the queue out (it will take `k` along) -/
def FlagOK (s : St) (k : TaskId) (u : Tid) : Prop :=
  s.flag = true ∨ (s.pc u).atFlag = some k ∨ ∃ d, s.mx = some d ∧ (s.pc d).between = true

structure InvF (s : St) : Prop where
  flagI : ∀ k, k ∈ s.queue → ∀ u, s.sub k = some u → FlagOK s k u

theorem invF_init (spur : Bool) : InvF (init spur) := by
  constructor; simp [init]

theorem invF_congr {s s' : St} (h : InvF s) (hpc : s'.pc = s.pc) (hq : s'.queue = s.queue) (hsub : s'.sub = s.sub)
    (hflag : s'.flag = s.flag) (hmx : s'.mx = s.mx) : InvF s' := by
  constructor
  intro k hk u hs
  rw [hq] at hk; rw [hsub] at hs
  simp only [FlagOK, hpc, hflag, hmx]
  exact h.flagI k hk u hs

/-- pc move of `t`; the queue keeps its elements and their submitters; flag and `m` unchanged -/
theorem invF_move {s s' : St} {t : Tid} {p' : Pc} (h : InvF s) (hpc : s'.pc = upd s.pc t p')
    (hat : ∀ k, (s.pc t).atFlag = some k → p'.atFlag = some k)
    (hbt : (s.pc t).between = true → p'.between = true)
    (hq : s'.queue = s.queue) (hsub : ∀ k u, k ∈ s.queue → s'.sub k = some u → s.sub k = some u)
    (hflag : s'.flag = s.flag) (hmx : s'.mx = s.mx) : InvF s' := by
  constructor
  intro k hk u hs
  rw [hq] at hk
  rcases h.flagI k hk u (hsub k u hk hs) with hf | ha | ⟨d, hd, hb⟩
  · exact Or.inl (by rw [hflag]; exact hf)
  · right; left; rw [hpc]
    by_cases hu : u = t
    · subst hu; simp [hat k ha]
    · simp [hu, ha]
  · right; right; refine ⟨d, by rw [hmx]; exact hd, ?_⟩
    rw [hpc]
    by_cases hdt : d = t
    · subst hdt; simp [hbt hb]
    · simp [hdt, hb]

/-- `m` changes hands while nobody is between clearing the flag and swapping the queue -/
theorem invF_mx {s s' : St} {t : Tid} {p' : Pc} (h : InvF s) (hpc : s'.pc = upd s.pc t p')
    (hat : ∀ k, (s.pc t).atFlag = some k → p'.atFlag = some k)
    (hnb : ∀ d, s.mx = some d → (s.pc d).between = false)
    (hq : s'.queue = s.queue) (hsub : s'.sub = s.sub) (hflag : s'.flag = s.flag) : InvF s' := by
  constructor
  intro k hk u hs
  rw [hq] at hk; rw [hsub] at hs
  rcases h.flagI k hk u hs with hf | ha | ⟨d, hd, hb⟩
  · exact Or.inl (by rw [hflag]; exact hf)
  · right; left; rw [hpc]
    by_cases hu : u = t
    · subst hu; simp [hat k ha]
    · simp [hu, ha]
  · rw [hnb d hd] at hb; cases hb

theorem invF_step {s s' : St} {t : Tid} (hL : InvL s) (hC : InvC s) (h : InvF s) (hs : Step s t s') : InvF s' := by
  cases hs with
  | stutter => exact h
  | wr v hr _ => exact invF_congr h rfl rfl rfl rfl rfl
  | move p p' hp hc =>
    subst hp
    exact invF_move h rfl (by intro k hk; rw [hc.atFlag]; exact hk) (by rw [hc.between]; exact id) rfl
      (fun _ _ _ hs => hs) rfl rfl
  | skipDrain c hp hf => exact invF_move h rfl (by cls) (by cls) rfl (fun _ _ _ hs => hs) rfl rfl
  | skipShared c hp hf => exact invF_move h rfl (by cls) (by cls) rfl (fun _ _ _ hs => hs) rfl rfl
  | failTry p p' hp hpp hfail =>
    subst hp
    rcases hpp with ⟨k, a, h1, h2⟩ | ⟨c, h1, h2⟩ <;> subst h2 <;>
      exact invF_move h rfl (by cls) (by cls) rfl (fun _ _ _ hs => hs) rfl rfl
  | call k a hp hsub =>
    refine invF_move h rfl (by cls) (by cls) rfl ?_ rfl rfl
    intro k' u hk' hs'
    have hne : k' ≠ k := by
      intro he; subst he; exact hC.seqSub k' (Or.inr (Or.inr hk')) hsub
    simpa [St.setPc, upd, hne] using hs'
  | lockX p p' hp hpp hm hs =>
    subst hp
    rcases hpp with ⟨k, a, h1, h2⟩ | ⟨c, h1, h2⟩ <;> subst h2 <;>
      exact invF_mx h rfl (by cls) (by intro d hd; rw [hm] at hd; cases hd) rfl rfl rfl
  | unlockXm k a thr hp hm =>
    exact invF_mx h rfl (by cls) (by intro d hd; rw [hm] at hd; injection hd with hd; subst hd; simp [hp, Pc.between])
      rfl rfl rfl
  | unlockXs c hp hb hm =>
    exact invF_mx h rfl (by cls) (by intro d hd; rw [hm] at hd; injection hd with hd; subst hd; simp [hp, Pc.between])
      rfl rfl rfl
  | lockS c p' hp hp' hm =>
    rcases hp' with h2 | h2 <;> subst h2 <;>
      exact invF_move h rfl (by cls) (by cls) rfl (fun _ _ _ hs => hs) rfl rfl
  | unlockS p p' hp hpp hin =>
    subst hp
    rcases hpp with ⟨h1, h2⟩ | ⟨thr, h1, h2⟩ <;> subst h2 <;>
      exact invF_move h rfl (by cls) (by cls) rfl (fun _ _ _ hs => hs) rfl rfl
  | lockQ p p' hp hpp hq =>
    subst hp
    rcases hpp with ⟨k, a, h1, h2⟩ | ⟨c, h1, h2⟩ <;> subst h2 <;>
      exact invF_move h rfl (by cls) (by cls) rfl (fun _ _ _ hs => hs) rfl rfl
  | push k a hp hq =>
    constructor
    intro k' hk' u hs'
    simp only [St.setPc, List.mem_append, List.mem_singleton] at hk' hs'
    simp only [FlagOK, St.setPc]
    rcases hk' with hk' | hk'
    · rcases h.flagI k' hk' u hs' with hf | ha | ⟨d, hd, hb⟩
      · exact Or.inl hf
      · right; left
        by_cases hu : u = t
        · subst hu; simp [hp, Pc.atFlag] at ha
        · simp [hu, ha]
      · right; right; refine ⟨d, hd, ?_⟩
        by_cases hdt : d = t
        · subst hdt; simp [hp, Pc.between] at hb
        · simp [hdt, hb]
    · subst hk'
      have : s.sub k' = some t := hC.own t k' (by simp [hp, Pc.task])
      rw [this] at hs'; injection hs' with hs'; subst hs'
      right; left; simp [Pc.atFlag]
  | raise k a hp =>
    constructor
    intro k' _ u _
    exact Or.inl rfl
  | clear c hp =>
    constructor
    intro k' _ u _
    right; right
    exact ⟨t, (hL.mxP t).2 (by simp [hp, Pc.holdsX]), by simp [St.setPc, Pc.between]⟩
  | swap c hp hq hb =>
    constructor
    intro k' hk'
    simp [St.setPc] at hk'
  | applyHead c j rest hp hb => exact invF_move h rfl (by cls) (by cls) rfl (fun _ _ _ hs => hs) rfl rfl
  | applyOwn k a hp hb => exact invF_move h rfl (by cls) (by cls) rfl (fun _ _ _ hs => hs) rfl rfl
  | endHead c j o hp => exact invF_move h rfl (by cls) (by cls) rfl (fun _ _ _ hs => hs) rfl rfl
  | endOwn k a thr o hp => exact invF_move h rfl (by cls) (by cls) rfl (fun _ _ _ hs => hs) rfl rfl
  | done k a thr hp => exact invF_move h rfl (by cls) (by cls) rfl (fun _ _ _ hs => hs) rfl rfl

/-- A task whose submitting call has returned is applied, in the drainer's batch, or queued; and if
it is still queued the flag is up, unless a drainer that already cleared it is about to swap. -/
theorem returned_where {s : St} (hC : InvC s) (hF : InvF s) {a : TaskId} (hd : a ∈ s.done) :
    a ∈ s.applied ∨ a ∈ s.batch ∨
      (a ∈ s.queue ∧ (s.flag = true ∨ ∃ d, s.mx = some d ∧ (s.pc d).between = true)) := by
  have hsub := hC.doneSub a hd
  cases hu : s.sub a with
  | none => exact absurd hu hsub
  | some u =>
    rcases hC.cons a u hu with hin | hpre
    · rcases hin with h1 | h1 | h1
      · exact Or.inl h1
      · exact Or.inr (Or.inl h1)
      · right; right; refine ⟨h1, ?_⟩
        rcases hF.flagI a h1 u hu with hf | ha | hb
        · exact Or.inl hf
        · exact absurd hd (hC.notDone u a (Pc.atFlag_task ha))
        · exact Or.inr hb
    · exact absurd hd (hC.notDone u a (Pc.prePub_task hpre))

/-! ## group O: order -/

theorem Prec.head_mem {x : TaskId} {l : List TaskId} {a : TaskId} (h : Prec (x :: l) a x) : x ∈ l := by
  obtain ⟨l1, l2, hl, ha⟩ := h
  cases l1 with
  | nil => simp at ha
  | cons y ys =>
    simp only [List.cons_append, List.cons.injEq] at hl
    rw [hl.2]; simp

structure InvO (s : St) : Prop where
  p1 : ∀ b, b ∈ s.applied → ∀ a, a ∈ s.before b → Prec s.applied a b
  p2 : ∀ b, b ∈ s.batch → ∀ a, a ∈ s.before b → a ∈ s.applied ∨ Prec s.batch a b
  p3 : ∀ b, b ∈ s.queue → ∀ a, a ∈ s.before b → a ∈ s.applied ∨ a ∈ s.batch ∨ Prec s.queue a b
  prom : ∀ u k, (s.pc u).promise = some k → ∀ a, a ∈ s.before k → a ∈ s.applied ∨ a ∈ s.batch

theorem invO_init (spur : Bool) : InvO (init spur) := by
  constructor <;> simp [init, Pc.promise]

theorem invO_congr {s s' : St} (h : InvO s) (hpc : s'.pc = s.pc) (ha : s'.applied = s.applied)
    (hb : s'.batch = s.batch) (hq : s'.queue = s.queue) (hbf : s'.before = s.before) : InvO s' := by
  obtain ⟨h1, h2, h3, h4⟩ := h
  refine ⟨?_, ?_, ?_, ?_⟩
  · rw [ha, hbf]; exact h1
  · rw [ha, hb, hbf]; exact h2
  · rw [ha, hb, hq, hbf]; exact h3
  · rw [ha, hb, hbf, hpc]; exact h4

/-- pc move of `t`; sequences and `before` unchanged; a new promise must be justified -/
theorem invO_move {s s' : St} {t : Tid} {p' : Pc} (h : InvO s) (hpc : s'.pc = upd s.pc t p')
    (hprom : ∀ k, p'.promise = some k →
      (s.pc t).promise = some k ∨ ∀ a, a ∈ s.before k → a ∈ s.applied ∨ a ∈ s.batch)
    (ha : s'.applied = s.applied) (hb : s'.batch = s.batch) (hq : s'.queue = s.queue)
    (hbf : s'.before = s.before) : InvO s' := by
  obtain ⟨h1, h2, h3, h4⟩ := h
  refine ⟨?_, ?_, ?_, ?_⟩
  · rw [ha, hbf]; exact h1
  · rw [ha, hb, hbf]; exact h2
  · rw [ha, hb, hq, hbf]; exact h3
  · rw [ha, hb, hbf, hpc]
    intro u k hk
    by_cases hu : u = t
    · subst hu
      simp only [upd_same] at hk
      rcases hprom k hk with hold | hnew
      · exact h4 u k hold
      · exact hnew
    · simp only [upd_other _ _ _ _ hu] at hk; exact h4 u k hk

theorem invO_step {s s' : St} {t : Tid} (hL : InvL s) (hC : InvC s) (hF : InvF s) (h : InvO s) (hs : Step s t s') :
    InvO s' := by
  have none_prom : ∀ {p' : Pc}, p'.promise = none → ∀ k, p'.promise = some k →
      (s.pc t).promise = some k ∨ ∀ a, a ∈ s.before k → a ∈ s.applied ∨ a ∈ s.batch := by
    intro p' hn k hk; rw [hn] at hk; cases hk
  cases hs with
  | stutter => exact h
  | wr v hr _ => exact invO_congr h rfl rfl rfl rfl rfl
  | move p p' hp hc =>
    subst hp
    exact invO_move h rfl (by intro k hk; rw [hc.promise] at hk; exact Or.inl hk) rfl rfl rfl rfl
  | skipDrain c hp hf =>
    refine invO_move h rfl ?_ rfl rfl rfl rfl
    intro k hk
    right
    intro a ha
    rcases returned_where hC hF (hC.bef k a ha) with h1 | h1 | ⟨_, h1 | ⟨d, hd, hb⟩⟩
    · exact Or.inl h1
    · exact Or.inr h1
    · rw [hf] at h1; cases h1
    · have hdt : d = t := by
        have := (hL.mxP t).2 (by simp [hp, Pc.holdsX]); rw [this] at hd; injection hd with hd; exact hd.symm
      subst hdt; simp [hp, Pc.between] at hb
  | skipShared c hp hf => exact invO_move h rfl (none_prom (by simp [Pc.promise])) rfl rfl rfl rfl
  | failTry p p' hp hpp hfail =>
    subst hp
    rcases hpp with ⟨k, a, h1, h2⟩ | ⟨c, h1, h2⟩ <;> subst h2 <;>
      exact invO_move h rfl (none_prom (by simp [Pc.promise])) rfl rfl rfl rfl
  | call k a hp hsub =>
    have hnk : ∀ b, s.inSeq b → b ≠ k := by
      intro b hb he; subst he; exact hC.seqSub b hb hsub
    obtain ⟨h1, h2, h3, h4⟩ := h
    refine ⟨?_, ?_, ?_, ?_⟩
    · intro b hb a' ha'
      simp only [St.setPc] at hb ha' ⊢
      have hne := hnk b (Or.inl hb)
      simp only [upd, hne, if_false] at ha'
      exact h1 b hb a' ha'
    · intro b hb a' ha'
      simp only [St.setPc] at hb ha' ⊢
      have hne := hnk b (Or.inr (Or.inl hb))
      simp only [upd, hne, if_false] at ha'
      exact h2 b hb a' ha'
    · intro b hb a' ha'
      simp only [St.setPc] at hb ha' ⊢
      have hne := hnk b (Or.inr (Or.inr hb))
      simp only [upd, hne, if_false] at ha'
      exact h3 b hb a' ha'
    · intro u k' hk' a' ha'
      simp only [St.setPc] at hk' ha' ⊢
      by_cases hu : u = t
      · subst hu; simp [Pc.promise] at hk'
      · simp only [upd_other _ _ _ _ hu] at hk'
        have hne : k' ≠ k := by
          intro he; subst he
          have := hC.own u k' (Pc.prePub_task (Pc.promise_prePub hk'))
          rw [hsub] at this; cases this
        simp only [upd, hne, if_false] at ha'
        exact h4 u k' hk' a' ha'
  | lockX p p' hp hpp hm hs =>
    subst hp
    rcases hpp with ⟨k, a, h1, h2⟩ | ⟨c, h1, h2⟩ <;> subst h2 <;>
      exact invO_move h rfl (none_prom (by simp [Pc.promise])) rfl rfl rfl rfl
  | unlockXm k a thr hp hm => exact invO_move h rfl (none_prom (by simp [Pc.promise])) rfl rfl rfl rfl
  | unlockXs c hp hb hm => exact invO_move h rfl (none_prom (by simp [Pc.promise])) rfl rfl rfl rfl
  | lockS c p' hp hp' hm =>
    rcases hp' with h2 | h2 <;> subst h2 <;>
      exact invO_move h rfl (none_prom (by simp [Pc.promise])) rfl rfl rfl rfl
  | unlockS p p' hp hpp hin =>
    subst hp
    rcases hpp with ⟨h1, h2⟩ | ⟨thr, h1, h2⟩ <;> subst h2 <;>
      exact invO_move h rfl (none_prom (by simp [Pc.promise])) rfl rfl rfl rfl
  | lockQ p p' hp hpp hq =>
    subst hp
    rcases hpp with ⟨k, a, h1, h2⟩ | ⟨c, h1, h2⟩ <;> subst h2 <;>
      exact invO_move h rfl (none_prom (by simp [Pc.promise])) rfl rfl rfl rfl
  | push k a hp hq =>
    have hbefk : ∀ a', a' ∈ s.before k → a' ∈ s.applied ∨ a' ∈ s.batch ∨ a' ∈ s.queue := by
      intro a' ha'
      rcases returned_where hC hF (hC.bef k a' ha') with h1 | h1 | ⟨h1, _⟩
      · exact Or.inl h1
      · exact Or.inr (Or.inl h1)
      · exact Or.inr (Or.inr h1)
    obtain ⟨h1, h2, h3, h4⟩ := h
    refine ⟨h1, h2, ?_, ?_⟩
    · intro b hb a' ha'
      simp only [St.setPc, List.mem_append, List.mem_singleton] at hb ha' ⊢
      rcases hb with hb | hb
      · rcases h3 b hb a' ha' with h | h | h
        · exact Or.inl h
        · exact Or.inr (Or.inl h)
        · exact Or.inr (Or.inr (h.append_right _))
      · subst hb
        rcases hbefk a' ha' with h | h | h
        · exact Or.inl h
        · exact Or.inr (Or.inl h)
        · exact Or.inr (Or.inr (Prec.snoc h b))
    · intro u k' hk' a' ha'
      simp only [St.setPc] at hk' ha' ⊢
      by_cases hu : u = t
      · subst hu; simp [Pc.promise] at hk'
      · simp only [upd_other _ _ _ _ hu] at hk'; exact h4 u k' hk' a' ha'
  | raise k a hp => exact invO_move h rfl (none_prom (by simp [Pc.promise])) rfl rfl rfl rfl
  | clear c hp => exact invO_move h rfl (none_prom (by simp [Pc.promise])) rfl rfl rfl rfl
  | swap c hp hq hb =>
    have htX : (s.pc t).holdsX = true := by simp [hp, Pc.holdsX]
    obtain ⟨h1, h2, h3, h4⟩ := h
    refine ⟨h1, ?_, ?_, ?_⟩
    · intro b hb' a' ha'
      simp only [St.setPc] at hb' ha' ⊢
      rcases h3 b hb' a' ha' with h | h | h
      · exact Or.inl h
      · rw [hb] at h; simp at h
      · exact Or.inr h
    · intro b hb'
      simp [St.setPc] at hb'
    · intro u k' hk' a' ha'
      simp only [St.setPc] at hk' ha' ⊢
      by_cases hu : u = t
      · subst hu
        rcases returned_where hC hF (hC.bef k' a' ha') with h | h | ⟨h, _⟩
        · exact Or.inl h
        · rw [hb] at h; simp at h
        · exact Or.inr h
      · simp only [upd_other _ _ _ _ hu] at hk'
        exact absurd (hL.holder_eq htX (Pc.runs_holdsX (Pc.promise_runs hk'))) hu
  | applyHead c j rest hp hb =>
    have hnd := hC.nodup
    have hjr : j ∉ rest := by
      rw [hb] at hnd
      have : (j :: rest).Nodup := by
        have := (List.nodup_append.1 ((List.nodup_append.1 hnd).1)).2.1
        exact this
      exact (List.nodup_cons.1 this).1
    obtain ⟨h1, h2, h3, h4⟩ := h
    refine ⟨?_, ?_, ?_, ?_⟩
    · intro b hb' a' ha'
      simp only [St.setPc, List.mem_append, List.mem_singleton] at hb' ha' ⊢
      rcases hb' with hb' | hb'
      · exact (h1 b hb' a' ha').append_right _
      · subst hb'
        rcases h2 b (by rw [hb]; simp) a' ha' with h | h
        · exact Prec.snoc h b
        · rw [hb] at h; exact absurd h.head_mem hjr
    · intro b hb' a' ha'
      simp only [St.setPc, List.mem_append, List.mem_singleton] at hb' ha' ⊢
      rcases h2 b (by rw [hb]; simp [hb']) a' ha' with h | h
      · exact Or.inl (Or.inl h)
      · rw [hb] at h
        rcases h.of_cons with h | h
        · exact Or.inl (Or.inr h)
        · exact Or.inr h
    · intro b hb' a' ha'
      simp only [St.setPc, List.mem_append, List.mem_singleton] at hb' ha' ⊢
      rcases h3 b hb' a' ha' with h | h | h
      · exact Or.inl (Or.inl h)
      · rw [hb] at h
        simp only [List.mem_cons] at h
        rcases h with h | h
        · exact Or.inl (Or.inr h)
        · exact Or.inr (Or.inl h)
      · exact Or.inr (Or.inr h)
    · intro u k' hk' a' ha'
      simp only [St.setPc, List.mem_append, List.mem_singleton] at hk' ha' ⊢
      have hold : (s.pc u).promise = some k' := by
        by_cases hu : u = t
        · subst hu; simpa [hp, Pc.promise] using hk'
        · simpa [hu] using hk'
      rcases h4 u k' hold a' ha' with h | h
      · exact Or.inl (Or.inl h)
      · rw [hb] at h
        simp only [List.mem_cons] at h
        rcases h with h | h
        · exact Or.inl (Or.inr h)
        · exact Or.inr h
  | applyOwn k a hp hb =>
    obtain ⟨h1, h2, h3, h4⟩ := h
    refine ⟨?_, ?_, ?_, ?_⟩
    · intro b hb' a' ha'
      simp only [St.setPc, List.mem_append, List.mem_singleton] at hb' ha' ⊢
      rcases hb' with hb' | hb'
      · exact (h1 b hb' a' ha').append_right _
      · subst hb'
        rcases h4 t b (by simp [hp, Pc.promise, Ctx.task]) a' ha' with h | h
        · exact Prec.snoc h b
        · rw [hb] at h; simp at h
    · intro b hb'
      simp only [St.setPc] at hb'
      rw [hb] at hb'; simp at hb'
    · intro b hb' a' ha'
      simp only [St.setPc, List.mem_append, List.mem_singleton] at hb' ha' ⊢
      rcases h3 b hb' a' ha' with h | h | h
      · exact Or.inl (Or.inl h)
      · exact Or.inr (Or.inl h)
      · exact Or.inr (Or.inr h)
    · intro u k' hk' a' ha'
      simp only [St.setPc, List.mem_append, List.mem_singleton] at hk' ha' ⊢
      by_cases hu : u = t
      · subst hu; simp [Pc.promise] at hk'
      · simp only [upd_other _ _ _ _ hu] at hk'
        rcases h4 u k' hk' a' ha' with h | h
        · exact Or.inl (Or.inl h)
        · exact Or.inr h
  | endHead c j o hp =>
    exact invO_move h rfl (by intro k hk; left; simpa [hp, Pc.promise] using hk) rfl rfl rfl rfl
  | endOwn k a thr o hp => exact invO_move h rfl (none_prom (by simp [Pc.promise])) rfl rfl rfl rfl
  | done k a thr hp => exact invO_move h rfl (none_prom (by simp [Pc.promise])) rfl rfl rfl rfl

/-! ## group U: outcomes (the contents of the futures) -/

structure InvU (s : St) : Prop where
  outA : ∀ k, s.out k ≠ none → k ∈ s.applied
  outR : ∀ u k, (s.pc u).running = some k → s.out k = none
  runA : ∀ u k, (s.pc u).running = some k → k ∈ s.applied
  outD : ∀ k, k ∈ s.applied → s.out k = none → ∃ d, (s.pc d).running = some k

theorem invU_init (spur : Bool) : InvU (init spur) := by
  constructor <;> simp [init, Pc.running]

theorem invU_congr {s s' : St} (h : InvU s) (hpc : s'.pc = s.pc) (ha : s'.applied = s.applied) (ho : s'.out = s.out) :
    InvU s' := by
  obtain ⟨h1, h2, h3, h4⟩ := h
  refine ⟨?_, ?_, ?_, ?_⟩
  · rw [ho, ha]; exact h1
  · rw [ho, hpc]; exact h2
  · rw [ha, hpc]; exact h3
  · rw [ho, ha, hpc]; exact h4

theorem invU_move {s s' : St} {t : Tid} {p' : Pc} (h : InvU s) (hpc : s'.pc = upd s.pc t p')
    (hrun : ∀ k, p'.running = some k → (s.pc t).running = some k)
    (hrun2 : ∀ k, (s.pc t).running = some k → p'.running = some k)
    (ha : s'.applied = s.applied) (ho : s'.out = s.out) : InvU s' := by
  obtain ⟨h1, h2, h3, h4⟩ := h
  have hold : ∀ u k, (s'.pc u).running = some k → (s.pc u).running = some k := by
    intro u k hk
    rw [hpc] at hk
    by_cases hu : u = t
    · subst hu; simp only [upd_same] at hk; exact hrun k hk
    · simpa [hu] using hk
  refine ⟨?_, ?_, ?_, ?_⟩
  · rw [ho, ha]; exact h1
  · intro u k hk; rw [ho]; exact h2 u k (hold u k hk)
  · intro u k hk; rw [ha]; exact h3 u k (hold u k hk)
  · intro k hk hok
    rw [ha] at hk; rw [ho] at hok
    obtain ⟨d, hd⟩ := h4 k hk hok
    refine ⟨d, ?_⟩
    rw [hpc]
    by_cases hdt : d = t
    · subst hdt; simp [hrun2 k hd]
    · simp [hdt, hd]

/-- a function is entered: its task is appended to `applied` -/
theorem invU_begin {s s' : St} {t : Tid} {p' : Pc} {j : TaskId} (h : InvU s) (hpc : s'.pc = upd s.pc t p')
    (hj : p'.running = some j) (hnot : j ∉ s.applied) (hold0 : (s.pc t).running = none)
    (ha : s'.applied = s.applied ++ [j]) (ho : s'.out = s.out) : InvU s' := by
  obtain ⟨h1, h2, h3, h4⟩ := h
  refine ⟨?_, ?_, ?_, ?_⟩
  · intro k hk; rw [ho] at hk; rw [ha]; exact List.mem_append_left _ (h1 k hk)
  · intro u k hk
    rw [ho]; rw [hpc] at hk
    by_cases hu : u = t
    · subst hu; simp only [upd_same] at hk; rw [hj] at hk; injection hk with hk; subst hk
      cases ho' : s.out j with
      | none => rfl
      | some o => exact absurd (h1 j (by rw [ho']; simp)) hnot
    · simp only [upd_other _ _ _ _ hu] at hk; exact h2 u k hk
  · intro u k hk
    rw [ha]; rw [hpc] at hk
    by_cases hu : u = t
    · subst hu; simp only [upd_same] at hk; rw [hj] at hk; injection hk with hk; subst hk; simp
    · simp only [upd_other _ _ _ _ hu] at hk; exact List.mem_append_left _ (h3 u k hk)
  · intro k hk hok
    rw [ha] at hk; rw [ho] at hok
    simp only [List.mem_append, List.mem_singleton] at hk
    rcases hk with hk | hk
    · obtain ⟨d, hd⟩ := h4 k hk hok
      refine ⟨d, ?_⟩
      rw [hpc]
      by_cases hdt : d = t
      · subst hdt; rw [hold0] at hd; cases hd
      · simp [hdt, hd]
    · subst hk; exact ⟨t, by rw [hpc]; simp [hj]⟩

/-- a function ends: its outcome is recorded -/
theorem invU_end {s s' : St} {t : Tid} {p' : Pc} {j : TaskId} {o : Outcome} (hL : InvL s) (h : InvU s)
    (hpc : s'.pc = upd s.pc t p') (hold : (s.pc t).running = some j) (hnew : p'.running = none)
    (ha : s'.applied = s.applied) (ho : s'.out = upd s.out j (some o)) : InvU s' := by
  obtain ⟨h1, h2, h3, h4⟩ := h
  have others : ∀ u k, u ≠ t → (s.pc u).running = some k → False := by
    intro u k hu hk
    exact hu (hL.holder_eq (Pc.running_holdsX hold) (Pc.running_holdsX hk))
  refine ⟨?_, ?_, ?_, ?_⟩
  · intro k hk
    rw [ha]; rw [ho] at hk
    by_cases hkj : k = j
    · subst hkj; exact h3 t k hold
    · simp only [upd, hkj, if_false] at hk; exact h1 k hk
  · intro u k hk
    rw [hpc] at hk
    by_cases hu : u = t
    · subst hu; simp only [upd_same] at hk; rw [hnew] at hk; cases hk
    · simp only [upd_other _ _ _ _ hu] at hk; exact (others u k hu hk).elim
  · intro u k hk
    rw [hpc] at hk
    by_cases hu : u = t
    · subst hu; simp only [upd_same] at hk; rw [hnew] at hk; cases hk
    · simp only [upd_other _ _ _ _ hu] at hk; exact (others u k hu hk).elim
  · intro k hk hok
    rw [ha] at hk; rw [ho] at hok
    by_cases hkj : k = j
    · subst hkj; simp [upd] at hok
    · simp only [upd, hkj, if_false] at hok
      obtain ⟨d, hd⟩ := h4 k hk hok
      by_cases hdt : d = t
      · subst hdt; rw [hold] at hd; injection hd with hd; exact absurd hd.symm hkj
      · exact (others d k hdt hd).elim

theorem invU_step {s s' : St} {t : Tid} (hL : InvL s) (hC : InvC s) (h : InvU s) (hs : Step s t s') : InvU s' := by
  have none_run : ∀ {p' : Pc}, p'.running = none → ∀ k, p'.running = some k → (s.pc t).running = some k := by
    intro p' hn k hk; rw [hn] at hk; cases hk
  cases hs with
  | stutter => exact h
  | wr v hr _ => exact invU_congr h rfl rfl rfl
  | move p p' hp hc =>
    subst hp
    exact invU_move h rfl (by intro k hk; rw [hc.running] at hk; exact hk) (by intro k hk; rw [hc.running]; exact hk) rfl rfl
  | skipDrain c hp hf => exact invU_move h rfl (none_run (by simp [Pc.running])) (by intro k hk; simp_all [Pc.running]) rfl rfl
  | skipShared c hp hf => exact invU_move h rfl (none_run (by simp [Pc.running])) (by intro k hk; simp_all [Pc.running]) rfl rfl
  | failTry p p' hp hpp hfail =>
    subst hp
    rcases hpp with ⟨k, a, h1, h2⟩ | ⟨c, h1, h2⟩ <;> subst h2 <;>
      exact invU_move h rfl (none_run (by simp [Pc.running])) (by intro k hk; simp_all [Pc.running]) rfl rfl
  | call k a hp hsub => exact invU_move h rfl (none_run (by simp [Pc.running])) (by intro k hk; simp_all [Pc.running]) rfl rfl
  | lockX p p' hp hpp hm hs =>
    subst hp
    rcases hpp with ⟨k, a, h1, h2⟩ | ⟨c, h1, h2⟩ <;> subst h2 <;>
      exact invU_move h rfl (none_run (by simp [Pc.running])) (by intro k hk; simp_all [Pc.running]) rfl rfl
  | unlockXm k a thr hp hm => exact invU_move h rfl (none_run (by simp [Pc.running])) (by intro k hk; simp_all [Pc.running]) rfl rfl
  | unlockXs c hp hb hm => exact invU_move h rfl (none_run (by simp [Pc.running])) (by intro k hk; simp_all [Pc.running]) rfl rfl
  | lockS c p' hp hp' hm =>
    rcases hp' with h2 | h2 <;> subst h2 <;> exact invU_move h rfl (none_run (by simp [Pc.running])) (by intro k hk; simp_all [Pc.running]) rfl rfl
  | unlockS p p' hp hpp hin =>
    subst hp
    rcases hpp with ⟨h1, h2⟩ | ⟨thr, h1, h2⟩ <;> subst h2 <;>
      exact invU_move h rfl (none_run (by simp [Pc.running])) (by intro k hk; simp_all [Pc.running]) rfl rfl
  | lockQ p p' hp hpp hq =>
    subst hp
    rcases hpp with ⟨k, a, h1, h2⟩ | ⟨c, h1, h2⟩ <;> subst h2 <;>
      exact invU_move h rfl (none_run (by simp [Pc.running])) (by intro k hk; simp_all [Pc.running]) rfl rfl
  | push k a hp hq => exact invU_move h rfl (none_run (by simp [Pc.running])) (by intro k hk; simp_all [Pc.running]) rfl rfl
  | raise k a hp => exact invU_move h rfl (none_run (by simp [Pc.running])) (by intro k hk; simp_all [Pc.running]) rfl rfl
  | clear c hp => exact invU_move h rfl (none_run (by simp [Pc.running])) (by intro k hk; simp_all [Pc.running]) rfl rfl
  | swap c hp hq hb => exact invU_move h rfl (none_run (by simp [Pc.running])) (by intro k hk; simp_all [Pc.running]) rfl rfl
  | applyHead c j rest hp hb =>
    refine invU_begin (j := j) h rfl (by simp [Pc.running]) ?_ (by simp [hp, Pc.running]) rfl rfl
    have hnd := hC.nodup
    rw [hb] at hnd
    intro hin
    have := (List.nodup_append.1 ((List.nodup_append.1 hnd).1)).2.2 j hin j (by simp)
    exact this rfl
  | applyOwn k a hp hb =>
    refine invU_begin (j := k) h rfl (by simp [Pc.running]) ?_ (by simp [hp, Pc.running]) rfl rfl
    intro hin
    exact hC.pre t k (by simp [hp, Pc.prePub, Ctx.task]) (Or.inl hin)
  | endHead c j o hp =>
    exact invU_end hL h rfl (by simp [hp, Pc.running]) (by simp [Pc.running]) rfl rfl
  | endOwn k a thr o hp =>
    exact invU_end hL h rfl (by simp [hp, Pc.running]) (by simp [Pc.running]) rfl rfl
  | done k a thr hp => exact invU_move h rfl (none_run (by simp [Pc.running])) (by intro k hk; simp_all [Pc.running]) rfl rfl

/-! ## the invariant -/

structure Inv (s : St) : Prop where
  L : InvL s
  C : InvC s
  F : InvF s
  O : InvO s
  U : InvU s

theorem inv_init (spur : Bool) : Inv (init spur) :=
  ⟨invL_init spur, invC_init spur, invF_init spur, invO_init spur, invU_init spur⟩

theorem inv_step (s : St) (t : Tid) (e : Ev) (s' : St) (h : Inv s) (hs : step s t e = some s') : Inv s' := by
  have hS := step_sound hs
  exact ⟨invL_step h.L hS, invC_step h.L h.C hS, invF_step h.L h.C h.F hS, invO_step h.L h.C h.F h.O hS,
    invU_step h.L h.C h.U hS⟩

theorem inv_reachable {spur : Bool} {s : St} (h : Reachable spur s) : Inv s := by
  obtain ⟨es, hes⟩ := h
  exact runFrom_inv inv_step (inv_init spur) hes

end ConcVerif.Deferred
