import ConcVerif.Proof.HBRcuSK
/-! rcu_list and happens-before, part 17: the reclamation invariant for list nodes (`TN`).  Every access to a
node that is not yet freed is *covered*:

* `fresh`  — the node has never been linked and the access is published through the write mutex; or
* `open_`  — a registered thread (an open read / write section) knows the access and the node is protected for its record; or
* `closed` — the access is ordered before the store that cleared `owner` of a record that is still on the log, and the
             node is protected for that record; or
* `reaped` — the thread in the reclaim phase knows the access, and the node is protected for its record or named by a
             zombie record below it / the one it has just taken off the log. -/
namespace ConcVerif.Rcu
open HB (HBeq Kn)

def InScope (s : St) (t : Tid) (a d : Nat) : Prop :=
  ∃ z, (s.recs z).znode = some d ∧ (z ∈ Below s.log a ∨ privRec (BView (s.pc t)) = some z)

inductive Cover (w : Ords) (sel : Bool) (es : List (Tid × Ev)) (s : St) (i d : Nat) : Prop
  | fresh (h1 : d ∉ s.order) (h2 : Pub w sel es s.wmtx i)
  | open_ (v : Tid) (b : Bool) (x : Nat) (h1 : s.hnd v = .reg b x) (h2 : Safe s.eview x d) (h3 : Kn (hbTrace w sel es) v i)
  | closed (x q : Nat) (y : Tid) (o : Ord) (v : Option Nat) (h1 : es[q]? = some (y, Ev.ast (.rowner x) o v))
      (h2 : HBeq (hbTrace w sel es) i q) (h3 : x ∈ s.log) (h4 : Safe s.eview x d)
  | reaped (t : Tid) (a : Nat) (h1 : reaper (BView (s.pc t)) = some a) (h2 : Kn (hbTrace w sel es) t i)
      (h3 : Safe s.eview a d ∨ InScope s t a d)

def TN (w : Ords) (sel : Bool) (es : List (Tid × Ev)) (s : St) : Prop :=
  ∀ (i : Nat) (u : Tid) (e : Ev) (d : Nat), es[i]? = some (u, e) → e.nodeAcc = some d → s.nled d ≠ .freed →
    Cover w sel es s i d

/-- publication through the write mutex along a step -/
theorem Pub_step {w : Ords} {sel : Bool} {es : List (Tid × Ev)} {s s' : St} {t : Tid} {e : Ev} {i : Nat}
    (hnd : inDtor (s.pc t) = false) (h : Pub w sel es s.wmtx i) (hS : Step s t e s') :
    Pub w sel (es ++ [(t, e)]) s'.wmtx i := by
  by_cases h1 : e = .mlk
  · subst h1
    cases hS <;> (rename_i hm; rw [hm] at h; exact h.lock t)
  by_cases h2 : e = .mul
  · subst h2
    cases hS <;> (rename_i hm; rw [hm] at h; exact h.unlock)
  rw [wmtx_frame hS h1 h2 hnd]
  exact h.mono _

/-- at most one thread is in the reclaim phase -/
theorem reaper_unique {s : St} (hi : Inv s) {t u : Tid} {a a' : Nat} (ht : reaper (BView (s.pc t)) = some a)
    (hu : reaper (BView (s.pc u)) = some a') : t = u := by
  obtain ⟨t1, t2, t3⟩ := reaper_facts hi ht
  obtain ⟨u1, u2, u3⟩ := reaper_facts hi hu
  by_cases e : a = a'
  · subst e; rw [t2] at u2; injection u2
  · rcases below_total t1 u1 e with h' | h'
    · have := u3 a h'; rw [t2] at this; cases this
    · have := t3 a' h'; rw [u2] at this; cases this

/-- a reclaimer keeps the record it has taken until it has freed it -/
theorem priv_reaper_step {s s' : St} {t : Tid} {e : Ev} (hS : Step s t e s') {a z : Nat}
    (h : reaper (BView (s.pc t)) = some a) (hp : privRec (BView (s.pc t)) = some z) :
    privRec (BView (s'.pc t)) = some z ∨ ∃ nx, s.pc t = .rFreZ a z nx := by
  cases hS <;> first | exact .inl hp | (exfalso; rw [‹s.pc t = _›] at h; first | (simp at h; done) | (simp [BView, reaper] at h; done)) | skip
  case rFreZ r m nx hpc =>
    simp [hpc, BView, reaper] at h; simp [hpc, BView, privRec] at hp
    subst h; subst hp; exact .inr ⟨nx, hpc⟩
  all_goals (left; first | (simp [*, BView, privRec] at hp ⊢; done) | (simp [*, BView, privRec] at hp ⊢; exact hp))

/-- a record that leaves the log is the one erased from it -/
theorem lost_log {s s' : St} {t : Tid} {e : Ev} (hi : Inv s) (hS : Step s t e s') (hnd : inDtor (s.pc t) = false) {x : Nat}
    (hx : x ∈ s.log) (hx' : x ∉ s'.log) : s'.log = s.log.erase x := by
  rcases take_cases hi hS hnd with h1 | ⟨r, h1, _⟩ | ⟨a, m, _, _, h3, _⟩
  · rw [h1] at hx'; exact absurd hx hx'
  · rw [h1] at hx'; exact absurd (List.mem_cons_of_mem _ hx) hx'
  · by_cases hm : x = m
    · rw [hm]; exact h3
    · rw [h3] at hx'; exact absurd ((List.mem_erase_of_ne hm).2 hx) hx'

/-- membership below an active record is kept for the records that stay on the log -/
theorem below_keep {s s' : St} {t : Tid} {e : Ev} (hi : Inv s) (hS : Step s t e s') (hnd : inDtor (s.pc t) = false)
    {a z : Nat} (ha : a ∈ s.log) (ha' : a ∈ s'.log) (hz : z ∈ Below s.log a) (hz' : z ∈ s'.log) : z ∈ Below s'.log a := by
  have hnodup := hi.b.logNd
  simp only [bview_log] at hnodup
  rcases take_cases hi hS hnd with h1 | ⟨r, h1, h2⟩ | ⟨a0, m, _, _, h3, _⟩
  · rw [h1]; exact hz
  · rw [h1]
    have hr := (hi.b.privOk t r (by simpa using h2)).1
    simp only [bview_log] at hr
    rw [below_cons_ne _ (fun hc => hr (by rw [hc]; exact ha))]; exact hz
  · rw [h3] at ha' hz' ⊢
    have h1 : a ≠ m := fun hc => ((List.Nodup.mem_erase_iff hnodup).1 (hc ▸ ha')).1 rfl
    have h2 : z ≠ m := fun hc => ((List.Nodup.mem_erase_iff hnodup).1 (hc ▸ hz')).1 rfl
    rw [below_erase hnodup h1]; exact (List.mem_erase_of_ne h2).2 hz

end ConcVerif.Rcu
