import ConcVerif.Model.Latch
namespace ConcVerif.Latch

def Pc.holds : Pc → Bool
  | .aLocked _ | .aDec _ | .aNotify _ | .aUnlock _ | .wLocked _ | .wWait _ | .wUnlock _ => true
  | _ => false

def Pc.notifying : Pc → Bool
  | .aDec _ | .aNotify _ => true
  | _ => false

structure Inv (s : St) : Prop where
  cnt : s.counter = s.start - s.arrived
  holder : ∀ t, (s.pc t).holds = true ↔ s.mtx = some t
  waitPos : ∀ t (k : WKind), s.pc t = .wWait k → 0 < s.counter
  opened : ∀ t (k : WKind), (s.pc t = .wUnlock k ∨ s.pc t = .wRet k) → s.counter ≤ 0
  sleepers : ∀ t, t ∈ s.waiters → ∃ k, s.pc t = .wSleep k
  lost : s.waiters ≠ [] → 0 < s.counter ∨ (s.counter = 0 ∧ ∃ t, (s.pc t).notifying = true)
  notif : ∀ t k, s.pc t = .aNotify k → s.counter = 0
  nodup : s.waiters.Nodup

theorem inv_init (start : Int) : Inv (init start) := by
  constructor <;> simp [init, Pc.holds]

@[simp] theorem setPc_pc (s : St) (t : Tid) (p : Pc) : (s.setPc t p).pc = upd s.pc t p := rfl
@[simp] theorem setPc_counter (s : St) (t : Tid) (p : Pc) : (s.setPc t p).counter = s.counter := rfl
@[simp] theorem setPc_start (s : St) (t : Tid) (p : Pc) : (s.setPc t p).start = s.start := rfl
@[simp] theorem setPc_mtx (s : St) (t : Tid) (p : Pc) : (s.setPc t p).mtx = s.mtx := rfl
@[simp] theorem setPc_waiters (s : St) (t : Tid) (p : Pc) : (s.setPc t p).waiters = s.waiters := rfl
@[simp] theorem setPc_arrived (s : St) (t : Tid) (p : Pc) : (s.setPc t p).arrived = s.arrived := rfl

/-- frame lemma: thread `t` only changes its pc (calls, returns, loads) -/
theorem inv_setPc {s : St} {t : Tid} {p' : Pc} (h : Inv s)
    (hh : p'.holds = (s.pc t).holds)
    (hw : ∀ k, p' = .wWait k → 0 < s.counter)
    (ho : ∀ k, (p' = .wUnlock k ∨ p' = .wRet k) → s.counter ≤ 0)
    (hsl : t ∈ s.waiters → ∃ k, p' = .wSleep k)
    (hn : (s.pc t).notifying = true → p'.notifying = true ∨ s.waiters = [] ∨ 0 < s.counter)
    (hno : ∀ k, p' = .aNotify k → s.counter = 0) :
    Inv (s.setPc t p') := by
  obtain ⟨h1, h2, h3, h4, h5, h6, h7, h8⟩ := h
  refine ⟨h1, ?_, ?_, ?_, ?_, ?_, ?_, h8⟩
  all_goals simp only [setPc_pc, setPc_mtx, setPc_counter, setPc_waiters, upd_apply]
  · intro u; by_cases hu : u = t
    · subst hu; simp [hh]; exact h2 u
    · simp [hu]; exact h2 u
  · intro u k; by_cases hu : u = t
    · subst hu; simp; exact hw k
    · simp [hu]; exact h3 u k
  · intro u k; by_cases hu : u = t
    · subst hu; simp; exact ho k
    · simp [hu]; exact h4 u k
  · intro u hu'; by_cases hu : u = t
    · subst hu; simp; exact hsl hu'
    · simp [hu]; exact h5 u hu'
  · intro hne
    rcases h6 hne with h | ⟨h0, u, hu'⟩
    · exact Or.inl h
    · by_cases hu : u = t
      · subst hu
        rcases hn hu' with h | h | h
        · exact Or.inr ⟨h0, u, by simp [h]⟩
        · exact absurd h hne
        · exact Or.inl h
      · exact Or.inr ⟨h0, u, by simp [hu, hu']⟩
  · intro u k; by_cases hu : u = t
    · subst hu; simp; exact hno k
    · simp [hu]; exact h7 u k

/-- `mlk`: a thread at a non-holding pc takes the free mutex -/
theorem inv_lock {s : St} {t : Tid} {p' : Pc} (h : Inv s) (hm : s.mtx = none)
    (hold : (s.pc t).holds = false) (hh : p'.holds = true)
    (hw : ∀ k, p' ≠ .wWait k) (ho : ∀ k, p' ≠ .wUnlock k ∧ p' ≠ .wRet k)
    (hsl : t ∉ s.waiters) (hn : (s.pc t).notifying = false) (hno : ∀ k, p' ≠ .aNotify k) :
    Inv ({ s with mtx := some t }.setPc t p') := by
  obtain ⟨h1, h2, h3, h4, h5, h6, h7, h8⟩ := h
  refine ⟨h1, ?_, ?_, ?_, ?_, ?_, ?_, h8⟩
  all_goals simp only [setPc_pc, setPc_mtx, setPc_counter, setPc_waiters, upd_apply]
  · intro u; by_cases hu : u = t
    · subst hu; simp [hh]
    · simp [hu]; have := h2 u; simp [hm] at this; simp [this]; exact fun h => hu h.symm
  · intro u k; by_cases hu : u = t
    · subst hu; simp; intro h; exact absurd h (hw k)
    · simp [hu]; exact h3 u k
  · intro u k; by_cases hu : u = t
    · subst hu; simp; intro h; rcases h with h | h
      · exact absurd h (ho k).1
      · exact absurd h (ho k).2
    · simp [hu]; exact h4 u k
  · intro u hu'; by_cases hu : u = t
    · subst hu; exact absurd hu' hsl
    · simp [hu]; exact h5 u hu'
  · intro hne
    rcases h6 hne with h | ⟨h0, u, hu'⟩
    · exact Or.inl h
    · by_cases hu : u = t
      · subst hu; simp [hn] at hu'
      · exact Or.inr ⟨h0, u, by simp [hu, hu']⟩
  · intro u k; by_cases hu : u = t
    · subst hu; simp; intro h; exact absurd h (hno k)
    · simp [hu]; exact h7 u k

/-- `mul`: the holder releases the mutex and moves to a non-holding pc -/
theorem inv_unlock {s : St} {t : Tid} {p' : Pc} (h : Inv s) (hm : s.mtx = some t)
    (hh : p'.holds = false)
    (ho : ∀ k, (p' = .wUnlock k ∨ p' = .wRet k) → s.counter ≤ 0)
    (hn : (s.pc t).notifying = false) (hsl : ∀ k, p' ≠ .wSleep k) :
    Inv ({ s with mtx := none }.setPc t p') := by
  obtain ⟨h1, h2, h3, h4, h5, h6, h7, h8⟩ := h
  have hw : ∀ k, p' ≠ .wWait k := by intro k hk; subst hk; simp [Pc.holds] at hh
  have hno : ∀ k, p' ≠ .aNotify k := by intro k hk; subst hk; simp [Pc.holds] at hh
  have htw : t ∉ s.waiters := by
    intro hin; obtain ⟨k, hk⟩ := h5 t hin
    have := (h2 t).2 hm; simp [hk, Pc.holds] at this
  refine ⟨h1, ?_, ?_, ?_, ?_, ?_, ?_, h8⟩
  all_goals simp only [setPc_pc, setPc_mtx, setPc_counter, setPc_waiters, upd_apply]
  · intro u; by_cases hu : u = t
    · subst hu; simp [hh]
    · simp [hu]; cases hc : (s.pc u).holds with
      | false => rfl
      | true => have := (h2 u).1 hc; rw [hm] at this; injection this with this; exact absurd this.symm hu
  · intro u k; by_cases hu : u = t
    · subst hu; simp; intro h; exact absurd h (hw k)
    · simp [hu]; exact h3 u k
  · intro u k; by_cases hu : u = t
    · subst hu; simp; exact ho k
    · simp [hu]; exact h4 u k
  · intro u hu'; by_cases hu : u = t
    · subst hu; exact absurd hu' htw
    · simp [hu]; exact h5 u hu'
  · intro hne
    rcases h6 hne with h | ⟨h0, u, hu'⟩
    · exact Or.inl h
    · by_cases hu : u = t
      · subst hu; simp [hn] at hu'
      · exact Or.inr ⟨h0, u, by simp [hu, hu']⟩
  · intro u k; by_cases hu : u = t
    · subst hu; simp; intro h; exact absurd h (hno k)
    · simp [hu]; exact h7 u k

/-- the holder is unique: two threads at holding pcs are the same thread -/
theorem holder_unique {s : St} (h : Inv s) {t u : Tid} (ht : (s.pc t).holds = true) (hu : (s.pc u).holds = true) :
    u = t := by
  have a := (h.holder t).1 ht
  have b := (h.holder u).1 hu
  rw [a] at b; injection b with b; exact b.symm

/-- the decrement (`--counter_` under the mutex) -/
theorem inv_dec {s : St} {t : Tid} {k : Kind} (h : Inv s) (hpc : s.pc t = .aLocked k) :
    Inv ({ s with counter := s.counter - 1, arrived := s.arrived + 1 }.setPc t (.aDec k)) := by
  have hho : (s.pc t).holds = true := by simp [hpc, Pc.holds]
  have huniq : ∀ u, (s.pc u).holds = true → u = t := fun u hu => holder_unique h hho hu
  obtain ⟨h1, h2, h3, h4, h5, h6, h7, h8⟩ := h
  refine ⟨?_, ?_, ?_, ?_, ?_, ?_, ?_, h8⟩
  all_goals simp only [setPc_pc, setPc_mtx, setPc_counter, setPc_waiters, setPc_arrived, setPc_start, upd_apply]
  · simp [h1]; omega
  · intro u; by_cases hu : u = t
    · subst hu; simp [Pc.holds]; have := (h2 u).1 hho; exact this
    · simp [hu]; exact h2 u
  · intro u k'; by_cases hu : u = t
    · subst hu; simp
    · simp [hu]; intro hw; exact absurd (huniq u (by simp [hw, Pc.holds])) hu
  · intro u k'; by_cases hu : u = t
    · subst hu; simp
    · simp [hu]; intro hw; have := h4 u k' hw; omega
  · intro u hu'; by_cases hu : u = t
    · subst hu; obtain ⟨k', hk'⟩ := h5 u hu'; simp [hpc] at hk'
    · simp [hu]; exact h5 u hu'
  · intro hne
    rcases h6 hne with hpos | ⟨h0, u, hu'⟩
    · by_cases h1c : s.counter = 1
      · right; exact ⟨by omega, t, by simp [Pc.notifying]⟩
      · left; omega
    · exfalso
      have : (s.pc u).holds = true := by
        cases hp : s.pc u <;> simp [hp, Pc.notifying] at hu' <;> simp [Pc.holds]
      have := huniq u this; subst this; simp [hpc, Pc.notifying] at hu'
  · intro u k'; by_cases hu : u = t
    · subst hu; simp
    · simp [hu]; intro hw; exact absurd (huniq u (by simp [hw, Pc.holds])) hu

/-- `notify_all` by the thread that just saw the counter at zero -/
theorem inv_cna {s : St} {t : Tid} {k : Kind} (h : Inv s) (hpc : s.pc t = .aNotify k) :
    Inv ({ s with waiters := [] }.setPc t (.aUnlock k)) := by
  obtain ⟨h1, h2, h3, h4, h5, h6, h7, h8⟩ := h
  refine ⟨h1, ?_, ?_, ?_, ?_, ?_, ?_, ?_⟩
  all_goals simp only [setPc_pc, setPc_mtx, setPc_counter, setPc_waiters, upd_apply]
  · intro u; by_cases hu : u = t
    · subst hu; simp [Pc.holds]; have := (h2 u).1 (by simp [hpc, Pc.holds]); exact this
    · simp [hu]; exact h2 u
  · intro u k'; by_cases hu : u = t
    · subst hu; simp
    · simp [hu]; exact h3 u k'
  · intro u k'; by_cases hu : u = t
    · subst hu; simp
    · simp [hu]; exact h4 u k'
  · intro u hu'; simp at hu'
  · intro hne; simp at hne
  · intro u k'; by_cases hu : u = t
    · subst hu; simp
    · simp [hu]; exact h7 u k'
  · simp

/-- entering `cv.wait`: atomically release the mutex and join the wait set -/
theorem inv_cwt {s : St} {t : Tid} {k : WKind} (h : Inv s) (hpc : s.pc t = .wWait k) (hm : s.mtx = some t) :
    Inv ({ s with mtx := none, waiters := t :: s.waiters }.setPc t (.wSleep k)) := by
  have hho : (s.pc t).holds = true := by simp [hpc, Pc.holds]
  have huniq : ∀ u, (s.pc u).holds = true → u = t := fun u hu => holder_unique h hho hu
  obtain ⟨h1, h2, h3, h4, h5, h6, h7, h8⟩ := h
  have hpos := h3 t k hpc
  have htw : t ∉ s.waiters := by
    intro hin; obtain ⟨k', hk'⟩ := h5 t hin; simp [hpc] at hk'
  refine ⟨h1, ?_, ?_, ?_, ?_, ?_, ?_, ?_⟩
  all_goals simp only [setPc_pc, setPc_mtx, setPc_counter, setPc_waiters, upd_apply]
  · intro u; by_cases hu : u = t
    · subst hu; simp [Pc.holds]
    · simp [hu]; cases hc : (s.pc u).holds with
      | false => rfl
      | true => exact absurd (huniq u hc) hu
  · intro u k'; by_cases hu : u = t
    · subst hu; simp
    · simp [hu]; exact h3 u k'
  · intro u k'; by_cases hu : u = t
    · subst hu; simp
    · simp [hu]; exact h4 u k'
  · intro u hu'; by_cases hu : u = t
    · subst hu; simp
    · simp [hu] at hu' ⊢; exact h5 u hu'
  · intro _; exact Or.inl hpos
  · intro u k'; by_cases hu : u = t
    · subst hu; simp
    · simp [hu]; exact h7 u k'
  · exact List.nodup_cons.2 ⟨htw, h8⟩

/-- leaving `cv.wait` (notified: no longer in the wait set; spurious: removes itself) and
re-acquiring the mutex -/
theorem inv_cwk {s : St} {t : Tid} {k : WKind} (h : Inv s) (hpc : s.pc t = .wSleep k) (hm : s.mtx = none) :
    Inv ({ s with mtx := some t, waiters := s.waiters.erase t }.setPc t (.wLocked k)) := by
  obtain ⟨h1, h2, h3, h4, h5, h6, h7, h8⟩ := h
  have hnone : ∀ u, (s.pc u).holds = false := by
    intro u; cases hc : (s.pc u).holds with
    | false => rfl
    | true => have := (h2 u).1 hc; simp [hm] at this
  refine ⟨h1, ?_, ?_, ?_, ?_, ?_, ?_, ?_⟩
  all_goals simp only [setPc_pc, setPc_mtx, setPc_counter, setPc_waiters, upd_apply]
  · intro u; by_cases hu : u = t
    · subst hu; simp [Pc.holds]
    · simp [hu, hnone u]; exact fun h => hu h.symm
  · intro u k'; by_cases hu : u = t
    · subst hu; simp
    · simp [hu]; exact h3 u k'
  · intro u k'; by_cases hu : u = t
    · subst hu; simp
    · simp [hu]; exact h4 u k'
  · intro u hu'; by_cases hu : u = t
    · subst hu; exact absurd hu' (by simpa using List.Nodup.not_mem_erase h8)
    · simp [hu]; exact h5 u (List.mem_of_mem_erase hu')
  · intro hne
    have hne' : s.waiters ≠ [] := by
      intro he; simp [he] at hne
    rcases h6 hne' with h | ⟨h0, u, hu'⟩
    · exact Or.inl h
    · exfalso
      have : (s.pc u).holds = true := by
        cases hp : s.pc u <;> simp [hp, Pc.notifying] at hu' <;> simp [Pc.holds]
      simp [hnone u] at this
  · intro u k'; by_cases hu : u = t
    · subst hu; simp
    · simp [hu]; exact h7 u k'
  · exact h8.erase t

theorem not_waiting {s : St} (h : Inv s) {t : Tid} (hns : ∀ k, s.pc t ≠ .wSleep k) : t ∉ s.waiters := by
  intro hin; obtain ⟨k, hk⟩ := h.sleepers t hin; exact hns k hk

theorem inv_step (s : St) (t : Tid) (e : Ev) (s' : St) (h : Inv s) (hs : step s t e = some s') : Inv s' := by
  unfold step at hs
  split at hs
  · -- call arrive
    rename_i hpc; injection hs with hs; subst hs
    exact inv_setPc h (by simp [hpc, Pc.holds]) (by simp) (by simp)
      (fun hin => absurd hin (not_waiting h (by simp [hpc]))) (by simp [hpc, Pc.notifying]) (by simp)
  · -- call aaw
    rename_i hpc; injection hs with hs; subst hs
    exact inv_setPc h (by simp [hpc, Pc.holds]) (by simp) (by simp)
      (fun hin => absurd hin (not_waiting h (by simp [hpc]))) (by simp [hpc, Pc.notifying]) (by simp)
  · -- call wait
    rename_i hpc; injection hs with hs; subst hs
    exact inv_setPc h (by simp [hpc, Pc.holds]) (by simp) (by simp)
      (fun hin => absurd hin (not_waiting h (by simp [hpc]))) (by simp [hpc, Pc.notifying]) (by simp)
  · -- arrive: mlk
    rename_i k hpc; split at hs
    · rename_i hm; injection hs with hs; subst hs
      exact inv_lock h hm (by simp [hpc, Pc.holds]) (by simp [Pc.holds]) (by simp) (by simp)
        (not_waiting h (by simp [hpc])) (by simp [hpc, Pc.notifying]) (by simp)
    · contradiction
  · -- arrive: decrement
    rename_i k hpc; split at hs
    · injection hs with hs; subst hs; exact inv_dec h hpc
    · contradiction
  · -- arrive: load after decrement
    rename_i k v hpc; split at hs
    · rename_i hv; injection hs with hs; subst hs
      by_cases h0 : v = 0
      · simp only [h0, if_true]
        exact inv_setPc h (by simp [hpc, Pc.holds]) (by simp) (by simp)
          (fun hin => absurd hin (not_waiting h (by simp [hpc]))) (by simp [Pc.notifying]) (by intro _ _; omega)
      · simp only [h0, if_false]
        refine inv_setPc h (by simp [hpc, Pc.holds]) (by simp) (by simp)
          (fun hin => absurd hin (not_waiting h (by simp [hpc]))) ?_ (by simp)
        intro _
        by_cases hw : s.waiters = []
        · exact Or.inr (Or.inl hw)
        · rcases h.lost hw with hp | ⟨hz, _⟩
          · exact Or.inr (Or.inr hp)
          · omega
    · contradiction
  · -- arrive: notify_all
    rename_i k hpc; injection hs with hs; subst hs; exact inv_cna h hpc
  · -- arrive: mul
    rename_i k hpc; split at hs
    · rename_i hm; injection hs with hs; subst hs
      refine inv_unlock h hm ?_ ?_ (by simp [hpc, Pc.notifying]) ?_
      · split <;> simp [Pc.holds]
      · intro k'; split <;> simp
      · intro k'; split <;> simp
    · contradiction
  · -- ret arrive
    rename_i hpc; injection hs with hs; subst hs
    exact inv_setPc h (by simp [hpc, Pc.holds]) (by simp) (by simp)
      (fun hin => absurd hin (not_waiting h (by simp [hpc]))) (by simp [hpc, Pc.notifying]) (by simp)
  · -- wait: fast-path load
    rename_i k v hpc; split at hs
    · rename_i hv; injection hs with hs; subst hs
      refine inv_setPc h ?_ ?_ ?_ (fun hin => absurd hin (not_waiting h (by simp [hpc]))) (by simp [hpc, Pc.notifying]) ?_
      · split <;> simp [hpc, Pc.holds]
      · intro k'; split <;> simp
      · intro k'; split
        · simp
        · intro _; omega
      · intro k'; split <;> simp
    · contradiction
  · -- wait: mlk
    rename_i k hpc; split at hs
    · rename_i hm; injection hs with hs; subst hs
      exact inv_lock h hm (by simp [hpc, Pc.holds]) (by simp [Pc.holds]) (by simp) (by simp)
        (not_waiting h (by simp [hpc])) (by simp [hpc, Pc.notifying]) (by simp)
    · contradiction
  · -- wait: loop-condition load under the mutex
    rename_i k v hpc; split at hs
    · rename_i hv; injection hs with hs; subst hs
      refine inv_setPc h ?_ ?_ ?_ (fun hin => absurd hin (not_waiting h (by simp [hpc]))) (by simp [hpc, Pc.notifying]) ?_
      · split <;> simp [hpc, Pc.holds]
      · intro k'; split
        · intro _; omega
        · simp
      · intro k'; split
        · simp
        · intro _; omega
      · intro k'; split <;> simp
    · contradiction
  · -- cv.wait entry
    rename_i k hpc; split at hs
    · rename_i hm; injection hs with hs; subst hs; exact inv_cwt h hpc hm
    · contradiction
  · -- cv.wait exit
    rename_i k r hpc; split at hs
    · rename_i hm
      split at hs
      · split at hs
        · contradiction
        · rename_i hnin; injection hs with hs; subst hs
          have := inv_cwk h hpc hm
          rw [List.erase_of_not_mem hnin] at this; exact this
      · split at hs
        · injection hs with hs; subst hs; exact inv_cwk h hpc hm
        · contradiction
    · contradiction
  · -- wait: mul
    rename_i k hpc; split at hs
    · rename_i hm; injection hs with hs; subst hs
      exact inv_unlock h hm (by simp [Pc.holds]) (fun k' _ => h.opened t k (Or.inl hpc))
        (by simp [hpc, Pc.notifying]) (by simp)
    · contradiction
  · -- ret wait / ret aaw
    rename_i k k' hpc; split at hs
    · injection hs with hs; subst hs
      exact inv_setPc h (by simp [hpc, Pc.holds]) (by simp) (by simp)
        (fun hin => absurd hin (not_waiting h (by simp [hpc]))) (by simp [hpc, Pc.notifying]) (by simp)
    · contradiction
  · contradiction

theorem inv_reachable {start : Int} {s : St} (h : Reachable start s) : Inv s := by
  obtain ⟨es, hes⟩ := h
  exact runFrom_inv inv_step (inv_init start) hes

end ConcVerif.Latch
