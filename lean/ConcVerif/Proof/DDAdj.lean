import ConcVerif.Proof.DDWf
/-! Adjacency invariant: a `dying k` frame directly above a clearing destroyObjects frame (non-throwing call of a
container with a callback) is the object that frame released last, and its callback has run. -/
namespace ConcVerif.DD

def adj (cb : Bool) : List Frame → Prop
  | .dying k :: .dClear sz ec cbs th :: rest =>
      (th = false → cb = true → (k :: ec) <:+ cbs) ∧ adj cb (.dClear sz ec cbs th :: rest)
  | _ :: rest => adj cb rest
  | [] => True

theorem adj_tail {cb : Bool} {f : Frame} {rest : List Frame} (h : adj cb (f :: rest)) : adj cb rest := by
  cases f <;> try exact h
  cases rest with
  | nil => trivial
  | cons g gs => cases g <;> first | exact h | exact h.2

/-- putting a frame that is not `dying` on top -/
theorem adj_cons {cb : Bool} {f : Frame} {rest : List Frame} (hf : ∀ k, f ≠ .dying k) (h : adj cb rest) :
    adj cb (f :: rest) := by
  cases f <;> first | exact h | exact absurd rfl (hf _)

/-- putting `dying k` on top of a stack whose top is not a clearing frame -/
theorem adj_dying {cb : Bool} {k : ObjId} {rest : List Frame} (hr : ∀ sz ec cbs th gs, rest ≠ .dClear sz ec cbs th :: gs)
    (h : adj cb rest) : adj cb (.dying k :: rest) := by
  cases rest with
  | nil => trivial
  | cons g gs => cases g <;> first | exact h | exact absurd rfl (hr _ _ _ _ _)

theorem adj_vdrain (cb) (s : St) (t rest) (v : List ObjId) (h : adj cb rest) : adj cb ((vdrain s t rest v).stk t) := by
  induction v generalizing s with
  | nil => simp only [vdrain, setStk_stk_same]; exact adj_cons (by simp) h
  | cons a v ih =>
    simp only [vdrain]; split
    · simp only [setStk_stk_same]; exact adj_dying (by simp) (adj_cons (by simp) h)
    · exact ih _

theorem adj_xTop (cb) (s : St) (t ii rest) (h : adj cb rest) : adj cb ((xTop s t ii rest).stk t) := by
  unfold xTop; split
  · simp only [setStk_stk_same]; exact adj_cons (by simp) h
  · simp only [setStk_stk_same]; exact adj_cons (by simp) (adj_cons (by simp) h)

theorem adj_xAfter (cb) (s : St) (t ii rest) (h : adj cb rest) : adj cb ((xAfter s t ii rest).stk t) := by
  unfold xAfter; repeat' split
  all_goals simp only [setStk_stk_same]
  · exact adj_cons (by simp) h
  · exact adj_cons (by simp) (adj_cons (by simp) h)
  · exact adj_cons (by simp) h
  · exact adj_cons (by simp) h

theorem adj_dDone (cb) (s : St) (t r rest) (h : adj cb rest) : adj cb ((dDone s t r rest).stk t) := by
  unfold dDone; split
  · simp only [setStk_stk_same]; exact adj_cons (by simp) (adj_tail h)
  · exact adj_xAfter _ _ _ _ _ (adj_tail h)
  · exact adj_vdrain _ _ _ _ _ (adj_tail h)
  · simp only [setStk_stk_same]; exact adj_cons (by simp) h

theorem adj_drain (cb) (s : St) (t sz cbs thrown rest) (ec : List ObjId) (h : adj cb rest)
    (hc : thrown = false → cb = true → ec <:+ cbs) : adj cb ((drain s t sz cbs thrown rest ec).stk t) := by
  induction ec generalizing s with
  | nil =>
    simp only [drain]; split
    · exact adj_dDone _ _ _ _ _ h
    · simp only [setStk_stk_same]; exact adj_cons (by simp) h
  | cons k ec ih =>
    simp only [drain]; split
    · simp only [setStk_stk_same]
      exact ⟨hc, adj_cons (by simp) h⟩
    · exact ih _ (fun h1 h2 => List.IsSuffix.trans (List.suffix_cons k ec) (hc h1 h2))

theorem adj_resume (cb) (s : St) (t fs) (h : adj cb fs) (hw : AllWf cb fs) : adj cb ((resume s t fs).stk t) := by
  unfold resume; split
  · simp only [allWf_cons, wfF] at hw
    exact adj_drain _ _ _ _ _ _ _ _ (adj_tail h) (fun h1 h2 => (hw.1 h1 h2).1)
  · exact adj_vdrain _ _ _ _ _ (adj_tail h)
  · simpa using h

theorem adj_select (cb) (s : St) (t skip rest) (h : adj cb rest) : adj cb ((select s t skip rest).stk t) := by
  unfold select; dsimp only; split
  · simp only [setStk_stk_same]; exact adj_cons (by simp) h
  · simp only [setStk_stk_same]; exact adj_cons (by simp) h

theorem adj_gBody (cb) (len dc cnt : Nat) {rest} (h : adj cb rest) : adj cb (gBody len dc cnt :: rest) := by
  unfold gBody; split <;> exact adj_cons (by simp) h

theorem adj_gNext (cb) (len dc cnt es : Nat) {rest} (h : adj cb rest) : adj cb (gNext len dc cnt es :: rest) := by
  unfold gNext; repeat' split
  all_goals (first | exact adj_gBody _ _ _ _ h | exact adj_cons (by simp) h)

theorem adj_stepUser {s s' : St} {t : Tid} {fs e} (h : stepUser s t fs e = some s') (hfs : s.stk t = fs)
    (hu : userLevel fs = true) (hI : adj s.hasCb fs) : adj s.hasCb (s'.stk t) := by
  have hnc : ∀ sz ec cbs th gs, fs ≠ .dClear sz ec cbs th :: gs := by
    intro sz ec cbs th gs hh; rw [hh] at hu; simp [userLevel] at hu
  unfold stepUser at h
  split at h
  all_goals (try (repeat' (split at h)))
  all_goals (first | cases h | skip)
  all_goals (first
    | (show adj s.hasCb (s.stk t); rw [hfs]; exact hI)
    | (simp only [setStk_stk_same]; exact adj_dying hnc hI)
    | (simp only [setStk_stk_same]; exact adj_cons (by simp) hI)
    | (rename_i hc; obtain ⟨rfl, _⟩ := hc; exact adj_xTop _ _ _ _ _ trivial))

theorem adj_step {s s' : St} {t : Tid} {e} (h : step s t e = some s') (hW : AllWf s.hasCb (s.stk t))
    (hI : adj s.hasCb (s.stk t)) : adj s.hasCb (s'.stk t) := by
  unfold step at h
  split at h
  all_goals (try rw [show s.stk t = _ from by assumption] at hI hW)
  all_goals (first | exact adj_stepUser h (by assumption) rfl hI | skip)
  all_goals (try (repeat' (split at h)))
  all_goals (first | cases h | skip)
  all_goals (have hT := adj_tail hI)
  all_goals (simp only [allWf_cons, wfF] at hW)
  all_goals (first
    | (simp only [setStk_stk_same]
       first
       | exact hT
       | exact adj_gNext _ _ _ _ _ hT
       | exact adj_gBody _ _ _ _ hT
       | exact adj_cons (by intro k; exact Frame.noConfusion) hT
       | exact adj_cons (by intro k; exact Frame.noConfusion) (adj_cons (by intro k; exact Frame.noConfusion) hT))
    | exact adj_dDone _ _ _ _ _ hT
    | exact adj_select _ _ _ _ _ hT
    | exact adj_xTop _ _ _ _ _ hT
    | exact adj_resume _ _ _ _ hT hW.2
    | (apply adj_drain _ _ _ _ _ _ _ _ hT; intro h1 h2; simp_all)
    | (obtain ⟨⟨h1, h2⟩, h3⟩ := hW; subst h1; apply adj_drain _ _ _ _ _ _ _ _ hT; intro _ _; simp_all)
    | skip)

def Adj (s : St) : Prop := ∀ t, adj s.hasCb (s.stk t)

theorem adjI_step {s s' : St} {t : Tid} {e} (hI : Adj s) (hW : Wf s) (h : step s t e = some s') : Adj s' := by
  intro u
  rw [step_hasCb h]
  by_cases hu : u = t
  · subst hu; exact adj_step h (hW u) (hI u)
  · rw [step_stk_other h hu]; exact hI u

theorem adjI_init (cb ns nt) : Adj (init cb ns nt) := by intro t; simp [init, adj]

end ConcVerif.DD
