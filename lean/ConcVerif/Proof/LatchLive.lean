import ConcVerif.Proof.Latch
import ConcVerif.Base.Live
/-! Ranking function for `Latch` once it is open (`counter ≤ 0`): instance of `Base/Live.lean`. -/
namespace ConcVerif.Latch

/-- remaining own steps of a thread, valid once the latch is open -/
def unlockRank : Kind → Nat
  | .aaw => 7
  | _ => 2

def Pc.rank : Pc → Nat
  | .idle => 0
  | .aRet => 1
  | .aUnlock k => unlockRank k
  | .aNotify k => unlockRank k + 1
  | .aDec k => unlockRank k + 2
  | .aLocked k => unlockRank k + 3
  | .aCalled k => unlockRank k + 4
  | .wCalled _ => 6
  | .wLock _ => 5
  | .wWait _ => 6
  | .wSleep _ => 5
  | .wLocked _ => 3
  | .wUnlock _ => 2
  | .wRet _ => 1

def isCall : Ev → Bool
  | .call _ => true
  | _ => false

/-- the states in which the ranking argument is valid: invariant holds and the latch is open -/
def Open (s : St) : Prop := Inv s ∧ s.counter ≤ 0

def μ (s : St) (t : Tid) : Nat := (s.pc t).rank

theorem counter_mono {s s' : St} {t : Tid} {e : Ev} (hs : step s t e = some s') : s'.counter ≤ s.counter := by
  unfold step at hs
  split at hs <;> (repeat' (split at hs)) <;>
    first | contradiction | (injection hs with hs; subst hs; simp [St.setPc]) | skip
  all_goals omega

theorem pc_frame {s s' : St} {t u : Tid} {e : Ev} (hs : step s t e = some s') (hu : u ≠ t) : s'.pc u = s.pc u := by
  unfold step at hs
  split at hs <;> (repeat' (split at hs)) <;>
    first | contradiction | (injection hs with hs; subst hs; simp [St.setPc, upd, hu])


theorem rank_dec {s s' : St} {t : Tid} {e : Ev} (ho : Open s) (hs : step s t e = some s') (hc : isCall e = false) :
    (s'.pc t).rank < (s.pc t).rank := by
  obtain ⟨hi, hle⟩ := ho
  cases hp : s.pc t
  case wWait k => exact absurd (hi.waitPos t k hp) (by omega)
  case wLocked k =>
    -- the loop-condition load returns the counter (≤ 0): the thread leaves the loop
    cases e <;> simp [step, hp] at hs
    rename_i v
    obtain ⟨hv, hs⟩ := hs
    subst hs
    have : ¬ (0 < v) := by omega
    simp [St.setPc, this, Pc.rank]
  all_goals
    cases e <;> simp [step, hp, isCall] at hs hc
  all_goals (repeat' (split at hs))
  all_goals (first | contradiction | skip)
  all_goals (try (obtain ⟨_, hs⟩ := hs))
  all_goals (try (repeat' (split at hs)))
  all_goals (first | contradiction | skip)
  all_goals (try (injection hs with hs))
  all_goals (try subst hs)
  all_goals (simp [St.setPc, Pc.rank, unlockRank])
  all_goals (try (split <;> simp [Pc.rank, unlockRank]))
  all_goals (try (rename_i k; cases k <;> simp [Pc.rank, unlockRank]))
  all_goals (try (exfalso; simp_all))

theorem rank_call {s s' : St} {t : Tid} {e : Ev} (hs : step s t e = some s') (hc : isCall e = true) :
    (s'.pc t).rank ≤ (s.pc t).rank + 11 := by
  cases e <;> simp [isCall] at hc
  rename_i k
  cases hp : s.pc t <;> cases k <;> simp [step, hp] at hs
  all_goals (subst hs; simp [St.setPc, Pc.rank, unlockRank])

theorem ranked : Live.Ranked step Open isCall μ 11 where
  good := by
    intro s t e s' ho hs
    exact ⟨inv_step s t e s' ho.1 hs, Int.le_trans (counter_mono hs) ho.2⟩
  dec := by
    intro s t e s' ho hs hc
    exact rank_dec ho hs hc
  call := by
    intro s t e s' _ hs hc
    exact rank_call hs hc
  frame := by
    intro s t e s' u _ hs hu
    simp [μ, pc_frame hs hu]

end ConcVerif.Latch
