import ConcVerif.Proof.RcuAll
/-! Writers are serialised (C12, second half).

History variables, outside the model: `ncs` counts the acquisitions of the write mutex, `hist` logs every mutation of
the linked list — the reader-visible linearisation store of a `push` / `erase` — tagged with the number of the critical
section it happened in.  Invariant W: the linked nodes are what the logged mutations produce when executed one after
the other on an empty list, the tags are strictly increasing (at most one mutation per critical section, in
acquisition order), and a `push` that got as far as its unlock has logged its mutation. -/
namespace ConcVerif.Rcu

inductive WOp
  | front (n : Nat) | back (n : Nat) | erase (c : Nat)
  deriving DecidableEq, Repr

/-- sequential reference: the three mutations on a plain `List` -/
def applyW (l : List Nat) : WOp → List Nat
  | .front n => n :: l
  | .back n => l ++ [n]
  | .erase c => l.erase c

structure Wh where
  ncs : Nat
  hist : List (Nat × WOp)

def wh0 : Wh := { ncs := 0, hist := [] }

/-- the pcs whose (only) step is the linearisation store of a mutation -/
def linOf : Pc → Option WOp
  | .pE1 k n => some (match k with | .push false _ _ => .back n | _ => .front n)
  | .pF3 _ n => some (.front n)
  | .pB2 _ n _ => some (.back n)
  | .eUnl c _ _ _ _ => some (.erase c)
  | _ => none

def whUpd (s : St) (w : Wh) (t : Tid) (e : Ev) : Wh :=
  match e with
  | .mlk => { w with ncs := w.ncs + 1 }
  | _ =>
    match linOf (s.pc t) with
    | some op => { w with hist := w.hist ++ [(w.ncs, op)] }
    | none => w

def stepW (sw : St × Wh) (t : Tid) (e : Ev) : Option (St × Wh) :=
  (step sw.1 t e).map (fun s' => (s', whUpd sw.1 sw.2 t e))

def runW (es : List (Tid × Ev)) : Option (St × Wh) := runFrom stepW (init, wh0) es

def ReachableW (sw : St × Wh) : Prop := ∃ es, runW es = some sw

theorem runW_fst (es : List (Tid × Ev)) : (runW es).map (·.1) = run es := by
  unfold runW run
  have : ∀ (sw : St × Wh), (runFrom stepW sw es).map (·.1) = runFrom step sw.1 es := by
    induction es with
    | nil => intro sw; rfl
    | cons x xs ih =>
      intro sw
      obtain ⟨t, e⟩ := x
      simp only [runFrom_cons, stepW]
      cases h : step sw.1 t e with
      | none => simp
      | some s1 => simp [ih]
  exact this (init, wh0)

/-- the history variables never block a step -/
theorem reachableW_fst {sw : St × Wh} (h : ReachableW sw) : Reachable sw.1 := by
  obtain ⟨es, hes⟩ := h
  refine ⟨es, ?_⟩
  have := runW_fst es
  rw [hes] at this
  exact this.symm

theorem reachableW_of {s : St} (h : Reachable s) : ∃ w, ReachableW (s, w) := by
  obtain ⟨es, hes⟩ := h
  have := runW_fst es
  rw [hes] at this
  cases hr : runW es with
  | none => rw [hr] at this; cases this
  | some sw =>
    rw [hr] at this
    simp at this
    obtain ⟨s', w⟩ := sw
    simp at this; subst this
    exact ⟨w, es, hr⟩

/-- inside a critical section of the write mutex: `some false` before the mutation, `some true` after it -/
def phase : Pc → Option Bool
  | .pAlloc _ | .pCons .. | .pThrown _ | .pLoad .. | .pE1 .. | .pF1 .. | .pF2 .. | .pF3 .. | .pB1 .. | .pB2 ..
  | .eOrig .. | .eDel .. | .eAlloc .. | .eCons .. | .eMark .. | .eBack .. | .eNext .. | .eUnl .. => some false
  | .pE2 .. | .pB3 .. | .pUnlock _ | .eFix .. | .eZh .. | .eUnlock _ => some true
  | .pushStore (.erase _) .. | .pushCas (.erase _) .. => some true
  | _ => none

/-- a `push` after its linking store, an `erase` after its unlinking store and before it unlocks -/
def pushDone : Pc → Bool
  | .pE2 .. | .pB3 .. | .pUnlock _ => true
  | .eFix .. | .eZh .. | .pushStore (.erase _) .. | .pushCas (.erase _) .. => true
  | _ => false

theorem pushDone_holds {p : Pc} (h : pushDone p = true) : holdsW p = true := by
  cases p with
  | pushStore c r e => cases c <;> simp [pushDone] at h <;> simp [holdsW]
  | pushCas c r e => cases c <;> simp [pushDone] at h <;> simp [holdsW]
  | _ => simp [pushDone] at h <;> simp [holdsW]

theorem phase_holds {p : Pc} (h : phase p ≠ none) : holdsW p = true := by
  cases p with
  | pushStore c r e => cases c <;> simp [phase] at h <;> simp [holdsW]
  | pushCas c r e => cases c <;> simp [phase] at h <;> simp [holdsW]
  | _ => simp [phase] at h <;> simp [holdsW]

def seqOf (hist : List (Nat × WOp)) : List Nat := (hist.map (·.2)).foldl applyW []

theorem seqOf_append (hist : List (Nat × WOp)) (k : Nat) (op : WOp) :
    seqOf (hist ++ [(k, op)]) = applyW (seqOf hist) op := by
  simp [seqOf, List.foldl_append]

structure InvW (s : St) (w : Wh) : Prop where
  /-- the linked nodes are the result of the sequential execution of the logged mutations -/
  seq : s.dt = false → s.lst = seqOf w.hist
  /-- at most one mutation per critical section, logged in acquisition order -/
  tags : w.hist.Pairwise (fun a b => a.1 < b.1)
  le : ∀ x ∈ w.hist, x.1 ≤ w.ncs
  lt : ∀ t, phase (s.pc t) = some false → ∀ x ∈ w.hist, x.1 < w.ncs
  done : ∀ t, pushDone (s.pc t) = true → ∃ x ∈ w.hist, x.1 = w.ncs

theorem invW_init : InvW init wh0 := by
  constructor <;> simp [init, wh0, seqOf, phase, pushDone]

/-- a step that neither takes the mutex nor mutates the list -/
theorem invW_frame {s s' : St} {w : Wh} {t : Tid} (h : InvW s w) (hl : s'.dt = false → s'.lst = s.lst ∧ s.dt = false)
    (hvpc : ∀ u, u ≠ t → s'.pc u = s.pc u)
    (hp : phase (s'.pc t) = some false → phase (s.pc t) = some false)
    (hd : pushDone (s'.pc t) = true → pushDone (s.pc t) = true) : InvW s' w := by
  obtain ⟨h1, h2, h3, h4, h5⟩ := h
  refine ⟨?_, h2, h3, ?_, ?_⟩
  · intro hdt; obtain ⟨a, b⟩ := hl hdt; rw [a]; exact h1 b
  · intro u hu
    by_cases hut : u = t
    · subst hut; exact h4 u (hp hu)
    · rw [hvpc u hut] at hu; exact h4 u hu
  · intro u hu
    by_cases hut : u = t
    · subst hut; exact h5 u (hd hu)
    · rw [hvpc u hut] at hu; exact h5 u hu

/-- the mutex is acquired: a new critical section starts -/
theorem invW_acq {s s' : St} {w : Wh} {t : Tid} (ha : InvA s) (h : InvW s w) (hm : s.wmtx = none)
    (hl : s'.lst = s.lst) (hdt : s'.dt = s.dt) (hvpc : ∀ u, u ≠ t → s'.pc u = s.pc u)
    (hd : pushDone (s'.pc t) = false) : InvW s' { w with ncs := w.ncs + 1 } := by
  obtain ⟨h1, h2, h3, h4, h5⟩ := h
  refine ⟨?_, h2, ?_, ?_, ?_⟩
  · intro hd'; rw [hl]; rw [hdt] at hd'; exact h1 hd'
  · intro x hx; exact Nat.le_succ_of_le (h3 x hx)
  · intro u _ x hx; exact Nat.lt_succ_of_le (h3 x hx)
  · intro u hu
    exfalso
    by_cases hut : u = t
    · subst hut; rw [hd] at hu; cases hu
    · rw [hvpc u hut] at hu
      have := (ha.wm u).1 (pushDone_holds hu)
      rw [hm] at this; cases this

/-- the linearisation store of the mutex holder -/
theorem invW_lin {s s' : St} {w : Wh} {t : Tid} (ha : InvA s) (h : InvW s w) (op : WOp)
    (hph : phase (s.pc t) = some false) (hl : s'.lst = applyW s.lst op) (hdt : s'.dt = s.dt)
    (hvpc : ∀ u, u ≠ t → s'.pc u = s.pc u) (hp : phase (s'.pc t) ≠ some false) :
    InvW s' { w with hist := w.hist ++ [(w.ncs, op)] } := by
  obtain ⟨h1, h2, h3, h4, h5⟩ := h
  have hlt := h4 t hph
  refine ⟨?_, ?_, ?_, ?_, ?_⟩
  · intro hd'
    rw [hdt] at hd'
    simp only
    rw [seqOf_append, hl, h1 hd']
  · simp only
    rw [List.pairwise_append]
    refine ⟨h2, by simp, ?_⟩
    intro a ha' b hb
    simp at hb; subst hb
    exact hlt a ha'
  · intro x hx
    simp only at hx ⊢
    rcases List.mem_append.1 hx with e | e
    · exact h3 x e
    · simp at e; subst e; exact Nat.le_refl _
  · intro u hu
    exfalso
    by_cases hut : u = t
    · subst hut; exact hp hu
    · rw [hvpc u hut] at hu
      have a := (ha.wm u).1 (phase_holds (by rw [hu]; simp))
      have b := (ha.wm t).1 (phase_holds (by rw [hph]; simp))
      rw [a] at b; injection b with b; exact hut b
  · intro u _
    exact ⟨(w.ncs, op), by simp, rfl⟩

local macro "frameW" h:ident t:ident : tactic =>
  `(tactic| (refine invW_frame (t := $t) $h (fun hd => ⟨rfl, hd⟩) (fun u hut => by simp [hut]) ?_ ?_
             · intro hp
               first
               | (simp [phase] at hp; done)
               | (simp [phase, *])
             · intro hp
               first
               | (simp [pushDone] at hp; done)
               | (simp [pushDone, *])))

theorem invW_step {s s' : St} {w : Wh} {t : Tid} {e : Ev} (hx : InvX s) (h : InvW s w) (hs : Step s t e s') :
    InvW s' (whUpd s w t e) := by
  have ha := hx.i.a
  have wr := hx.i.c.wr t
  simp only [cview_vpc] at wr
  cases hs
  all_goals (try (
    (conv => arg 2; simp only [whUpd, linOf, *])
    frameW h t; done))
  all_goals (try (
    (conv => arg 2; simp only [whUpd, linOf, *])
    exact h; done))
  case callDtor hpc hl hd =>
    conv => arg 2; simp only [whUpd, linOf, hpc]
    refine invW_frame (t := t) h (fun hd' => by simp [St.setPc] at hd') (fun u hut => by simp [hut]) ?_ ?_ <;>
      (intro hp; simp [phase, pushDone] at hp)
  case dtorHead o hpc ho =>
    conv => arg 2; simp only [whUpd, linOf, hpc]
    cases hh : s.head <;> simp only [St.dNodeAt] <;> frameW h t
  case dZhead o hpc ho =>
    conv => arg 2; simp only [whUpd, linOf, hpc]
    cases hh : s.zhead <;> simp only [St.dRecAt] <;> frameW h t
  case dFreZ m nx hpc =>
    conv => arg 2; simp only [whUpd, linOf, hpc]
    cases nx <;> simp only [St.dRecAt] <;> frameW h t
  case rFreZ r m nx hpc =>
    conv => arg 2; simp only [whUpd, linOf, hpc]
    cases nx <;> simp only [St.reapAt] <;> frameW h t
  case uNextNone r cached m o hpc ho hv =>
    conv => arg 2; simp only [whUpd, linOf, hpc]
    cases cached <;> simp only [St.reapAt] <;> frameW h t
  case pushStore c r exp o hpc =>
    conv => arg 2; simp only [whUpd, linOf, hpc]
    cases c <;> frameW h t
  case casFail c r exp o hpc ho =>
    conv => arg 2; simp only [whUpd, linOf, hpc]
    cases c <;> frameW h t
  case dFreN m nx hpc =>
    conv => arg 2; simp only [whUpd, linOf, hpc]
    have hdt := ha.dtd t (by simp [hpc, inDtor])
    refine invW_frame (t := t) h (fun hd' => ?_) (fun u hut => ?_) ?_ ?_
    · exfalso; cases nx <;> simp [St.dNodeAt, St.setNled, St.setPc, hdt] at hd'
    · cases nx <;> simp [St.dNodeAt, hut]
    · intro hp; cases nx <;> simp [St.dNodeAt, phase] at hp
    · intro hp; cases nx <;> simp [St.dNodeAt, pushDone] at hp
  case pushLock f em v r hpc hh hm =>
    conv => arg 2; simp only [whUpd]
    exact invW_acq (t := t) ha h hm rfl rfl (fun u hut => by simp [hut]) (by simp [pushDone])
  case eraseLock adv r c hpc hh hi' hm =>
    conv => arg 2; simp only [whUpd]
    exact invW_acq (t := t) ha h hm rfl rfl (fun u hut => by simp [hut]) (by simp [pushDone])
  case pE1 k n o hpc ho =>
    conv => arg 2; simp only [whUpd, linOf, hpc]
    rw [hpc] at wr; simp only [CView, WriterP, cview_lst] at wr
    refine invW_lin (t := t) ha h _ (by simp [hpc, phase]) ?_ rfl (fun u hut => by simp [hut]) (by simp [phase])
    simp only [setPc_lst]
    rw [wr.2.1]
    split <;> rfl
  case pF3 k n o hpc ho =>
    conv => arg 2; simp only [whUpd, linOf, hpc]
    exact invW_lin (t := t) ha h _ (by simp [hpc, phase]) rfl rfl (fun u hut => by simp [hut]) (by simp [phase])
  case pB2 k n h0 o hpc ho =>
    conv => arg 2; simp only [whUpd, linOf, hpc]
    exact invW_lin (t := t) ha h _ (by simp [hpc, phase]) rfl rfl (fun u hut => by simp [hut]) (by simp [phase])
  case eUnlPrev c orig pp x z o hpc ho =>
    conv => arg 2; simp only [whUpd, linOf, hpc]
    exact invW_lin (t := t) ha h _ (by simp [hpc, phase]) rfl rfl (fun u hut => by simp [hut]) (by simp [phase])
  case eUnlHead c orig x z o hpc ho =>
    conv => arg 2; simp only [whUpd, linOf, hpc]
    exact invW_lin (t := t) ha h _ (by simp [hpc, phase]) rfl rfl (fun u hut => by simp [hut]) (by simp [phase])

theorem invW_reachable {sw : St × Wh} (h : ReachableW sw) : InvW sw.1 sw.2 := by
  obtain ⟨es, hes⟩ := h
  have := runFrom_inv (step := stepW) (Inv := fun sw : St × Wh => InvX sw.1 ∧ InvW sw.1 sw.2)
    (fun sw t e sw' hi hs => by
      simp only [stepW] at hs
      cases h1 : step sw.1 t e with
      | none => rw [h1] at hs; cases hs
      | some s1 =>
        rw [h1] at hs; simp at hs; subst hs
        exact ⟨invX_step hi.1 h1, invW_step hi.1 hi.2 (step_sound h1)⟩)
    ⟨invX_init, invW_init⟩ hes
  exact this.2

end ConcVerif.Rcu
