import ConcVerif.Proof.CowInv
/-! Frame facts about single steps of the cow model (no invariant needed): who can change what.  One case analysis
(`cow_step_cases`: pc, event, nested argument, small step function) is shared by all of them. -/
namespace ConcVerif.Cow
open ConcVerif.LR (lk LK Side)

/-- thread `t` makes zero or more steps of the left-right model -/
inductive LRStar (t : Tid) : LR.St → LR.St → Prop
  | refl (a : LR.St) : LRStar t a a
  | step {a b c : LR.St} {e : LR.Ev} : LR.step a t e = some b → LRStar t b c → LRStar t a c

theorem LRStar.one {t : Tid} {a b : LR.St} {e : LR.Ev} (h : LR.step a t e = some b) : LRStar t a b := .step h (.refl b)

theorem lrGot_star {s : St} {t : Tid} {k : Nat} {x : Side} {l : LR.St} (h : lrGot s t k x = some l) : LRStar t s.lr l := by
  simp only [lrGot, Option.bind_eq_some_iff] at h
  obtain ⟨l1, h1, h2⟩ := h
  exact .step h1 (.one h2)

theorem lrRel_star {s : St} {t : Tid} {c : Side} {old : Nat} {l : LR.St} (h : lrRel s t c old = some l) : LRStar t s.lr l := by
  simp only [lrRel, Option.bind_eq_some_iff] at h
  obtain ⟨l2, ⟨l1, h1, h2⟩, h3⟩ := h
  exact .step h1 (.step h2 (.one h3))

theorem lrRd_star {s : St} {t : Tid} {x : Side} {l : LR.St} (h : lrRd s t x = some l) : LRStar t s.lr l := .one h

/-- split an accepted step `hs : step s t e = some s'` by pc and event, unfold the per-pc step function (dead
combinations disappear), run `tac` on every surviving arm -/
macro "cow_step_cases " hs:ident e:ident " => " tac:tactic : tactic => `(tactic|
  (unfold step at $hs:ident
   split at $hs:ident <;>
   (cases $e:ident with
    | call c => cases c <;> (try simp [stepIdle, stepRdA, stepRdH, stepRdP, stepRdD, stepDr, stepLkCalled, stepLkA, stepLkH, stepLkC,
        stepLkD, stepLkT, stepLkTD, stepLkExc, stepWHold, stepRelA, stepRelB, stepRelC, stepRelU, stepCn] at $hs:ident) <;> $tac
    | ret c => cases c <;> (try simp [stepIdle, stepRdA, stepRdH, stepRdP, stepRdD, stepDr, stepLkCalled, stepLkA, stepLkH, stepLkC,
        stepLkD, stepLkT, stepLkTD, stepLkExc, stepWHold, stepRelA, stepRelB, stepRelC, stepRelU, stepCn] at $hs:ident) <;> $tac
    | retGot c v => cases c <;> (try simp [stepIdle, stepRdA, stepRdH, stepRdP, stepRdD, stepDr, stepLkCalled, stepLkA, stepLkH, stepLkC,
        stepLkD, stepLkT, stepLkTD, stepLkExc, stepWHold, stepRelA, stepRelB, stepRelC, stepRelU, stepCn] at $hs:ident) <;> $tac
    | exc c => cases c <;> (try simp [stepIdle, stepRdA, stepRdH, stepRdP, stepRdD, stepDr, stepLkCalled, stepLkA, stepLkH, stepLkC,
        stepLkD, stepLkT, stepLkTD, stepLkExc, stepWHold, stepRelA, stepRelB, stepRelC, stepRelU, stepCn] at $hs:ident) <;> $tac
    | lr e' => cases e' <;> (try simp [stepIdle, stepRdA, stepRdH, stepRdP, stepRdD, stepDr, stepLkCalled, stepLkA, stepLkH, stepLkC,
        stepLkD, stepLkT, stepLkTD, stepLkExc, stepWHold, stepRelA, stepRelB, stepRelC, stepRelU, stepCn, neutral] at $hs:ident) <;>
        $tac
    | _ => (try simp [stepIdle, stepRdA, stepRdH, stepRdP, stepRdD, stepDr, stepLkCalled, stepLkA, stepLkH, stepLkC,
        stepLkD, stepLkT, stepLkTD, stepLkExc, stepWHold, stepRelA, stepRelB, stepRelC, stepRelU, stepCn] at $hs:ident) <;>
        (try (split at $hs:ident <;> simp at $hs:ident)) <;> $tac)))

theorem lrGot_same {s : St} {t : Tid} {k : Nat} {x : Side} {l : LR.St} (h : lrGot s t k x = some l) : LR.Same s.lr l := by
  simp only [lrGot, Option.bind_eq_some_iff] at h
  obtain ⟨l1, h1, h2⟩ := h
  exact (LR.same_of_quiet rfl h1).trans (LR.same_of_quiet rfl h2)

theorem lrRel_same {s : St} {t : Tid} {c : Side} {old : Nat} {l : LR.St} (h : lrRel s t c old = some l) : LR.Same s.lr l := by
  simp only [lrRel, Option.bind_eq_some_iff] at h
  obtain ⟨l2, ⟨l1, h1, h2⟩, h3⟩ := h
  exact ((LR.same_of_quiet rfl h1).trans (LR.same_of_quiet rfl h2)).trans (LR.same_of_quiet rfl h3)

theorem lrRd_same {s : St} {t : Tid} {x : Side} {l : LR.St} (h : lrRd s t x = some l) : LR.Same s.lr l :=
  LR.same_of_quiet rfl h

/-- what one accepted step of thread `t` can change -/
structure Frame (s s' : St) (t : Tid) (e : Ev) : Prop where
  /-- the embedded left-right state moves by steps of `t` only -/
  star : LRStar t s.lr s'.lr
  /-- `committed` is changed only by the store that flips `m_readingLeft` -/
  committed : (∀ y, e ≠ .lr (.stRL y)) → s'.lr.committed = s.lr.committed
  /-- payload values are written only by `pwr` (the write handle) and `pcp` (a fresh copy) -/
  cont : (∀ v c, e ≠ .pwr v c) → (∀ n a c, e ≠ .pcp n a c) → s'.cont = s.cont
  /-- versions are destroyed only by `pdt` -/
  dead : (∀ v, e ≠ .pdt v) → s'.dead = s.dead
  /-- only the stepping thread's pc changes -/
  other : ∀ u, u ≠ t → s'.pc u = s.pc u
  /-- a snapshot handle disappears only when its owner drops it -/
  snaps : ∀ u v, (u, v) ∈ s.snaps → ¬ (u = t ∧ e = .call (.drop v)) → (u, v) ∈ s'.snaps

/-- the fields that do not depend on the LR part -/
macro "cow_frame_rest" : tactic => `(tactic|
  (· intro h1 h2; first | rfl | exact absurd rfl (h1 _ _) | exact absurd rfl (h2 _ _ _)
   · intro h1; first | rfl | exact absurd rfl (h1 _)
   · intro u hu; simp [hu]
   · intro u v h hne
     first
       | exact h
       | exact List.mem_cons_of_mem _ h
       | exact (List.mem_erase_of_ne (by intro heq; injection heq with h1 h2; exact hne ⟨h1, by rw [h2]⟩)).mpr h))

/-- arms without LR step -/
macro "cow_frame_close0" : tactic => `(tactic|
  (refine ⟨LRStar.refl _, fun _ => rfl, ?_, ?_, ?_, ?_⟩; cow_frame_rest))

/-- arms with a delegated LR step / sequence `hl` -/
macro "cow_frame_close1 " hl:ident : tactic => `(tactic|
  (refine ⟨?_, ?_, ?_, ?_, ?_, ?_⟩
   · first | exact LRStar.one $hl | exact lrGot_star $hl | exact lrRel_star $hl | exact lrRd_star $hl
   · intro hne
     first
       | exact (lrGot_same $hl).committed
       | exact (lrRel_same $hl).committed
       | exact (lrRd_same $hl).committed
       | (rcases LR.step_committed $hl with h | ⟨_, _, _, he, _⟩
          · exact h
          · first | exact absurd rfl (hne _) | (cases he; done))
   cow_frame_rest))

theorem frame_step {s s' : St} {t : Tid} {e : Ev} (hs : step s t e = some s') : Frame s s' t e := by
  cow_step_cases hs e => first
    | (subst hs; cow_frame_close0; done)
    | (obtain ⟨l, hl, rfl⟩ := hs; cow_frame_close1 hl; done)
    | (obtain ⟨_, l, hl, rfl⟩ := hs; cow_frame_close1 hl; done)
    | (obtain ⟨_, rfl⟩ := hs; cow_frame_close0; done)
    | trace_state

/-- a property of the left-right state that every LR step of any thread preserves is preserved by every cow step -/
theorem LRStar.inv {P : LR.St → Prop} (hP : ∀ a b u e, P a → LR.step a u e = some b → P b) {t : Tid} {a b : LR.St}
    (h : LRStar t a b) (ha : P a) : P b := by
  induction h with
  | refl => exact ha
  | step h1 _ ih => exact ih (hP _ _ _ _ ha h1)

/-- delegated LR steps of `t` do not move any other thread inside `m_data` -/
theorem LRStar.pc_other {t u : Tid} {a b : LR.St} (h : LRStar t a b) (hu : u ≠ t) : b.pc u = a.pc u := by
  induction h with
  | refl => rfl
  | step h1 _ ih => rw [ih, LR.step_pc_other h1 hu]

theorem step_lr_inv {P : LR.St → Prop} (hP : ∀ a b u e, P a → LR.step a u e = some b → P b) {s s' : St} {t : Tid} {e : Ev}
    (hs : step s t e = some s') (h : P s.lr) : P s'.lr := (frame_step hs).star.inv hP h

theorem run_lr_inv {P : LR.St → Prop} (hP : ∀ a b u e, P a → LR.step a u e = some b → P b) {s s' : St}
    {es : List (Tid × Ev)} (hr : run s es = some s') (h : P s.lr) : P s'.lr :=
  runFrom_inv (Inv := fun s => P s.lr) (fun _ _ _ _ hi hst => step_lr_inv hP hst hi) h hr

/-- `committed` only grows -/
theorem step_committed_le {s s' : St} {t : Tid} {e : Ev} (hs : step s t e = some s') : s.lr.committed <+: s'.lr.committed :=
  step_lr_inv (P := fun a => s.lr.committed <+: a.committed) (fun _ _ _ _ h hst => h.trans (LR.step_committed_le hst)) hs
    (List.prefix_refl _)

theorem reachable_run {s s' : St} {es : List (Tid × Ev)} (h : Reachable s) (hr : run s es = some s') : Reachable s' := by
  obtain ⟨b, es0, h0⟩ := h
  exact ⟨b, es0 ++ es, by simp [run, runFrom_append] at h0 hr ⊢; rw [h0]; simpa using hr⟩

end ConcVerif.Cow
