import ConcVerif.Proof.RcuAll
/-! Layer F of the rcu_list invariant: list order (DESIGN §7.4 N1/N2, the part C12 needs).

`order` lists every node ever linked, in list order.  The linked nodes `lst` are a sublist of it, and every
`next` pointer of a node of `order` — linked or not — points strictly forward in `order`. -/
namespace ConcVerif.Rcu

structure FSt where
  lst : List Nat
  order : List Nat
  nx : Nat → Option Nat

def St.fview (s : St) : FSt := { lst := s.lst, order := s.order, nx := fun n => (s.nodes n).next }

structure InvFv (f : FSt) : Prop where
  subl : f.lst.Sublist f.order
  fwd : ∀ c ∈ f.order, ∀ x, f.nx c = some x → x ∈ Below f.order c

def InvF (s : St) : Prop := InvFv s.fview

theorem invF_init : InvF init := by
  constructor <;> simp [init, St.fview, node0]

theorem invF_of_view {s s' : St} (h : InvF s) (hv : s'.fview = s.fview) : InvF s' := by
  unfold InvF; rw [hv]; exact h

/-- `Below` of a sublist -/
theorem below_sublist_of_sublist {l o : List Nat} (h : l.Sublist o) (ho : o.Nodup) {a y : Nat} (hy : y ∈ Below l a) :
    y ∈ Below o a := by
  induction h with
  | slnil => simp at hy
  | cons z h' ih =>
    rename_i l' o'
    have hz := (List.nodup_cons.1 ho).1
    have ha : a ∈ l' := mem_of_mem_below' hy
    have : z ≠ a := fun e => hz (e ▸ h'.subset ha)
    rw [below_cons_ne _ this]
    exact ih (List.nodup_cons.1 ho).2 hy
  | cons_cons z h' ih =>
    rename_i l' o'
    rw [below_cons] at hy ⊢
    split at hy
    · rename_i e; simp only [e, if_true]; exact h'.subset hy
    · rename_i e; simp only [e, if_false]; exact ih (List.nodup_cons.1 ho).2 hy

end ConcVerif.Rcu

namespace ConcVerif.Rcu

theorem nx_frame {s s' : St} (h : ∀ c, (s'.nodes c).next = (s.nodes c).next) :
    (fun n => (s'.nodes n).next) = fun n => (s.nodes n).next := by funext c; exact h c

local macro "frameF" h:ident : tactic =>
  `(tactic| (refine invF_of_view $h ?_
             (try simp only [St.fview, setPc_lst, setPc_order, setPc_nodes, nx_setBack, nx_setDel]); first | done | rfl))

theorem invF_step {s s' : St} {t : Tid} {e : Ev} (hi : Inv s) (h : InvF s) (hs : Step s t e s') : InvF s' := by
  have hsub : s.lst.Sublist s.order := h.subl
  have hfwd : ∀ c ∈ s.order, ∀ x, (s.nodes c).next = some x → x ∈ Below s.order c := h.fwd
  have hond : s.order.Nodup := hi.c.ordNd
  have hlnd : s.lst.Nodup := hi.c.lstNd
  have hnx0 : ∀ a ∈ s.lst, (s.nodes a).next = (Below s.lst a).head? := hi.c.nx
  have wr := hi.c.wr t
  simp only [cview_vpc] at wr
  cases hs
  all_goals (try (frameF h; done))
  all_goals (try exact h)
  case uNextNone r cached m o hpc ho hv => cases cached <;> exact h
  case rFreZ r m nx hpc => cases nx <;> exact h
  case dZhead o hpc ho => cases hz : s.zhead <;> exact h
  case dFreZ m nx hpc => cases nx <;> exact h
  case dtorHead o hpc ho => cases hh : s.head <;> exact h
  case pCon f em x n hpc =>
    rw [hpc] at wr; simp only [CView, WriterP, cview_order] at wr
    refine ⟨hsub, ?_⟩
    intro c hc x' hx'
    simp only [St.fview, setPc_order, setPc_nodes, setNled_nodes, setNled_order] at hc hx' ⊢
    have : c ≠ n := fun e => wr.1 (e ▸ hc)
    rw [upd_other _ _ _ _ this] at hx'; exact hfwd c hc x' hx'
  case pF1 k n h0 o hpc ho =>
    rw [hpc] at wr; simp only [CView, WriterP, FreshN, cview_order] at wr
    refine ⟨hsub, ?_⟩
    intro c hc x' hx'
    simp only [St.fview, setPc_order, setPc_nodes, setNext_nodes, setNext_order] at hc hx' ⊢
    have : c ≠ n := fun e => wr.1.1 (e ▸ hc)
    rw [upd_other _ _ _ _ this] at hx'; exact hfwd c hc x' hx'
  case pE1 k n o hpc ho =>
    rw [hpc] at wr; simp only [CView, WriterP, FreshN, cview_order, cview_nodes, cview_lst] at wr
    obtain ⟨⟨g1, _, g3, _, _⟩, g6, _⟩ := wr
    refine ⟨List.Sublist.cons_cons n hsub, ?_⟩
    intro c hc x hx
    simp only [St.fview, setPc_order, setPc_nodes] at hc hx ⊢
    rcases List.mem_cons.1 hc with e | e
    · subst e; rw [g3] at hx; cases hx
    · have hcn : n ≠ c := fun e' => g1 (e' ▸ e)
      rw [below_cons_ne _ hcn]; exact hfwd c e x hx
  case pF3 k n o hpc ho =>
    rw [hpc] at wr; simp only [CView, WriterP, FreshN, cview_order, cview_nodes, cview_lst] at wr
    obtain ⟨h0, ⟨g1, _, g3, _, _⟩, g6, _⟩ := wr
    refine ⟨List.Sublist.cons_cons n hsub, ?_⟩
    intro c hc x hx
    simp only [St.fview, setPc_order, setPc_nodes] at hc hx ⊢
    rcases List.mem_cons.1 hc with e | e
    · subst e; rw [g3] at hx; injection hx with hx; subst hx
      rw [below_cons_self]; exact hsub.subset (mem_of_head? g6)
    · have hcn : n ≠ c := fun e' => g1 (e' ▸ e)
      rw [below_cons_ne _ hcn]; exact hfwd c e x hx
  case pB2 k n h0 o hpc ho =>
    rw [hpc] at wr; simp only [CView, WriterP, FreshN, NextIs, cview_order, cview_nodes, cview_lst] at wr
    obtain ⟨⟨g1, _, g3, _, _⟩, ⟨g6, _⟩, _⟩ := wr
    have hh0 : h0 ∈ s.order := hsub.subset g6
    have hne : n ≠ h0 := fun e => g1 (e ▸ hh0)
    refine ⟨List.Sublist.append hsub (List.Sublist.refl _), ?_⟩
    intro c hc x hx
    simp only [St.fview, setPc_order, setPc_nodes, setNext_nodes] at hc hx ⊢
    rcases List.mem_append.1 hc with e | e
    · rw [below_append_singleton e]
      by_cases ec : c = h0
      · subst ec; rw [upd_same] at hx; simp at hx; subst hx; simp
      · rw [upd_other _ _ _ _ ec] at hx; exact List.mem_append_left _ (hfwd c e x hx)
    · simp at e; subst e
      rw [upd_other _ _ _ _ hne, g3] at hx; cases hx
  case eUnlPrev c orig pp x z o hpc ho =>
    rw [hpc] at wr; simp only [CView, WriterP, NextIs, cview_order, cview_nodes, cview_lst] at wr
    obtain ⟨g1, _, _, ⟨g4, g4'⟩, g5⟩ := wr
    have hco : c ∈ s.order := hsub.subset g1
    have hpo : pp ∈ s.order := hsub.subset g4
    refine ⟨(List.erase_sublist).trans hsub, ?_⟩
    intro c' hc' x' hx'
    simp only [St.fview, setPc_order, setPc_nodes, setNext_nodes] at hc' hx' ⊢
    by_cases ec : c' = pp
    · subst ec; rw [upd_same] at hx'; simp only at hx'
      have h1 : c ∈ Below s.order c' := hfwd c' hpo c (by rw [hnx0 c' g4]; exact g4')
      have h2 : x' ∈ Below s.order c := hfwd c hco x' (by rw [hnx0 c g1, ← g5]; exact hx')
      exact below_trans hond h1 h2
    · rw [upd_other _ _ _ _ ec] at hx'; exact hfwd c' hc' x' hx'
  case eUnlHead c orig x z o hpc ho =>
    refine ⟨(List.erase_sublist).trans hsub, ?_⟩
    intro c' hc' x' hx'
    exact hfwd c' hc' x' hx'
  case dFreN m nx hpc =>
    have : (({ (s.setNled m .freed) with lst := s.lst.erase m }.dNodeAt t nx)).fview =
        { lst := s.lst.erase m, order := s.order, nx := fun n => (s.nodes n).next } := by cases nx <;> rfl
    unfold InvF; rw [this]
    exact ⟨(List.erase_sublist).trans hsub, hfwd⟩

end ConcVerif.Rcu
