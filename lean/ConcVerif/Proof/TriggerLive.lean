import ConcVerif.Proof.Trigger
import ConcVerif.Base.Live
/-! Ranking function for `TriggerVariable` while it is *armed and fired* (`activated` and `triggered` both
true) and stays so: instance of `Base/Live.lean`.

The property claims that waiters are released "provided the variable is not re-activated while they are
still blocked".  Here that proviso is a restriction of the executions considered: `stepP` is `step` without
the two kinds of steps that re-arm a flag — the clear step of `activate()` (pc `aClear`) and the set-inactive
step of `reset()` (pc `rStore`).  Under `stepP` the set of armed-and-fired states is closed, and every step
that is not a `call` — spurious wake-ups and time-outs included — strictly decreases the rank of the
stepping thread and leaves the other threads' ranks alone.  (Without the restriction no such ranking
exists: `reset()`'s unlock/trigger/lock loop spins for as long as an `activate()` that has cleared
`triggered` is kept from setting `activated`.) -/
namespace ConcVerif.Trigger

/-- `step` restricted to executions that respect the proviso -/
def stepP (s : St) (t : Tid) (e : Ev) : Option St :=
  match s.pc t with
  | .aClear => none
  | .rStore => none
  | _ => step s t e

theorem stepP_step {s s' : St} {t : Tid} {e : Ev} (h : stepP s t e = some s') :
    step s t e = some s' ∧ s.pc t ≠ .aClear ∧ s.pc t ≠ .rStore := by
  unfold stepP at h
  split at h
  · contradiction
  · contradiction
  · rename_i h1 h2; exact ⟨h, h1, h2⟩

def isCall : Ev → Bool
  | .call _ => true
  | _ => false

def Ctx.base : Ctx → Nat
  | .top => 1
  | .inReset => 3

def b2n (b : Bool) : Nat := if b then 1 else 0

/-- remaining own steps of a thread, valid while both flags are (and stay) true -/
def Pc.rank : Pc → Nat
  | .idle => 0
  | .aCalled => 2
  | .aLockT => 12
  | .aClear => 11
  | .aUnlockT => 10
  | .aLockA => 9
  | .aHold st nt => 8 - b2n st - b2n nt
  | .aRet _ => 1
  | .tCalled x => x.base + 5
  | .tLock x => x.base + 4
  | .tHold x st nt => x.base + 3 - b2n st - b2n nt
  | .tRet _ => 1
  | .wCalled _ => 6
  | .wLock _ => 5
  | .wSleep _ => 5
  | .wHold _ _ => 4
  | .wTimedOut _ => 4
  | .wLate _ => 4
  | .wUnlock _ _ => 3
  | .wRet _ _ => 2
  | .rCalled => 4
  | .rLocked => 3
  | .rLoop => 2
  | .rRelease => 10
  | .rRelock => 3
  | .rStore => 1
  | .rUnlock _ => 2
  | .rRet => 1
  | .oCalled _ => 2
  | .oRet _ _ => 1

def μ (s : St) (t : Tid) : Nat := (s.pc t).rank

/-- the states in which the ranking argument is valid -/
def Armed (s : St) : Prop := Inv s ∧ s.flag .act = true ∧ s.flag .trig = true

/-- only the clear step and the set-inactive step make a flag false -/
theorem step_flag_true {s s' : St} {t : Tid} {e : Ev} {m : Side} (hs : step s t e = some s')
    (hf : s.flag m = true) (h1 : s.pc t ≠ .aClear) (h2 : s.pc t ≠ .rStore) : s'.flag m = true := by
  trg_stepcases hs
  all_goals (first | exact hf | skip)
  all_goals (simp [St.setPc, updS_apply])
  all_goals (first | (split <;> simp_all; done) | (simp_all; done) | grind)

theorem armed_step {s s' : St} {t : Tid} {e : Ev} (ha : Armed s) (hs : stepP s t e = some s') : Armed s' := by
  obtain ⟨hs, h1, h2⟩ := stepP_step hs
  exact ⟨inv_step s t e s' ha.1 hs, step_flag_true hs ha.2.1 h1 h2, step_flag_true hs ha.2.2 h1 h2⟩

theorem rank_dec {s s' : St} {t : Tid} {e : Ev} (ha : Armed s) (hs : stepP s t e = some s')
    (hc : isCall e = false) : (s'.pc t).rank < (s.pc t).rank := by
  obtain ⟨hs, h1, h2⟩ := stepP_step hs
  obtain ⟨hi, hfa, hft⟩ := ha
  have hchk := fun m => hi.l.checked m t
  have hall : ∀ m, s.flag m = true := by intro m; cases m <;> assumption
  cases hp : s.pc t
  all_goals (simp [hp] at h1 h2)
  all_goals (try simp [hp, Pc.sawFalse] at hchk)
  all_goals (unfold step at hs; rw [hp] at hs; unfold St.acquire St.release Ctx.after at hs; (repeat' split at hs))
  all_goals (first | contradiction | (injection hs with hs; subst hs))
  all_goals (first | (simp [isCall] at hc; done) | skip)
  all_goals (simp [St.setPc, Pc.rank, Ctx.base, b2n])
  all_goals (first | (simp_all; done) | (simp_all; (repeat' split) <;> omega) | grind)

theorem rank_call {s s' : St} {t : Tid} {e : Ev} (hs : stepP s t e = some s') (hc : isCall e = true) :
    (s'.pc t).rank ≤ (s.pc t).rank + 6 := by
  have hs' := (stepP_step hs).1
  clear hs
  cases e <;> simp [isCall] at hc
  rename_i k
  cases hp : s.pc t <;> cases k <;> simp [step, hp] at hs'
  all_goals (subst hs'; simp [St.setPc, Pc.rank, Ctx.base])

theorem call_only_idle {s : St} {t : Tid} {e : Ev} (hc : isCall e = true) (h : (step s t e).isSome = true) :
    s.pc t = .idle := by
  cases e <;> simp [isCall] at hc
  rename_i k
  cases hp : s.pc t <;> cases k <;> simp [step, hp] at h
  all_goals rfl

theorem ranked : Live.Ranked stepP Armed isCall μ 6 where
  good := by
    intro s t e s' ha hs
    exact armed_step ha hs
  dec := by
    intro s t e s' ha hs hc
    exact rank_dec ha hs hc
  call := by
    intro s t e s' _ hs hc
    exact rank_call hs hc
  frame := by
    intro s t e s' u _ hs hu
    simp [μ, step_pc_other (stepP_step hs).1 hu]

end ConcVerif.Trigger
