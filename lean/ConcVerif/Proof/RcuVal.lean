import ConcVerif.Proof.RcuAll
/-! Element values: a node's `val` is written once, by the constructor call of the `push` that allocated it, and the
node that a `push x` links carries the value `x`. -/
namespace ConcVerif.Rcu

theorem val_upd (f : Nat → Node) (m : Nat) (x : Node) (hx : x.val = (f m).val) (n : Nat) :
    (upd f m x n).val = (f n).val := by
  by_cases e : n = m
  · subst e; rw [upd_same]; exact hx
  · rw [upd_other _ _ _ _ e]

/-- a step of `t` leaves the pc of every other thread alone -/
theorem step_pc_other {s s' : St} {t : Tid} {e : Ev} (hs : Step s t e s') {u : Tid} (hut : u ≠ t) : s'.pc u = s.pc u := by
  cases hs
  all_goals (try (simp [hut]; done))
  all_goals (try rfl)
  all_goals (simp only [St.dNodeAt, St.dRecAt, St.reapAt]; split <;> simp [hut])

/-- the only step that writes a `val` is the element constructor -/
theorem val_step {s s' : St} {t : Tid} {e : Ev} (hs : Step s t e s') (n : Nat) :
    (s'.nodes n).val = (s.nodes n).val ∨ ∃ f em x, s.pc t = .pCons (.push f em x) n ∧ (s'.nodes n).val = x := by
  cases hs
  all_goals (try (exact Or.inl rfl))
  all_goals (try (left; refine val_upd s.nodes _ _ ?_ _; rfl; done))
  case pCon f em x m hpc =>
    by_cases e : n = m
    · subst e; right; exact ⟨f, em, x, hpc, by simp [St.setNled, St.setPc]⟩
    · left; simp [St.setNled, St.setPc, upd_other _ _ _ _ e]
  all_goals (left; simp only [St.dNodeAt, St.dRecAt, St.reapAt]; split <;> (try rfl))
  all_goals trace_state

/-- the node and the value of a `push` between the construction of its node and the linking store -/
def pushNode : Pc → Option (Int × Nat)
  | .pLoad (.push _ _ x) n | .pE1 (.push _ _ x) n | .pF1 (.push _ _ x) n _ | .pF2 (.push _ _ x) n _
  | .pF3 (.push _ _ x) n | .pB1 (.push _ _ x) n _ | .pB2 (.push _ _ x) n _ => some (x, n)
  | _ => none

def InvV (s : St) : Prop := ∀ t x n, pushNode (s.pc t) = some (x, n) → (s.nodes n).val = x

theorem invV_init : InvV init := by
  intro t x n h; simp [init, pushNode] at h

theorem pushNode_holds {p : Pc} (h : pushNode p ≠ none) : holdsW p = true := by
  cases p <;> simp [pushNode] at h <;> simp [holdsW]

theorem pushNode_step {s s' : St} {t : Tid} {e : Ev} (hs : Step s t e s') {x : Int} {n : Nat}
    (h : pushNode (s'.pc t) = some (x, n)) :
    (pushNode (s.pc t) = some (x, n) ∧ ∀ f em y m, s.pc t ≠ .pCons (.push f em y) m) ∨
      ((∃ f em, s.pc t = .pCons (.push f em x) n) ∧ (s'.nodes n).val = x) := by
  cases hs
  all_goals (try (simp [pushNode] at h; done))
  all_goals (try (left; refine ⟨?_, ?_⟩ <;> simp_all [pushNode]; done))
  case pCon f em y m hpc =>
    right; simp [pushNode] at h; obtain ⟨rfl, rfl⟩ := h; exact ⟨⟨f, em, hpc⟩, by simp [St.setNled, St.setPc]⟩
  case pF1 k m h0 o hpc ho =>
    cases k <;> (first | (simp [pushNode] at h; done) | (left; refine ⟨?_, ?_⟩ <;> simp_all [pushNode]))
  case pF2 k m h0 o hpc ho =>
    cases k <;> (first | (simp [pushNode] at h; done) | (left; refine ⟨?_, ?_⟩ <;> simp_all [pushNode]))
  case pB1 k m h0 o hpc ho =>
    cases k <;> (first | (simp [pushNode] at h; done) | (left; refine ⟨?_, ?_⟩ <;> simp_all [pushNode]))
  all_goals (exfalso; revert h; simp only [St.dNodeAt, St.dRecAt, St.reapAt]; split <;> simp [pushNode])

theorem invV_step {s s' : St} {t : Tid} {e : Ev} (ha : InvA s) (h : InvV s) (hs : Step s t e s') : InvV s' := by
  intro u x n hu
  by_cases hut : u = t
  · subst hut
    rcases pushNode_step hs hu with ⟨g1, g2⟩ | ⟨_, g⟩
    · rcases val_step hs n with v | ⟨f, em, y, v1, _⟩
      · rw [v]; exact h u x n g1
      · exact absurd v1 (g2 f em y n)
    · exact g
  · rw [step_pc_other hs hut] at hu
    rcases val_step hs n with v | ⟨f, em, y, v1, _⟩
    · rw [v]; exact h u x n hu
    · exfalso
      have a := (ha.wm u).1 (pushNode_holds (by rw [hu]; simp))
      have b := (ha.wm t).1 (by rw [v1]; simp [holdsW])
      rw [a] at b; injection b with b; exact hut b

theorem invV_reachable {s : St} (h : Reachable s) : InvV s := by
  obtain ⟨es, hes⟩ := h
  have := runFrom_inv (Inv := fun s => InvX s ∧ InvV s)
    (fun s t e s' hi hs => ⟨invX_step hi.1 hs, invV_step hi.1.i.a hi.2 (step_sound hs)⟩) ⟨invX_init, invV_init⟩ hes
  exact this.2

end ConcVerif.Rcu
