import ConcVerif.Proof.HBRcu
/-! rcu_list and happens-before, part 2: which step changes which component of the state (frame lemmas
used by the trace invariants), and the events that initialise a node / a log record. -/
namespace ConcVerif.Rcu

/-- plain initialisation of a list node (constructor of `node`: `deleted`, `data`, and the non-atomic
initial values of `next` / `back`) -/
def Ev.initN : Ev → Option Nat
  | .conN n _ => some n
  | .pstData n _ => some n
  | .pstDel n false => some n
  | _ => none

/-- plain initialisation of a log record (constructor of `zombie_list_node`: `zombie_node`, and the
non-atomic initial values of `next` / `owner`), and the CAS that publishes it -/
def Ev.initR : Ev → Option Nat
  | .conR r _ _ => some r
  | .pstZn r _ => some r
  | .cas _ _ (some r) true _ => some r
  | _ => none

/-- where a reclaimer's cursor goes next -/
def reapPc (r : Nat) : Option Nat → Pc
  | some m => .rZn r m
  | none => .uTrunc r

/-- … and what is taken off the log -/
def reapLog (l : List Nat) : Option Nat → List Nat
  | some m => l.erase m
  | none => l

section reapAt
variable (s : St) (t : Tid) (r : Nat) (n : Option Nat)
@[simp] theorem reapAt_nodes : (s.reapAt t r n).nodes = s.nodes := by cases n <;> rfl
@[simp] theorem reapAt_recs : (s.reapAt t r n).recs = s.recs := by cases n <;> rfl
@[simp] theorem reapAt_nN : (s.reapAt t r n).nN = s.nN := by cases n <;> rfl
@[simp] theorem reapAt_nR : (s.reapAt t r n).nR = s.nR := by cases n <;> rfl
@[simp] theorem reapAt_nled : (s.reapAt t r n).nled = s.nled := by cases n <;> rfl
@[simp] theorem reapAt_rled : (s.reapAt t r n).rled = s.rled := by cases n <;> rfl
@[simp] theorem reapAt_head : (s.reapAt t r n).head = s.head := by cases n <;> rfl
@[simp] theorem reapAt_wmtx : (s.reapAt t r n).wmtx = s.wmtx := by cases n <;> rfl
@[simp] theorem reapAt_lst : (s.reapAt t r n).lst = s.lst := by cases n <;> rfl
@[simp] theorem reapAt_order : (s.reapAt t r n).order = s.order := by cases n <;> rfl
@[simp] theorem reapAt_dt : (s.reapAt t r n).dt = s.dt := by cases n <;> rfl
@[simp] theorem reapAt_hnd : (s.reapAt t r n).hnd = s.hnd := by cases n <;> rfl
@[simp] theorem reapAt_it : (s.reapAt t r n).it = s.it := by cases n <;> rfl
theorem reapAt_log : (s.reapAt t r n).log = reapLog s.log n := by cases n <;> rfl
theorem reapAt_pc : (s.reapAt t r n).pc = upd s.pc t (reapPc r n) := by cases n <;> rfl
end reapAt

/-- the destructor phase is never left -/
theorem dt_mono {s s' : St} {t : Tid} {e : Ev} (hS : Step s t e s') (h : s'.dt = false) : s.dt = false := by
  cases hS <;> first | exact h | (simp at h; exact h) | (simp at h; done) | (simp [St.dNodeAt, St.dRecAt] at h; split at h <;> exact h)

/-- before the destructor nobody is inside it -/
theorem not_inDtor {s : St} (hi : Inv s) (hdt : s.dt = false) (t : Tid) : inDtor (s.pc t) = false := by
  cases h : inDtor (s.pc t) with
  | false => rfl
  | true => have := hi.a.dtd t h; rw [hdt] at this; cases this

/-- closes the goals of the destructor's steps (`hnd : inDtor (s.pc t) = false` in context) -/
macro "no_dtor" : tactic => `(tactic| (exfalso; simp_all [inDtor]; done))

theorem wmtx_frame {s s' : St} {t : Tid} {e : Ev} (hS : Step s t e s') (h1 : e ≠ .mlk) (h2 : e ≠ .mul)
    (hnd : inDtor (s.pc t) = false) : s'.wmtx = s.wmtx := by
  cases hS <;> first | rfl | (exfalso; simp at h1 h2; done) | (simp; done) | no_dtor

theorem head_frame {s s' : St} {t : Tid} {e : Ev} (hS : Step s t e s') (h1 : ∀ o v, e ≠ .ast .head o v)
    (hnd : inDtor (s.pc t) = false) : s'.head = s.head := by
  cases hS <;> first | rfl | (exfalso; simp at h1; done) | (simp; done) | no_dtor

theorem order_frame {s s' : St} {t : Tid} {e : Ev} (hS : Step s t e s') (h1 : ∀ f o v, e ≠ .ast f o v)
    (hnd : inDtor (s.pc t) = false) : s'.order = s.order := by
  cases hS <;> first | rfl | (exfalso; simp at h1; done) | (simp; done) | no_dtor

theorem next_frame {s s' : St} {t : Tid} {e : Ev} (hS : Step s t e s') (h1 : ∀ f o v, e ≠ .ast f o v)
    (h2 : ∀ n v, e ≠ .conN n v) (hnd : inDtor (s.pc t) = false) (m : Nat) : (s'.nodes m).next = (s.nodes m).next := by
  cases hS <;> first | rfl | (exfalso; simp at h1 h2; done) | (simp; done) | no_dtor | (simp only [setPc_nodes, setDel_nodes, upd_apply]; split <;> simp_all; done)

theorem it_frame {s s' : St} {t : Tid} {e : Ev} (hS : Step s t e s') (h1 : ∀ f o v, e ≠ .ald f o v)
    (h2 : ∀ f o v, e ≠ .ast f o v) (h3 : e ≠ .mul) (h4 : ∀ k, e ≠ .ret k) (hnd : inDtor (s.pc t) = false) : s'.it = s.it := by
  cases hS <;> first | rfl | (exfalso; simp at h1 h2 h3 h4; done) | (simp; done) | no_dtor

theorem hnd_frame {s s' : St} {t : Tid} {e : Ev} (hS : Step s t e s') (h1 : ∀ o a b ok c, e ≠ .cas o a b ok c)
    (h2 : ∀ f o v, e ≠ .ast f o v) (h4 : ∀ k, e ≠ .ret k) (hnd : inDtor (s.pc t) = false) : s'.hnd = s.hnd := by
  cases hS <;> first | rfl | (exfalso; simp at h1 h2 h4; done) | (exact absurd rfl (h1 _ _ _ _ _)) | (simp; done) | no_dtor

theorem nR_frame {s s' : St} {t : Tid} {e : Ev} (hS : Step s t e s') (h1 : ∀ z, e ≠ .alo true z)
    (hnd : inDtor (s.pc t) = false) : s'.nR = s.nR := by
  cases hS <;> first | rfl | (exfalso; simp at h1; done) | (simp; done) | no_dtor

/-- the other threads keep their pc -/
theorem pc_frame {s s' : St} {t : Tid} {e : Ev} (hS : Step s t e s') (hnd : inDtor (s.pc t) = false) {u : Tid}
    (hu : u ≠ t) : s'.pc u = s.pc u := by
  cases hS <;> first | rfl | (simp [reapAt_pc, hu]; done) | no_dtor

end ConcVerif.Rcu
