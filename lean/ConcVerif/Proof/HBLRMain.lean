import ConcVerif.Proof.HBLRStep
import ConcVerif.Proof.HBComplete
/-! Left-right and happens-before, part 5: the invariants hold along every accepted trace
(`hinv_run`), hence every write to a copy happens-after every earlier access of it and every read
happens-after every earlier write (`lr_order`), and the mapped trace has no data race. -/
namespace ConcVerif.LR
open HB (HBeq)

structure HInv (o : Ords) (es : List (Tid × Ev)) (s : St) : Prop where
  i1 : I1 o es s.mtx
  i2 : I2 o es s.rl
  i3 : I3 o es s.pc
  i4 : I4 es s.pc
  i5 : I5 o es s.mtx s.rl s.pc

theorem hinv_init (o : Ords) (b : Bool) : HInv o [] (init b) := by
  refine ⟨?_, ?_, ?_, ?_, ?_⟩
  · intro i u e x hi; simp at hi
  · intro i u e hi; simp at hi
  · intro r x _ i u e hi; simp at hi
  · intro i r x v hi; simp at hi
  · intro i r v hi; simp at hi

/-! ### pc updates of the acting thread -/

theorem upd_held_of {pc : Tid → Pc} {t : Tid} {p' : Pc} (hh : p'.held = (pc t).held) (r : Tid) :
    (upd pc t p' r).held = (pc r).held := by
  by_cases h : r = t
  · subst h; rw [upd_same]; exact hh
  · rw [upd_other _ _ _ _ h]

/-- the acting thread has no handle: the handles of the others stay -/
theorem upd_keep {pc : Tid → Pc} {t : Tid} (p' : Pc) (hn : (pc t).held = none) {r : Tid} {x : Side}
    (hx : (pc r).held = some x) : (upd pc t p' r).held = some x ∧ (upd pc t p' r).regIn = (pc r).regIn := by
  have : r ≠ t := by intro hc; subst hc; rw [hn] at hx; cases hx
  rw [upd_other _ _ _ _ this]; exact ⟨hx, rfl⟩

/-- the acting thread ends without a handle: no new handle appears -/
theorem upd_held_sub {pc : Tid → Pc} {t : Tid} {p' : Pc} (hn : p'.held = none) {r : Tid} {x : Side}
    (hx : (upd pc t p' r).held = some x) : (pc r).held = some x := by
  by_cases h : r = t
  · subst h; rw [upd_same, hn] at hx; cases hx
  · rw [upd_other _ _ _ _ h] at hx; exact hx

/-- the acting thread is not a waiting holder: pending counters of the holder stay -/
theorem upd_zkeep {pc : Tid → Pc} {t : Tid} (p' : Pc) (hq : ∀ c, ¬ zPend (pc t).pk c) {u : Tid} {c : Side}
    (hz : zPend (pc u).pk c) : zPend (upd pc t p' u).pk c := by
  have : u ≠ t := by intro hc; subst hc; exact hq c hz
  rw [upd_other _ _ _ _ this]; exact hz

theorem waitSeen_held (op : OpId) (l : Side) (zL zR : Bool) (c : Side) : (waitSeen op l zL zR c).held = none := by
  cases c <;> rfl

macro "no_wr" : tactic => `(tactic| (intro x hx; simp [Ev.wrS] at hx))

theorem hinv_step {o : Ords} (ho : o.OK) {es : List (Tid × Ev)} {s s' : St} {t : Tid} {e : Ev} (hi : Inv s)
    (h : HInv o es s) (hc : Cls s t e s') : HInv o (es ++ [(t, e)]) s' := by
  obtain ⟨h1, h2, h3, h4, h5⟩ := h
  cases hc with
  | frame p' hm hrl hpc hh hr hz hw hrd hst =>
    have hheld := upd_held_of (pc := s.pc) (t := t) hh
    have hzk : ∀ u c, zPend (s.pc u).pk c → zPend (upd s.pc t p' u).pk c := by
      intro u c hzp
      by_cases hut : u = t
      · subst hut; rw [upd_same]; exact hz c hzp
      · rw [upd_other _ _ _ _ hut]; exact hzp
    refine ⟨?_, ?_, ?_, ?_, ?_⟩
    · rw [hm]; exact I1_snoc h1 (fun x hx => (hw x hx).1)
    · rw [hrl]; exact I2_snoc h2 (fun hx => (hw _ hx).2.1 rfl) hst
    · rw [hpc]
      exact I3_snoc h3 (fun r x hx => by rw [hheld] at hx; exact hx) (fun x hx r => by rw [hheld]; exact (hw x hx).2.2.1 r)
    · rw [hpc]
      exact I4_snoc h4 (fun r x hx => by rw [hheld]; exact hx) (fun x v he => by rw [hheld]; exact (hrd x v he).1)
    · rw [hm, hrl, hpc]
      refine I5_snoc h5 ?_ (fun u c _ hzp => hzk u c hzp) ?_
      · intro r x hx
        refine ⟨by rw [hheld]; exact hx, ?_⟩
        by_cases hrt : r = t
        · subst hrt; rw [upd_same]; exact hr x (by rw [hh]; exact hx)
        · rw [upd_other _ _ _ _ hrt]
      · intro v he
        obtain ⟨hx, hf⟩ := hrd _ v he
        obtain ⟨u, c, hmu, hzp, hreg⟩ := hf rfl
        refine ⟨u, c, hmu, hzk u c hzp, by rw [hheld]; exact hx, ?_⟩
        rw [upd_same, hr _ (by rw [hh]; exact hx)]; exact hreg
  | load c hpc0 he hm hrl hpc =>
    subst he
    have hn : (s.pc t).held = none := by rw [hpc0]; rfl
    have hq : ∀ c', ¬ zPend (s.pc t).pk c' := by intro c'; rw [hpc0]; exact not_zPend_quiet
    refine ⟨?_, ?_, ?_, ?_, ?_⟩
    · rw [hm]; exact I1_snoc h1 (by no_wr)
    · rw [hrl]; exact I2_snoc h2 (by simp [Ev.wrS]) (by intro _ hc; cases hc)
    · rw [hpc]; exact I3_load ho h2 h3 rfl
    · rw [hpc]; exact I4_snoc h4 (fun r x hx => (upd_keep _ hn hx).1) (by intro _ _ hc; cases hc)
    · rw [hm, hrl, hpc]
      exact I5_snoc h5 (fun r x hx => upd_keep _ hn hx) (fun u c _ hzp => upd_zkeep _ hq hzp) (by intro _ hc; cases hc)
  | dec c x old hpc0 he hm hrl hpc =>
    subst he
    refine ⟨?_, ?_, ?_, ?_, ?_⟩
    · rw [hm]; exact I1_snoc h1 (by no_wr)
    · rw [hrl]; exact I2_snoc h2 (by simp [Ev.wrS]) (by intro _ hc; cases hc)
    · rw [hpc]; exact I3_snoc h3 (fun r y hy => upd_held_sub rfl hy) (by no_wr)
    · rw [hpc]; exact I4_dec _ h4
    · rw [hm, hrl, hpc]
      exact I5_dec _ h5 (by rw [hpc0]; rfl) (by intro c'; rw [hpc0]; exact not_zPend_quiet)
  | lock op hm0 he hm hrl hpc hh =>
    subst he
    refine ⟨?_, ?_, ?_, ?_, ?_⟩
    · rw [hm]; rw [hm0] at h1; exact I1_lock t h1
    · rw [hrl]; exact I2_snoc h2 (by simp [Ev.wrS]) (by intro _ hc; cases hc)
    · rw [hpc]; exact I3_snoc h3 (fun r y hy => upd_held_sub rfl hy) (by no_wr)
    · rw [hpc]; exact I4_snoc h4 (fun r x hx => (upd_keep _ hh hx).1) (by intro _ _ hc; cases hc)
    · rw [hm, hrl]; rw [hm0] at h5; exact I5_lock _ t h5
  | unlock p' hm0 he hm hrl hpc hh' hh hz =>
    subst he
    refine ⟨?_, ?_, ?_, ?_, ?_⟩
    · rw [hm]; rw [hm0] at h1; exact I1_unlock h1
    · rw [hrl]; exact I2_snoc h2 (by simp [Ev.wrS]) (by intro _ hc; cases hc)
    · rw [hpc]; exact I3_snoc h3 (fun r y hy => upd_held_sub hh' hy) (by no_wr)
    · rw [hpc]; exact I4_snoc h4 (fun r x hx => (upd_keep _ hh hx).1) (by intro _ _ hc; cases hc)
    · rw [hm, hrl]; rw [hm0] at h5; exact I5_unlock _ h5 hz
  | flip op l hpc0 hm0 he hm hrl hpc =>
    subst he
    have hn : (s.pc t).held = none := by rw [hpc0]; rfl
    refine ⟨?_, ?_, ?_, ?_, ?_⟩
    · rw [hm]; exact I1_snoc h1 (by no_wr)
    · rw [hrl]; rw [hm0] at h1; exact I2_flip l.flip h1
    · rw [hpc]; exact I3_snoc h3 (fun r y hy => upd_held_sub rfl hy) (by no_wr)
    · rw [hpc]; exact I4_snoc h4 (fun r x hx => (upd_keep _ hn hx).1) (by intro _ _ hc; cases hc)
    · rw [hm, hm0, hrl, hpc]; exact I5_flip h4 hn rfl
  | zero op l zL zR c hpc0 hm0 he hz hm hrl hpc =>
    subst he
    have hn : (s.pc t).held = none := by rw [hpc0]; rfl
    have hno : ∀ r, (s.pc r).regIn ≠ some c := by
      intro r hr
      have : r ∈ s.reg c := (hi.mem r c).2 hr
      rw [hz] at this; cases this
    refine ⟨?_, ?_, ?_, ?_, ?_⟩
    · rw [hm]; exact I1_snoc h1 (by no_wr)
    · rw [hrl]; exact I2_snoc h2 (by simp [Ev.wrS]) (by intro _ hc; cases hc)
    · rw [hpc]; exact I3_snoc h3 (fun r y hy => upd_held_sub (waitSeen_held op l zL zR c) hy) (by no_wr)
    · rw [hpc]; exact I4_snoc h4 (fun r x hx => (upd_keep _ hn hx).1) (by intro _ _ hc; cases hc)
    · rw [hm, hm0, hrl, hpc]; rw [hm0] at h5
      exact I5_zero ho h5 (by rw [hpc0]; rfl) rfl hno hn

theorem run_snoc {b : Bool} {es : List (Tid × Ev)} {t : Tid} {e : Ev} {s' : St}
    (h : run (init b) (es ++ [(t, e)]) = some s') : ∃ s, run (init b) es = some s ∧ step s t e = some s' := by
  simp only [run, runFrom_append] at h
  cases h1 : runFrom step (init b) es with
  | none => simp [h1] at h
  | some s1 =>
    simp only [h1, Option.bind_some, runFrom_cons, runFrom_nil] at h
    cases h2 : step s1 t e with
    | none => simp [h2] at h
    | some s2 => simp [h2] at h; subst h; exact ⟨s1, h1, h2⟩

/-- the happens-before invariants hold after every accepted trace -/
theorem hinv_run {o : Ords} (ho : o.OK) {b : Bool} {es : List (Tid × Ev)} {s : St} (h : run (init b) es = some s) :
    HInv o es s := by
  induction es using HB.snoc_induction generalizing s with
  | h0 => simp [run] at h; subst h; exact hinv_init o b
  | hs es x ih =>
    obtain ⟨t, e⟩ := x
    obtain ⟨s1, h1, h2⟩ := run_snoc h
    have hi : Inv s1 := inv_reachable ⟨b, es, h1⟩
    exact hinv_step ho hi (ih h1) (step_cls hi h2)

/-! ### conflicting accesses -/

/-- the side a writer event reads (the source of a copy), or a reader reads through its handle -/
def Ev.rdS : Ev → Option Side
  | .rd x _ => some x
  | .cpBegin x | .cpEnd x _ => some x.flip
  | _ => none

def Touches (e : Ev) (x : Side) : Prop := e.wrS = some x ∨ e.rdS = some x

/-- two model events conflict: they access the same copy and at least one of them writes it -/
def LRConf (ei ej : Ev) : Prop := ∃ x, (ei.wrS = some x ∧ Touches ej x) ∨ (Touches ei x ∧ ej.wrS = some x)

theorem rdS_only {e : Ev} {x : Side} (h : e.rdS = some x) (hw : e.wrS = none) : ∃ v, e = .rd x v := by
  cases e <;> simp [Ev.rdS, Ev.wrS] at h hw
  subst h; exact ⟨_, rfl⟩

/-- a write / copy event is a `frame` step of the mutex holder, whose phase has no pending counter -/
theorem cls_of_wr {s s' : St} {t : Tid} {e : Ev} {x : Side} (hc : Cls s t e s') (hx : e.wrS = some x) :
    s'.mtx = some t ∧ x = s'.rl.flip ∧ ∀ c, ¬ zPend (s'.pc t).pk c := by
  cases hc with
  | frame p' hm hrl hpc hh hr hz hw hrd hst =>
    obtain ⟨a, b, _, d⟩ := hw x hx
    refine ⟨by rw [hm]; exact a, by rw [hrl]; exact side_ne_iff.1 b, ?_⟩
    intro c; rw [hpc, upd_same]; exact d c
  | load c hpc0 he hm hrl hpc => subst he; simp [Ev.wrS] at hx
  | dec c x old hpc0 he hm hrl hpc => subst he; simp [Ev.wrS] at hx
  | lock op hm0 he hm hrl hpc hh => subst he; simp [Ev.wrS] at hx
  | unlock p' hm0 he hm hrl hpc hh' hh hz => subst he; simp [Ev.wrS] at hx
  | flip op l hpc0 hm0 he hm hrl hpc => subst he; simp [Ev.wrS] at hx
  | zero op l zL zR c hpc0 hm0 he hz hm hrl hpc => subst he; simp [Ev.wrS] at hx

/-- a read through a handle is a `frame` step of a thread whose handle points to that side -/
theorem cls_of_rd {s s' : St} {t : Tid} {x : Side} {v : List OpId} (hc : Cls s t (.rd x v) s') :
    (s'.pc t).held = some x := by
  cases hc with
  | frame p' hm hrl hpc hh hr hz hw hrd hst => rw [hpc, upd_same, hh]; exact (hrd x v rfl).1
  | load c hpc0 he hm hrl hpc => cases he
  | dec c x old hpc0 he hm hrl hpc => cases he
  | lock op hm0 he hm hrl hpc hh => cases he
  | unlock p' hm0 he hm hrl hpc hh' hh hz => cases he
  | flip op l hpc0 hm0 he hm hrl hpc => cases he
  | zero op l zL zR c hpc0 hm0 he hz hm hrl hpc => cases he

/-- the event just performed happens-after every earlier conflicting access -/
theorem last_order {o : Ords} {es : List (Tid × Ev)} {s s' : St} {t u : Tid} {e ei : Ev} {i : Nat}
    (h : HInv o (es ++ [(t, e)]) s') (hc : Cls s t e s') (hi : es[i]? = some (u, ei)) (hcf : LRConf ei e) :
    HB.HB (hbTrace o (es ++ [(t, e)])) i es.length := by
  have hil := es_get_lt hi
  have hi' := es_get_mono [(t, e)] hi
  -- whatever the holder of the mutex knows is ordered before its new event
  have viaPub : s'.mtx = some t → Pub o (es ++ [(t, e)]) s'.mtx i → HB.HB (hbTrace o (es ++ [(t, e)])) i es.length := by
    intro hm hp; rw [hm] at hp; exact hp.hb_last hil
  obtain ⟨x, ⟨hwi, hte⟩ | ⟨hti, hwe⟩⟩ := hcf
  · -- earlier write, later access
    cases hw : e.wrS with
    | some y =>
      obtain ⟨hm, _, _⟩ := cls_of_wr hc hw
      exact viaPub hm (h.i1 i u ei x hi' hwi)
    | none =>
      rcases hte with hte | hte
      · rw [hw] at hte; cases hte
      · obtain ⟨v, rfl⟩ := rdS_only hte hw
        have hk : Kn (hbTrace o (es ++ [(t, .rd x v)])) t i := h.i3 t x (cls_of_rd hc) i u ei hi' hwi
        rw [hbTrace_snoc] at hk ⊢
        rcases hk.hb_last with hk | hk
        · simp at hk; omega
        · simpa using hk
  · -- earlier access, later write
    obtain ⟨hm, hx, hz⟩ := cls_of_wr hc hwe
    cases hw : ei.wrS with
    | some y => exact viaPub hm (h.i1 i u ei y hi' hw)
    | none =>
      rcases hti with hti | hti
      · rw [hw] at hti; cases hti
      · obtain ⟨v, rfl⟩ := rdS_only hti hw
        rw [hx] at hi'
        rcases h.i5 i u v hi' with hp | ⟨t', c, hm', hzp, _⟩
        · exact viaPub hm hp
        · rw [hm] at hm'; injection hm' with hm'; subst hm'; exact absurd hzp (hz c)

/-- **every conflicting pair of accesses of a copy is ordered by happens-before** -/
theorem lr_order {o : Ords} (ho : o.OK) {b : Bool} {es : List (Tid × Ev)} {s : St} (h : run (init b) es = some s)
    {i j : Nat} {u t : Tid} {ei ej : Ev} (hij : i < j) (hi : es[i]? = some (u, ei)) (hj : es[j]? = some (t, ej))
    (hc : LRConf ei ej) : HB.HB (hbTrace o es) i j := by
  induction es using HB.snoc_induction generalizing s with
  | h0 => simp at hj
  | hs es x ih =>
    obtain ⟨t', e⟩ := x
    obtain ⟨s1, h1, h2⟩ := run_snoc h
    rcases es_get_snoc hj with ⟨hjl, hj'⟩ | ⟨hjl, hp⟩
    · have hi'' : es[i]? = some (u, ei) := by
        rw [List.getElem?_append_left (by omega)] at hi; exact hi
      rw [hbTrace_append]; exact (ih h1 hi'' hj').mono _
    · injection hp with e1 e2; subst e1; subst e2; subst hjl
      have hi'' : es[i]? = some (u, ei) := by
        rw [List.getElem?_append_left hij] at hi; exact hi
      have hinv : Inv s1 := inv_reachable ⟨b, es, h1⟩
      exact last_order (hinv_run ho h) (step_cls hinv h2) hi'' hc

/-! ### the mapped trace has no data race -/

theorem toHB_wr {o : Ords} {e : Ev} {y : HB.Loc} (h : toHB o e = .wr y) : ∃ x, e.wrS = some x ∧ copyLoc x = y := by
  cases e <;> simp [toHB] at h <;> exact ⟨_, rfl, h⟩

theorem toHB_rd {o : Ords} {e : Ev} {y : HB.Loc} (h : toHB o e = .rd y) : ∃ x, e.rdS = some x ∧ copyLoc x = y := by
  cases e <;> simp [toHB] at h <;> exact ⟨_, rfl, h⟩

theorem toHB_acc {o : Ords} {e : Ev} {y : HB.Loc} (h : (toHB o e).accesses y) : ∃ x, Touches e x ∧ copyLoc x = y := by
  rcases h with h | h
  · obtain ⟨x, h1, h2⟩ := toHB_rd h; exact ⟨x, .inr h1, h2⟩
  · obtain ⟨x, h1, h2⟩ := toHB_wr h; exact ⟨x, .inl h1, h2⟩

/-- a conflict of the mapped trace is a conflict of the model events -/
theorem lr_conf_of_hb {o : Ords} {es : List (Tid × Ev)} {y : HB.Loc} {i j : Nat}
    (hc : HB.ConflictOn (hbTrace o es) y i j) :
    ∃ u t ei ej, es[i]? = some (u, ei) ∧ es[j]? = some (t, ej) ∧ LRConf ei ej := by
  obtain ⟨u, t, hi, hj, h1, h2, ai, aj, hw⟩ := hc
  obtain ⟨ei, gi, mi⟩ := hbTrace_get_inv h1
  obtain ⟨ej, gj, mj⟩ := hbTrace_get_inv h2
  subst mi; subst mj
  refine ⟨u, t, ei, ej, gi, gj, ?_⟩
  rcases hw with hw | hw
  · obtain ⟨x, w1, w2⟩ := toHB_wr hw
    obtain ⟨x', t1, t2⟩ := toHB_acc aj
    have : x' = x := copyLoc_inj (t2.trans w2.symm)
    subst this
    exact ⟨x', .inl ⟨w1, t1⟩⟩
  · obtain ⟨x, w1, w2⟩ := toHB_wr hw
    obtain ⟨x', t1, t2⟩ := toHB_acc ai
    have : x' = x := copyLoc_inj (t2.trans w2.symm)
    subst this
    exact ⟨x', .inr ⟨t1, w1⟩⟩

theorem lr_hb {o : Ords} (ho : o.OK) {b : Bool} {es : List (Tid × Ev)} {s : St} (h : run (init b) es = some s)
    {y : HB.Loc} {i j : Nat} (hij : i < j) (hc : HB.ConflictOn (hbTrace o es) y i j) : HB.HB (hbTrace o es) i j := by
  obtain ⟨u, t, ei, ej, gi, gj, hcf⟩ := lr_conf_of_hb hc
  exact lr_order ho h hij gi gj hcf

theorem lr_no_race {o : Ords} (ho : o.OK) {b : Bool} {es : List (Tid × Ev)} {s : St} (h : run (init b) es = some s) :
    ¬ HB.Race (hbTrace o es) := by
  intro ⟨i, j, hij, ⟨y, hc⟩, hn⟩
  exact hn (lr_hb ho h hij hc)

end ConcVerif.LR
