import ConcVerif.Proof.HBRcuSafe2
/-! rcu_list and happens-before, part 12: `owner` of a record is stored to at most once
(`m_zombie->owner.store(nullptr)` at the end of `rcu_guard::unlock`), and stays null afterwards. -/
namespace ConcVerif.Rcu
open HB (HBeq Kn)

/-- `ST` a record whose `owner` has been stored to is inactive and was pushed -/
def ST (es : List (Tid × Ev)) (s : St) : Prop :=
  ∀ (q : Nat) (y : Tid) (x : Nat) (o : Ord) (v : Option Nat), es[q]? = some (y, Ev.ast (.rowner x) o v) →
    (s.recs x).owner = none ∧ s.rled x ≠ .none ∧ s.rled x ≠ .alloc

/-- `UC` at most one store to the `owner` of a record -/
def UC (es : List (Tid × Ev)) : Prop :=
  ∀ (q q' : Nat) (y y' : Tid) (x : Nat) (o o' : Ord) (v v' : Option Nat), es[q]? = some (y, Ev.ast (.rowner x) o v) →
    es[q']? = some (y', Ev.ast (.rowner x) o' v') → q = q'

/-- the ledger of a record that has left `none / alloc` never returns there -/
theorem rled_keep {s s' : St} {t : Tid} {e : Ev} (hi : Inv s) (hS : Step s t e s') (hnd : inDtor (s.pc t) = false) {x : Nat}
    (h1 : s.rled x ≠ .none) (h2 : s.rled x ≠ .alloc) : s'.rled x ≠ .none ∧ s'.rled x ≠ .alloc := by
  have hc := hi.b.cntR s.nR
  simp only [bview_rled, bview_nR] at hc
  have hn : s.rled s.nR = .none := hc.2 (Nat.le_refl _)
  cases hS <;> first | exact ⟨h1, h2⟩ | (simp; exact ⟨h1, h2⟩) | no_dtor | skip
  all_goals
    simp only [setPc_rled, setRled_rled, reapAt_rled, upd_apply]
    split
    · rename_i hx; subst hx; first | (exfalso; exact h1 hn) | simp
    · exact ⟨h1, h2⟩

/-- the owner of a constructed record only ever becomes null -/
theorem owner_keep {s s' : St} {t : Tid} {e : Ev} (hi : Inv s) (hS : Step s t e s') (hnd : inDtor (s.pc t) = false) {x : Nat}
    (h1 : (s.recs x).owner = none) (h2 : s.rled x ≠ .alloc) : (s'.recs x).owner = none := by
  have hp := hi.b.privOk t
  simp only [bview_vpc, bview_rled] at hp
  cases hS <;> first | exact h1 | (simp; exact h1) | no_dtor | skip
  all_goals
    simp only [setPc_recs, setRled_recs, setRNext_recs, setOwner_recs, dropHnd_recs, upd_apply]
    split
    · rename_i hx; subst hx
      first
        | (simp; done)
        | exact h1
        | (exfalso; apply h2; rw [(hp x (by simp [*, BView, privRec])).2]; simp [*, BView, privLed])
    · exact h1

/-- the thread about to clear its record owns it -/
theorem uClear_facts {s s' : St} {t : Tid} {x : Nat} {o : Ord} {v : Option Nat} (hi : Inv s)
    (hS : Step s t (.ast (.rowner x) o v) s') :
    (∃ b, s.hnd t = .reg b x) ∧ x ∈ s.log ∧ (s.recs x).owner = some t ∧ s.rled x = .cons ∧ (s'.recs x).owner = none ∧
      v = none ∧ o.isSc = true := by
  cases hS with
  | uClear r o' hpc ho =>
    obtain ⟨b, hb⟩ := hi.a.myr t x (by simp [hpc, myRec])
    have h1 := hi.b.own1 t b x hb
    have h2 := hi.b.logCons x
    simp only [bview_log, bview_recs, bview_rled] at h1 h2
    exact ⟨⟨b, hb⟩, h1.1, h1.2, h2 h1.1, by simp, rfl, ho⟩

theorem ST_step {es : List (Tid × Ev)} {s s' : St} {t : Tid} {e : Ev} (hi : Inv s) (hnd : inDtor (s.pc t) = false)
    (h : ST es s) (hS : Step s t e s') : ST (es ++ [(t, e)]) s' := by
  intro q y x o v hq
  rcases HB.lq_snoc hq with ⟨_, hq'⟩ | ⟨_, hp⟩
  · obtain ⟨h1, h2, h3⟩ := h q y x o v hq'
    exact ⟨owner_keep hi hS hnd h1 h3, rled_keep hi hS hnd h2 h3⟩
  · injection hp with h1 h2; subst h1; subst h2
    obtain ⟨_, _, _, h4, h5, _, _⟩ := uClear_facts hi hS
    have hk := rled_keep hi hS hnd (x := x) (by rw [h4]; simp) (by rw [h4]; simp)
    exact ⟨h5, hk⟩

theorem UC_step {es : List (Tid × Ev)} {s s' : St} {t : Tid} {e : Ev} (hi : Inv s) (hst : ST es s) (h : UC es)
    (hS : Step s t e s') : UC (es ++ [(t, e)]) := by
  have key : ∀ (q : Nat) (y : Tid) (x : Nat) (o o' : Ord) (v v' : Option Nat), es[q]? = some (y, Ev.ast (.rowner x) o v) →
      e = .ast (.rowner x) o' v' → False := by
    intro q y x o o' v v' hq he
    subst he
    have h1 := (hst q y x o v hq).1
    have h2 := (uClear_facts hi hS).2.2.1
    rw [h1] at h2; cases h2
  intro q q' y y' x o o' v v' hq hq'
  rcases HB.lq_snoc hq with ⟨hl, hq1⟩ | ⟨hl, hp⟩
  · rcases HB.lq_snoc hq' with ⟨_, hq2⟩ | ⟨_, hp'⟩
    · exact h q q' y y' x o o' v v' hq1 hq2
    · injection hp' with _ h2
      exact (key q y x o o' v v' hq1 h2.symm).elim
  · rcases HB.lq_snoc hq' with ⟨_, hq2⟩ | ⟨hl', _⟩
    · injection hp with _ h2
      exact (key q' y' x o' o v' v hq2 h2.symm).elim
    · omega

/-- the (only) store to `owner` of `x` synchronises with the load of it that has just been performed -/
theorem sw_owner {w : Ords} (hw : w.OK) {sel : Bool} {es : List (Tid × Ev)} (hscd : SCD es) (huc : UC es) {x : Nat} {q : Nat}
    {y t : Tid} {o o' : Ord} {v v' : Option Nat} (hq : es[q]? = some (y, .ast (.rowner x) o v)) (ho' : o'.isSc = true) :
    HB.Sw (hbTrace w sel es ++ [(t, toHB w sel (.ald (.rowner x) o' v'))]) q (hbTrace w sel es).length := by
  refine sw_st_ld hw.stOwner hw.ldOwner hq (hscd.1 q y _ o v hq (.inr ⟨x, rfl⟩)) ho' ?_
  intro k z o2 v2 hk hc
  have := huc q k y z x o o2 v v2 hq hc
  omega

end ConcVerif.Rcu
