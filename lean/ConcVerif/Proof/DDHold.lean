import ConcVerif.Proof.DDProg
/-! `HoldsL`: a thread whose top frame is a critical-section frame holds the lock (converse of `InvL`). -/
namespace ConcVerif.DD

theorem stepUser_nh {s s' : St} {t : Tid} {fs : List Frame} {e : Ev} (h : stepUser s t fs e = some s')
    (hfs : s.stk t = fs) (hu : userLevel fs = true) : holds (s'.stk t) = false := by
  unfold stepUser at h
  split at h
  all_goals (try (repeat' (split at h)))
  all_goals (first | cases h | skip)
  all_goals (first
    | (show holds (s.stk t) = false; rw [hfs]; exact userLevel_not_holds hu)
    | (rw [setStk_stk_same]; rfl)
    | exact nh_xTop _ _ _ _)

/-- the lock changes hands only by an acquisition from the free state or a release by the holder -/
theorem step_lock_change {s s' : St} {t : Tid} {e : Ev} (h : step s t e = some s') :
    s'.lock = s.lock ∨ (s.lock = none ∧ s'.lock = some t) ∨ (s.lock = some t ∧ s'.lock = none) := by
  unfold step at h
  split at h
  all_goals (first | (left; exact stepUser_lock h) | skip)
  all_goals (try (repeat' (split at h)))
  all_goals (first | cases h | skip)
  all_goals (first
    | (left; rfl)
    | (left; simp [(same_dDone _ _ _ _).lock, (same_drain _ _ _ _ _ _ _).lock, (same_resume _ _ _).lock,
        (same_xTop _ _ _ _).lock]; done)
    | (right; left; simp [*]; done)
    | (right; right; simp [*, unlock, (same_dDone _ _ _ _).lock, (same_drain _ _ _ _ _ _ _).lock]; done)
    | skip)

theorem pop_nh {f : Frame} {rest : List Frame} (hg : good (f :: rest) = true) (hk : f.kind = .call) :
    holds rest = false := by
  have := (good_parts hg).1
  rw [hk] at this
  exact userLevel_not_holds (by simpa [allows] using this)

/-- after a step of `t`, if `t`'s top frame is a critical-section frame then `t` holds the lock -/
theorem step_holds {s s' : St} {t : Tid} {e : Ev} (h : step s t e = some s') (hg : good (s.stk t) = true)
    (hI : holds (s.stk t) = true → s.lock = some t)
    (hh : holds (s'.stk t) = true) : s'.lock = some t := by
  cases hfs : s.stk t with
  | nil =>
    simp [step, hfs] at h
    rw [stepUser_nh h hfs rfl] at hh; cases hh
  | cons f rest =>
    rw [hfs] at hg hI
    have hparts := good_parts hg
    cases f
    case dInCb sz ec cbs k todo =>
      cases e <;> simp [step, hfs] at h
      all_goals (first | (rw [stepUser_nh h hfs rfl] at hh; cases hh) | skip)
      case uce =>
        obtain ⟨_, h⟩ := h
        split at h <;> (injection h with h; subst h)
        · rw [nh_drain] at hh; cases hh
        · simp [holdsF] at hh
      case uth =>
        obtain ⟨_, h⟩ := h; subst h
        rw [nh_drain] at hh; cases hh
    case inDt k =>
      cases e <;> simp [step, hfs] at h
      all_goals (first | (rw [stepUser_nh h hfs rfl] at hh; cases hh) | skip)
      obtain ⟨_, h⟩ := h; subst h
      rw [nh_resume _ _ _ hparts.1] at hh; cases hh
    case dCb sz ec cbs todo =>
      cases todo with
      | nil => cases e <;> simp [step, hfs] at h
      | cons k todo =>
        cases e <;> simp [step, hfs] at h
        obtain ⟨_, h⟩ := h; subst h
        simp [holdsF] at hh
    all_goals (cases e <;> simp [step, hfs] at h)
    all_goals (try (obtain ⟨_, h⟩ := h))
    all_goals (try subst h)
    all_goals (first
      | (simp [holdsF, unlock] at hh; done)
      | (rw [setStk_stk_same, pop_nh hg rfl] at hh; cases hh)
      | (simp; done)
      | skip)
    case dCalled.mtf =>
      split at h
      · split at h
        · injection h with h; subst h; exact select_lock _ _ _ _
        · contradiction
      · injection h with h; subst h; rw [nh_dDone] at hh; cases hh
    case dUnlock0.mul => rw [nh_dDone] at hh; cases hh
    case dUnlock1.mul =>
      split at h <;> (injection h with h; subst h)
      · simp [holdsF] at hh
      · rw [nh_drain] at hh; cases hh
    case dRelock.mtf =>
      split at h
      · split at h
        · injection h with h; subst h; rfl
        · contradiction
      · injection h with h; subst h; rw [nh_dDone] at hh; cases hh
    case dUnlock2.mul => rw [nh_dDone] at hh; cases hh
    case gCalled.mtf =>
      split at h
      · split at h
        · injection h with h; subst h; rfl
        · contradiction
      · injection h with h; subst h; simp [holdsF] at hh
    case gRelockS.mtf =>
      split at h
      · split at h
        · injection h with h; subst h; rfl
        · contradiction
      · injection h with h; subst h; simp [holdsF] at hh
    case gRelockD.mtf =>
      split at h
      · split at h
        · injection h with h; subst h; rfl
        · contradiction
      · injection h with h; subst h; simp [holdsF] at hh
    case xYield.yld => rw [nh_xTop] at hh; cases hh
    case xSleep.slp => rw [nh_xTop] at hh; cases hh
    case xRet.retDtor =>
      have : rest = [] := by simpa [allows, Frame.kind] using hparts.1
      subst this; simp [holds] at hh

def HoldsL (s : St) : Prop := ∀ t, holds (s.stk t) = true → s.lock = some t

theorem holdsL_init (cb ns nt) : HoldsL (init cb ns nt) := by intro t h; simp [init, holds] at h

theorem holdsL_step {s s' : St} {t : Tid} {e : Ev} (hS : Shape s) (hI : HoldsL s) (h : step s t e = some s') :
    HoldsL s' := by
  intro u hu
  by_cases hut : u = t
  · subst hut; exact step_holds h (hS u) (hI u) hu
  · rw [step_stk_other h hut] at hu
    have hl := hI u hu
    rcases step_lock_change h with h1 | ⟨h1, _⟩ | ⟨h1, _⟩
    · rw [h1]; exact hl
    · rw [hl] at h1; cases h1
    · rw [hl] at h1; exact absurd (Option.some.inj h1) hut

theorem holdsL_reachable {cb ns nt} {s : St} (h : Reachable cb ns nt s) : HoldsL s := by
  obtain ⟨es, hr⟩ := h
  have : Shape s ∧ HoldsL s :=
    runFrom_inv (Inv := fun s => Shape s ∧ HoldsL s)
      (fun _ _ _ _ hi hs => ⟨shape_step hi.1 hs, holdsL_step hi.1 hi.2 hs⟩)
      ⟨shape_init cb ns nt, holdsL_init cb ns nt⟩ hr
  exact this.2

end ConcVerif.DD
