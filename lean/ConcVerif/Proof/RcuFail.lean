import ConcVerif.Proof.RcuAll
/-! Allocation failures: the steps on the exception paths change nothing but the thread's pc and the write mutex. -/
namespace ConcVerif.Rcu

/-- everything except the pcs and the holder of the write mutex is the same -/
def SameData (s s' : St) : Prop :=
  s'.nodes = s.nodes ∧ s'.recs = s.recs ∧ s'.nN = s.nN ∧ s'.nR = s.nR ∧ s'.nled = s.nled ∧ s'.rled = s.rled ∧
  s'.head = s.head ∧ s'.tail = s.tail ∧ s'.zhead = s.zhead ∧ s'.log = s.log ∧ s'.lst = s.lst ∧ s'.order = s.order ∧
  s'.live = s.live ∧ s'.dt = s.dt ∧ s'.hnd = s.hnd ∧ s'.it = s.it

theorem sameData_refl (s : St) : SameData s s := ⟨rfl, rfl, rfl, rfl, rfl, rfl, rfl, rfl, rfl, rfl, rfl, rfl, rfl, rfl, rfl, rfl⟩

theorem sameData_trans {a b c : St} (h1 : SameData a b) (h2 : SameData b c) : SameData a c := by
  obtain ⟨a1, a2, a3, a4, a5, a6, a7, a8, a9, a10, a11, a12, a13, a14, a15, a16⟩ := h1
  obtain ⟨b1, b2, b3, b4, b5, b6, b7, b8, b9, b10, b11, b12, b13, b14, b15, b16⟩ := h2
  exact ⟨b1.trans a1, b2.trans a2, b3.trans a3, b4.trans a4, b5.trans a5, b6.trans a6, b7.trans a7, b8.trans a8,
    b9.trans a9, b10.trans a10, b11.trans a11, b12.trans a12, b13.trans a13, b14.trans a14, b15.trans a15, b16.trans a16⟩

theorem st_eq_of_sameData {s s' : St} (h : SameData s s') (hw : s'.wmtx = s.wmtx) (hp : s'.pc = s.pc) : s' = s := by
  obtain ⟨a1, a2, a3, a4, a5, a6, a7, a8, a9, a10, a11, a12, a13, a14, a15, a16⟩ := h
  cases s; cases s'
  simp only at a1 a2 a3 a4 a5 a6 a7 a8 a9 a10 a11 a12 a13 a14 a15 a16 hw hp
  subst a1 a2 a3 a4 a5 a6 a7 a8 a9 a10 a11 a12 a13 a14 a15 a16 hw hp
  rfl

/-- the (pc, event) pairs on the three exception paths caused by an allocation failure, from the call to the `exc` -/
def onFailPath : Pc → Ev → Bool
  | .idle, .call k => k != .dtor
  | .called _, .mlk => true
  | .called _, .afl _ => true
  | .eOrig .., .ald .. => true
  | .eDel .., .pldDel .. => true
  | .eAlloc .., .afl _ => true
  | .pAlloc _, .afl _ => true
  | .pThrown _, .mul => true
  | .pExc _, .exc _ => true
  | .rExc _, .exc _ => true
  | _, _ => false

/-- such a step changes only the pc of the stepping thread and the holder of the write mutex -/
theorem failPath_frame {s s' : St} {t : Tid} {e : Ev} (hS : Step s t e s') (hk : onFailPath (s.pc t) e = true) :
    SameData s s' ∧ ∀ u, u ≠ t → s'.pc u = s.pc u := by
  cases hS
  all_goals (try (simp_all [onFailPath]; done))
  all_goals (try (exact ⟨sameData_refl _, fun u hu => by simp [hu]⟩))
  all_goals (try (exact ⟨⟨rfl, rfl, rfl, rfl, rfl, rfl, rfl, rfl, rfl, rfl, rfl, rfl, rfl, rfl, rfl, rfl⟩, fun u hu => by simp [hu]⟩))

theorem run_cons_some {s s' : St} {t : Tid} {e : Ev} {es : List (Tid × Ev)}
    (h : runFrom step s ((t, e) :: es) = some s') : ∃ s1, step s t e = some s1 ∧ runFrom step s1 es = some s' := by
  rw [runFrom_cons] at h
  cases h1 : step s t e with
  | none => rw [h1] at h; cases h
  | some s1 => rw [h1] at h; exact ⟨s1, rfl, h⟩


def Frame (s s' : St) (t : Tid) : Prop := SameData s s' ∧ ∀ u, u ≠ t → s'.pc u = s.pc u

theorem frame_trans {a b c : St} {t : Tid} (h1 : Frame a b t) (h2 : Frame b c t) : Frame a c t :=
  ⟨sameData_trans h1.1 h2.1, fun u hu => (h2.2 u hu).trans (h1.2 u hu)⟩

/-- nothing but the mutex holder and the pcs changed, and they are back: the state is the same -/
theorem st_eq_of_frame {s s' : St} {t : Tid} (h : Frame s s' t) (hw : s'.wmtx = s.wmtx) (hp : s'.pc t = s.pc t) : s' = s := by
  refine st_eq_of_sameData h.1 hw ?_
  funext u
  by_cases hu : u = t
  · subst hu; exact hp
  · exact h.2 u hu

local macro "shape" h:ident hpc:ident : tactic =>
  `(tactic| (have S := step_sound $h
             have F := failPath_frame S (by simp [$hpc:ident, onFailPath])
             cases S <;> simp_all [Frame]))

theorem shape_call {s s' : St} {t : Tid} {k : Op} (hk : k ≠ .dtor) (hpc : s.pc t = .idle) (h : step s t (.call k) = some s') :
    s'.pc t = .called k ∧ s'.wmtx = s.wmtx ∧ Frame s s' t := by
  have S := step_sound h
  have F := failPath_frame S (by simp [hpc, onFailPath, hk])
  cases S <;> simp_all [Frame]

theorem call_idle {s s' : St} {t : Tid} {k : Op} (h : step s t (.call k) = some s') : s.pc t = .idle := by
  have S := step_sound h
  cases S <;> assumption

theorem shape_mlk_erase {s s' : St} {t : Tid} {adv : Bool} (hpc : s.pc t = .called (.erase adv)) (h : step s t .mlk = some s') :
    (∃ c, s'.pc t = .eOrig c adv) ∧ s.wmtx = none ∧ s'.wmtx = some t ∧ Frame s s' t := by
  shape h hpc

theorem shape_mlk_push {s s' : St} {t : Tid} {f em : Bool} {x : Int} (hpc : s.pc t = .called (.push f em x))
    (h : step s t .mlk = some s') : s'.pc t = .pAlloc (.push f em x) ∧ s.wmtx = none ∧ s'.wmtx = some t ∧ Frame s s' t := by
  shape h hpc

theorem shape_eOrig {s s' : St} {t : Tid} {c0 : Nat} {adv : Bool} {f : Fld} {o : Ord} {v : Option Nat}
    (hpc : s.pc t = .eOrig c0 adv) (h : step s t (.ald f o v) = some s') :
    (∃ orig, s'.pc t = .eDel c0 orig) ∧ s'.wmtx = s.wmtx ∧ Frame s s' t := by
  shape h hpc

theorem shape_eDel_fresh {s s' : St} {t : Tid} {c0 c : Nat} {orig : Option Nat}
    (hpc : s.pc t = .eDel c0 orig) (h : step s t (.pldDel c false) = some s') :
    s'.pc t = .eAlloc c0 orig ∧ s'.wmtx = s.wmtx ∧ Frame s s' t := by
  shape h hpc

theorem shape_eAlloc_fail {s s' : St} {t : Tid} {c0 : Nat} {orig : Option Nat}
    (hpc : s.pc t = .eAlloc c0 orig) (h : step s t (.afl true) = some s') :
    s'.pc t = .pThrown (.erase true) ∧ s'.wmtx = s.wmtx ∧ Frame s s' t := by
  shape h hpc

theorem shape_pAlloc_fail {s s' : St} {t : Tid} {k : Op} (hpc : s.pc t = .pAlloc k) (h : step s t (.afl false) = some s') :
    s'.pc t = .pThrown k ∧ s'.wmtx = s.wmtx ∧ Frame s s' t := by
  shape h hpc

theorem shape_reg_fail {s s' : St} {t : Tid} {k : Op} (hpc : s.pc t = .called k) (h : step s t (.afl true) = some s') :
    s'.pc t = .rExc k ∧ s'.wmtx = s.wmtx ∧ Frame s s' t := by
  shape h hpc

theorem shape_pThrown {s s' : St} {t : Tid} {k : Op} (hpc : s.pc t = .pThrown k) (h : step s t .mul = some s') :
    s'.pc t = .pExc k ∧ s'.wmtx = none ∧ Frame s s' t := by
  shape h hpc

theorem shape_pExc {s s' : St} {t : Tid} {k k' : Op} (hpc : s.pc t = .pExc k) (h : step s t (.exc k') = some s') :
    s'.pc t = .idle ∧ s'.wmtx = s.wmtx ∧ Frame s s' t := by
  shape h hpc

theorem shape_rExc {s s' : St} {t : Tid} {k k' : Op} (hpc : s.pc t = .rExc k) (h : step s t (.exc k') = some s') :
    s'.pc t = .idle ∧ s'.wmtx = s.wmtx ∧ Frame s s' t := by
  shape h hpc

end ConcVerif.Rcu
