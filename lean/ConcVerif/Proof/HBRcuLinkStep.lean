import ConcVerif.Proof.HBRcuLink
/-! rcu_list and happens-before, part 5: every step keeps `FV`. -/
namespace ConcVerif.Rcu
open HB (HBeq Kn)

/-- a store: what the step has to say about `m_head`, `order`, the pending front node and the `next` fields -/
theorem FV_ast {w : Ords} {sel : Bool} {es : List (Tid × Ev)} {s s' : St} {t : Tid} {f : Fld} {o : Ord} {v : Option Nat}
    (h : FV w sel es s) (hNP : (f = .head ∨ ∃ m, f = .nnext m) → NP w sel es (some t))
    (hpc : ∀ u, u ≠ t → s'.pc u = s.pc u)
    (hhd : f = .head ∨ s'.head = s.head)
    (hord : ∀ m, m ∈ s'.order → m ∈ s.order ∨ pendN (s.pc t) = some m ∨ (f ≠ .nnext m ∧ (s.nodes m).next = none))
    (hpend : ∀ m, pendN (s'.pc t) = some m → pendN (s.pc t) = some m ∨ f = .nnext m)
    (hnx : ∀ m, f = .nnext m ∨ (s'.nodes m).next = (s.nodes m).next) :
    FV w sel (es ++ [(t, .ast f o v)]) s' := by
  refine ⟨?_, ?_⟩
  · intro n hn'
    by_cases hf : f = .head
    · subst hf; exact PubBy.store _ o v n (hNP (.inl rfl))
    · rcases hhd with h1 | h1
      · exact absurd h1 hf
      · rw [h1] at hn'
        exact (h.1 n hn').snoc (by intro o' v' hc; injection hc with hc; exact hf hc) (by simp [Ev.initN])
  · intro m n hm hn'
    by_cases hf : f = .nnext m
    · subst hf; exact PubBy.store _ o v n (hNP (.inr ⟨m, rfl⟩))
    · have hx : (s.nodes m).next = some n := by
        rcases hnx m with h1 | h1
        · exact absurd h1 hf
        · rw [← h1]; exact hn'
      have hT : Trk s m := by
        rcases hm with hm | ⟨u, hu⟩
        · rcases hord m hm with h1 | h1 | ⟨_, h1⟩
          · exact .inl h1
          · exact .inr ⟨t, h1⟩
          · rw [h1] at hx; cases hx
        · by_cases hut : u = t
          · subst hut
            rcases hpend m hu with h1 | h1
            · exact .inr ⟨u, h1⟩
            · exact absurd h1 hf
          · rw [hpc u hut] at hu; exact .inr ⟨u, hu⟩
      exact (h.2 m n hT hx).snoc (by intro o' v' hc; injection hc with hc; exact hf hc) (by simp [Ev.initN])

theorem next_setBack (s : St) (h : Nat) (v : Option Nat) (m : Nat) :
    ((upd s.nodes h { s.nodes h with back := v }) m).next = (s.nodes m).next := by
  by_cases hm : m = h
  · subst hm; simp
  · simp [hm]

theorem next_setNext_ne (s : St) (h : Nat) (v : Option Nat) {m : Nat} (hm : m ≠ h) :
    ((upd s.nodes h { s.nodes h with next := v }) m).next = (s.nodes m).next := by
  simp [hm]

theorem FV_step_ast {w : Ords} {sel : Bool} {es : List (Tid × Ev)} {s s' : St} {t : Tid} {f : Fld} {o : Ord} {v : Option Nat}
    (hi : Inv s) (hnd : inDtor (s.pc t) = false) (hNP : NP w sel es s.wmtx) (h : FV w sel es s)
    (hS : Step s t (.ast f o v) s') : FV w sel (es ++ [(t, .ast f o v)]) s' := by
  have hpc : ∀ u, u ≠ t → s'.pc u = s.pc u := fun u hu => pc_frame hS hnd hu
  have hwr := hi.c.wr t
  simp only [cview_vpc] at hwr
  have np : holdsW (s.pc t) = true → (f = .head ∨ ∃ m, f = .nnext m) → NP w sel es (some t) := by
    intro hh _
    rw [← (hi.a.wm t).1 hh]; exact hNP
  cases hS with
  | pushStore c r exp o' hpc0 =>
    exact FV_ast h (by intro hc; rcases hc with hc | ⟨m, hc⟩ <;> cases hc) hpc (.inr rfl) (fun m hm => .inl hm)
      (by intro m hm; simp [pendN] at hm) (fun m => .inr rfl)
  | uTrunc r o' hpc0 ho =>
    exact FV_ast h (by intro hc; rcases hc with hc | ⟨m, hc⟩ <;> cases hc) hpc (.inr rfl) (fun m hm => .inl hm)
      (by intro m hm; simp [pendN] at hm) (fun m => .inr rfl)
  | uClear r o' hpc0 ho =>
    exact FV_ast h (by intro hc; rcases hc with hc | ⟨m, hc⟩ <;> cases hc) hpc (.inr rfl) (fun m hm => .inl hm)
      (by intro m hm; simp [pendN] at hm) (fun m => .inr rfl)
  | pE1 k n o' hpc0 ho =>
    rw [hpc0] at hwr; simp only [CView, WriterP, FreshN, cview_nodes] at hwr
    refine FV_ast h (np (by simp [hpc0, holdsW])) hpc (.inl rfl) ?_ (by intro m hm; simp [pendN] at hm) (fun m => .inr rfl)
    intro m hm
    simp only [setPc_order, List.mem_cons] at hm
    rcases hm with hm | hm
    · subst hm; exact .inr (.inr ⟨(by intro hc; cases hc), hwr.1.2.2.1⟩)
    · exact .inl hm
  | pE2 k n o' hpc0 ho =>
    exact FV_ast h (by intro hc; rcases hc with hc | ⟨m, hc⟩ <;> cases hc) hpc (.inr rfl) (fun m hm => .inl hm)
      (by intro m hm; simp [pendN] at hm) (fun m => .inr rfl)
  | pF1 k n h0 o' hpc0 ho =>
    refine FV_ast h (np (by simp [hpc0, holdsW])) hpc (.inr rfl) (fun m hm => .inl hm) ?_ ?_
    · intro m hm; simp [pendN] at hm; subst hm; exact .inr rfl
    · intro m
      by_cases hm : m = n
      · subst hm; exact .inl rfl
      · exact .inr (next_setNext_ne s n _ hm)
  | pF2 k n h0 o' hpc0 ho =>
    refine FV_ast h (by intro hc; rcases hc with hc | ⟨m, hc⟩ <;> cases hc) hpc (.inr rfl) (fun m hm => .inl hm) ?_
      (fun m => .inr (next_setBack s h0 _ m))
    intro m hm; simp [pendN] at hm; subst hm; left; simp [hpc0, pendN]
  | pF3 k n o' hpc0 ho =>
    refine FV_ast h (np (by simp [hpc0, holdsW])) hpc (.inl rfl) ?_ (by intro m hm; simp [pendN] at hm) (fun m => .inr rfl)
    intro m hm
    simp only [setPc_order, List.mem_cons] at hm
    rcases hm with hm | hm
    · subst hm; exact .inr (.inl (by simp [hpc0, pendN]))
    · exact .inl hm
  | pB1 k n h0 o' hpc0 ho =>
    exact FV_ast h (by intro hc; rcases hc with hc | ⟨m, hc⟩ <;> cases hc) hpc (.inr rfl) (fun m hm => .inl hm)
      (by intro m hm; simp [pendN] at hm) (fun m => .inr (next_setBack s n _ m))
  | pB2 k n h0 o' hpc0 ho =>
    rw [hpc0] at hwr; simp only [CView, WriterP, FreshN, NextIs, cview_nodes, cview_lst, cview_order] at hwr
    have hne : n ≠ h0 := by
      intro hc; subst hc; exact hwr.1.1 (hi.c.sub _ hwr.2.1.1)
    refine FV_ast h (np (by simp [hpc0, holdsW])) hpc (.inr rfl) ?_ (by intro m hm; simp [pendN] at hm) ?_
    · intro m hm
      simp only [setPc_order, List.mem_append, List.mem_singleton] at hm
      rcases hm with hm | hm
      · exact .inl hm
      · subst hm
        exact .inr (.inr ⟨(by intro hc; injection hc with hc; exact hne hc.symm), hwr.1.2.2.1⟩)
    · intro m
      by_cases hm : m = h0
      · subst hm; exact .inl rfl
      · exact .inr (next_setNext_ne s h0 _ hm)
  | pB3 k n o' hpc0 ho =>
    exact FV_ast h (by intro hc; rcases hc with hc | ⟨m, hc⟩ <;> cases hc) hpc (.inr rfl) (fun m hm => .inl hm)
      (by intro m hm; simp [pendN] at hm) (fun m => .inr rfl)
  | eUnlPrev c orig pp x z o' hpc0 ho =>
    refine FV_ast h (np (by simp [hpc0, holdsW])) hpc (.inr rfl) (fun m hm => .inl hm) (by intro m hm; simp [pendN] at hm) ?_
    intro m
    by_cases hm : m = pp
    · subst hm; exact .inl rfl
    · exact .inr (next_setNext_ne s pp _ hm)
  | eUnlHead c orig x z o' hpc0 ho =>
    exact FV_ast h (np (by simp [hpc0, holdsW])) hpc (.inl rfl) (fun m hm => .inl hm) (by intro m hm; simp [pendN] at hm)
      (fun m => .inr rfl)
  | eFixNext c orig p xx z o' hpc0 ho =>
    exact FV_ast h (by intro hc; rcases hc with hc | ⟨m, hc⟩ <;> cases hc) hpc (.inr rfl) (fun m hm => .inl hm)
      (by intro m hm; simp [pendN] at hm) (fun m => .inr (next_setBack s xx _ m))
  | eFixTail c orig p z o' hpc0 ho =>
    exact FV_ast h (by intro hc; rcases hc with hc | ⟨m, hc⟩ <;> cases hc) hpc (.inr rfl) (fun m hm => .inl hm)
      (by intro m hm; simp [pendN] at hm) (fun m => .inr rfl)

theorem FV_step {w : Ords} {sel : Bool} {es : List (Tid × Ev)} {s s' : St} {t : Tid} {e : Ev}
    (hi : Inv s) (hdt : s.dt = false) (hnd : inDtor (s.pc t) = false) (hNP : NP w sel es s.wmtx) (h : FV w sel es s)
    (hS : Step s t e s') : FV w sel (es ++ [(t, e)]) s' := by
  by_cases hast : ∃ f o v, e = .ast f o v
  · obtain ⟨f, o, v, rfl⟩ := hast
    exact FV_step_ast hi hnd hNP h hS
  have he : ∀ f o v, e ≠ .ast f o v := fun f o v hc => hast ⟨f, o, v, hc⟩
  have hpo := pointed_order hi hdt
  have hinit : ∀ n, e.initN = some n → s.head ≠ some n ∧ ∀ m, Trk s m → (s.nodes m).next ≠ some n := by
    intro n hn
    have hno := (init_facts hi hS hn).2.1
    exact ⟨fun hc => hno (hpo.1 n hc), fun m hm hc => hno (hpo.2 m n hm hc)⟩
  have hh : ∀ n, s'.head = some n → s.head = some n := by
    intro n hn; rw [head_frame hS (fun o v => he _ o v) hnd] at hn; exact hn
  by_cases hcon : ∃ n x, e = .conN n x
  · obtain ⟨n, x, rfl⟩ := hcon
    refine FV_snoc h he hinit hh ?_
    intro m n' hm hn'
    refine ⟨Trk_frame hS he hnd hm, ?_⟩
    cases hS with
    | pCon f em x' n' hpc0 =>
      simp only [setPc_nodes, setNled_nodes] at hn'
      by_cases hmn : m = n
      · subst hmn; simp at hn'
      · simpa [hmn] using hn'
  · have hc2 : ∀ n v, e ≠ .conN n v := fun n v hc => hcon ⟨n, v, hc⟩
    refine FV_snoc h he hinit hh ?_
    intro m n' hm hn'
    rw [next_frame hS he hc2 hnd m] at hn'
    exact ⟨Trk_frame hS he hnd hm, hn'⟩

end ConcVerif.Rcu
