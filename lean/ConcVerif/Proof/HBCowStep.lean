import ConcVerif.Proof.HBCow
/-! cow_guarded and happens-before, part 2: every accepted cow step delegates a block of left-right events (`blk_step`). -/
namespace ConcVerif.Cow
open ConcVerif.LR (Side)

macro "blk_side" : tactic => `(tactic|
  (first
    | exact ⟨_, blk_got (by assumption) rfl rfl⟩
    | exact ⟨_, blk_rel (by assumption) rfl rfl⟩
    | exact ⟨_, blk_rd (by assumption) rfl (by simp [toHBc]) (by intro y v h; cases h)
        (by intro y v h; first | (cases h; rfl) | cases h)⟩
    | exact ⟨_, blk_one (by assumption) rfl (by simp [toHBc, LR.toHB])
        (by intro a od h; first | (simp [toHBc] at h; exact h) | (simp [toHBc, LR.toHB] at h))
        (by intro x v h; first | (cases h; rfl) | cases h)
        (by intro x v h; first | (cases h; exact ⟨_, rfl⟩) | cases h)⟩))

theorem blk_step {o : LR.Ords} {pay : Bool} {s s' : St} {t : Tid} {ce : Ev} (hs : step s t ce = some s') :
    ∃ block, Blk o pay s t ce s' block := by
  cow_step_cases hs ce => first
    | (subst hs; exact ⟨[], blk_nil rfl (by intro a od; cases pay <;> simp [toHBc]) (by simp) (by simp)⟩)
    | (obtain ⟨_, rfl⟩ := hs; exact ⟨[], blk_nil rfl (by intro a od; cases pay <;> simp [toHBc]) (by simp) (by simp)⟩)
    | (obtain ⟨l, hl, rfl⟩ := hs; blk_side)
    | (obtain ⟨_, l, hl, rfl⟩ := hs; blk_side)
    | trace_state

end ConcVerif.Cow
