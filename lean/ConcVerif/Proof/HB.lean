import ConcVerif.Base.HB
/-! Soundness of the vector-clock race checker of `Base/HB.lean` with respect to the declarative
happens-before relation: every clock entry is justified by a happens-before path (`Just`), hence a
passed check `epoch ≤ clock` yields `HB`. -/
namespace ConcVerif.HB

/-! ## list maps and vector clocks -/

theorem lget_lset_nil {α : Type} (d : α) (i j : Nat) (a : α) :
    lget d (lset d [] i a) j = if j = i then a else d := by
  induction i generalizing j with
  | zero => cases j <;> simp [lset, lget]
  | succ i ih => cases j <;> simp [lset, lget, ih]

theorem lget_lset {α : Type} (d : α) (l : List α) (i j : Nat) (a : α) :
    lget d (lset d l i a) j = if j = i then a else lget d l j := by
  induction l generalizing i j with
  | nil => simp [lget_lset_nil, lget]
  | cons x l ih => cases i <;> cases j <;> simp [lset, lget, ih]

@[simp] theorem vget_nil (u : Tid) : vget [] u = 0 := rfl

theorem vget_vset (v : VC) (u w : Tid) (n : Nat) : vget (vset v u n) w = if w = u then n else vget v w := by
  simp [vget, vset, lget_lset]

theorem vget_vjoin (a b : VC) (u : Tid) : vget (vjoin a b) u = max (vget a u) (vget b u) := by
  induction a generalizing b u with
  | nil => simp [vjoin]
  | cons x a ih =>
    cases b with
    | nil => simp [vjoin]
    | cons y b => cases u <;> simp [vjoin, vget, lget] ; exact ih b _

theorem vle_le {a b : VC} (h : vle a b = true) (u : Tid) : vget a u ≤ vget b u := by
  induction a generalizing b u with
  | nil => simp
  | cons x a ih =>
    cases b with
    | nil =>
      simp [vle] at h
      cases u with
      | zero => simp [vget, lget, h.1]
      | succ u => have := ih h.2 u; simpa [vget, lget] using this
    | cons y b =>
      simp [vle] at h
      cases u with
      | zero => simpa [vget, lget] using h.1
      | succ u => have := ih h.2 u; simpa [vget, lget] using this

@[simp] theorem setC_c (k : Clk) (t u : Tid) (v : VC) : (k.setC t v).c u = if u = t then v else k.c u := by
  simp [Clk.setC, Clk.c, lget_lset]
@[simp] theorem setC_lx (k : Clk) (t : Tid) (v : VC) (m : Loc) : (k.setC t v).lx m = k.lx m := rfl
@[simp] theorem setC_ls (k : Clk) (t : Tid) (v : VC) (m : Loc) : (k.setC t v).ls m = k.ls m := rfl
@[simp] theorem setC_r (k : Clk) (t : Tid) (v : VC) (a : Loc) : (k.setC t v).r a = k.r a := rfl
@[simp] theorem setLX_c (k : Clk) (m : Loc) (v : VC) (u : Tid) : (k.setLX m v).c u = k.c u := rfl
@[simp] theorem setLX_lx (k : Clk) (m m' : Loc) (v : VC) : (k.setLX m v).lx m' = if m' = m then v else k.lx m' := by
  simp [Clk.setLX, Clk.lx, lget_lset]
@[simp] theorem setLX_ls (k : Clk) (m m' : Loc) (v : VC) : (k.setLX m v).ls m' = k.ls m' := rfl
@[simp] theorem setLX_r (k : Clk) (m : Loc) (v : VC) (a : Loc) : (k.setLX m v).r a = k.r a := rfl
@[simp] theorem setLS_c (k : Clk) (m : Loc) (v : VC) (u : Tid) : (k.setLS m v).c u = k.c u := rfl
@[simp] theorem setLS_lx (k : Clk) (m m' : Loc) (v : VC) : (k.setLS m v).lx m' = k.lx m' := rfl
@[simp] theorem setLS_ls (k : Clk) (m m' : Loc) (v : VC) : (k.setLS m v).ls m' = if m' = m then v else k.ls m' := by
  simp [Clk.setLS, Clk.ls, lget_lset]
@[simp] theorem setLS_r (k : Clk) (m : Loc) (v : VC) (a : Loc) : (k.setLS m v).r a = k.r a := rfl
@[simp] theorem setR_c (k : Clk) (a : Loc) (v : VC) (u : Tid) : (k.setR a v).c u = k.c u := rfl
@[simp] theorem setR_lx (k : Clk) (a : Loc) (v : VC) (m : Loc) : (k.setR a v).lx m = k.lx m := rfl
@[simp] theorem setR_ls (k : Clk) (a : Loc) (v : VC) (m : Loc) : (k.setR a v).ls m = k.ls m := rfl
@[simp] theorem setR_r (k : Clk) (a a' : Loc) (v : VC) : (k.setR a v).r a' = if a' = a then v else k.r a' := by
  simp [Clk.setR, Clk.r, lget_lset]

@[simp] theorem init_c (t : Tid) : ({} : Clk).c t = [] := rfl
@[simp] theorem init_lx (m : Loc) : ({} : Clk).lx m = [] := rfl
@[simp] theorem init_ls (m : Loc) : ({} : Clk).ls m = [] := rfl
@[simp] theorem init_r (a : Loc) : ({} : Clk).r a = [] := rfl

/-! ## positions of a trace -/

theorem get_lt {tr : Trace} {i : Nat} {p : Tid × Ev} (h : tr[i]? = some p) : i < tr.length := by
  obtain ⟨h1, _⟩ := List.getElem?_eq_some_iff.mp h
  exact h1

theorem get_mono {tr : Trace} {i : Nat} {p : Tid × Ev} (ext : Trace) (h : tr[i]? = some p) :
    (tr ++ ext)[i]? = some p := by
  rw [List.getElem?_append_left (get_lt h)]; exact h

theorem get_snoc {tr : Trace} {x p : Tid × Ev} {i : Nat} (h : (tr ++ [x])[i]? = some p) :
    (i < tr.length ∧ tr[i]? = some p) ∨ (i = tr.length ∧ p = x) := by
  have hl := get_lt h
  simp at hl
  by_cases hi : i < tr.length
  · left; rw [List.getElem?_append_left hi] at h; exact ⟨hi, h⟩
  · right
    have : i = tr.length := by omega
    subst this
    simp at h
    exact ⟨rfl, h.symm⟩

theorem get_last (tr : Trace) (x : Tid × Ev) : (tr ++ [x])[tr.length]? = some x := by simp

theorem cnt_append (tr ext : Trace) (t : Tid) : cnt (tr ++ ext) t = cnt tr t + cnt ext t := by
  simp [cnt, List.countP_append]

theorem cnt_snoc (tr : Trace) (t u : Tid) (e : Ev) : cnt (tr ++ [(t, e)]) u = cnt tr u + if t = u then 1 else 0 := by
  simp [cnt, List.countP_append, List.countP_cons]

theorem lt_mono {tr : Trace} {i : Nat} (ext : Trace) (u : Tid) (h : i < tr.length) :
    lt (tr ++ ext) i u = lt tr i u := by
  simp only [lt]; rw [List.take_append_of_le_length (by omega)]

theorem lt_last (tr : Trace) (x : Tid × Ev) (u : Tid) : lt (tr ++ [x]) tr.length u = cnt (tr ++ [x]) u := by
  simp only [lt]
  rw [List.take_of_length_le (by simp)]

theorem lt_le_cnt (tr : Trace) (i : Nat) (u : Tid) : lt tr i u ≤ cnt tr u := by
  simp only [lt]
  conv => rhs; rw [← List.take_append_drop (i + 1) tr]
  rw [cnt_append]; omega

theorem lt_pos {tr : Trace} {i : Nat} {u : Tid} {e : Ev} (h : tr[i]? = some (u, e)) : 1 ≤ lt tr i u := by
  have hl := get_lt h
  simp only [lt, cnt]
  apply List.countP_pos_iff.mpr
  refine ⟨(u, e), ?_, by simp⟩
  rw [List.mem_iff_getElem?]
  exact ⟨i, by rw [List.getElem?_take]; simp [h]⟩

/-! ## happens-before: basic facts -/

theorem Sw.lt' {tr : Trace} {i j : Nat} (h : Sw tr i j) : i < j := by
  cases h <;> assumption

theorem HB.lt' {tr : Trace} {i j : Nat} (h : HB tr i j) : i < j := by
  induction h with
  | po h _ _ => exact h
  | sw h => exact h.lt'
  | trans _ _ ih1 ih2 => omega

theorem Sw.bound {tr : Trace} {i j : Nat} (h : Sw tr i j) : j < tr.length := by
  cases h with
  | mutex _ _ h2 _ => exact get_lt h2
  | atomic _ _ h2 _ _ _ => exact get_lt h2
  | fork _ _ h2 => exact get_lt h2
  | join _ _ h2 => exact get_lt h2
  | forkJoin _ _ h2 => exact get_lt h2

theorem HB.bound {tr : Trace} {i j : Nat} (h : HB tr i j) : j < tr.length := by
  induction h with
  | po _ _ h2 => exact get_lt h2
  | sw h => exact h.bound
  | trans _ _ _ ih2 => exact ih2

theorem Sw.mono {tr : Trace} {i j : Nat} (ext : Trace) (h : Sw tr i j) : Sw (tr ++ ext) i j := by
  cases h with
  | mutex hl h1 h2 hm => exact .mutex hl (get_mono ext h1) (get_mono ext h2) hm
  | atomic hl h1 h2 hr ha hb =>
    refine .atomic hl (get_mono ext h1) (get_mono ext h2) hr ha ?_
    intro k v o hik hkj
    rw [List.getElem?_append_left (by have := get_lt h2; omega)]
    exact hb k v o hik hkj
  | fork hl h1 h2 => exact .fork hl (get_mono ext h1) (get_mono ext h2)
  | join hl h1 h2 => exact .join hl (get_mono ext h1) (get_mono ext h2)
  | forkJoin hl h1 h2 => exact .forkJoin hl (get_mono ext h1) (get_mono ext h2)

theorem HB.mono {tr : Trace} {i j : Nat} (ext : Trace) (h : HB tr i j) : HB (tr ++ ext) i j := by
  induction h with
  | po hl h1 h2 => exact .po hl (get_mono ext h1) (get_mono ext h2)
  | sw h => exact .sw (h.mono ext)
  | trans _ _ ih1 ih2 => exact .trans ih1 ih2

/-- happens-before or equal -/
def HBeq (tr : Trace) (i j : Nat) : Prop := i = j ∨ HB tr i j

theorem HBeq.mono {tr : Trace} {i j : Nat} (ext : Trace) (h : HBeq tr i j) : HBeq (tr ++ ext) i j := by
  cases h with
  | inl h => exact .inl h
  | inr h => exact .inr (h.mono ext)

theorem HBeq.trans_hb {tr : Trace} {i j k : Nat} (h : HBeq tr i j) (h2 : HB tr j k) : HB tr i k := by
  cases h with
  | inl h => subst h; exact h2
  | inr h => exact .trans h h2

theorem HBeq.trans {tr : Trace} {i j k : Nat} (h : HBeq tr i j) (h2 : HBeq tr j k) : HBeq tr i k := by
  cases h2 with
  | inl h2 => subst h2; exact h
  | inr h2 => exact .inr (h.trans_hb h2)

/-! ## justification of clock entries -/

/-- `j` is a position from which every later event of thread `t` is reached by happens-before: an
event of `t` itself, or the creation of `t` -/
def Anch (tr : Trace) (t : Tid) (j : Nat) : Prop := ∃ u e, tr[j]? = some (u, e) ∧ (u = t ∨ e = .fork t)

/-- `j` is a release of mutex `m` in mode `md` -/
def IsRel (tr : Trace) (m : Loc) (md : Mode) (j : Nat) : Prop := ∃ v, tr[j]? = some (v, .rel m md)

/-- `j` is a releasing write of `a` whose release sequence is unbroken up to the end of the trace -/
def Head (tr : Trace) (a : Loc) (j : Nat) : Prop :=
  ∃ v e, tr[j]? = some (v, e) ∧ RelWrite e a ∧ ∀ k v' o, j < k → tr[k]? ≠ some (v', .st a o)

/-- every entry of clock `v` is bounded by the number of events of that thread and justified by a
happens-before-or-equal path to a position satisfying `P` -/
def JustBy (tr : Trace) (v : VC) (P : Nat → Prop) : Prop :=
  (∀ u, vget v u ≤ cnt tr u) ∧
  ∀ i u e, tr[i]? = some (u, e) → lt tr i u ≤ vget v u → ∃ j, P j ∧ HBeq tr i j

theorem JustBy.nil (tr : Trace) (P : Nat → Prop) : JustBy tr [] P := by
  refine ⟨by simp, ?_⟩
  intro i u e h hl
  have := lt_pos h
  simp at hl; omega

theorem JustBy.join {tr : Trace} {a b : VC} {P : Nat → Prop} (ha : JustBy tr a P) (hb : JustBy tr b P) :
    JustBy tr (vjoin a b) P := by
  refine ⟨?_, ?_⟩
  · intro u; rw [vget_vjoin]; exact Nat.max_le.mpr ⟨ha.1 u, hb.1 u⟩
  · intro i u e h hl
    rw [vget_vjoin] at hl
    by_cases h1 : lt tr i u ≤ vget a u
    · exact ha.2 i u e h h1
    · exact hb.2 i u e h (by omega)

theorem JustBy.imp {tr : Trace} {v : VC} {P Q : Nat → Prop} (h : JustBy tr v P) (hpq : ∀ j, P j → Q j) :
    JustBy tr v Q := by
  refine ⟨h.1, ?_⟩
  intro i u e hi hl
  obtain ⟨j, hj, hh⟩ := h.2 i u e hi hl
  exact ⟨j, hpq j hj, hh⟩

theorem JustBy.via {tr : Trace} {v : VC} {P Q : Nat → Prop} (h : JustBy tr v P)
    (hpq : ∀ j, P j → ∃ j', Q j' ∧ HBeq tr j j') : JustBy tr v Q := by
  refine ⟨h.1, ?_⟩
  intro i u e hi hl
  obtain ⟨j, hj, hh⟩ := h.2 i u e hi hl
  obtain ⟨j', hq, hh'⟩ := hpq j hj
  exact ⟨j', hq, hh.trans hh'⟩

/-- an old clock stays justified when the trace grows by one event -/
theorem JustBy.snoc {tr : Trace} {v : VC} {P P' : Nat → Prop} (x : Tid × Ev) (h : JustBy tr v P)
    (hpp : ∀ j, j < tr.length → P j → P' j) (hb : ∀ j, P j → j < tr.length) : JustBy (tr ++ [x]) v P' := by
  obtain ⟨t, e0⟩ := x
  refine ⟨?_, ?_⟩
  · intro u; have := h.1 u; rw [cnt_snoc]; omega
  · intro i u e hi hl
    rcases get_snoc hi with ⟨hlt, hi'⟩ | ⟨heq, hp⟩
    · rw [lt_mono _ _ hlt] at hl
      obtain ⟨j, hj, hh⟩ := h.2 i u e hi' hl
      exact ⟨j, hpp j (hb j hj) hj, hh.mono _⟩
    · subst heq
      injection hp with h1 h2
      subst h1
      rw [lt_last, cnt_snoc] at hl
      have := h.1 u
      simp at hl; omega

theorem Anch.bound {tr : Trace} {t : Tid} {j : Nat} (h : Anch tr t j) : j < tr.length := by
  obtain ⟨u, e, h, _⟩ := h; exact get_lt h
theorem IsRel.bound {tr : Trace} {m : Loc} {md : Mode} {j : Nat} (h : IsRel tr m md j) : j < tr.length := by
  obtain ⟨u, h⟩ := h; exact get_lt h
theorem Head.bound {tr : Trace} {a : Loc} {j : Nat} (h : Head tr a j) : j < tr.length := by
  obtain ⟨u, e, h, _⟩ := h; exact get_lt h

theorem Anch.mono {tr : Trace} {t : Tid} {j : Nat} (ext : Trace) (h : Anch tr t j) : Anch (tr ++ ext) t j := by
  obtain ⟨u, e, h, h2⟩ := h; exact ⟨u, e, get_mono ext h, h2⟩
theorem IsRel.mono {tr : Trace} {m : Loc} {md : Mode} {j : Nat} (ext : Trace) (h : IsRel tr m md j) :
    IsRel (tr ++ ext) m md j := by
  obtain ⟨u, h⟩ := h; exact ⟨u, get_mono ext h⟩

/-- a release head stays a head when the new event is not a plain store to the location -/
theorem Head.snoc {tr : Trace} {a : Loc} {j : Nat} {t : Tid} {e : Ev} (h : Head tr a j) (hne : ∀ o, e ≠ .st a o) :
    Head (tr ++ [(t, e)]) a j := by
  obtain ⟨u, e', h1, h2, h3⟩ := h
  refine ⟨u, e', get_mono _ h1, h2, ?_⟩
  intro k v' o hjk hk
  rcases get_snoc hk with ⟨_, hk'⟩ | ⟨_, hp⟩
  · exact h3 k v' o hjk hk'
  · injection hp with _ h5; exact hne o h5.symm

/-- an anchor of `t` happens before the (new, last) event of `t` -/
theorem Anch.hb_last {tr : Trace} {t : Tid} {e : Ev} {j : Nat} (h : Anch tr t j) :
    HB (tr ++ [(t, e)]) j tr.length := by
  obtain ⟨u, e', h1, h2⟩ := h
  have hl := get_lt h1
  cases h2 with
  | inl h2 => subst h2; exact .po hl (get_mono _ h1) (get_last _ _)
  | inr h2 => subst h2; exact .sw (.fork hl (get_mono _ h1) (get_last _ _))

/-- the invariant: every clock of the state is justified -/
structure Just (tr : Trace) (k : Clk) : Prop where
  jC : ∀ t, JustBy tr (k.c t) (Anch tr t)
  jLX : ∀ m, JustBy tr (k.lx m) (IsRel tr m .X)
  jLS : ∀ m, JustBy tr (k.ls m) (IsRel tr m .S)
  jR : ∀ a, JustBy tr (k.r a) (Head tr a)

theorem just_init : Just [] {} :=
  ⟨fun _ => JustBy.nil _ _, fun _ => JustBy.nil _ _, fun _ => JustBy.nil _ _, fun _ => JustBy.nil _ _⟩

section step
variable {tr : Trace} {k : Clk} (h : Just tr k) (t : Tid) (e : Ev)
include h

theorem frame_C (u : Tid) : JustBy (tr ++ [(t, e)]) (k.c u) (Anch (tr ++ [(t, e)]) u) :=
  (h.jC u).snoc _ (fun _ _ hj => hj.mono _) (fun _ hj => hj.bound)

theorem frame_LX (m : Loc) : JustBy (tr ++ [(t, e)]) (k.lx m) (IsRel (tr ++ [(t, e)]) m .X) :=
  (h.jLX m).snoc _ (fun _ _ hj => hj.mono _) (fun _ hj => hj.bound)

theorem frame_LS (m : Loc) : JustBy (tr ++ [(t, e)]) (k.ls m) (IsRel (tr ++ [(t, e)]) m .S) :=
  (h.jLS m).snoc _ (fun _ _ hj => hj.mono _) (fun _ hj => hj.bound)

theorem frame_R (a : Loc) (hne : ∀ o, e ≠ .st a o) : JustBy (tr ++ [(t, e)]) (k.r a) (Head (tr ++ [(t, e)]) a) :=
  (h.jR a).snoc _ (fun _ _ hj => hj.snoc hne) (fun _ hj => hj.bound)

/-- the ticked clock of the acting thread is justified at the new position -/
theorem tick_at : JustBy (tr ++ [(t, e)]) (tick k t) (· = tr.length) := by
  refine ⟨?_, ?_⟩
  · intro u
    have := (h.jC t).1 u
    simp only [tick, vget_vset, cnt_snoc]
    by_cases hu : u = t
    · subst hu; simp; exact this
    · have : ¬ t = u := fun h => hu h.symm
      simp [hu, this]; assumption
  · intro i u e' hi hl
    refine ⟨tr.length, rfl, ?_⟩
    rcases get_snoc hi with ⟨hlt, hi'⟩ | ⟨heq, _⟩
    · right
      by_cases hu : u = t
      · subst hu; exact .po hlt hi (get_last _ _)
      · simp only [tick, vget_vset, hu, if_false] at hl
        rw [lt_mono _ _ hlt] at hl
        obtain ⟨j, hj, hh⟩ := (h.jC t).2 i u e' hi' hl
        exact (hh.mono _).trans_hb hj.hb_last
    · exact .inl heq

/-- what the new event acquires from a mutex release clock -/
theorem lx_at (m : Loc) (md : Mode) (he : e = .acq m md) : JustBy (tr ++ [(t, e)]) (k.lx m) (· = tr.length) := by
  apply (frame_LX h t e m).via
  intro j hj
  obtain ⟨v, hv⟩ := hj
  have hl : j < tr.length := by
    rcases get_snoc hv with ⟨hl, _⟩ | ⟨_, hp⟩
    · exact hl
    · subst he; injection hp with _ h2; cases h2
  exact ⟨_, rfl, .inr (.sw (.mutex hl hv (by rw [he]; exact get_last _ _) (.inl rfl)))⟩

theorem ls_at (m : Loc) (he : e = .acq m .X) : JustBy (tr ++ [(t, e)]) (k.ls m) (· = tr.length) := by
  apply (frame_LS h t e m).via
  intro j hj
  obtain ⟨v, hv⟩ := hj
  have hl : j < tr.length := by
    rcases get_snoc hv with ⟨hl, _⟩ | ⟨_, hp⟩
    · exact hl
    · subst he; injection hp with _ h2; cases h2
  exact ⟨_, rfl, .inr (.sw (.mutex hl hv (by rw [he]; exact get_last _ _) (.inr rfl)))⟩

/-- what an acquiring read obtains from the release-sequence clock of the location -/
theorem r_at (a : Loc) (hacq : AcqRead e a) : JustBy (tr ++ [(t, e)]) (k.r a) (· = tr.length) := by
  have hne : ∀ o, e ≠ .st a o := by
    intro o he; obtain ⟨o', _, h2⟩ := hacq; subst he; cases h2 <;> rename_i h3 <;> cases h3
  apply (frame_R h t e a hne).via
  intro j hj
  obtain ⟨v, e', hv, hr, hb⟩ := hj
  by_cases hl : j < tr.length
  · exact ⟨_, rfl, .inr (.sw (.atomic hl hv (get_last _ _) hr hacq (fun k' v' o hjk _ => hb k' v' o hjk)))⟩
  · have : j = tr.length := by have := get_lt hv; simp at this; omega
    exact ⟨_, rfl, .inl this⟩

/-- what a join obtains from the clock of the joined thread -/
theorem cu_at (u : Tid) (he : e = .join u) : JustBy (tr ++ [(t, e)]) (k.c u) (· = tr.length) := by
  apply (frame_C h t e u).via
  intro j hj
  obtain ⟨w, e', hv, hor⟩ := hj
  by_cases hl : j < tr.length
  · refine ⟨_, rfl, .inr (.sw ?_)⟩
    cases hor with
    | inl hw => subst hw; exact .join hl hv (by rw [he]; exact get_last _ _)
    | inr hf => subst hf; exact .forkJoin hl hv (by rw [he]; exact get_last _ _)
  · have : j = tr.length := by have := get_lt hv; simp at this; omega
    exact ⟨_, rfl, .inl this⟩

omit h in
theorem at_anchor {c : VC} (hc : JustBy (tr ++ [(t, e)]) c (· = tr.length)) :
    JustBy (tr ++ [(t, e)]) c (Anch (tr ++ [(t, e)]) t) :=
  hc.imp (fun j hj => by subst hj; exact ⟨t, e, get_last _ _, .inl rfl⟩)

omit h in
/-- the new position is a release of `m` -/
theorem at_rel {c : VC} (m : Loc) (md : Mode) (he : e = .rel m md)
    (hc : JustBy (tr ++ [(t, e)]) c (· = tr.length)) : JustBy (tr ++ [(t, e)]) c (IsRel (tr ++ [(t, e)]) m md) :=
  hc.imp (fun j hj => by subst hj; exact ⟨t, by rw [he]; exact get_last _ _⟩)

omit h in
/-- the new position is a release head of `a` -/
theorem at_head {c : VC} (a : Loc) (hr : RelWrite e a)
    (hc : JustBy (tr ++ [(t, e)]) c (· = tr.length)) : JustBy (tr ++ [(t, e)]) c (Head (tr ++ [(t, e)]) a) :=
  hc.imp (fun j hj => by
    subst hj
    refine ⟨t, e, get_last _ _, hr, ?_⟩
    intro k' v' o hk hk'
    have := get_lt hk'
    simp at this; omega)

/-- frame: an event that touches only the clock of its own thread -/
theorem just_own {c : VC} (hc : JustBy (tr ++ [(t, e)]) c (· = tr.length)) (hne : ∀ a o, e ≠ .st a o) :
    Just (tr ++ [(t, e)]) (k.setC t c) := by
  refine ⟨?_, ?_, ?_, ?_⟩
  · intro u
    rw [setC_c]
    by_cases hu : u = t
    · subst hu; simp only [if_true]; exact at_anchor u e hc
    · simp only [hu, if_false]; exact frame_C h t e u
  · intro m; exact frame_LX h t e m
  · intro m; exact frame_LS h t e m
  · intro a; exact frame_R h t e a (hne a)

end step

theorem just_step {tr : Trace} {k : Clk} (h : Just tr k) (t : Tid) (e : Ev) :
    Just (tr ++ [(t, e)]) (vstep k t e) := by
  have hc := tick_at h t e
  cases e with
  | acq m md =>
    cases md with
    | X =>
      exact just_own h t _ (hc.join ((lx_at h t _ m .X rfl).join (ls_at h t _ m rfl))) (by intro a o he; cases he)
    | S => exact just_own h t _ (hc.join (lx_at h t _ m .S rfl)) (by intro a o he; cases he)
  | rel m md =>
    have hb := just_own h t _ hc (by intro a o he; cases he)
    cases md with
    | X =>
      refine ⟨fun u => hb.jC u, ?_, fun m' => hb.jLS m', fun a => hb.jR a⟩
      intro m'
      simp only [vstep, setLX_lx]
      by_cases hm : m' = m
      · subst hm; simp only [if_true]
        exact (frame_LX h t _ m').join (at_rel t _ m' .X rfl hc)
      · simp only [hm, if_false]; exact frame_LX h t _ m'
    | S =>
      refine ⟨fun u => hb.jC u, fun m' => hb.jLX m', ?_, fun a => hb.jR a⟩
      intro m'
      simp only [vstep, setLS_ls]
      by_cases hm : m' = m
      · subst hm; simp only [if_true]
        exact (frame_LS h t _ m').join (at_rel t _ m' .S rfl hc)
      · simp only [hm, if_false]; exact frame_LS h t _ m'
  | ld a o =>
    apply just_own h t _ _ (by intro a o he; cases he)
    simp only [acqClock]
    split
    · rename_i ho; exact hc.join (r_at h t _ a ⟨o, ho, .inl rfl⟩)
    · exact hc
  | st a o =>
    -- the store replaces the release clock of `a`
    have hC : ∀ u, JustBy (tr ++ [(t, Ev.st a o)]) ((k.setC t (tick k t)).c u) (Anch (tr ++ [(t, Ev.st a o)]) u) := by
      intro u
      rw [setC_c]
      by_cases hu : u = t
      · subst hu; simp only [if_true]; exact at_anchor u _ hc
      · simp only [hu, if_false]; exact frame_C h t _ u
    refine ⟨hC, fun m => frame_LX h t _ m, fun m => frame_LS h t _ m, ?_⟩
    intro a'
    simp only [vstep, setR_r]
    by_cases ha : a' = a
    · subst ha; simp only [if_true]
      split
      · rename_i ho; exact at_head t _ a' ⟨o, ho, .inl rfl⟩ hc
      · exact JustBy.nil _ _
    · simp only [ha, if_false]
      exact frame_R h t _ a' (by intro o' he; injection he with h1 _; exact ha h1.symm)
  | rmw a o =>
    have hc' : JustBy (tr ++ [(t, Ev.rmw a o)]) (acqClock k (tick k t) a o) (· = tr.length) := by
      simp only [acqClock]
      split
      · rename_i ho; exact hc.join (r_at h t _ a ⟨o, ho, .inr rfl⟩)
      · exact hc
    have hb := just_own h t _ hc' (by intro a o he; cases he)
    refine ⟨fun u => hb.jC u, fun m => hb.jLX m, fun m => hb.jLS m, ?_⟩
    intro a'
    simp only [vstep, setR_r]
    by_cases ha : a' = a
    · subst ha; simp only [if_true]
      split
      · rename_i ho
        exact (frame_R h t _ a' (by intro o' he; cases he)).join (at_head t _ a' ⟨o, ho, .inr rfl⟩ hc')
      · exact frame_R h t _ a' (by intro o' he; cases he)
    · simp only [ha, if_false]; exact frame_R h t _ a' (by intro o' he; cases he)
  | rd x => exact just_own h t _ hc (by intro a o he; cases he)
  | wr x => exact just_own h t _ hc (by intro a o he; cases he)
  | nop => exact just_own h t _ hc (by intro a o he; cases he)
  | join u => exact just_own h t _ (hc.join (cu_at h t _ u rfl)) (by intro a o he; cases he)
  | fork u =>
    have hb := just_own h t _ hc (by intro a o he; cases he)
    refine ⟨?_, fun m => hb.jLX m, fun m => hb.jLS m, fun a => hb.jR a⟩
    intro w
    simp only [vstep]
    rw [setC_c]
    by_cases hw : w = u
    · subst hw; simp only [if_true]
      refine (hb.jC w).join (hc.imp ?_)
      intro j hj; subst hj
      exact ⟨t, _, get_last _ _, .inr rfl⟩
    · simp only [hw, if_false]; exact hb.jC w

/-- every clock computed by the checker is justified by happens-before paths -/
theorem just_vrun (tr : Trace) : Just tr (vrun {} tr) := by
  suffices h : ∀ (ext pre : Trace) (k : Clk), Just pre k → Just (pre ++ ext) (vrun k ext) by
    simpa using h tr [] {} just_init
  intro ext
  induction ext with
  | nil => intro pre k h; simpa [vrun] using h
  | cons x ext ih =>
    intro pre k h
    obtain ⟨t, e⟩ := x
    have := ih (pre ++ [(t, e)]) (vstep k t e) (just_step h t e)
    simpa [vrun] using this

/-! ## lower bound: a thread's own entry counts its events -/

theorem tick_self (k : Clk) (t : Tid) : vget (tick k t) t = vget (k.c t) t + 1 := by
  simp [tick, vget_vset]

theorem vstep_self_ge (k : Clk) (t : Tid) (e : Ev) : vget (k.c t) t + 1 ≤ vget ((vstep k t e).c t) t := by
  have ht := tick_self k t
  cases e with
  | acq m md => cases md <;> simp [vstep, vget_vjoin] <;> omega
  | rel m md => cases md <;> simp [vstep] <;> omega
  | ld a o => simp only [vstep, setC_c, if_true, acqClock]; split <;> simp [vget_vjoin] <;> omega
  | st a o => simp [vstep]; omega
  | rmw a o => simp only [vstep, setR_c, setC_c, if_true, acqClock]; split <;> simp [vget_vjoin] <;> omega
  | rd x => simp [vstep]; omega
  | wr x => simp [vstep]; omega
  | nop => simp [vstep]; omega
  | join u => simp [vstep, vget_vjoin]; omega
  | fork u =>
    simp only [vstep, setC_c]
    by_cases hu : t = u
    · subst hu; simp [vget_vjoin]; omega
    · simp [hu]; omega

theorem vstep_other_ge (k : Clk) (t : Tid) (e : Ev) (u : Tid) (hu : u ≠ t) :
    vget (k.c u) u ≤ vget ((vstep k t e).c u) u := by
  cases e with
  | acq m md => cases md <;> simp [vstep, hu]
  | rel m md => cases md <;> simp [vstep, hu]
  | ld a o => simp [vstep, hu]
  | st a o => simp [vstep, hu]
  | rmw a o => simp [vstep, hu]
  | rd x => simp [vstep, hu]
  | wr x => simp [vstep, hu]
  | nop => simp [vstep, hu]
  | join u' => simp [vstep, hu]
  | fork u' =>
    simp only [vstep, setC_c]
    by_cases h2 : u = u'
    · subst h2; simp [vget_vjoin, hu]; exact Nat.le_max_left _ _
    · simp [h2, hu]

/-- induction on traces by appending one event -/
theorem snoc_induction {α : Type} {P : List α → Prop} (h0 : P []) (hs : ∀ tr x, P tr → P (tr ++ [x])) :
    ∀ tr, P tr := by
  have : ∀ tr : List α, P tr.reverse := by
    intro tr
    induction tr with
    | nil => simpa using h0
    | cons x tr ih => simpa using hs _ x ih
  intro tr
  simpa using this tr.reverse

theorem vrun_snoc (k : Clk) (tr : Trace) (t : Tid) (e : Ev) : vrun k (tr ++ [(t, e)]) = vstep (vrun k tr) t e := by
  simp [vrun, List.foldl_append]

/-- a thread's own clock entry is at least the number of its events -/
theorem lb_vrun (tr : Trace) (t : Tid) : cnt tr t ≤ vget ((vrun {} tr).c t) t := by
  induction tr using snoc_induction with
  | h0 => simp [cnt]
  | hs tr x ih =>
    obtain ⟨u, e⟩ := x
    rw [vrun_snoc, cnt_snoc]
    by_cases hu : u = t
    · subst hu; have := vstep_self_ge (vrun {} tr) u e; simp; omega
    · have := vstep_other_ge (vrun {} tr) u e t (fun h => hu h.symm); simp [hu]; omega

/-! ## soundness of the access checks -/

theorem anch_hb_last {tr : Trace} {t : Tid} {e : Ev} {j : Nat} (h : Anch (tr ++ [(t, e)]) t j) :
    j = tr.length ∨ HB (tr ++ [(t, e)]) j tr.length := by
  obtain ⟨u, e', h1, h2⟩ := h
  rcases get_snoc h1 with ⟨_, h1'⟩ | ⟨heq, _⟩
  · exact .inr (Anch.hb_last ⟨u, e', h1', h2⟩)
  · exact .inl heq

/-- an earlier event whose local time is known to the clock of the thread performing the last
event happens before that event -/
theorem clock_hb {tr : Trace} {t u : Tid} {e ei : Ev} {i : Nat} (hi : tr[i]? = some (u, ei))
    (hl : lt tr i u ≤ vget ((vrun {} (tr ++ [(t, e)])).c t) u) : HB (tr ++ [(t, e)]) i tr.length := by
  have hj := (just_vrun (tr ++ [(t, e)])).jC t
  have hlt := get_lt hi
  rw [← lt_mono [(t, e)] u hlt] at hl
  obtain ⟨j, ha, hh⟩ := hj.2 i u ei (get_mono _ hi) hl
  rcases anch_hb_last ha with hj | hj
  · subst hj
    cases hh with
    | inl h => omega
    | inr h => exact h
  · exact hh.trans_hb hj

theorem a_lset (acc : List Acc) (x y : Loc) (a : Acc) : lget {} (lset {} acc x a) y = if y = x then a else lget {} acc y :=
  lget_lset _ _ _ _ _

/-- invariant of the race checker after an accepted trace -/
structure AccOK (tr : Trace) (s : St) : Prop where
  clk : s.clk = vrun {} tr
  wNone : ∀ (x : Loc), (s.a x).w = none → ∀ (i : Nat) (u : Tid), tr[i]? ≠ some (u, Ev.wr x)
  wSome : ∀ (x : Loc) (w : Tid) (n : Nat), (s.a x).w = some (w, n) →
    ∃ iw : Nat, tr[iw]? = some (w, Ev.wr x) ∧ lt tr iw w ≤ n ∧ ∀ (i : Nat) (u : Tid), tr[i]? = some (u, Ev.wr x) → i ≤ iw
  rd : ∀ (x : Loc) (i : Nat) (u : Tid), tr[i]? = some (u, Ev.rd x) → lt tr i u ≤ vget (s.a x).r u
  ordered : ∀ i j, i < j → Conflict tr i j → HB tr i j

theorem accOK_init : AccOK [] {} := by
  refine ⟨rfl, ?_, ?_, ?_, ?_⟩
  · intro x _ i u h; simp at h
  · intro x w n h; simp [St.a, lget] at h
  · intro x i u h; simp at h
  · intro i j _ h; obtain ⟨x, t, u, ei, ej, h1, _⟩ := h; simp at h1

/-- a conflict between two old positions is a conflict of the old trace -/
theorem conflict_old {tr : Trace} {x : Tid × Ev} {i j : Nat} (hij : i < j) (hj : j < tr.length)
    (h : Conflict (tr ++ [x]) i j) : Conflict tr i j := by
  obtain ⟨y, t, u, ei, ej, h1, h2, h3⟩ := h
  rw [List.getElem?_append_left (by omega)] at h1
  rw [List.getElem?_append_left hj] at h2
  exact ⟨y, t, u, ei, ej, h1, h2, h3⟩

theorem St.a_mk (k : Clk) (acc : List Acc) (x : Loc) : ({ clk := k, acc := acc } : St).a x = lget {} acc x := rfl

theorem not_lt_last {tr : Trace} {x p : Tid × Ev} {j : Nat} (h : (tr ++ [x])[j]? = some p) (hj : ¬ j < tr.length) :
    j = tr.length ∧ p = x := by
  rcases get_snoc h with ⟨hl, _⟩ | h
  · exact absurd hl hj
  · exact h

/-- an event that is not a plain access leaves the access history alone -/
theorem accOK_frame {tr : Trace} {s : St} {t : Tid} {e : Ev} (h : AccOK tr s)
    (hne : ∀ x, e ≠ .rd x ∧ e ≠ .wr x) : AccOK (tr ++ [(t, e)]) { clk := vstep s.clk t e, acc := s.acc } := by
  refine ⟨by simp [vrun_snoc, h.clk], ?_, ?_, ?_, ?_⟩
  · intro x hx i u hi
    rcases get_snoc hi with ⟨_, hi'⟩ | ⟨_, hp⟩
    · exact h.wNone x hx i u hi'
    · injection hp with _ h2; exact (hne x).2 h2.symm
  · intro x w n hx
    obtain ⟨iw, h1, h2, h3⟩ := h.wSome x w n hx
    refine ⟨iw, get_mono _ h1, by rw [lt_mono _ _ (get_lt h1)]; exact h2, ?_⟩
    intro i u hi
    rcases get_snoc hi with ⟨_, hi'⟩ | ⟨_, hp⟩
    · exact h3 i u hi'
    · injection hp with _ h2; exact absurd h2.symm (hne x).2
  · intro x i u hi
    rcases get_snoc hi with ⟨hl, hi'⟩ | ⟨_, hp⟩
    · rw [lt_mono _ _ hl]; exact h.rd x i u hi'
    · injection hp with _ h2; exact absurd h2.symm (hne x).1
  · intro i j hij hc
    by_cases hj : j < tr.length
    · exact (h.ordered i j hij (conflict_old hij hj hc)).mono _
    · obtain ⟨y, t1, u1, ei, ej, h1, h2, ha1, ha2, hor⟩ := hc
      obtain ⟨_, hp⟩ := not_lt_last h2 hj
      injection hp with _ h3
      subst h3
      cases ha2 with
      | inl h4 => exact absurd h4 (hne y).1
      | inr h4 => exact absurd h4 (hne y).2

/-- an earlier write of `x` happens before the new last event, when the last-write epoch is known
to the clock of the acting thread -/
theorem write_hb {tr : Trace} {s : St} {t u : Tid} {e : Ev} {x : Loc} {i : Nat} (h : AccOK tr s)
    (hw : wOK (s.a x).w ((vrun {} (tr ++ [(t, e)])).c t) = true) (hi : tr[i]? = some (u, .wr x)) :
    HB (tr ++ [(t, e)]) i tr.length := by
  cases hwx : (s.a x).w with
  | none => exact absurd hi (h.wNone x hwx i u)
  | some p =>
    obtain ⟨w, nn⟩ := p
    obtain ⟨iw, h1, h2, h3⟩ := h.wSome x w nn hwx
    rw [hwx] at hw
    simp only [wOK, decide_eq_true_eq] at hw
    have hb : HB (tr ++ [(t, e)]) iw tr.length := clock_hb h1 (by omega)
    have hle := h3 i u hi
    by_cases heq : i = iw
    · subst heq; exact hb
    · have : HB tr i iw := h.ordered i iw (by omega)
        ⟨x, u, w, _, _, hi, h1, .inr rfl, .inr rfl, .inl rfl⟩
      exact .trans (this.mono _) hb

theorem accOK_step {tr : Trace} {s s' : St} {t : Tid} {e : Ev} (h : AccOK tr s) (hs : step s t e = some s') :
    AccOK (tr ++ [(t, e)]) s' := by
  have hk : vstep s.clk t e = vrun {} (tr ++ [(t, e)]) := by rw [vrun_snoc, h.clk]
  have hself : cnt (tr ++ [(t, e)]) t ≤ vget ((vstep s.clk t e).c t) t := by rw [hk]; exact lb_vrun _ _
  have hcnt : cnt tr t ≤ cnt (tr ++ [(t, e)]) t := by rw [cnt_snoc]; omega
  cases e with
  | rd x =>
    simp only [step] at hs
    split at hs
    · rename_i hw
      injection hs with hs; subst hs
      refine ⟨by simp [vrun_snoc, h.clk], ?_, ?_, ?_, ?_⟩
      · intro y hy i u hi
        have hy' : (s.a y).w = none := by
          simp only [St.a_mk, a_lset] at hy
          split at hy
          · rename_i hyx; subst hyx; exact hy
          · exact hy
        rcases get_snoc hi with ⟨_, hi'⟩ | ⟨_, hp⟩
        · exact h.wNone y hy' i u hi'
        · injection hp with _ h2; cases h2
      · intro y w n hy
        have hy' : (s.a y).w = some (w, n) := by
          simp only [St.a_mk, a_lset] at hy
          split at hy
          · rename_i hyx; subst hyx; exact hy
          · exact hy
        obtain ⟨iw, h1, h2, h3⟩ := h.wSome y w n hy'
        refine ⟨iw, get_mono _ h1, by rw [lt_mono _ _ (get_lt h1)]; exact h2, ?_⟩
        intro i u hi
        rcases get_snoc hi with ⟨_, hi'⟩ | ⟨_, hp⟩
        · exact h3 i u hi'
        · injection hp with _ h2; cases h2
      · intro y i u hi
        simp only [St.a_mk, a_lset]
        rcases get_snoc hi with ⟨hl, hi'⟩ | ⟨hin, hp⟩
        · rw [lt_mono _ _ hl]
          have hold := h.rd y i u hi'
          split
          · rename_i hy; subst hy
            simp only [vget_vset]
            split
            · rename_i hu; subst hu
              have := lt_le_cnt tr i u; omega
            · exact hold
          · exact hold
        · injection hp with h1 h2
          injection h2 with h2
          subst h1; subst h2; subst hin
          simp only [if_true, vget_vset, lt_last]
          exact hself
      · intro i j hij hc
        by_cases hj : j < tr.length
        · exact (h.ordered i j hij (conflict_old hij hj hc)).mono _
        · obtain ⟨y, t1, u1, ei, ej, h1, h2, ha1, ha2, hor⟩ := hc
          obtain ⟨hjn, hp⟩ := not_lt_last h2 hj
          injection hp with _ h3
          subst h3; subst hjn
          have hy : y = x := by
            cases ha2 with
            | inl h4 => injection h4 with h4; exact h4.symm
            | inr h4 => cases h4
          subst hy
          have hei : ei = .wr y := by
            cases hor with
            | inl h4 => exact h4
            | inr h4 => cases h4
          subst hei
          rw [List.getElem?_append_left hij] at h1
          rw [hk] at hw
          exact write_hb h hw h1
    · cases hs
  | wr x =>
    simp only [step] at hs
    split at hs
    · rename_i hw
      simp only [Bool.and_eq_true] at hw
      obtain ⟨hw, hr⟩ := hw
      injection hs with hs; subst hs
      refine ⟨by simp [vrun_snoc, h.clk], ?_, ?_, ?_, ?_⟩
      · intro y hy i u hi
        simp only [St.a_mk, a_lset] at hy
        split at hy
        · cases hy
        · rename_i hyx
          rcases get_snoc hi with ⟨_, hi'⟩ | ⟨_, hp⟩
          · exact h.wNone y hy i u hi'
          · injection hp with _ h2; injection h2 with h2; exact hyx h2
      · intro y w n hy
        simp only [St.a_mk, a_lset] at hy
        split at hy
        · rename_i hyx; subst hyx
          injection hy with hy
          injection hy with h1 h2
          subst h1; subst h2
          refine ⟨tr.length, get_last _ _, by rw [lt_last]; exact hself, ?_⟩
          intro i u hi
          have := get_lt hi; simp at this; omega
        · rename_i hyx
          obtain ⟨iw, h1, h2, h3⟩ := h.wSome y w n hy
          refine ⟨iw, get_mono _ h1, by rw [lt_mono _ _ (get_lt h1)]; exact h2, ?_⟩
          intro i u hi
          rcases get_snoc hi with ⟨_, hi'⟩ | ⟨_, hp⟩
          · exact h3 i u hi'
          · injection hp with _ h2; injection h2 with h2; exact absurd h2 hyx
      · intro y i u hi
        have hsame : ∀ a' : Acc, a'.r = (s.a x).r → (if y = x then a' else lget {} s.acc y).r = (s.a y).r := by
          intro a' ha
          split
          · rename_i hy; subst hy; exact ha
          · rfl
        simp only [St.a_mk, a_lset]
        rw [hsame { w := some (t, vget ((vstep s.clk t (Ev.wr x)).c t) t), r := (s.a x).r } rfl]
        rcases get_snoc hi with ⟨hl, hi'⟩ | ⟨_, hp⟩
        · rw [lt_mono _ _ hl]; exact h.rd y i u hi'
        · injection hp with _ h2; cases h2
      · intro i j hij hc
        by_cases hj : j < tr.length
        · exact (h.ordered i j hij (conflict_old hij hj hc)).mono _
        · obtain ⟨y, t1, u1, ei, ej, h1, h2, ha1, ha2, hor⟩ := hc
          obtain ⟨hjn, hp⟩ := not_lt_last h2 hj
          injection hp with _ h3
          subst h3; subst hjn
          have hy : y = x := by
            cases ha2 with
            | inl h4 => cases h4
            | inr h4 => injection h4 with h4; exact h4.symm
          subst hy
          rw [List.getElem?_append_left hij] at h1
          cases ha1 with
          | inr h4 =>
            subst h4
            rw [hk] at hw
            exact write_hb h hw h1
          | inl h4 =>
            subst h4
            have h5 := h.rd y i t1 h1
            have h6 := vle_le hr t1
            rw [hk] at h6
            exact clock_hb h1 (by omega)
    · cases hs
  | acq m md => simp only [step] at hs; injection hs with hs; subst hs; exact accOK_frame h (by intro x; constructor <;> intro he <;> cases he)
  | rel m md => simp only [step] at hs; injection hs with hs; subst hs; exact accOK_frame h (by intro x; constructor <;> intro he <;> cases he)
  | ld a o => simp only [step] at hs; injection hs with hs; subst hs; exact accOK_frame h (by intro x; constructor <;> intro he <;> cases he)
  | st a o => simp only [step] at hs; injection hs with hs; subst hs; exact accOK_frame h (by intro x; constructor <;> intro he <;> cases he)
  | rmw a o => simp only [step] at hs; injection hs with hs; subst hs; exact accOK_frame h (by intro x; constructor <;> intro he <;> cases he)
  | fork u => simp only [step] at hs; injection hs with hs; subst hs; exact accOK_frame h (by intro x; constructor <;> intro he <;> cases he)
  | join u => simp only [step] at hs; injection hs with hs; subst hs; exact accOK_frame h (by intro x; constructor <;> intro he <;> cases he)
  | nop => simp only [step] at hs; injection hs with hs; subst hs; exact accOK_frame h (by intro x; constructor <;> intro he <;> cases he)

/-- invariant after every accepted trace -/
theorem accOK_run {tr : Trace} {s : St} (h : run tr = some s) : AccOK tr s := by
  induction tr using snoc_induction generalizing s with
  | h0 => simp [run] at h; subst h; exact accOK_init
  | hs tr x ih =>
    obtain ⟨t, e⟩ := x
    simp only [run, runFrom_append] at h
    cases h1 : runFrom step {} tr with
    | none => simp [h1] at h
    | some s1 =>
      simp only [h1, Option.bind_some, runFrom_cons, runFrom_nil] at h
      cases h2 : step s1 t e with
      | none => simp [h2] at h
      | some s2 =>
        simp [h2] at h; subst h
        exact accOK_step (ih h1) h2

/-- **Soundness of the checker**: if `raceFree` accepts a trace, every pair of conflicting plain
accesses is ordered by happens-before (the later one happens after the earlier one). -/
theorem raceFree_ordered {tr : Trace} (h : raceFree tr = true) :
    ∀ i j, i < j → Conflict tr i j → HB tr i j := by
  simp only [raceFree, Option.isSome_iff_exists] at h
  obtain ⟨s, hs⟩ := h
  exact (accOK_run hs).ordered

theorem raceFree_sound {tr : Trace} (h : raceFree tr = true) : ¬ Race tr := by
  intro ⟨i, j, hij, hc, hn⟩
  exact hn (raceFree_ordered h i j hij hc)

end ConcVerif.HB
