import ConcVerif.Proof.HBDD
/-! Happens-before ordering of conflicting accesses to the vector of the DelayedDestructor model.

Before `~DelayedDestructor` starts, the lockset theorem applies.  From `callDtor` on, all accesses belong to the
destructor's thread (program order).  What remains is a pair (access of another thread before the destructor, access of
the destructor): these are ordered exactly when the client orders the destructor call after the other threads' use of
the container — hypothesis `DtorOrdered`; joining the other threads (`js`) is one way to discharge it. -/
namespace ConcVerif.DD

theorem split_at {α : Type} {l : List α} {p : Nat} {x : α} (h : l[p]? = some x) :
    l = l.take p ++ x :: l.drop (p + 1) := by
  have hpl := HB.lq_lt h
  conv => lhs; rw [← List.take_append_drop p l]
  congr 1
  rw [List.drop_eq_getElem_cons hpl]
  congr 1
  exact (List.getElem?_eq_some_iff.mp h).2

theorem topAcc_head (s : St) : ∃ tl, topAcc s = .rd 0 :: tl := by
  unfold topAcc; split
  · exact ⟨_, rfl⟩
  · exact ⟨_, rfl⟩

/-- the events the start of the destructor maps to, in front of its first access -/
def dtorHead (js : List Tid) (d : Tid) : HB.Trace := (d, .nop) :: evs d (js.map HB.Ev.join)

@[simp] theorem dtorHead_length (js : List Tid) (d : Tid) : (dtorHead js d).length = 1 + js.length := by
  simp [dtorHead]; omega

/-- shape of the mapped trace around the start of the container's destructor: the prefix before `callDtor` (an
accepted trace in which the container is alive), then `nop`, the joins, the first `empty()` test -/
theorem hbTrace_dtor (js : List Tid) {cb : Bool} {ns nt : Nat} {es : List (Tid × Ev)} {s : St} {p : Nat} {d : Tid}
    (h : run cb ns nt es = some s) (hp : es[p]? = some (d, Ev.callDtor)) :
    ∃ s1 rest, run cb ns nt (es.take p) = some s1 ∧ s1.dead = none ∧
      hbTrace js cb ns nt es = hbTrace js cb ns nt (es.take p) ++ (dtorHead js d ++ (d, .rd 0) :: rest) := by
  obtain ⟨s1, s2, h1, h2⟩ := HB.runFrom_at h hp
  obtain ⟨hstk, _, hdead, _⟩ := callDtor_inv h2
  obtain ⟨tl, htl⟩ := topAcc_head s1
  refine ⟨s1, evs d tl ++ hbFrom js s2 (es.drop (p + 1)), h1, hdead, ?_⟩
  have hsplit := split_at hp
  unfold hbTrace
  conv => lhs; rw [hsplit]
  rw [hbFrom_append js h1]
  congr 1
  simp only [hbFrom, h2, toHB, hstk, csOf, xHB, htl, dtorHead, evs, List.map_append, List.map_cons,
    List.cons_append, List.nil_append, List.append_assoc]

theorem get_mid_at {α : Type} (pre : List α) {mid : List α} (post : List α) {k : Nat} {y : α} (h : mid[k]? = some y) :
    (pre ++ (mid ++ post))[pre.length + k]? = some y := by
  rw [List.getElem?_append_right (by omega), Nat.add_sub_cancel_left, List.getElem?_append_left (HB.lq_lt h)]
  exact h

theorem get_after_mid {α : Type} (pre mid : List α) (x : α) (rest : List α) :
    (pre ++ (mid ++ x :: rest))[pre.length + mid.length]? = some x := by
  rw [List.getElem?_append_right (by omega), Nat.add_sub_cancel_left, List.getElem?_append_right (by omega)]
  simp

theorem get_in_mid {α : Type} {pre mid post : List α} {j : Nat} {y : α} (h1 : pre.length ≤ j)
    (h2 : j < pre.length + mid.length) (h : (pre ++ (mid ++ post))[j]? = some y) : y ∈ mid := by
  rw [List.getElem?_append_right h1, List.getElem?_append_left (by omega)] at h
  exact List.mem_of_getElem? h

theorem dtorHead_noacc {js : List Tid} {d u : Tid} {x : HB.Ev} (h : (u, x) ∈ dtorHead js d) : ¬ IsAcc x := by
  unfold dtorHead at h
  rcases List.mem_cons.1 h with h | h
  · injection h with _ h; subst h; intro ha; rcases ha with ha | ha <;> cases ha
  · obtain ⟨_, h2⟩ := mem_evs h
    simp only [List.mem_map] at h2
    obtain ⟨v, _, rfl⟩ := h2
    intro ha; rcases ha with ha | ha <;> cases ha

/-- **Client obligation for destroying the container.**  For every start of `~DelayedDestructor` (event `callDtor`
of thread `d` at position `p` of the model trace): every access to the vector that ANOTHER thread made before it
happens-before the destructor's first access to the vector (its first `empty()` test, at position
`|hbTrace (es.take p)| + 1 + |js|` of the mapped trace).  Vacuous for traces without `callDtor`. -/
def DtorOrdered (js : List Tid) (cb : Bool) (ns nt : Nat) (es : List (Tid × Ev)) : Prop :=
  ∀ p d, es[p]? = some (d, Ev.callDtor) → ∀ i u x, i < (hbTrace js cb ns nt (es.take p)).length →
    (hbTrace js cb ns nt es)[i]? = some (u, x) → u ≠ d → x.accesses 0 →
    HB.HB (hbTrace js cb ns nt es) i ((hbTrace js cb ns nt (es.take p)).length + (1 + js.length))

theorem dd_hb {js : List Tid} {cb : Bool} {ns nt : Nat} {es : List (Tid × Ev)} {s : St}
    (h : run cb ns nt es = some s) (ho : DtorOrdered js cb ns nt es) {i j : Nat} (hij : i < j)
    (hc : HB.ConflictOn (hbTrace js cb ns nt es) 0 i j) : HB.HB (hbTrace js cb ns nt es) i j := by
  have hS := sim_run js h
  cases hd : s.dead with
  | none => exact HB.lockset_hb hS.ti.2 (hS.live hd) hij hc
  | some d =>
    obtain ⟨p, hp, hown⟩ := hS.dt d hd
    obtain ⟨s1, rest, hr1, hd1, htr⟩ := hbTrace_dtor js h hp
    have hS1 := sim_run js hr1
    obtain ⟨t, u, ei, ej, h1, h2, ha1, ha2, hor⟩ := hc
    have nn : ∀ {x : HB.Ev}, x.accesses 0 → x ≠ .nop := by
      intro x hx hn; subst hn; rcases hx with hx | hx <;> cases hx
    by_cases hjc : j < (hbTrace js cb ns nt (es.take p)).length
    · -- both accesses before the destructor: lockset
      have h1' := h1; have h2' := h2
      rw [htr, List.getElem?_append_left (by omega)] at h1'
      rw [htr, List.getElem?_append_left hjc] at h2'
      have := HB.lockset_hb hS1.ti.2 (hS1.live hd1) hij ⟨t, u, ei, ej, h1', h2', ha1, ha2, hor⟩
      rw [htr]; exact this.mono _
    · have hju : u = d := hown j u ej (by omega) h2 (nn ha2)
      subst hju
      by_cases hic : (hbTrace js cb ns nt (es.take p)).length ≤ i
      · have hiu : t = u := hown i t ei hic h1 (nn ha1)
        subst hiu; exact .po hij h1 h2
      · by_cases htd : t = u
        · subst htd; exact .po hij h1 h2
        · have hia := ho p u hp i t ei (by omega) h1 htd ha1
          have ha : (hbTrace js cb ns nt es)[(hbTrace js cb ns nt (es.take p)).length + (1 + js.length)]? =
              some (u, .rd 0) := by
            have := get_after_mid (hbTrace js cb ns nt (es.take p)) (dtorHead js u) (u, HB.Ev.rd 0) rest
            rw [dtorHead_length] at this
            rw [htr]; exact this
          have hja : (hbTrace js cb ns nt (es.take p)).length + (1 + js.length) ≤ j := by
            apply Classical.byContradiction; intro hlt
            have h2' := h2
            rw [htr] at h2'
            have := get_in_mid (by omega) (by rw [dtorHead_length]; omega) h2'
            exact dtorHead_noacc this ha2
          by_cases heq : (hbTrace js cb ns nt (es.take p)).length + (1 + js.length) = j
          · rw [← heq]; exact hia
          · exact .trans hia (.po (by omega) ha h2)

theorem dd_no_race {js : List Tid} {cb : Bool} {ns nt : Nat} {es : List (Tid × Ev)} {s : St}
    (h : run cb ns nt es = some s) (ho : DtorOrdered js cb ns nt es) : ¬ HB.Race (hbTrace js cb ns nt es) := by
  intro ⟨i, j, hij, ⟨x, hc⟩, hn⟩
  have hx : x = 0 := by
    obtain ⟨t, u, ei, ej, h1, _, ha, _⟩ := hc
    exact hbTrace_access h1 ha
  subst hx
  exact hn (dd_hb h ho hij hc)

/-- the thread that starts the container's destructor stays recorded in `dead` -/
theorem dead_of_callDtor {cb : Bool} {ns nt : Nat} {es : List (Tid × Ev)} {s : St} {p : Nat} {d : Tid}
    (h : run cb ns nt es = some s) (hp : es[p]? = some (d, Ev.callDtor)) : s.dead = some d := by
  obtain ⟨s1, s2, h1, h2⟩ := HB.runFrom_at h hp
  have hkeep : ∀ (a : St) (t : Tid) (e : Ev) (b : St), a.dead = some d → step a t e = some b → b.dead = some d := by
    intro a t e b ha hs
    rcases step_dead' hs with h3 | ⟨_, h4, _⟩
    · rw [h3]; exact ha
    · rw [h4] at ha; cases ha
  have hsplit := split_at hp
  unfold run at h
  rw [hsplit, runFrom_append] at h
  simp only [h1, Option.bind_some, runFrom_cons, h2] at h
  exact runFrom_inv (Inv := fun a => a.dead = some d) hkeep (callDtor_inv h2).2.2.2 h

/-- a trace in which the container's destructor has not started needs no client obligation -/
theorem dtorOrdered_live {js : List Tid} {cb : Bool} {ns nt : Nat} {es : List (Tid × Ev)} {s : St}
    (h : run cb ns nt es = some s) (hd : s.dead = none) : DtorOrdered js cb ns nt es := by
  intro p d hp
  rw [dead_of_callDtor h hp] at hd; cases hd

/-- **Joining discharges the obligation.**  If every thread other than the destructor's that accessed the vector
is among the joined threads `js`, the destructor is ordered after all of them. -/
theorem dtorOrdered_joined {js : List Tid} {cb : Bool} {ns nt : Nat} {es : List (Tid × Ev)} {s : St}
    (h : run cb ns nt es = some s)
    (hj : ∀ (i : Nat) (u : Tid) (x : HB.Ev), (hbTrace js cb ns nt es)[i]? = some (u, x) → x.accesses 0 →
      u ∈ js ∨ s.dead = some u) :
    DtorOrdered js cb ns nt es := by
  intro p d hp i u x hi hget hud hacc
  obtain ⟨s1, rest, hr1, hd1, htr⟩ := hbTrace_dtor js h hp
  have hdd : s.dead = some d := dead_of_callDtor h hp
  have huj : u ∈ js := by
    rcases hj i u x hget hacc with h1 | h1
    · exact h1
    · rw [hdd] at h1; injection h1 with h1; exact absurd h1.symm hud
  obtain ⟨k, hk⟩ := List.getElem?_of_mem huj
  have hkl := HB.lq_lt hk
  -- position of `join u`
  have hjoin : (hbTrace js cb ns nt es)[(hbTrace js cb ns nt (es.take p)).length + (1 + k)]? = some (d, .join u) := by
    rw [htr]
    apply get_mid_at
    simp only [dtorHead, evs]
    rw [Nat.add_comm 1 k, List.getElem?_cons_succ, List.getElem?_map, List.getElem?_map, hk]; rfl
  have hfirst : (hbTrace js cb ns nt es)[(hbTrace js cb ns nt (es.take p)).length + (1 + js.length)]? =
      some (d, .rd 0) := by
    have := get_after_mid (hbTrace js cb ns nt (es.take p)) (dtorHead js d) (d, HB.Ev.rd 0) rest
    rw [dtorHead_length] at this
    rw [htr]; exact this
  exact .trans (.sw (.join (by omega) hget hjoin)) (.po (by omega) hjoin hfirst)

/-- membership form of `dtorOrdered_joined` (decidable on concrete traces) -/
theorem dtorOrdered_joined' {js : List Tid} {cb : Bool} {ns nt : Nat} {es : List (Tid × Ev)} {s : St}
    (h : run cb ns nt es = some s)
    (hj : ∀ p ∈ hbTrace js cb ns nt es, p.2.accesses 0 → p.1 ∈ js ∨ (p.1, Ev.callDtor) ∈ es) :
    DtorOrdered js cb ns nt es := by
  apply dtorOrdered_joined h
  intro i u x hi ha
  rcases hj (u, x) (List.mem_of_getElem? hi) ha with h1 | h1
  · exact .inl h1
  · obtain ⟨q, hq⟩ := List.getElem?_of_mem h1
    exact .inr (dead_of_callDtor h hq)

end ConcVerif.DD
