import ConcVerif.Proof.RcuD
/-! The combined inductive invariant of the rcu_list model (layers A–D) holds in every reachable state. -/
namespace ConcVerif.Rcu

theorem inv_init : Inv init := ⟨invA_init, invB_init, invC_init, invD_init⟩

theorem inv_Step {s s' : St} {t : Tid} {e : Ev} (hi : Inv s) (hs : Step s t e s') : Inv s' :=
  ⟨invA_step hi.a hs, invB_step hi.a hi.b hs, invC_step hi.a hi.c hs, invD_step hi hs⟩

theorem inv_step {s s' : St} {t : Tid} {e : Ev} (hi : Inv s) (hs : step s t e = some s') : Inv s' :=
  inv_Step hi (step_sound hs)

theorem inv_reachable {s : St} (h : Reachable s) : Inv s := by
  obtain ⟨es, hes⟩ := h
  exact runFrom_inv (Inv := Inv) (fun s t e s' hi hs => inv_step hi hs) inv_init hes

end ConcVerif.Rcu
