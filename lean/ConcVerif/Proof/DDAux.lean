import ConcVerif.Proof.DDInv
/-! Inversion lemmas for single events of the DelayedDestructor model, used by the property files. -/
namespace ConcVerif.DD

/-- what a destructor start (`pdt k`) needs and does -/
theorem pdt_inv {s s' : St} {t : Tid} {k : ObjId} (h : step s t (.pdt k) = some s') :
    ∃ rest, s.stk t = .dying k :: rest ∧ k ∈ s.pend ∧ s'.destroyed = k :: s.destroyed ∧
      s'.stk t = .inDt k :: rest := by
  cases hfs : s.stk t with
  | nil => simp [step, hfs, stepUser] at h
  | cons f rest =>
    cases f <;> simp [step, hfs, stepUser] at h
    obtain ⟨⟨rfl, hk⟩, rfl⟩ := h
    exact ⟨rest, rfl, hk, rfl, by simp⟩

theorem count_one_of_nodup {l : List ObjId} (hn : l.Nodup) {k : ObjId} (hk : k ∈ l) : l.count k = 1 := by
  induction l with
  | nil => cases hk
  | cons a l ih =>
    have ⟨ha, hl⟩ := List.nodup_cons.mp hn
    by_cases hak : a = k
    · subst hak
      rw [List.count_cons_self, List.count_eq_zero.mpr ha]
    · have : k ∈ l := by
        cases hk with
        | head => exact absurd rfl hak
        | tail _ h => exact h
      rw [List.count_cons_of_ne hak, ih hl this]


/-- payload-destructor and callback events -/
def isCbDt : Ev → Bool
  | .pdt _ | .pde _ | .ucb _ | .uce _ | .uth _ => true
  | _ => false

theorem cbdt_top {s s' : St} {t : Tid} {e : Ev} (h : step s t e = some s') (he : isCbDt e = true) :
    holds (s.stk t) = false := by
  cases hfs : s.stk t with
  | nil => rfl
  | cons f rest =>
    cases e <;> simp [isCbDt] at he <;> cases f <;> simp [step, hfs, stepUser, holds, holdsF] at h ⊢

theorem holder_mul {s : St} {u : Tid} (hl : s.lock = some u) (hh : holds (s.stk u) = true) :
    (step s u .mul).isSome = true := by
  cases hfs : s.stk u with
  | nil => simp [hfs, holds] at hh
  | cons f rest =>
    cases f <;> simp [hfs, holds, holdsF] at hh <;> simp [step, hfs, hl]
    split <;> rfl


theorem reachable_hasCb {cb ns nt} {s : St} (h : Reachable cb ns nt s) : s.hasCb = cb := by
  obtain ⟨es, hr⟩ := h
  exact runFrom_inv (Inv := fun s => s.hasCb = cb) (fun _ _ _ _ hi hs => (step_hasCb hs).trans hi) rfl hr

theorem suffix_mem {α : Type} {l1 l2 : List α} (h : l1 <:+ l2) {a : α} (ha : a ∈ l1) : a ∈ l2 := by
  obtain ⟨p, rfl⟩ := h
  exact List.mem_append_right _ ha


theorem dDone_user (s : St) (t r) {rest : List Frame} (hu : userLevel rest = true) :
    dDone s t r rest = s.setStk t (.dRet r :: rest) := by
  cases rest with
  | nil => rfl
  | cons f fs => cases f <;> simp [userLevel] at hu <;> rfl


theorem drain_suffix (s : St) (t sz cbs thrown) {rest : List Frame} (hu : userLevel rest = true) (ec : List ObjId) :
    rest <:+ (drain s t sz cbs thrown rest ec).stk t := by
  induction ec generalizing s with
  | nil =>
    simp only [drain]; split
    · rw [dDone_user _ _ _ hu]; simp
    · simp
  | cons k ec ih =>
    simp only [drain]; split
    · simp only [setStk_stk_same]
      exact List.IsSuffix.trans (List.suffix_cons _ _) (List.suffix_cons _ _)
    · exact ih _


theorem drain_vec_user (s : St) (t sz cbs thrown) {rest : List Frame} (hu : userLevel rest = true) (ec : List ObjId) :
    (drain s t sz cbs thrown rest ec).vec = s.vec := by
  induction ec generalizing s with
  | nil => simp only [drain]; split; rw [dDone_user _ _ _ hu]; rfl; rfl
  | cons a l ih =>
    simp only [drain]; split
    · rfl
    · exact ih _

end ConcVerif.DD
