import ConcVerif.Proof.HBRcuNode
/-! rcu_list and happens-before, part 4: the links (`m_head`, `next`) publish the nodes they point to (`FV`). -/
namespace ConcVerif.Rcu
open HB (HBeq Kn)

theorem PubBy.snoc {w : Ords} {sel : Bool} {es : List (Tid × Ev)} {f : Fld} {n : Nat} {t : Tid} {e : Ev}
    (h : PubBy w sel es f n) (he : ∀ o v, e ≠ .ast f o v) (hn : e.initN ≠ some n) : PubBy w sel (es ++ [(t, e)]) f n := by
  intro i u e' hi hi'
  rcases HB.lq_snoc hi with ⟨_, hi''⟩ | ⟨_, hp⟩
  · obtain ⟨q, x, o, v, h1, h2, h3⟩ := h i u e' hi'' hi'
    exact ⟨q, x, o, v, HB.lq_mono _ h1, h2.snoc he, by rw [hbTrace_append]; exact h3.mono _⟩
  · injection hp with _ h2; subst h2; exact absurd hi' hn

/-- a store by the holder of the write mutex publishes every node initialised so far -/
theorem PubBy.store {w : Ords} {sel : Bool} {es : List (Tid × Ev)} {t : Tid} (f : Fld) (o : Ord) (v : Option Nat) (n : Nat)
    (h : NP w sel es (some t)) : PubBy w sel (es ++ [(t, .ast f o v)]) f n := by
  intro i u e' hi hi'
  rcases HB.lq_snoc hi with ⟨_, hi''⟩ | ⟨_, hp⟩
  · refine ⟨es.length, t, o, v, HB.lq_last _ _, LatestSt.last _ _ _, ?_⟩
    have hk : Kn (hbTrace w sel es) t i := h i u e' n hi'' hi'
    rw [hbTrace_snoc]
    have := hk.hbeq_of_own (e := toHB w sel (.ast f o v))
    simpa using this
  · injection hp with _ h2; subst h2; simp [Ev.initN] at hi'

/-- a store to a link by the holder of the write mutex: the entry of the stored link is re-established,
every other entry is inherited -/
theorem FV_store {w : Ords} {sel : Bool} {es : List (Tid × Ev)} {s s' : St} {t : Tid} {f : Fld} {o : Ord} {v : Option Nat}
    (h : FV w sel es s) (hNP : NP w sel es (some t))
    (hh : ∀ n, s'.head = some n → f = .head ∨ s.head = some n)
    (hn : ∀ m n, Trk s' m → (s'.nodes m).next = some n → f = .nnext m ∨ (Trk s m ∧ (s.nodes m).next = some n)) :
    FV w sel (es ++ [(t, .ast f o v)]) s' := by
  refine ⟨?_, ?_⟩
  · intro n hn'
    by_cases hf : f = .head
    · subst hf; exact PubBy.store _ o v n hNP
    · rcases hh n hn' with h1 | h1
      · exact absurd h1 hf
      · exact (h.1 n h1).snoc (by intro o' v' hc; injection hc with hc; exact hf hc) (by simp [Ev.initN])
  · intro m n hm hn'
    by_cases hf : f = .nnext m
    · subst hf; exact PubBy.store _ o v n hNP
    · rcases hn m n hm hn' with h1 | ⟨h1, h2⟩
      · exact absurd h1 hf
      · exact (h.2 m n h1 h2).snoc (by intro o' v' hc; injection hc with hc; exact hf hc) (by simp [Ev.initN])

/-- an event that is not a store: every entry is inherited; a node that is being initialised is not yet pointed to -/
theorem FV_snoc {w : Ords} {sel : Bool} {es : List (Tid × Ev)} {s s' : St} {t : Tid} {e : Ev}
    (h : FV w sel es s) (he : ∀ f o v, e ≠ .ast f o v)
    (hi : ∀ n, e.initN = some n → s.head ≠ some n ∧ ∀ m, Trk s m → (s.nodes m).next ≠ some n)
    (hh : ∀ n, s'.head = some n → s.head = some n)
    (hn : ∀ m n, Trk s' m → (s'.nodes m).next = some n → Trk s m ∧ (s.nodes m).next = some n) :
    FV w sel (es ++ [(t, e)]) s' := by
  refine ⟨?_, ?_⟩
  · intro n hn'
    have h1 := hh n hn'
    exact (h.1 n h1).snoc (he _) (fun hc => (hi n hc).1 h1)
  · intro m n hm hn'
    obtain ⟨h1, h2⟩ := hn m n hm hn'
    exact (h.2 m n h1 h2).snoc (he _) (fun hc => (hi n hc).2 m h1 h2)

theorem pendN_reap (r : Nat) (n : Option Nat) : pendN (reapPc r n) = none := by cases n <;> rfl

/-- the pending front node of the other threads, and of the acting thread when the event is not a store -/
theorem pend_frame {s s' : St} {t : Tid} {e : Ev} (hS : Step s t e s') (h1 : ∀ f o v, e ≠ .ast f o v)
    (hnd : inDtor (s.pc t) = false) (u : Tid) : pendN (s'.pc u) = pendN (s.pc u) := by
  by_cases hu : u = t
  · subst hu
    cases hS <;> first | rfl | (exfalso; simp at h1; done) | (simp [reapAt_pc, pendN, *]; done) | no_dtor | (rw [reapAt_pc, upd_same, pendN_reap]; simp [pendN, *]; done)
  · rw [pc_frame hS hnd hu]

theorem Trk_frame {s s' : St} {t : Tid} {e : Ev} (hS : Step s t e s') (h1 : ∀ f o v, e ≠ .ast f o v)
    (hnd : inDtor (s.pc t) = false) {m : Nat} (h : Trk s' m) : Trk s m := by
  rcases h with h | ⟨u, h⟩
  · left; rw [order_frame hS h1 hnd] at h; exact h
  · right; exact ⟨u, by rw [pend_frame hS h1 hnd u] at h; exact h⟩

/-- whatever is pointed to by `m_head` or by the `next` of a tracked node has been linked -/
theorem pointed_order {s : St} (hi : Inv s) (hdt : s.dt = false) :
    (∀ n, s.head = some n → n ∈ s.order) ∧ ∀ m n, Trk s m → (s.nodes m).next = some n → n ∈ s.order := by
  refine ⟨?_, ?_⟩
  · intro n hn
    have := hi.c.hd hdt
    simp only [cview_head, cview_lst] at this
    rw [hn] at this
    exact hi.c.sub n (mem_of_head? this.symm)
  · intro m n hm hn
    rcases hm with hm | ⟨u, hu⟩
    · exact hi.c.val m hm n hn
    · have hw := hi.c.wr u
      simp only [cview_vpc] at hw
      cases hp : s.pc u with
      | pF2 k a h =>
        rw [hp] at hu hw; simp only [pendN] at hu; injection hu with hu; subst hu
        simp only [CView, WriterP, FreshN, cview_nodes, cview_lst] at hw
        rw [hw.1.2.2.1] at hn; injection hn with hn; subst hn
        exact hi.c.sub _ (mem_of_head? hw.2)
      | pF3 k a =>
        rw [hp] at hu hw; simp only [pendN] at hu; injection hu with hu; subst hu
        simp only [CView, WriterP, FreshN, cview_nodes, cview_lst] at hw
        obtain ⟨h, hf, hl, _⟩ := hw
        rw [hf.2.2.1] at hn; injection hn with hn; subst hn
        exact hi.c.sub _ (mem_of_head? hl)
      | _ => rw [hp] at hu; simp [pendN] at hu

end ConcVerif.Rcu
