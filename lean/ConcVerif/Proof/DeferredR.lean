import ConcVerif.Proof.DeferredN
/-! The wrapped object of `deferred_guarded` as a register: a conservative ghost extension of the
model by the log of completed applications.  `stepL` runs the very `step` of the model and appends
`(k, value of the object)` whenever the thread leaves the function of task `k` (`uce k r` / `uth k`);
it accepts exactly the traces `step` accepts (`runL_fst`, `runL_of_run`). -/
namespace ConcVerif.Deferred

abbrev VLog := List (TaskId × Int)

/-- the value after the last completed application (0 = the initial value) -/
def lastVal (l : VLog) : Int :=
  match l.reverse with
  | [] => 0
  | p :: _ => p.2

@[simp] theorem lastVal_snoc (l : VLog) (k : TaskId) (v : Int) : lastVal (l ++ [(k, v)]) = v := by
  simp [lastVal]

def logStep (s : St) (t : Tid) (s' : St) (l : VLog) : VLog :=
  match (s.pc t).running, (s'.pc t).running with
  | some k, none => l ++ [(k, s.val)]
  | _, _ => l

def stepL (sl : St × VLog) (t : Tid) (e : Ev) : Option (St × VLog) :=
  (step sl.1 t e).map (fun s' => (s', logStep sl.1 t s' sl.2))

def runL (spur : Bool) (es : List (Tid × Ev)) : Option (St × VLog) := runFrom stepL (init spur, []) es

theorem runFromL_fst {sl sl' : St × VLog} {es : List (Tid × Ev)} (h : runFrom stepL sl es = some sl') :
    runFrom step sl.1 es = some sl'.1 := by
  induction es generalizing sl with
  | nil => simp at h; subst h; rfl
  | cons x xs ih =>
    obtain ⟨t, e⟩ := x
    rw [runFrom_cons] at h ⊢
    cases hs : step sl.1 t e with
    | none => simp [stepL, hs] at h
    | some s1 =>
      simp only [stepL, hs, Option.map_some, Option.bind_some] at h ⊢
      exact ih h

theorem runFromL_of {s s' : St} {l : VLog} {es : List (Tid × Ev)} (h : runFrom step s es = some s') :
    ∃ l', runFrom stepL (s, l) es = some (s', l') := by
  induction es generalizing s l with
  | nil => simp at h; subst h; exact ⟨l, rfl⟩
  | cons x xs ih =>
    obtain ⟨t, e⟩ := x
    rw [runFrom_cons] at h
    cases hs : step s t e with
    | none => simp [hs] at h
    | some s1 =>
      simp only [hs, Option.bind_some] at h
      obtain ⟨l', hl'⟩ := ih (l := logStep s t s1 l) h
      exact ⟨l', by rw [runFrom_cons]; simp [stepL, hs, hl']⟩

theorem runL_fst {spur : Bool} {es : List (Tid × Ev)} {s : St} {l : VLog} (h : runL spur es = some (s, l)) :
    run spur es = some s := runFromL_fst h

theorem runL_of_run {spur : Bool} {es : List (Tid × Ev)} {s : St} (h : run spur es = some s) :
    ∃ l, runL spur es = some (s, l) := runFromL_of h

/-- the log lists the completed applications in order; the running one (if any) is the last of `applied` -/
structure InvR (s : St) (l : VLog) : Prop where
  a1 : ∀ u k, (s.pc u).running = some k → s.applied = l.map Prod.fst ++ [k]
  a2 : (∀ u, (s.pc u).running = none) → s.applied = l.map Prod.fst ∧ s.val = lastVal l

theorem invR_init (spur : Bool) : InvR (init spur) [] := by
  constructor <;> simp [init, Pc.running, lastVal]

theorem logStep_same {s s' : St} {t : Tid} {l : VLog} (h : (s'.pc t).running = (s.pc t).running) :
    logStep s t s' l = l := by
  unfold logStep; rw [h]; cases (s.pc t).running <;> rfl

/-- `t` moves without entering or leaving a function; `applied` and the value unchanged -/
theorem invR_keep {s s' : St} {t : Tid} {p' : Pc} {l : VLog} (h : InvR s l) (hpc : s'.pc = upd s.pc t p')
    (hr : p'.running = (s.pc t).running) (ha : s'.applied = s.applied) (hv : s'.val = s.val) :
    InvR s' (logStep s t s' l) := by
  have hall : ∀ u, (s'.pc u).running = (s.pc u).running := by
    intro u; rw [hpc]; exact upd_class Pc.running s.pc t p' hr u
  rw [logStep_same (hall t)]
  refine ⟨?_, ?_⟩
  · intro u k hk; rw [hall] at hk; rw [ha]; exact h.a1 u k hk
  · intro hn; rw [ha, hv]; exact h.a2 (fun u => by rw [← hall]; exact hn u)

theorem invR_begin {s s' : St} {t : Tid} {p' : Pc} {l : VLog} {j : TaskId} (hL : InvL s) (h : InvR s l)
    (hpc : s'.pc = upd s.pc t p') (hX : (s.pc t).holdsX = true) (h0 : (s.pc t).running = none)
    (hj : p'.running = some j) (ha : s'.applied = s.applied ++ [j]) : InvR s' (logStep s t s' l) := by
  have hl : logStep s t s' l = l := by unfold logStep; rw [h0]
  have hnone : ∀ u, (s.pc u).running = none := by
    intro u
    cases hr : (s.pc u).running with
    | none => rfl
    | some k =>
      have := hL.holder_eq hX (Pc.running_holdsX hr); subst this; rw [h0] at hr; cases hr
  rw [hl]
  refine ⟨?_, ?_⟩
  · intro u k hk
    rw [hpc] at hk
    by_cases hu : u = t
    · subst hu; simp only [upd_same] at hk; rw [hj] at hk; injection hk with hk; subst hk
      rw [ha, (h.a2 hnone).1]
    · simp only [upd_other _ _ _ _ hu] at hk; rw [hnone u] at hk; cases hk
  · intro hn; have := hn t; rw [hpc] at this; simp [hj] at this

theorem invR_end {s s' : St} {t : Tid} {p' : Pc} {l : VLog} {j : TaskId} (hL : InvL s) (h : InvR s l)
    (hpc : s'.pc = upd s.pc t p') (hj : (s.pc t).running = some j) (h0 : p'.running = none)
    (ha : s'.applied = s.applied) (hv : s'.val = s.val) : InvR s' (logStep s t s' l) := by
  have hl : logStep s t s' l = l ++ [(j, s.val)] := by
    unfold logStep; rw [hj, hpc]; simp [h0]
  have hothers : ∀ u k, u ≠ t → (s.pc u).running = some k → False := fun u k hu hk =>
    hu (hL.holder_eq (Pc.running_holdsX hj) (Pc.running_holdsX hk))
  rw [hl]
  refine ⟨?_, ?_⟩
  · intro u k hk
    rw [hpc] at hk
    by_cases hu : u = t
    · subst hu; simp [h0] at hk
    · simp only [upd_other _ _ _ _ hu] at hk; exact (hothers u k hu hk).elim
  · intro _; rw [ha, hv, h.a1 t j hj]; simp

theorem invR_step {s s' : St} {t : Tid} {l : VLog} (hL : InvL s) (h : InvR s l) (hs : Step s t s') :
    InvR s' (logStep s t s' l) := by
  cases hs with
  | stutter => rw [logStep_same rfl]; exact h
  | wr v hr hrun =>
    obtain ⟨k, hk⟩ := hrun
    rw [logStep_same (s := s) (s' := { s with val := v }) (t := t) (l := l) rfl]
    exact ⟨h.a1, fun hn => by have := hn t; rw [hk] at this; cases this⟩
  | move p p' hp hc => subst hp; exact invR_keep h rfl hc.running rfl rfl
  | skipDrain c hp hf => exact invR_keep h rfl (by cls) rfl rfl
  | skipShared c hp hf => exact invR_keep h rfl (by cls) rfl rfl
  | failTry p p' hp hpp hfail =>
    subst hp
    rcases hpp with ⟨k, a, h1, h2⟩ | ⟨c, h1, h2⟩ <;> subst h2 <;> exact invR_keep h rfl (by cls) rfl rfl
  | call k a hp hsub => exact invR_keep h rfl (by cls) rfl rfl
  | lockX p p' hp hpp hm hs =>
    subst hp
    rcases hpp with ⟨k, a, h1, h2⟩ | ⟨c, h1, h2⟩ <;> subst h2 <;> exact invR_keep h rfl (by cls) rfl rfl
  | unlockXm k a thr hp hm => exact invR_keep h rfl (by cls) rfl rfl
  | unlockXs c hp hb hm => exact invR_keep h rfl (by cls) rfl rfl
  | lockS c p' hp hp' hm =>
    rcases hp' with h2 | h2 <;> subst h2 <;> exact invR_keep h rfl (by cls) rfl rfl
  | unlockS p p' hp hpp hin =>
    subst hp
    rcases hpp with ⟨h1, h2⟩ | ⟨thr, h1, h2⟩ <;> subst h2 <;> exact invR_keep h rfl (by cls) rfl rfl
  | lockQ p p' hp hpp hq =>
    subst hp
    rcases hpp with ⟨k, a, h1, h2⟩ | ⟨c, h1, h2⟩ <;> subst h2 <;> exact invR_keep h rfl (by cls) rfl rfl
  | push k a hp hq => exact invR_keep h rfl (by cls) rfl rfl
  | raise k a hp => exact invR_keep h rfl (by cls) rfl rfl
  | clear c hp => exact invR_keep h rfl (by cls) rfl rfl
  | swap c hp hq hb => exact invR_keep h rfl (by cls) rfl rfl
  | applyHead c j rest hp hb =>
    exact invR_begin (j := j) hL h rfl (by simp [hp, Pc.holdsX]) (by simp [hp, Pc.running]) (by simp [Pc.running]) rfl
  | applyOwn k a hp hb =>
    exact invR_begin (j := k) hL h rfl (by simp [hp, Pc.holdsX]) (by simp [hp, Pc.running]) (by simp [Pc.running]) rfl
  | endHead c j o hp => exact invR_end (j := j) hL h rfl (by simp [hp, Pc.running]) (by simp [Pc.running]) rfl rfl
  | endOwn k a thr o hp => exact invR_end (j := k) hL h rfl (by simp [hp, Pc.running]) (by simp [Pc.running]) rfl rfl
  | done k a thr hp => exact invR_keep h rfl (by cls) rfl rfl

theorem invR_runL {spur : Bool} {es : List (Tid × Ev)} {s : St} {l : VLog} (h : runL spur es = some (s, l)) :
    InvR s l ∧ Reachable spur s := by
  have key : ∀ (es : List (Tid × Ev)) (sl sl' : St × VLog), Reachable spur sl.1 → InvR sl.1 sl.2 →
      runFrom stepL sl es = some sl' → InvR sl'.1 sl'.2 ∧ Reachable spur sl'.1 := by
    intro es
    induction es with
    | nil => intro sl sl' hr hi h; simp at h; subst h; exact ⟨hi, hr⟩
    | cons x xs ih =>
      intro sl sl' hr hi h
      obtain ⟨t, e⟩ := x
      rw [runFrom_cons] at h
      cases hs : step sl.1 t e with
      | none => simp [stepL, hs] at h
      | some s1 =>
        simp only [stepL, hs, Option.map_some, Option.bind_some] at h
        exact ih _ sl' (hr.step hs) (invR_step (inv_reachable hr).L hi (step_sound hs)) h
  exact key es (init spur, []) (s, l) ⟨[], rfl⟩ (invR_init spur) h

/-- log and `applied` only grow, along any run -/
theorem runFromL_mono {sl sl' : St × VLog} {es : List (Tid × Ev)} (h : runFrom stepL sl es = some sl') :
    sl.2 <+: sl'.2 ∧ sl.1.applied <+: sl'.1.applied := by
  refine runFrom_rel (step := stepL) (R := fun (x y : St × VLog) => x.2 <+: y.2 ∧ x.1.applied <+: y.1.applied)
    (fun _ => ⟨List.prefix_refl _, List.prefix_refl _⟩)
    (fun _ _ _ h1 h2 => ⟨h1.1.trans h2.1, h1.2.trans h2.2⟩) ?_ h
  intro x t e y hxy
  cases hs : step x.1 t e with
  | none => simp [stepL, hs] at hxy
  | some s1 =>
    simp only [stepL, hs, Option.map_some, Option.some.injEq] at hxy
    subst hxy
    refine ⟨?_, ?_⟩
    · show x.2 <+: logStep x.1 t s1 x.2
      unfold logStep; split
      · exact List.prefix_append _ _
      · exact List.prefix_refl _
    · obtain ⟨l, hl⟩ := (step_sound hs).applied_mono
      show x.1.applied <+: s1.applied
      rw [hl]; exact List.prefix_append _ _

/-- a step of `u` leaves the pc of every other thread alone -/
theorem Step.pc_other {s s' : St} {u t : Tid} (hs : Step s u s') (h : t ≠ u) : s'.pc t = s.pc t := by
  cases hs <;> simp [St.setPc, h]

end ConcVerif.Deferred
