import ConcVerif.Proof.LRVal
/-! Inductive invariant of the left-right model, part 3: the reader ghosts.  `snap t` is `committed` at the moment
thread `t` last called `lock_shared`; `lastSeen t` is the value `t` last read.  `RInv`: both are prefixes of
`committed`, and of the value of the side `t` holds. -/
namespace ConcVerif.LR

structure RInv (s : St) : Prop where
  snapLe : ∀ t, s.snap t <+: s.committed
  seenLe : ∀ t, s.lastSeen t <+: s.committed
  hold : ∀ t x, (s.pc t).held = some x → s.snap t <+: s.val x ∧ s.lastSeen t <+: s.val x

theorem rinv_init (b : Bool) : RInv (init b) := by
  constructor <;> simp [init, Pc.held]

theorem upd_self {α : Type} (f : Tid → α) (t : Tid) : upd f t (f t) = f := by
  funext u; by_cases hu : u = t
  · subst hu; simp
  · simp [hu]

/-- step that does not touch the reader ghosts; `committed` may grow; sides that are held keep their value -/
theorem rinv_frame {s s' : St} {t : Tid} (h : RInv s)
    (hoth : ∀ u, u ≠ t → s'.pc u = s.pc u)
    (ht : ∀ x, (s'.pc t).held = some x → (s.pc t).held = some x)
    (hsn : s'.snap = s.snap) (hls : s'.lastSeen = s.lastSeen)
    (hc : s.committed <+: s'.committed)
    (hv : ∀ x u, (s.pc u).held = some x → s'.val x = s.val x) : RInv s' := by
  have hheld : ∀ u x, (s'.pc u).held = some x → (s.pc u).held = some x := by
    intro u x hx
    by_cases hu : u = t
    · subst hu; exact ht x hx
    · rw [hoth u hu] at hx; exact hx
  constructor
  · intro u; rw [hsn]; exact (h.snapLe u).trans hc
  · intro u; rw [hls]; exact (h.seenLe u).trans hc
  · intro u x hx
    have hx' := hheld u x hx
    rw [hsn, hls, hv x u hx']
    exact h.hold u x hx'

/-- step of a reader `t` that sets its own ghosts to `a`, `b` -/
theorem rinv_thread {s s' : St} {t : Tid} {a b : List OpId} (h : RInv s)
    (hoth : ∀ u, u ≠ t → s'.pc u = s.pc u)
    (hsn : s'.snap = upd s.snap t a) (hls : s'.lastSeen = upd s.lastSeen t b)
    (hc : s'.committed = s.committed) (hv : ∀ x, s'.val x = s.val x)
    (ha : a <+: s.committed) (hb : b <+: s.committed)
    (hx : ∀ x, (s'.pc t).held = some x → a <+: s.val x ∧ b <+: s.val x) : RInv s' := by
  constructor
  · intro u; rw [hsn, hc]
    by_cases hu : u = t
    · subst hu; simpa using ha
    · simp [hu]; exact h.snapLe u
  · intro u; rw [hls, hc]
    by_cases hu : u = t
    · subst hu; simpa using hb
    · simp [hu]; exact h.seenLe u
  · intro u x hux
    rw [hsn, hls, hv]
    by_cases hu : u = t
    · subst hu; simpa using hx x hux
    · rw [hoth u hu] at hux; simp [hu]; exact h.hold u x hux

/-- step that leaves ghosts, values and `committed` alone -/
macro "r_fr" h:ident hpc:ident t:ident : tactic =>
  `(tactic| exact rinv_frame (t := $t) $h (by intro u hu; simp [hu]) (by simp [$hpc:ident, Pc.held]) (by simp) (by simp)
      (by simp) (by intro x u _; cases x <;> simp [St.val]))

theorem rinv_step {s s' : St} {t : Tid} {e : Ev} (hi : Inv s) (hv : VInv s) (h : RInv s)
    (hs : step s t e = some s') : RInv s' := by
  unfold step at hs
  split at hs
  -- 1 idle, call ls
  · rename_i k hpc; injection hs with hs; subst hs
    exact rinv_thread (t := t) (a := s.committed) (b := s.lastSeen t) h (by intro u hu; simp [hu]) (by simp)
      (by simp [upd_self]) (by simp) (by intro x; cases x <;> simp [St.val]) (List.prefix_refl _) (h.seenLe t)
      (by simp [Pc.held])
  -- 2 rdCalled, ldCL
  · rename_i v hpc; split at hs
    · injection hs with hs; subst hs; r_fr h hpc t
    · simp at hs
  -- 3 rdCL c, inc
  · rename_i c c' old hpc; split at hs
    · injection hs with hs; subst hs; r_fr h hpc t
    · simp at hs
  -- 4 rdInc c, ldRL v
  · rename_i c v hpc; split at hs
    · rename_i hv'; subst hv'; injection hs with hs; subst hs
      refine rinv_thread (t := t) (a := s.snap t) (b := s.lastSeen t) h (by intro u hu; simp [hu]) (by simp [upd_self])
        (by simp [upd_self]) (by simp) (by intro x; cases x <;> simp [St.val]) (h.snapLe t) (h.seenLe t) ?_
      intro x hx
      simp [Pc.held] at hx; subst hx
      rw [val_rl hi hv]; exact ⟨h.snapLe t, h.seenLe t⟩
    · simp at hs
  -- 5 rdGot, ret
  · rename_i c x k hpc; injection hs with hs; subst hs; r_fr h hpc t
  -- 6 rdHold, rd
  · rename_i c x x' v hpc; split at hs
    · rename_i hg; obtain ⟨rfl, rfl⟩ := hg
      injection hs with hs; subst hs
      have hx : (s.pc t).held = some x' := by simp [hpc, Pc.held]
      refine rinv_thread (t := t) (a := s.snap t) (b := s.val x') h (by intro u hu; simp [hu]) (by simp [upd_self])
        (by simp) (by simp) (by intro x; cases x <;> simp [St.val]) (h.snapLe t) (held_val_le hi hv hx) ?_
      intro y hy
      simp [Pc.held] at hy; subst hy
      exact ⟨(h.hold t _ hx).1, List.prefix_refl _⟩
    · simp at hs
  -- 7 rdHold, call rel
  · rename_i c x hpc; injection hs with hs; subst hs; r_fr h hpc t
  -- 8 rdRel, dec
  · rename_i c x c' old hpc; split at hs
    · injection hs with hs; subst hs; r_fr h hpc t
    · simp at hs
  -- 9 rdRelD, ret rel
  · rename_i hpc; injection hs with hs; subst hs; r_fr h hpc t
  -- 10 idle, call modify
  · rename_i op hpc; injection hs with hs; subst hs; r_fr h hpc t
  -- 11 wCalled, lock
  · rename_i op hpc; split at hs
    · injection hs with hs; subst hs; r_fr h hpc t
    · simp at hs
  -- 12 wA, fBegin
  · rename_i op l x hpc; split at hs
    · injection hs with hs; subst hs; r_fr h hpc t
    · simp at hs
  -- 13 wA, uth
  · rename_i op l hpc; injection hs with hs; subst hs; r_fr h hpc t
  -- 14 wF1, fEnd
  · rename_i op l x v hpc; split at hs
    · rename_i hg; obtain ⟨rfl, rfl⟩ := hg
      injection hs with hs; subst hs
      have ph := hi.phase t (by simp [hpc, Pc.post]); rw [hpc] at ph
      refine rinv_frame (t := t) h (by intro u hu; simp [hu]) (by simp [hpc, Pc.held]) (by simp) (by simp) (by simp) ?_
      intro y u hy
      have := ph.2 u y hy; subst this; simp
    · simp at hs
  -- 15 wF1, uth
  · rename_i op l hpc; injection hs with hs; subst hs; r_fr h hpc t
  -- 16 wF1d, uth
  · rename_i op l hpc; injection hs with hs; subst hs; r_fr h hpc t
  -- 17 wF1d, stRL
  · rename_i op l v hpc; split at hs
    · injection hs with hs; subst hs
      exact rinv_frame (t := t) h (by intro u hu; simp [hu]) (by simp [hpc, Pc.held]) (by simp) (by simp)
        (by simp) (by intro x u _; cases x <;> simp [St.val])
    · simp at hs
  -- 18 wRb, cpBegin
  · rename_i op l x hpc; split at hs
    · injection hs with hs; subst hs; r_fr h hpc t
    · simp at hs
  -- 19 wRbC, cpEnd
  · rename_i op l x v hpc; split at hs
    · rename_i hg; obtain ⟨rfl, rfl⟩ := hg
      injection hs with hs; subst hs
      have ph := hi.phase t (by simp [hpc, Pc.post]); rw [hpc] at ph
      refine rinv_frame (t := t) h (by intro u hu; simp [hu]) (by simp [hpc, Pc.held]) (by simp) (by simp) (by simp) ?_
      intro y u hy
      have := ph.2 u y hy; subst this; simp
    · simp at hs
  -- 20 wRbD, unlock
  · rename_i op l hpc; split at hs
    · injection hs with hs; subst hs; r_fr h hpc t
    · simp at hs
  -- 21 wWait, ldCnt
  · rename_i op l zL zR c v hpc; split at hs
    · split at hs
      · injection hs with hs; subst hs
        exact rinv_frame (t := t) h (by intro u hu; simp [hu]) (by cases c <;> simp [waitSeen, Pc.held]) (by simp)
          (by simp) (by simp) (by intro x u _; cases x <;> simp [St.val])
      · split at hs
        · simp at hs
        · injection hs with hs; subst hs; exact h
    · simp at hs
  -- 22 wWait, yld
  · injection hs with hs; subst hs; exact h
  -- 23 wWait, stCL
  · injection hs with hs; subst hs; exact ⟨h.snapLe, h.seenLe, h.hold⟩
  -- 24 wWait, fBegin
  · rename_i op l zL zR x hpc; split at hs
    · injection hs with hs; subst hs; r_fr h hpc t
    · simp at hs
  -- 25 wWait, uth
  · rename_i op l zL zR hpc; split at hs
    · injection hs with hs; subst hs; r_fr h hpc t
    · simp at hs
  -- 26 wF2, fEnd
  · rename_i op l x v hpc; split at hs
    · rename_i hg; obtain ⟨rfl, rfl⟩ := hg
      injection hs with hs; subst hs
      have ph := hi.phase t (by simp [hpc, Pc.post]); rw [hpc] at ph
      refine rinv_frame (t := t) h (by intro u hu; simp [hu]) (by simp [hpc, Pc.held]) (by simp) (by simp) (by simp) ?_
      intro y u hy
      have := ph.2 u y hy; subst this; simp
    · simp at hs
  -- 27 wF2, uth
  · rename_i op l hpc; injection hs with hs; subst hs; r_fr h hpc t
  -- 28 wF2d, uth
  · rename_i op l hpc; injection hs with hs; subst hs; r_fr h hpc t
  -- 29 wF2d, unlock
  · rename_i op l hpc; split at hs
    · injection hs with hs; subst hs; r_fr h hpc t
    · simp at hs
  -- 30 wRf, cpBegin
  · rename_i op l x hpc; split at hs
    · injection hs with hs; subst hs; r_fr h hpc t
    · simp at hs
  -- 31 wRfC, cpEnd
  · rename_i op l x v hpc; split at hs
    · rename_i hg; obtain ⟨rfl, rfl⟩ := hg
      injection hs with hs; subst hs
      have ph := hi.phase t (by simp [hpc, Pc.post]); rw [hpc] at ph
      refine rinv_frame (t := t) h (by intro u hu; simp [hu]) (by simp [hpc, Pc.held]) (by simp) (by simp) (by simp) ?_
      intro y u hy
      have := ph.2 u y hy; subst this; simp
    · simp at hs
  -- 32 wRfD, unlock
  · rename_i op l hpc; split at hs
    · injection hs with hs; subst hs; r_fr h hpc t
    · simp at hs
  -- 33 wRet, ret
  · rename_i op op' hpc; split at hs
    · injection hs with hs; subst hs; r_fr h hpc t
    · simp at hs
  -- 34 wExc, exc
  · rename_i op fwd op' hpc; split at hs
    · injection hs with hs; subst hs; r_fr h hpc t
    · simp at hs
  -- 35 idle, fin
  · split at hs
    · injection hs with hs; subst hs; exact h
    · simp at hs
  -- 36 redundant loads
  · split at hs
    · rw [stutter_eq hs]; exact h
    · simp at hs

/-- the full invariant -/
structure Full (s : St) : Prop where
  inv : Inv s
  vinv : VInv s
  rinv : RInv s

theorem full_init (b : Bool) : Full (init b) := ⟨inv_init b, vinv_init b, rinv_init b⟩

theorem full_step {s s' : St} {t : Tid} {e : Ev} (h : Full s) (hs : step s t e = some s') : Full s' :=
  ⟨inv_step h.inv hs, vinv_step h.inv h.vinv hs, rinv_step h.inv h.vinv h.rinv hs⟩

theorem full_run {s s' : St} {es : List (Tid × Ev)} (h : Full s) (hr : run s es = some s') : Full s' :=
  runFrom_inv (fun _ _ _ _ hi hst => full_step hi hst) h hr

theorem full_reachable {s : St} (h : Reachable s) : Full s := by
  obtain ⟨b, es, hes⟩ := h
  exact full_run (full_init b) hes

end ConcVerif.LR
