import ConcVerif.Proof.LockFam
import ConcVerif.Base.Live
/-! Ranking function and per-thread progress analysis for the lock-based wrappers
(instance of `Base/Live.lean`).

Environment events (`isEnv`) are the decisions of the CLIENT: the call of an operation, the handle
operation it chooses to perform while it keeps a handle (`hbegin`: destroy / unlock / move), the
payload accesses and throws of client code (`rd`, `wr`, `uth`: through a held handle, or the body of a
whole-object bracket — the model, being the weakest discipline, does not bound how many reads a bracket
makes) and the end-of-run observation `final`.  Everything the LIBRARY does — the `acq` marker, the lock
event (successful, failed try or timed-out), `got`, the release inside a handle operation, `hend`, the
lock and the release of a whole-object bracket, every return — strictly lowers `Pc.rank`. -/
namespace ConcVerif.LockFam

def isEnv : Ev → Bool
  | .callSess | .callW _ | .hbegin _ | .rd _ | .wr _ | .uth | .final _ => true
  | _ => false

/-- number of library steps the thread still has to make before it is the client's turn again -/
def Pc.rank : Pc → Nat
  | .idle => 0
  | .sessCalled => 4
  | .acq _ _ => 3
  | .acqd _ _ => 2
  | .sess => 1
  | .hop _ true => 3
  | .hop _ false => 2
  | .wCalled _ => 3
  | .whole _ _ _ _ _ => 2
  | .wDone _ => 1
  | .wExc => 1

def μ (s : St) (t : Tid) : Nat := (s.pc t).rank

theorem acquire_loc {s s1 : St} {t : Tid} {sd : Side} (h : s.acquire t sd = some s1) : s1.loc = s.loc := by
  unfold St.acquire at h
  split at h
  · contradiction
  · split at h <;> split at h <;> first | contradiction | (injection h with h; subst h; rfl)

theorem release_loc {s s1 : St} {t : Tid} {sd : Side} (h : s.release t sd = some s1) : s1.loc = s.loc := by
  unfold St.release at h
  split at h <;> split at h <;> first | contradiction | (injection h with h; subst h; rfl)

/-- a step of `t` leaves the local state of every other thread alone -/
theorem step_loc_other {s s' : St} {t u : Tid} {e : Ev} (hs : step s t e = some s') (hu : u ≠ t) :
    s'.loc u = s.loc u := by
  unfold step at hs; simp only at hs
  split at hs
  all_goals (try split at hs)
  all_goals (try split at hs)
  all_goals (try split at hs)
  all_goals (try split at hs)
  all_goals (try contradiction)
  all_goals (try (injection hs with hs; subst hs; simp [St.setPc, St.setLoc, upd, hu]))
  all_goals (simp only [Option.map_eq_some_iff] at hs; obtain ⟨s1, ha, hs⟩ := hs; subst hs)
  all_goals first
    | (have h1 := acquire_loc ha; simp [St.setPc, St.setLoc, upd, hu, h1])
    | (have h1 := release_loc ha; simp [St.setPc, St.setLoc, upd, hu, h1])

@[simp] theorem setPc_pc (s : St) (t : Tid) (p : Pc) : ((s.setPc t p).loc t).pc = p := by
  simp [St.setPc, St.setLoc, upd]

@[simp] theorem setLoc_loc_self (s : St) (t : Tid) (l : Loc) : (s.setLoc t l).loc t = l := by
  simp [St.setLoc, upd]

/-- every library step lowers the rank of the stepping thread -/
theorem rank_dec {s s' : St} {t : Tid} {e : Ev} (hs : step s t e = some s') (hc : isEnv e = false) :
    ((s'.loc t).pc).rank < ((s.loc t).pc).rank := by
  cases hp : (s.loc t).pc
  case hop k p =>
    cases p <;> cases k <;> cases e <;> simp [isEnv] at hc <;> simp [step, hp] at hs
    all_goals (try (obtain ⟨_, hs⟩ := hs))
    all_goals (try (obtain ⟨s1, _, hs⟩ := hs))
    all_goals (try subst hs)
    all_goals (simp [Pc.rank])
  all_goals (cases e <;> simp [isEnv] at hc <;> simp [step, hp] at hs)
  case sessCalled.acq => subst hs; simp [Pc.rank]
  case acq.lk =>
    obtain ⟨_, hs⟩ := hs
    split at hs
    · simp only [Option.map_eq_some_iff] at hs
      obtain ⟨s1, _, hs⟩ := hs; subst hs; simp [Pc.rank]
    · split at hs
      · contradiction
      · injection hs with hs; subst hs; simp [Pc.rank]
  case acq.got => obtain ⟨_, hs⟩ := hs; subst hs; simp [Pc.rank]
  case acqd.got => obtain ⟨_, hs⟩ := hs; subst hs; simp [Pc.rank]
  case sess.retSess => obtain ⟨_, hs⟩ := hs; subst hs; simp [Pc.rank]
  case wCalled.lk => obtain ⟨_, s1, _, hs⟩ := hs; subst hs; simp [Pc.rank]
  case whole.rel =>
    obtain ⟨_, hs⟩ := hs
    repeat' (split at hs)
    all_goals (first | contradiction | skip)
    all_goals (simp only [Option.map_eq_some_iff] at hs; obtain ⟨s1, _, hs⟩ := hs; subst hs; simp [Pc.rank])
  case wDone.retW => obtain ⟨_, hs⟩ := hs; subst hs; simp [Pc.rank]
  case wExc.exc => subst hs; simp [Pc.rank]

/-- an environment event raises the rank by at most 4 (a call of an acquisition) -/
theorem rank_env {s s' : St} {t : Tid} {e : Ev} (hs : step s t e = some s') (hc : isEnv e = true) :
    ((s'.loc t).pc).rank ≤ ((s.loc t).pc).rank + 4 := by
  cases hp : (s.loc t).pc <;> cases e <;> simp [isEnv] at hc <;> simp [step, hp] at hs
  case idle.callSess => subst hs; simp [Pc.rank]
  case idle.callW => subst hs; simp [Pc.rank]
  case idle.final => obtain ⟨_, hs⟩ := hs; subst hs; simp [hp, Pc.rank]
  case sess.rd =>
    repeat' (split at hs)
    all_goals (first | contradiction | (injection hs with hs; subst hs; simp [hp, Pc.rank]))
  case sess.wr =>
    repeat' (split at hs)
    all_goals (first | contradiction | (injection hs with hs; subst hs; simp [hp, Pc.rank]))
  case sess.hbegin k =>
    have hr : ∀ k p, (Pc.hop k p).rank ≤ 3 := by intro k p; cases p <;> simp [Pc.rank]
    cases k <;> simp at hs <;> obtain ⟨_, hs⟩ := hs <;> subst hs <;> simp only [setPc_pc]
    all_goals (exact Nat.le_trans (hr _ _) (by simp [Pc.rank]))
  case whole.rd => obtain ⟨_, hs⟩ := hs; subst hs; simp [Pc.rank]
  case whole.wr => obtain ⟨_, hs⟩ := hs; subst hs; simp [Pc.rank]
  case whole.uth => subst hs; simp [Pc.rank]
  case wCalled.uth => subst hs; simp [Pc.rank]

theorem ranked : Live.Ranked step (fun _ => True) isEnv μ 4 where
  good := fun _ _ _ _ _ _ => trivial
  dec := fun _ _ _ _ _ hs hc => rank_dec hs hc
  call := fun _ _ _ _ _ hs hc => rank_env hs hc
  frame := by
    intro s t e s' u _ hs hu
    simp [μ, St.pc, step_loc_other hs hu]

/-! ## Who can move: per-thread analysis of a reachable state -/

/-- the event is a successful lock acquisition (the only library step another thread can disable) -/
def isAcq : Ev → Bool
  | .lk _ _ true => true
  | _ => false

/-- some library step of `t` is enabled -/
def LibEnabled (s : St) (t : Tid) : Prop := ∃ e, isEnv e = false ∧ (step s t e).isSome = true

/-- some library step of `t` other than a lock acquisition is enabled -/
def Moves (s : St) (t : Tid) : Prop := ∃ e, isEnv e = false ∧ isAcq e = false ∧ (step s t e).isSome = true

theorem Moves.lib {s : St} {t : Tid} (h : Moves s t) : LibEnabled s t := by
  obtain ⟨e, h1, _, h3⟩ := h; exact ⟨e, h1, h3⟩

/-- the accesses made so far inside a whole-object bracket allow the library to close it: the body
threw before writing, or (locking enabled) they amount to the operation -/
def bodyDone (en : Bool) (w : WOp) (seen wrote : Option Int) (thrown : Bool) : Prop :=
  if thrown = true then wrote = none else (en = true → (wResult w seen wrote).isSome = true)

/-- it is the CLIENT's move in thread `t`: it keeps a live handle between two handle operations, or
its code is running as the body of a whole-object bracket that is not complete yet -/
def ClientTurn (s : St) (t : Tid) : Prop :=
  ((s.loc t).pc = .sess ∧ ((s.loc t).ha.live = true ∨ (s.loc t).hb.live = true)) ∨
  (∃ w m seen wrote thrown, (s.loc t).pc = .whole w m seen wrote thrown ∧ ¬ bodyDone s.enabled w seen wrote thrown)

/-- `t` is inside a blocking acquisition, before its lock event -/
def Waiting (s : St) (t : Tid) : Prop :=
  (∃ sd, (s.loc t).pc = .acq sd .block ∧ s.enabled = true) ∨ (∃ w, (s.loc t).pc = .wCalled w)

theorem release_enabled {s : St} (hg : GInv s) {t : Tid} (sd : Side) (hm : s.held t = sd.mode) :
    ∃ s1, s.release t sd = some s1 := by
  cases sd
  · have := (hg.exclHeld t).2 (by simpa [Side.mode] using hm)
    simp [St.release, this, hm, Side.mode]
  · have := (hg.sharedHeld t).2 (by simpa [Side.mode] using hm)
    simp [St.release, this, hm, Side.mode]

theorem mode_side (m : Mode) (hm : m ≠ .none) : ∃ sd : Side, modeSide m = some sd ∧ m = sd.mode := by
  cases m
  · exact absurd rfl hm
  · exact ⟨.S, rfl, rfl⟩
  · exact ⟨.X, rfl, rfl⟩

/-- the pending release of a handle operation is enabled -/
theorem hop_release_enabled {s : St} (hi : Inv s) {t : Tid} {k : HopK} (hp : (s.loc t).pc = .hop k true) :
    ∃ sd, (step s t (.rel sd)).isSome = true := by
  have hl := hi.l t
  obtain ⟨_, hpp⟩ := hl.hopOk k true hp
  have hown := hpp.1 rfl
  have hheld : s.held t = ((s.loc t).get k.relSlot).owns := by
    rw [hl.link]; simp only [ownMode, hp, slotsMode]
    cases hi' : k.relSlot <;> rw [hi'] at hown <;> simp only [Loc.get] at hown ⊢
    · simp [hown]
    · have : (s.loc t).ha.owns = .none := by
        apply Classical.byContradiction; intro hne; exact hl.one ⟨hne, hown⟩
      simp [this]
  obtain ⟨sd, hsd, hm⟩ := mode_side _ hown
  obtain ⟨s1, hr⟩ := release_enabled hi.g sd (by rw [hheld, hm])
  exact ⟨sd, by simp [step, hp, hsd, hr]⟩

/-- the release closing a complete whole-object bracket is enabled -/
theorem whole_release_enabled {s : St} (hi : Inv s) {t : Tid} {w : WOp} {m : Mode} {seen wrote : Option Int}
    {thrown : Bool} (hp : (s.loc t).pc = .whole w m seen wrote thrown)
    (hd : bodyDone s.enabled w seen wrote thrown) : ∃ sd, (step s t (.rel sd)).isSome = true := by
  have hl := hi.l t
  have hm := hl.wholeM w m seen wrote thrown hp
  have hheld : s.held t = m := by rw [hl.link]; simp only [ownMode, hp]
  obtain ⟨sd, hsd, hmm⟩ := mode_side _ hm
  obtain ⟨s1, hr⟩ := release_enabled hi.g sd (by rw [hheld, hmm])
  refine ⟨sd, ?_⟩
  unfold bodyDone at hd
  cases thrown
  · simp only [Bool.false_eq_true, if_false] at hd
    cases he : s.enabled
    · simp [step, hp, hsd, hr, he]
    · have := hd he
      cases hw : wResult w seen wrote with
      | none => rw [hw] at this; cases this
      | some r => simp [step, hp, hsd, hr, he, hw]
  · simp only [if_true] at hd
    simp [step, hp, hsd, hr, hd]

/-- **Per-thread classification of a reachable state**: a thread is outside every operation, or has an
enabled library step that nobody else can disable, or it is the client's move, or it waits in a
blocking acquisition. -/
theorem thread_cases {s : St} (hi : Inv s) (t : Tid) :
    (s.loc t).pc = .idle ∨ Moves s t ∨ ClientTurn s t ∨ Waiting s t := by
  have hl := hi.l t
  cases hp : (s.loc t).pc
  case idle => exact Or.inl rfl
  case sessCalled => exact Or.inr (Or.inl ⟨.acq .X .block, rfl, rfl, by simp [step, hp]⟩)
  case acq sd how =>
    cases he : s.enabled
    · have hd := hl.dead (by simp [hp, Pc.inSession])
      exact Or.inr (Or.inl ⟨.got .a true, rfl, rfl, by simp [step, hp, he, hd.1]⟩)
    · cases how
      · exact Or.inr (Or.inr (Or.inr (Or.inl ⟨sd, hp, he⟩)))
      · exact Or.inr (Or.inl ⟨.lk (effSide s.capable sd) .try_ false, rfl, rfl, by simp [step, hp, he]⟩)
      · exact Or.inr (Or.inl ⟨.lk (effSide s.capable sd) .timed false, rfl, rfl, by simp [step, hp, he]⟩)
  case acqd ok m =>
    have hd := hl.dead (by simp [hp, Pc.inSession])
    exact Or.inr (Or.inl ⟨.got .a ok, rfl, rfl, by simp [step, hp, hd.1]⟩)
  case sess =>
    by_cases hlive : (s.loc t).ha.live = true ∨ (s.loc t).hb.live = true
    · exact Or.inr (Or.inr (Or.inl (Or.inl ⟨hp, hlive⟩)))
    · have ha : (s.loc t).ha.live = false := by
        cases h : (s.loc t).ha.live with
        | false => rfl
        | true => exact absurd (Or.inl h) hlive
      have hb : (s.loc t).hb.live = false := by
        cases h : (s.loc t).hb.live with
        | false => rfl
        | true => exact absurd (Or.inr h) hlive
      exact Or.inr (Or.inl ⟨.retSess, rfl, rfl, by simp [step, hp, ha, hb]⟩)
  case hop k p =>
    cases p
    · refine Or.inr (Or.inl ?_)
      cases k with
      | destroy i => exact ⟨.hend none, rfl, rfl, by simp [step, hp]⟩
      | unlock i => exact ⟨.hend (some false), rfl, rfl, by simp [step, hp]⟩
      | movec a b => exact ⟨.hend none, rfl, rfl, by simp [step, hp]⟩
      | movea a b => exact ⟨.hend none, rfl, rfl, by simp [step, hp]⟩
    · obtain ⟨sd, h⟩ := hop_release_enabled hi hp
      exact Or.inr (Or.inl ⟨.rel sd, rfl, rfl, h⟩)
  case wCalled w => exact Or.inr (Or.inr (Or.inr (Or.inr ⟨w, hp⟩)))
  case whole w m seen wrote thrown =>
    by_cases hd : bodyDone s.enabled w seen wrote thrown
    · obtain ⟨sd, h⟩ := whole_release_enabled hi hp hd
      exact Or.inr (Or.inl ⟨.rel sd, rfl, rfl, h⟩)
    · exact Or.inr (Or.inr (Or.inl (Or.inr ⟨w, m, seen, wrote, thrown, hp, hd⟩)))
  case wDone r => exact Or.inr (Or.inl ⟨.retW r, rfl, rfl, by simp [step, hp]⟩)
  case wExc => exact Or.inr (Or.inl ⟨.exc, rfl, rfl, by simp [step, hp]⟩)

theorem Waiting.holds_none {s : St} (hi : Inv s) {t : Tid} (hw : Waiting s t) : s.held t = .none := by
  rcases hw with ⟨sd, hp, _⟩ | ⟨w, hp⟩
  · exact (hi.l t).plain_none (by simp [hp, Pc.plain])
  · exact (hi.l t).plain_none (by simp [hp, Pc.plain])

/-- a thread that holds the mutex can make a library step nobody can disable, or it is the client's move -/
theorem holder_cases {s : St} (hi : Inv s) {t : Tid} (hh : s.held t ≠ .none) : Moves s t ∨ ClientTurn s t := by
  rcases thread_cases hi t with h | h | h | h
  · exact absurd ((hi.l t).plain_none (by simp [h, Pc.plain])) hh
  · exact Or.inl h
  · exact Or.inr h
  · exact absurd (h.holds_none hi) hh

/-- when the mutex is free every waiting thread can acquire it (on the side a session asked for; a
whole-object operation on the exclusive side, and on the shared side too if the mutex has one) -/
theorem free_waiting_enabled {s : St} (hi : Inv s) (hfree : s.excl = none ∧ s.shared = []) {t : Tid}
    (hw : Waiting s t) :
    (∀ sd, (s.loc t).pc = .acq sd .block → (step s t (.lk (effSide s.capable sd) .block true)).isSome = true) ∧
    (∀ w, (s.loc t).pc = .wCalled w → (step s t (.lk .X .block true)).isSome = true ∧
      (s.capable = true → (step s t (.lk .S .block true)).isSome = true)) := by
  have hn := hw.holds_none hi
  constructor
  · intro sd hp
    rcases hw with ⟨sd', hp', he⟩ | ⟨w, hp'⟩
    · cases hc : s.capable <;> cases sd <;> simp [step, hp, he, effSide, hc, St.acquire, hn, hfree.1, hfree.2]
    · rw [hp] at hp'; cases hp'
  · intro w hp
    constructor
    · simp [step, hp, St.acquire, hn, hfree.1, hfree.2]
    · intro hc
      simp [step, hp, St.acquire, hn, hfree.1, hc]

theorem free_waiting_lib {s : St} (hi : Inv s) (hfree : s.excl = none ∧ s.shared = []) {t : Tid}
    (hw : Waiting s t) : LibEnabled s t := by
  have h := free_waiting_enabled hi hfree hw
  rcases hw with ⟨sd, hp, _⟩ | ⟨w, hp⟩
  · exact ⟨_, rfl, h.1 sd hp⟩
  · exact ⟨_, rfl, (h.2 w hp).1⟩

/-- a mutex that is not free has a holder -/
theorem held_of_not_free {s : St} (hi : Inv s) (hnf : ¬ (s.excl = none ∧ s.shared = [])) : ∃ u, s.held u ≠ .none := by
  cases hx : s.excl with
  | some u => exact ⟨u, by rw [(hi.g.exclHeld u).1 hx]; simp⟩
  | none =>
    cases hsh : s.shared with
    | nil => exact absurd ⟨hx, hsh⟩ hnf
    | cons u rest =>
      have : u ∈ s.shared := by rw [hsh]; simp
      exact ⟨u, by rw [(hi.g.sharedHeld u).1 this]; simp⟩

/-- **Trichotomy**: in a reachable state (1) some thread has an enabled library step that no other thread
can disable, or (2) the mutex is free and every thread inside an operation is the client's move or a
waiting acquirer that can take the mutex now, or (3) the mutex is held, every holder is a client whose
move it is, and every thread inside an operation is such a client or a waiting acquirer. -/
theorem trichotomy {s : St} (hi : Inv s) :
    (∃ u, Moves s u) ∨
    ((s.excl = none ∧ s.shared = []) ∧
      ∀ t, (s.loc t).pc = .idle ∨ ClientTurn s t ∨ (Waiting s t ∧ LibEnabled s t)) ∨
    ((∃ u, s.held u ≠ .none) ∧ (∀ u, s.held u ≠ .none → ClientTurn s u) ∧
      ∀ t, (s.loc t).pc = .idle ∨ ClientTurn s t ∨ Waiting s t) := by
  by_cases hm : ∃ u, Moves s u
  · exact Or.inl hm
  · have hnm : ∀ u, ¬ Moves s u := fun u h => hm ⟨u, h⟩
    have hall : ∀ t, (s.loc t).pc = .idle ∨ ClientTurn s t ∨ Waiting s t := by
      intro t
      rcases thread_cases hi t with h | h | h | h
      · exact Or.inl h
      · exact absurd h (hnm t)
      · exact Or.inr (Or.inl h)
      · exact Or.inr (Or.inr h)
    by_cases hfree : s.excl = none ∧ s.shared = []
    · refine Or.inr (Or.inl ⟨hfree, fun t => ?_⟩)
      rcases hall t with h | h | h
      · exact Or.inl h
      · exact Or.inr (Or.inl h)
      · exact Or.inr (Or.inr ⟨h, free_waiting_lib hi hfree h⟩)
    · refine Or.inr (Or.inr ⟨held_of_not_free hi hfree, fun u hu => ?_, hall⟩)
      rcases holder_cases hi hu with h | h
      · exact absurd h (hnm u)
      · exact h

/-- whenever it is the client's move, the client does have a move (a handle operation on the handle it
keeps; its code inside the bracket goes on) -/
theorem client_can_move {s : St} {t : Tid} (h : ClientTurn s t) : ∃ e, isEnv e = true ∧ (step s t e).isSome = true := by
  rcases h with ⟨hp, ha | hb⟩ | ⟨w, m, sn, wr, th, hp, _⟩
  · exact ⟨.hbegin (.destroy .a), rfl, by simp [step, hp, Loc.get, ha]⟩
  · exact ⟨.hbegin (.destroy .b), rfl, by simp [step, hp, Loc.get, hb]⟩
  · exact ⟨.uth, rfl, by simp [step, hp]⟩

/-- a client that keeps a live handle between operations has no enabled library step: the session returns
only after every handle is destroyed -/
theorem sess_live_not_lib {s : St} {t : Tid} (hp : (s.loc t).pc = .sess)
    (hl : (s.loc t).ha.live = true ∨ (s.loc t).hb.live = true) : ¬ LibEnabled s t := by
  rintro ⟨e, h1, h2⟩
  cases e <;> simp [isEnv] at h1 <;> simp [step, hp] at h2
  rcases hl with h | h <;> simp [h] at h2

/-- the only library step of a thread waiting in a blocking `lock()` is the acquisition itself -/
theorem acq_block_lib {s : St} {t : Tid} {sd : Side} (hp : (s.loc t).pc = .acq sd .block) (he : s.enabled = true)
    (h : LibEnabled s t) : (s.acquire t (effSide s.capable sd)).isSome = true := by
  obtain ⟨e, h1, h2⟩ := h
  cases e <;> simp [isEnv] at h1 <;> simp [step, hp, he] at h2
  rename_i sd' how ok
  split at h2
  · rename_i hc
    obtain ⟨_, hsd⟩ := hc
    subst hsd
    cases ok
    · simp at h2
    · simpa using h2
  · simp at h2

end ConcVerif.LockFam
