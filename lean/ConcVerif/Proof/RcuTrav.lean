import ConcVerif.Proof.RcuF
/-! History variables for traversals (C12) and the invariant that no element which stays linked is skipped.

The model `Model/Rcu.lean` is extended — outside the model, so trace acceptance is unaffected — by two ghost
(history) maps per thread: `base t` = the linked nodes at the moment the thread's current traversal started
(`begin`), `seen t` = the nodes its iterator has pointed to since.  `stepH` runs `step` and updates them; it accepts
exactly the traces `step` accepts (`reachableH_fst`, `reachableH_of`).

Invariant G: as long as the iterator is valid, every node that was linked at `begin` and is still linked has either
been seen or lies on the `next`-chain that starts at the iterator's current node. -/
namespace ConcVerif.Rcu

structure Gh where
  base : Tid → List Nat
  seen : Tid → List Nat

def gh0 : Gh := { base := fun _ => [], seen := fun _ => [] }

/-- history update: `begin` starts a traversal, `++` and the assignment of `erase`'s result move the iterator -/
def ghUpd (s : St) (g : Gh) (t : Tid) (e : Ev) : Gh :=
  match s.pc t, e with
  | .called .beg, .ald .head _ v => { base := upd g.base t s.lst, seen := upd g.seen t v.toList }
  | .called .nxt, .ald (.nnext _) _ v => { g with seen := upd g.seen t (v.toList ++ g.seen t) }
  | .eUnlock o, .mul => if s.it t = some o then g else { g with seen := upd g.seen t (o.toList ++ g.seen t) }
  | _, _ => g

def stepH (sg : St × Gh) (t : Tid) (e : Ev) : Option (St × Gh) :=
  (step sg.1 t e).map (fun s' => (s', ghUpd sg.1 sg.2 t e))

def runH (es : List (Tid × Ev)) : Option (St × Gh) := runFrom stepH (init, gh0) es

def ReachableH (sg : St × Gh) : Prop := ∃ es, runH es = some sg

theorem runH_fst (es : List (Tid × Ev)) : (runH es).map (·.1) = run es := by
  unfold runH run
  have : ∀ (sg : St × Gh), (runFrom stepH sg es).map (·.1) = runFrom step sg.1 es := by
    induction es with
    | nil => intro sg; rfl
    | cons x xs ih =>
      intro sg
      obtain ⟨t, e⟩ := x
      simp only [runFrom_cons, stepH]
      cases h : step sg.1 t e with
      | none => simp
      | some s1 => simp [ih]
  exact this (init, gh0)

/-- the history variables never block a step: the extended system has exactly the traces of the model -/
theorem reachableH_fst {sg : St × Gh} (h : ReachableH sg) : Reachable sg.1 := by
  obtain ⟨es, hes⟩ := h
  refine ⟨es, ?_⟩
  have := runH_fst es
  rw [hes] at this
  exact this.symm

theorem reachableH_of {s : St} (h : Reachable s) : ∃ g, ReachableH (s, g) := by
  obtain ⟨es, hes⟩ := h
  have := runH_fst es
  rw [hes] at this
  cases hr : runH es with
  | none => rw [hr] at this; cases this
  | some sg =>
    rw [hr] at this
    simp at this
    obtain ⟨s', g⟩ := sg
    simp at this; subst this
    exact ⟨g, es, hr⟩

/-- `y` is on the `next`-chain starting at `c` -/
inductive Reach (nx : Nat → Option Nat) : Nat → Nat → Prop
  | refl (c : Nat) : Reach nx c c
  | step {c x y : Nat} (h : nx c = some x) (r : Reach nx x y) : Reach nx c y

theorem reach_mono {nx nx' : Nat → Option Nat} {c y : Nat} (h : Reach nx c y)
    (hm : ∀ a x, nx a = some x → nx' a = some x) : Reach nx' c y := by
  induction h with
  | refl c => exact .refl c
  | step h _ ih => exact .step (hm _ _ h) ih

/-- the chain only runs through nodes of a `next`-closed set -/
theorem reach_congr {nx nx' : Nat → Option Nat} {S : Nat → Prop} {c y : Nat} (h : Reach nx c y) (hc : S c)
    (hcl : ∀ a x, S a → nx a = some x → S x) (he : ∀ a, S a → nx' a = nx a) : Reach nx' c y := by
  induction h with
  | refl c => exact .refl c
  | step h _ ih => exact .step (by rw [he _ hc]; exact h) (ih (hcl _ _ hc h))

/-- unlinking `d` (`pp.next := d.next`) keeps every other node on the chain -/
theorem reach_skip {nx : Nat → Option Nat} {pp d c y : Nat} (h : Reach nx c y) (hpd : nx pp = some d) (hne : pp ≠ d)
    (hy : y ≠ d) : Reach (fun a => if a = pp then nx d else nx a) c y := by
  induction h with
  | refl c => exact .refl c
  | step h r ih =>
    rename_i a b y'
    by_cases ha : a = pp
    · subst ha
      rw [hpd] at h; injection h with h; subst h
      -- chain: a -> d -> ..., y ≠ d
      have := ih hy
      cases this with
      | refl => exact absurd rfl hy
      | step h2 r2 =>
        refine .step ?_ r2
        simp only [if_true]
        simp only [if_neg (Ne.symm hne)] at h2
        exact h2
    · exact .step (by simp only [if_neg ha]; exact h) (ih hy)

/-- every linked node behind `c` is on the chain from `c` -/
theorem reach_of_below {nx : Nat → Option Nat} {l : List Nat} (hn : l.Nodup)
    (hnx : ∀ a ∈ l, nx a = (Below l a).head?) :
    ∀ (k : Nat) (c y : Nat), (Below l c).length = k → c ∈ l → y ∈ Below l c → Reach nx c y := by
  intro k
  induction k with
  | zero =>
    intro c y hk _ hy
    have : Below l c = [] := List.length_eq_zero_iff.1 hk
    rw [this] at hy; simp at hy
  | succ k ih =>
    intro c y hk hc hy
    cases hb : Below l c with
    | nil => rw [hb] at hk; simp at hk
    | cons x xs =>
      have hhead : (Below l c).head? = some x := by rw [hb]; rfl
      have hxl : x ∈ l := mem_of_mem_below (head_mem_below hhead)
      have hbx : Below l x = xs := by rw [below_of_head hn hhead, hb]; rfl
      refine .step (by rw [hnx c hc, hhead]) ?_
      rw [hb] at hy
      rcases List.mem_cons.1 hy with e | e
      · subst e; exact .refl _
      · exact ih x y (by rw [hbx]; rw [hb] at hk; simpa using hk) hxl (by rw [hbx]; exact e)

/-- pcs that carry the value `erase` returns, and the node being erased is still the iterator's node -/
def retOf : Pc → Option (Option Nat)
  | .eDel _ o | .eMark _ o _ | .eBack _ o _ | .eNext _ o _ _ | .eUnl _ o _ _ _ | .eFix _ o _ _ _ | .eAlloc _ o | .eCons _ o _
  | .eZh o _ | .pushStore (.erase o) _ _ | .pushCas (.erase o) _ _ | .eUnlock o => some o
  | _ => none

/-- the node an `erase` in its first phase works on: still the iterator's node -/
def curNode : Pc → Option Nat
  | .eOrig c _ | .eDel c _ | .eAlloc c _ | .eCons c _ _ | .eMark c _ _ | .eBack c _ _ | .eNext c _ _ _ | .eUnl c _ _ _ _ => some c
  | _ => none

structure InvG (s : St) (g : Gh) : Prop where
  /-- no stably linked node is skipped -/
  noskip : ∀ t, s.it t ≠ none → ∀ y ∈ g.base t, y ∈ s.lst →
    y ∈ g.seen t ∨ ∃ c, s.it t = some (some c) ∧ Reach (fun n => (s.nodes n).next) c y
  cursorSeen : ∀ t c, s.it t = some (some c) → c ∈ g.seen t
  baseOrd : ∀ t, s.it t ≠ none → ∀ y ∈ g.base t, y ∈ s.order
  eorig : ∀ t c, curNode (s.pc t) = some c → s.it t = some (some c)
  eret : ∀ t o, retOf (s.pc t) = some o → ∃ c, s.it t = some (some c) ∧ (o = some c ∨ o = (s.nodes c).next)

theorem invG_init : InvG init gh0 := by
  constructor <;> simp [init, gh0, retOf, curNode]

theorem retOf_holds {p : Pc} (h : retOf p ≠ none) : holdsW p = true := by
  cases p with
  | pushStore c r e => cases c <;> simp [retOf] at h <;> simp [holdsW]
  | pushCas c r e => cases c <;> simp [retOf] at h <;> simp [holdsW]
  | _ => simp [retOf] at h <;> simp [holdsW]

/-- frame lemma: the iterators and the history are untouched; newly linked nodes are brand new; the chains towards
nodes that are still linked survive -/
theorem invG_frame {s s' : St} {g : Gh} {t : Tid} (h : InvG s g) (hitv : ∀ u c, s.it u = some (some c) → c ∈ s.order)
    (hl : ∀ y, y ∈ s'.lst → y ∈ s.lst ∨ y ∉ s.order) (ho : ∀ y ∈ s.order, y ∈ s'.order)
    (hr : ∀ c y, c ∈ s.order → y ∈ s'.lst → y ∈ s.lst → Reach (fun n => (s.nodes n).next) c y →
      Reach (fun n => (s'.nodes n).next) c y)
    (hit : s'.it = s.it) (hvpc : ∀ u, u ≠ t → s'.pc u = s.pc u)
    (hE : ∀ c, curNode (s'.pc t) = some c → s.it t = some (some c))
    (hR : ∀ o, retOf (s'.pc t) = some o → ∃ c, s.it t = some (some c) ∧ (o = some c ∨ o = (s'.nodes c).next))
    (hnx : ∀ u, u ≠ t → retOf (s.pc u) ≠ none → ∀ c ∈ s.order, (s'.nodes c).next = (s.nodes c).next) : InvG s' g := by
  obtain ⟨g1, g2, g3, g4, g5⟩ := h
  refine ⟨?_, ?_, ?_, ?_, ?_⟩
  · intro u hu y hy hyl
    rw [hit] at hu
    have hyo := g3 u hu y hy
    have hyl0 : y ∈ s.lst := by
      rcases hl y hyl with e | e
      · exact e
      · exact absurd hyo e
    rcases g1 u hu y hy hyl0 with f | ⟨c, f1, f2⟩
    · exact Or.inl f
    · exact Or.inr ⟨c, by rw [hit]; exact f1, hr c y (hitv u c f1) hyl hyl0 f2⟩
  · intro u c hc; rw [hit] at hc; exact g2 u c hc
  · intro u hu y hy; rw [hit] at hu; exact ho y (g3 u hu y hy)
  · intro u c hp
    by_cases hut : u = t
    · subst hut; rw [hit]; exact hE c hp
    · rw [hvpc u hut] at hp; rw [hit]; exact g4 u c hp
  · intro u o hp
    by_cases hut : u = t
    · subst hut; rw [hit]; exact hR o hp
    · rw [hvpc u hut] at hp
      obtain ⟨c, c1, c2⟩ := g5 u o hp
      refine ⟨c, by rw [hit]; exact c1, ?_⟩
      rw [hnx u hut (by rw [hp]; simp) c (hitv u c c1)]; exact c2

local macro "frameG" h:ident hitv:ident t:ident : tactic =>
  `(tactic| (refine invG_frame (t := $t) $h $hitv (fun y hy => Or.inl hy) (fun y hy => hy) (fun _ _ _ _ _ r => r) rfl
               (fun u hut => by simp [hut]) ?_ ?_ (fun _ _ _ _ _ => rfl)
             · intro c hp
               first
               | (simp [curNode] at hp; done)
               | (exact ($h).eorig _ c (by simpa [*, curNode] using hp))
             · intro o hp
               first
               | (simp [retOf] at hp; done)
               | (exact ($h).eret _ o (by simpa [*, retOf] using hp))))

theorem reach_eq {nx nx' : Nat → Option Nat} {c y : Nat} (h : Reach nx c y) (he : ∀ a, nx' a = nx a) : Reach nx' c y :=
  reach_mono h (fun a x hx => by rw [he a]; exact hx)

/-- the handle of `t` is dropped: its iterator dies -/
theorem invG_drop {s s' : St} {g : Gh} {t : Tid} (h : InvG s g) (hl : s'.lst = s.lst) (ho : s'.order = s.order)
    (hn : ∀ n, (s'.nodes n).next = (s.nodes n).next) (hit : s'.it = upd s.it t none)
    (hvpc : ∀ u, u ≠ t → s'.pc u = s.pc u) (hE : curNode (s'.pc t) = none) (hR : retOf (s'.pc t) = none) : InvG s' g := by
  obtain ⟨g1, g2, g3, g4, g5⟩ := h
  have hitu : ∀ u, u ≠ t → s'.it u = s.it u := fun u hut => by rw [hit, upd_other _ _ _ _ hut]
  have hitt : s'.it t = none := by rw [hit, upd_same]
  refine ⟨?_, ?_, ?_, ?_, ?_⟩
  · intro u hu y hy hyl
    by_cases hut : u = t
    · subst hut; exact absurd hitt hu
    · rw [hitu u hut] at hu ⊢; rw [hl] at hyl
      rcases g1 u hu y hy hyl with f | ⟨c, f1, f2⟩
      · exact Or.inl f
      · exact Or.inr ⟨c, f1, reach_eq f2 hn⟩
  · intro u c hc
    by_cases hut : u = t
    · subst hut; rw [hitt] at hc; cases hc
    · rw [hitu u hut] at hc; exact g2 u c hc
  · intro u hu y hy
    by_cases hut : u = t
    · subst hut; exact absurd hitt hu
    · rw [hitu u hut] at hu; rw [ho]; exact g3 u hu y hy
  · intro u c hp
    by_cases hut : u = t
    · subst hut; rw [hE] at hp; cases hp
    · rw [hvpc u hut] at hp; rw [hitu u hut]; exact g4 u c hp
  · intro u o hp
    by_cases hut : u = t
    · subst hut; rw [hR] at hp; cases hp
    · rw [hvpc u hut] at hp
      obtain ⟨c, c1, c2⟩ := g5 u o hp
      exact ⟨c, by rw [hitu u hut]; exact c1, by rw [hn c]; exact c2⟩

theorem mem_head_or_below {l : List Nat} {h y : Nat} (hh : l.head? = some h) (hy : y ∈ l) : y = h ∨ y ∈ Below l h := by
  cases l with
  | nil => cases hh
  | cons z zs =>
    simp at hh; subst hh
    rcases List.mem_cons.1 hy with e | e
    · exact Or.inl e
    · right; rw [below_cons_self]; exact e

/-- the iterator of `t` moves along the chain (`++`, or the result of `erase`), or stays -/
theorem invG_advance {s s' : St} {g : Gh} {t : Tid} (h : InvG s g) (c : Nat) (v : Option Nat)
    (hc : s.it t = some (some c)) (hv : v = some c ∨ v = (s.nodes c).next)
    (hl : s'.lst = s.lst) (ho : s'.order = s.order) (hn : s'.nodes = s.nodes) (hit : s'.it = upd s.it t (some v))
    (hvpc : ∀ u, u ≠ t → s'.pc u = s.pc u) (hE : curNode (s'.pc t) = none) (hR : retOf (s'.pc t) = none) :
    InvG s' { g with seen := upd g.seen t (v.toList ++ g.seen t) } := by
  obtain ⟨g1, g2, g3, g4, g5⟩ := h
  have hitu : ∀ u, u ≠ t → s'.it u = s.it u := fun u hut => by rw [hit, upd_other _ _ _ _ hut]
  have hitt : s'.it t = some v := by rw [hit, upd_same]
  refine ⟨?_, ?_, ?_, ?_, ?_⟩
  · intro u hu y hy hyl
    simp only at hy ⊢
    rw [hl] at hyl; rw [hn]
    by_cases hut : u = t
    · subst hut
      rw [upd_same]
      rcases g1 u (by rw [hc]; simp) y hy hyl with f | ⟨c', f1, f2⟩
      · exact Or.inl (List.mem_append_right _ f)
      · have hcc : c' = c := by rw [hc] at f1; injection f1 with f1; injection f1 with f1; exact f1.symm
        subst hcc
        rcases hv with e | e
        · subst e; exact Or.inr ⟨c', hitt, f2⟩
        · cases f2 with
          | refl => exact Or.inl (List.mem_append_right _ (g2 u _ hc))
          | step hx r =>
            rename_i x
            have : v = some x := by rw [e]; exact hx
            subst this
            exact Or.inr ⟨x, hitt, r⟩
    · rw [upd_other _ _ _ _ hut, hitu u hut]
      rw [hitu u hut] at hu
      exact g1 u hu y hy hyl
  · intro u c' hc'
    simp only
    by_cases hut : u = t
    · subst hut; rw [upd_same]
      rw [hitt] at hc'; injection hc' with hc'; subst hc'
      simp
    · rw [upd_other _ _ _ _ hut]; rw [hitu u hut] at hc'; exact g2 u c' hc'
  · intro u hu y hy
    simp only at hy
    rw [ho]
    by_cases hut : u = t
    · subst hut; exact g3 u (by rw [hc]; simp) y hy
    · rw [hitu u hut] at hu; exact g3 u hu y hy
  · intro u c' hp
    by_cases hut : u = t
    · subst hut; rw [hE] at hp; cases hp
    · rw [hvpc u hut] at hp; rw [hitu u hut]; exact g4 u c' hp
  · intro u o hp
    by_cases hut : u = t
    · subst hut; rw [hR] at hp; cases hp
    · rw [hvpc u hut] at hp
      obtain ⟨c', c1, c2⟩ := g5 u o hp
      exact ⟨c', by rw [hitu u hut]; exact c1, by rw [hn]; exact c2⟩

theorem invG_step {s s' : St} {g : Gh} {t : Tid} {e : Ev} (hx : InvX s) (hf : InvF s) (h : InvG s g)
    (hs : Step s t e s') : InvG s' (ghUpd s g t e) := by
  have hitv : ∀ u c, s.it u = some (some c) → c ∈ s.order := hx.i.c.itv
  have hval : ∀ n ∈ s.order, ∀ x, (s.nodes n).next = some x → x ∈ s.order := hx.i.c.val
  have hsubo : ∀ y ∈ s.lst, y ∈ s.order := hx.i.c.sub
  have hnd : s.lst.Nodup := hx.i.c.lstNd
  have hnx0 : ∀ a ∈ s.lst, (s.nodes a).next = (Below s.lst a).head? := hx.i.c.nx
  have wr := hx.i.c.wr t
  simp only [cview_vpc] at wr
  cases hs
  all_goals (try (
    (conv => arg 2; simp only [ghUpd, *])
    frameG h hitv t; done))
  all_goals (try (
    (conv => arg 2; simp only [ghUpd, *])
    exact h; done))
  case dtorHead o hpc ho =>
    conv => arg 2; simp only [ghUpd, hpc]
    cases hh : s.head <;> simp only [St.dNodeAt] <;> frameG h hitv t
  case dZhead o hpc ho =>
    conv => arg 2; simp only [ghUpd, hpc]
    cases hh : s.zhead <;> simp only [St.dRecAt] <;> frameG h hitv t
  case dFreZ m nx hpc =>
    conv => arg 2; simp only [ghUpd, hpc]
    cases nx <;> simp only [St.dRecAt] <;> frameG h hitv t
  case rFreZ r m nx hpc =>
    conv => arg 2; simp only [ghUpd, hpc]
    cases nx <;> simp only [St.reapAt] <;> frameG h hitv t
  case uNextNone r cached m o hpc ho hv =>
    conv => arg 2; simp only [ghUpd, hpc]
    cases cached <;> simp only [St.reapAt] <;> frameG h hitv t
  case pushStore c r exp o hpc =>
    conv => arg 2; simp only [ghUpd, hpc]
    cases c
    · frameG h hitv t
    · refine invG_frame (t := t) h hitv (fun y hy => Or.inl hy) (fun y hy => hy) (fun _ _ _ _ _ r => r) rfl
        (fun u hut => by simp [hut]) (by intro c hp; first | (simp [curNode] at hp; done) | exact h.eorig t c (by simpa [hpc, curNode] using hp)) ?_ (fun _ _ _ _ _ => rfl)
      intro o' hp
      exact h.eret t o' (by simpa [hpc, retOf] using hp)
  case casFail c r exp o hpc ho =>
    conv => arg 2; simp only [ghUpd, hpc]
    cases c
    · frameG h hitv t
    · refine invG_frame (t := t) h hitv (fun y hy => Or.inl hy) (fun y hy => hy) (fun _ _ _ _ _ r => r) rfl
        (fun u hut => by simp [hut]) (by intro c hp; first | (simp [curNode] at hp; done) | exact h.eorig t c (by simpa [hpc, curNode] using hp)) ?_ (fun _ _ _ _ _ => rfl)
      intro o' hp
      exact h.eret t o' (by simpa [hpc, retOf] using hp)
  case eraseLock adv r c hpc hh hi' hm =>
    conv => arg 2; simp only [ghUpd, hpc]
    refine invG_frame (t := t) h hitv (fun y hy => Or.inl hy) (fun y hy => hy) (fun _ _ _ _ _ r => r) rfl
      (fun u hut => by simp [hut]) ?_ (by intro o hp; simp [retOf] at hp) (fun _ _ _ _ _ => rfl)
    intro c' hp
    simp [curNode] at hp; rw [← hp]; exact hi'
  case eOrig c adv o hpc ho =>
    conv => arg 2; simp only [ghUpd, hpc]
    have hc := h.eorig t c (by simp [hpc, curNode])
    refine invG_frame (t := t) h hitv (fun y hy => Or.inl hy) (fun y hy => hy) (fun _ _ _ _ _ r => r) rfl
      (fun u hut => by simp [hut]) (by intro c hp; first | (simp [curNode] at hp; done) | exact h.eorig t c (by simpa [hpc, curNode] using hp)) ?_ (fun _ _ _ _ _ => rfl)
    intro o' hp
    simp [retOf] at hp
    refine ⟨c, hc, ?_⟩
    cases adv <;> simp at hp <;> simp [← hp]
  case relFresh w hpc hh =>
    conv => arg 2; simp only [ghUpd, hpc]
    refine invG_drop (t := t) h rfl rfl ?_ rfl (fun u hut => by simp [hut]) (by simp [curNode]) (by simp [retOf])
    intro n; rfl
  case uClear r o hpc ho =>
    conv => arg 2; simp only [ghUpd, hpc]
    refine invG_drop (t := t) h rfl rfl ?_ rfl (fun u hut => by simp [hut]) (by simp [curNode]) (by simp [retOf])
    intro n; rfl
  case pF2 k n h0 o hpc ho =>
    conv => arg 2; simp only [ghUpd, hpc]
    refine invG_frame (t := t) h hitv (fun y hy => Or.inl hy) (fun y hy => hy) (fun c y _ _ _ r => reach_eq r (fun a => by
        simp only [setPc_nodes, setBack_nodes]
        by_cases e : a = h0
        · subst e; rw [upd_same]
        · rw [upd_other _ _ _ _ e])) rfl
      (fun u hut => by simp [hut]) (by intro c hp; first | (simp [curNode] at hp; done) | exact h.eorig t c (by simpa [hpc, curNode] using hp)) (by intro o hp; simp [retOf] at hp) ?_
    intro _ _ _ c _
    simp only [setPc_nodes, setBack_nodes]
    by_cases e : c = h0
    · subst e; rw [upd_same]
    · rw [upd_other _ _ _ _ e]
  case pB1 k n h0 o hpc ho =>
    conv => arg 2; simp only [ghUpd, hpc]
    refine invG_frame (t := t) h hitv (fun y hy => Or.inl hy) (fun y hy => hy) (fun c y _ _ _ r => reach_eq r (fun a => by
        simp only [setPc_nodes, setBack_nodes]
        by_cases e : a = n
        · subst e; rw [upd_same]
        · rw [upd_other _ _ _ _ e])) rfl
      (fun u hut => by simp [hut]) (by intro c hp; first | (simp [curNode] at hp; done) | exact h.eorig t c (by simpa [hpc, curNode] using hp)) (by intro o hp; simp [retOf] at hp) ?_
    intro _ _ _ c _
    simp only [setPc_nodes, setBack_nodes]
    by_cases e : c = n
    · subst e; rw [upd_same]
    · rw [upd_other _ _ _ _ e]
  case eFixNext c orig p xx z o hpc ho =>
    conv => arg 2; simp only [ghUpd, hpc]
    have hnxs : ∀ a, (((s.setBack xx p).setPc t (.eZh orig z)).nodes a).next = (s.nodes a).next := by
      intro a
      simp only [setPc_nodes, setBack_nodes]
      by_cases e : a = xx
      · subst e; rw [upd_same]
      · rw [upd_other _ _ _ _ e]
    refine invG_frame (t := t) h hitv (fun y hy => Or.inl hy) (fun y hy => hy) (fun c y _ _ _ r => reach_eq r hnxs) rfl
      (fun u hut => by simp [hut]) (by intro c hp; first | (simp [curNode] at hp; done) | exact h.eorig t c (by simpa [hpc, curNode] using hp)) ?_ (fun _ _ _ c _ => hnxs c)
    intro o' hp
    obtain ⟨c', c1, c2⟩ := h.eret t o' (by simpa [hpc, retOf] using hp)
    exact ⟨c', c1, by rw [hnxs c']; exact c2⟩
  case eMark c orig z hpc =>
    conv => arg 2; simp only [ghUpd, hpc]
    have hnxs : ∀ a, (((s.setDel c true).setPc t (.eBack c orig z)).nodes a).next = (s.nodes a).next := by
      intro a
      simp only [setPc_nodes, setDel_nodes]
      by_cases e : a = c
      · subst e; rw [upd_same]
      · rw [upd_other _ _ _ _ e]
    refine invG_frame (t := t) h hitv (fun y hy => Or.inl hy) (fun y hy => hy) (fun c y _ _ _ r => reach_eq r hnxs) rfl
      (fun u hut => by simp [hut]) (by intro c hp; first | (simp [curNode] at hp; done) | exact h.eorig t c (by simpa [hpc, curNode] using hp)) ?_ (fun _ _ _ c _ => hnxs c)
    intro o' hp
    obtain ⟨c', c1, c2⟩ := h.eret t o' (by simpa [hpc, retOf] using hp)
    exact ⟨c', c1, by rw [hnxs c']; exact c2⟩
  case pCon f em x n hpc =>
    conv => arg 2; simp only [ghUpd, hpc]
    rw [hpc] at wr; simp only [CView, WriterP, cview_order] at wr
    have hnxs : ∀ a ∈ s.order, ((({ s with nodes := upd s.nodes n { next := none, back := none, deleted := false, val := x } }.setNled n .cons).setPc t
        (.pLoad (.push f em x) n)).nodes a).next = (s.nodes a).next := by
      intro a ha
      have : a ≠ n := fun e => wr.1 (e ▸ ha)
      simp [St.setNled, St.setPc, upd_other _ _ _ _ this]
    refine invG_frame (t := t) h hitv (fun y hy => Or.inl hy) (fun y hy => hy) ?_ rfl
      (fun u hut => by simp [hut]) (by intro c hp; first | (simp [curNode] at hp; done) | exact h.eorig t c (by simpa [hpc, curNode] using hp)) (by intro o hp; simp [retOf] at hp) (fun _ _ _ => hnxs)
    intro c y hc _ _ r
    exact reach_congr (S := fun a => a ∈ s.order) r hc (fun a x ha hx => hval a ha x hx) hnxs
  case pF1 k n h0 o hpc ho =>
    conv => arg 2; simp only [ghUpd, hpc]
    rw [hpc] at wr; simp only [CView, WriterP, FreshN, cview_order] at wr
    have hnxs : ∀ a ∈ s.order, (((s.setNext n (some h0)).setPc t (.pF2 k n h0)).nodes a).next = (s.nodes a).next := by
      intro a ha
      have : a ≠ n := fun e => wr.1.1 (e ▸ ha)
      simp [St.setNext, St.setPc, upd_other _ _ _ _ this]
    refine invG_frame (t := t) h hitv (fun y hy => Or.inl hy) (fun y hy => hy) ?_ rfl
      (fun u hut => by simp [hut]) (by intro c hp; first | (simp [curNode] at hp; done) | exact h.eorig t c (by simpa [hpc, curNode] using hp)) (by intro o hp; simp [retOf] at hp) (fun _ _ _ => hnxs)
    intro c y hc _ _ r
    exact reach_congr (S := fun a => a ∈ s.order) r hc (fun a x ha hx => hval a ha x hx) hnxs
  case pE1 k n o hpc ho =>
    conv => arg 2; simp only [ghUpd, hpc]
    rw [hpc] at wr; simp only [CView, WriterP, FreshN, cview_order] at wr
    refine invG_frame (t := t) h hitv ?_ (fun y hy => List.mem_cons_of_mem _ hy) (fun _ _ _ _ _ r => r) rfl
      (fun u hut => by simp [hut]) (by intro c hp; first | (simp [curNode] at hp; done) | exact h.eorig t c (by simpa [hpc, curNode] using hp)) (by intro o hp; simp [retOf] at hp) (fun _ _ _ _ _ => rfl)
    intro y hy
    rcases List.mem_cons.1 hy with e | e
    · subst e; exact Or.inr wr.1.1
    · exact Or.inl e
  case pF3 k n o hpc ho =>
    conv => arg 2; simp only [ghUpd, hpc]
    rw [hpc] at wr; simp only [CView, WriterP, FreshN, cview_order] at wr
    obtain ⟨h0, hfr, _⟩ := wr
    refine invG_frame (t := t) h hitv ?_ (fun y hy => List.mem_cons_of_mem _ hy) (fun _ _ _ _ _ r => r) rfl
      (fun u hut => by simp [hut]) (by intro c hp; first | (simp [curNode] at hp; done) | exact h.eorig t c (by simpa [hpc, curNode] using hp)) (by intro o hp; simp [retOf] at hp) (fun _ _ _ _ _ => rfl)
    intro y hy
    rcases List.mem_cons.1 hy with e | e
    · subst e; exact Or.inr hfr.1
    · exact Or.inl e
  case pB2 k n h0 o hpc ho =>
    conv => arg 2; simp only [ghUpd, hpc]
    rw [hpc] at wr; simp only [CView, WriterP, FreshN, NextIs, cview_order, cview_lst, cview_nodes] at wr
    obtain ⟨⟨g1, _, _, _, _⟩, ⟨g6, g7⟩, _⟩ := wr
    have hh0n : (s.nodes h0).next = none := by rw [hnx0 h0 g6]; exact g7
    have hne : n ≠ h0 := fun e => g1 (e ▸ hsubo h0 g6)
    refine invG_frame (t := t) h hitv ?_ (fun y hy => List.mem_append_left _ hy) ?_ rfl
      (fun u hut => by simp [hut]) (by intro c hp; first | (simp [curNode] at hp; done) | exact h.eorig t c (by simpa [hpc, curNode] using hp)) (by intro o hp; simp [retOf] at hp) ?_
    · intro y hy
      rcases List.mem_append.1 hy with e | e
      · exact Or.inl e
      · simp at e; subst e; exact Or.inr g1
    · intro c y _ _ _ r
      refine reach_mono r ?_
      intro a x hx
      simp only [setPc_nodes, setNext_nodes]
      by_cases e : a = h0
      · subst e; rw [hh0n] at hx; cases hx
      · rw [upd_other _ _ _ _ e]; exact hx
    · intro u hut hr
      exfalso
      have a := (hx.i.a.wm u).1 (retOf_holds hr)
      have b := (hx.i.a.wm t).1 (by simp [hpc, holdsW])
      rw [a] at b; injection b with b; exact hut b
  case eUnlHead c orig x z o hpc ho =>
    conv => arg 2; simp only [ghUpd, hpc]
    refine invG_frame (t := t) h hitv (fun y hy => Or.inl (List.mem_of_mem_erase hy)) (fun y hy => hy)
      (fun _ _ _ _ _ r => r) rfl (fun u hut => by simp [hut]) (by intro c hp; first | (simp [curNode] at hp; done) | exact h.eorig t c (by simpa [hpc, curNode] using hp)) ?_ (fun _ _ _ _ _ => rfl)
    intro o' hp
    exact h.eret t o' (by simpa [hpc, retOf] using hp)
  case eUnlPrev c orig pp x z o hpc ho =>
    conv => arg 2; simp only [ghUpd, hpc]
    rw [hpc] at wr; simp only [CView, WriterP, NextIs, cview_lst, cview_nodes] at wr
    obtain ⟨g1, _, _, ⟨g4, g4'⟩, g5⟩ := wr
    have hppc : pp ≠ c := fun e => not_mem_below_self hnd (e ▸ head_mem_below g4')
    have hpn : (s.nodes pp).next = some c := by rw [hnx0 pp g4]; exact g4'
    have hcx : (s.nodes c).next = x := by rw [hnx0 c g1, g5]
    have hnxf : (fun n => ((({ (s.setNext pp x) with lst := s.lst.erase c } : St).setPc t (.eFix c orig (some pp) x z)).nodes n).next) =
        fun a => if a = pp then (s.nodes c).next else (s.nodes a).next := by
      funext a
      simp only [setPc_nodes, setNext_nodes]
      by_cases e : a = pp
      · subst e; rw [upd_same]; simp [hcx]
      · rw [upd_other _ _ _ _ e]; simp [e]
    obtain ⟨c0, c01, c02⟩ := h.eret t orig (by simp [hpc, retOf])
    refine invG_frame (t := t) h hitv (fun y hy => Or.inl (List.mem_of_mem_erase hy)) (fun y hy => hy) ?_ rfl
      (fun u hut => by simp [hut]) (by intro c hp; first | (simp [curNode] at hp; done) | exact h.eorig t c (by simpa [hpc, curNode] using hp)) ?_ ?_
    · intro c' y _ hyl _ r
      have hyc : y ≠ c := fun e => by subst e; exact (List.Nodup.mem_erase_iff hnd).1 hyl |>.1 rfl
      rw [hnxf]
      exact reach_skip r hpn hppc hyc
    · intro o' hp
      simp [retOf] at hp; subst hp
      have hitc := h.eorig t c (by simp [hpc, curNode])
      rw [hitc] at c01; injection c01 with c01; injection c01 with c01; subst c01
      refine ⟨c, hitc, ?_⟩
      simp only [setPc_nodes, setNext_nodes, upd_other _ _ _ _ (Ne.symm hppc)]
      exact c02
    · intro u hut hr
      exfalso
      have a := (hx.i.a.wm u).1 (retOf_holds hr)
      have b := (hx.i.a.wm t).1 (by simp [hpc, holdsW])
      rw [a] at b; injection b with b; exact hut b
  case dFreN m nx hpc =>
    conv => arg 2; simp only [ghUpd, hpc]
    have hdt := hx.i.a.dtd t (by simp [hpc, inDtor])
    have hnoit : ∀ u, s.it u = none := by
      intro u
      cases hc : s.it u with
      | none => rfl
      | some v =>
        obtain ⟨w, r, hr⟩ := hx.i.a.itr u (by rw [hc]; simp)
        have := no_hnd_in_dt hx.i.a hdt u; rw [hr] at this; cases this
    have hit' : ({ (s.setNled m .freed) with lst := s.lst.erase m }.dNodeAt t nx).it = s.it := by cases nx <;> rfl
    obtain ⟨g1, g2, g3, g4, g5⟩ := h
    refine ⟨?_, ?_, ?_, ?_, ?_⟩
    · intro u hu; rw [hit', hnoit u] at hu; exact absurd rfl hu
    · intro u c hc; rw [hit', hnoit u] at hc; cases hc
    · intro u hu; rw [hit', hnoit u] at hu; exact absurd rfl hu
    · intro u c hp
      exfalso
      by_cases hut : u = t
      · subst hut; cases nx <;> simp [St.dNodeAt, curNode] at hp
      · have : ({ (s.setNled m .freed) with lst := s.lst.erase m }.dNodeAt t nx).pc u = s.pc u := by
          cases nx <;> simp [St.dNodeAt, hut]
        rw [this] at hp
        have := g4 u c hp; rw [hnoit u] at this; cases this
    · intro u o hp
      exfalso
      by_cases hut : u = t
      · subst hut; cases nx <;> simp [St.dNodeAt, retOf] at hp
      · have : ({ (s.setNled m .freed) with lst := s.lst.erase m }.dNodeAt t nx).pc u = s.pc u := by
          cases nx <;> simp [St.dNodeAt, hut]
        rw [this] at hp
        obtain ⟨c, c1, _⟩ := g5 u o hp; rw [hnoit u] at c1; cases c1
  case nxt w r n o hpc hh hi' ho =>
    conv => arg 2; simp only [ghUpd, hpc]
    exact invG_advance (t := t) h n _ hi' (Or.inr rfl) rfl rfl rfl rfl (fun u hut => by simp [hut]) (by simp [curNode]) (by simp [retOf])
  case eUnlock orig hpc hm =>
    conv => arg 2; simp only [ghUpd, hpc]
    obtain ⟨c, c1, c2⟩ := h.eret t orig (by simp [hpc, retOf])
    by_cases hsame : s.it t = some orig
    · rw [if_pos hsame]
      have hit : ({ s with wmtx := none, it := upd s.it t (some orig) }.setPc t (.retp (.erase true))).it = s.it := by
        funext u
        simp only [setPc_it]
        by_cases hut : u = t
        · subst hut; rw [upd_same, hsame]
        · rw [upd_other _ _ _ _ hut]
      exact invG_frame (t := t) h hitv (fun y hy => Or.inl hy) (fun y hy => hy) (fun _ _ _ _ _ r => r) hit
        (fun u hut => by simp [hut]) (by intro c hp; simp [curNode] at hp) (by intro o hp; simp [retOf] at hp)
        (fun _ _ _ _ _ => rfl)
    · rw [if_neg hsame]
      exact invG_advance (t := t) h c _ c1 c2 rfl rfl rfl rfl (fun u hut => by simp [hut]) (by simp [curNode]) (by simp [retOf])
  case beg w r o hpc hh ho =>
    conv => arg 2; simp only [ghUpd, hpc]
    have hdt := dt_false_of_hnd hx.i.a (t := t) (by rw [hh]; simp)
    have hhd : s.head = s.lst.head? := hx.i.c.hd hdt
    obtain ⟨g1, g2, g3, g4, g5⟩ := h
    refine ⟨?_, ?_, ?_, ?_, ?_⟩
    · intro u hu y hy hyl
      simp only [setPc_it, setPc_lst, setPc_nodes] at hu hy hyl ⊢
      by_cases hut : u = t
      · subst hut
        rw [upd_same] at hy ⊢; rw [upd_same]
        cases hh0 : s.head with
        | none => rw [hh0] at hhd; rw [head?_eq_none hhd.symm] at hyl; cases hyl
        | some h0 =>
          rw [hh0] at hhd
          rcases mem_head_or_below hhd.symm hyl with e | e
          · left; subst e; simp
          · right
            exact ⟨h0, rfl, reach_of_below hnd hnx0 _ h0 y rfl (mem_of_head? hhd.symm) e⟩
      · rw [upd_other _ _ _ _ hut] at hu hy ⊢; rw [upd_other _ _ _ _ hut]
        exact g1 u hu y hy hyl
    · intro u c hc
      simp only [setPc_it] at hc ⊢
      by_cases hut : u = t
      · subst hut; rw [upd_same] at hc ⊢; injection hc with hc; rw [hc]; simp
      · rw [upd_other _ _ _ _ hut] at hc ⊢; exact g2 u c hc
    · intro u hu y hy
      simp only [setPc_it, setPc_order] at hu hy ⊢
      by_cases hut : u = t
      · subst hut; rw [upd_same] at hy; exact hsubo y hy
      · rw [upd_other _ _ _ _ hut] at hu hy; exact g3 u hu y hy
    · intro u c hp
      simp only [setPc_pc, setPc_it] at hp ⊢
      by_cases hut : u = t
      · subst hut; rw [upd_same] at hp; simp [curNode] at hp
      · rw [upd_other _ _ _ _ hut] at hp ⊢; exact g4 u c hp
    · intro u o' hp
      simp only [setPc_pc, setPc_it, setPc_nodes] at hp ⊢
      by_cases hut : u = t
      · subst hut; rw [upd_same] at hp; simp [retOf] at hp
      · rw [upd_other _ _ _ _ hut] at hp ⊢; exact g5 u o' hp

end ConcVerif.Rcu
