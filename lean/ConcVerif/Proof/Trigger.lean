import ConcVerif.Model.Trigger
/-! Invariants of the TriggerVariable model.

`InvL` — the synchronisation invariant (mutex holders, wait sets, no lost wake-up, values checked under
the mutex); generic in the `Side`.  `InvH` — the ghost history explains the flags and the observations
recorded by waiters.  `InvR` — what `reset` knows.  Each is proved with one frame lemma per kind of
transition; `inv_step` dispatches the branches of `step`. -/
namespace ConcVerif.Trigger

/-! ## classification of program counters -/

/-- the thread holds mutex `m` -/
def Pc.holds (m : Side) : Pc → Bool
  | .aClear | .aUnlockT | .tHold _ _ _ => decide (m = .trig)
  | .aHold _ _ | .rLocked | .rLoop | .rRelease | .rStore | .rUnlock _ => decide (m = .act)
  | .wHold k _ | .wTimedOut k | .wLate k | .wUnlock k _ => decide (k.side = m)
  | _ => false

/-- stored `true` into flag `m`, `notify_all` still to come -/
def Pc.notifying (m : Side) : Pc → Bool
  | .tHold _ true false => decide (m = .trig)
  | .aHold true false => decide (m = .act)
  | _ => false

/-- has notified cv `m` and still holds the mutex -/
def Pc.notified (m : Side) : Pc → Bool
  | .tHold _ _ true => decide (m = .trig)
  | .aHold _ true => decide (m = .act)
  | _ => false

/-- inside the wait of cv `m` -/
def Pc.sleeping (m : Side) : Pc → Bool
  | .wSleep k => decide (k.side = m)
  | _ => false

/-- holds mutex `m` and knows flag `m` is false -/
def Pc.sawFalse (m : Side) : Pc → Bool
  | .wHold k true | .wTimedOut k | .wUnlock k false => decide (k.side = m)
  | .rUnlock _ => decide (m = .act)
  | _ => false

/-- pcs only the timed waits can be at -/
def Pc.needsTimed : Pc → Option WKind
  | .wTimedOut k | .wLate k | .wUnlock k false | .wRet k false => some k
  | _ => none

/-- inside `activate()`, between the clear step and the set-active step -/
def Pc.pending : Pc → Bool
  | .aUnlockT | .aLockA | .aHold false _ => true
  | _ => false

structure InvL (s : St) : Prop where
  holder : ∀ m t, (s.pc t).holds m = true ↔ s.lock m = some t
  sleepers : ∀ m t, t ∈ s.ws m → (s.pc t).sleeping m = true
  nodup : ∀ m, (s.ws m).Nodup
  lost : ∀ m, s.ws m ≠ [] → s.flag m = false ∨ ∃ t, (s.pc t).notifying m = true
  notif : ∀ m t, (s.pc t).notified m = true → s.ws m = []
  checked : ∀ m t, (s.pc t).sawFalse m = true → s.flag m = false
  untimed : ∀ t k, (s.pc t).needsTimed = some k → k.timed = true

theorem invL_init (a : Bool) : InvL (init a) := by
  constructor <;> simp [init, Pc.holds, Pc.sleeping, Pc.notifying, Pc.notified, Pc.sawFalse, Pc.needsTimed]

@[simp] theorem updS_same {α : Type} (f : Side → α) (m : Side) (a : α) : updS f m a m = a := by simp [updS]
theorem updS_self {α : Type} (f : Side → α) (m : Side) : updS f m (f m) = f := by
  funext x; simp only [updS]; split <;> simp_all
theorem updS_apply {α : Type} (f : Side → α) (m x : Side) (a : α) : updS f m a x = if x = m then a else f x := rfl

@[simp] theorem setPc_pc (s : St) (t : Tid) (p : Pc) : (s.setPc t p).pc = upd s.pc t p := rfl
@[simp] theorem setPc_flag (s : St) (t : Tid) (p : Pc) : (s.setPc t p).flag = s.flag := rfl
@[simp] theorem setPc_lock (s : St) (t : Tid) (p : Pc) : (s.setPc t p).lock = s.lock := rfl
@[simp] theorem setPc_ws (s : St) (t : Tid) (p : Pc) : (s.setPc t p).ws = s.ws := rfl
@[simp] theorem setPc_hist (s : St) (t : Tid) (p : Pc) : (s.setPc t p).hist = s.hist := rfl
@[simp] theorem setPc_lastClear (s : St) (t : Tid) (p : Pc) : (s.setPc t p).lastClear = s.lastClear := rfl
@[simp] theorem setPc_actClear (s : St) (t : Tid) (p : Pc) : (s.setPc t p).actClear = s.actClear := rfl
@[simp] theorem setPc_myClear (s : St) (t : Tid) (p : Pc) : (s.setPc t p).myClear = s.myClear := rfl
@[simp] theorem setPc_obs (s : St) (t : Tid) (p : Pc) : (s.setPc t p).obs = s.obs := rfl

/-- the mutex holder is unique -/
theorem holder_unique {s : St} (h : InvL s) {m : Side} {t u : Tid} (ht : (s.pc t).holds m = true)
    (hu : (s.pc u).holds m = true) : u = t := by
  have a := (h.holder m t).1 ht
  have b := (h.holder m u).1 hu
  rw [a] at b; injection b with b; exact b.symm

theorem not_waiting {s : St} (h : InvL s) {t : Tid} {m : Side} (hns : (s.pc t).sleeping m = false) :
    t ∉ s.ws m := by
  intro hin; have := h.sleepers m t hin; simp [hns] at this

theorem notifying_holds {p : Pc} {m : Side} (h : p.notifying m = true) : p.holds m = true := by
  cases p <;> simp [Pc.notifying] at h <;> simp [Pc.holds]
  all_goals (rename_i st nt; cases st <;> cases nt <;> simp [Pc.notifying] at h <;> exact h)

theorem notified_holds {p : Pc} {m : Side} (h : p.notified m = true) : p.holds m = true := by
  cases p <;> simp [Pc.notified] at h <;> simp [Pc.holds]
  all_goals (rename_i nt; cases nt <;> simp [Pc.notified] at h <;> exact h)

theorem sawFalse_holds {p : Pc} {m : Side} (h : p.sawFalse m = true) : p.holds m = true := by
  cases p <;> simp [Pc.sawFalse] at h <;> simp [Pc.holds]
  all_goals (first | exact h | (rename_i f; cases f <;> simp [Pc.sawFalse] at h <;> exact h))

theorem sleeping_not_holds {p : Pc} {m m' : Side} (h : p.sleeping m = true) : p.holds m' = false := by
  cases p <;> simp [Pc.sleeping] at h <;> simp [Pc.holds]

/-! ## frame lemmas for `InvL`

They are stated for an arbitrary successor `s'` whose synchronisation fields are given by equations, so
that updates of ghost fields are irrelevant. -/

/-- thread `t` only changes its pc -/
theorem invL_pc {s s' : St} {t : Tid} {p' : Pc} (h : InvL s)
    (ef : s'.flag = s.flag) (el : s'.lock = s.lock) (ew : s'.ws = s.ws) (ep : s'.pc = upd s.pc t p')
    (hh : ∀ m, p'.holds m = (s.pc t).holds m)
    (hsl : ∀ m, (s.pc t).sleeping m = false)
    (hn : ∀ m, (s.pc t).notifying m = false)
    (hnt : ∀ m, p'.notified m = true → (s.pc t).notified m = true)
    (hc : ∀ m, p'.sawFalse m = true → (s.pc t).sawFalse m = true ∨ s.flag m = false)
    (hu : ∀ k, p'.needsTimed = some k → k.timed = true) :
    InvL s' := by
  obtain ⟨h1, h2, h3, h4, h5, h6, h7⟩ := h
  refine ⟨?_, ?_, ?_, ?_, ?_, ?_, ?_⟩
  all_goals simp only [ef, el, ew, ep, upd_apply]
  · intro m u; by_cases hu' : u = t
    · subst hu'; simp [hh]; exact h1 m u
    · simp [hu']; exact h1 m u
  · intro m u hin; by_cases hu' : u = t
    · subst hu'; have := h2 m u hin; simp [hsl] at this
    · simp [hu']; exact h2 m u hin
  · exact h3
  · intro m hne
    rcases h4 m hne with h | ⟨u, hu'⟩
    · exact Or.inl h
    · by_cases hut : u = t
      · subst hut; simp [hn] at hu'
      · exact Or.inr ⟨u, by simp [hut, hu']⟩
  · intro m u; by_cases hu' : u = t
    · subst hu'; simp; intro hx; exact h5 m u (hnt m hx)
    · simp [hu']; exact h5 m u
  · intro m u; by_cases hu' : u = t
    · subst hu'; simp; intro hx
      rcases hc m hx with hx | hx
      · exact h6 m u hx
      · exact hx
    · simp [hu']; exact h6 m u
  · intro u k; by_cases hu' : u = t
    · subst hu'; simp; exact hu k
    · simp [hu']; exact h7 u k

/-- `mlk m` -/
theorem invL_acquire {s s' : St} {t : Tid} {m : Side} {p' : Pc} (h : InvL s) (hm : s.lock m = none)
    (ef : s'.flag = s.flag) (el : s'.lock = updS s.lock m (some t)) (ew : s'.ws = s.ws)
    (ep : s'.pc = upd s.pc t p')
    (hold : ∀ m', (s.pc t).holds m' = false)
    (hh : ∀ m', p'.holds m' = decide (m' = m))
    (hsl : ∀ m', (s.pc t).sleeping m' = false)
    (hnt : ∀ m', p'.notified m' = false)
    (hc : ∀ m', p'.sawFalse m' = false)
    (hu : p'.needsTimed = none) :
    InvL s' := by
  have hn : ∀ m', (s.pc t).notifying m' = false := by
    intro m'; cases hx : (s.pc t).notifying m' with
    | false => rfl
    | true => have := notifying_holds hx; simp [hold] at this
  obtain ⟨h1, h2, h3, h4, h5, h6, h7⟩ := h
  refine ⟨?_, ?_, ?_, ?_, ?_, ?_, ?_⟩
  all_goals simp only [ef, el, ew, ep, upd_apply, updS_apply]
  · intro m' u; by_cases hu' : u = t
    · subst hu'; simp [hh]
      by_cases hmm : m' = m
      · simp [hmm]
      · simp [hmm]; have := h1 m' u; simp [hold] at this; exact this
    · simp [hu']
      by_cases hmm : m' = m
      · subst hmm; simp; have := h1 m' u; simp [hm] at this; simp [this]; exact fun h => hu' h.symm
      · simp [hmm]; exact h1 m' u
  · intro m' u hin; by_cases hu' : u = t
    · subst hu'; have := h2 m' u hin; simp [hsl] at this
    · simp [hu']; exact h2 m' u hin
  · exact h3
  · intro m' hne
    rcases h4 m' hne with h | ⟨u, hu'⟩
    · exact Or.inl h
    · by_cases hut : u = t
      · subst hut; simp [hn] at hu'
      · exact Or.inr ⟨u, by simp [hut, hu']⟩
  · intro m' u; by_cases hu' : u = t
    · subst hu'; simp [hnt]
    · simp [hu']; exact h5 m' u
  · intro m' u; by_cases hu' : u = t
    · subst hu'; simp [hc]
    · simp [hu']; exact h6 m' u
  · intro u k; by_cases hu' : u = t
    · subst hu'; simp [hu]
    · simp [hu']; exact h7 u k

/-- `mul m` -/
theorem invL_release {s s' : St} {t : Tid} {m : Side} {p' : Pc} (h : InvL s) (hm : s.lock m = some t)
    (ef : s'.flag = s.flag) (el : s'.lock = updS s.lock m none) (ew : s'.ws = s.ws)
    (ep : s'.pc = upd s.pc t p')
    (hold : ∀ m', m' ≠ m → (s.pc t).holds m' = false)
    (hh : ∀ m', p'.holds m' = false)
    (hn : (s.pc t).notifying m = false)
    (hu : ∀ k, p'.needsTimed = some k → k.timed = true) :
    InvL s' := by
  have hholds : (s.pc t).holds m = true := (h.holder m t).2 hm
  have hsl : ∀ m', (s.pc t).sleeping m' = false := by
    intro m'; cases hx : (s.pc t).sleeping m' with
    | false => rfl
    | true => have := sleeping_not_holds (m' := m) hx; simp [hholds] at this
  have hn' : ∀ m', (s.pc t).notifying m' = false := by
    intro m'; by_cases hmm : m' = m
    · subst hmm; exact hn
    · cases hx : (s.pc t).notifying m' with
      | false => rfl
      | true => have := notifying_holds hx; simp [hold m' hmm] at this
  have hnt : ∀ m', p'.notified m' = false := by
    intro m'; cases hx : p'.notified m' with
    | false => rfl
    | true => have := notified_holds hx; simp [hh] at this
  have hc : ∀ m', p'.sawFalse m' = false := by
    intro m'; cases hx : p'.sawFalse m' with
    | false => rfl
    | true => have := sawFalse_holds hx; simp [hh] at this
  obtain ⟨h1, h2, h3, h4, h5, h6, h7⟩ := h
  refine ⟨?_, ?_, ?_, ?_, ?_, ?_, ?_⟩
  all_goals simp only [ef, el, ew, ep, upd_apply, updS_apply]
  · intro m' u; by_cases hu' : u = t
    · subst hu'; simp [hh]
      by_cases hmm : m' = m
      · simp [hmm]
      · simp [hmm]; have := h1 m' u; simp [hold m' hmm] at this; exact this
    · simp [hu']
      by_cases hmm : m' = m
      · subst hmm; simp
        cases hx : (s.pc u).holds m' with
        | false => rfl
        | true => have := (h1 m' u).1 hx; rw [hm] at this; injection this with this; exact absurd this.symm hu'
      · simp [hmm]; exact h1 m' u
  · intro m' u hin; by_cases hu' : u = t
    · subst hu'; have := h2 m' u hin; simp [hsl] at this
    · simp [hu']; exact h2 m' u hin
  · exact h3
  · intro m' hne
    rcases h4 m' hne with h | ⟨u, hu'⟩
    · exact Or.inl h
    · by_cases hut : u = t
      · subst hut; simp [hn'] at hu'
      · exact Or.inr ⟨u, by simp [hut, hu']⟩
  · intro m' u; by_cases hu' : u = t
    · subst hu'; simp [hnt]
    · simp [hu']; exact h5 m' u
  · intro m' u; by_cases hu' : u = t
    · subst hu'; simp [hc]
    · simp [hu']; exact h6 m' u
  · intro u k; by_cases hu' : u = t
    · subst hu'; simp; exact hu k
    · simp [hu']; exact h7 u k

/-- a store of `true` into flag `m` by the holder of mutex `m` (set-triggered / set-active) -/
theorem invL_storeTrue {s s' : St} {t : Tid} {m : Side} {p' : Pc} (h : InvL s) (hm : s.lock m = some t)
    (ef : s'.flag = updS s.flag m true) (el : s'.lock = s.lock) (ew : s'.ws = s.ws)
    (ep : s'.pc = upd s.pc t p')
    (hh : ∀ m', p'.holds m' = (s.pc t).holds m')
    (hn : ∀ m', (s.pc t).notifying m' = false)
    (hnt : ∀ m', p'.notified m' = (s.pc t).notified m')
    (hnf : p'.notifying m = true ∨ (s.pc t).notified m = true)
    (hc : ∀ m', p'.sawFalse m' = false)
    (hu : p'.needsTimed = none) :
    InvL s' := by
  have hholds : (s.pc t).holds m = true := (h.holder m t).2 hm
  have hsl : ∀ m', (s.pc t).sleeping m' = false := by
    intro m'; cases hx : (s.pc t).sleeping m' with
    | false => rfl
    | true => have := sleeping_not_holds (m' := m) hx; simp [hholds] at this
  have huniq : ∀ u, (s.pc u).holds m = true → u = t := fun u hu => holder_unique h hholds hu
  obtain ⟨h1, h2, h3, h4, h5, h6, h7⟩ := h
  refine ⟨?_, ?_, ?_, ?_, ?_, ?_, ?_⟩
  all_goals simp only [ef, el, ew, ep, upd_apply, updS_apply]
  · intro m' u; by_cases hu' : u = t
    · subst hu'; simp [hh]; exact h1 m' u
    · simp [hu']; exact h1 m' u
  · intro m' u hin; by_cases hu' : u = t
    · subst hu'; have := h2 m' u hin; simp [hsl] at this
    · simp [hu']; exact h2 m' u hin
  · exact h3
  · intro m' hne
    by_cases hmm : m' = m
    · subst hmm
      rcases hnf with hx | hx
      · exact Or.inr ⟨t, by simp [hx]⟩
      · exact absurd (h5 m' t hx) hne
    · rcases h4 m' hne with h | ⟨u, hu'⟩
      · exact Or.inl (by simp [hmm, h])
      · by_cases hut : u = t
        · subst hut; simp [hn] at hu'
        · exact Or.inr ⟨u, by simp [hut, hu']⟩
  · intro m' u; by_cases hu' : u = t
    · subst hu'; simp [hnt]; exact h5 m' u
    · simp [hu']; exact h5 m' u
  · intro m' u; by_cases hu' : u = t
    · subst hu'; simp [hc]
    · simp [hu']; intro hx
      by_cases hmm : m' = m
      · subst hmm; exact absurd (huniq u (sawFalse_holds hx)) hu'
      · simp [hmm]; exact h6 m' u hx
  · intro u k; by_cases hu' : u = t
    · subst hu'; simp [hu]
    · simp [hu']; exact h7 u k

/-- a store of `false` into flag `m` by the holder of mutex `m` (clear / set-inactive) -/
theorem invL_storeFalse {s s' : St} {t : Tid} {m : Side} {p' : Pc} (h : InvL s) (hm : s.lock m = some t)
    (ef : s'.flag = updS s.flag m false) (el : s'.lock = s.lock) (ew : s'.ws = s.ws)
    (ep : s'.pc = upd s.pc t p')
    (hh : ∀ m', p'.holds m' = (s.pc t).holds m')
    (hn : ∀ m', (s.pc t).notifying m' = false)
    (hnt : ∀ m', p'.notified m' = false)
    (hc : ∀ m', p'.sawFalse m' = true → m' = m)
    (hu : p'.needsTimed = none) :
    InvL s' := by
  have hholds : (s.pc t).holds m = true := (h.holder m t).2 hm
  have hsl : ∀ m', (s.pc t).sleeping m' = false := by
    intro m'; cases hx : (s.pc t).sleeping m' with
    | false => rfl
    | true => have := sleeping_not_holds (m' := m) hx; simp [hholds] at this
  obtain ⟨h1, h2, h3, h4, h5, h6, h7⟩ := h
  refine ⟨?_, ?_, ?_, ?_, ?_, ?_, ?_⟩
  all_goals simp only [ef, el, ew, ep, upd_apply, updS_apply]
  · intro m' u; by_cases hu' : u = t
    · subst hu'; simp [hh]; exact h1 m' u
    · simp [hu']; exact h1 m' u
  · intro m' u hin; by_cases hu' : u = t
    · subst hu'; have := h2 m' u hin; simp [hsl] at this
    · simp [hu']; exact h2 m' u hin
  · exact h3
  · intro m' hne
    by_cases hmm : m' = m
    · exact Or.inl (by simp [hmm])
    · rcases h4 m' hne with h | ⟨u, hu'⟩
      · exact Or.inl (by simp [hmm, h])
      · by_cases hut : u = t
        · subst hut; simp [hn] at hu'
        · exact Or.inr ⟨u, by simp [hut, hu']⟩
  · intro m' u; by_cases hu' : u = t
    · subst hu'; simp [hnt]
    · simp [hu']; exact h5 m' u
  · intro m' u; by_cases hu' : u = t
    · subst hu'; simp; intro hx; simp [hc m' hx]
    · simp [hu']; intro hx
      by_cases hmm : m' = m
      · simp [hmm]
      · simp [hmm]; exact h6 m' u hx
  · intro u k; by_cases hu' : u = t
    · subst hu'; simp [hu]
    · simp [hu']; exact h7 u k

/-- `notify_all` on cv `m` by the holder of mutex `m` -/
theorem invL_cna {s s' : St} {t : Tid} {m : Side} {p' : Pc} (h : InvL s) (hm : s.lock m = some t)
    (ef : s'.flag = s.flag) (el : s'.lock = s.lock) (ew : s'.ws = updS s.ws m [])
    (ep : s'.pc = upd s.pc t p')
    (hold : ∀ m', m' ≠ m → (s.pc t).holds m' = false)
    (hh : ∀ m', p'.holds m' = (s.pc t).holds m')
    (hnt : ∀ m', p'.notified m' = true → m' = m)
    (hc : ∀ m', p'.sawFalse m' = false)
    (hu : p'.needsTimed = none) :
    InvL s' := by
  have hholds : (s.pc t).holds m = true := (h.holder m t).2 hm
  have hsl : ∀ m', (s.pc t).sleeping m' = false := by
    intro m'; cases hx : (s.pc t).sleeping m' with
    | false => rfl
    | true => have := sleeping_not_holds (m' := m) hx; simp [hholds] at this
  obtain ⟨h1, h2, h3, h4, h5, h6, h7⟩ := h
  refine ⟨?_, ?_, ?_, ?_, ?_, ?_, ?_⟩
  all_goals simp only [ef, el, ew, ep, upd_apply, updS_apply]
  · intro m' u; by_cases hu' : u = t
    · subst hu'; simp [hh]; exact h1 m' u
    · simp [hu']; exact h1 m' u
  · intro m' u; by_cases hmm : m' = m
    · simp [hmm]
    · simp [hmm]; intro hin; by_cases hu' : u = t
      · subst hu'; have := h2 m' u hin; simp [hsl] at this
      · simp [hu']; exact h2 m' u hin
  · intro m'; by_cases hmm : m' = m
    · simp [hmm]
    · simp [hmm]; exact h3 m'
  · intro m'; by_cases hmm : m' = m
    · simp [hmm]
    · simp [hmm]; intro hne
      rcases h4 m' hne with h | ⟨u, hu'⟩
      · exact Or.inl h
      · by_cases hut : u = t
        · subst hut; have := notifying_holds hu'; simp [hold m' hmm] at this
        · exact Or.inr ⟨u, by simp [hut, hu']⟩
  · intro m' u; by_cases hmm : m' = m
    · simp [hmm]
    · simp [hmm]; by_cases hu' : u = t
      · subst hu'; simp; intro hx; exact absurd (hnt m' hx) hmm
      · simp [hu']; exact h5 m' u
  · intro m' u; by_cases hu' : u = t
    · subst hu'; simp [hc]
    · simp [hu']; exact h6 m' u
  · intro u k; by_cases hu' : u = t
    · subst hu'; simp [hu]
    · simp [hu']; exact h7 u k

/-- entering the cv wait: atomically release the mutex and join the wait set -/
theorem invL_cwt {s s' : St} {t : Tid} {k : WKind} (h : InvL s) (hpc : s.pc t = .wHold k true)
    (hm : s.lock k.side = some t)
    (ef : s'.flag = s.flag) (el : s'.lock = updS s.lock k.side none)
    (ew : s'.ws = updS s.ws k.side (t :: s.ws k.side)) (ep : s'.pc = upd s.pc t (.wSleep k)) :
    InvL s' := by
  have hholds : (s.pc t).holds k.side = true := (h.holder k.side t).2 hm
  have huniq : ∀ u, (s.pc u).holds k.side = true → u = t := fun u hu => holder_unique h hholds hu
  have hfl : s.flag k.side = false := h.checked k.side t (by simp [hpc, Pc.sawFalse])
  have htw : t ∉ s.ws k.side := not_waiting h (by simp [hpc, Pc.sleeping])
  obtain ⟨h1, h2, h3, h4, h5, h6, h7⟩ := h
  refine ⟨?_, ?_, ?_, ?_, ?_, ?_, ?_⟩
  all_goals simp only [ef, el, ew, ep, upd_apply, updS_apply]
  · intro m' u; by_cases hu' : u = t
    · subst hu'; simp [Pc.holds]
      by_cases hmm : m' = k.side
      · simp [hmm]
      · simp [hmm]; have := h1 m' u; simp [hpc, Pc.holds] at this; intro hx; have := this.2 hx; exact hmm this.symm
    · simp [hu']
      by_cases hmm : m' = k.side
      · subst hmm; simp
        cases hx : (s.pc u).holds k.side with
        | false => rfl
        | true => exact absurd (huniq u hx) hu'
      · simp [hmm]; exact h1 m' u
  · intro m' u; by_cases hmm : m' = k.side
    · subst hmm; simp; intro hin
      by_cases hu' : u = t
      · subst hu'; simp [Pc.sleeping]
      · simp [hu'] at hin ⊢; exact h2 k.side u hin
    · simp [hmm]; intro hin; by_cases hu' : u = t
      · subst hu'; have := h2 m' u hin; simp [hpc, Pc.sleeping] at this
      · simp [hu']; exact h2 m' u hin
  · intro m'; by_cases hmm : m' = k.side
    · subst hmm; simp; exact ⟨htw, h3 k.side⟩
    · simp [hmm]; exact h3 m'
  · intro m'; by_cases hmm : m' = k.side
    · subst hmm; simp; exact Or.inl hfl
    · simp [hmm]; intro hne
      rcases h4 m' hne with h | ⟨u, hu'⟩
      · exact Or.inl h
      · by_cases hut : u = t
        · subst hut; simp [hpc, Pc.notifying] at hu'
        · exact Or.inr ⟨u, by simp [hut, hu']⟩
  · intro m' u; by_cases hu' : u = t
    · subst hu'; simp [Pc.notified]
    · simp [hu']; intro hx
      by_cases hmm : m' = k.side
      · subst hmm; exact absurd (huniq u (notified_holds hx)) hu'
      · simp [hmm]; exact h5 m' u hx
  · intro m' u; by_cases hu' : u = t
    · subst hu'; simp [Pc.sawFalse]
    · simp [hu']; exact h6 m' u
  · intro u k'; by_cases hu' : u = t
    · subst hu'; simp [Pc.needsTimed]
    · simp [hu']; exact h7 u k'

/-- leaving the cv wait (notified: not in the wait set any more; spurious / time-out: removes itself)
and re-acquiring the mutex -/
theorem invL_cwk {s s' : St} {t : Tid} {k : WKind} {p' : Pc} (h : InvL s) (hpc : s.pc t = .wSleep k)
    (hm : s.lock k.side = none)
    (ef : s'.flag = s.flag) (el : s'.lock = updS s.lock k.side (some t))
    (ew : s'.ws = updS s.ws k.side ((s.ws k.side).erase t)) (ep : s'.pc = upd s.pc t p')
    (hh : ∀ m', p'.holds m' = decide (m' = k.side))
    (hnt : ∀ m', p'.notified m' = false)
    (hc : ∀ m', p'.sawFalse m' = true → m' = k.side ∧ t ∈ s.ws k.side)
    (hu : ∀ k', p'.needsTimed = some k' → k'.timed = true) :
    InvL s' := by
  have hnone : ∀ u, (s.pc u).holds k.side = false := by
    intro u; cases hx : (s.pc u).holds k.side with
    | false => rfl
    | true => have := (h.holder k.side u).1 hx; simp [hm] at this
  obtain ⟨h1, h2, h3, h4, h5, h6, h7⟩ := h
  refine ⟨?_, ?_, ?_, ?_, ?_, ?_, ?_⟩
  all_goals simp only [ef, el, ew, ep, upd_apply, updS_apply]
  · intro m' u; by_cases hu' : u = t
    · subst hu'; simp [hh]
      by_cases hmm : m' = k.side
      · simp [hmm]
      · simp [hmm]; have := h1 m' u; simp [hpc, Pc.holds] at this; exact this
    · simp [hu']
      by_cases hmm : m' = k.side
      · subst hmm; simp [hnone u]; exact fun h => hu' h.symm
      · simp [hmm]; exact h1 m' u
  · intro m' u; by_cases hmm : m' = k.side
    · subst hmm; simp; intro hin
      by_cases hu' : u = t
      · subst hu'; exact absurd hin (by simpa using List.Nodup.not_mem_erase (h3 k.side))
      · simp [hu']; exact h2 k.side u (List.mem_of_mem_erase hin)
    · simp [hmm]; intro hin; by_cases hu' : u = t
      · subst hu'; have := h2 m' u hin; simp [hpc, Pc.sleeping] at this; exact absurd this.symm hmm
      · simp [hu']; exact h2 m' u hin
  · intro m'; by_cases hmm : m' = k.side
    · subst hmm; simp; exact (h3 k.side).erase t
    · simp [hmm]; exact h3 m'
  · intro m' hne
    have hne' : s.ws m' ≠ [] := by
      by_cases hmm : m' = k.side
      · subst hmm; simp at hne; intro he; simp [he] at hne
      · simpa [hmm] using hne
    rcases h4 m' hne' with h | ⟨u, hu'⟩
    · exact Or.inl h
    · by_cases hut : u = t
      · subst hut; simp [hpc, Pc.notifying] at hu'
      · exact Or.inr ⟨u, by simp [hut, hu']⟩
  · intro m' u; by_cases hu' : u = t
    · subst hu'; simp [hnt]
    · simp [hu']; intro hx
      have := h5 m' u hx
      by_cases hmm : m' = k.side
      · subst hmm; simp [this]
      · simp [hmm]; exact this
  · intro m' u; by_cases hu' : u = t
    · subst hu'; simp; intro hx
      obtain ⟨hmm, hin⟩ := hc m' hx
      subst hmm
      rcases h4 k.side (List.ne_nil_of_mem hin) with h | ⟨u', hu''⟩
      · exact h
      · have := notifying_holds hu''; simp [hnone u'] at this
    · simp [hu']; exact h6 m' u
  · intro u k'; by_cases hu' : u = t
    · subst hu'; simp; exact hu k'
    · simp [hu']; exact h7 u k'

/-! ## `InvL` is inductive -/

theorem acquire_some {s s' : St} {m : Side} {t : Tid} {p : Pc} (h : s.acquire m t p = some s') :
    s.lock m = none ∧ s' = { s with lock := updS s.lock m (some t) }.setPc t p := by
  unfold St.acquire at h
  split at h
  · rename_i hm; injection h with h; exact ⟨hm, h.symm⟩
  · contradiction

theorem release_some {s s' : St} {m : Side} {t : Tid} {p : Pc} (h : s.release m t p = some s') :
    s.lock m = some t ∧ s' = { s with lock := updS s.lock m none }.setPc t p := by
  unfold St.release at h
  split at h
  · rename_i hm; injection h with h; exact ⟨hm, h.symm⟩
  · contradiction

/-- closes the side conditions of the frame lemmas: facts about the classification of concrete pcs -/
macro "trg_pcs" hpc:ident : tactic =>
  `(tactic| (intros; simp_all [$hpc:ident, Pc.holds, Pc.notifying, Pc.notified, Pc.sleeping, Pc.sawFalse, Pc.needsTimed, Ctx.after]))

theorem invL_step (s : St) (t : Tid) (e : Ev) (s' : St) (h : InvL s) (hs : step s t e = some s') : InvL s' := by
  unfold step at hs
  split at hs
  case h_1 | h_2 | h_3 | h_4 | h_5 | h_6 | h_7 | h_8 | h_9 =>
    rename_i hpc; injection hs with hs; subst hs
    exact invL_pc h rfl rfl rfl rfl (by trg_pcs hpc) (by trg_pcs hpc) (by trg_pcs hpc) (by trg_pcs hpc) (by trg_pcs hpc) (by trg_pcs hpc)
  case h_10 =>
    rename_i v hpc; split at hs
    · injection hs with hs; subst hs
      cases v <;>
        exact invL_pc h rfl rfl rfl rfl (by trg_pcs hpc) (by trg_pcs hpc) (by trg_pcs hpc) (by trg_pcs hpc) (by trg_pcs hpc) (by trg_pcs hpc)
    · contradiction
  case h_11 =>
    rename_i hpc; obtain ⟨hm, rfl⟩ := acquire_some hs
    exact invL_acquire h hm rfl rfl rfl rfl (by trg_pcs hpc) (by trg_pcs hpc) (by trg_pcs hpc) (by trg_pcs hpc) (by trg_pcs hpc) (by trg_pcs hpc)
  case h_12 =>
    rename_i hpc; injection hs with hs; subst hs
    have hm := (h.holder .trig t).1 (by trg_pcs hpc)
    exact invL_storeFalse h hm rfl rfl rfl rfl (by trg_pcs hpc) (by trg_pcs hpc) (by trg_pcs hpc) (by trg_pcs hpc) (by trg_pcs hpc)
  case h_13 =>
    rename_i hpc; obtain ⟨hm, rfl⟩ := release_some hs
    exact invL_release h hm rfl rfl rfl rfl (by trg_pcs hpc) (by trg_pcs hpc) (by trg_pcs hpc) (by trg_pcs hpc)
  case h_14 =>
    rename_i hpc; obtain ⟨hm, rfl⟩ := acquire_some hs
    exact invL_acquire h hm rfl rfl rfl rfl (by trg_pcs hpc) (by trg_pcs hpc) (by trg_pcs hpc) (by trg_pcs hpc) (by trg_pcs hpc) (by trg_pcs hpc)
  case h_15 =>
    rename_i nt hpc; injection hs with hs; subst hs
    have hm := (h.holder .act t).1 (by trg_pcs hpc)
    cases nt <;>
      exact invL_storeTrue h hm rfl rfl rfl rfl (by trg_pcs hpc) (by trg_pcs hpc) (by trg_pcs hpc) (by trg_pcs hpc) (by trg_pcs hpc) (by trg_pcs hpc)
  case h_16 =>
    rename_i st hpc; injection hs with hs; subst hs
    have hm := (h.holder .act t).1 (by trg_pcs hpc)
    exact invL_cna h hm rfl rfl rfl rfl (by trg_pcs hpc) (by trg_pcs hpc) (by trg_pcs hpc) (by trg_pcs hpc) (by trg_pcs hpc)
  case h_17 =>
    rename_i hpc; obtain ⟨hm, rfl⟩ := release_some hs
    exact invL_release h hm rfl rfl rfl rfl (by trg_pcs hpc) (by trg_pcs hpc) (by trg_pcs hpc) (by trg_pcs hpc)
  case h_18 | h_24 =>
    rename_i hpc; split at hs
    · injection hs with hs; subst hs
      exact invL_pc h rfl rfl rfl rfl (by trg_pcs hpc) (by trg_pcs hpc) (by trg_pcs hpc) (by trg_pcs hpc) (by trg_pcs hpc) (by trg_pcs hpc)
    · contradiction
  case h_19 =>
    rename_i x v hpc; split at hs
    · injection hs with hs; subst hs
      cases v <;> cases x <;>
        exact invL_pc h rfl rfl rfl rfl (by trg_pcs hpc) (by trg_pcs hpc) (by trg_pcs hpc) (by trg_pcs hpc) (by trg_pcs hpc) (by trg_pcs hpc)
    · contradiction
  case h_20 =>
    rename_i x hpc; obtain ⟨hm, rfl⟩ := acquire_some hs
    exact invL_acquire h hm rfl rfl rfl rfl (by trg_pcs hpc) (by trg_pcs hpc) (by trg_pcs hpc) (by trg_pcs hpc) (by trg_pcs hpc) (by trg_pcs hpc)
  case h_21 =>
    rename_i x nt hpc; injection hs with hs; subst hs
    have hm := (h.holder .trig t).1 (by trg_pcs hpc)
    cases nt <;>
      exact invL_storeTrue h hm rfl rfl rfl rfl (by trg_pcs hpc) (by trg_pcs hpc) (by trg_pcs hpc) (by trg_pcs hpc) (by trg_pcs hpc) (by trg_pcs hpc)
  case h_22 =>
    rename_i x st hpc; injection hs with hs; subst hs
    have hm := (h.holder .trig t).1 (by trg_pcs hpc)
    exact invL_cna h hm rfl rfl rfl rfl (by trg_pcs hpc) (by trg_pcs hpc) (by trg_pcs hpc) (by trg_pcs hpc) (by trg_pcs hpc)
  case h_23 =>
    rename_i x hpc; obtain ⟨hm, rfl⟩ := release_some hs
    cases x <;>
      exact invL_release h hm rfl rfl rfl rfl (by trg_pcs hpc) (by trg_pcs hpc) (by trg_pcs hpc) (by trg_pcs hpc)
  case h_25 =>
    rename_i k v hpc; split at hs
    · injection hs with hs; subst hs
      cases v <;>
        exact invL_pc h rfl rfl rfl rfl (by trg_pcs hpc) (by trg_pcs hpc) (by trg_pcs hpc) (by trg_pcs hpc) (by trg_pcs hpc) (by trg_pcs hpc)
    · contradiction
  case h_26 =>
    rename_i k m hpc; split at hs
    · rename_i hmk; subst hmk; obtain ⟨hm, rfl⟩ := acquire_some hs
      exact invL_acquire h hm rfl rfl rfl rfl (by trg_pcs hpc) (by intro m'; simp [Pc.holds, eq_comm]) (by trg_pcs hpc)
        (by trg_pcs hpc) (by trg_pcs hpc) (by trg_pcs hpc)
    · contradiction
  case h_27 =>
    rename_i k f a v hpc; split at hs
    · rename_i hg; obtain ⟨ha, hv⟩ := hg; subst ha; injection hs with hs; subst hs
      cases v
      · refine invL_pc h rfl rfl rfl rfl (by trg_pcs hpc) (by trg_pcs hpc) (by trg_pcs hpc) (by trg_pcs hpc) ?_ (by trg_pcs hpc)
        intro m hx; simp [Pc.sawFalse] at hx; subst hx; exact Or.inr hv.symm
      · exact invL_pc h rfl rfl rfl rfl (by trg_pcs hpc) (by trg_pcs hpc) (by trg_pcs hpc) (by trg_pcs hpc) (by trg_pcs hpc) (by trg_pcs hpc)
    · contradiction
  case h_28 =>
    rename_i k m hpc; split at hs
    · rename_i hg; obtain ⟨hmk, hm⟩ := hg; subst hmk; injection hs with hs; subst hs
      exact invL_cwt h hpc hm rfl rfl rfl rfl
    · contradiction
  case h_29 =>
    rename_i k m r hpc; split at hs
    · rename_i hg; obtain ⟨hmk, hm⟩ := hg; subst hmk
      split at hs
      · split at hs
        · contradiction
        · rename_i hnin; injection hs with hs; subst hs
          refine invL_cwk h hpc hm rfl rfl ?_ rfl (by intro m'; simp [Pc.holds, eq_comm]) (by trg_pcs hpc) (by trg_pcs hpc) (by trg_pcs hpc)
          simp [List.erase_of_not_mem hnin, updS_self]
      · split at hs
        · injection hs with hs; subst hs
          exact invL_cwk h hpc hm rfl rfl rfl rfl (by intro m'; simp [Pc.holds, eq_comm]) (by trg_pcs hpc) (by trg_pcs hpc) (by trg_pcs hpc)
        · contradiction
      · split at hs
        · rename_i hg; injection hs with hs; subst hs
          refine invL_cwk h hpc hm rfl rfl rfl rfl (by intro m'; simp [Pc.holds, eq_comm]) (by trg_pcs hpc) ?_ ?_
          · intro m' hx; simp [Pc.sawFalse] at hx; exact ⟨hx.symm, hg.1⟩
          · intro k' hx; simp [Pc.needsTimed] at hx; subst hx; exact hg.2
        · contradiction
      · split at hs
        · rename_i hg; injection hs with hs; subst hs
          refine invL_cwk h hpc hm rfl rfl ?_ rfl (by intro m'; simp [Pc.holds, eq_comm]) (by trg_pcs hpc)
            (by trg_pcs hpc) ?_
          · simp [List.erase_of_not_mem hg.1, updS_self]
          · intro k' hx; simp [Pc.needsTimed] at hx; subst hx; exact hg.2
        · contradiction
    · contradiction
  case h_30 | h_43 =>
    rename_i k a v hpc; split at hs
    · rename_i hg; obtain ⟨ha, hv⟩ := hg; subst ha; injection hs with hs; subst hs
      cases v
      · refine invL_pc h rfl rfl rfl rfl (by trg_pcs hpc) (by trg_pcs hpc) (by trg_pcs hpc) (by trg_pcs hpc) ?_ ?_
        · intro m hx; simp [Pc.sawFalse] at hx; subst hx; exact Or.inr hv.symm
        · intro k' hx; simp [Pc.needsTimed] at hx; subst hx; exact h.untimed t k (by simp [hpc, Pc.needsTimed])
      · exact invL_pc h rfl rfl rfl rfl (by trg_pcs hpc) (by trg_pcs hpc) (by trg_pcs hpc) (by trg_pcs hpc) (by trg_pcs hpc) (by trg_pcs hpc)
    · contradiction
  case h_31 =>
    rename_i k r m hpc; split at hs
    · rename_i hmk; subst hmk; obtain ⟨hm, rfl⟩ := release_some hs
      refine invL_release h hm rfl rfl rfl rfl ?_ (by trg_pcs hpc) (by trg_pcs hpc) ?_
      · intro m' hne; simp [hpc, Pc.holds]; exact fun hx => hne hx.symm
      · intro k' hx; cases r <;> simp [Pc.needsTimed] at hx
        subst hx; exact h.untimed t k (by simp [hpc, Pc.needsTimed])
    · contradiction
  case h_32 | h_42 =>
    rename_i hpc; split at hs
    · injection hs with hs; subst hs
      exact invL_pc h rfl rfl rfl rfl (by trg_pcs hpc) (by trg_pcs hpc) (by trg_pcs hpc) (by trg_pcs hpc) (by trg_pcs hpc) (by trg_pcs hpc)
    · contradiction
  case h_33 | h_37 =>
    rename_i hpc; obtain ⟨hm, rfl⟩ := acquire_some hs
    exact invL_acquire h hm rfl rfl rfl rfl (by trg_pcs hpc) (by trg_pcs hpc) (by trg_pcs hpc) (by trg_pcs hpc) (by trg_pcs hpc) (by trg_pcs hpc)
  case h_34 =>
    rename_i v hpc; split at hs
    · rename_i hv; injection hs with hs; subst hs
      cases v
      · refine invL_pc h rfl rfl rfl rfl (by trg_pcs hpc) (by trg_pcs hpc) (by trg_pcs hpc) (by trg_pcs hpc) ?_ (by trg_pcs hpc)
        intro m hx; simp [Pc.sawFalse] at hx; subst hx; exact Or.inr hv.symm
      · exact invL_pc h rfl rfl rfl rfl (by trg_pcs hpc) (by trg_pcs hpc) (by trg_pcs hpc) (by trg_pcs hpc) (by trg_pcs hpc) (by trg_pcs hpc)
    · contradiction
  case h_35 =>
    rename_i o v hpc; split at hs
    · injection hs with hs; subst hs
      cases v <;>
        exact invL_pc h rfl rfl rfl rfl (by trg_pcs hpc) (by trg_pcs hpc) (by trg_pcs hpc) (by trg_pcs hpc) (by trg_pcs hpc) (by trg_pcs hpc)
    · contradiction
  case h_36 | h_39 =>
    rename_i hpc; obtain ⟨hm, rfl⟩ := release_some hs
    exact invL_release h hm rfl rfl rfl rfl (by trg_pcs hpc) (by trg_pcs hpc) (by trg_pcs hpc) (by trg_pcs hpc)
  case h_38 =>
    rename_i hpc; injection hs with hs; subst hs
    have hm := (h.holder .act t).1 (by trg_pcs hpc)
    exact invL_storeFalse h hm rfl rfl rfl rfl (by trg_pcs hpc) (by trg_pcs hpc) (by trg_pcs hpc) (by trg_pcs hpc) (by trg_pcs hpc)
  case h_40 =>
    rename_i hpc; injection hs with hs; subst hs
    exact invL_pc h rfl rfl rfl rfl (by trg_pcs hpc) (by trg_pcs hpc) (by trg_pcs hpc) (by trg_pcs hpc) (by trg_pcs hpc) (by trg_pcs hpc)
  case h_41 =>
    rename_i a a' v hpc; split at hs
    · injection hs with hs; subst hs
      exact invL_pc h rfl rfl rfl rfl (by trg_pcs hpc) (by trg_pcs hpc) (by trg_pcs hpc) (by trg_pcs hpc) (by trg_pcs hpc) (by trg_pcs hpc)
    · contradiction
  case h_44 => contradiction

theorem invL_reachable {a : Bool} {s : St} (h : Reachable a s) : InvL s := by
  obtain ⟨es, hes⟩ := h
  exact runFrom_inv invL_step (invL_init a) hes

/-! ## the ghost history: `InvG` -/

theorem get_app {α : Type} {l : List α} {i : Nat} {x : α} (h : l[i]? = some x) (l' : List α) :
    (l ++ l')[i]? = some x := by
  have hi : i < l.length := by
    rcases Nat.lt_or_ge i l.length with h' | h'
    · exact h'
    · rw [List.getElem?_eq_none h'] at h; contradiction
  rw [List.getElem?_append_left hi]; exact h

theorem get_last {α : Type} (l : List α) (x : α) : (l ++ [x])[l.length]? = some x := by simp

theorem get_lt {α : Type} {l : List α} {i : Nat} {x : α} (h : l[i]? = some x) : i < l.length := by
  rcases Nat.lt_or_ge i l.length with h' | h'
  · exact h'
  · rw [List.getElem?_eq_none h'] at h; contradiction

/-- the value of `activated` / `triggered` explained by the history -/
def actStep (b : Bool) : HEv → Bool
  | .setActive _ => true
  | .setInactive _ => false
  | _ => b
def trigStep (b : Bool) : HEv → Bool
  | .setTrig _ => true
  | .clear _ => false
  | _ => b
def actOf (h : List HEv) : Bool := h.foldl actStep false
def trigOf (h : List HEv) : Bool := h.foldl trigStep false

theorem actOf_snoc (h : List HEv) (e : HEv) : actOf (h ++ [e]) = actStep (actOf h) e := by
  simp [actOf, List.foldl_append]
theorem trigOf_snoc (h : List HEv) (e : HEv) : trigOf (h ++ [e]) = trigStep (trigOf h) e := by
  simp [trigOf, List.foldl_append]

/-- what a waiter that is about to return `true` knows, given the activation `o` it observed -/
def ResOk (hist : List HEv) (o : Option Nat) (k : WKind) : Prop :=
  (k.side = .trig → ∀ ci, o = some ci → ∃ (g : Nat) (u : Tid), ci < g ∧ hist[g]? = some (HEv.setTrig u)) ∧
  (k.side = .act → ∃ (a : Nat) (u : Tid), hist[a]? = some (HEv.setActive u))

theorem ResOk.app {hist : List HEv} {o : Option Nat} {k : WKind} (h : ResOk hist o k) (l : List HEv) :
    ResOk (hist ++ l) o k := by
  refine ⟨?_, ?_⟩
  · intro hk ci ho; obtain ⟨g, u, h1, h2⟩ := h.1 hk ci ho; exact ⟨g, u, h1, get_app h2 l⟩
  · intro hk; obtain ⟨a, u, h2⟩ := h.2 hk; exact ⟨a, u, get_app h2 l⟩

/-- the observed activation: its clear step and its set-active step are in the history -/
def ObsWf (hist : List HEv) (ci : Nat) : Prop :=
  ∃ (u : Tid) (a : Nat), hist[ci]? = some (HEv.clear u) ∧ ci < a ∧ hist[a]? = some (HEv.setActive u)

theorem ObsWf.app {hist : List HEv} {ci : Nat} (h : ObsWf hist ci) (l : List HEv) : ObsWf (hist ++ l) ci := by
  obtain ⟨u, a, h1, h2, h3⟩ := h; exact ⟨u, a, get_app h1 l, h2, get_app h3 l⟩

structure InvG (s : St) : Prop where
  lastLt : s.lastClear < s.hist.length
  trigHist : s.flag .trig = true → ∃ g u, s.lastClear < g ∧ s.hist[g]? = some (.setTrig u)
  obsLe : ∀ t ci, s.obs t = some ci → ci ≤ s.lastClear
  actLe : s.actClear ≤ s.lastClear
  myLe : ∀ t, (s.pc t).pending = true → s.myClear t ≤ s.lastClear
  res : ∀ t k, (s.pc t = .wUnlock k true ∨ s.pc t = .wRet k true) → ResOk s.hist (s.obs t) k
  actEq : s.flag .act = actOf s.hist
  trigEq : s.flag .trig = trigOf s.hist
  myWf : ∀ t, (s.pc t).pending = true → s.hist[s.myClear t]? = some (.clear t)
  actWf : s.flag .act = true → ObsWf s.hist s.actClear
  obsWf : ∀ t ci, s.obs t = some ci → ObsWf s.hist ci
  calledTrig : ∀ t k, s.pc t = .wCalled k → k.side = .trig
  resetInv : ∀ t, s.pc t = .rStore → s.flag .trig = true ∨ ∃ u, (s.pc u).pending = true
  resetDone : (∃ u, HEv.setInactive u ∈ s.hist) → s.flag .act = false →
    s.flag .trig = true ∨ ∃ u, (s.pc u).pending = true

theorem invG_init (a : Bool) : InvG (init a) := by
  cases a <;> constructor <;> simp [init, Pc.pending, actOf, trigOf, actStep, trigStep, ObsWf]
  exact ⟨1, by decide, by decide⟩

/-- thread `t` changes its pc and possibly the activation it observed; flags and history unchanged -/
theorem invG_pc {s s' : St} {t : Tid} {p' : Pc} {o : Option Nat} (h : InvG s)
    (eh : s'.hist = s.hist) (ef : s'.flag = s.flag) (elc : s'.lastClear = s.lastClear)
    (eac : s'.actClear = s.actClear) (emc : s'.myClear = s.myClear)
    (eo : ∀ u, u ≠ t → s'.obs u = s.obs u) (eot : s'.obs t = o) (ep : s'.pc = upd s.pc t p')
    (ho : o = s.obs t ∨ o = none ∨ (o = some s.actClear ∧ s.flag .act = true))
    (hpend : p'.pending = (s.pc t).pending)
    (hres : ∀ k, (p' = .wUnlock k true ∨ p' = .wRet k true) → ResOk s.hist o k)
    (hcl : ∀ k, p' = .wCalled k → k.side = .trig)
    (hrs : p' = .rStore → s.flag .trig = true ∨ ∃ u, (s.pc u).pending = true) :
    InvG s' := by
  have hpw : ∀ u, (s.pc u).pending = true → (s'.pc u).pending = true := by
    intro u hu; rw [ep]; by_cases hut : u = t
    · subst hut; simp [hpend, hu]
    · simp [hut, hu]
  have hobs : ∀ u ci, s'.obs u = some ci → (u ≠ t ∧ s.obs u = some ci) ∨ (u = t ∧ o = some ci) := by
    intro u ci hx; by_cases hut : u = t
    · subst hut; rw [eot] at hx; exact Or.inr ⟨rfl, hx⟩
    · rw [eo u hut] at hx; exact Or.inl ⟨hut, hx⟩
  obtain ⟨h1, h2, h3, h4, h5, h6, h7, h8, h9, h10, h11, h12, h13, h14⟩ := h
  refine ⟨?_, ?_, ?_, ?_, ?_, ?_, ?_, ?_, ?_, ?_, ?_, ?_, ?_, ?_⟩
  · rw [eh, elc]; exact h1
  · rw [eh, elc, ef]; exact h2
  · intro u ci hx; rw [elc]
    rcases hobs u ci hx with ⟨_, hx⟩ | ⟨_, hx⟩
    · exact h3 u ci hx
    · rcases ho with ho | ho | ⟨ho, _⟩
      · exact h3 t ci (by rw [← ho]; exact hx)
      · rw [ho] at hx; contradiction
      · rw [ho] at hx; injection hx with hx; subst hx; exact h4
  · rw [eac, elc]; exact h4
  · intro u; rw [ep, emc, elc]; by_cases hut : u = t
    · subst hut; simp [hpend]; exact h5 u
    · simp [hut]; exact h5 u
  · intro u k; rw [ep, eh]; by_cases hut : u = t
    · subst hut; simp [eot]; exact hres k
    · simp [hut, eo u hut]; exact h6 u k
  · rw [ef, eh]; exact h7
  · rw [ef, eh]; exact h8
  · intro u; rw [ep, emc, eh]; by_cases hut : u = t
    · subst hut; simp [hpend]; exact h9 u
    · simp [hut]; exact h9 u
  · rw [ef, eh, eac]; exact h10
  · intro u ci hx; rw [eh]
    rcases hobs u ci hx with ⟨_, hx⟩ | ⟨_, hx⟩
    · exact h11 u ci hx
    · rcases ho with ho | ho | ⟨ho, hact⟩
      · exact h11 t ci (by rw [← ho]; exact hx)
      · rw [ho] at hx; contradiction
      · rw [ho] at hx; injection hx with hx; subst hx; exact h10 hact
  · intro u k; rw [ep]; by_cases hut : u = t
    · subst hut; simp; exact hcl k
    · simp [hut]; exact h12 u k
  · intro u; rw [ep, ef]; by_cases hut : u = t
    · subst hut; simp; intro hx
      rcases hrs hx with hx | ⟨w, hw⟩
      · exact Or.inl hx
      · exact Or.inr ⟨w, by have := hpw w hw; rwa [ep] at this⟩
    · simp [hut]; intro hx
      rcases h13 u hx with hx | ⟨w, hw⟩
      · exact Or.inl hx
      · exact Or.inr ⟨w, by have := hpw w hw; rwa [ep] at this⟩
  · rw [eh, ef]; intro hx hy
    rcases h14 hx hy with hx | ⟨w, hw⟩
    · exact Or.inl hx
    · exact Or.inr ⟨w, hpw w hw⟩

/-- the clear step of `activate()` -/
theorem invG_clear {s s' : St} {t : Tid} (h : InvG s) (hpc : s.pc t = .aClear)
    (eh : s'.hist = s.hist ++ [HEv.clear t]) (ef : s'.flag = updS s.flag .trig false)
    (elc : s'.lastClear = s.hist.length) (eac : s'.actClear = s.actClear)
    (emc : s'.myClear = upd s.myClear t s.hist.length) (eo : s'.obs = s.obs)
    (ep : s'.pc = upd s.pc t .aUnlockT) : InvG s' := by
  obtain ⟨h1, h2, h3, h4, h5, h6, h7, h8, h9, h10, h11, h12, h13, h14⟩ := h
  have hpt : (s'.pc t).pending = true := by rw [ep]; simp [Pc.pending]
  refine ⟨?_, ?_, ?_, ?_, ?_, ?_, ?_, ?_, ?_, ?_, ?_, ?_, ?_, ?_⟩
  · rw [eh, elc]; simp
  · rw [ef]; simp [updS]
  · intro u ci hx; rw [eo] at hx; rw [elc]; have := h3 u ci hx; omega
  · rw [eac, elc]; omega
  · intro u; rw [ep, emc, elc]; by_cases hut : u = t
    · subst hut; simp
    · simp [hut, upd_apply]; intro hx; have := h5 u hx; omega
  · intro u k; rw [ep, eh, eo]; by_cases hut : u = t
    · subst hut; simp
    · simp [hut]; intro hx; exact (h6 u k hx).app _
  · rw [ef, eh, actOf_snoc]; simp [updS, actStep]; exact h7
  · rw [ef, eh, trigOf_snoc]; simp [updS, trigStep]
  · intro u; rw [ep, emc, eh]; by_cases hut : u = t
    · subst hut; simp
    · simp [hut, upd_apply]; intro hx; exact get_app (h9 u hx) _
  · rw [ef, eh, eac]; simp [updS]; intro hx; exact (h10 hx).app _
  · intro u ci hx; rw [eo] at hx; rw [eh]; exact (h11 u ci hx).app _
  · intro u k; rw [ep]; by_cases hut : u = t
    · subst hut; simp
    · simp [hut]; exact h12 u k
  · intro u _; exact Or.inr ⟨t, hpt⟩
  · intro _ _; exact Or.inr ⟨t, hpt⟩

/-- the set-active step of `activate()` -/
theorem invG_setActive {s s' : St} {t : Tid} {nt : Bool} (hl : InvL s) (h : InvG s)
    (hpc : s.pc t = .aHold false nt)
    (eh : s'.hist = s.hist ++ [HEv.setActive t]) (ef : s'.flag = updS s.flag .act true)
    (elc : s'.lastClear = s.lastClear) (eac : s'.actClear = s.myClear t)
    (emc : s'.myClear = s.myClear) (eo : s'.obs = s.obs)
    (ep : s'.pc = upd s.pc t (.aHold true nt)) : InvG s' := by
  obtain ⟨h1, h2, h3, h4, h5, h6, h7, h8, h9, h10, h11, h12, h13, h14⟩ := h
  have hpt : (s.pc t).pending = true := by simp [hpc, Pc.pending]
  have hmy := h5 t hpt
  refine ⟨?_, ?_, ?_, ?_, ?_, ?_, ?_, ?_, ?_, ?_, ?_, ?_, ?_, ?_⟩
  · rw [eh, elc]; simp; omega
  · rw [ef, eh, elc]; simp [updS]; intro hx
    obtain ⟨g, u, hg, hu⟩ := h2 hx; exact ⟨g, hg, u, get_app hu _⟩
  · intro u ci hx; rw [eo] at hx; rw [elc]; exact h3 u ci hx
  · rw [eac, elc]; exact hmy
  · intro u; rw [ep, emc, elc]; by_cases hut : u = t
    · subst hut; simp [Pc.pending]
    · simp [hut]; exact h5 u
  · intro u k; rw [ep, eh, eo]; by_cases hut : u = t
    · subst hut; simp
    · simp [hut]; intro hx; exact (h6 u k hx).app _
  · rw [ef, eh, actOf_snoc]; simp [updS, actStep]
  · rw [ef, eh, trigOf_snoc]; simp [updS, trigStep]; exact h8
  · intro u; rw [ep, emc, eh]; by_cases hut : u = t
    · subst hut; simp [Pc.pending]
    · simp [hut]; intro hx; exact get_app (h9 u hx) _
  · intro _; rw [eh, eac]
    exact ⟨t, s.hist.length, get_app (h9 t hpt) _, by omega, get_last _ _⟩
  · intro u ci hx; rw [eo] at hx; rw [eh]; exact (h11 u ci hx).app _
  · intro u k; rw [ep]; by_cases hut : u = t
    · subst hut; simp
    · simp [hut]; exact h12 u k
  · intro u; rw [ep]; by_cases hut : u = t
    · subst hut; simp
    · simp [hut]; intro hx
      exact absurd (holder_unique hl (m := .act) (t := t) (u := u) (by simp [hpc, Pc.holds]) (by simp [hx, Pc.holds])) hut
  · rw [ef]; simp [updS]

/-- the set-triggered step of `trigger()` -/
theorem invG_setTrig {s s' : St} {t : Tid} {x : Ctx} {nt : Bool} (h : InvG s)
    (hpc : s.pc t = .tHold x false nt)
    (eh : s'.hist = s.hist ++ [HEv.setTrig t]) (ef : s'.flag = updS s.flag .trig true)
    (elc : s'.lastClear = s.lastClear) (eac : s'.actClear = s.actClear)
    (emc : s'.myClear = s.myClear) (eo : s'.obs = s.obs)
    (ep : s'.pc = upd s.pc t (.tHold x true nt)) : InvG s' := by
  obtain ⟨h1, h2, h3, h4, h5, h6, h7, h8, h9, h10, h11, h12, h13, h14⟩ := h
  refine ⟨?_, ?_, ?_, ?_, ?_, ?_, ?_, ?_, ?_, ?_, ?_, ?_, ?_, ?_⟩
  · rw [eh, elc]; simp; omega
  · intro _; rw [eh, elc]; exact ⟨s.hist.length, t, h1, get_last _ _⟩
  · intro u ci hx; rw [eo] at hx; rw [elc]; exact h3 u ci hx
  · rw [eac, elc]; exact h4
  · intro u; rw [ep, emc, elc]; by_cases hut : u = t
    · subst hut; simp [Pc.pending]
    · simp [hut]; exact h5 u
  · intro u k; rw [ep, eh, eo]; by_cases hut : u = t
    · subst hut; simp
    · simp [hut]; intro hx; exact (h6 u k hx).app _
  · rw [ef, eh, actOf_snoc]; simp [updS, actStep]; exact h7
  · rw [ef, eh, trigOf_snoc]; simp [updS, trigStep]
  · intro u; rw [ep, emc, eh]; by_cases hut : u = t
    · subst hut; simp [Pc.pending]
    · simp [hut]; intro hx; exact get_app (h9 u hx) _
  · rw [ef, eh, eac]; simp [updS]; intro hx; exact (h10 hx).app _
  · intro u ci hx; rw [eo] at hx; rw [eh]; exact (h11 u ci hx).app _
  · intro u k; rw [ep]; by_cases hut : u = t
    · subst hut; simp
    · simp [hut]; exact h12 u k
  · intro u _; rw [ef]; exact Or.inl (by simp [updS])
  · intro _ _; rw [ef]; exact Or.inl (by simp [updS])

/-- the set-inactive step of `reset()` -/
theorem invG_setInactive {s s' : St} {t : Tid} (h : InvG s) (hpc : s.pc t = .rStore)
    (eh : s'.hist = s.hist ++ [HEv.setInactive t]) (ef : s'.flag = updS s.flag .act false)
    (elc : s'.lastClear = s.lastClear) (eac : s'.actClear = s.actClear)
    (emc : s'.myClear = s.myClear) (eo : s'.obs = s.obs)
    (ep : s'.pc = upd s.pc t (.rUnlock true)) : InvG s' := by
  obtain ⟨h1, h2, h3, h4, h5, h6, h7, h8, h9, h10, h11, h12, h13, h14⟩ := h
  have hkeep : (s.flag .trig = true ∨ ∃ u, (s.pc u).pending = true) →
      (s'.flag .trig = true ∨ ∃ u, (s'.pc u).pending = true) := by
    intro hx; rcases hx with hx | ⟨w, hw⟩
    · exact Or.inl (by rw [ef]; simpa [updS] using hx)
    · refine Or.inr ⟨w, ?_⟩
      rw [ep]; by_cases hwt : w = t
      · subst hwt; simp [hpc, Pc.pending] at hw
      · simp [hwt, hw]
  refine ⟨?_, ?_, ?_, ?_, ?_, ?_, ?_, ?_, ?_, ?_, ?_, ?_, ?_, ?_⟩
  · rw [eh, elc]; simp; omega
  · rw [ef, eh, elc]; simp [updS]; intro hx
    obtain ⟨g, u, hg, hu⟩ := h2 hx; exact ⟨g, hg, u, get_app hu _⟩
  · intro u ci hx; rw [eo] at hx; rw [elc]; exact h3 u ci hx
  · rw [eac, elc]; exact h4
  · intro u; rw [ep, emc, elc]; by_cases hut : u = t
    · subst hut; simp [Pc.pending]
    · simp [hut]; exact h5 u
  · intro u k; rw [ep, eh, eo]; by_cases hut : u = t
    · subst hut; simp
    · simp [hut]; intro hx; exact (h6 u k hx).app _
  · rw [ef, eh, actOf_snoc]; simp [updS, actStep]
  · rw [ef, eh, trigOf_snoc]; simp [updS, trigStep]; exact h8
  · intro u; rw [ep, emc, eh]; by_cases hut : u = t
    · subst hut; simp [Pc.pending]
    · simp [hut]; intro hx; exact get_app (h9 u hx) _
  · rw [ef]; simp [updS]
  · intro u ci hx; rw [eo] at hx; rw [eh]; exact (h11 u ci hx).app _
  · intro u k; rw [ep]; by_cases hut : u = t
    · subst hut; simp
    · simp [hut]; exact h12 u k
  · intro u hx; apply hkeep; rw [ep] at hx; by_cases hut : u = t
    · subst hut; simp at hx
    · simp [hut] at hx; exact h13 u hx
  · intro _ _; exact hkeep (h13 t hpc)

/-- a waiter that reads its flag as `true` under the mutex knows its event has happened -/
theorem resOk_of_flag {s : St} (h : InvG s) (t : Tid) (k : WKind) (hf : s.flag k.side = true) :
    ResOk s.hist (s.obs t) k := by
  refine ⟨?_, ?_⟩
  · intro hk ci ho; rw [hk] at hf
    obtain ⟨g, u, hg, hu⟩ := h.trigHist hf
    exact ⟨g, u, by have := h.obsLe t ci ho; omega, hu⟩
  · intro hk; rw [hk] at hf
    obtain ⟨u, a, _, _, ha⟩ := h.actWf hf
    exact ⟨a, u, ha⟩

macro "trg_gcs" hpc:ident : tactic =>
  `(tactic| (intros; simp_all [$hpc:ident, Pc.pending, Ctx.after, WKind.side]))

/-- pc-only move that leaves the observation alone -/
macro "trg_gpc" h:ident hpc:ident : tactic =>
  `(tactic| exact invG_pc $h rfl rfl rfl rfl rfl (fun _ _ => rfl) rfl rfl (Or.inl rfl) (by trg_gcs $hpc) (by trg_gcs $hpc)
      (by trg_gcs $hpc) (by trg_gcs $hpc))

theorem invG_step (s : St) (t : Tid) (e : Ev) (s' : St) (hl : InvL s) (h : InvG s)
    (hs : step s t e = some s') : InvG s' := by
  unfold step at hs
  split at hs
  case h_1 | h_2 | h_7 | h_8 | h_9 | h_40 =>
    rename_i hpc; injection hs with hs; subst hs; trg_gpc h hpc
  case h_3 | h_4 | h_5 | h_6 =>
    rename_i hpc; injection hs with hs; subst hs
    exact invG_pc h rfl rfl rfl rfl rfl (fun u hu => by simp [hu]) (by simp) rfl (Or.inr (Or.inl rfl))
      (by trg_gcs hpc) (by trg_gcs hpc)
      (by intro k hx; first | (injection hx with hx; subst hx; rfl) | (injection hx)) (by trg_gcs hpc)
  case h_10 | h_34 =>
    rename_i v hpc; split at hs
    · injection hs with hs; subst hs; cases v <;> trg_gpc h hpc
    · contradiction
  case h_11 | h_14 | h_33 | h_37 =>
    rename_i hpc; obtain ⟨hm, rfl⟩ := acquire_some hs; trg_gpc h hpc
  case h_12 =>
    rename_i hpc; injection hs with hs; subst hs
    exact invG_clear h hpc rfl rfl rfl rfl rfl rfl rfl
  case h_13 | h_17 | h_36 | h_39 =>
    rename_i hpc; obtain ⟨hm, rfl⟩ := release_some hs; trg_gpc h hpc
  case h_15 =>
    rename_i nt hpc; injection hs with hs; subst hs
    exact invG_setActive hl h hpc rfl rfl rfl rfl rfl rfl rfl
  case h_16 =>
    rename_i st hpc; injection hs with hs; subst hs; cases st <;> trg_gpc h hpc
  case h_18 | h_24 | h_32 | h_42 | h_41 =>
    rename_i hpc; split at hs
    · injection hs with hs; subst hs; trg_gpc h hpc
    · contradiction
  case h_19 =>
    rename_i x v hpc; split at hs
    · injection hs with hs; subst hs; cases v <;> cases x <;> trg_gpc h hpc
    · contradiction
  case h_20 =>
    rename_i x hpc; obtain ⟨hm, rfl⟩ := acquire_some hs; trg_gpc h hpc
  case h_21 =>
    rename_i x nt hpc; injection hs with hs; subst hs
    exact invG_setTrig h hpc rfl rfl rfl rfl rfl rfl rfl
  case h_22 =>
    rename_i x st hpc; injection hs with hs; subst hs; trg_gpc h hpc
  case h_23 =>
    rename_i x hpc; obtain ⟨hm, rfl⟩ := release_some hs; cases x <;> trg_gpc h hpc
  case h_25 =>
    rename_i k v hpc; split at hs
    · rename_i hv; injection hs with hs; subst hs
      have hk := h.calledTrig t k hpc
      cases v
      · refine invG_pc h rfl rfl rfl rfl rfl (fun u hu => by simp [hu]) (by simp) rfl (Or.inr (Or.inl rfl))
          (by trg_gcs hpc) ?_ (by trg_gcs hpc) (by trg_gcs hpc)
        intro k' hx; simp at hx; subst hx
        exact ⟨by intro _ ci hc; contradiction, by intro hx; rw [hk] at hx; contradiction⟩
      · exact invG_pc h rfl rfl rfl rfl rfl (fun u hu => by simp [hu]) (by simp) rfl
          (Or.inr (Or.inr ⟨rfl, hv.symm⟩)) (by trg_gcs hpc) (by trg_gcs hpc) (by trg_gcs hpc) (by trg_gcs hpc)
    · contradiction
  case h_26 =>
    rename_i k m hpc; split at hs
    · obtain ⟨hm, rfl⟩ := acquire_some hs; trg_gpc h hpc
    · contradiction
  case h_27 =>
    rename_i k f a v hpc; split at hs
    · rename_i hg; obtain ⟨ha, hv⟩ := hg; subst ha; injection hs with hs; subst hs
      cases v
      · trg_gpc h hpc
      · refine invG_pc h rfl rfl rfl rfl rfl (fun _ _ => rfl) rfl rfl (Or.inl rfl) (by trg_gcs hpc) ?_
          (by trg_gcs hpc) (by trg_gcs hpc)
        intro k' hx; simp at hx; subst hx; exact resOk_of_flag h t k hv.symm
    · contradiction
  case h_28 =>
    rename_i k m hpc; split at hs
    · injection hs with hs; subst hs; trg_gpc h hpc
    · contradiction
  case h_29 =>
    rename_i k m r hpc; split at hs
    · split at hs
      · split at hs
        · contradiction
        · injection hs with hs; subst hs; trg_gpc h hpc
      · split at hs
        · injection hs with hs; subst hs; trg_gpc h hpc
        · contradiction
      · split at hs
        · injection hs with hs; subst hs; trg_gpc h hpc
        · contradiction
      · split at hs
        · injection hs with hs; subst hs; trg_gpc h hpc
        · contradiction
    · contradiction
  case h_30 | h_43 =>
    rename_i k a v hpc; split at hs
    · rename_i hg; obtain ⟨ha, hv⟩ := hg; subst ha; injection hs with hs; subst hs
      cases v
      · trg_gpc h hpc
      · refine invG_pc h rfl rfl rfl rfl rfl (fun _ _ => rfl) rfl rfl (Or.inl rfl) (by trg_gcs hpc) ?_
          (by trg_gcs hpc) (by trg_gcs hpc)
        intro k' hx; simp at hx; subst hx; exact resOk_of_flag h t k hv.symm
    · contradiction
  case h_31 =>
    rename_i k r m hpc; split at hs
    · obtain ⟨hm, rfl⟩ := release_some hs
      refine invG_pc h rfl rfl rfl rfl rfl (fun _ _ => rfl) rfl rfl (Or.inl rfl) (by trg_gcs hpc) ?_
        (by trg_gcs hpc) (by trg_gcs hpc)
      intro k' hx; simp at hx; obtain ⟨hx, hr⟩ := hx; subst hx; subst hr
      exact h.res t k (Or.inl hpc)
    · contradiction
  case h_35 =>
    rename_i o v hpc; split at hs
    · rename_i hv; injection hs with hs; subst hs
      cases v
      · trg_gpc h hpc
      · exact invG_pc h rfl rfl rfl rfl rfl (fun _ _ => rfl) rfl rfl (Or.inl rfl) (by trg_gcs hpc) (by trg_gcs hpc)
          (by trg_gcs hpc) (fun _ => Or.inl hv.symm)
    · contradiction
  case h_38 =>
    rename_i hpc; injection hs with hs; subst hs
    exact invG_setInactive h hpc rfl rfl rfl rfl rfl rfl rfl
  case h_44 => contradiction

/-! ## generic facts about one step, and `InvT` (a waiter that saw `true` under the mutex) -/

/-- normal form of an accepted step: fully split, successor state explicit -/
macro "trg_stepcases" hs:ident : tactic =>
  `(tactic| (unfold step at $hs:ident; unfold St.acquire St.release at $hs:ident
             (repeat' split at $hs:ident)
             all_goals (first | contradiction | (injection $hs:ident with $hs:ident; subst $hs:ident))))

/-- same, with the continuation of the nested `trigger()` call split as well -/
macro "trg_stepcasesx" hs:ident : tactic =>
  `(tactic| (unfold step at $hs:ident; unfold St.acquire St.release Ctx.after at $hs:ident
             (repeat' split at $hs:ident)
             all_goals (first | contradiction | (injection $hs:ident with $hs:ident; subst $hs:ident))))

theorem step_pc_other {s s' : St} {t u : Tid} {e : Ev} (hs : step s t e = some s') (hu : u ≠ t) :
    s'.pc u = s.pc u := by
  trg_stepcases hs
  all_goals simp [St.setPc, hu]

theorem step_flag {s s' : St} {t : Tid} {e : Ev} {m : Side} (hs : step s t e = some s')
    (hne : s'.flag m ≠ s.flag m) : (s.pc t).holds m = true := by
  trg_stepcases hs
  all_goals (first | (exact absurd rfl hne) | skip)
  all_goals (rename_i hpc; simp [hpc, Pc.holds]; simp [updS_apply] at hne; (try split at hne) <;> simp_all)

/-- holds mutex `m` and knows flag `m` is true -/
def Pc.sawTrue (m : Side) : Pc → Bool
  | .wUnlock k true => decide (k.side = m)
  | _ => false

def InvT (s : St) : Prop := ∀ m t, (s.pc t).sawTrue m = true → s.flag m = true

theorem sawTrue_holds {p : Pc} {m : Side} (h : p.sawTrue m = true) : p.holds m = true := by
  cases p <;> simp [Pc.sawTrue] at h <;> simp [Pc.holds]
  all_goals (rename_i r; cases r <;> simp [Pc.sawTrue] at h <;> exact h)

@[simp] theorem after_sawTrue (x : Ctx) (r : Bool) (m : Side) : (x.after r).sawTrue m = false := by
  cases x <;> rfl

@[simp] theorem after_ne_wUnlock (x : Ctx) (r r' : Bool) (k : WKind) : (x.after r = Pc.wUnlock k r') = False := by
  cases x <;> simp [Ctx.after]

theorem step_sawTrue {s s' : St} {t : Tid} {e : Ev} {m : Side} (hs : step s t e = some s')
    (hx : (s'.pc t).sawTrue m = true) : s'.flag m = true := by
  trg_stepcases hs
  all_goals (simp [St.setPc, Pc.sawTrue] at hx)
  all_goals (try (split at hx <;> simp [Pc.sawTrue] at hx))
  all_goals (try simp only [St.setPc])
  all_goals (first | (simp_all; done) | grind)

theorem invT_step (s : St) (t : Tid) (e : Ev) (s' : St) (hl : InvL s) (h : InvT s)
    (hs : step s t e = some s') : InvT s' := by
  intro m u hx
  by_cases hut : u = t
  · subst hut; exact step_sawTrue hs hx
  · rw [step_pc_other hs hut] at hx
    have hf := h m u hx
    by_cases hne : s'.flag m = s.flag m
    · rw [hne]; exact hf
    · exact absurd (holder_unique hl (step_flag hs hne) (sawTrue_holds hx)) hut


theorem invT_init (a : Bool) : InvT (init a) := by
  intro m t hx; simp [init, Pc.sawTrue] at hx

/-! ## the flags as functions of the history -/

theorem trigOf_after (h1 h2 : List HEv) (u : Tid) (hno : ∀ v, HEv.clear v ∉ h2) :
    trigOf (h1 ++ HEv.setTrig u :: h2) = true := by
  have key : ∀ (l : List HEv), (∀ v, HEv.clear v ∉ l) → l.foldl trigStep true = true := by
    intro l; induction l with
    | nil => intro _; rfl
    | cons e l ih =>
      intro hl
      have he : trigStep true e = true := by
        cases e <;> simp [trigStep]
        rename_i v; exact absurd (List.mem_cons_self) (hl v)
      simp only [List.foldl_cons, he]
      exact ih (fun v hv => hl v (List.mem_cons_of_mem _ hv))
  simp only [trigOf, List.foldl_append, List.foldl_cons]
  have : trigStep (List.foldl trigStep false h1) (HEv.setTrig u) = true := by simp [trigStep]
  rw [this]; exact key h2 hno

theorem actOf_after (h1 h2 : List HEv) (u : Tid) (hno : ∀ v, HEv.setInactive v ∉ h2) :
    actOf (h1 ++ HEv.setActive u :: h2) = true := by
  have key : ∀ (l : List HEv), (∀ v, HEv.setInactive v ∉ l) → l.foldl actStep true = true := by
    intro l; induction l with
    | nil => intro _; rfl
    | cons e l ih =>
      intro hl
      have he : actStep true e = true := by
        cases e <;> simp [actStep]
        rename_i v; exact absurd (List.mem_cons_self) (hl v)
      simp only [List.foldl_cons, he]
      exact ih (fun v hv => hl v (List.mem_cons_of_mem _ hv))
  simp only [actOf, List.foldl_append, List.foldl_cons]
  have : actStep (List.foldl actStep false h1) (HEv.setActive u) = true := by simp [actStep]
  rw [this]; exact key h2 hno

theorem actOf_after_reset (h1 h2 : List HEv) (u : Tid) (hno : ∀ v, HEv.setActive v ∉ h2) :
    actOf (h1 ++ HEv.setInactive u :: h2) = false := by
  have key : ∀ (l : List HEv), (∀ v, HEv.setActive v ∉ l) → l.foldl actStep false = false := by
    intro l; induction l with
    | nil => intro _; rfl
    | cons e l ih =>
      intro hl
      have he : actStep false e = false := by
        cases e <;> simp [actStep]
        rename_i v; exact absurd (List.mem_cons_self) (hl v)
      simp only [List.foldl_cons, he]
      exact ih (fun v hv => hl v (List.mem_cons_of_mem _ hv))
  simp only [actOf, List.foldl_append, List.foldl_cons]
  have : actStep (List.foldl actStep false h1) (HEv.setInactive u) = false := by simp [actStep]
  rw [this]; exact key h2 hno

/-- the full invariant -/
structure Inv (s : St) : Prop where
  l : InvL s
  g : InvG s
  t : InvT s

theorem inv_init (a : Bool) : Inv (init a) := ⟨invL_init a, invG_init a, invT_init a⟩

theorem inv_step (s : St) (t : Tid) (e : Ev) (s' : St) (h : Inv s) (hs : step s t e = some s') : Inv s' :=
  ⟨invL_step s t e s' h.l hs, invG_step s t e s' h.l h.g hs, invT_step s t e s' h.l h.t hs⟩

theorem inv_reachable {a : Bool} {s : St} (h : Reachable a s) : Inv s := by
  obtain ⟨es, hes⟩ := h
  exact runFrom_inv inv_step (inv_init a) hes

end ConcVerif.Trigger
