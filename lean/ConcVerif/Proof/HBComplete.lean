import ConcVerif.Proof.HB
import ConcVerif.Proof.HBLock
/-! Completeness of the vector clocks and of the race checker: happens-before is reflected by the
clocks (`HB tr i j` ⇒ the clock of `j` dominates the clock of `i`), hence a trace without a race (in
the declarative sense) is accepted by `raceFree`: the checker raises no false alarm. -/
namespace ConcVerif.HB

/-- pointwise order of vector clocks -/
def VLe (a b : VC) : Prop := ∀ u, vget a u ≤ vget b u

theorem VLe.refl (a : VC) : VLe a a := fun _ => Nat.le_refl _
theorem VLe.trans {a b c : VC} (h1 : VLe a b) (h2 : VLe b c) : VLe a c := fun u => Nat.le_trans (h1 u) (h2 u)
theorem VLe.join_l (a b : VC) : VLe a (vjoin a b) := fun u => by rw [vget_vjoin]; exact Nat.le_max_left _ _
theorem VLe.join_r (a b : VC) : VLe b (vjoin a b) := fun u => by rw [vget_vjoin]; exact Nat.le_max_right _ _
theorem VLe.nil (a : VC) : VLe [] a := fun u => by simp

theorem tick_ge (k : Clk) (t : Tid) : VLe (k.c t) (tick k t) := by
  intro u; simp only [tick, vget_vset]; split
  · rename_i h; subst h; omega
  · exact Nat.le_refl _

theorem vle_of_le {a b : VC} (h : ∀ u, vget a u ≤ vget b u) : vle a b = true := by
  induction a generalizing b with
  | nil => rfl
  | cons x a ih =>
    cases b with
    | nil =>
      have h0 := h 0
      simp [vget, lget] at h0
      simp only [vle, Bool.and_eq_true, beq_iff_eq]
      refine ⟨h0, ih (b := []) ?_⟩
      intro u; have := h (u + 1); simpa [vget, lget] using this
    | cons y b =>
      have h0 := h 0
      simp [vget, lget] at h0
      simp only [vle, Bool.and_eq_true, decide_eq_true_eq]
      refine ⟨h0, ih ?_⟩
      intro u; have := h (u + 1); simpa [vget, lget] using this

/-! ## one step: what grows, what is acquired -/

/-- the clock of the acting thread after the event dominates its ticked clock -/
theorem vstep_own (k : Clk) (t : Tid) (e : Ev) : VLe (tick k t) ((vstep k t e).c t) := by
  intro w
  cases e with
  | acq m md => cases md <;> simp [vstep, vget_vjoin] <;> omega
  | rel m md => cases md <;> simp [vstep]
  | ld a o => simp only [vstep, setC_c, if_true, acqClock]; split <;> simp [vget_vjoin] <;> omega
  | st a o => simp [vstep]
  | rmw a o => simp only [vstep, setR_c, setC_c, if_true, acqClock]; split <;> simp [vget_vjoin] <;> omega
  | rd x => simp [vstep]
  | wr x => simp [vstep]
  | nop => simp [vstep]
  | join u => simp [vstep, vget_vjoin]; omega
  | fork u =>
    simp only [vstep, setC_c]
    by_cases hu : t = u
    · subst hu; simp [vget_vjoin]
    · simp [hu]

/-- no thread clock ever shrinks -/
theorem vstep_c_mono (k : Clk) (t : Tid) (e : Ev) (u : Tid) : VLe (k.c u) ((vstep k t e).c u) := by
  by_cases hu : u = t
  · subst hu; exact (tick_ge k u).trans (vstep_own k u e)
  · intro w
    cases e with
    | acq m md => cases md <;> simp [vstep, hu]
    | rel m md => cases md <;> simp [vstep, hu]
    | ld a o => simp [vstep, hu]
    | st a o => simp [vstep, hu]
    | rmw a o => simp [vstep, hu]
    | rd x => simp [vstep, hu]
    | wr x => simp [vstep, hu]
    | nop => simp [vstep, hu]
    | join u' => simp [vstep, hu]
    | fork u' =>
      simp only [vstep, setC_c]
      by_cases h2 : u = u'
      · subst h2; simp [vget_vjoin, hu]; exact Nat.le_max_left _ _
      · simp [h2, hu]

theorem vstep_lx_mono (k : Clk) (t : Tid) (e : Ev) (m : Loc) : VLe (k.lx m) ((vstep k t e).lx m) := by
  intro w
  cases e with
  | rel m' md =>
    cases md
    · simp only [vstep, setLX_lx]; split
      · rename_i h; subst h; rw [vget_vjoin]; exact Nat.le_max_left _ _
      · simp
    · simp [vstep]
  | acq m' md => cases md <;> simp [vstep]
  | fork u => simp [vstep]
  | _ => simp [vstep]

theorem vstep_ls_mono (k : Clk) (t : Tid) (e : Ev) (m : Loc) : VLe (k.ls m) ((vstep k t e).ls m) := by
  intro w
  cases e with
  | rel m' md =>
    cases md
    · simp [vstep]
    · simp only [vstep, setLS_ls]; split
      · rename_i h; subst h; rw [vget_vjoin]; exact Nat.le_max_left _ _
      · simp
  | acq m' md => cases md <;> simp [vstep]
  | fork u => simp [vstep]
  | _ => simp [vstep]

/-- a release-sequence clock shrinks only at a plain store to its location -/
theorem vstep_r_mono (k : Clk) (t : Tid) (e : Ev) (a : Loc) (hne : ∀ o, e ≠ .st a o) : VLe (k.r a) ((vstep k t e).r a) := by
  intro w
  cases e with
  | st a' o =>
    simp only [vstep, setR_r]; split
    · rename_i h; subst h; exact absurd rfl (hne o)
    · simp
  | rmw a' o =>
    simp only [vstep, setR_r]; split
    · rename_i h; subst h; split
      · rw [vget_vjoin]; exact Nat.le_max_left _ _
      · exact Nat.le_refl _
    · simp
  | acq m' md => cases md <;> simp [vstep]
  | rel m' md => cases md <;> simp [vstep]
  | fork u => simp [vstep]
  | _ => simp [vstep]

theorem vstep_acq_lx (k : Clk) (t : Tid) (m : Loc) (md : Mode) : VLe (k.lx m) ((vstep k t (.acq m md)).c t) := by
  intro w; cases md <;> simp [vstep, vget_vjoin] <;> omega

theorem vstep_acq_ls (k : Clk) (t : Tid) (m : Loc) : VLe (k.ls m) ((vstep k t (.acq m .X)).c t) := by
  intro w; simp [vstep, vget_vjoin]; omega

theorem vstep_rel_lx (k : Clk) (t : Tid) (m : Loc) : VLe ((vstep k t (.rel m .X)).c t) ((vstep k t (.rel m .X)).lx m) := by
  intro w; simp [vstep, vget_vjoin]; exact Nat.le_max_right _ _

theorem vstep_rel_ls (k : Clk) (t : Tid) (m : Loc) : VLe ((vstep k t (.rel m .S)).c t) ((vstep k t (.rel m .S)).ls m) := by
  intro w; simp [vstep, vget_vjoin]; exact Nat.le_max_right _ _

theorem vstep_acq_r (k : Clk) (t : Tid) (e : Ev) (a : Loc) (h : AcqRead e a) : VLe (k.r a) ((vstep k t e).c t) := by
  intro w
  obtain ⟨o, ho, he⟩ := h
  cases he with
  | inl he => subst he; simp [vstep, acqClock, ho, vget_vjoin]; exact Nat.le_max_right _ _
  | inr he => subst he; simp [vstep, acqClock, ho, vget_vjoin]; exact Nat.le_max_right _ _

theorem vstep_rel_r (k : Clk) (t : Tid) (e : Ev) (a : Loc) (h : RelWrite e a) :
    VLe ((vstep k t e).c t) ((vstep k t e).r a) := by
  intro w
  obtain ⟨o, ho, he⟩ := h
  cases he with
  | inl he => subst he; simp [vstep, ho]
  | inr he => subst he; simp [vstep, ho, vget_vjoin]; exact Nat.le_max_right _ _

theorem vstep_fork (k : Clk) (t u : Tid) : VLe ((vstep k t (.fork u)).c t) ((vstep k t (.fork u)).c u) := by
  intro w
  by_cases hu : t = u
  · subst hu; exact Nat.le_refl _
  · have : ¬ u = t := fun h => hu h.symm
    simp [vstep, hu, this, vget_vjoin]; exact Nat.le_max_right _ _

theorem vstep_join (k : Clk) (t u : Tid) : VLe (k.c u) ((vstep k t (.join u)).c t) := by
  intro w; simp [vstep, vget_vjoin]; exact Nat.le_max_right _ _

/-! ## clocks along the trace -/

/-- the synchronisation clocks after the first `n` events -/
def K (tr : Trace) (n : Nat) : Clk := vrun {} (tr.take n)

theorem K_succ {tr : Trace} {n : Nat} {t : Tid} {e : Ev} (h : tr[n]? = some (t, e)) :
    K tr (n + 1) = vstep (K tr n) t e := by
  simp only [K]; rw [take_succ_get h, vrun_snoc]

theorem get_of_lt {tr : Trace} {n : Nat} (h : n < tr.length) : ∃ t e, tr[n]? = some (t, e) :=
  ⟨tr[n].1, tr[n].2, by simp [h]⟩

/-- a clock component that no step shrinks does not shrink along the trace -/
theorem K_mono {tr : Trace} (sel : Clk → VC) (hstep : ∀ k t e, VLe (sel k) (sel (vstep k t e))) {n n' : Nat}
    (h : n ≤ n') (hn : n' ≤ tr.length) : VLe (sel (K tr n)) (sel (K tr n')) := by
  induction n' with
  | zero => have : n = 0 := by omega
            subst this; exact VLe.refl _
  | succ n' ih =>
    by_cases heq : n = n' + 1
    · subst heq; exact VLe.refl _
    · obtain ⟨t, e, hte⟩ := get_of_lt (tr := tr) (n := n') (by omega)
      rw [K_succ hte]
      exact (ih (by omega) (by omega)).trans (hstep _ t e)

theorem K_c_mono {tr : Trace} {n n' : Nat} (h : n ≤ n') (hn : n' ≤ tr.length) (u : Tid) :
    VLe ((K tr n).c u) ((K tr n').c u) :=
  K_mono (fun k => k.c u) (fun k t e => vstep_c_mono k t e u) h hn

theorem K_lx_mono {tr : Trace} {n n' : Nat} (h : n ≤ n') (hn : n' ≤ tr.length) (m : Loc) :
    VLe ((K tr n).lx m) ((K tr n').lx m) :=
  K_mono (fun k => k.lx m) (fun k t e => vstep_lx_mono k t e m) h hn

theorem K_ls_mono {tr : Trace} {n n' : Nat} (h : n ≤ n') (hn : n' ≤ tr.length) (m : Loc) :
    VLe ((K tr n).ls m) ((K tr n').ls m) :=
  K_mono (fun k => k.ls m) (fun k t e => vstep_ls_mono k t e m) h hn

theorem K_r_mono {tr : Trace} {a : Loc} {n n' : Nat} (h : n ≤ n') (hn : n' ≤ tr.length)
    (hno : ∀ k v o, n ≤ k → k < n' → tr[k]? ≠ some (v, .st a o)) : VLe ((K tr n).r a) ((K tr n').r a) := by
  induction n' with
  | zero => have : n = 0 := by omega
            subst this; exact VLe.refl _
  | succ n' ih =>
    by_cases heq : n = n' + 1
    · subst heq; exact VLe.refl _
    · obtain ⟨t, e, hte⟩ := get_of_lt (tr := tr) (n := n') (by omega)
      rw [K_succ hte]
      refine (ih (by omega) (by omega) (fun k v o h1 h2 => hno k v o h1 (by omega))).trans ?_
      apply vstep_r_mono
      intro o he; subst he
      exact hno n' t o (by omega) (by omega) hte

theorem po_clock {tr : Trace} {i j : Nat} {t : Tid} {e e' : Ev} (hij : i < j) (_h1 : tr[i]? = some (t, e))
    (h2 : tr[j]? = some (t, e')) : VLe ((K tr (i + 1)).c t) ((K tr (j + 1)).c t) :=
  K_c_mono (by omega) (by have := get_lt h2; omega) _

theorem sw_clock {tr : Trace} {i j : Nat} (hsw : Sw tr i j) {t u : Tid} {ei ej : Ev} (hi : tr[i]? = some (t, ei))
    (hj : tr[j]? = some (u, ej)) : VLe ((K tr (i + 1)).c t) ((K tr (j + 1)).c u) := by
  have hjl := get_lt hj
  cases hsw with
  | @mutex t0 u0 m md md' hij h1 h2 hm =>
    rw [h1] at hi; rw [h2] at hj
    injection hi with hi; injection hi with hi1 hi2; injection hj with hj; injection hj with hj1 hj2
    subst hi1; subst hj1
    cases md with
    | X =>
      have a1 := vstep_rel_lx (K tr i) t0 m
      rw [← K_succ h1] at a1
      have a2 := K_lx_mono (tr := tr) (n := i + 1) (n' := j) (by omega) (by omega) m
      have a3 := vstep_acq_lx (K tr j) u0 m md'
      rw [← K_succ h2] at a3
      exact a1.trans (a2.trans a3)
    | S =>
      have hx : md' = .X := by
        cases hm with
        | inl h => cases h
        | inr h => exact h
      subst hx
      have a1 := vstep_rel_ls (K tr i) t0 m
      rw [← K_succ h1] at a1
      have a2 := K_ls_mono (tr := tr) (n := i + 1) (n' := j) (by omega) (by omega) m
      have a3 := vstep_acq_ls (K tr j) u0 m
      rw [← K_succ h2] at a3
      exact a1.trans (a2.trans a3)
  | @atomic t0 u0 a ei0 ej0 hij h1 h2 hr ha hb =>
    rw [h1] at hi; rw [h2] at hj
    injection hi with hi; injection hi with hi1 hi2; injection hj with hj; injection hj with hj1 hj2
    subst hi1; subst hj1; subst hi2; subst hj2
    have a1 := vstep_rel_r (K tr i) t0 ei0 a hr
    rw [← K_succ h1] at a1
    have a2 := K_r_mono (tr := tr) (a := a) (n := i + 1) (n' := j) (by omega) (by omega)
      (fun k v o hk1 hk2 => hb k v o (by omega) hk2)
    have a3 := vstep_acq_r (K tr j) u0 ej0 a ha
    rw [← K_succ h2] at a3
    exact a1.trans (a2.trans a3)
  | @fork t0 u0 e0 hij h1 h2 =>
    rw [h1] at hi; rw [h2] at hj
    injection hi with hi; injection hi with hi1 hi2; injection hj with hj; injection hj with hj1 hj2
    subst hi1; subst hj1
    have a1 := vstep_fork (K tr i) t0 u0
    rw [← K_succ h1] at a1
    exact a1.trans (K_c_mono (by omega) (by omega) u0)
  | @join t0 u0 e0 hij h1 h2 =>
    rw [h1] at hi; rw [h2] at hj
    injection hi with hi; injection hi with hi1 hi2; injection hj with hj; injection hj with hj1 hj2
    subst hi1; subst hj1
    have a2 := K_c_mono (tr := tr) (n := i + 1) (n' := j) (by omega) (by omega) u0
    have a3 := vstep_join (K tr j) t0 u0
    rw [← K_succ h2] at a3
    exact a2.trans a3
  | @forkJoin t0 w0 u0 hij h1 h2 =>
    rw [h1] at hi; rw [h2] at hj
    injection hi with hi; injection hi with hi1 hi2; injection hj with hj; injection hj with hj1 hj2
    subst hi1; subst hj1
    have a1 := vstep_fork (K tr i) w0 u0
    rw [← K_succ h1] at a1
    have a2 := K_c_mono (tr := tr) (n := i + 1) (n' := j) (by omega) (by omega) u0
    have a3 := vstep_join (K tr j) t0 u0
    rw [← K_succ h2] at a3
    exact a1.trans (a2.trans a3)

/-- **Clock completeness.**  Happens-before is reflected by the vector clocks: the clock of the
thread of `j` right after `j` dominates the clock of the thread of `i` right after `i`. -/
theorem hb_clock {tr : Trace} {i j : Nat} (h : HB tr i j) :
    ∀ t u ei ej, tr[i]? = some (t, ei) → tr[j]? = some (u, ej) → VLe ((K tr (i + 1)).c t) ((K tr (j + 1)).c u) := by
  induction h with
  | po hij h1 h2 =>
    intro t u ei ej hi hj
    rw [h1] at hi; rw [h2] at hj
    injection hi with hi; injection hi with hi _; injection hj with hj; injection hj with hj _
    subst hi; subst hj
    exact po_clock hij h1 h2
  | sw hsw =>
    intro t u ei ej hi hj
    exact sw_clock hsw hi hj
  | trans h1 h2 ih1 ih2 =>
    intro t u ei ek hi hk
    obtain ⟨v, ej, hj⟩ := get_of_lt h1.bound
    exact (ih1 t v ei ej hi hj).trans (ih2 v u ej ek hj hk)

/-- an event that happens before the event at `j` is known to the clock of `j` -/
theorem hb_known {tr : Trace} {i j : Nat} {t u : Tid} {ei ej : Ev} (h : HB tr i j) (hi : tr[i]? = some (t, ei))
    (hj : tr[j]? = some (u, ej)) : lt tr i t ≤ vget ((K tr (j + 1)).c u) t := by
  have h1 := hb_clock h t u ei ej hi hj t
  have h2 := lb_vrun (tr.take (i + 1)) t
  exact Nat.le_trans h2 h1

/-- the own entry of a thread's clock is exactly its local time -/
theorem own_le_lt (tr : Trace) (n : Nat) (t : Tid) : vget ((K tr (n + 1)).c t) t ≤ lt tr n t :=
  ((just_vrun (tr.take (n + 1))).jC t).1 t

/-! ## completeness of the race checker -/

/-- what the access history records about the first `n` positions (exact enough for completeness) -/
structure Exact (tr : Trace) (n : Nat) (s : St) : Prop where
  clk : s.clk = K tr n
  w : ∀ (x : Loc) (w : Tid) (nn : Nat), (s.a x).w = some (w, nn) →
    ∃ iw : Nat, iw < n ∧ tr[iw]? = some (w, Ev.wr x) ∧ nn ≤ lt tr iw w
  r : ∀ (x : Loc) (u : Tid), 0 < vget (s.a x).r u →
    ∃ i : Nat, i < n ∧ tr[i]? = some (u, Ev.rd x) ∧ vget (s.a x).r u ≤ lt tr i u

theorem run_snoc (tr : Trace) (t : Tid) (e : Ev) : run (tr ++ [(t, e)]) = (run tr).bind (fun s => step s t e) := by
  simp only [run, runFrom_append]
  cases runFrom step {} tr with
  | none => rfl
  | some s => simp [runFrom_cons]

theorem exact_frame {tr : Trace} {n : Nat} {s : St} {t : Tid} {e : Ev} (h : Exact tr n s) (hn : tr[n]? = some (t, e)) :
    Exact tr (n + 1) { clk := vstep s.clk t e, acc := s.acc } := by
  refine ⟨by rw [K_succ hn, ← h.clk], ?_, ?_⟩
  · intro x w nn hx
    obtain ⟨iw, h1, h2, h3⟩ := h.w x w nn hx
    exact ⟨iw, by omega, h2, h3⟩
  · intro x u hx
    obtain ⟨i, h1, h2, h3⟩ := h.r x u hx
    exact ⟨i, by omega, h2, h3⟩

/-- a trace without a race is accepted prefix by prefix -/
theorem run_take_of_no_race {tr : Trace} (hnr : ¬ Race tr) :
    ∀ n, n ≤ tr.length → ∃ s, run (tr.take n) = some s ∧ Exact tr n s := by
  intro n
  induction n with
  | zero =>
    intro _
    refine ⟨{}, rfl, rfl, ?_, ?_⟩
    · intro x w nn h; simp [St.a, lget] at h
    · intro x u h; simp [St.a, lget] at h
  | succ n ih =>
    intro hn
    obtain ⟨s, hrun, hex⟩ := ih (by omega)
    obtain ⟨t, e, hte⟩ := get_of_lt (tr := tr) (n := n) (by omega)
    rw [take_succ_get hte, run_snoc, hrun]
    simp only [Option.bind_some]
    have hk : vstep s.clk t e = K tr (n + 1) := by rw [K_succ hte, hex.clk]
    -- an earlier conflicting access is known to the clock of the new event
    have known : ∀ i u ei, i < n → tr[i]? = some (u, ei) → Conflict tr i n →
        lt tr i u ≤ vget ((vstep s.clk t e).c t) u := by
      intro i u ei hin hi hc
      have hhb : HB tr i n := Classical.byContradiction (fun hno => hnr ⟨i, n, hin, hc, hno⟩)
      rw [hk]; exact hb_known hhb hi hte
    have hown : vget ((vstep s.clk t e).c t) t ≤ lt tr n t := by rw [hk]; exact own_le_lt tr n t
    have hwok : ∀ x, (e = .rd x ∨ e = .wr x) → wOK (s.a x).w ((vstep s.clk t e).c t) = true := by
      intro x hacc
      cases hw : (s.a x).w with
      | none => rfl
      | some p =>
        obtain ⟨w, nn⟩ := p
        obtain ⟨iw, h1, h2, h3⟩ := hex.w x w nn hw
        have := known iw w _ h1 h2 ⟨x, w, t, _, e, h2, hte, .inr rfl, hacc, .inl rfl⟩
        simp only [wOK, decide_eq_true_eq]; omega
    cases e with
    | rd x =>
      refine ⟨_, (by simp only [step, hwok x (.inl rfl), if_true]; rfl), ?_⟩
      refine ⟨by simpa using hk, ?_, ?_⟩
      · intro y w nn hy
        simp only [St.a_mk, a_lset] at hy
        have hy' : (s.a y).w = some (w, nn) := by
          split at hy
          · rename_i hyx; subst hyx; exact hy
          · exact hy
        obtain ⟨iw, h1, h2, h3⟩ := hex.w y w nn hy'
        exact ⟨iw, by omega, h2, h3⟩
      · intro y u hy
        simp only [St.a_mk, a_lset] at hy ⊢
        split at hy
        · rename_i hyx; subst hyx
          simp only [if_true, vget_vset] at hy ⊢
          split at hy
          · rename_i hut; subst hut
            simp only [if_true]
            exact ⟨n, by omega, hte, hown⟩
          · rename_i hut
            simp only [hut, if_false]
            obtain ⟨i, h1, h2, h3⟩ := hex.r y u hy
            exact ⟨i, by omega, h2, h3⟩
        · rename_i hyx
          simp only [hyx, if_false]
          obtain ⟨i, h1, h2, h3⟩ := hex.r y u hy
          exact ⟨i, by omega, h2, h3⟩
    | wr x =>
      have hvle : vle (s.a x).r ((vstep s.clk t (.wr x)).c t) = true := by
        apply vle_of_le
        intro u
        by_cases h0 : 0 < vget (s.a x).r u
        · obtain ⟨i, h1, h2, h3⟩ := hex.r x u h0
          have := known i u _ h1 h2 ⟨x, u, t, _, _, h2, hte, .inl rfl, .inr rfl, .inr rfl⟩
          omega
        · omega
      refine ⟨_, (by simp only [step, hwok x (.inr rfl), hvle, Bool.and_self, if_true]; rfl), ?_⟩
      refine ⟨by simpa using hk, ?_, ?_⟩
      · intro y w nn hy
        simp only [St.a_mk, a_lset] at hy
        split at hy
        · rename_i hyx; subst hyx
          injection hy with hy; injection hy with h1 h2
          subst h1; subst h2
          exact ⟨n, by omega, hte, hown⟩
        · obtain ⟨iw, h1, h2, h3⟩ := hex.w y w nn hy
          exact ⟨iw, by omega, h2, h3⟩
      · intro y u hy
        have hsame : ∀ a' : Acc, a'.r = (s.a x).r → (if y = x then a' else lget {} s.acc y).r = (s.a y).r := by
          intro a' ha
          split
          · rename_i hy; subst hy; exact ha
          · rfl
        simp only [St.a_mk, a_lset] at hy ⊢
        rw [hsame { w := some (t, vget ((vstep s.clk t (Ev.wr x)).c t) t), r := (s.a x).r } rfl] at hy ⊢
        obtain ⟨i, h1, h2, h3⟩ := hex.r y u hy
        exact ⟨i, by omega, h2, h3⟩
    | acq m md => exact ⟨_, rfl, exact_frame hex hte⟩
    | rel m md => exact ⟨_, rfl, exact_frame hex hte⟩
    | ld a o => exact ⟨_, rfl, exact_frame hex hte⟩
    | st a o => exact ⟨_, rfl, exact_frame hex hte⟩
    | rmw a o => exact ⟨_, rfl, exact_frame hex hte⟩
    | fork u => exact ⟨_, rfl, exact_frame hex hte⟩
    | join u => exact ⟨_, rfl, exact_frame hex hte⟩
    | nop => exact ⟨_, rfl, exact_frame hex hte⟩

/-- **Completeness of the checker**: a trace without a data race is accepted. -/
theorem raceFree_complete {tr : Trace} (h : ¬ Race tr) : raceFree tr = true := by
  obtain ⟨s, hs, _⟩ := run_take_of_no_race h tr.length (Nat.le_refl _)
  rw [List.take_length] at hs
  simp [raceFree, hs]

/-- the checker decides the declarative definition -/
theorem raceFree_iff (tr : Trace) : raceFree tr = true ↔ ¬ Race tr :=
  ⟨raceFree_sound, raceFree_complete⟩

end ConcVerif.HB
