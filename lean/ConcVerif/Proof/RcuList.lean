/-! List-order toolkit for the RCU proofs: `Below l a` = the elements after (older than / behind) `a` in
`l`.  For duplicate-free lists this gives a strict total order on the members
(`y ∈ Below l x` = "y lies behind x"), and its behaviour under `cons`, `erase`, `++ [n]` is simple. -/
namespace ConcVerif.Rcu

def Below : List Nat → Nat → List Nat
  | [], _ => []
  | x :: xs, a => if x = a then xs else Below xs a

@[simp] theorem below_nil (a : Nat) : Below [] a = [] := rfl

theorem below_cons (x : Nat) (xs : List Nat) (a : Nat) : Below (x :: xs) a = if x = a then xs else Below xs a := rfl

@[simp] theorem below_cons_self (x : Nat) (xs : List Nat) : Below (x :: xs) x = xs := by simp [below_cons]

theorem below_cons_ne {x a : Nat} (xs : List Nat) (h : x ≠ a) : Below (x :: xs) a = Below xs a := by simp [below_cons, h]

theorem mem_of_mem_below {l : List Nat} {a y : Nat} (h : y ∈ Below l a) : y ∈ l := by
  induction l with
  | nil => simp at h
  | cons x xs ih =>
    rw [below_cons] at h
    split at h
    · exact List.mem_cons_of_mem _ h
    · exact List.mem_cons_of_mem _ (ih h)

theorem below_of_not_mem {l : List Nat} {a : Nat} (h : a ∉ l) : Below l a = [] := by
  induction l with
  | nil => rfl
  | cons x xs ih =>
    have hx : x ≠ a := fun e => h (e ▸ List.mem_cons_self)
    rw [below_cons_ne _ hx]
    exact ih (fun hm => h (List.mem_cons_of_mem _ hm))

/-- every member splits the list -/
theorem split_of_mem {l : List Nat} {a : Nat} (h : a ∈ l) (hn : l.Nodup) :
    ∃ pre, l = pre ++ a :: Below l a ∧ a ∉ pre := by
  induction l with
  | nil => simp at h
  | cons x xs ih =>
    by_cases hx : x = a
    · subst hx; exact ⟨[], by simp, by simp⟩
    · have hm : a ∈ xs := by
        rcases List.mem_cons.1 h with h | h
        · exact absurd h.symm hx
        · exact h
      obtain ⟨pre, hp, hnp⟩ := ih hm (List.nodup_cons.1 hn).2
      refine ⟨x :: pre, ?_, ?_⟩
      · rw [below_cons_ne _ hx]; simp; exact hp
      · simp; exact ⟨fun e => hx e.symm, hnp⟩

theorem below_append_of_not_mem {pre : List Nat} {a : Nat} (post : List Nat) (h : a ∉ pre) :
    Below (pre ++ a :: post) a = post := by
  induction pre with
  | nil => simp
  | cons x xs ih =>
    have hx : x ≠ a := fun e => h (e ▸ List.mem_cons_self)
    simp only [List.cons_append]
    rw [below_cons_ne _ hx]
    exact ih (fun hm => h (List.mem_cons_of_mem _ hm))

theorem not_mem_below_self {l : List Nat} {a : Nat} (hn : l.Nodup) : a ∉ Below l a := by
  induction l with
  | nil => simp
  | cons x xs ih =>
    rw [below_cons]
    split
    · rename_i h; subst h; exact (List.nodup_cons.1 hn).1
    · exact ih (List.nodup_cons.1 hn).2

theorem below_sublist (l : List Nat) (a : Nat) : (Below l a).Sublist l := by
  induction l with
  | nil => simp
  | cons x xs ih =>
    rw [below_cons]
    split
    · exact List.sublist_cons_self _ _
    · exact (ih).trans (List.sublist_cons_self _ _)

theorem nodup_below {l : List Nat} (a : Nat) (hn : l.Nodup) : (Below l a).Nodup :=
  (below_sublist l a).nodup hn

/-- `Below` of a member of `Below l a` is a suffix of it: transitivity -/
theorem below_trans {l : List Nat} {a x y : Nat} (hn : l.Nodup) (hx : x ∈ Below l a) (hy : y ∈ Below l x) :
    y ∈ Below l a := by
  induction l with
  | nil => simp at hx
  | cons z zs ih =>
    have hzs := (List.nodup_cons.1 hn).2
    have hz := (List.nodup_cons.1 hn).1
    rw [below_cons] at hx ⊢
    by_cases hza : z = a
    · simp only [hza, if_true] at hx ⊢
      rw [below_cons] at hy
      split at hy
      · rename_i h; subst h; subst hza; exact absurd hx hz
      · exact mem_of_mem_below hy
    · simp only [hza, if_false] at hx ⊢
      rw [below_cons] at hy
      split at hy
      · rename_i h; subst h; exact absurd (mem_of_mem_below hx) hz
      · exact ih hzs hx hy

theorem below_antisymm {l : List Nat} {x y : Nat} (hn : l.Nodup) (hx : x ∈ Below l y) (hy : y ∈ Below l x) : False :=
  not_mem_below_self hn (below_trans hn hx hy)

theorem below_total {l : List Nat} {x y : Nat} (hx : x ∈ l) (hy : y ∈ l) (hne : x ≠ y) :
    x ∈ Below l y ∨ y ∈ Below l x := by
  induction l with
  | nil => simp at hx
  | cons z zs ih =>
    rw [below_cons, below_cons]
    by_cases hzx : z = x
    · subst hzx
      right
      simp
      rcases List.mem_cons.1 hy with h | h
      · exact absurd h.symm hne
      · exact h
    · by_cases hzy : z = y
      · subst hzy
        left
        simp [hzx]
        rcases List.mem_cons.1 hx with h | h
        · exact absurd h.symm hzx
        · exact h
      · simp only [hzx, hzy, if_false]
        rcases List.mem_cons.1 hx with h | h
        · exact absurd h.symm hzx
        · rcases List.mem_cons.1 hy with h' | h'
          · exact absurd h'.symm hzy
          · exact ih h h'

/-- the element directly behind `a` -/
theorem below_of_head {l : List Nat} {a m : Nat} (hn : l.Nodup) (h : (Below l a).head? = some m) :
    Below l m = (Below l a).tail := by
  induction l with
  | nil => simp at h
  | cons z zs ih =>
    have hzs := (List.nodup_cons.1 hn).2
    have hz := (List.nodup_cons.1 hn).1
    by_cases hza : z = a
    · subst hza
      rw [below_cons_self] at h ⊢
      cases zs with
      | nil => simp at h
      | cons w ws =>
        simp at h; subst h
        have hzm : z ≠ w := fun e => hz (e ▸ List.mem_cons_self)
        rw [below_cons_ne _ hzm]; simp
    · rw [below_cons_ne _ hza] at h ⊢
      have hm : m ∈ Below zs a := by
        cases hb : Below zs a with
        | nil => simp [hb] at h
        | cons w ws => simp [hb] at h; subst h; simp
      have hzm : z ≠ m := fun e => hz (e ▸ mem_of_mem_below hm)
      rw [below_cons_ne _ hzm]
      exact ih hzs h

theorem head_mem_below {l : List Nat} {a m : Nat} (h : (Below l a).head? = some m) : m ∈ Below l a := by
  cases hb : Below l a with
  | nil => simp [hb] at h
  | cons w ws => simp [hb] at h; subst h; simp

/-- members behind `a`: the head, or behind the head -/
theorem mem_below_cases {l : List Nat} {a m x : Nat} (hn : l.Nodup) (h : (Below l a).head? = some m)
    (hx : x ∈ Below l a) : x = m ∨ x ∈ Below l m := by
  rw [below_of_head hn h]
  cases hb : Below l a with
  | nil => simp [hb] at hx
  | cons w ws =>
    simp [hb] at h hx ⊢
    subst h
    exact hx

/-- erasing a member other than `x` -/
theorem below_erase {l : List Nat} {x m : Nat} (hn : l.Nodup) (hne : x ≠ m) :
    Below (l.erase m) x = (Below l x).erase m := by
  induction l with
  | nil => simp
  | cons z zs ih =>
    have hzs := (List.nodup_cons.1 hn).2
    have hz := (List.nodup_cons.1 hn).1
    by_cases hzm : z = m
    · subst hzm
      simp only [List.erase_cons_head]
      rw [below_cons_ne _ (Ne.symm hne)]
      have : z ∉ Below zs x := fun h => hz (mem_of_mem_below h)
      rw [List.erase_of_not_mem this]
    · rw [List.erase_cons_tail (by simpa using hzm)]
      rw [below_cons, below_cons]
      split
      · rename_i hzx
        rfl
      · exact ih hzs

theorem below_erase_self {l : List Nat} {m : Nat} (hn : l.Nodup) : Below (l.erase m) m = [] :=
  below_of_not_mem (by
    intro h
    exact (List.Nodup.mem_erase_iff hn).1 h |>.1 rfl)

theorem below_append_singleton {l : List Nat} {a n : Nat} (ha : a ∈ l) : Below (l ++ [n]) a = Below l a ++ [n] := by
  induction l with
  | nil => simp at ha
  | cons z zs ih =>
    simp only [List.cons_append]
    rw [below_cons, below_cons]
    split
    · rfl
    · rename_i hza
      rcases List.mem_cons.1 ha with h | h
      · exact absurd h.symm hza
      · exact ih h

theorem below_append_singleton_new {l : List Nat} {n : Nat} (hn : n ∉ l) : Below (l ++ [n]) n = [] := by
  induction l with
  | nil => simp
  | cons z zs ih =>
    simp only [List.cons_append]
    have hz : z ≠ n := fun e => hn (e ▸ List.mem_cons_self)
    rw [below_cons_ne _ hz]
    exact ih (fun h => hn (List.mem_cons_of_mem _ h))

theorem head_erase_of_ne {l : List Nat} {m h : Nat} (hh : l.head? = some h) (hne : h ≠ m) : (l.erase m).head? = some h := by
  cases l with
  | nil => simp at hh
  | cons z zs =>
    simp at hh; subst hh
    rw [List.erase_cons_tail (by simpa using hne)]
    rfl

theorem erase_head {l : List Nat} {m : Nat} (hh : l.head? = some m) : l.erase m = l.tail := by
  cases l with
  | nil => simp at hh
  | cons z zs => simp at hh; subst hh; simp

theorem mem_of_mem_below' {l : List Nat} {a y : Nat} (h : y ∈ Below l a) : a ∈ l := by
  apply Classical.byContradiction
  intro hn
  rw [below_of_not_mem hn] at h; simp at h

theorem head_ne_of_mem_below {l : List Nat} {a m : Nat} (hn : l.Nodup) (h : m ∈ Below l a) : l.head? ≠ some m := by
  cases l with
  | nil => simp
  | cons z zs =>
    simp only [List.head?_cons, ne_eq, Option.some.injEq]
    intro e; subst e
    rw [below_cons] at h
    split at h
    · exact (List.nodup_cons.1 hn).1 h
    · exact (List.nodup_cons.1 hn).1 (mem_of_mem_below h)

/-- the element directly in front of `m` is unique -/
theorem pred_unique {l : List Nat} {x a m : Nat} (hn : l.Nodup) (hx : (Below l x).head? = some m)
    (ha : (Below l a).head? = some m) : x = a := by
  apply Classical.byContradiction
  intro hne
  have hxm := head_mem_below hx
  have ham := head_mem_below ha
  rcases below_total (mem_of_mem_below' hxm) (mem_of_mem_below' ham) hne with h | h
  · rcases mem_below_cases hn ha h with h' | h'
    · subst h'; exact not_mem_below_self hn hxm
    · exact below_antisymm hn h' hxm
  · rcases mem_below_cases hn hx h with h' | h'
    · subst h'; exact not_mem_below_self hn ham
    · exact below_antisymm hn h' ham

theorem head_erase_of_ne' {l : List Nat} {m : Nat} (hne : l.head? ≠ some m) : (l.erase m).head? = l.head? := by
  cases l with
  | nil => simp
  | cons z zs =>
    have : z ≠ m := by intro e; subst e; simp at hne
    rw [List.erase_cons_tail (by simpa using this)]
    rfl

/-- a scan position survives the removal of an unrelated record -/
theorem scan_erase_core {l : List Nat} {a m' m : Nat} (hn : l.Nodup) (ham : a ≠ m) (h1 : m' ∈ Below l a) (hmm : m' ≠ m)
    (hh : (Below l a).head? ≠ some m) :
    m' ∈ Below (l.erase m) a ∧ (Below (l.erase m) a).head? = (Below l a).head? ∧
      ∀ x ∈ Below (l.erase m) a, m' ∈ Below (l.erase m) x → x ∈ Below l a ∧ m' ∈ Below l x := by
  rw [below_erase hn ham]
  refine ⟨(List.mem_erase_of_ne hmm).2 h1, head_erase_of_ne' hh, ?_⟩
  intro x hx hm'
  have hxb : x ∈ Below l a := List.mem_of_mem_erase hx
  have hxm : x ≠ m := by
    intro e; subst e
    exact (List.Nodup.mem_erase_iff (nodup_below a hn)).1 hx |>.1 rfl
  rw [below_erase hn hxm] at hm'
  exact ⟨hxb, List.mem_of_mem_erase hm'⟩

theorem below_erase_head {l : List Nat} {a m : Nat} (hn : l.Nodup) (ham : a ≠ m) (hh : (Below l a).head? = some m) :
    Below (l.erase m) a = (Below l a).tail := by
  rw [below_erase hn ham, erase_head hh]

end ConcVerif.Rcu
