import ConcVerif.Proof.HBCowInv
/-! cow_guarded and happens-before, part 8: every step keeps `CInv`. -/
namespace ConcVerif.Cow
open ConcVerif.LR (Side)

theorem cinv_step {es : List (Tid × Ev)} {s s' : St} {t : Tid} {ce : Ev} (hi : Inv s) (hi' : Inv s') (h : CInv es s)
    (hs : step s t ce = some s') : CInv (es ++ [(t, ce)]) s' := by
  have other : ∀ u, u ≠ t → s'.pc u = s.pc u := (frame_step hs).other
  have zero_alloc : (0 : Ver) ∈ s.alloc := hi.h.pubAlloc 0 (.inl rfl)
  -- whoever has a version after the step holds the writer mutex: unique
  have uniq' : ∀ u w v v', (s'.pc u).hasV = some v → (s'.pc w).hasV = some v' → u = w :=
    fun u w v v' h1 h2 => holds_uniq hi' (hasV_holds h1) (hasV_holds h2)
  have uniq : ∀ u w v v', (s.pc u).hasV = some v → (s.pc w).hasV = some v' → u = w :=
    fun u w v v' h1 h2 => holds_uniq hi (hasV_holds h1) (hasV_holds h2)
  refine ⟨?_, ?_, ?_, ?_, ?_, ?_, ?_, ?_, ?_, ?_, ?_, ?_⟩
  · -- wro
    intro i t0 e v hq hw
    rcases HB.lq_snoc hq with ⟨_, hq'⟩ | ⟨_, hp⟩
    · obtain ⟨g1, g2, g3⟩ := h.wro i t0 e v hq' hw
      refine ⟨alloc_mono hs g1, g2, ?_⟩
      intro u hu
      by_cases hut : u = t
      · subst hut
        rcases hasV_entry hs hu with g | ⟨src, k, g⟩
        · exact g3 u g
        · subst g; exact absurd g1 (pcp_pre hs).2.1
      · rw [other u hut] at hu; exact g3 u hu
    · injection hp with g1 g2; subst g1; subst g2
      have key : (s'.pc t0).hasV = some v ∧ v ≠ 0 := by
        cases e <;> simp [Ev.wrP] at hw
        · subst hw
          obtain ⟨g1, g2, g3⟩ := pcp_pre hs
          exact ⟨by rw [g3]; rfl, fun hc => g2 (hc ▸ zero_alloc)⟩
        · subst hw
          obtain ⟨g1, g2⟩ := pwr_pre hs
          refine ⟨by rw [g2, g1]; rfl, ?_⟩
          intro hc
          have := (hi.h.ownOk t0 _ (by rw [g1]; rfl)).2.2
          exact this (hc ▸ .inl rfl)
      have ha : v ∈ s'.alloc := by
        rcases hasV_entry hs key.1 with g | ⟨src, k, g⟩
        · exact alloc_mono hs (h.hva t0 v g)
        · have := (hi'.h.ownOk t0 v (by subst g; rw [(pcp_pre hs).2.2]; rfl)).1
          exact this
      exact ⟨ha, key.2, fun u hu => uniq' u t0 v v hu key.1⟩
  · -- hva
    intro u v hu
    by_cases hut : u = t
    · subst hut
      rcases hasV_entry hs hu with g | ⟨src, k, g⟩
      · exact alloc_mono hs (h.hva u v g)
      · exact (hi'.h.ownOk u v (by subst g; rw [(pcp_pre hs).2.2]; rfl)).1
    · rw [other u hut] at hu; exact alloc_mono hs (h.hva u v hu)
  · -- stp
    intro q t1 x v hq
    rcases HB.lq_snoc hq with ⟨_, hq'⟩ | ⟨_, hp⟩
    · obtain ⟨g1, g2⟩ := h.stp q t1 x v hq'
      refine ⟨alloc_mono hs g1, ?_⟩
      intro u hu
      by_cases hut : u = t
      · subst hut
        rcases pre_entry hs hu with g | ⟨src, k, g⟩
        · exact g2 u g
        · subst g; exact absurd g1 (pcp_pre hs).2.1
      · rw [other u hut] at hu; exact g2 u hu
    · injection hp with g1 g2; subst g1; subst g2
      obtain ⟨g1, g2, _⟩ := stPtr_pre hs
      have hv := rel_hasV g1
      refine ⟨alloc_mono hs (h.hva t1 v hv), ?_⟩
      intro u hu
      by_cases hut : u = t1
      · subst hut; rw [g2] at hu; exact rel_pre g1 v hu
      · rw [other u hut] at hu
        exact hut (uniq u t1 v v (pre_hasV hu) hv)
  · -- kw
    intro i t0 e v q t1 x hiq hw hq
    rcases HB.lq_snoc hiq with ⟨hil, hi1⟩ | ⟨hil, hp⟩
    · rcases HB.lq_snoc hq with ⟨_, hq1⟩ | ⟨hql, hp'⟩
      · exact h.kw i t0 e v q t1 x hi1 hw hq1
      · injection hp' with g1 g2; subst g1; subst g2
        have := (h.wro i t0 e v hi1 hw).2.2 t1 (rel_hasV (stPtr_pre hs).1)
        exact ⟨this, by omega⟩
    · injection hp with g1 g2; subst g1; subst g2
      exfalso
      rcases HB.lq_snoc hq with ⟨_, hq1⟩ | ⟨_, hp'⟩
      · obtain ⟨k1, k2⟩ := h.stp q t1 x v hq1
        cases e <;> simp [Ev.wrP] at hw
        · subst hw; exact (pcp_pre hs).2.1 k1
        · subst hw; exact k2 t0 (by rw [(pwr_pre hs).1]; rfl)
      · injection hp' with _ g2; subst g2; simp [Ev.wrP] at hw
  · -- ww
    -- the thread of a new write has the version; an earlier write to it was made by whoever has it
    have newW : ∀ (e : Ev) (v : Ver), ce = e → e.wrP = some v → ∀ (i : Nat) (t0 : Tid) (e0 : Ev), es[i]? = some (t0, e0) →
        e0.wrP = some v → t0 = t := by
      intro e v he hw i t0 e0 hi0 hw0
      obtain ⟨k1, _, k3⟩ := h.wro i t0 e0 v hi0 hw0
      subst he
      cases ce <;> simp [Ev.wrP] at hw
      · subst hw; exact absurd k1 (pcp_pre hs).2.1
      · subst hw; exact (k3 t (by rw [(pwr_pre hs).1]; rfl)).symm
    intro i c t0 u e e' v hi1 hc1 hw hw'
    rcases HB.lq_snoc hi1 with ⟨_, hi2⟩ | ⟨_, hp⟩
    · rcases HB.lq_snoc hc1 with ⟨_, hc2⟩ | ⟨_, hp'⟩
      · exact h.ww i c t0 u e e' v hi2 hc2 hw hw'
      · injection hp' with g1 g2; subst g1; subst g2
        exact newW e' v rfl hw' i t0 e hi2 hw
    · injection hp with g1 g2; subst g1; subst g2
      rcases HB.lq_snoc hc1 with ⟨_, hc2⟩ | ⟨_, hp'⟩
      · exact (newW e v rfl hw c u e' hc2 hw').symm
      · injection hp' with g1 _; exact g1.symm
  · -- sn
    intro u v hu
    rcases snaps_entry hs hu with g | ⟨g1, x, g2⟩
    · obtain ⟨r, x, g⟩ := h.sn u v g; exact ⟨r, x, HB.lq_mono _ g⟩
    · subst g1; subst g2; exact ⟨es.length, x, HB.lq_last _ _⟩
  · -- lh
    intro u g hu
    by_cases hut : u = t
    · subst hut
      rcases lkH_entry hs hu with k | ⟨x, k⟩
      · obtain ⟨r, x, k⟩ := h.lh u g k; exact ⟨r, x, HB.lq_mono _ k⟩
      · subst k; exact ⟨es.length, x, HB.lq_last _ _⟩
    · rw [other u hut] at hu
      obtain ⟨r, x, k⟩ := h.lh u g hu; exact ⟨r, x, HB.lq_mono _ k⟩
  · -- owc
    intro u v hu
    by_cases hut : u = t
    · subst hut
      rcases pre_entry hs hu with k | ⟨src, c, k⟩
      · obtain ⟨c, src, n, k⟩ := h.owc u v k; exact ⟨c, src, n, HB.lq_mono _ k⟩
      · subst k; exact ⟨es.length, src, c, HB.lq_last _ _⟩
    · rw [other u hut] at hu
      obtain ⟨c, src, n, k⟩ := h.owc u v hu; exact ⟨c, src, n, HB.lq_mono _ k⟩
  · -- kr
    intro j u e v hj hr
    rcases HB.lq_snoc hj with ⟨_, hj1⟩ | ⟨hjl, hp⟩
    · rcases h.kr j u e v hj1 hr with ⟨r, x, g1, g2⟩ | ⟨c, src, k, g1, g2⟩
      · exact .inl ⟨r, x, g1, HB.lq_mono _ g2⟩
      · exact .inr ⟨c, src, k, g1, HB.lq_mono _ g2⟩
    · injection hp with g1 g2; subst g1; subst g2; subst hjl
      cases e <;> simp [Ev.rdP] at hr
      · subst hr
        obtain ⟨r, x, g⟩ := h.lh u _ (pcp_pre hs).1
        exact .inl ⟨r, x, HB.lq_lt g, HB.lq_mono _ g⟩
      · subst hr
        rcases (prd_pre hs).1 with g | g
        · obtain ⟨r, x, g⟩ := h.sn u _ g
          exact .inl ⟨r, x, HB.lq_lt g, HB.lq_mono _ g⟩
        · obtain ⟨c, src, k, g⟩ := h.owc u _ (by rw [g]; rfl)
          exact .inr ⟨c, src, k, HB.lq_lt g, HB.lq_mono _ g⟩
  · -- svt
    intro x v hv
    by_cases hc : ∃ y, ce = .stCtl y
    · obtain ⟨y, rfl⟩ := hc
      obtain ⟨v0, g1, g2, g3, g4⟩ := val_stCtl hs
      have old : v ∈ s.lr.val x → ∃ (q : Nat) (t0 : Tid), (es ++ [(t, Ev.stCtl y)])[q]? = some (t0, Ev.stPtr x v) := by
        intro hx; obtain ⟨q, t0, g⟩ := h.svt x v hx; exact ⟨q, t0, HB.lq_mono _ g⟩
      rcases side_cases x y with hxy | hxy
      · subst hxy
        rw [g2, List.mem_append, List.mem_singleton] at hv
        rcases hv with hv | hv
        · exact old hv
        · subst hv
          obtain ⟨q, t0, v1, k1, k2⟩ := h.detw x g4
          have := uniq t0 t v1 v (rel_hasV k2) (rel_hasV g1)
          subst this
          have hvv : v1 = v := by
            have a := rel_hasV k2; have b := rel_hasV g1
            rw [a] at b; injection b
          subst hvv
          exact ⟨q, t0, HB.lq_mono _ k1⟩
      · subst hxy; rw [g3] at hv; exact old hv
    · rw [val_frame hs (fun y hy => hc ⟨y, hy⟩) x] at hv
      obtain ⟨q, t0, g⟩ := h.svt x v hv; exact ⟨q, t0, HB.lq_mono _ g⟩
  · -- detw
    intro x hd
    rcases det_cases hs with g | ⟨x', v', g1, g2⟩ | ⟨x', _, _, g3⟩
    · rw [g] at hd
      obtain ⟨q, t0, v0, k1, k2⟩ := h.detw x hd
      refine ⟨q, t0, v0, HB.lq_mono _ k1, ?_⟩
      by_cases htt : t0 = t
      · subst htt
        rw [← g] at hd
        obtain ⟨w', v', k3⟩ := det_owner hi' hd
        have hw : w' = t0 := by
          apply Classical.byContradiction
          intro hne
          rw [other w' hne] at k3
          exact hne (uniq w' t0 v' v0 (rel_hasV k3) (rel_hasV k2))
        subst hw
        have := rel_keep hs k2 k3
        subst this; exact k3
      · rw [other t0 htt]; exact k2
    · subst g1
      rw [g2] at hd; injection hd with hd; subst hd
      obtain ⟨k1, k2, _⟩ := stPtr_pre hs
      exact ⟨es.length, t, v', HB.lq_last _ _, by rw [k2]; exact k1⟩
    · rw [g3] at hd; cases hd
  · -- kl
    intro r u x v hr
    rcases HB.lq_snoc hr with ⟨_, hr1⟩ | ⟨hrl, hp⟩
    · rcases h.kl r u x v hr1 with g | ⟨q, t0, g1, g2⟩
      · exact .inl g
      · exact .inr ⟨q, t0, g1, HB.lq_mono _ g2⟩
    · injection hp with g1 g2; subst g1; subst g2; subst hrl
      have hv := (ldPtr_pre hs).1
      rcases cur_mem (s.lr.val x) with g | g
      · left; rw [hv]; exact g
      · right
        obtain ⟨q, t0, k⟩ := h.svt x v (by rw [hv]; exact g)
        exact ⟨q, t0, HB.lq_lt k, HB.lq_mono _ k⟩

end ConcVerif.Cow
