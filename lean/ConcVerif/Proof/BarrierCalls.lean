import ConcVerif.Proof.Barrier
/-! Ties the ghost arrival counter `St.arr t` of the Barrier model to the *calls in the trace*: the
arrivals a thread has made are exactly the `wait` / `wait_and_drop` calls it has started, minus the
one it is still in front of (pc `called` / `locked`).  Any participants, any trace. -/
namespace ConcVerif.Barrier

/-- 1 while the thread is inside a call whose arrival is not yet counted -/
def Pc.pre : Pc → Nat
  | .called _ | .locked _ => 1
  | _ => 0

def cN : Ev → Nat
  | .call _ => 1
  | _ => 0

/-- number of `wait` / `wait_and_drop` calls thread `t` has started in a trace -/
def callsOf (t : Tid) : List (Tid × Ev) → Nat
  | [] => 0
  | (u, e) :: es => (if u = t then cN e else 0) + callsOf t es

def K (s : St) (c : Tid → Nat) : Prop := ∀ t, s.arr t + (s.pc t).pre = c t

theorem K_pc {s s' : St} {c : Tid → Nat} {t : Tid} {p' : Pc} {n : Nat} (h : K s c)
    (ha : s'.arr = s.arr) (hpc : s'.pc = upd s.pc t p') (hp : p'.pre = (s.pc t).pre + n) :
    K s' (upd c t (c t + n)) := by
  intro u
  rw [ha, hpc]
  simp only [upd_apply]
  by_cases hu : u = t
  · subst hu; simp; have := h u; omega
  · simp [hu]; exact h u

theorem K_arr {s s' : St} {c : Tid → Nat} {t : Tid} {p' : Pc} (h : K s c)
    (ha : s'.arr = upd s.arr t (s.arr t + 1)) (hpc : s'.pc = upd s.pc t p')
    (hold : (s.pc t).pre = 1) (hp : p'.pre = 0) : K s' (upd c t (c t + 0)) := by
  intro u
  rw [ha, hpc]
  simp only [upd_apply]
  by_cases hu : u = t
  · subst hu; simp; have := h u; omega
  · simp [hu]; exact h u

theorem K_id {s : St} {c : Tid → Nat} {t : Tid} (h : K s c) : K s (upd c t (c t + 0)) := by
  intro u
  simp only [upd_apply]
  by_cases hu : u = t
  · subst hu; simp; exact h u
  · simp [hu]; exact h u

theorem K_step {s s' : St} {c : Tid → Nat} {t : Tid} {e : Ev} (h : K s c)
    (hs : step s t e = some s') : K s' (upd c t (c t + cN e)) := by
  unfold step at hs
  split at hs
  all_goals (try (repeat' (split at hs)))
  all_goals (try contradiction)
  all_goals (injection hs with hs; subst hs)
  all_goals first
    | exact K_id h
    | exact K_pc (t := t) h rfl rfl (by simp_all [Pc.pre, cN])
    | exact K_arr (t := t) h rfl rfl (by simp_all [Pc.pre]) (by simp [Pc.pre])

theorem K_run {s s' : St} {c : Tid → Nat} (es : List (Tid × Ev)) (h : K s c)
    (hr : runFrom step s es = some s') : K s' (fun t => c t + callsOf t es) := by
  induction es generalizing s c with
  | nil => simp at hr; subst hr; simpa [callsOf] using h
  | cons te es ih =>
    obtain ⟨t, e⟩ := te
    rw [runFrom_cons] at hr
    cases hst : step s t e with
    | none => simp [hst] at hr
    | some s1 =>
      simp [hst] at hr
      have h2 := ih (K_step h hst) hr
      intro u
      have := h2 u
      simp only [callsOf, upd_apply] at this ⊢
      by_cases hu : u = t
      · subst hu; simp at this ⊢; omega
      · have hu' : ¬ t = u := fun h => hu h.symm
        simp [hu, hu'] at this ⊢; omega

theorem K_init (P : List Tid) : K (init P) (fun _ => 0) := by
  intro t; simp [init, Pc.pre]

end ConcVerif.Barrier
