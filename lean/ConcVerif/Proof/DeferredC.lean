import ConcVerif.Proof.Deferred
/-! Group C of the `deferred_guarded` invariants: conservation and ownership of tasks. -/
namespace ConcVerif.Deferred

/-- the task is published: in the queue, in the drainer's batch, or applied -/
def St.inSeq (s : St) (k : TaskId) : Prop := k ∈ s.applied ∨ k ∈ s.batch ∨ k ∈ s.queue

def BatchX (s : St) : Prop := s.batch ≠ [] → ∃ d, s.mx = some d ∧ (s.pc d).runs = true

structure InvC (s : St) : Prop where
  nodup : (s.applied ++ s.batch ++ s.queue).Nodup
  own : ∀ u k, (s.pc u).task = some k → s.sub k = some u
  cons : ∀ k u, s.sub k = some u → s.inSeq k ∨ (s.pc u).prePub = some k
  pre : ∀ u k, (s.pc u).prePub = some k → ¬ s.inSeq k
  seqSub : ∀ k, s.inSeq k → s.sub k ≠ none
  doneSub : ∀ k, k ∈ s.done → s.sub k ≠ none
  notDone : ∀ u k, (s.pc u).task = some k → k ∉ s.done
  retd : ∀ k u, s.sub k = some u → k ∈ s.done ∨ (s.pc u).task = some k
  bef : ∀ k a, a ∈ s.before k → a ∈ s.done
  batchX : BatchX s

theorem invC_init (spur : Bool) : InvC (init spur) := by
  constructor <;> simp [init, St.inSeq, BatchX, Pc.task, Pc.prePub]

theorem batchX_keep {s s' : St} {t : Tid} {p' : Pc} (h : BatchX s) (hpc : s'.pc = upd s.pc t p')
    (hb : s'.batch = s.batch) (hmx : s'.mx = s.mx) (hr : (s.pc t).runs = true → p'.runs = true) : BatchX s' := by
  intro hne
  rw [hb] at hne
  obtain ⟨d, hd, hrd⟩ := h hne
  refine ⟨d, by rw [hmx]; exact hd, ?_⟩
  rw [hpc]
  by_cases hdt : d = t
  · subst hdt; simp [hr hrd]
  · simp [hdt, hrd]

theorem batchX_nil {s' : St} (hb : s'.batch = []) : BatchX s' := fun hne => absurd hb hne

/-- pc-only move of `t` that keeps `task` and `prePub` (fields of group C unchanged; `BatchX` supplied) -/
theorem invC_move {s s' : St} {t : Tid} {p' : Pc} (h : InvC s) (hpc : s'.pc = upd s.pc t p')
    (htask : p'.task = (s.pc t).task) (hpre : p'.prePub = (s.pc t).prePub)
    (ha : s'.applied = s.applied) (hb : s'.batch = s.batch) (hq : s'.queue = s.queue)
    (hsub : s'.sub = s.sub) (hdone : s'.done = s.done) (hbef : s'.before = s.before)
    (hbx : BatchX s') : InvC s' := by
  obtain ⟨h1, h2, h3, h4, h5, h6, h7, h8, h9, _⟩ := h
  have hseq : ∀ k, s'.inSeq k ↔ s.inSeq k := by intro k; simp [St.inSeq, ha, hb, hq]
  have htk : ∀ u, (s'.pc u).task = (s.pc u).task := by
    intro u; rw [hpc]; exact upd_class Pc.task s.pc t p' htask u
  have hpp : ∀ u, (s'.pc u).prePub = (s.pc u).prePub := by
    intro u; rw [hpc]; exact upd_class Pc.prePub s.pc t p' hpre u
  refine ⟨?_, ?_, ?_, ?_, ?_, ?_, ?_, ?_, ?_, hbx⟩
  · rw [ha, hb, hq]; exact h1
  · intro u k; rw [htk, hsub]; exact h2 u k
  · intro k u; rw [hsub, hseq, hpp]; exact h3 k u
  · intro u k; rw [hpp, hseq]; exact h4 u k
  · intro k; rw [hseq, hsub]; exact h5 k
  · intro k; rw [hdone, hsub]; exact h6 k
  · intro u k; rw [htk, hdone]; exact h7 u k
  · intro k u; rw [hsub, hdone, htk]; exact h8 k u
  · intro k a; rw [hbef, hdone]; exact h9 k a

/-- no field of group C and no pc changes -/
theorem invC_congr {s s' : St} (h : InvC s) (hpc : s'.pc = s.pc)
    (ha : s'.applied = s.applied) (hb : s'.batch = s.batch) (hq : s'.queue = s.queue)
    (hsub : s'.sub = s.sub) (hdone : s'.done = s.done) (hbef : s'.before = s.before) (hmx : s'.mx = s.mx) :
    InvC s' := by
  obtain ⟨h1, h2, h3, h4, h5, h6, h7, h8, h9, h10⟩ := h
  have hseq : ∀ k, s'.inSeq k ↔ s.inSeq k := by intro k; simp [St.inSeq, ha, hb, hq]
  refine ⟨?_, ?_, ?_, ?_, ?_, ?_, ?_, ?_, ?_, ?_⟩
  · rw [ha, hb, hq]; exact h1
  · intro u k; rw [hpc, hsub]; exact h2 u k
  · intro k u; rw [hsub, hseq, hpc]; exact h3 k u
  · intro u k; rw [hpc, hseq]; exact h4 u k
  · intro k; rw [hseq, hsub]; exact h5 k
  · intro k; rw [hdone, hsub]; exact h6 k
  · intro u k; rw [hpc, hdone]; exact h7 u k
  · intro k u; rw [hsub, hdone, hpc]; exact h8 k u
  · intro k a; rw [hbef, hdone]; exact h9 k a
  · intro hne; rw [hb] at hne; obtain ⟨d, hd, hr⟩ := h10 hne; exact ⟨d, by rw [hmx]; exact hd, by rw [hpc]; exact hr⟩

/-- two threads inside a `modify_*` call work on different tasks -/
theorem InvC.task_inj {s : St} (h : InvC s) {t u : Tid} {k : TaskId} (ht : (s.pc t).task = some k)
    (hu : (s.pc u).task = some k) : u = t := by
  have a := h.own t k ht
  have b := h.own u k hu
  rw [a] at b; injection b with b; exact b.symm

theorem nodup_snoc_right {X : List TaskId} {k : TaskId} (h : X.Nodup) (hk : k ∉ X) : (X ++ [k]).Nodup := by
  rw [List.nodup_append]
  refine ⟨h, by simp, ?_⟩
  intro a ha b hb
  simp only [List.mem_singleton] at hb
  subst hb; intro he; subst he; exact hk ha

theorem nodup_insert_mid {A Q : List TaskId} {k : TaskId} (h : (A ++ Q).Nodup) (h1 : k ∉ A) (h2 : k ∉ Q) :
    (A ++ [k] ++ Q).Nodup := by
  rw [List.nodup_append] at h ⊢
  obtain ⟨hA, hQ, hd⟩ := h
  refine ⟨nodup_snoc_right hA h1, hQ, ?_⟩
  intro a ha b hb
  simp only [List.mem_append, List.mem_singleton] at ha
  rcases ha with ha | ha
  · exact hd a ha b hb
  · subst ha; intro he; subst he; exact h2 hb

theorem invC_call {s s' : St} {t : Tid} {k : TaskId} {a : Bool} (h : InvC s) (hp : s.pc t = .idle false)
    (hsub : s.sub k = none) (hpc : s'.pc = upd s.pc t (.mTry k a))
    (hsb : s'.sub = upd s.sub k (some t)) (hbf : s'.before = upd s.before k s.done)
    (ha : s'.applied = s.applied) (hb : s'.batch = s.batch) (hq : s'.queue = s.queue) (hdone : s'.done = s.done)
    (hmx : s'.mx = s.mx) : InvC s' := by
  have hbx : BatchX s' := batchX_keep h.batchX hpc hb hmx (by simp [hp, Pc.runs])
  obtain ⟨h1, h2, h3, h4, h5, h6, h7, h8, h9, _⟩ := h
  have hseq : ∀ k', s'.inSeq k' ↔ s.inSeq k' := by intro k'; simp [St.inSeq, ha, hb, hq]
  have hnseq : ¬ s.inSeq k := fun hin => h5 k hin hsub
  have hndone : k ∉ s.done := fun hin => h6 k hin hsub
  have hsub' : ∀ k', k' ≠ k → s'.sub k' = s.sub k' := by intro k' hk; rw [hsb]; simp [upd, hk]
  have hsubk : s'.sub k = some t := by rw [hsb]; simp [upd]
  have hpct : s'.pc t = .mTry k a := by rw [hpc]; simp
  have hpcu : ∀ u, u ≠ t → s'.pc u = s.pc u := by intro u hu; rw [hpc]; simp [hu]
  refine ⟨by rw [ha, hb, hq]; exact h1, ?_, ?_, ?_, ?_, ?_, ?_, ?_, ?_, hbx⟩
  · intro u k' hk'
    by_cases hu : u = t
    · subst hu; rw [hpct] at hk'; simp only [Pc.task, Option.some.injEq] at hk'; subst hk'; exact hsubk
    · rw [hpcu u hu] at hk'
      have := h2 u k' hk'
      have hne : k' ≠ k := by intro he; subst he; rw [hsub] at this; cases this
      rw [hsub' k' hne]; exact this
  · intro k' u hs'
    rw [hseq]
    by_cases hk : k' = k
    · subst hk; rw [hsubk] at hs'; injection hs' with hs'; subst hs'; right; rw [hpct]; simp [Pc.prePub]
    · rw [hsub' k' hk] at hs'
      rcases h3 k' u hs' with hin | hpre
      · exact Or.inl hin
      · by_cases hu : u = t
        · subst hu; rw [hp] at hpre; simp [Pc.prePub] at hpre
        · right; rw [hpcu u hu]; exact hpre
  · intro u k' hk'
    rw [hseq]
    by_cases hu : u = t
    · subst hu; rw [hpct] at hk'; simp only [Pc.prePub, Option.some.injEq] at hk'; subst hk'; exact hnseq
    · rw [hpcu u hu] at hk'; exact h4 u k' hk'
  · intro k' hin
    rw [hseq] at hin
    by_cases hk : k' = k
    · subst hk; rw [hsubk]; simp
    · rw [hsub' k' hk]; exact h5 k' hin
  · intro k' hin
    rw [hdone] at hin
    by_cases hk : k' = k
    · subst hk; rw [hsubk]; simp
    · rw [hsub' k' hk]; exact h6 k' hin
  · intro u k' hk'
    rw [hdone]
    by_cases hu : u = t
    · subst hu; rw [hpct] at hk'; simp only [Pc.task, Option.some.injEq] at hk'; subst hk'; exact hndone
    · rw [hpcu u hu] at hk'; exact h7 u k' hk'
  · intro k' u hs'
    rw [hdone]
    by_cases hk : k' = k
    · subst hk; rw [hsubk] at hs'; injection hs' with hs'; subst hs'; right; rw [hpct]; simp [Pc.task]
    · rw [hsub' k' hk] at hs'
      rcases h8 k' u hs' with hin | htk
      · exact Or.inl hin
      · by_cases hu : u = t
        · subst hu; rw [hp] at htk; simp [Pc.task] at htk
        · right; rw [hpcu u hu]; exact htk
  · intro k' a' hin
    rw [hdone]
    rw [hbf] at hin
    by_cases hk : k' = k
    · subst hk; simpa [upd] using hin
    · simp only [upd, hk, if_false] at hin; exact h9 k' a' hin

/-- publishing the caller's own task `k` (push to the queue, or direct application): `k` moves from
`prePub` into the sequence; all other memberships are kept -/
theorem invC_publish {s s' : St} {t : Tid} {p' : Pc} {k : TaskId} (h : InvC s) (hpc : s'.pc = upd s.pc t p')
    (hold : (s.pc t).prePub = some k) (htask : p'.task = some k) (hpre : p'.prePub = none)
    (hnd : (s'.applied ++ s'.batch ++ s'.queue).Nodup)
    (hseq : ∀ k', s'.inSeq k' ↔ (s.inSeq k' ∨ k' = k))
    (hsub : s'.sub = s.sub) (hdone : s'.done = s.done) (hbef : s'.before = s.before)
    (hbx : BatchX s') : InvC s' := by
  have hinj := fun u hu => h.task_inj (t := t) (u := u) (Pc.prePub_task hold) hu
  obtain ⟨h1, h2, h3, h4, h5, h6, h7, h8, h9, _⟩ := h
  have htk : ∀ u, (s'.pc u).task = (s.pc u).task := by
    intro u; rw [hpc]; exact upd_class Pc.task s.pc t p' (by rw [htask, Pc.prePub_task hold]) u
  refine ⟨hnd, ?_, ?_, ?_, ?_, ?_, ?_, ?_, ?_, hbx⟩
  · intro u k'; rw [htk, hsub]; exact h2 u k'
  · intro k' u hs'
    rw [hsub] at hs'
    rw [hseq, hpc]
    rcases h3 k' u hs' with hin | hp
    · exact Or.inl (Or.inl hin)
    · by_cases hu : u = t
      · subst hu; rw [hold] at hp; injection hp with hp; exact Or.inl (Or.inr hp.symm)
      · right; simp [hu, hp]
  · intro u k' hk'
    rw [hpc] at hk'
    by_cases hu : u = t
    · subst hu; simp [hpre] at hk'
    · simp only [upd_other _ _ _ _ hu] at hk'
      rw [hseq]
      intro hin
      rcases hin with hin | hin
      · exact h4 u k' hk' hin
      · subst hin; exact hu (hinj u (Pc.prePub_task hk'))
  · intro k' hin
    rw [hsub]
    rcases (hseq k').1 hin with hin | hin
    · exact h5 k' hin
    · subst hin; rw [h2 t k' (Pc.prePub_task hold)]; simp
  · intro k'; rw [hdone, hsub]; exact h6 k'
  · intro u k'; rw [htk, hdone]; exact h7 u k'
  · intro k' u; rw [hsub, hdone, htk]; exact h8 k' u
  · intro k' a; rw [hbef, hdone]; exact h9 k' a

/-- tasks move inside the sequence (swap, head of the batch applied): memberships unchanged -/
theorem invC_shift {s s' : St} {t : Tid} {p' : Pc} (h : InvC s) (hpc : s'.pc = upd s.pc t p')
    (htask : p'.task = (s.pc t).task) (hpre : p'.prePub = (s.pc t).prePub)
    (hnd : (s'.applied ++ s'.batch ++ s'.queue).Nodup)
    (hseq : ∀ k', s'.inSeq k' ↔ s.inSeq k')
    (hsub : s'.sub = s.sub) (hdone : s'.done = s.done) (hbef : s'.before = s.before)
    (hbx : BatchX s') : InvC s' := by
  obtain ⟨h1, h2, h3, h4, h5, h6, h7, h8, h9, _⟩ := h
  have htk : ∀ u, (s'.pc u).task = (s.pc u).task := by
    intro u; rw [hpc]; exact upd_class Pc.task s.pc t p' htask u
  have hpp : ∀ u, (s'.pc u).prePub = (s.pc u).prePub := by
    intro u; rw [hpc]; exact upd_class Pc.prePub s.pc t p' hpre u
  refine ⟨hnd, ?_, ?_, ?_, ?_, ?_, ?_, ?_, ?_, hbx⟩
  · intro u k; rw [htk, hsub]; exact h2 u k
  · intro k u; rw [hsub, hseq, hpp]; exact h3 k u
  · intro u k; rw [hpp, hseq]; exact h4 u k
  · intro k; rw [hseq, hsub]; exact h5 k
  · intro k; rw [hdone, hsub]; exact h6 k
  · intro u k; rw [htk, hdone]; exact h7 u k
  · intro k u; rw [hsub, hdone, htk]; exact h8 k u
  · intro k a; rw [hbef, hdone]; exact h9 k a

theorem invC_done {s s' : St} {t : Tid} {k : TaskId} {a thr : Bool} (h : InvC s) (hp : s.pc t = .mRet k a thr)
    (hpc : s'.pc = upd s.pc t (.idle false)) (hdone : s'.done = k :: s.done)
    (hsb : s'.sub = s.sub) (hbf : s'.before = s.before)
    (ha : s'.applied = s.applied) (hb : s'.batch = s.batch) (hq : s'.queue = s.queue)
    (hmx : s'.mx = s.mx) : InvC s' := by
  have hbx : BatchX s' := batchX_keep h.batchX hpc hb hmx (by simp [hp, Pc.runs])
  have htk : (s.pc t).task = some k := by simp [hp, Pc.task]
  have hinj := fun u hu => h.task_inj (t := t) (u := u) htk hu
  obtain ⟨h1, h2, h3, h4, h5, h6, h7, h8, h9, _⟩ := h
  have hseq : ∀ k', s'.inSeq k' ↔ s.inSeq k' := by intro k'; simp [St.inSeq, ha, hb, hq]
  have hpct : s'.pc t = .idle false := by rw [hpc]; simp
  have hpcu : ∀ u, u ≠ t → s'.pc u = s.pc u := by intro u hu; rw [hpc]; simp [hu]
  refine ⟨by rw [ha, hb, hq]; exact h1, ?_, ?_, ?_, ?_, ?_, ?_, ?_, ?_, hbx⟩
  · intro u k' hk'
    rw [hsb]
    by_cases hu : u = t
    · subst hu; rw [hpct] at hk'; simp [Pc.task] at hk'
    · rw [hpcu u hu] at hk'; exact h2 u k' hk'
  · intro k' u hs'
    rw [hsb] at hs'; rw [hseq]
    rcases h3 k' u hs' with hin | hpre
    · exact Or.inl hin
    · by_cases hu : u = t
      · subst hu; rw [hp] at hpre; simp [Pc.prePub] at hpre
      · right; rw [hpcu u hu]; exact hpre
  · intro u k' hk'
    rw [hseq]
    by_cases hu : u = t
    · subst hu; rw [hpct] at hk'; simp [Pc.prePub] at hk'
    · rw [hpcu u hu] at hk'; exact h4 u k' hk'
  · intro k' hin; rw [hseq] at hin; rw [hsb]; exact h5 k' hin
  · intro k' hin
    rw [hdone] at hin; rw [hsb]
    simp only [List.mem_cons] at hin
    rcases hin with hin | hin
    · subst hin; rw [h2 t k' htk]; simp
    · exact h6 k' hin
  · intro u k' hk'
    rw [hdone]
    by_cases hu : u = t
    · subst hu; rw [hpct] at hk'; simp [Pc.task] at hk'
    · rw [hpcu u hu] at hk'
      simp only [List.mem_cons, not_or]
      refine ⟨?_, h7 u k' hk'⟩
      intro he; subst he; exact hu (hinj u hk')
  · intro k' u hs'
    rw [hsb] at hs'; rw [hdone]
    rcases h8 k' u hs' with hin | htk'
    · exact Or.inl (List.mem_cons_of_mem _ hin)
    · by_cases hu : u = t
      · subst hu; rw [htk] at htk'; injection htk' with htk'; subst htk'; exact Or.inl (List.mem_cons_self)
      · right; rw [hpcu u hu]; exact htk'
  · intro k' a' hin
    rw [hbf] at hin; rw [hdone]
    exact List.mem_cons_of_mem _ (h9 k' a' hin)

theorem InvC.no_batch_unless {s : St} (h : InvC s) {t : Tid} (hm : s.mx = none ∨ (s.mx = some t ∧ (s.pc t).runs = false)) :
    s.batch = [] := by
  by_cases hb : s.batch = []
  · exact hb
  · obtain ⟨d, hd, hr⟩ := h.batchX hb
    rcases hm with hm | ⟨hm, hr'⟩
    · rw [hm] at hd; cases hd
    · rw [hm] at hd; injection hd with hd; subst hd; rw [hr] at hr'; cases hr'

theorem invC_step {s s' : St} {t : Tid} (hL : InvL s) (h : InvC s) (hs : Step s t s') : InvC s' := by
  cases hs with
  | stutter => exact h
  | wr v hr _ => exact invC_congr h rfl rfl rfl rfl rfl rfl rfl rfl
  | move p p' hp hc =>
    subst hp
    exact invC_move h rfl hc.task hc.prePub rfl rfl rfl rfl rfl rfl
      (batchX_keep h.batchX rfl rfl rfl (by rw [hc.runs]; exact id))
  | skipDrain c hp hf =>
    exact invC_move h rfl (by cls) (by cls) rfl rfl rfl rfl rfl rfl (batchX_keep h.batchX rfl rfl rfl (by cls))
  | skipShared c hp hf =>
    exact invC_move h rfl (by cls) (by cls) rfl rfl rfl rfl rfl rfl (batchX_keep h.batchX rfl rfl rfl (by cls))
  | failTry p p' hp hpp hfail =>
    subst hp
    rcases hpp with ⟨k, a, h1, h2⟩ | ⟨c, h1, h2⟩ <;> subst h2 <;>
      exact invC_move h rfl (by cls) (by cls) rfl rfl rfl rfl rfl rfl (batchX_keep h.batchX rfl rfl rfl (by cls))
  | call k a hp hsub => exact invC_call h hp hsub rfl rfl rfl rfl rfl rfl rfl rfl
  | lockX p p' hp hpp hm hs =>
    subst hp
    have hb := h.no_batch_unless (t := t) (Or.inl hm)
    rcases hpp with ⟨k, a, h1, h2⟩ | ⟨c, h1, h2⟩ <;> subst h2 <;>
      exact invC_move h rfl (by cls) (by cls) rfl rfl rfl rfl rfl rfl (batchX_nil hb)
  | unlockXm k a thr hp hm =>
    have hb := h.no_batch_unless (t := t) (Or.inr ⟨hm, by simp [hp, Pc.runs]⟩)
    exact invC_move h rfl (by cls) (by cls) rfl rfl rfl rfl rfl rfl (batchX_nil hb)
  | unlockXs c hp hb hm =>
    exact invC_move h rfl (by cls) (by cls) rfl rfl rfl rfl rfl rfl (batchX_nil hb)
  | lockS c p' hp hp' hm =>
    rcases hp' with h2 | h2 <;> subst h2 <;>
      exact invC_move h rfl (by cls) (by cls) rfl rfl rfl rfl rfl rfl (batchX_keep h.batchX rfl rfl rfl (by cls))
  | unlockS p p' hp hpp hin =>
    subst hp
    rcases hpp with ⟨h1, h2⟩ | ⟨thr, h1, h2⟩ <;> subst h2 <;>
      exact invC_move h rfl (by cls) (by cls) rfl rfl rfl rfl rfl rfl (batchX_keep h.batchX rfl rfl rfl (by cls))
  | lockQ p p' hp hpp hq =>
    subst hp
    rcases hpp with ⟨k, a, h1, h2⟩ | ⟨c, h1, h2⟩ <;> subst h2 <;>
      exact invC_move h rfl (by cls) (by cls) rfl rfl rfl rfl rfl rfl (batchX_keep h.batchX rfl rfl rfl (by cls))
  | push k a hp hq =>
    have hpre : (s.pc t).prePub = some k := by simp [hp, Pc.prePub]
    have hn := h.pre t k hpre
    refine invC_publish h rfl hpre (by simp [Pc.task]) (by simp [Pc.prePub]) ?_ ?_ rfl rfl rfl
      (batchX_keep h.batchX rfl rfl rfl (by cls))
    · have := nodup_snoc_right h.nodup (k := k) (by
        simp only [St.inSeq] at hn; simp only [List.mem_append]
        rintro ((h1 | h1) | h1)
        · exact hn (Or.inl h1)
        · exact hn (Or.inr (Or.inl h1))
        · exact hn (Or.inr (Or.inr h1)))
      simpa [St.setPc, List.append_assoc] using this
    · intro k'; simp only [St.setPc, St.inSeq, List.mem_append, List.mem_singleton, or_assoc]
  | raise k a hp =>
    exact invC_move h rfl (by cls) (by cls) rfl rfl rfl rfl rfl rfl (batchX_keep h.batchX rfl rfl rfl (by cls))
  | clear c hp =>
    exact invC_move h rfl (by cls) (by cls) rfl rfl rfl rfl rfl rfl (batchX_keep h.batchX rfl rfl rfl (by cls))
  | swap c hp hq hb =>
    refine invC_shift h rfl (by cls) (by cls) ?_ ?_ rfl rfl rfl ?_
    · have := h.nodup; rw [hb] at this; simpa [St.setPc] using this
    · intro k'; simp [St.setPc, St.inSeq, hb]
    · intro _
      exact ⟨t, (hL.mxP t).2 (by simp [hp, Pc.holdsX]), by simp [Pc.runs]⟩
  | applyHead c j rest hp hb =>
    refine invC_shift h rfl (by cls) (by cls) ?_ ?_ rfl rfl rfl ?_
    · have := h.nodup; rw [hb] at this; simpa [St.setPc] using this
    · intro k'; simp only [St.setPc, St.inSeq, hb, List.mem_append, List.mem_singleton, List.mem_cons]; grind
    · intro _
      exact ⟨t, (hL.mxP t).2 (by simp [hp, Pc.holdsX]), by simp [Pc.runs]⟩
  | applyOwn k a hp hb =>
    have hpre : (s.pc t).prePub = some k := by simp [hp, Pc.prePub, Ctx.task]
    have hn := h.pre t k hpre
    refine invC_publish h rfl hpre (by simp [Pc.task]) (by simp [Pc.prePub]) ?_ ?_ rfl rfl rfl (batchX_nil hb)
    · have hnd := h.nodup
      rw [hb] at hnd
      simp only [St.inSeq, hb, List.not_mem_nil, false_or] at hn
      have := nodup_insert_mid (A := s.applied) (Q := s.queue) (k := k) (by simpa using hnd) (fun hh => hn (Or.inl hh))
        (fun hh => hn (Or.inr hh))
      simpa [St.setPc, hb] using this
    · intro k'; simp only [St.setPc, St.inSeq, List.mem_append, List.mem_singleton]; grind
  | endHead c j o hp =>
    exact invC_move h rfl (by cls) (by cls) rfl rfl rfl rfl rfl rfl (batchX_keep h.batchX rfl rfl rfl (by cls))
  | endOwn k a thr o hp =>
    exact invC_move h rfl (by cls) (by cls) rfl rfl rfl rfl rfl rfl (batchX_keep h.batchX rfl rfl rfl (by cls))
  | done k a thr hp => exact invC_done h hp rfl rfl rfl rfl rfl rfl rfl rfl

end ConcVerif.Deferred
