import ConcVerif.Proof.DeferredO
/-! Monotonicity facts of the `deferred_guarded` model (ghost histories only grow) and the
"one thread runs alone from a quiescent state" invariant used by the no-stranding theorem. -/
namespace ConcVerif.Deferred

theorem runFrom_split {St Ev : Type} {step : St → Tid → Ev → Option St} {s s' : St} {es fs : List (Tid × Ev)}
    {x : Tid × Ev} (h : runFrom step s (es ++ x :: fs) = some s') :
    ∃ sa sb, runFrom step s es = some sa ∧ step sa x.1 x.2 = some sb ∧ runFrom step sb fs = some s' := by
  rw [runFrom_append] at h
  cases ha : runFrom step s es with
  | none => simp [ha] at h
  | some sa =>
    simp only [ha, Option.bind_some] at h
    obtain ⟨t, e⟩ := x
    rw [runFrom_cons] at h
    cases hb : step sa t e with
    | none => simp [hb] at h
    | some sb =>
      simp only [hb, Option.bind_some] at h
      exact ⟨sa, sb, rfl, hb, h⟩

theorem Step.applied_mono {s s' : St} {t : Tid} (hs : Step s t s') : ∃ l, s'.applied = s.applied ++ l := by
  cases hs
  case applyHead c j rest hp hb => exact ⟨[j], rfl⟩
  case applyOwn k a hp hb => exact ⟨[k], rfl⟩
  all_goals exact ⟨[], by simp [St.setPc]⟩

theorem Step.done_mono {s s' : St} {t : Tid} (hs : Step s t s') {a : TaskId} (ha : a ∈ s.done) : a ∈ s'.done := by
  cases hs
  case done k a' thr hp => simp [St.setPc, ha]
  all_goals simpa [St.setPc] using ha

theorem Step.sub_mono {s s' : St} {t : Tid} (hs : Step s t s') {k : TaskId} {u : Tid} (hk : s.sub k = some u) :
    s'.sub k = some u := by
  cases hs
  case call k' a hp hsub =>
    have hne : k ≠ k' := by intro he; subst he; rw [hsub] at hk; cases hk
    simp [St.setPc, upd, hne, hk]
  all_goals simpa [St.setPc] using hk

theorem Step.before_frozen {s s' : St} {t : Tid} (hs : Step s t s') {b : TaskId} (hb : s.sub b ≠ none) :
    s'.before b = s.before b := by
  cases hs
  case call k' a hp hsub =>
    have hne : b ≠ k' := by intro he; subst he; exact hb hsub
    simp [St.setPc, upd, hne]
  all_goals simp [St.setPc]

theorem Step.spur_same {s s' : St} {t : Tid} (hs : Step s t s') : s'.spur = s.spur := by
  cases hs <;> simp [St.setPc]

/-- a recorded outcome is never overwritten -/
theorem Step.out_stable {s s' : St} {t : Tid} (hU : InvU s) (hs : Step s t s') {k : TaskId} {o : Outcome}
    (hk : s.out k = some o) : s'.out k = some o := by
  cases hs
  case endHead c j o' hp =>
    have hne : k ≠ j := by
      intro he; subst he
      have := hU.outR t k (by simp [hp, Pc.running]); rw [this] at hk; cases hk
    simp [St.setPc, upd, hne, hk]
  case endOwn k' a thr o' hp =>
    have hne : k ≠ k' := by
      intro he; subst he
      have := hU.outR t k (by simp [hp, Pc.running]); rw [this] at hk; cases hk
    simp [St.setPc, upd, hne, hk]
  all_goals simpa [St.setPc] using hk

/-- an outcome appears only at the end of the function of its task, executed by the thread that is
inside that function -/
theorem Step.out_set {s s' : St} {t : Tid} (hs : Step s t s') {k : TaskId} (hk : s.out k = none) (hk' : s'.out k ≠ none) :
    (s.pc t).running = some k ∧ (s'.pc t).running = none := by
  cases hs
  case endHead c j o' hp =>
    by_cases he : k = j
    · subst he; simp [hp, Pc.running, St.setPc]
    · simp [St.setPc, upd, he, hk] at hk'
  case endOwn k' a thr o' hp =>
    by_cases he : k = k'
    · subst he; simp [hp, Pc.running, St.setPc]
    · simp [St.setPc, upd, he, hk] at hk'
  all_goals (simp [St.setPc, hk] at hk')

/-! ## one thread running alone from a quiescent state -/

/-- what holds of the shared state, by pc of the only running thread, when every other thread is at
rest without a handle and no spurious try-lock failure is possible -/
def SoloOK : Pc → St → Prop
  | .idle false, s | .mTry _ _, s | .sFlag _, s | .sTry _, s | .dLoad _, s => s.batch = [] ∧ (s.queue ≠ [] → s.flag = true)
  | .dClear _, s | .dQLock _, s | .dSwap _, s => s.batch = []
  | .dRun _, s | .dIn _ _, s => s.queue = []
  | .qLock _ _, _ | .qPush _ _, _ | .qFlag _ _, _ => False
  | _, s => s.queue = [] ∧ s.batch = []

theorem solo_free {s : St} {t : Tid} (hL : InvL s) (ho : ∀ u, u ≠ t → s.pc u = .idle false) :
    ((s.pc t).holdsX = false → s.mx = none) ∧ ((s.pc t).holdsS = false → s.sh = []) := by
  constructor
  · intro hX
    cases hm : s.mx with
    | none => rfl
    | some d =>
      have := (hL.mxP d).1 hm
      by_cases hd : d = t
      · subst hd; rw [hX] at this; cases this
      · rw [ho d hd] at this; simp [Pc.holdsX] at this
  · intro hS
    cases hsh : s.sh with
    | nil => rfl
    | cons d ds =>
      have := (hL.shP d).1 (by rw [hsh]; simp)
      by_cases hd : d = t
      · subst hd; rw [hS] at this; cases this
      · rw [ho d hd] at this; simp [Pc.holdsS] at this

theorem solo_step {s s' : St} {t : Tid} {e : Ev} (hL : InvL s) (hsp : s.spur = false)
    (ho : ∀ u, u ≠ t → s.pc u = .idle false) (hk : SoloOK (s.pc t) s) (hs : step s t e = some s') :
    (∀ u, u ≠ t → s'.pc u = .idle false) ∧ SoloOK (s'.pc t) s' ∧ s'.spur = false := by
  obtain ⟨hmx, hsh⟩ := solo_free hL ho
  have hothers : ∀ (s1 : St) (p : Pc), s1.pc = s.pc → ∀ u, u ≠ t → (s1.setPc t p).pc u = .idle false := by
    intro s1 p h1 u hu; simp [St.setPc, h1, hu, ho u hu]
  unfold step at hs
  split at hs
  all_goals (try (split at hs))
  all_goals (try (split at hs))
  all_goals (try (split at hs))
  all_goals (try contradiction)
  all_goals (injection hs with hs; subst hs)
  all_goals first
    | exact ⟨ho, hk, hsp⟩
    | (refine ⟨fun u hu => by simp [St.setPc, hu, ho u hu], ?_, by simpa [St.setPc] using hsp⟩
       simp_all [St.setPc, SoloOK, St.tryX, Pc.holdsX, Pc.holdsS, SCtx.granted]
       done)
    | (refine ⟨fun u hu => by simp [St.setPc, hu, ho u hu], ?_, by simpa [St.setPc] using hsp⟩
       rename_i c _ _
       cases c <;> simp_all [St.setPc, SoloOK, St.tryX, Pc.holdsX, Pc.holdsS, SCtx.granted])

/-- the only step with a `callMod` event -/
theorem step_callMod {s s' : St} {t : Tid} {b : TaskId} {ab : Bool} (hs : step s t (.callMod b ab) = some s') :
    s.pc t = .idle false ∧ s.sub b = none ∧
      s' = { s with sub := upd s.sub b (some t), before := upd s.before b s.done }.setPc t (.mTry b ab) := by
  cases hp : s.pc t with
  | idle hh =>
    cases hh
    · simp only [step, hp] at hs
      split at hs
      · rename_i hsub; injection hs with hs; exact ⟨rfl, hsub, hs.symm⟩
      · contradiction
    · simp [step, hp] at hs
  | _ => simp [step, hp] at hs

theorem SoloOK_of_holdsS {p : Pc} {s : St} (hS : p.holdsS = true) (hk : SoloOK p s) : s.queue = [] ∧ s.batch = [] := by
  cases p with
  | idle hh =>
    cases hh
    · simp [Pc.holdsS] at hS
    · simpa [SoloOK] using hk
  | sGot ok =>
    cases ok
    · simp [Pc.holdsS] at hS
    · simpa [SoloOK] using hk
  | ldHold thr => simpa [SoloOK] using hk
  | _ => simp [Pc.holdsS] at hS

theorem Reachable.step {spur : Bool} {s s' : St} {t : Tid} {e : Ev} (h : Reachable spur s) (hs : step s t e = some s') :
    Reachable spur s' := by
  obtain ⟨es, hes⟩ := h
  refine ⟨es ++ [(t, e)], ?_⟩
  unfold run at hes ⊢
  rw [runFrom_append, hes]
  simp [runFrom_cons, hs]

theorem Reachable.spur_eq {spur : Bool} {s : St} (h : Reachable spur s) : s.spur = spur := by
  obtain ⟨es, hes⟩ := h
  exact runFrom_rel (R := fun x y => y.spur = x.spur) (fun _ => rfl) (fun _ _ _ h1 h2 => by rw [h2, h1])
    (fun x t e y hxy => (step_sound hxy).spur_same) hes

end ConcVerif.Deferred
