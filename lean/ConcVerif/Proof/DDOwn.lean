import ConcVerif.Proof.DD
import ConcVerif.Proof.DDList
/-! Ownership invariant of the DelayedDestructor model: the `(t, k)` entries of the global `ecall` ledger are exactly
the entries of the `ecall` vectors of thread `t`'s destroyObjects frames (with multiplicity). -/
namespace ConcVerif.DD

def ecOf : Frame → List ObjId
  | .dUnlock1 _ ec => ec
  | .dCb _ ec _ _ => ec
  | .dInCb _ ec _ _ _ => ec
  | .dClear _ ec _ _ => ec
  | _ => []

def owned : List Frame → List ObjId
  | [] => []
  | f :: fs => ecOf f ++ owned fs

@[simp] theorem owned_nil : owned [] = [] := rfl
@[simp] theorem owned_cons (f fs) : owned (f :: fs) = ecOf f ++ owned fs := rfl

theorem count_pair_map (t u : Tid) (j : ObjId) (sel : List ObjId) :
    (sel.map (fun k => (t, k))).count (u, j) = if u = t then sel.count j else 0 := by
  induction sel with
  | nil => simp
  | cons a l ih =>
    simp only [List.map_cons, List.count_cons, ih]
    by_cases hu : u = t
    · subst hu
      by_cases ha : a = j
      · subst ha; simp
      · have : ¬ ((u, a) == (u, j)) = true := by simpa using ha
        simp [ha]
    · have : ¬ ((t, a) == (u, j)) = true := by simp; intro h; exact absurd h.symm hu
      simp [hu, this]

@[simp] theorem vdrain_ecs (s : St) (t rest) (v : List ObjId) : (vdrain s t rest v).ecs = s.ecs := by
  induction v generalizing s with
  | nil => rfl
  | cons a v ih => simp only [vdrain]; split; rfl; exact ih _
@[simp] theorem xTop_ecs (s : St) (t ii rest) : (xTop s t ii rest).ecs = s.ecs := by unfold xTop; split <;> rfl
@[simp] theorem xAfter_ecs (s : St) (t ii rest) : (xAfter s t ii rest).ecs = s.ecs := by
  unfold xAfter; repeat' split
  all_goals rfl
@[simp] theorem dDone_ecs (s : St) (t r rest) : (dDone s t r rest).ecs = s.ecs := by
  unfold dDone; split <;> simp

theorem owned_vdrain (s : St) (t rest) (v : List ObjId) : owned ((vdrain s t rest v).stk t) = owned rest := by
  induction v generalizing s with
  | nil => simp [vdrain, ecOf]
  | cons a v ih => simp only [vdrain]; split; simp [ecOf]; exact ih _
theorem owned_xTop (s : St) (t ii rest) : owned ((xTop s t ii rest).stk t) = owned rest := by
  unfold xTop; split <;> simp [ecOf]
theorem owned_xAfter (s : St) (t ii rest) : owned ((xAfter s t ii rest).stk t) = owned rest := by
  unfold xAfter; repeat' split
  all_goals simp [ecOf]
theorem owned_dDone (s : St) (t r rest) : owned ((dDone s t r rest).stk t) = owned rest := by
  unfold dDone; split
  · simp [ecOf]
  · simp [owned_xAfter, ecOf]
  · simp [owned_vdrain, ecOf]
  · simp [ecOf]

theorem ecs_other_drain (s : St) (t sz cbs thrown rest) (ec : List ObjId) {u : Tid} (hu : u ≠ t) (j : ObjId) :
    (drain s t sz cbs thrown rest ec).ecs.count (u, j) = s.ecs.count (u, j) := by
  induction ec generalizing s with
  | nil => simp only [drain]; split <;> simp
  | cons k ec ih =>
    have he : (s.ecs.erase (t, k)).count (u, j) = s.ecs.count (u, j) := by
      apply List.count_erase_of_ne
      intro h; exact hu (by injection h)
    simp only [drain]; split
    · simpa using he
    · rw [ih]; exact he

theorem own_drain (s : St) (t sz cbs thrown rest) (ec : List ObjId)
    (h : ∀ j, s.ecs.count (t, j) = (ec ++ owned rest).count j) (j : ObjId) :
    (drain s t sz cbs thrown rest ec).ecs.count (t, j) = (owned ((drain s t sz cbs thrown rest ec).stk t)).count j := by
  induction ec generalizing s with
  | nil => simp only [drain]; split
           · rw [dDone_ecs, owned_dDone]; simpa using h j
           · simpa [ecOf] using h j
  | cons k ec ih =>
    have he : ∀ j, (s.ecs.erase (t, k)).count (t, j) = (ec ++ owned rest).count j := by
      intro j
      have hj := h j
      by_cases hjk : j = k
      · subst hjk; rw [List.count_erase_self]; simp only [List.cons_append, List.count_cons_self] at hj; omega
      · rw [List.count_erase_of_ne (by intro h; injection h with _ h2; exact hjk h2)]
        simp only [List.cons_append, List.count_cons] at hj
        have : ¬ (k == j) = true := by simpa using fun h => hjk h.symm
        simpa [this] using hj
    simp only [drain]; split
    · simpa [ecOf] using he j
    · exact ih _ he

theorem ecs_other_resume (s : St) (t fs) {u : Tid} (hu : u ≠ t) (j : ObjId) :
    (resume s t fs).ecs.count (u, j) = s.ecs.count (u, j) := by
  unfold resume; split
  · exact ecs_other_drain _ _ _ _ _ _ _ hu j
  · simp
  · simp

theorem own_resume (s : St) (t fs) (h : ∀ j, s.ecs.count (t, j) = (owned fs).count j) (j : ObjId) :
    (resume s t fs).ecs.count (t, j) = (owned ((resume s t fs).stk t)).count j := by
  unfold resume; split
  · exact own_drain _ _ _ _ _ _ _ (by simpa [ecOf] using h) j
  · rw [vdrain_ecs, owned_vdrain]; simpa [ecOf] using h j
  · simpa using h j

theorem ecs_other_select (s : St) (t skip rest) {u : Tid} (hu : u ≠ t) (j : ObjId) :
    (select s t skip rest).ecs.count (u, j) = s.ecs.count (u, j) := by
  unfold select; dsimp only; split
  · rfl
  · simp [List.count_append, count_pair_map, hu]

theorem own_select (s : St) (t skip rest) (h : ∀ j, s.ecs.count (t, j) = (owned rest).count j) (j : ObjId) :
    (select s t skip rest).ecs.count (t, j) = (owned ((select s t skip rest).stk t)).count j := by
  unfold select; dsimp only; split
  · simpa [ecOf] using h j
  · simp [List.count_append, count_pair_map, ecOf, h j]

theorem stepUser_ecs {s s' : St} {t : Tid} {fs e} (h : stepUser s t fs e = some s') : s'.ecs = s.ecs := by
  unfold stepUser at h
  split at h
  all_goals (try (repeat' (split at h)))
  all_goals (first | cases h | skip)
  all_goals (first | rfl | simp)

theorem step_ecs_other {s s' : St} {t : Tid} {e} (h : step s t e = some s') {u : Tid} (hu : u ≠ t) (j : ObjId) :
    s'.ecs.count (u, j) = s.ecs.count (u, j) := by
  unfold step at h
  split at h
  all_goals (first | (rw [stepUser_ecs h]; done) | skip)
  all_goals (try (repeat' (split at h)))
  all_goals (first | cases h | skip)
  all_goals (first
    | rfl
    | (simp [unlock]; done)
    | exact ecs_other_drain _ _ _ _ _ _ _ hu j
    | exact ecs_other_resume _ _ _ hu j
    | exact ecs_other_select _ _ _ _ hu j)

@[simp] theorem ecOf_gBody (len dc cnt : Nat) : ecOf (gBody len dc cnt) = [] := by
  unfold gBody; split <;> rfl
@[simp] theorem ecOf_gNext (len dc cnt es : Nat) : ecOf (gNext len dc cnt es) = [] := by
  unfold gNext; repeat' split
  all_goals (first | rfl | exact ecOf_gBody _ _ _)

theorem own_stepUser {s s' : St} {t : Tid} {fs e} (h : stepUser s t fs e = some s') (hfs : s.stk t = fs)
    (hI : ∀ j, s.ecs.count (t, j) = (owned fs).count j) (j : ObjId) :
    s'.ecs.count (t, j) = (owned (s'.stk t)).count j := by
  unfold stepUser at h
  split at h
  all_goals (try (repeat' (split at h)))
  all_goals (first | cases h | skip)
  all_goals (first
    | (simpa [ecOf, St.decExt] using hI j)
    | (show s.ecs.count (t, j) = (owned (s.stk t)).count j; rw [hfs]; exact hI j)
    | (rw [xTop_ecs, owned_xTop]; have := hI j; simp_all))

theorem step_own_self {s s' : St} {t : Tid} {e} (h : step s t e = some s')
    (hI : ∀ j, s.ecs.count (t, j) = (owned (s.stk t)).count j) (j : ObjId) :
    s'.ecs.count (t, j) = (owned (s'.stk t)).count j := by
  unfold step at h
  split at h
  all_goals (try rw [show s.stk t = _ from by assumption] at hI)
  all_goals (first | exact own_stepUser h (by assumption) hI j | skip)
  all_goals (try (repeat' (split at h)))
  all_goals (first | cases h | skip)
  all_goals (first
    | (simp only [setStk_ecs, setStk_stk_same, owned_cons, ecOf_gNext, ecOf_gBody, List.nil_append]
       simpa [ecOf] using hI j)
    | (simpa [ecOf, unlock] using hI j)
    | (rw [dDone_ecs, owned_dDone]; simpa [ecOf, unlock] using hI j)
    | (rw [xTop_ecs, owned_xTop]; simpa [ecOf] using hI j)
    | exact own_drain _ _ _ _ _ _ _ (by simpa [ecOf, unlock] using hI) j
    | exact own_resume _ _ _ (by simpa [ecOf] using hI) j
    | exact own_select _ _ _ _ (by simpa [ecOf] using hI) j)

def Own (s : St) : Prop := ∀ t j, s.ecs.count (t, j) = (owned (s.stk t)).count j

theorem own_step {s s' : St} {t : Tid} {e} (hI : Own s) (h : step s t e = some s') : Own s' := by
  intro u j
  by_cases hu : u = t
  · subst hu; exact step_own_self h (hI u) j
  · rw [step_ecs_other h hu, step_stk_other h hu]; exact hI u j

theorem own_init (cb ns nt) : Own (init cb ns nt) := by intro t j; simp [init]

theorem own_reachable {cb ns nt} {s : St} (h : Reachable cb ns nt s) : Own s := by
  obtain ⟨es, hr⟩ := h
  exact runFrom_inv (Inv := Own) (fun _ _ _ _ hi hs => own_step hi hs) (own_init cb ns nt) hr

/-- a thread with an empty stack owns no `ecall` entry -/
theorem own_idle {s : St} (hI : Own s) {t : Tid} (ht : s.stk t = []) (k : ObjId) : (t, k) ∉ s.ecs := by
  intro hm
  have := hI t k
  rw [ht] at this
  have h2 : s.ecs.count (t, k) > 0 := List.count_pos_iff.mpr hm
  simp at this; omega

/-- the entries of a frame's `ecall` vector are in the global ledger -/
theorem own_mem {s : St} (hI : Own s) {t : Tid} {f : Frame} (hf : f ∈ s.stk t) {k : ObjId} (hk : k ∈ ecOf f) :
    (t, k) ∈ s.ecs := by
  have hm : k ∈ owned (s.stk t) := by
    generalize s.stk t = fs at hf
    induction fs with
    | nil => cases hf
    | cons g gs ih =>
      simp only [owned_cons, List.mem_append]
      cases hf with
      | head => exact Or.inl hk
      | tail _ h => exact Or.inr (ih h)
  have := hI t k
  have h2 : (owned (s.stk t)).count k > 0 := List.count_pos_iff.mpr hm
  exact List.count_pos_iff.mp (by omega)

end ConcVerif.DD
