import ConcVerif.Proof.HBRcuRCover
/-! rcu_list and happens-before, part 22: a cover of an earlier access to a log record survives every step. -/
namespace ConcVerif.Rcu
open HB (HBeq Kn)

variable {w : Ords} {sel : Bool} {es : List (Tid × Ev)} {s s' : St} {t : Tid} {e : Ev} {i m : Nat}

theorem rFreZ_freed (hS : Step s t e s') {a : Nat} {nx : Option Nat} (hpc : s.pc t = .rFreZ a m nx) :
    s'.rled m = .freed := by
  cases hS <;> simp_all

/-- the record that leaves the log in this step: taken by `t`, which is then in the reclaim phase holding it -/
theorem taken_reaper (hi : Inv s) (hS : Step s t e s') (hnd : inDtor (s.pc t) = false) (hm : m ∈ s.log) (hm' : m ∉ s'.log) :
    ∃ a b, s.hnd t = .reg b a ∧ s'.hnd = s.hnd ∧ a ∈ s.log ∧ (s.recs a).owner = some t ∧ (Below s.log a).head? = some m ∧
      Scanned s t m ∧ reaper (BView (s'.pc t)) = some a ∧ privRec (BView (s'.pc t)) = some m ∧ s'.log = s.log.erase m := by
  have hl := lost_log hi hS hnd hm hm'
  obtain ⟨a, k1, k2, k3, k4, _, _, _, _, k9⟩ := taken_facts hi hS hnd hm hl
  obtain ⟨b, hb⟩ := hi.a.myr t a k1
  have oa := hi.b.own1 t b a hb
  simp only [bview_log, bview_recs] at oa
  exact ⟨a, b, hb, k9, oa.1, oa.2, k2, k3, by rw [k4]; rfl, by rw [k4]; rfl, hl⟩

theorem rcover_build (hnd : inDtor (s.pc t) = false) (hS : Step s t e s') {u : Tid} (h1 : buildRec (s.pc u) = some m)
    (h2 : Kn (hbTrace w sel es) u i) : RCover w sel (es ++ [(t, e)]) s' i m := by
  have h2' : Kn (hbTrace w sel (es ++ [(t, e)])) u i := by rw [hbTrace_append]; exact h2.mono _
  by_cases hu : u = t
  · subst hu
    rcases build_step hS h1 with g | ⟨o, a, c, g⟩
    · exact .build u g h2'
    · subst g
      refine .pushed es.length u o a c (HB.lq_last _ _) ?_
      rw [hbTrace_snoc]
      have := h2.hbeq_of_own (e := toHB w sel (.cas o a (some m) true c))
      simpa using this
  · exact .build u (by rw [pc_frame hS hnd hu]; exact h1) h2'

theorem rcover_open (hi : Inv s) (hi' : Inv s') (hnd : inDtor (s.pc t) = false) (hS : Step s t e s') {v : Tid} {b : Bool}
    {x : Nat} (h1 : s.hnd v = .reg b x) (h2 : SafeR s x m) (h3 : Kn (hbTrace w sel es) v i) :
    RCover w sel (es ++ [(t, e)]) s' i m := by
  have h3' : Kn (hbTrace w sel (es ++ [(t, e)])) v i := by rw [hbTrace_append]; exact h3.mono _
  have ox := hi.b.own1 v b x h1
  simp only [bview_log, bview_recs] at ox
  by_cases hreg : s'.hnd v = .reg b x
  · have ox' := (hi'.b.own1 v b x hreg).1
    simp only [bview_log] at ox'
    by_cases hm' : x = m ∨ m ∈ s'.log
    · exact .open_ v b x hreg (saferec_step hi hS hnd ox.1 ox' hm' h2) h3'
    · have hxm : x ≠ m := fun hc => hm' (.inl hc)
      have hml : m ∈ s.log := by
        rcases h2 with g | ⟨g, _⟩
        · exact absurd g hxm
        · exact mem_of_mem_below g
      obtain ⟨a, b', g1, _, g3, g4, g5, _, g7, g8, _⟩ := taken_reaper hi hS hnd hml (fun hc => hm' (.inr hc))
      rcases saferec_taken hi g3 (by rw [g4]; simp) g5 ox.1 h2 (.inl rfl) with g | g
      · exact absurd g hxm
      · subst g
        have : v = t := by rw [ox.2] at g4; injection g4
        subst this
        exact .reaped v x g7 h3' (.inr g8)
  · obtain ⟨g1, ⟨o, g2⟩, g3, _⟩ := unreg_cases hi hS hnd h1 hreg
    subst g1; subst g2
    have ox' : x ∈ s'.log := by rw [g3]; exact ox.1
    refine .closed x es.length v o none (HB.lq_last _ _) ?_ ox' (saferec_step hi hS hnd ox.1 ox' ?_ h2)
    · rw [hbTrace_snoc]
      have := h3.hbeq_of_own (e := toHB w sel (.ast (.rowner x) o none))
      simpa using this
    · rcases h2 with g | ⟨g, _⟩
      · exact .inl g
      · right; rw [g3]; exact mem_of_mem_below g

theorem rcover_closed (hi : Inv s) (hnd : inDtor (s.pc t) = false) (hS : Step s t e s') (hST : ST es s)
    (hSK : SK w sel es s) {x q : Nat} {y : Tid} {o : Ord} {v : Option Nat}
    (h1 : es[q]? = some (y, Ev.ast (.rowner x) o v)) (h2 : HBeq (hbTrace w sel es) i q) (h3 : x ∈ s.log)
    (h4 : SafeR s x m) : RCover w sel (es ++ [(t, e)]) s' i m := by
  have hnodup := hi.b.logNd
  simp only [bview_log] at hnodup
  have h1' := HB.lq_mono [(t, e)] h1
  have h2' : HBeq (hbTrace w sel (es ++ [(t, e)])) i q := by rw [hbTrace_append]; exact h2.mono _
  by_cases hx' : x ∈ s'.log
  · by_cases hm' : x = m ∨ m ∈ s'.log
    · exact .closed x q y o v h1' h2' hx' (saferec_step hi hS hnd h3 hx' hm' h4)
    · exfalso
      have hxm : x ≠ m := fun hc => hm' (.inl hc)
      have hml : m ∈ s.log := by
        rcases h4 with g | ⟨g, _⟩
        · exact absurd g hxm
        · exact mem_of_mem_below g
      obtain ⟨a, b', _, _, g3, g4, g5, _⟩ := taken_reaper hi hS hnd hml (fun hc => hm' (.inr hc))
      rcases saferec_taken hi g3 (by rw [g4]; simp) g5 h3 h4 (.inl rfl) with g | g
      · exact hxm g
      · subst g
        have := (hST q y x o v h1).1
        rw [g4] at this; cases this
  · obtain ⟨a, b', _, _, g3, g4, g5, g6, g7, g8, g9⟩ := taken_reaper hi hS hnd h3 hx'
    have hk : Kn (hbTrace w sel (es ++ [(t, e)])) t i := by
      refine Kn.of_hbeq h2' ?_
      rw [hbTrace_append]; exact (hSK t x g6 q y o v h1).mono _
    have hxa := head_mem_below g5
    have hax : a ≠ x := by intro hc; rw [hc] at hxa; exact not_mem_below_self hnodup hxa
    refine .reaped t a g7 hk ?_
    rcases h4 with g | ⟨g, _⟩
    · subst g; exact .inr g8
    · left
      have hmx : m ≠ x := by intro hc; rw [hc] at g; exact not_mem_below_self hnodup g
      rw [g9, below_erase hnodup hax]
      exact (List.mem_erase_of_ne hmx).2 (below_trans hnodup hxa g)

theorem rcover_reaped (hi : Inv s) (hi' : Inv s') (hnd : inDtor (s.pc t) = false) (hS : Step s t e s')
    (hd' : s'.rled m ≠ .freed) {t0 : Tid} {a : Nat} (h1 : reaper (BView (s.pc t0)) = some a)
    (h2 : Kn (hbTrace w sel es) t0 i) (h3 : m ∈ Below s.log a ∨ privRec (BView (s.pc t0)) = some m) :
    RCover w sel (es ++ [(t, e)]) s' i m := by
  have h2' : Kn (hbTrace w sel (es ++ [(t, e)])) t0 i := by rw [hbTrace_append]; exact h2.mono _
  have ha := (reaper_facts hi h1).1
  rcases reaper_step hS hnd h1 with hr | ⟨g1, g2, _, _, _⟩
  · have ha' := (reaper_facts hi' hr).1
    refine .reaped t0 a hr h2' ?_
    rcases h3 with h3 | h3
    · by_cases hm' : m ∈ s'.log
      · exact .inl (below_keep hi hS hnd ha ha' h3 hm')
      · obtain ⟨a1, _, _, _, _, _, _, _, g7, g8, _⟩ := taken_reaper hi hS hnd (mem_of_mem_below h3) hm'
        have := reaper_unique hi' g7 hr
        subst this
        exact .inr g8
    · by_cases htt : t = t0
      · subst htt
        rcases priv_reaper_step hS h1 h3 with g | ⟨nx, g⟩
        · exact .inr g
        · exact absurd (rFreZ_freed hS g) hd'
      · right; rw [pc_frame hS hnd (Ne.symm htt)]; exact h3
  · exfalso
    subst g1
    have hre := hi.b.reap t0
    simp only [bview_vpc, g2, BView, ReapP, bview_log] at hre
    rcases h3 with h3 | h3
    · rw [hre.2] at h3; simp at h3
    · simp [g2, BView, privRec] at h3

end ConcVerif.Rcu
