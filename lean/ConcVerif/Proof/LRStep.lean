import ConcVerif.Proof.LRObs
/-! Model facts about single steps of the left-right model (no invariant needed): who can change what. -/
namespace ConcVerif.LR

/-- the side whose content the mutex holder may currently be changing (or has left torn) -/
def Pc.writing : Pc → Option Side
  | .wF1 _ l | .wRb _ l | .wRbC _ l => some l.flip
  | .wF2 _ l | .wRf _ l | .wRfC _ l => some l
  | _ => none

@[simp] theorem waitSeen_eq (op : OpId) (l : Side) (zL zR : Bool) (c : Side) :
    waitSeen op l zL zR c = .wWait op l (zL || decide (c = .L)) (zR || decide (c = .R)) := by
  cases c <;> simp [waitSeen]

/-- `strict` is a configuration constant -/
theorem step_strict {s s' : St} {t : Tid} {e : Ev} (hs : step s t e = some s') : s'.strict = s.strict := by
  unfold step at hs
  split at hs <;> (try split at hs) <;> (try split at hs) <;> (try split at hs) <;> (try (simp at hs; done)) <;>
    (try (injection hs with hs; subst hs; simp; done))
  all_goals (rw [stutter_eq hs])

/-- a step changes only the pc of the thread that makes it -/
theorem step_pc_other {s s' : St} {t u : Tid} {e : Ev} (hs : step s t e = some s') (hu : u ≠ t) : s'.pc u = s.pc u := by
  unfold step at hs
  split at hs <;> (try split at hs) <;> (try split at hs) <;> (try split at hs) <;> (try (simp at hs; done)) <;>
    (try (injection hs with hs; subst hs; simp [hu]; done))
  all_goals (rw [stutter_eq hs])

/-- a step changes the value of side `x` only if its thread is in a write window on `x` -/
theorem step_val {s s' : St} {t : Tid} {e : Ev} (x : Side) (hs : step s t e = some s') :
    s'.val x = s.val x ∨ (s.pc t).writing = some x := by
  unfold step at hs
  split at hs <;> (try split at hs) <;> (try split at hs) <;> (try split at hs) <;> (try (simp at hs; done)) <;>
    (try (injection hs with hs; subst hs; left; cases x <;> simp [St.val]; done))
  all_goals first
    | (rw [stutter_eq hs]; exact Or.inl rfl)
    | (rename_i hpc hg; obtain ⟨rfl, rfl⟩ := hg; injection hs with hs; subst hs
       rename_i l; rw [hpc]
       cases x <;> cases l <;> simp [Pc.writing, St.val, St.setVal, Side.flip])

/-- `committed` is changed only by the store that flips `rl`, which appends the holder's operation -/
theorem step_committed {s s' : St} {t : Tid} {e : Ev} (hs : step s t e = some s') :
    s'.committed = s.committed ∨
    ∃ op l, s.pc t = .wF1d op l ∧ e = .stRL l.flip ∧ s'.rl = l.flip ∧ s'.committed = s.committed ++ [op] := by
  unfold step at hs
  split at hs <;> (try split at hs) <;> (try split at hs) <;> (try split at hs) <;> (try (simp at hs; done)) <;>
    (try (injection hs with hs; subst hs; left; simp; done))
  all_goals first
    | (rw [stutter_eq hs]; exact Or.inl rfl)
    | (rename_i hpc hv; subst hv; injection hs with hs; subst hs; right; exact ⟨_, _, hpc, rfl, rfl, rfl⟩)

theorem step_committed_le {s s' : St} {t : Tid} {e : Ev} (hs : step s t e = some s') : s.committed <+: s'.committed := by
  rcases step_committed hs with h | ⟨op, l, _, _, _, h⟩
  · rw [h]; exact List.prefix_refl _
  · rw [h]; exact List.prefix_append _ _

theorem run_committed_le {s s' : St} {es : List (Tid × Ev)} (hr : run s es = some s') : s.committed <+: s'.committed :=
  runFrom_rel (R := fun (a b : St) => a.committed <+: b.committed) (fun _ => List.prefix_refl _)
    (fun _ _ _ h1 h2 => h1.trans h2) (fun _ _ _ _ hs => step_committed_le hs) hr

/-- what a thread that owns a handle can do: read the side it holds (observing exactly its value), or start releasing -/
theorem step_hold {s s' : St} {r : Tid} {e : Ev} {c x : Side} (hpc : s.pc r = .rdHold c x) (hs : step s r e = some s') :
    (∃ v, e = .rd x v ∧ v = s.val x ∧ s'.pc r = .rdHold c x ∧ s'.lastSeen r = v ∧ ∀ y, s'.val y = s.val y) ∨
    (e = .call .rel ∧ s'.pc r = .rdRel c x) := by
  cases e <;> simp [step, hpc, Pc.post] at hs
  case rd y v =>
    obtain ⟨⟨rfl, rfl⟩, rfl⟩ := hs
    left; refine ⟨_, rfl, rfl, by simp, by simp, ?_⟩
    intro y; cases y <;> simp [St.val]
  case call k =>
    cases k <;> simp at hs
    subst hs; right; simp

/-- how a thread gets to the point of returning normally from `modify(op)`: by unlocking after its second application -/
theorem step_to_ret {s s' : St} {t : Tid} {e : Ev} {op : OpId} (hs : step s t e = some s') (h' : s'.pc t = .wRet op) :
    ∃ l, s.pc t = .wF2d op l ∧ s'.committed = s.committed := by
  unfold step at hs
  split at hs <;> (try split at hs) <;> (try split at hs) <;> (try split at hs) <;> (try (simp at hs; done)) <;>
    (try (injection hs with hs; subst hs; simp at h'; done))
  all_goals first
    | (rename_i hpc _; injection hs with hs; subst hs; simp at h'; subst h'; exact ⟨_, hpc, rfl⟩)
    | (rename_i hp; rw [stutter_eq hs] at h'; rw [h'] at hp; simp [Pc.post] at hp; done)
    | (injection hs with hs; subst hs; rename_i hpc _ _ _; rw [hpc] at h'; cases h')
    | (injection hs with hs; subst hs; rename_i hpc _ _; rw [hpc] at h'; cases h')
    | (injection hs with hs; subst hs; rename_i hpc _; rw [hpc] at h'; cases h')
    | (injection hs with hs; subst hs; rename_i hpc; rw [hpc] at h'; cases h')

/-- how a thread gets to the point of leaving `modify(op)` by exception: by unlocking after a roll-back (first
application threw) or after a roll-forward (second application threw) -/
theorem step_to_exc {s s' : St} {t : Tid} {e : Ev} {op : OpId} {fwd : Bool} (hs : step s t e = some s')
    (h' : s'.pc t = .wExc op fwd) :
    s'.committed = s.committed ∧
    ((fwd = false ∧ ∃ l, s.pc t = .wRbD op l) ∨ (fwd = true ∧ ∃ l, s.pc t = .wRfD op l)) := by
  unfold step at hs
  split at hs <;> (try split at hs) <;> (try split at hs) <;> (try split at hs) <;> (try (simp at hs; done)) <;>
    (try (injection hs with hs; subst hs; simp at h'; done))
  all_goals first
    | (rename_i hpc _; injection hs with hs; subst hs; simp at h'; obtain ⟨rfl, rfl⟩ := h'
       exact ⟨rfl, by simp [hpc]⟩)
    | (rename_i hp; rw [stutter_eq hs] at h'; rw [h'] at hp; simp [Pc.post] at hp; done)
    | (injection hs with hs; subst hs; rename_i hpc _ _ _; rw [hpc] at h'; cases h')
    | (injection hs with hs; subst hs; rename_i hpc _ _; rw [hpc] at h'; cases h')
    | (injection hs with hs; subst hs; rename_i hpc _; rw [hpc] at h'; cases h')
    | (injection hs with hs; subst hs; rename_i hpc; rw [hpc] at h'; cases h')

/-- a `modify(op)` that is about to return normally, or to rethrow after its second application threw, has
its operation in `committed` -/
def RetInv (s : St) : Prop :=
  ∀ t op, (s.pc t = .wRet op ∨ s.pc t = .wExc op true) → op ∈ s.committed

theorem retinv_step {s s' : St} {t : Tid} {e : Ev} (hf : Full s) (h : RetInv s) (hs : step s t e = some s') :
    RetInv s' := by
  intro u op hu
  by_cases hut : u = t
  · subst hut
    rcases hu with hu | hu
    · obtain ⟨l, hl, hc⟩ := step_to_ret hs hu
      have vk := hf.vinv.vk u (by simp [hl, Pc.post]); rw [hl] at vk
      rw [hc, vk.1]; simp
    · obtain ⟨hc, hk⟩ := step_to_exc hs hu
      rcases hk with ⟨hk, _⟩ | ⟨_, l, hl⟩
      · cases hk
      · have vk := hf.vinv.vk u (by simp [hl, Pc.post]); rw [hl] at vk
        rw [hc, vk.1]; simp
  · rw [step_pc_other hs hut] at hu
    exact (step_committed_le hs).subset (h u op hu)

theorem ret_committed {s : St} (h : Reachable s) : RetInv s := by
  obtain ⟨b, es, hes⟩ := h
  have := runFrom_inv (Inv := fun s => Full s ∧ RetInv s)
    (fun _ _ _ _ hi hst => ⟨full_step hi.1 hst, retinv_step hi.1 hi.2 hst⟩)
    ⟨full_init b, by intro t op h; simp [init] at h⟩ hes
  exact this.2

theorem reachable_run {s s' : St} {es : List (Tid × Ev)} (h : Reachable s) (hr : run s es = some s') : Reachable s' := by
  obtain ⟨b, es0, h0⟩ := h
  refine ⟨b, es0 ++ es, ?_⟩
  simp only [run] at *
  rw [runFrom_append, h0]; exact hr

theorem reachable_step {s s' : St} {t : Tid} {e : Ev} (h : Reachable s) (hs : step s t e = some s') : Reachable s' :=
  reachable_run (es := [(t, e)]) h (by simp [run, runFrom, hs])

/-- pcs of a thread inside `lock_shared` or owning / destroying a handle: `snap` is the value of `committed` at its call -/
def Pc.inRead : Pc → Bool
  | .rdCalled | .rdCL _ | .rdInc _ | .rdGot _ _ | .rdHold _ _ | .rdRel _ _ => true
  | _ => false

theorem held_inRead {p : Pc} {x : Side} (h : p.held = some x) : p.inRead = true := by
  cases p <;> simp_all [Pc.held, Pc.inRead]

/-- `snap u` changes only when `u` calls `lock_shared` (from idle), and then becomes `committed` -/
theorem step_snap {s s' : St} {t : Tid} {e : Ev} (hs : step s t e = some s') (u : Tid) :
    (s'.snap u = s.snap u ∧ ((s'.pc u).inRead = true → (s.pc u).inRead = true)) ∨
    (u = t ∧ s.pc t = .idle ∧ s'.snap u = s.committed) := by
  by_cases hut : u = t
  · subst hut
    unfold step at hs
    split at hs <;> (try split at hs) <;> (try split at hs) <;> (try split at hs) <;> (try (simp at hs; done)) <;>
      (try (injection hs with hs; subst hs; rename_i hpc; left; simp [hpc, Pc.inRead]; done)) <;>
      (try (injection hs with hs; subst hs; rename_i hpc _; left; simp [hpc, Pc.inRead]; done)) <;>
      (try (injection hs with hs; subst hs; rename_i hpc _ _; left; simp [hpc, Pc.inRead]; done))
    all_goals first
      | (rw [stutter_eq hs]; exact Or.inl ⟨rfl, id⟩)
      | (injection hs with hs; subst hs; exact Or.inl ⟨rfl, id⟩)
      | (injection hs with hs; subst hs; rename_i hpc; right; simp [hpc])
  · left
    rw [step_pc_other hs hut]
    refine ⟨?_, id⟩
    unfold step at hs
    split at hs <;> (try split at hs) <;> (try split at hs) <;> (try split at hs) <;> (try (simp at hs; done)) <;>
      (try (injection hs with hs; subst hs; simp [hut]; done))
    all_goals (rw [stutter_eq hs])

/-- pcs inside `lock_shared` (acquisition) or inside the destruction of a handle (release) -/
def Pc.inReadCall : Pc → Bool
  | .rdCalled | .rdCL _ | .rdInc _ | .rdGot _ _ | .rdRel _ _ | .rdRelD => true
  | _ => false

/-- own steps left until the current read-side call returns -/
def Pc.rdLeft : Pc → Nat
  | .rdCalled => 4 | .rdCL _ => 3 | .rdInc _ => 2 | .rdGot _ _ => 1
  | .rdRel _ _ => 2 | .rdRelD => 1
  | _ => 0

/-- `base` is set by the `lock` event (to `committed`) and by nothing else -/
theorem step_base {s s' : St} {t : Tid} {e : Ev} (hs : step s t e = some s') :
    s'.base = s.base ∨ (e = .lock ∧ s'.base = s.committed) := by
  unfold step at hs
  split at hs <;> (try split at hs) <;> (try split at hs) <;> (try split at hs) <;> (try (simp at hs; done)) <;>
    (try (injection hs with hs; subst hs; left; simp; done))
  all_goals first
    | (rw [stutter_eq hs]; exact Or.inl rfl)
    | (injection hs with hs; subst hs; right; exact ⟨rfl, rfl⟩)

end ConcVerif.LR
