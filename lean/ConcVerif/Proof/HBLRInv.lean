import ConcVerif.Proof.HBLR
/-! Left-right and happens-before, part 2: the five trace invariants and how each kind of step keeps
them.  `es` is the model trace so far, positions are positions of `es` (= positions of the mapped trace).

* `I1` every write / copy access of a writer is published through the write mutex (`Pub`);
* `I2` every write to the side `m_readingLeft` points to is ordered before the latest store of that flag;
* `I3` a reader whose handle points to side `x` knows every write to `x`;
* `I4` a read through a handle is either still covered by its handle or followed by a decrement of its reader;
* `I5` every read of the side the flag points AWAY from is published to the mutex holder, except — while
  the holder is waiting — reads whose reader was registered in a counter not yet observed at zero. -/
namespace ConcVerif.LR
open HB (HBeq)

/-- the side a writer event writes (both ends of an application / copy window) -/
def Ev.wrS : Ev → Option Side
  | .fBegin x | .fEnd x _ | .cpBegin x | .cpEnd x _ => some x
  | _ => none

/-- counter `c` has not been observed at zero since the flip (the holder is waiting) -/
def zPend (k : PK) (c : Side) : Prop := ∃ l zL zR, k = .wait l zL zR ∧ zOf c zL zR = false

def I1 (o : Ords) (es : List (Tid × Ev)) (mtx : Option Tid) : Prop :=
  ∀ i u e x, es[i]? = some (u, e) → e.wrS = some x → Pub o es mtx i

def I2 (o : Ords) (es : List (Tid × Ev)) (rl : Side) : Prop :=
  ∀ i u e, es[i]? = some (u, e) → e.wrS = some rl →
    ∃ q w, es[q]? = some (w, .stRL rl) ∧ (∀ k w' v, q < k → es[k]? ≠ some (w', .stRL v)) ∧ HBeq (hbTrace o es) i q

def I3 (o : Ords) (es : List (Tid × Ev)) (pc : Tid → Pc) : Prop :=
  ∀ r x, (pc r).held = some x → ∀ i u e, es[i]? = some (u, e) → e.wrS = some x → Kn (hbTrace o es) r i

def I4 (es : List (Tid × Ev)) (pc : Tid → Pc) : Prop :=
  ∀ i r x v, es[i]? = some (r, Ev.rd x v) → (pc r).held = some x ∨ ∃ (d : Nat) (c : Side) (old : Nat), i < d ∧ es[d]? = some (r, Ev.dec c old)

def I5 (o : Ords) (es : List (Tid × Ev)) (mtx : Option Tid) (rl : Side) (pc : Tid → Pc) : Prop :=
  ∀ i r v, es[i]? = some (r, Ev.rd rl.flip v) → Pub o es mtx i ∨
    ∃ t c, mtx = some t ∧ zPend (pc t).pk c ∧
      (((pc r).held = some rl.flip ∧ (pc r).regIn = some c) ∨ ∃ (d : Nat) (old : Nat), i < d ∧ es[d]? = some (r, Ev.dec c old))

/-! ### I1 -/

theorem I1_snoc {o : Ords} {es : List (Tid × Ev)} {m : Option Tid} {t : Tid} {e : Ev} (h : I1 o es m)
    (he : ∀ x, e.wrS = some x → m = some t) : I1 o (es ++ [(t, e)]) m := by
  intro i u e' x hi hx
  rcases es_get_snoc hi with ⟨_, hi'⟩ | ⟨hl, hp⟩
  · exact (h i u e' x hi' hx).mono _
  · injection hp with h1 h2; subst h1; subst h2; subst hl
    rw [he x hx]; exact Pub.self es u e'

theorem I1_lock {o : Ords} {es : List (Tid × Ev)} (t : Tid) (h : I1 o es none) :
    I1 o (es ++ [(t, .lock)]) (some t) := by
  intro i u e' x hi hx
  rcases es_get_snoc hi with ⟨_, hi'⟩ | ⟨_, hp⟩
  · exact (h i u e' x hi' hx).lock t
  · injection hp with _ h2; subst h2; simp [Ev.wrS] at hx

theorem I1_unlock {o : Ords} {es : List (Tid × Ev)} {t : Tid} (h : I1 o es (some t)) :
    I1 o (es ++ [(t, .unlock)]) none := by
  intro i u e' x hi hx
  rcases es_get_snoc hi with ⟨_, hi'⟩ | ⟨_, hp⟩
  · exact (h i u e' x hi' hx).unlock
  · injection hp with _ h2; subst h2; simp [Ev.wrS] at hx

/-! ### I2 -/

theorem I2_snoc {o : Ords} {es : List (Tid × Ev)} {rl : Side} {t : Tid} {e : Ev} (h : I2 o es rl)
    (he : e.wrS ≠ some rl) (he3 : ∀ v, e ≠ .stRL v) : I2 o (es ++ [(t, e)]) rl := by
  intro i u e' hi hx
  rcases es_get_snoc hi with ⟨_, hi'⟩ | ⟨_, hp⟩
  · obtain ⟨q, w, h1, h2, h3⟩ := h i u e' hi' hx
    refine ⟨q, w, es_get_mono _ h1, ?_, by rw [hbTrace_append]; exact h3.mono _⟩
    intro k w' v hqk hk
    rcases es_get_snoc hk with ⟨_, hk'⟩ | ⟨_, hp⟩
    · exact h2 k w' v hqk hk'
    · injection hp with _ h2; exact he3 v h2.symm
  · injection hp with _ h2; subst h2; exact absurd hx he

/-- the flip: the holder knows every write so far, so each of them is ordered before the new store -/
theorem I2_flip {o : Ords} {es : List (Tid × Ev)} {t : Tid} (v : Side) (h : I1 o es (some t)) :
    I2 o (es ++ [(t, .stRL v)]) v := by
  intro i u e' hi hx
  rcases es_get_snoc hi with ⟨_, hi'⟩ | ⟨_, hp⟩
  · refine ⟨es.length, t, es_get_last _ _, ?_, ?_⟩
    · intro k w' v' hk hc
      have := es_get_lt hc
      simp at this; omega
    · have hk : Kn (hbTrace o es) t i := h i u e' v hi' hx
      rw [hbTrace_snoc]
      have := hk.hbeq_of_own (e := toHB o (.stRL v))
      simpa using this
  · injection hp with _ h2; subst h2; simp [Ev.wrS] at hx

/-! ### I3 -/

theorem I3_snoc {o : Ords} {es : List (Tid × Ev)} {pc pc' : Tid → Pc} {t : Tid} {e : Ev} (h : I3 o es pc)
    (hh : ∀ r x, (pc' r).held = some x → (pc r).held = some x)
    (he : ∀ x, e.wrS = some x → ∀ r, (pc' r).held ≠ some x) : I3 o (es ++ [(t, e)]) pc' := by
  intro r x hr i u e' hi hx
  rcases es_get_snoc hi with ⟨_, hi'⟩ | ⟨_, hp⟩
  · rw [hbTrace_append]; exact (h r x (hh r x hr) i u e' hi' hx).mono _
  · injection hp with _ h2; subst h2; exact absurd hr (he x hx r)

/-- a reader loads `m_readingLeft`: it reads from the latest store, which every write to that side
is ordered before -/
theorem I3_load {o : Ords} (ho : o.OK) {es : List (Tid × Ev)} {pc : Tid → Pc} {rl : Side} {t : Tid} {p' : Pc}
    (h2 : I2 o es rl) (h3 : I3 o es pc) (hp : p'.held = some rl) :
    I3 o (es ++ [(t, .ldRL rl)]) (upd pc t p') := by
  intro r x hr i u e' hi hx
  rcases es_get_snoc hi with ⟨_, hi'⟩ | ⟨_, hp'⟩
  · by_cases hrt : r = t
    · subst hrt
      rw [upd_same, hp] at hr; injection hr with hr; subst hr
      obtain ⟨q, w, hq, hlast, hb⟩ := h2 i u e' hi' hx
      rw [hbTrace_snoc]
      exact .of_sw hb (sw_rl ho hq hlast)
    · rw [upd_other _ _ _ _ hrt] at hr
      rw [hbTrace_append]; exact (h3 r x hr i u e' hi' hx).mono _
  · injection hp' with _ h2; subst h2; simp [Ev.wrS] at hx

/-! ### I4 -/

theorem I4_snoc {es : List (Tid × Ev)} {pc pc' : Tid → Pc} {t : Tid} {e : Ev} (h : I4 es pc)
    (hh : ∀ r x, (pc r).held = some x → (pc' r).held = some x)
    (he : ∀ x v, e = .rd x v → (pc' t).held = some x) : I4 (es ++ [(t, e)]) pc' := by
  intro i r x v hi
  rcases es_get_snoc hi with ⟨_, hi'⟩ | ⟨_, hp⟩
  · rcases h i r x v hi' with h1 | ⟨d, c, old, h1, h2⟩
    · exact .inl (hh r x h1)
    · exact .inr ⟨d, c, old, h1, es_get_mono _ h2⟩
  · injection hp with h1 h2; subst h1
    exact .inl (he x v h2.symm)

theorem I4_dec {es : List (Tid × Ev)} {pc : Tid → Pc} {t : Tid} {c : Side} {old : Nat} (p' : Pc) (h : I4 es pc) :
    I4 (es ++ [(t, .dec c old)]) (upd pc t p') := by
  intro i r x v hi
  rcases es_get_snoc hi with ⟨hl, hi'⟩ | ⟨_, hp⟩
  · by_cases hrt : r = t
    · subst hrt; exact .inr ⟨es.length, c, old, hl, es_get_last _ _⟩
    · rcases h i r x v hi' with h1 | ⟨d, c', old', h1, h2⟩
      · exact .inl (by rw [upd_other _ _ _ _ hrt]; exact h1)
      · exact .inr ⟨d, c', old', h1, es_get_mono _ h2⟩
  · injection hp with _ h2; cases h2

/-! ### I5 -/

/-- a step that keeps the mutex, the flag, the handles and the pending counters of the holder; a new
read of the side the flag points away from must come with a pending counter of its reader -/
theorem I5_snoc {o : Ords} {es : List (Tid × Ev)} {m : Option Tid} {rl : Side} {pc pc' : Tid → Pc} {t : Tid} {e : Ev}
    (h : I5 o es m rl pc)
    (hh : ∀ r x, (pc r).held = some x → (pc' r).held = some x ∧ (pc' r).regIn = (pc r).regIn)
    (hz : ∀ u c, m = some u → zPend (pc u).pk c → zPend (pc' u).pk c)
    (he : ∀ v, e = .rd rl.flip v →
      ∃ u c, m = some u ∧ zPend (pc' u).pk c ∧ (pc' t).held = some rl.flip ∧ (pc' t).regIn = some c) :
    I5 o (es ++ [(t, e)]) m rl pc' := by
  intro i r v hi
  rcases es_get_snoc hi with ⟨_, hi'⟩ | ⟨_, hp⟩
  · rcases h i r v hi' with h1 | ⟨u, c, hm, hzp, h2⟩
    · exact .inl (h1.mono _)
    · refine .inr ⟨u, c, hm, hz u c hm hzp, ?_⟩
      rcases h2 with ⟨h3, h4⟩ | ⟨d, old, h3, h4⟩
      · obtain ⟨a, b⟩ := hh r _ h3
        exact .inl ⟨a, by rw [b]; exact h4⟩
      · exact .inr ⟨d, old, h3, es_get_mono _ h4⟩
  · injection hp with h1 h2; subst h1
    obtain ⟨u, c, hm, hzp, a, b⟩ := he v h2.symm
    exact .inr ⟨u, c, hm, hzp, .inl ⟨a, b⟩⟩

/-- a reader deregisters: its reads are now followed by a decrement of the counter it was registered in -/
theorem I5_dec {o : Ords} {es : List (Tid × Ev)} {m : Option Tid} {rl : Side} {pc : Tid → Pc} {t : Tid} {c : Side}
    {old : Nat} (p' : Pc) (h : I5 o es m rl pc) (hreg : (pc t).regIn = some c) (hq : ∀ c', ¬ zPend (pc t).pk c') :
    I5 o (es ++ [(t, .dec c old)]) m rl (upd pc t p') := by
  intro i r v hi
  rcases es_get_snoc hi with ⟨hl, hi'⟩ | ⟨_, hp⟩
  · rcases h i r v hi' with h1 | ⟨u, c', hm, hzp, h2⟩
    · exact .inl (h1.mono _)
    · have hut : u ≠ t := by intro hc; subst hc; exact hq c' hzp
      refine .inr ⟨u, c', hm, by rw [upd_other _ _ _ _ hut]; exact hzp, ?_⟩
      rcases h2 with ⟨h3, h4⟩ | ⟨d, old', h3, h4⟩
      · by_cases hrt : r = t
        · subst hrt
          rw [hreg] at h4; injection h4 with h4; subst h4
          exact .inr ⟨es.length, old, hl, es_get_last _ _⟩
        · exact .inl (by rw [upd_other _ _ _ _ hrt]; exact ⟨h3, h4⟩)
      · exact .inr ⟨d, old', h3, es_get_mono _ h4⟩
  · injection hp with _ h2; cases h2

theorem I5_lock {o : Ords} {es : List (Tid × Ev)} {rl : Side} {pc : Tid → Pc} (pc' : Tid → Pc) (t : Tid)
    (h : I5 o es none rl pc) : I5 o (es ++ [(t, .lock)]) (some t) rl pc' := by
  intro i r v hi
  rcases es_get_snoc hi with ⟨_, hi'⟩ | ⟨_, hp⟩
  · rcases h i r v hi' with h1 | ⟨u, c, hm, _⟩
    · exact .inl (h1.lock t)
    · cases hm
  · injection hp with _ h2; cases h2

theorem I5_unlock {o : Ords} {es : List (Tid × Ev)} {rl : Side} {pc : Tid → Pc} (pc' : Tid → Pc) {t : Tid}
    (h : I5 o es (some t) rl pc) (hz : ∀ c, ¬ zPend (pc t).pk c) : I5 o (es ++ [(t, .unlock)]) none rl pc' := by
  intro i r v hi
  rcases es_get_snoc hi with ⟨_, hi'⟩ | ⟨_, hp⟩
  · rcases h i r v hi' with h1 | ⟨u, c, hm, hzp, _⟩
    · exact .inl h1.unlock
    · injection hm with hm; subst hm; exact absurd hzp (hz c)
  · injection hp with _ h2; cases h2

/-- the flip: every read of the old side is covered by a handle or followed by a decrement; no counter
has been observed yet -/
theorem I5_flip {o : Ords} {es : List (Tid × Ev)} {pc : Tid → Pc} {t : Tid} {l : Side} {p' : Pc} (h4 : I4 es pc)
    (hp : (pc t).held = none) (hpk : p'.pk = .wait l false false) :
    I5 o (es ++ [(t, .stRL l.flip)]) (some t) l.flip (upd pc t p') := by
  intro i r v hi
  rw [Side.flip_flip] at hi
  have hzp : ∀ c, zPend (upd pc t p' t).pk c := by
    intro c; rw [upd_same]; exact ⟨l, false, false, hpk, by cases c <;> rfl⟩
  rcases es_get_snoc hi with ⟨_, hi'⟩ | ⟨_, hp'⟩
  · rcases h4 i r l v hi' with h1 | ⟨d, c, old, h1, h2⟩
    · obtain ⟨c, hc⟩ := held_regIn h1
      have hrt : r ≠ t := by intro hc'; subst hc'; rw [hp] at h1; cases h1
      refine .inr ⟨t, c, rfl, hzp c, .inl ?_⟩
      rw [upd_other _ _ _ _ hrt, Side.flip_flip]; exact ⟨h1, hc⟩
    · exact .inr ⟨t, c, rfl, hzp c, .inr ⟨d, old, h1, es_get_mono _ h2⟩⟩
  · injection hp' with _ h2; cases h2

/-- a counter observed at zero: nobody is registered in it, and every decrement of it so far
synchronises with the load — the reads that were waiting for this counter are now known to the holder -/
theorem I5_zero {o : Ords} (ho : o.OK) {es : List (Tid × Ev)} {rl : Side} {pc : Tid → Pc} {t : Tid} {op : OpId}
    {l : Side} {zL zR : Bool} {c : Side} {p' : Pc} (h : I5 o es (some t) rl pc)
    (hpk0 : (pc t).pk = .wait l zL zR) (hpk' : p'.pk = (waitSeen op l zL zR c).pk)
    (hno : ∀ r, (pc r).regIn ≠ some c) (hp : (pc t).held = none) :
    I5 o (es ++ [(t, .ldCnt c 0)]) (some t) rl (upd pc t p') := by
  intro i r v hi
  rcases es_get_snoc hi with ⟨_, hi'⟩ | ⟨_, hp'⟩
  · rcases h i r v hi' with h1 | ⟨u, c', hm, hzp, h2⟩
    · exact .inl (h1.mono _)
    · injection hm with hm; subst hm
      by_cases hc : c' = c
      · subst hc
        rcases h2 with ⟨_, h4⟩ | ⟨d, old, h3, h4⟩
        · exact absurd h4 (hno r)
        · left
          simp only [Pub, hbTrace_snoc]
          exact .of_sw (.inr (po_hb h3 hi' h4)) (sw_cnt ho h4)
      · refine .inr ⟨t, c', rfl, ?_, ?_⟩
        · rw [upd_same, hpk']
          obtain ⟨l', zL', zR', e1, e2⟩ := hzp
          rw [hpk0] at e1; injection e1 with e1 e3 e4; subst e1; subst e3; subst e4
          cases c <;> cases c' <;> first | exact absurd rfl hc | exact ⟨_, _, _, rfl, e2⟩
        · rcases h2 with ⟨h3, h4⟩ | ⟨d, old, h3, h4⟩
          · have hrt : r ≠ t := by intro hc'; subst hc'; rw [hp] at h3; cases h3
            exact .inl (by rw [upd_other _ _ _ _ hrt]; exact ⟨h3, h4⟩)
          · exact .inr ⟨d, old, h3, es_get_mono _ h4⟩
  · injection hp' with _ h2; cases h2

end ConcVerif.LR
