import ConcVerif.Proof.Barrier
import ConcVerif.Proof.HBLock
/-! Connection of the Barrier model to the happens-before layer: every trace ACCEPTED by
`Barrier.step`, mapped to happens-before events (a cv wait is a release followed by a re-acquisition;
every `pld`/`pst` of `threshold_`/`count_`/`generation_` is treated as a WRITE of one location, the
strongest reading), is consistent with mutex semantics and makes every plain access under `mtx`. -/
namespace ConcVerif.Barrier

/-- happens-before content of a Barrier-model event (mutex = location 0, the three plain fields =
location 0, every access counted as a write) -/
def toHB : Ev → HB.Ev
  | .mlk => .acq 0 .X
  | .cwk _ => .acq 0 .X
  | .mul _ => .rel 0 .X
  | .cwt _ => .rel 0 .X
  | .plain => .wr 0
  | _ => .nop

def hbTrace (es : List (Tid × Ev)) : HB.Trace := es.map (fun p => (p.1, toHB p.2))

theorem hbTrace_snoc (es : List (Tid × Ev)) (t : Tid) (e : Ev) : hbTrace (es ++ [(t, e)]) = hbTrace es ++ [(t, toHB e)] := by
  simp [hbTrace]

/-- effect of an event on the model's mutex, by happens-before content -/
def mtxEffect (e : Ev) (t : Tid) (before after : Option Tid) : Prop :=
  match e with
  | .mlk | .cwk _ => before = none ∧ after = some t
  | .mul _ | .cwt _ => before = some t ∧ after = none
  | .plain => before = some t ∧ after = some t
  | _ => after = before

theorem step_mtx {s s' : St} {t : Tid} {e : Ev} (hs : step s t e = some s') : mtxEffect e t s.mtx s'.mtx := by
  unfold step at hs
  split at hs
  all_goals (try split at hs)
  all_goals (try split at hs)
  all_goals (try split at hs)
  all_goals (try contradiction)
  all_goals (injection hs with hs; subst hs; simp only [mtxEffect])
  all_goals first
    | rfl
    | (rename_i h; first | exact ⟨h, rfl⟩ | exact ⟨h, h⟩ | exact ⟨h.1, rfl⟩)
    | (rename_i h _; exact ⟨h, rfl⟩)
    | (rename_i h _ _; exact ⟨h, rfl⟩)

def ofMtx (m : Option Tid) (u : Tid) : Option HB.Mode := if m = some u then some .X else none

theorem hb_sim {P : List Tid} {es : List (Tid × Ev)} {s : St} (h : run P es = some s) :
    (∀ u, HB.held (hbTrace es) u 0 = ofMtx s.mtx u) ∧ HB.MutexOK (hbTrace es) ∧ HB.LockSet (hbTrace es) 0 0 := by
  induction es using HB.snoc_induction generalizing s with
  | h0 =>
    simp [run] at h; subst h
    exact ⟨fun u => rfl, HB.mutexOK_nil, HB.lockSet_nil 0 0⟩
  | hs es x ih =>
    obtain ⟨t, e⟩ := x
    simp only [run, runFrom_append] at h
    cases h1 : runFrom step (init P) es with
    | none => simp [h1] at h
    | some s1 =>
      simp only [h1, Option.bind_some, runFrom_cons, runFrom_nil] at h
      cases h2 : step s1 t e with
      | none => simp [h2] at h
      | some s2 =>
        simp [h2] at h; subst h
        obtain ⟨ihH, ihM, ihL⟩ := ih h1
        have hm := step_mtx h2
        rw [hbTrace_snoc]
        have hacq : ∀ (e : Ev), toHB e = .acq 0 .X → s1.mtx = none → s2.mtx = some t →
            (∀ u, HB.held (hbTrace es ++ [(t, toHB e)]) u 0 = ofMtx s2.mtx u) ∧
            HB.MutexOK (hbTrace es ++ [(t, toHB e)]) ∧ HB.LockSet (hbTrace es ++ [(t, toHB e)]) 0 0 := by
          intro e he hb ha
          rw [he]
          refine ⟨?_, ?_, ?_⟩
          · intro u
            rw [HB.held_snoc, ha]
            simp only [HB.hstep, ofMtx]
            by_cases hu : u = t
            · subst hu; simp
            · have : ¬ t = u := fun h => hu h.symm
              simp [hu, this]; rw [ihH, hb]; rfl
          · apply HB.mutexOK_snoc ihM
            · intro m md he'
              injection he' with hm' hmd; subst hm'; subst hmd
              refine ⟨by rw [ihH, hb]; rfl, ?_⟩
              intro u _; rw [ihH, hb]; rfl
            · intro m md he'; cases he'
          · apply HB.lockSet_snoc ihL
            · intro he'; cases he'
            · intro he'; cases he'
        have hrel : ∀ (e : Ev), toHB e = .rel 0 .X → s1.mtx = some t → s2.mtx = none →
            (∀ u, HB.held (hbTrace es ++ [(t, toHB e)]) u 0 = ofMtx s2.mtx u) ∧
            HB.MutexOK (hbTrace es ++ [(t, toHB e)]) ∧ HB.LockSet (hbTrace es ++ [(t, toHB e)]) 0 0 := by
          intro e he hb ha
          rw [he]
          refine ⟨?_, ?_, ?_⟩
          · intro u
            rw [HB.held_snoc, ha]
            simp only [HB.hstep, ofMtx]
            by_cases hu : u = t
            · subst hu; simp
            · simp [hu]; rw [ihH, hb]; simp [ofMtx]; intro h; exact hu h.symm
          · apply HB.mutexOK_snoc ihM
            · intro m md he'; cases he'
            · intro m md he'
              injection he' with hm' hmd; subst hm'; subst hmd
              rw [ihH, hb]; simp [ofMtx]
          · apply HB.lockSet_snoc ihL
            · intro he'; cases he'
            · intro he'; cases he'
        have hnop : ∀ (e : Ev), toHB e = .nop → s2.mtx = s1.mtx →
            (∀ u, HB.held (hbTrace es ++ [(t, toHB e)]) u 0 = ofMtx s2.mtx u) ∧
            HB.MutexOK (hbTrace es ++ [(t, toHB e)]) ∧ HB.LockSet (hbTrace es ++ [(t, toHB e)]) 0 0 := by
          intro e he hb
          rw [he]
          refine ⟨?_, ?_, ?_⟩
          · intro u; rw [HB.held_snoc, hb]; exact ihH u
          · apply HB.mutexOK_snoc ihM
            · intro m md he'; cases he'
            · intro m md he'; cases he'
          · apply HB.lockSet_snoc ihL
            · intro he'; cases he'
            · intro he'; cases he'
        cases e with
        | mlk => exact hacq _ rfl hm.1 hm.2
        | cwk r => exact hacq _ rfl hm.1 hm.2
        | mul o => exact hrel _ rfl hm.1 hm.2
        | cwt o => exact hrel _ rfl hm.1 hm.2
        | call k => exact hnop _ rfl hm
        | ret k => exact hnop _ rfl hm
        | cna => exact hnop _ rfl hm
        | plain =>
          simp only [mtxEffect] at hm
          refine ⟨?_, ?_, ?_⟩
          · intro u; rw [HB.held_snoc, hm.2, ← hm.1]; exact ihH u
          · apply HB.mutexOK_snoc ihM
            · intro m md he'; cases he'
            · intro m md he'; cases he'
          · apply HB.lockSet_snoc ihL
            · intro he'; cases he'
            · intro _; rw [ihH, hm.1]; simp [ofMtx]

/-- **C07 for Barrier (model level).**  In every trace accepted by the Barrier model, every plain
access to `threshold_` / `count_` / `generation_` happens after every earlier one (all of them are
treated as conflicting writes). -/
theorem barrier_hb {P : List Tid} {es : List (Tid × Ev)} {s : St} (h : run P es = some s) {i j : Nat}
    (hij : i < j) (hc : HB.ConflictOn (hbTrace es) 0 i j) : HB.HB (hbTrace es) i j := by
  obtain ⟨_, hm, hl⟩ := hb_sim h
  exact HB.lockset_hb hm hl hij hc

theorem hbTrace_access {es : List (Tid × Ev)} {i : Nat} {t : Tid} {ei : HB.Ev} {x : HB.Loc}
    (h : (hbTrace es)[i]? = some (t, ei)) (ha : ei.accesses x) : x = 0 := by
  simp only [hbTrace, List.getElem?_map] at h
  cases hk : es[i]? with
  | none => simp [hk] at h
  | some p =>
    obtain ⟨u, e⟩ := p
    simp [hk] at h
    obtain ⟨_, h2⟩ := h
    subst h2
    cases e with
    | plain => rcases ha with ha | ha <;> cases ha; rfl
    | _ => rcases ha with ha | ha <;> cases ha

/-- no accepted trace of the Barrier model contains a data race on the plain fields -/
theorem barrier_no_race {P : List Tid} {es : List (Tid × Ev)} {s : St} (h : run P es = some s) :
    ¬ HB.Race (hbTrace es) := by
  intro ⟨i, j, hij, ⟨x, hc⟩, hn⟩
  have hx : x = 0 := by
    obtain ⟨t, u, ei, ej, h1, _, ha, _⟩ := hc
    exact hbTrace_access h1 ha
  subst hx
  exact hn (barrier_hb h hij hc)

end ConcVerif.Barrier
