import ConcVerif.Proof.HBLRInv
/-! Left-right and happens-before, part 3: every model edge is one of seven kinds of step (`Cls`), each
described by what the happens-before invariants look at: the mutex, `m_readingLeft`, the pc of the
acting thread (handle, registration, pending counters) and the event. -/
namespace ConcVerif.LR

theorem not_zPend_pre {l c : Side} : ¬ zPend (.pre l) c := by
  intro ⟨_, _, _, h, _⟩; cases h

theorem not_zPend_post2 {l c : Side} : ¬ zPend (.post2 l) c := by
  intro ⟨_, _, _, h, _⟩; cases h

theorem not_zPend_quiet {c : Side} : ¬ zPend .quiet c := by
  intro ⟨_, _, _, h, _⟩; cases h

theorem not_zPend_tt {l c : Side} : ¬ zPend (.wait l true true) c := by
  intro ⟨_, _, _, h, h2⟩; injection h with _ h3 h4; subst h3; subst h4; cases c <;> simp [zOf] at h2

theorem not_zPend_of_not_post {p : Pc} (h : p.post = false) (c : Side) : ¬ zPend p.pk c := by
  cases p <;> simp [Pc.post] at h <;> exact not_zPend_quiet

inductive Cls (s : St) (t : Tid) (e : Ev) (s' : St) : Prop
  | frame (p' : Pc) (hm : s'.mtx = s.mtx) (hrl : s'.rl = s.rl) (hpc : s'.pc = upd s.pc t p')
      (hh : p'.held = (s.pc t).held) (hr : ∀ x, p'.held = some x → p'.regIn = (s.pc t).regIn)
      (hz : ∀ c, zPend (s.pc t).pk c → zPend p'.pk c)
      (hw : ∀ x, e.wrS = some x →
        s.mtx = some t ∧ x ≠ s.rl ∧ (∀ r, (s.pc r).held ≠ some x) ∧ ∀ c, ¬ zPend p'.pk c)
      (hrd : ∀ x v, e = .rd x v → (s.pc t).held = some x ∧
        (x = s.rl.flip → ∃ u c, s.mtx = some u ∧ zPend (s.pc u).pk c ∧ (s.pc t).regIn = some c))
      (hst : ∀ v, e ≠ .stRL v)
  | load (c : Side) (hpc0 : s.pc t = .rdInc c) (he : e = .ldRL s.rl) (hm : s'.mtx = s.mtx) (hrl : s'.rl = s.rl)
      (hpc : s'.pc = upd s.pc t (.rdGot c s.rl))
  | dec (c x : Side) (old : Nat) (hpc0 : s.pc t = .rdRel c x) (he : e = .dec c old) (hm : s'.mtx = s.mtx)
      (hrl : s'.rl = s.rl) (hpc : s'.pc = upd s.pc t .rdRelD)
  | lock (op : OpId) (hm0 : s.mtx = none) (he : e = .lock) (hm : s'.mtx = some t) (hrl : s'.rl = s.rl)
      (hpc : s'.pc = upd s.pc t (.wA op s.rl)) (hh : (s.pc t).held = none)
  | unlock (p' : Pc) (hm0 : s.mtx = some t) (he : e = .unlock) (hm : s'.mtx = none) (hrl : s'.rl = s.rl)
      (hpc : s'.pc = upd s.pc t p') (hh' : p'.held = none) (hh : (s.pc t).held = none)
      (hz : ∀ c, ¬ zPend (s.pc t).pk c)
  | flip (op : OpId) (l : Side) (hpc0 : s.pc t = .wF1d op l) (hm0 : s.mtx = some t) (he : e = .stRL l.flip)
      (hm : s'.mtx = s.mtx) (hrl : s'.rl = l.flip) (hpc : s'.pc = upd s.pc t (.wWait op l false false))
  | zero (op : OpId) (l : Side) (zL zR : Bool) (c : Side) (hpc0 : s.pc t = .wWait op l zL zR) (hm0 : s.mtx = some t)
      (he : e = .ldCnt c 0) (hz : s.reg c = []) (hm : s'.mtx = s.mtx) (hrl : s'.rl = s.rl)
      (hpc : s'.pc = upd s.pc t (waitSeen op l zL zR c))

theorem upd_self {α : Type} (f : Tid → α) (t : Tid) : upd f t (f t) = f := by
  funext u; by_cases h : u = t
  · subst h; simp
  · simp [h]

/-- a step whose pc change touches neither handle, registration nor phase, with an inert event -/
theorem Cls.simple {s s' : St} {t : Tid} {e : Ev} (p' : Pc) (hm : s'.mtx = s.mtx) (hrl : s'.rl = s.rl)
    (hpc : s'.pc = upd s.pc t p') (hh : p'.held = (s.pc t).held)
    (hr : p'.regIn = (s.pc t).regIn ∨ p'.held = none) (hk : p'.pk = (s.pc t).pk ∨ ∀ c, ¬ zPend (s.pc t).pk c)
    (hw : e.wrS = none) (hrd : ∀ x v, e ≠ .rd x v) (hst : ∀ v, e ≠ .stRL v) : Cls s t e s' := by
  refine .frame p' hm hrl hpc hh ?_ ?_ ?_ ?_ hst
  · intro x hx
    rcases hr with hr | hr
    · exact hr
    · rw [hr] at hx; cases hx
  · intro c hc
    rcases hk with hk | hk
    · rw [hk]; exact hc
    · exact absurd hc (hk c)
  · intro x hx; rw [hw] at hx; cases hx
  · intro x v hx; exact absurd hx (hrd x v)

/-- a step that leaves all pcs alone, with an inert event -/
theorem Cls.same {s s' : St} {t : Tid} {e : Ev} (hm : s'.mtx = s.mtx) (hrl : s'.rl = s.rl) (hpc : s'.pc = s.pc)
    (hw : e.wrS = none) (hrd : ∀ x v, e ≠ .rd x v) (hst : ∀ v, e ≠ .stRL v) : Cls s t e s' :=
  .simple (s.pc t) hm hrl (by rw [hpc, upd_self]) rfl (.inl rfl) (.inl rfl) hw hrd hst

theorem wrS_not_rd {e : Ev} {x : Side} (h : e.wrS = some x) : (∀ y v, e ≠ .rd y v) ∧ ∀ v, e ≠ .stRL v := by
  constructor
  · intro y v hc; subst hc; simp [Ev.wrS] at h
  · intro v hc; subst hc; simp [Ev.wrS] at h

/-- a write / copy access by the mutex holder -/
theorem Cls.write {s s' : St} {t : Tid} {e : Ev} (p' : Pc) (x : Side) (hm : s'.mtx = s.mtx) (hrl : s'.rl = s.rl)
    (hpc : s'.pc = upd s.pc t p') (hq : (s.pc t).post = true) (hq' : p'.post = true)
    (hz0 : ∀ c, ¬ zPend (s.pc t).pk c) (hz : ∀ c, ¬ zPend p'.pk c) (hx : e.wrS = some x)
    (hf : s.mtx = some t ∧ x ≠ s.rl ∧ ∀ r, (s.pc r).held ≠ some x) : Cls s t e s' := by
  refine .frame p' hm hrl hpc (by rw [post_held hq, post_held hq']) ?_ ?_ ?_ ?_ (wrS_not_rd hx).2
  · intro y hy; rw [post_held hq'] at hy; cases hy
  · intro c hc; exact absurd hc (hz0 c)
  · intro y hy; rw [hx] at hy; injection hy with hy; subst hy
    exact ⟨hf.1, hf.2.1, hf.2.2, hz⟩
  · intro y v hy; exact absurd hy ((wrS_not_rd hx).1 y v)

/-! ### what the control invariant says at a write -/

theorem wfacts_pre {s : St} (h : Inv s) {t : Tid} {l : Side} (hq : (s.pc t).post = true) (hk : (s.pc t).pk = .pre l) :
    s.mtx = some t ∧ l.flip ≠ s.rl ∧ ∀ r, (s.pc r).held ≠ some l.flip := by
  have hph := h.phase t hq
  rw [hk] at hph
  obtain ⟨a, b⟩ := hph
  refine ⟨(h.holder t).1 hq, by rw [a]; exact Side.flip_ne l, ?_⟩
  intro r hc
  exact absurd (b r _ hc) (Side.flip_ne l)

theorem wfacts_post2 {s : St} (h : Inv s) {t : Tid} {l : Side} (hq : (s.pc t).post = true)
    (hk : (s.pc t).pk = .post2 l ∨ (s.pc t).pk = .wait l true true) :
    s.mtx = some t ∧ l ≠ s.rl ∧ ∀ r, (s.pc r).held ≠ some l := by
  have hph := h.phase t hq
  have hp2 : PhaseX s.rl s.pc (.post2 l) := by
    rcases hk with hk | hk
    · rw [hk] at hph; exact hph
    · rw [hk] at hph; exact phase_wait_done hph
  obtain ⟨a, b⟩ := hp2
  refine ⟨(h.holder t).1 hq, by rw [a]; exact Side.ne_flip l, ?_⟩
  intro r hc
  exact absurd (b r _ hc) (Side.ne_flip l)

/-- a read through a handle: the side is the one the flag points to, unless the holder is waiting and
the reader's counter has not been observed at zero -/
theorem rfacts {s : St} (h : Inv s) {t : Tid} {c x : Side} (hpc : s.pc t = .rdHold c x) (hx : x = s.rl.flip) :
    ∃ u c', s.mtx = some u ∧ zPend (s.pc u).pk c' ∧ (s.pc t).regIn = some c' := by
  have hheld : (s.pc t).held = some x := by rw [hpc]; rfl
  have hreg : (s.pc t).regIn = some c := by rw [hpc]; rfl
  have hne : x ≠ s.rl := by rw [hx]; exact Side.flip_ne _
  cases hm : s.mtx with
  | none => exact absurd (h.quiet hm t x hheld) hne
  | some u =>
    have hq : (s.pc u).post = true := (h.holder u).2 hm
    have hph := h.phase u hq
    refine ⟨u, c, rfl, ?_, hreg⟩
    cases hk : (s.pc u).pk with
    | quiet => rw [hk] at hph; exact absurd (hph t x hheld) hne
    | pre l => rw [hk] at hph; obtain ⟨a, b⟩ := hph; exact absurd ((b t x hheld).trans a.symm) hne
    | post2 l => rw [hk] at hph; obtain ⟨a, b⟩ := hph; exact absurd ((b t x hheld).trans a.symm) hne
    | wait l zL zR =>
      rw [hk] at hph; obtain ⟨a, b⟩ := hph
      refine ⟨l, zL, zR, rfl, ?_⟩
      cases hz : zOf c zL zR with
      | false => rfl
      | true => exact absurd ((b t x ⟨c, hreg, hz⟩ hheld).trans a.symm) hne

end ConcVerif.LR
