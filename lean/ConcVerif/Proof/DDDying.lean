import ConcVerif.Proof.DDProg
/-! `DyP`: the object of a `dying` frame is pending (its destructor start is enabled), and no two threads are about
to destroy the same object. -/
namespace ConcVerif.DD

/-- effect of a step / silent loop of `t` on the pending list: it only grows, and if `t` ends with a `dying k` frame
on top then `k` is exactly what was added -/
structure Push (s s' : St) (t : Tid) : Prop where
  mono : ∀ k, k ∈ s.pend → k ∈ s'.pend
  top : ∀ k r, s'.stk t = .dying k :: r → s'.pend = k :: s.pend

theorem Push.of_pend {a b c : St} {t : Tid} (h : Push b c t) (hp : b.pend = a.pend) : Push a c t :=
  ⟨fun k hk => h.mono k (by rw [hp]; exact hk), fun k r hr => by rw [h.top k r hr, hp]⟩

/-- a plain stack update whose new top is not a `dying` frame -/
theorem push_setStk (s : St) (t : Tid) (fs : List Frame) (hn : ∀ k r, fs ≠ .dying k :: r) : Push s (s.setStk t fs) t :=
  ⟨fun _ hk => hk, fun k r hr => by rw [setStk_stk_same] at hr; exact absurd hr (hn k r)⟩

theorem push_vdrain (s : St) (t : Tid) (rest : List Frame) (v : List ObjId) : Push s (vdrain s t rest v) t := by
  induction v generalizing s with
  | nil => exact (push_setStk _ t _ (by intro k r h; cases h)).of_pend rfl
  | cons a v ih =>
    simp only [vdrain]; split
    · refine ⟨fun k hk => by simp [hk], fun k r hr => ?_⟩
      rw [setStk_stk_same] at hr
      injection hr with h1 _; injection h1 with h1; subst h1; rfl
    · exact (ih _).of_pend rfl

theorem push_xTop (s : St) (t : Tid) (ii : Nat) (rest : List Frame) : Push s (xTop s t ii rest) t := by
  unfold xTop; split
  · exact (push_setStk _ t _ (by intro k r h; cases h)).of_pend rfl
  · exact push_setStk _ t _ (by intro k r h; cases h)

theorem push_xAfter (s : St) (t : Tid) (ii : Nat) (rest : List Frame) : Push s (xAfter s t ii rest) t := by
  unfold xAfter; repeat' split
  · exact (push_setStk _ t _ (by intro k r h; cases h)).of_pend rfl
  all_goals exact push_setStk _ t _ (by intro k r h; cases h)

theorem push_dDone (s : St) (t : Tid) (r : Option Nat) (rest : List Frame) : Push s (dDone s t r rest) t := by
  unfold dDone; split
  · exact push_setStk _ t _ (by intro k r h; cases h)
  · exact push_xAfter _ _ _ _
  · exact push_vdrain _ _ _ _
  · exact push_setStk _ t _ (by intro k r h; cases h)

theorem push_drain (s : St) (t : Tid) (sz : Nat) (cbs : List ObjId) (thrown : Bool) (rest : List Frame)
    (ec : List ObjId) : Push s (drain s t sz cbs thrown rest ec) t := by
  induction ec generalizing s with
  | nil =>
    simp only [drain]; split
    · exact push_dDone _ _ _ _
    · exact push_setStk _ t _ (by intro k r h; cases h)
  | cons a ec ih =>
    simp only [drain]; split
    · refine ⟨fun k hk => by simp [hk], fun k r hr => ?_⟩
      rw [setStk_stk_same] at hr
      injection hr with h1 _; injection h1 with h1; subst h1; rfl
    · exact (ih _).of_pend rfl

theorem push_resume (s : St) (t : Tid) (fs : List Frame) (hn : ∀ k r, fs ≠ .dying k :: r) : Push s (resume s t fs) t := by
  unfold resume; split
  · exact push_drain _ _ _ _ _ _ _
  · exact push_vdrain _ _ _ _
  · exact push_setStk _ t _ hn

theorem push_select (s : St) (t : Tid) (skip : List ObjId) (rest : List Frame) : Push s (select s t skip rest) t := by
  unfold select; dsimp only; split
  · exact (push_setStk _ t _ (by intro k r h; cases h)).of_pend rfl
  · exact (push_setStk _ t _ (by intro k r h; cases h)).of_pend rfl

theorem userLevel_not_dying {fs : List Frame} (hu : userLevel fs = true) : ∀ k r, fs ≠ .dying k :: r := by
  intro k r h; subst h; simp [userLevel] at hu

theorem push_same {s s' : St} {t : Tid} (hp : s'.pend = s.pend) (hs : s'.stk t = s.stk t)
    (hn : ∀ k r, s.stk t ≠ .dying k :: r) : Push s s' t :=
  ⟨fun k hk => by rw [hp]; exact hk, fun k r hr => by rw [hs] at hr; exact absurd hr (hn k r)⟩

theorem stepUser_push {s s' : St} {t : Tid} {fs : List Frame} {e : Ev} (h : stepUser s t fs e = some s')
    (hfs : s.stk t = fs) (hu : userLevel fs = true) : Push s s' t := by
  have hn := userLevel_not_dying hu
  unfold stepUser at h
  split at h
  all_goals (try (repeat' (split at h)))
  all_goals (first | cases h | skip)
  all_goals (first
    | exact push_same rfl rfl (by rw [hfs]; exact hn)
    | exact (push_setStk _ t _ (by intro k r h; cases h)).of_pend rfl
    | exact push_setStk _ t _ (by intro k r h; cases h)
    | exact (push_xTop _ _ _ _).of_pend rfl
    | skip)
  -- drop with the last reference gone: `dying k` pushed, `k` added
  refine ⟨fun j hj => by simp [hj], fun j r hr => ?_⟩
  rw [setStk_stk_same] at hr
  injection hr with h1 _; injection h1 with h1; subst h1; rfl

/-- every step other than a destructor start only adds to the pending list, together with the `dying` frame -/
theorem step_push {s s' : St} {t : Tid} {e : Ev} (h : step s t e = some s') (hne : ∀ k, e ≠ .pdt k)
    (hg : good (s.stk t) = true) : Push s s' t := by
  cases hfs : s.stk t with
  | nil =>
    simp [step, hfs] at h
    exact stepUser_push h hfs rfl
  | cons f rest =>
    rw [hfs] at hg
    have hparts := good_parts hg
    cases f
    case dInCb sz ec cbs k todo =>
      cases e <;> simp [step, hfs] at h
      all_goals (first | exact stepUser_push h hfs rfl | skip)
      case uce =>
        obtain ⟨_, h⟩ := h
        split at h <;> (injection h with h; subst h)
        · exact push_drain _ _ _ _ _ _ _
        · exact push_setStk _ t _ (by intro k r h; cases h)
      case uth =>
        obtain ⟨_, h⟩ := h; subst h
        exact push_drain _ _ _ _ _ _ _
    case inDt k =>
      cases e <;> simp [step, hfs] at h
      all_goals (first | exact stepUser_push h hfs rfl | skip)
      obtain ⟨_, h⟩ := h; subst h
      refine push_resume _ _ _ ?_
      intro j r hr; subst hr
      simp [shape, Frame.kind, allows, userLevel, isReleaser] at hparts
    case dying k =>
      cases e <;> simp [step, hfs] at h
      exact absurd rfl (hne _)
    case dCb sz ec cbs todo =>
      cases todo with
      | nil => cases e <;> simp [step, hfs] at h
      | cons k todo =>
        cases e <;> simp [step, hfs] at h
        obtain ⟨_, h⟩ := h; subst h
        exact push_setStk _ t _ (by intro k r h; cases h)
    all_goals (cases e <;> simp [step, hfs] at h)
    all_goals (try (obtain ⟨_, h⟩ := h))
    all_goals (try subst h)
    all_goals (first
      | (refine push_setStk _ t _ ?_; intro k r h; cases h; done)
      | (refine (push_setStk _ t _ ?_).of_pend rfl; intro k r h; cases h; done)
      | exact (push_dDone _ _ _ _).of_pend rfl
      | exact push_xTop _ _ _ _
      | (refine push_setStk _ t _ ?_
         refine userLevel_not_dying ?_
         simpa [allows, Frame.kind] using hparts.1)
      | skip)
    case dCalled.mtf =>
      split at h
      · split at h
        · injection h with h; subst h; exact push_select _ _ _ _
        · contradiction
      · injection h with h; subst h; exact push_dDone _ _ _ _
    case dUnlock1.mul =>
      split at h <;> (injection h with h; subst h)
      · exact (push_setStk _ t _ (by intro k r h; cases h)).of_pend rfl
      · exact (push_drain _ _ _ _ _ _ _).of_pend rfl
    case dRelock.mtf =>
      split at h
      · split at h
        · injection h with h; subst h; exact (push_setStk _ t _ (by intro k r h; cases h)).of_pend rfl
        · contradiction
      · injection h with h; subst h; exact push_dDone _ _ _ _
    case gCalled.mtf dc _ _ =>
      split at h
      · split at h
        · injection h with h; subst h
          refine (push_setStk _ t _ ?_).of_pend rfl
          intro k r hr; injection hr with h1 _
          have := (gNext_ok s.vec.length dc 0 s.vec.length).1; rw [h1] at this; cases this
        · contradiction
      · injection h with h; subst h; exact push_setStk _ t _ (by intro k r h; cases h)
    case gRelockS.mtf dc cnt es _ _ =>
      split at h
      · split at h
        · injection h with h; subst h
          refine (push_setStk _ t _ ?_).of_pend rfl
          intro k r hr; injection hr with h1 _
          have := (gBody_ok s.vec.length dc cnt).1; rw [h1] at this; cases this
        · contradiction
      · injection h with h; subst h; exact push_setStk _ t _ (by intro k r h; cases h)
    case gRelockD.mtf dc cnt es _ _ =>
      split at h
      · split at h
        · injection h with h; subst h
          refine (push_setStk _ t _ ?_).of_pend rfl
          intro k r hr; injection hr with h1 _
          have := (gNext_ok s.vec.length dc cnt es).1; rw [h1] at this; cases this
        · contradiction
      · injection h with h; subst h; exact push_setStk _ t _ (by intro k r h; cases h)
    case xRet.retDtor =>
      have : rest = [] := by simpa [allows, Frame.kind] using hparts.1
      subst this
      exact push_setStk _ t _ (by intro k r h; cases h)

end ConcVerif.DD
