import ConcVerif.Proof.TripWire
import ConcVerif.Proof.HBUtil
/-! Connection of the TripWire model to the happens-before layer.

The model carries a publication GHOST: `know t` (the plain client writes thread `t` knows about) and
`msg l` (the view attached to line `l` by releasing stores / exchanges); a load of a line joins
`msg l` into the loader's `know`, and a client read is accepted only when its value is in the reader's
`know`.  Here the ghost is shown SOUND for happens-before: whatever is in `know t` is a client write
that happens-before-or-is an anchor of `t` (`GK`), whatever is in `msg l` is a client write ordered
before the head of the line's current release sequence (`GM`).  Hence every accepted client read of a
value `v ≠ 0` happens-after a write of that value, and every overwriting client write happens-after a
write of the value it overwrites.

Event map: line `l` ↦ atomic `lineLoc l` with the memory order of the event; the model accepts only
releasing tripping stores / exchanges and acquiring loads (weaker orders are rejected by `step`);
client datum `d` ↦ plain location `d`; the first event `fork` of a thread `t` is its creation by the
main thread `0` (`(0, fork t)`, as in `Driver/HB.lean`). -/
namespace ConcVerif.TripWire
open HB (HBeq Anch KnA lq_lt lq_mono lq_snoc lq_last)

def cvt : Ord → HB.Ord
  | .rlx => .rlx | .con => .con | .acq => .acq | .rel => .rel | .ar => .ar | .sc => .sc

theorem cvt_rel {o : Ord} (h : o.isRelease = true) : (cvt o).isRel = true := by
  cases o <;> simp_all [Ord.isRelease, cvt, HB.Ord.isRel]

theorem cvt_acq {o : Ord} (h : o.isAcquire = true) : (cvt o).isAcq = true := by
  cases o <;> simp_all [Ord.isAcquire, cvt, HB.Ord.isAcq]

def lineLoc : LineId → HB.Loc
  | .decl => 0
  | .idx k => 2 * k + 1
  | .expl k => 2 * k + 2

theorem lineLoc_inj {a b : LineId} (h : lineLoc a = lineLoc b) : a = b := by
  cases a <;> cases b <;> simp [lineLoc] at h <;> first | rfl | omega | (congr 1; omega)

def toHB : Tid × Ev → Tid × HB.Ev
  | (t, .fork) => (0, .fork t)
  | (t, .ld l o _) => (t, .ld (lineLoc l) (cvt o))
  | (t, .st l o _) => (t, .st (lineLoc l) (cvt o))
  | (t, .xchg l o _ _) => (t, .rmw (lineLoc l) (cvt o))
  | (t, .pwr d _) => (t, .wr d)
  | (t, .prd d _) => (t, .rd d)
  | (t, _) => (t, .nop)

def hbTrace (es : List (Tid × Ev)) : HB.Trace := es.map toHB

theorem hbTrace_snoc (es : List (Tid × Ev)) (x : Tid × Ev) : hbTrace (es ++ [x]) = hbTrace es ++ [toHB x] := by
  simp [hbTrace]

theorem hbTrace_append (es ext : List (Tid × Ev)) : hbTrace (es ++ ext) = hbTrace es ++ hbTrace ext := by
  simp [hbTrace]

@[simp] theorem hbTrace_length (es : List (Tid × Ev)) : (hbTrace es).length = es.length := by simp [hbTrace]

theorem hbTrace_get {es : List (Tid × Ev)} {i : Nat} {p : Tid × Ev} (h : es[i]? = some p) :
    (hbTrace es)[i]? = some (toHB p) := by simp [hbTrace, h]

/-- only a store of line `l` is mapped to a store of `lineLoc l` -/
theorem hbTrace_st_inv {es : List (Tid × Ev)} {k : Nat} {w : Tid} {l : LineId} {o : HB.Ord}
    (h : (hbTrace es)[k]? = some (w, .st (lineLoc l) o)) : ∃ o' v, es[k]? = some (w, Ev.st l o' v) := by
  simp only [hbTrace, List.getElem?_map] at h
  cases hk : es[k]? with
  | none => simp [hk] at h
  | some p =>
    obtain ⟨u, e⟩ := p
    simp [hk] at h
    cases e <;> simp [toHB] at h
    obtain ⟨h1, h2, _⟩ := h
    subst h1; rw [lineLoc_inj h2]; exact ⟨_, _, rfl⟩

/-! ### inversion of the five events that touch the ghost -/

def Ev.inert : Ev → Bool
  | .fork | .ld _ _ _ | .st _ _ _ | .xchg _ _ _ _ | .pwr _ _ => false
  | _ => true

theorem step_inert {s s' : St} {t : Tid} {e : Ev} (hs : step s t e = some s') (he : e.inert = true) :
    s'.know = s.know ∧ s'.msg = s.msg := by
  unfold step at hs
  split at hs
  all_goals (try split at hs)
  all_goals (try split at hs)
  all_goals (try split at hs)
  all_goals (try split at hs)
  all_goals (try contradiction)
  all_goals (try (injection hs with hs; subst hs))
  all_goals first | exact ⟨rfl, rfl⟩ | (simp [Ev.inert] at he)

theorem fork_inv {s s' : St} {t : Tid} (hs : step s t .fork = some s') :
    s'.know = upd s.know t (s.know t ++ s.know 0) ∧ s'.msg = s.msg := by
  cases hp : s.pc t <;> simp [step, hp] at hs
  obtain ⟨_, h⟩ := hs; subst h; exact ⟨rfl, rfl⟩

theorem ld_inv2 {s s' : St} {t : Tid} {l : LineId} {o : Ord} {v : Bool} (hs : step s t (.ld l o v) = some s') :
    o.isAcquire = true ∧ s'.know = upd s.know t (s.know t ++ s.msg l) ∧ s'.msg = s.msg := by
  cases hp : s.pc t <;> simp [step, hp] at hs
  obtain ⟨⟨h1, h2, _⟩, h4⟩ := hs
  subst h1 h4
  exact ⟨h2, rfl, rfl⟩

theorem st_inv2 {s s' : St} {t : Tid} {l : LineId} {o : Ord} {v : Bool} (hs : step s t (.st l o v) = some s') :
    o.isRelease = true ∧ s'.know = s.know ∧ s'.msg = set s.msg l (s.know t) := by
  cases hp : s.pc t <;> simp [step, hp] at hs
  rename_i id held done
  cases held <;> cases done <;> simp at hs
  obtain ⟨⟨h1, _, h3⟩, h4⟩ := hs
  subst h1 h4
  exact ⟨h3, rfl, by simp [St.trip, St.setPc]⟩

theorem xchg_inv2 {s s' : St} {t : Tid} {l : LineId} {o : Ord} {a b : Bool} (hs : step s t (.xchg l o a b) = some s') :
    o.isRelease = true ∧ s'.know = s.know ∧ s'.msg = set s.msg l (s.msg l ++ s.know t) := by
  cases hp : s.pc t <;> simp [step, hp] at hs
  rename_i id held done
  cases held <;> cases done <;> simp at hs
  obtain ⟨⟨h1, _, _, h3⟩, h4⟩ := hs
  subst h1 h4
  exact ⟨h3, rfl, by simp [St.trip, St.setPc]⟩

theorem pwr_inv2 {s s' : St} {t : Tid} {d v : Nat} (hs : step s t (.pwr d v) = some s') :
    s'.know = upd s.know t ((d, v) :: s.know t) ∧ s'.msg = s.msg ∧ (s.data d = 0 ∨ (d, s.data d) ∈ s.know t) := by
  cases hp : s.pc t <;> simp [step, hp] at hs
  obtain ⟨⟨_, h2⟩, h⟩ := hs; subst h; exact ⟨rfl, rfl, h2⟩

theorem prd_inv {s s' : St} {t : Tid} {d v : Nat} (hs : step s t (.prd d v) = some s') :
    v = 0 ∨ (d, v) ∈ s.know t := by
  cases hp : s.pc t <;> simp [step, hp] at hs
  exact hs.1.2

/-! ### heads of release sequences on a line -/

/-- `e` is a releasing write (store or exchange) of line `l` -/
def RelW (e : Ev) (l : LineId) : Prop :=
  (∃ o v, e = .st l o v ∧ o.isRelease = true) ∨ (∃ o a b, e = .xchg l o a b ∧ o.isRelease = true)

theorem relW_hb {t : Tid} {e : Ev} {l : LineId} (h : RelW e l) :
    ∃ he, toHB (t, e) = (t, he) ∧ HB.RelWrite he (lineLoc l) := by
  rcases h with ⟨o, v, rfl, ho⟩ | ⟨o, a, b, rfl, ho⟩
  · exact ⟨_, rfl, cvt o, cvt_rel ho, .inl rfl⟩
  · exact ⟨_, rfl, cvt o, cvt_rel ho, .inr rfl⟩

/-- position `q` holds a releasing write of `l` and no plain store of `l` follows it: every later
acquiring load of `l` reads from its release sequence -/
def HeadAt (es : List (Tid × Ev)) (l : LineId) (q : Nat) : Prop :=
  ∃ w e, es[q]? = some (w, e) ∧ RelW e l ∧ ∀ k w' o v, q < k → es[k]? ≠ some (w', Ev.st l o v)

theorem HeadAt.snoc {es : List (Tid × Ev)} {l : LineId} {q : Nat} (x : Tid × Ev) (h : HeadAt es l q)
    (hx : ∀ o v, x.2 ≠ .st l o v) : HeadAt (es ++ [x]) l q := by
  obtain ⟨w, e, h1, h2, h3⟩ := h
  refine ⟨w, e, lq_mono _ h1, h2, ?_⟩
  intro k w' o v hqk hk
  rcases lq_snoc hk with ⟨_, hk'⟩ | ⟨_, hp⟩
  · exact h3 k w' o v hqk hk'
  · rw [← hp] at hx; exact hx o v rfl

theorem HeadAt.last (es : List (Tid × Ev)) {t : Tid} {e : Ev} {l : LineId} (h : RelW e l) :
    HeadAt (es ++ [(t, e)]) l es.length := by
  refine ⟨t, e, lq_last _ _, h, ?_⟩
  intro k w' o v hk hc
  have := lq_lt hc
  simp at this; omega

theorem head_sw {es : List (Tid × Ev)} {l : LineId} {q : Nat} {t : Tid} {o : Ord} (h : HeadAt es l q)
    (ho : o.isAcquire = true) :
    HB.Sw (hbTrace es ++ [(t, .ld (lineLoc l) (cvt o))]) q (hbTrace es).length := by
  obtain ⟨w, e, hq, hr, hlast⟩ := h
  obtain ⟨he, h1, h2⟩ := relW_hb (t := w) hr
  have hlt : q < (hbTrace es).length := by simp; exact lq_lt hq
  refine .atomic (a := lineLoc l) hlt (HB.get_mono _ (by rw [hbTrace_get hq, h1])) (HB.get_last _ _) h2
    ⟨cvt o, cvt_acq ho, .inl rfl⟩ ?_
  intro k u od hk1 hk2 hc
  rw [List.getElem?_append_left hk2] at hc
  obtain ⟨o', v', hk⟩ := hbTrace_st_inv hc
  exact hlast k u o' v' hk1 hk

/-! ### soundness of the ghost -/

/-- every entry of `know t` is a client write that thread `t` knows in the happens-before sense -/
def GK (es : List (Tid × Ev)) (know : Tid → List Wr) : Prop :=
  ∀ t d v, (d, v) ∈ know t → ∃ i u, es[i]? = some (u, Ev.pwr d v) ∧ KnA (hbTrace es) t i

/-- every entry of `msg l` is a client write ordered before the head of the current release sequence of `l` -/
def GM (es : List (Tid × Ev)) (msg : LineId → List Wr) : Prop :=
  ∀ l d v, (d, v) ∈ msg l → ∃ i u, es[i]? = some (u, Ev.pwr d v) ∧ ∃ q, HeadAt es l q ∧ HBeq (hbTrace es) i q

theorem GK_snoc {es : List (Tid × Ev)} {know : Tid → List Wr} (x : Tid × Ev) (h : GK es know) : GK (es ++ [x]) know := by
  intro t d v hm
  obtain ⟨i, u, h1, h2⟩ := h t d v hm
  exact ⟨i, u, lq_mono _ h1, by rw [hbTrace_append]; exact h2.mono _⟩

theorem GM_snoc {es : List (Tid × Ev)} {msg : LineId → List Wr} (x : Tid × Ev) (h : GM es msg)
    (hx : ∀ l o v, x.2 ≠ .st l o v) : GM (es ++ [x]) msg := by
  intro l d v hm
  obtain ⟨i, u, h1, q, h2, h3⟩ := h l d v hm
  exact ⟨i, u, lq_mono _ h1, q, h2.snoc x (hx l), by rw [hbTrace_append]; exact h3.mono _⟩

/-- the acting thread's knowledge is replaced by `new`, every entry of which is justified -/
theorem GK_upd {es : List (Tid × Ev)} {know : Tid → List Wr} {t : Tid} (x : Tid × Ev) {new : List Wr} (h : GK es know)
    (hnew : ∀ d v, (d, v) ∈ new → ∃ i u, (es ++ [x])[i]? = some (u, Ev.pwr d v) ∧ KnA (hbTrace (es ++ [x])) t i) :
    GK (es ++ [x]) (upd know t new) := by
  intro u d v hm
  by_cases hu : u = t
  · subst hu; rw [upd_same] at hm; exact hnew d v hm
  · rw [upd_other _ _ _ _ hu] at hm; exact GK_snoc x h u d v hm

theorem KnA_old {es : List (Tid × Ev)} {know : Tid → List Wr} {t : Tid} (x : Tid × Ev) (h : GK es know) {d v : Nat}
    (hm : (d, v) ∈ know t) : ∃ i u, (es ++ [x])[i]? = some (u, Ev.pwr d v) ∧ KnA (hbTrace (es ++ [x])) t i :=
  GK_snoc x h t d v hm

theorem gs_step {es : List (Tid × Ev)} {s s' : St} {t : Tid} {e : Ev} (hk : GK es s.know) (hm : GM es s.msg)
    (hs : step s t e = some s') : GK (es ++ [(t, e)]) s'.know ∧ GM (es ++ [(t, e)]) s'.msg := by
  by_cases hin : e.inert = true
  · obtain ⟨a, b⟩ := step_inert hs hin
    rw [a, b]
    refine ⟨GK_snoc _ hk, GM_snoc _ hm ?_⟩
    intro l o v hc
    simp only at hc; subst hc; simp [Ev.inert] at hin
  · cases e <;> simp [Ev.inert] at hin
    case fork =>
      obtain ⟨a, b⟩ := fork_inv hs
      rw [a, b]
      refine ⟨GK_upd _ hk ?_, GM_snoc _ hm (by intro _ _ _ hc; cases hc)⟩
      intro d v hmem
      rcases List.mem_append.1 hmem with h1 | h1
      · exact KnA_old _ hk h1
      · obtain ⟨i, u, hi, hkn⟩ := hk 0 d v h1
        refine ⟨i, u, lq_mono _ hi, ?_⟩
        rw [hbTrace_snoc]
        exact KnA.of_last_fork (.inr (hkn.to_last _))
    case ld l o v =>
      obtain ⟨ho, a, b⟩ := ld_inv2 hs
      rw [a, b]
      refine ⟨GK_upd _ hk ?_, GM_snoc _ hm (by intro _ _ _ hc; cases hc)⟩
      intro d w hmem
      rcases List.mem_append.1 hmem with h1 | h1
      · exact KnA_old _ hk h1
      · obtain ⟨i, u, hi, q, hq, hb⟩ := hm l d w h1
        refine ⟨i, u, lq_mono _ hi, ?_⟩
        rw [hbTrace_snoc]
        exact KnA.of_last ((hb.mono _).trans (.inr (.sw (head_sw hq ho))))
    case st l o v =>
      obtain ⟨ho, a, b⟩ := st_inv2 hs
      rw [a, b]
      refine ⟨GK_snoc _ hk, ?_⟩
      intro l' d w hmem
      by_cases hl : l' = l
      · subst hl
        rw [set_same] at hmem
        obtain ⟨i, u, hi, hkn⟩ := hk t d w hmem
        refine ⟨i, u, lq_mono _ hi, es.length, HeadAt.last es (.inl ⟨o, v, rfl, ho⟩), ?_⟩
        have h := hkn.to_last (.st (lineLoc l') (cvt o))
        rw [hbTrace_length] at h
        rw [hbTrace_snoc]; exact .inr h
      · rw [set_other _ _ _ _ hl] at hmem
        obtain ⟨i, u, h1, q, h2, h3⟩ := hm l' d w hmem
        refine ⟨i, u, lq_mono _ h1, q, h2.snoc _ ?_, by rw [hbTrace_append]; exact h3.mono _⟩
        intro o' v' hc; injection hc with hc; exact hl hc.symm
    case xchg l o a' b' =>
      obtain ⟨ho, a, b⟩ := xchg_inv2 hs
      rw [a, b]
      refine ⟨GK_snoc _ hk, ?_⟩
      intro l' d w hmem
      by_cases hl : l' = l
      · subst hl
        rw [set_same] at hmem
        rcases List.mem_append.1 hmem with h1 | h1
        · obtain ⟨i, u, h1, q, h2, h3⟩ := hm l' d w h1
          exact ⟨i, u, lq_mono _ h1, q, h2.snoc _ (by intro _ _ hc; cases hc), by rw [hbTrace_append]; exact h3.mono _⟩
        · obtain ⟨i, u, hi, hkn⟩ := hk t d w h1
          refine ⟨i, u, lq_mono _ hi, es.length, HeadAt.last es (.inr ⟨o, a', b', rfl, ho⟩), ?_⟩
          have h := hkn.to_last (.rmw (lineLoc l') (cvt o))
          rw [hbTrace_length] at h
          rw [hbTrace_snoc]; exact .inr h
      · rw [set_other _ _ _ _ hl] at hmem
        obtain ⟨i, u, h1, q, h2, h3⟩ := hm l' d w hmem
        exact ⟨i, u, lq_mono _ h1, q, h2.snoc _ (by intro _ _ hc; cases hc), by rw [hbTrace_append]; exact h3.mono _⟩
    case pwr d v =>
      obtain ⟨a, b, _⟩ := pwr_inv2 hs
      rw [a, b]
      refine ⟨GK_upd _ hk ?_, GM_snoc _ hm (by intro _ _ _ hc; cases hc)⟩
      intro d' w hmem
      rcases List.mem_cons.1 hmem with h1 | h1
      · injection h1 with h1 h2; subst h1; subst h2
        refine ⟨es.length, t, lq_last _ _, ?_⟩
        rw [hbTrace_snoc]
        exact KnA.of_last (.inl (hbTrace_length es).symm)
      · exact KnA_old _ hk h1

theorem gs_run {n : Nat} {es : List (Tid × Ev)} {s : St} (h : run n es = some s) : GK es s.know ∧ GM es s.msg := by
  induction es using HB.snoc_induction generalizing s with
  | h0 =>
    simp [run] at h; subst h
    exact ⟨by intro t d v hm; simp [init] at hm, by intro l d v hm; simp [init] at hm⟩
  | hs es x ih =>
    obtain ⟨t, e⟩ := x
    simp only [run, runFrom_append] at h
    cases h1 : runFrom step (init n) es with
    | none => simp [h1] at h
    | some s1 =>
      simp only [h1, Option.bind_some, runFrom_cons, runFrom_nil] at h
      cases h2 : step s1 t e with
      | none => simp [h2] at h
      | some s2 =>
        simp [h2] at h; subst h
        obtain ⟨a, b⟩ := ih h1
        exact gs_step a b h2

/-! ### consequences for every accepted trace -/

/-- an accepted client read of `v ≠ 0`: a write of that value to that datum happens-before it -/
theorem tw_read_hb {n : Nat} {es : List (Tid × Ev)} {s s' : St} {t : Tid} {d v : Nat} (h : run n es = some s)
    (hs : step s t (.prd d v) = some s') (hv : v ≠ 0) :
    ∃ i u, es[i]? = some (u, Ev.pwr d v) ∧ HB.HB (hbTrace (es ++ [(t, .prd d v)])) i es.length := by
  rcases prd_inv hs with h0 | hm
  · exact absurd h0 hv
  · obtain ⟨i, u, hi, hkn⟩ := (gs_run h).1 t d v hm
    refine ⟨i, u, hi, ?_⟩
    have h := hkn.to_last (.rd d)
    rw [hbTrace_length] at h
    rw [hbTrace_snoc]; exact h

/-- an accepted client write over a value `≠ 0`: a write of the overwritten value happens-before it -/
theorem tw_write_hb {n : Nat} {es : List (Tid × Ev)} {s s' : St} {t : Tid} {d v : Nat} (h : run n es = some s)
    (hs : step s t (.pwr d v) = some s') (hd : s.data d ≠ 0) :
    ∃ i u, es[i]? = some (u, Ev.pwr d (s.data d)) ∧ HB.HB (hbTrace (es ++ [(t, .pwr d v)])) i es.length := by
  rcases (pwr_inv2 hs).2.2 with h0 | hm
  · exact absurd h0 hd
  · obtain ⟨i, u, hi, hkn⟩ := (gs_run h).1 t d _ hm
    refine ⟨i, u, hi, ?_⟩
    have h := hkn.to_last (.wr d)
    rw [hbTrace_length] at h
    rw [hbTrace_snoc]; exact h

/-- every write of a line in an accepted trace is releasing -/
theorem write_relW {n : Nat} {es : List (Tid × Ev)} {s : St} (h : run n es = some s) {k : Nat} {t : Tid} {ek : Ev}
    {l : LineId} (hk : es[k]? = some (t, ek)) (hw : ek.isWrite = true) (hline : ek.line? = some l) : RelW ek l := by
  obtain ⟨s1, s2, _, st1⟩ := HB.runFrom_at h hk
  cases ek <;> simp [Ev.isWrite] at hw
  · simp [Ev.line?] at hline; subst hline
    exact .inl ⟨_, _, rfl, (st_inv2 st1).1⟩
  · simp [Ev.line?] at hline; subst hline
    exact .inr ⟨_, _, _, rfl, (xchg_inv2 st1).1⟩

/-- the tripping write at `k` synchronises with every later load of the line that reads from it or
from an exchange continuing its release sequence (no plain store of the line in between) -/
theorem tw_trip_sw {n : Nat} {es : List (Tid × Ev)} {s : St} (h : run n es = some s) {k j : Nat} {t r : Tid} {ek : Ev}
    {l : LineId} {o : Ord} {v : Bool} (hk : es[k]? = some (t, ek)) (hw : ek.isWrite = true) (hline : ek.line? = some l)
    (hj : es[j]? = some (r, .ld l o v)) (hkj : k < j)
    (hno : ∀ m w o' v', k < m → m < j → es[m]? ≠ some (w, Ev.st l o' v')) : HB.Sw (hbTrace es) k j := by
  obtain ⟨s3, s4, _, st2⟩ := HB.runFrom_at h hj
  obtain ⟨he, h1, h2⟩ := relW_hb (t := t) (write_relW h hk hw hline)
  refine .atomic (a := lineLoc l) hkj (by rw [hbTrace_get hk, h1]) (hbTrace_get hj) h2
    ⟨cvt o, cvt_acq (ld_inv2 st2).1, .inl rfl⟩ ?_
  intro m u od h3 h4 hc
  obtain ⟨o', v', hm⟩ := hbTrace_st_inv hc
  exact hno m u o' v' h3 h4 hm

end ConcVerif.TripWire
