import ConcVerif.Proof.Trigger
import ConcVerif.Proof.TriggerLive
/-! # C11 — TriggerVariable waits end only on their event, and the event wakes them

All statements are over `Reachable a s` (`a` = constructed active or not): every accepted event sequence
of the model in `Model/Trigger.lean`, i.e. any number of threads, any mix of the nine public methods, any
interleaving, any number of spurious wake-ups and time-outs.  No bound anywhere.

Vocabulary.  `s.hist` is the ghost history of clear / set-active / set-triggered / set-inactive steps; a
step's index is its position (the constructor is clear step 0, plus set-active step 1 when constructed
active).  `s.obs t = some ci` says: the `wait()` / `wait_for()` call thread `t` is executing read
`activated = true`, and `ci` is the index of the clear step of the activation whose set-active step wrote
that value (`ObsWf` spells out that both steps are in the history).  `.trig` / `.act` select
(`triggered`, `triggerLock`, `cv_trigger`) / (`activated`, `activeLock`, `cv_active`). -/
namespace ConcVerif.Trigger

/-! ## waits return only on their event -/

/-- From its deciding load until it releases `triggerLock`, a `wait()` / `wait_for()` that is about to return
`true` holds the mutex, `triggered` is true, and a set-triggered step lies after the clear step of the
activation it observed. -/
theorem C11_wait_decided {a : Bool} {s : St} {t : Tid} {k : WKind} (h : Reachable a s)
    (hp : s.pc t = .wUnlock k true) (hk : k.side = .trig) :
    s.lock .trig = some t ∧ s.flag .trig = true ∧
      ∀ ci, s.obs t = some ci → ObsWf s.hist ci ∧ ∃ (g : Nat) (u : Tid), ci < g ∧ s.hist[g]? = some (.setTrig u) := by
  have hi := inv_reachable h
  refine ⟨?_, ?_, ?_⟩
  · have := (hi.l.holder .trig t).1 (by simp [hp, Pc.holds, hk]); exact this
  · exact hi.t .trig t (by simp [hp, Pc.sawTrue, hk])
  · intro ci ho
    exact ⟨hi.g.obsWf t ci ho, (hi.g.res t k (Or.inl hp)).1 hk ci ho⟩

/-- `wait()` / `wait_for()` that observed an activation returns `true` only after a set-triggered step (a
`trigger()`, or the one forced by `reset()`) later than that activation's clear step.  No proviso needed. -/
theorem C11_wait {a : Bool} {s s' : St} {t : Tid} {k : Kind} {ci : Nat} (h : Reachable a s)
    (hk : k = .wait ∨ k = .waitFor) (hs : step s t (.ret k true) = some s') (ho : s.obs t = some ci) :
    ObsWf s.hist ci ∧ ∃ (g : Nat) (u : Tid), ci < g ∧ s.hist[g]? = some (.setTrig u) := by
  have hi := inv_reachable h
  refine ⟨hi.g.obsWf t ci ho, ?_⟩
  cases hp : s.pc t <;> simp [step, hp] at hs
  case wRet k0 r =>
    obtain ⟨⟨hk0, hr⟩, _⟩ := hs
    subst hr
    have hside : k0.side = .trig := by
      rcases hk with hk | hk <;> subst hk <;> cases k0 <;> simp [WKind.toKind] at hk0 <;> rfl
    exact (hi.g.res t k0 (Or.inr hp)).1 hside ci ho
  all_goals (rcases hk with hk | hk <;> subst hk <;> simp_all [obsKind] <;> (rename_i a _; cases a <;> simp_all [obsKind]))

/-- how `obs` gets its value: the unlocked fast-path load of `wait()` / `wait_for()` that reads
`activated = true` records the activation that wrote it; `activated` is true at that moment and the
activation's clear and set-active steps are in the history. -/
theorem C11_wait_observes {a : Bool} {s s' : St} {t : Tid} {k : WKind} (h : Reachable a s)
    (hp : s.pc t = .wCalled k) (hs : step s t (.ld .act .sc true) = some s') :
    s.flag .act = true ∧ s'.obs t = some s.actClear ∧ ObsWf s.hist s.actClear := by
  have hi := inv_reachable h
  simp [step, hp] at hs
  obtain ⟨hf, rfl⟩ := hs
  exact ⟨hf, by simp, hi.g.actWf hf⟩

/-- untimed `wait()` never returns `false` -/
theorem C11_wait_true {a : Bool} {s s' : St} {t : Tid} {r : Bool} (h : Reachable a s)
    (hs : step s t (.ret .wait r) = some s') : r = true := by
  have hi := inv_reachable h
  cases hp : s.pc t <;> simp [step, hp] at hs
  case wRet k0 r0 =>
    obtain ⟨⟨hk0, hr⟩, _⟩ := hs
    subst hr
    cases r
    · have := hi.l.untimed t k0 (by simp [hp, Pc.needsTimed])
      cases k0 <;> simp [WKind.toKind, WKind.timed] at hk0 this
    · rfl
  case oRet a v => cases a <;> simp [obsKind] at hs

/-- From its deciding load until it releases `activeLock`, a `waitActivation()` / `wait_forActivation()` that is
about to return (`true`) holds the mutex and `activated` is true; a set-active step is in the history. -/
theorem C11_waitActivation_decided {a : Bool} {s : St} {t : Tid} {k : WKind} (h : Reachable a s)
    (hp : s.pc t = .wUnlock k true) (hk : k.side = .act) :
    s.lock .act = some t ∧ s.flag .act = true ∧ ∃ (i : Nat) (u : Tid), s.hist[i]? = some (.setActive u) := by
  have hi := inv_reachable h
  refine ⟨?_, ?_, ?_⟩
  · have := (hi.l.holder .act t).1 (by simp [hp, Pc.holds, hk]); exact this
  · exact hi.t .act t (by simp [hp, Pc.sawTrue, hk])
  · exact (hi.g.res t k (Or.inl hp)).2 hk

/-- `waitActivation()` returns, and `wait_forActivation()` returns `true`, only after a set-active step -/
theorem C11_waitActivation {a : Bool} {s s' : St} {t : Tid} {k : Kind} (h : Reachable a s)
    (hk : k = .waitAct ∨ k = .waitForAct) (hs : step s t (.ret k true) = some s') :
    ∃ (i : Nat) (u : Tid), s.hist[i]? = some (.setActive u) := by
  have hi := inv_reachable h
  cases hp : s.pc t <;> simp [step, hp] at hs
  case wRet k0 r =>
    obtain ⟨⟨hk0, hr⟩, _⟩ := hs
    subst hr
    have hside : k0.side = .act := by
      rcases hk with hk | hk <;> subst hk <;> cases k0 <;> simp [WKind.toKind] at hk0 <;> rfl
    exact (hi.g.res t k0 (Or.inr hp)).2 hside
  all_goals (rcases hk with hk | hk <;> subst hk <;> simp_all [obsKind] <;> (rename_i a _; cases a <;> simp_all [obsKind]))

/-- the only way into "about to return `true` under the mutex" is a load of `true` of the awaited flag -/
theorem C11_decided_by_load {s s' : St} {t : Tid} {e : Ev} {k : WKind} (hs : step s t e = some s')
    (hp : s'.pc t = .wUnlock k true) :
    e = .ld k.side .sc true ∧ s.flag k.side = true ∧
      (s.pc t = .wTimedOut k ∨ s.pc t = .wLate k ∨ ∃ f, s.pc t = .wHold k f) := by
  trg_stepcasesx hs
  all_goals (simp [St.setPc] at hp)
  all_goals (try (split at hp <;> simp at hp))
  all_goals (first | (simp_all; done) | grind)

/-! ## the timed forms return `false` only if the event had not happened when they gave up -/

/-- A timed wait that is about to return `false` is a timed form, holds the matching mutex and the awaited
flag is false — from its deciding load until it releases the mutex. -/
theorem C11_timed_false {a : Bool} {s : St} {t : Tid} {k : WKind} (h : Reachable a s)
    (hp : s.pc t = .wUnlock k false) :
    k.timed = true ∧ s.lock k.side = some t ∧ s.flag k.side = false := by
  have hi := inv_reachable h
  refine ⟨hi.l.untimed t k (by simp [hp, Pc.needsTimed]), ?_, hi.l.checked k.side t (by simp [hp, Pc.sawFalse])⟩
  exact (hi.l.holder k.side t).1 (by simp [hp, Pc.holds])

/-- a `false` result is produced only by the deciding load after a time-out (real, or a late wake-up reported
as one): the flag is re-read under the mutex and it is false … -/
theorem C11_timed_false_decided {s s' : St} {t : Tid} {e : Ev} {k : WKind} (hs : step s t e = some s')
    (hp : s'.pc t = .wUnlock k false) :
    e = .ld k.side .sc false ∧ s.flag k.side = false ∧ (s.pc t = .wTimedOut k ∨ s.pc t = .wLate k) := by
  trg_stepcasesx hs
  all_goals (simp [St.setPc] at hp)
  all_goals (try (split at hp <;> simp at hp))
  all_goals (first | (simp_all; done) | grind)

/-- … and it is carried unchanged through the release of the mutex to the return -/
theorem C11_timed_false_ret {s s' : St} {t : Tid} {e : Ev} {k : WKind} (hs : step s t e = some s')
    (hp : s'.pc t = .wRet k false) : e = .mul k.side ∧ s.pc t = .wUnlock k false := by
  trg_stepcasesx hs
  all_goals (simp [St.setPc] at hp)
  all_goals (try (split at hp <;> simp at hp))
  all_goals (first | (simp_all; done) | grind)

/-- a waiter that timed out while still in the wait set holds the mutex and the awaited flag is false (the
shim re-acquires the mutex in the time-out step itself; the real race "notified, but the wait reports a
time-out" is the separate `late` wake-up, after which the flag may well be true — `C11_late_decides`) -/
theorem C11_timeout_sees_false {a : Bool} {s : St} {t : Tid} {k : WKind} (h : Reachable a s)
    (hp : s.pc t = .wTimedOut k) : s.lock k.side = some t ∧ s.flag k.side = false := by
  have hi := inv_reachable h
  exact ⟨(hi.l.holder k.side t).1 (by simp [hp, Pc.holds]), hi.l.checked k.side t (by simp [hp, Pc.sawFalse])⟩

/-- after a late wake-up (notified, reported as a time-out) the result is whatever the deciding load of the
flag under the mutex returns: a notified waiter whose event is still in force returns `true` -/
theorem C11_late_decides {a : Bool} {s s' : St} {t : Tid} {e : Ev} {k : WKind} (h : Reachable a s)
    (hp : s.pc t = .wLate k) (hs : step s t e = some s') :
    k.timed = true ∧ s.lock k.side = some t ∧ e = .ld k.side .sc (s.flag k.side) ∧
      s' = s.setPc t (.wUnlock k (s.flag k.side)) := by
  have hi := inv_reachable h
  refine ⟨hi.l.untimed t k (by simp [hp, Pc.needsTimed]), (hi.l.holder k.side t).1 (by simp [hp, Pc.holds]), ?_⟩
  cases e <;> simp [step, hp] at hs
  rename_i a' o v
  cases o <;> simp at hs
  obtain ⟨⟨ha, hv⟩, rfl⟩ := hs
  subst ha; subst hv
  exact ⟨rfl, rfl⟩

/-! ## a successful trigger / activate releases the waiters (L1: no lost wake-up) -/

/-- No lost wake-up, both condition variables: while the flag is true nobody is in the wait set, except
during the instant in which the thread that stored `true` — which holds the mutex and is therefore never
blocked — is between its store and its `notify_all`. -/
theorem C11_no_lost_wakeup {a : Bool} {s : St} (h : Reachable a s) (m : Side) (hf : s.flag m = true)
    (hq : ∀ t, (s.pc t).notifying m = false) : s.ws m = [] := by
  have hi := inv_reachable h
  apply Classical.byContradiction
  intro hne
  rcases hi.l.lost m hne with hx | ⟨u, hu⟩
  · simp [hf] at hx
  · simp [hq u] at hu

/-- the pending notifier of `C11_no_lost_wakeup` holds the mutex -/
theorem C11_notifier_holds {a : Bool} {s : St} (h : Reachable a s) {m : Side} {t : Tid}
    (hn : (s.pc t).notifying m = true) : s.lock m = some t :=
  ((inv_reachable h).l.holder m t).1 (notifying_holds hn)

/-- After a set-triggered step (successful `trigger()`, or the one inside `reset()`), as long as no clear step
follows it — the property's proviso "not re-activated while they are still blocked" — `triggered` stays
true and, once the triggerer's `notify_all` is done, `cv_trigger`'s wait set is empty: every thread that was
blocked has been released (and by `C11_wait_bounded` returns within a bounded number of own steps). -/
theorem C11_trigger_wakes {a : Bool} {s : St} (h : Reachable a s) {h1 h2 : List HEv} {u : Tid}
    (hh : s.hist = h1 ++ HEv.setTrig u :: h2) (hno : ∀ v, HEv.clear v ∉ h2) :
    s.flag .trig = true ∧ ((∀ t, (s.pc t).notifying .trig = false) → s.ws .trig = []) := by
  have hi := inv_reachable h
  have hf : s.flag .trig = true := by rw [hi.g.trigEq, hh]; exact trigOf_after h1 h2 u hno
  exact ⟨hf, C11_no_lost_wakeup h .trig hf⟩

/-- After a set-active step (successful `activate()`), as long as no set-inactive step (`reset()`) follows it,
`activated` stays true and, once the activator's `notify_all` is done, `cv_active`'s wait set is empty. -/
theorem C11_activate_wakes {a : Bool} {s : St} (h : Reachable a s) {h1 h2 : List HEv} {u : Tid}
    (hh : s.hist = h1 ++ HEv.setActive u :: h2) (hno : ∀ v, HEv.setInactive v ∉ h2) :
    s.flag .act = true ∧ ((∀ t, (s.pc t).notifying .act = false) → s.ws .act = []) := by
  have hi := inv_reachable h
  have hf : s.flag .act = true := by rw [hi.g.actEq, hh]; exact actOf_after h1 h2 u hno
  exact ⟨hf, C11_no_lost_wakeup h .act hf⟩

/-- a successful `trigger()` (one that returns `true`) has performed a set-triggered step: the only way to
"about to return true" is through the store and the notify under `triggerLock` -/
theorem C11_trigger_true {s s' : St} {t : Tid} {e : Ev} (hs : step s t e = some s')
    (hp : s'.pc t = .tRet true) : e = .mul .trig ∧ s.pc t = .tHold .top true true := by
  trg_stepcasesx hs
  all_goals (simp [St.setPc] at hp)
  all_goals (try (split at hp <;> simp at hp))
  all_goals (first | (simp_all; done) | grind)

/-! ## trigger() on an inactive variable has no effect and returns false -/

/-- `trigger()` that finds the variable inactive can only load `activated = false`, which changes nothing but
its own pc (no store, no notify, no mutex) … -/
theorem C11_inactive_trigger {s s' : St} {t : Tid} {e : Ev} (hp : s.pc t = .tCalled .top)
    (hf : s.flag .act = false) (hs : step s t e = some s') :
    e = .ld .act .sc false ∧ s' = s.setPc t (.tRet false) := by
  cases e <;> simp [step, hp] at hs
  rename_i a o v
  cases a <;> cases o <;> simp at hs
  obtain ⟨hv, rfl⟩ := hs
  rw [hf] at hv; subst hv
  simp [Ctx.after]

/-- … and then can only return `false`, again changing nothing else. -/
theorem C11_inactive_trigger_ret {s s' : St} {t : Tid} {e : Ev} {r : Bool} (hp : s.pc t = .tRet r)
    (hs : step s t e = some s') : e = .ret .trigger r ∧ s' = s.setPc t .idle := by
  cases e <;> simp [step, hp] at hs
  rename_i k r'
  cases k <;> simp at hs
  obtain ⟨hr, rfl⟩ := hs
  exact ⟨by rw [hr], rfl⟩

/-- Conversely `trigger()` returns `false` only after having read `activated = false` (and nothing else). -/
theorem C11_trigger_false {s s' : St} {t : Tid} {e : Ev} (hs : step s t e = some s')
    (hp : s'.pc t = .tRet false) :
    e = .ld .act .sc false ∧ s.flag .act = false ∧ s.pc t = .tCalled .top ∧ s' = s.setPc t (.tRet false) := by
  trg_stepcasesx hs
  all_goals (simp [St.setPc] at hp)
  all_goals (try (split at hp <;> simp at hp))
  all_goals (first | (simp_all [St.setPc]; done) | grind [St.setPc])

/-! ## after reset() the variable is inactive -/

/-- `reset()` releases `activeLock` (its last action before returning) only in states where `activated` is
false, and it holds the mutex until then. -/
theorem C11_reset {a : Bool} {s : St} {t : Tid} {b : Bool} (h : Reachable a s) (hp : s.pc t = .rUnlock b) :
    s.lock .act = some t ∧ s.flag .act = false := by
  have hi := inv_reachable h
  exact ⟨(hi.l.holder .act t).1 (by simp [hp, Pc.holds]), hi.l.checked .act t (by simp [hp, Pc.sawFalse])⟩

/-- After a set-inactive step, absent a later set-active step, `activated` is false; and `triggered` is true
("reset forces a trigger before deactivating") unless an `activate()` call is in progress between its clear
step and its set-active step — which is then about to perform that later set-active. -/
theorem C11_reset_hist {a : Bool} {s : St} (h : Reachable a s) {h1 h2 : List HEv} {u : Tid}
    (hh : s.hist = h1 ++ HEv.setInactive u :: h2) (hno : ∀ v, HEv.setActive v ∉ h2) :
    s.flag .act = false ∧ (s.flag .trig = true ∨ ∃ w, (s.pc w).pending = true) := by
  have hi := inv_reachable h
  have hf : s.flag .act = false := by rw [hi.g.actEq, hh]; exact actOf_after_reset h1 h2 u hno
  exact ⟨hf, hi.g.resetDone ⟨u, by rw [hh]; simp⟩ hf⟩

/-- `reset()` deactivates only after it has read `triggered = true` under `activeLock`: at its set-inactive step
`triggered` is true or has just been cleared by an `activate()` still in progress; and when it read `true`
a set-triggered step lay after the latest clear step. -/
theorem C11_reset_forces_trigger {a : Bool} {s : St} {t : Tid} (h : Reachable a s) (hp : s.pc t = .rStore) :
    s.flag .trig = true ∨ ∃ w, (s.pc w).pending = true :=
  (inv_reachable h).g.resetInv t hp

theorem C11_reset_saw_trigger {a : Bool} {s s' : St} {t : Tid} {o : Ord} (h : Reachable a s)
    (hp : s.pc t = .rLoop) (hs : step s t (.ld .trig o true) = some s') :
    s'.pc t = .rStore ∧ ∃ (g : Nat) (u : Tid), s.lastClear < g ∧ s.hist[g]? = some (.setTrig u) := by
  have hi := inv_reachable h
  simp [step, hp] at hs
  obtain ⟨hf, rfl⟩ := hs
  exact ⟨by simp, hi.g.trigHist hf⟩

/-! ## the liveness half as safety facts (L2 – L4; L1 is `C11_no_lost_wakeup`) -/

/-- a spurious wake-up is not progress anybody may rely on -/
def Ev.progress : Ev → Bool
  | .cwk _ .spurious => false
  | _ => true

/-- (L2) the holder of either mutex always has an enabled step: it is never blocked (nobody takes a second
mutex or waits while holding one; the cv wait releases it). -/
theorem C11_holder_enabled {a : Bool} {s : St} (h : Reachable a s) {m : Side} {t : Tid}
    (hm : s.lock m = some t) : ∃ e, e.progress = true ∧ (step s t e).isSome = true := by
  have hi := inv_reachable h
  have hh := (hi.l.holder m t).2 hm
  cases hp : s.pc t <;> simp [hp, Pc.holds] at hh
  case aClear => exact ⟨.st .trig false, rfl, by simp [step, hp]⟩
  case aUnlockT => subst hh; exact ⟨.mul .trig, rfl, by simp [step, hp, St.release, hm]⟩
  case aHold st nt =>
    subst hh
    cases st
    · exact ⟨.st .act true, rfl, by simp [step, hp]⟩
    · cases nt
      · exact ⟨.cna .act, rfl, by simp [step, hp]⟩
      · exact ⟨.mul .act, rfl, by simp [step, hp, St.release, hm]⟩
  case tHold x st nt =>
    subst hh
    cases st
    · exact ⟨.st .trig true, rfl, by simp [step, hp]⟩
    · cases nt
      · exact ⟨.cna .trig, rfl, by simp [step, hp]⟩
      · exact ⟨.mul .trig, rfl, by simp [step, hp, St.release, hm]⟩
  case wHold k f => exact ⟨.ld k.side .sc (s.flag k.side), rfl, by simp [step, hp]⟩
  case wTimedOut k => exact ⟨.ld k.side .sc (s.flag k.side), rfl, by simp [step, hp]⟩
  case wLate k => exact ⟨.ld k.side .sc (s.flag k.side), rfl, by simp [step, hp]⟩
  case wUnlock k r => subst hh; exact ⟨.mul k.side, rfl, by simp [step, hp, St.release, hm]⟩
  case rLocked => exact ⟨.ld .act .sc (s.flag .act), rfl, by simp [step, hp]⟩
  case rLoop => exact ⟨.ld .trig .acq (s.flag .trig), rfl, by simp [step, hp]⟩
  case rRelease => subst hh; exact ⟨.mul .act, rfl, by simp [step, hp, St.release, hm]⟩
  case rStore => exact ⟨.st .act false, rfl, by simp [step, hp]⟩
  case rUnlock b => subst hh; exact ⟨.mul .act, rfl, by simp [step, hp, St.release, hm]⟩

/-- pcs of a wait on side `m` (the unlocked fast-path check of `wait` / `wait_for` included) -/
def Pc.inWait (m : Side) : Pc → Bool
  | .wCalled k | .wLock k | .wHold k _ | .wSleep k | .wTimedOut k | .wLate k | .wUnlock k _ | .wRet k _ =>
      decide (k.side = m)
  | _ => false

/-- remaining own steps of a waiter once its flag is true -/
def Pc.waitRem : Pc → Nat
  | .wCalled _ => 6
  | .wLock _ => 5
  | .wSleep _ => 5
  | .wHold _ _ => 4
  | .wTimedOut _ => 4
  | .wLate _ => 4
  | .wUnlock _ _ => 3
  | .wRet _ _ => 2
  | _ => 0

/-- (L3) while the awaited flag is true every own step of a thread inside a wait on that side strictly
decreases a bounded measure: it returns after at most 6 more own steps and never re-enters the cv wait. -/
theorem C11_wait_bounded {a : Bool} {s s' : St} {t : Tid} {e : Ev} {m : Side} (h : Reachable a s)
    (hf : s.flag m = true) (hw : (s.pc t).inWait m = true) (hs : step s t e = some s') :
    (s'.pc t).waitRem < (s.pc t).waitRem := by
  have hi := inv_reachable h
  have hchk := hi.l.checked m t
  cases hp : s.pc t <;> simp [hp, Pc.inWait] at hw
  all_goals (simp [hp, Pc.sawFalse] at hchk)
  all_goals (unfold step at hs; rw [hp] at hs; unfold St.acquire St.release at hs; (repeat' split at hs))
  all_goals (first | contradiction | (injection hs with hs; subst hs))
  all_goals (simp [St.setPc, Pc.waitRem])
  all_goals (first | (simp_all; done) | grind)

/-- (L4) deadlock-freedom, per thread.  A thread inside a call is, in every reachable state, in one of three
situations: it can take a (non-spurious) step itself; or it needs a mutex held by another thread which can
take a step (L2); or it sleeps in an *untimed* wait whose event has not happened (flag false) — the only
place where a thread depends on the client. -/
theorem C11_thread_progress {a : Bool} {s : St} {t : Tid} (h : Reachable a s) (hne : s.pc t ≠ .idle) :
    (∃ e, e.progress = true ∧ (step s t e).isSome = true) ∨
    (∃ m u, s.lock m = some u ∧ u ≠ t ∧ ∃ e, e.progress = true ∧ (step s u e).isSome = true) ∨
    (∃ k, s.pc t = .wSleep k ∧ k.timed = false ∧ t ∈ s.ws k.side ∧ s.flag k.side = false) := by
  have hi := inv_reachable h
  have hhold := fun m => hi.l.holder m t
  have hlost := hi.l.lost
  generalize hp : s.pc t = p at hne hhold ⊢
  -- a thread that needs mutex `m` and does not hold it: either it is free, or its holder can move
  have need : ∀ m, p.holds m = false →
      s.lock m = none ∨ ∃ u, s.lock m = some u ∧ u ≠ t ∧ ∃ e, e.progress = true ∧ (step s u e).isSome = true := by
    intro m hnh
    cases hl : s.lock m with
    | none => exact Or.inl rfl
    | some u =>
      refine Or.inr ⟨u, rfl, ?_, C11_holder_enabled h hl⟩
      intro hut; subst hut
      have := (hhold m).2 hl; simp [hnh] at this
  have viaLock : ∀ m (e : Ev), e.progress = true → p.holds m = false →
      (s.lock m = none → (step s t e).isSome = true) →
      (∃ e, e.progress = true ∧ (step s t e).isSome = true) ∨
      (∃ m u, s.lock m = some u ∧ u ≠ t ∧ ∃ e, e.progress = true ∧ (step s u e).isSome = true) ∨
      (∃ k, p = .wSleep k ∧ k.timed = false ∧ t ∈ s.ws k.side ∧ s.flag k.side = false) := by
    intro m e he hnh hen
    rcases need m hnh with hfree | ⟨u, hl, hut, hu⟩
    · exact Or.inl ⟨e, he, hen hfree⟩
    · exact Or.inr (Or.inl ⟨m, u, hl, hut, hu⟩)
  have own : ∀ m, p.holds m = true → s.lock m = some t := fun m hm => (hhold m).1 hm
  cases p
  case idle => exact absurd rfl hne
  case aCalled => exact Or.inl ⟨.ld .act .sc (s.flag .act), rfl, by simp [step, hp]⟩
  case aLockT => exact viaLock .trig (.mlk .trig) rfl (by simp [Pc.holds]) (fun hf => by simp [step, hp, St.acquire, hf])
  case aClear => exact Or.inl ⟨.st .trig false, rfl, by simp [step, hp]⟩
  case aUnlockT =>
    exact Or.inl ⟨.mul .trig, rfl, by simp [step, hp, St.release, own .trig (by simp [Pc.holds])]⟩
  case aLockA => exact viaLock .act (.mlk .act) rfl (by simp [Pc.holds]) (fun hf => by simp [step, hp, St.acquire, hf])
  case aHold st nt => exact Or.inl (C11_holder_enabled h (own .act (by simp [Pc.holds])))
  case aRet r => exact Or.inl ⟨.ret .activate r, rfl, by simp [step, hp]⟩
  case tCalled x => exact Or.inl ⟨.ld .act .sc (s.flag .act), rfl, by simp [step, hp]⟩
  case tLock x => exact viaLock .trig (.mlk .trig) rfl (by simp [Pc.holds]) (fun hf => by simp [step, hp, St.acquire, hf])
  case tHold x st nt => exact Or.inl (C11_holder_enabled h (own .trig (by simp [Pc.holds])))
  case tRet r => exact Or.inl ⟨.ret .trigger r, rfl, by simp [step, hp]⟩
  case wCalled k => exact Or.inl ⟨.ld .act .sc (s.flag .act), rfl, by simp [step, hp]⟩
  case wLock k =>
    exact viaLock k.side (.mlk k.side) rfl (by simp [Pc.holds]) (fun hf => by simp [step, hp, St.acquire, hf])
  case wHold k f => exact Or.inl (C11_holder_enabled h (own k.side (by simp [Pc.holds])))
  case wTimedOut k => exact Or.inl (C11_holder_enabled h (own k.side (by simp [Pc.holds])))
  case wLate k => exact Or.inl (C11_holder_enabled h (own k.side (by simp [Pc.holds])))
  case wUnlock k r => exact Or.inl (C11_holder_enabled h (own k.side (by simp [Pc.holds])))
  case wRet k r => exact Or.inl ⟨.ret k.toKind r, rfl, by simp [step, hp]⟩
  case rCalled => exact viaLock .act (.mlk .act) rfl (by simp [Pc.holds]) (fun hf => by simp [step, hp, St.acquire, hf])
  case rLocked => exact Or.inl (C11_holder_enabled h (own .act (by simp [Pc.holds])))
  case rLoop => exact Or.inl (C11_holder_enabled h (own .act (by simp [Pc.holds])))
  case rRelease => exact Or.inl (C11_holder_enabled h (own .act (by simp [Pc.holds])))
  case rRelock => exact viaLock .act (.mlk .act) rfl (by simp [Pc.holds]) (fun hf => by simp [step, hp, St.acquire, hf])
  case rStore => exact Or.inl (C11_holder_enabled h (own .act (by simp [Pc.holds])))
  case rUnlock b => exact Or.inl (C11_holder_enabled h (own .act (by simp [Pc.holds])))
  case rRet => exact Or.inl ⟨.ret .reset true, rfl, by simp [step, hp]⟩
  case oCalled x => exact Or.inl ⟨.ld x .sc (s.flag x), rfl, by simp [step, hp]⟩
  case oRet x v => exact Or.inl ⟨.ret (obsKind x) v, rfl, by simp [step, hp]⟩
  case wSleep k =>
    by_cases hin : t ∈ s.ws k.side
    · by_cases htm : k.timed = true
      · -- a timed sleeper can always time out once the mutex is free
        exact viaLock k.side (.cwk k.side .timeout) rfl (by simp [Pc.holds])
          (fun hf => by simp [step, hp, hf, hin, htm])
      · by_cases hfl : s.flag k.side = true
        · -- the event has happened: by L1 the notifier is still at work, and it holds the mutex
          rcases hlost k.side (List.ne_nil_of_mem hin) with hx | ⟨u, hu⟩
          · simp [hfl] at hx
          · have hlu := C11_notifier_holds h hu
            refine Or.inr (Or.inl ⟨k.side, u, hlu, ?_, C11_holder_enabled h hlu⟩)
            intro hut; subst hut; simp [hp, Pc.notifying] at hu
        · exact Or.inr (Or.inr ⟨k, rfl, by simpa using htm, hin, by simpa using hfl⟩)
    · -- notified: only the mutex is needed
      exact viaLock k.side (.cwk k.side .notified) rfl (by simp [Pc.holds])
        (fun hf => by simp [step, hp, hf, hin])

/-! ## the proviso is necessary (documentation, not a finding)

Two overlapping `activate()` calls (threads 1 and 2 both read `activated = false`), thread 1 completes the
activation, thread 3 calls `wait()` and blocks, thread 4's `trigger()` succeeds and notifies — and then
thread 2's late clear step undoes it before thread 3 has re-acquired the mutex: thread 3 re-checks, finds
`triggered = false` and blocks again, with nobody left to trigger.  The trace is accepted by the model (it is
what the real code does under this schedule). -/
def provisoTrace : List (Tid × Ev) :=
  [(1, .call .activate), (1, .ld .act .sc false), (2, .call .activate), (2, .ld .act .sc false),
   (1, .mlk .trig), (1, .st .trig false), (1, .mul .trig), (1, .mlk .act), (1, .st .act true), (1, .cna .act),
   (1, .mul .act), (1, .ret .activate true),
   (3, .call .wait), (3, .ld .act .sc true), (3, .mlk .trig), (3, .ld .trig .sc false), (3, .ld .trig .sc false),
   (3, .cwt .trig),
   (4, .call .trigger), (4, .ld .act .sc true), (4, .mlk .trig), (4, .st .trig true), (4, .cna .trig),
   (4, .mul .trig), (4, .ret .trigger true),
   (2, .mlk .trig), (2, .st .trig false), (2, .mul .trig),
   (3, .cwk .trig .notified), (3, .ld .trig .sc false), (3, .cwt .trig),
   (2, .mlk .act), (2, .st .act true), (2, .cna .act), (2, .mul .act), (2, .ret .activate true)]

/-- without the proviso the wake-up clause is false: after a successful `trigger()` (set-triggered step 3)
that followed the activation thread 3 observed (clear step 1), thread 3 is back in `cv_trigger`'s wait set
with `triggered = false` and every other thread has returned. -/
theorem C11_proviso_needed : ∃ s, Reachable false s ∧
    s.hist = [.clear 0, .clear 1, .setActive 1, .setTrig 4, .clear 2, .setActive 2] ∧
    s.pc 3 = .wSleep .wait ∧ s.obs 3 = some 1 ∧ s.ws .trig = [3] ∧ s.flag .trig = false ∧
    s.pc 1 = .idle ∧ s.pc 2 = .idle ∧ s.pc 4 = .idle ∧ s.lock .trig = none ∧ s.lock .act = none :=
  ⟨_, ⟨provisoTrace, rfl⟩, by decide, by decide, by decide, by decide, by decide, by decide, by decide, by decide,
    by decide, by decide⟩

/-! ## non-vacuity: concrete accepted traces reaching the hypotheses of the theorems above -/

/-- constructed active; thread 1 waits and really sleeps, thread 2 triggers, thread 1 wakes and decides -/
def waitTrace : List (Tid × Ev) :=
  [(1, .call .wait), (1, .ld .act .sc true), (1, .mlk .trig), (1, .ld .trig .sc false), (1, .ld .trig .sc false),
   (1, .cwt .trig),
   (2, .call .trigger), (2, .ld .act .sc true), (2, .mlk .trig), (2, .st .trig true), (2, .cna .trig), (2, .mul .trig),
   (2, .ret .trigger true),
   (1, .cwk .trig .notified), (1, .ld .trig .sc true), (1, .mul .trig)]

/-- `C11_wait_observes`: the fast-path load sees the constructor's activation -/
example : ∃ s, Reachable true s ∧ s.pc 1 = .wCalled .wait ∧ (step s 1 (.ld .act .sc true)).isSome = true :=
  ⟨_, ⟨waitTrace.take 1, rfl⟩, by decide, by decide⟩
/-- `C11_thread_progress`, third case: an untimed sleeper whose event has not happened -/
example : ∃ s, Reachable true s ∧ s.pc 1 = .wSleep .wait ∧ s.ws .trig = [1] ∧ s.flag .trig = false :=
  ⟨_, ⟨waitTrace.take 6, rfl⟩, by decide, by decide, by decide⟩
/-- the window of `C11_no_lost_wakeup`: stored, not yet notified, the waiter still in the wait set -/
example : ∃ s, Reachable true s ∧ s.flag .trig = true ∧ s.ws .trig = [1] ∧ (s.pc 2).notifying .trig = true ∧
    s.lock .trig = some 2 :=
  ⟨_, ⟨waitTrace.take 10, rfl⟩, by decide, by decide, by decide, by decide⟩
/-- `C11_trigger_wakes` / `C11_trigger_true` / `C11_wait_bounded`: after the successful trigger (set-triggered
step 2, no clear after it) the sleeper is out of the wait set and only needs the mutex -/
example : ∃ s, Reachable true s ∧ s.hist = [.clear 0, .setActive 0] ++ HEv.setTrig 2 :: [] ∧ s.ws .trig = [] ∧
    s.pc 1 = .wSleep .wait ∧ s.pc 2 = .tRet true ∧ (step s 1 (.cwk .trig .notified)).isSome = true :=
  ⟨_, ⟨waitTrace.take 12, rfl⟩, by decide, by decide, by decide, by decide, by decide⟩
/-- `C11_wait_decided` -/
example : ∃ s, Reachable true s ∧ s.pc 1 = .wUnlock .wait true ∧ s.obs 1 = some 0 ∧ s.lock .trig = some 1 :=
  ⟨_, ⟨waitTrace.take 15, rfl⟩, by decide, by decide, by decide⟩
/-- `C11_wait`, `C11_wait_true` -/
example : ∃ s, Reachable true s ∧ s.obs 1 = some 0 ∧ (step s 1 (.ret .wait true)).isSome = true ∧
    s.hist[2]? = some (.setTrig 2) :=
  ⟨_, ⟨waitTrace, rfl⟩, by decide, by decide, by decide⟩

/-- constructed inactive; thread 1 waits for the activation and sleeps, thread 2 activates -/
def actTrace : List (Tid × Ev) :=
  [(1, .call .waitAct), (1, .mlk .act), (1, .ld .act .sc false), (1, .ld .act .sc false), (1, .cwt .act),
   (2, .call .activate), (2, .ld .act .sc false), (2, .mlk .trig), (2, .st .trig false), (2, .mul .trig),
   (2, .mlk .act), (2, .st .act true), (2, .cna .act), (2, .mul .act), (2, .ret .activate true),
   (1, .cwk .act .notified), (1, .ld .act .sc true), (1, .mul .act)]

/-- `C11_activate_wakes` -/
example : ∃ s, Reachable false s ∧ s.hist = [.clear 0, .clear 2] ++ HEv.setActive 2 :: [] ∧ s.ws .act = [] ∧
    s.pc 1 = .wSleep .waitAct :=
  ⟨_, ⟨actTrace.take 14, rfl⟩, by decide, by decide, by decide⟩
/-- `C11_waitActivation_decided` -/
example : ∃ s, Reachable false s ∧ s.pc 1 = .wUnlock .waitAct true ∧ s.flag .act = true :=
  ⟨_, ⟨actTrace.take 17, rfl⟩, by decide, by decide⟩
/-- `C11_waitActivation` -/
example : ∃ s, Reachable false s ∧ (step s 1 (.ret .waitAct true)).isSome = true :=
  ⟨_, ⟨actTrace, rfl⟩, by decide⟩

/-- constructed active, nobody triggers: `wait_for` times out and returns false -/
def timedTrace : List (Tid × Ev) :=
  [(1, .call .waitFor), (1, .ld .act .sc true), (1, .mlk .trig), (1, .ld .trig .sc false), (1, .ld .trig .sc false),
   (1, .cwt .trig), (1, .cwk .trig .timeout), (1, .ld .trig .sc false), (1, .mul .trig)]

/-- `C11_timeout_sees_false` -/
example : ∃ s, Reachable true s ∧ s.pc 1 = .wTimedOut .waitFor :=
  ⟨_, ⟨timedTrace.take 7, rfl⟩, by decide⟩
/-- `C11_timed_false`, `C11_timed_false_decided` -/
example : ∃ s, Reachable true s ∧ s.pc 1 = .wUnlock .waitFor false :=
  ⟨_, ⟨timedTrace.take 8, rfl⟩, by decide⟩
/-- `C11_timed_false_ret` -/
example : ∃ s, Reachable true s ∧ s.pc 1 = .wRet .waitFor false ∧ (step s 1 (.ret .waitFor false)).isSome = true :=
  ⟨_, ⟨timedTrace, rfl⟩, by decide, by decide⟩

/-- constructed active; `wait_for` sleeps, `trigger()` succeeds, the waiter wakes *late* (notified, but the wait
reports a time-out) and its deciding load still sees the event -/
def lateTrace : List (Tid × Ev) :=
  [(1, .call .waitFor), (1, .ld .act .sc true), (1, .mlk .trig), (1, .ld .trig .sc false), (1, .ld .trig .sc false),
   (1, .cwt .trig),
   (2, .call .trigger), (2, .ld .act .sc true), (2, .mlk .trig), (2, .st .trig true), (2, .cna .trig), (2, .mul .trig),
   (2, .ret .trigger true),
   (1, .cwk .trig .late), (1, .ld .trig .sc true), (1, .mul .trig)]

/-- `C11_late_decides` -/
example : ∃ s, Reachable true s ∧ s.pc 1 = .wLate .waitFor ∧ s.flag .trig = true ∧
    (step s 1 (.ld .trig .sc true)).isSome = true :=
  ⟨_, ⟨lateTrace.take 14, rfl⟩, by decide, by decide, by decide⟩
example : ∃ s, Reachable true s ∧ (step s 1 (.ret .waitFor true)).isSome = true :=
  ⟨_, ⟨lateTrace, rfl⟩, by decide⟩

/-- `C11_inactive_trigger`, `C11_trigger_false` -/
example : ∃ s, Reachable false s ∧ s.pc 1 = .tCalled .top ∧ s.flag .act = false ∧
    (step s 1 (.ld .act .sc false)).isSome = true :=
  ⟨_, ⟨[(1, .call .trigger)], rfl⟩, by decide, by decide, by decide⟩

/-- constructed active and untriggered: `reset()` goes round its loop once (nested `trigger()`), then deactivates -/
def resetTrace : List (Tid × Ev) :=
  [(1, .call .reset), (1, .mlk .act), (1, .ld .act .sc true), (1, .ld .trig .acq false), (1, .mul .act),
   (1, .ld .act .sc true), (1, .mlk .trig), (1, .st .trig true), (1, .cna .trig), (1, .mul .trig),
   (1, .mlk .act), (1, .ld .trig .acq true), (1, .st .act false), (1, .mul .act), (1, .ret .reset true)]

/-- `C11_reset_saw_trigger` -/
example : ∃ s, Reachable true s ∧ s.pc 1 = .rLoop ∧ (step s 1 (.ld .trig .acq true)).isSome = true :=
  ⟨_, ⟨resetTrace.take 11, rfl⟩, by decide, by decide⟩
/-- `C11_reset_forces_trigger` -/
example : ∃ s, Reachable true s ∧ s.pc 1 = .rStore :=
  ⟨_, ⟨resetTrace.take 12, rfl⟩, by decide⟩
/-- `C11_reset`, `C11_holder_enabled` -/
example : ∃ s, Reachable true s ∧ s.pc 1 = .rUnlock true ∧ s.lock .act = some 1 :=
  ⟨_, ⟨resetTrace.take 13, rfl⟩, by decide, by decide⟩
/-- `C11_reset_hist` -/
example : ∃ s, Reachable true s ∧ s.hist = [.clear 0, .setActive 0, .setTrig 1] ++ HEv.setInactive 1 :: [] ∧
    s.flag .act = false ∧ s.flag .trig = true :=
  ⟨_, ⟨resetTrace, rfl⟩, by decide, by decide, by decide⟩

/-! ## Liveness under the proviso: while the variable stays armed and fired every waiter returns — for every scheduler

`stepP` (Proof/TriggerLive.lean) is `step` without the clear step of `activate()` and the set-inactive step of
`reset()`: the executions in which "the variable is not re-activated (nor reset) while they are still
blocked".  From a reachable state with `activated = triggered = true`:
* `C11_armed_progress` (deadlock-freedom): if some thread is inside a call and no thread stands right
  before one of the two excluded steps, some thread has an enabled non-`call` step;
* `C11_armed_terminates` (no livelock, Base/Live.lean): such an execution that makes no further `call`
  cannot be infinite — the summed rank of the threads strictly decreases with every step, spurious
  wake-ups and time-outs included; `C11_armed_bounded_run` is the quantitative form.
Hence every maximal proviso-respecting execution with finitely many calls ends with every thread returned
(`C11_armed_stuck_all_returned`).  No fairness is assumed.  What is NOT covered, and is not true of the code:
termination without the proviso (`C11_proviso_needed`; and `reset()`'s loop spins for as long as an
`activate()` that has cleared `triggered` is kept from setting `activated`). -/

/-- deadlock-freedom while armed and fired: if some thread is inside a call, some thread can take a
non-`call` step that respects the proviso -/
theorem C11_armed_progress {a : Bool} {s : St} (h : Reachable a s) (hfa : s.flag .act = true)
    (hft : s.flag .trig = true) (hno : ∀ u, s.pc u ≠ .aClear ∧ s.pc u ≠ .rStore)
    {t : Tid} (ht : s.pc t ≠ .idle) : ∃ u e, isCall e = false ∧ (stepP s u e).isSome = true := by
  have same : ∀ u e, stepP s u e = step s u e := by
    intro u e; unfold stepP; split
    · rename_i hx; exact absurd hx (hno u).1
    · rename_i hx; exact absurd hx (hno u).2
    · rfl
  have noncall : ∀ u e, s.pc u ≠ .idle → (step s u e).isSome = true → isCall e = false := by
    intro u e hu he
    cases hc : isCall e with
    | false => rfl
    | true => exact absurd (call_only_idle hc he) hu
  rcases C11_thread_progress h ht with ⟨e, _, he⟩ | ⟨m, u, hl, _, e, _, he⟩ | ⟨k, _, _, _, hf⟩
  · exact ⟨t, e, noncall t e ht he, by rw [same]; exact he⟩
  · have hne : s.pc u ≠ .idle := by
      intro hid
      have := ((inv_reachable h).l.holder m u).2 hl
      simp [hid, Pc.holds] at this
    exact ⟨u, e, noncall u e hne he, by rw [same]; exact he⟩
  · cases hk : k.side <;> simp [hk, hfa, hft] at hf

/-- no livelock while armed and fired: a proviso-respecting execution whose state at step `N` is reachable
with both flags true and which makes no `call` from `N` on (threads drawn from any finite list `ts`) cannot
be infinite -/
theorem C11_armed_terminates {a : Bool} (x : Live.Exec stepP) (N : Nat)
    (hr : Reachable a (x.σ N)) (hfa : (x.σ N).flag .act = true) (hft : (x.σ N).flag .trig = true)
    (ts : List Tid) (hnd : ts.Nodup) (hts : ∀ n, N ≤ n → x.who n ∈ ts)
    (hnc : ∀ n, N ≤ n → isCall (x.ev n) = false) : False :=
  Live.no_infinite_run ranked ts hnd x N ⟨inv_reachable hr, hfa, hft⟩ hts hnc

/-- quantitative form: from a reachable armed-and-fired state, a proviso-respecting trace with `c` calls has
at most `(total rank) + 7·c` steps -/
theorem C11_armed_bounded_run {a : Bool} {s s' : St} (hr : Reachable a s) (hfa : s.flag .act = true)
    (hft : s.flag .trig = true) (ts : List Tid) (hnd : ts.Nodup) {es : List (Tid × Ev)}
    (hts : ∀ y ∈ es, y.1 ∈ ts) (hrun : runFrom stepP s es = some s') :
    es.length + Live.total μ ts s' ≤ Live.total μ ts s + 7 * Live.calls isCall es :=
  Live.bounded_run ranked ts hnd ⟨inv_reachable hr, hfa, hft⟩ hts hrun

/-- a reachable armed-and-fired state in which no non-`call` step is enabled (and nobody stands before a
re-arming step) has every thread returned -/
theorem C11_armed_stuck_all_returned {a : Bool} {s : St} (h : Reachable a s) (hfa : s.flag .act = true)
    (hft : s.flag .trig = true) (hno : ∀ u, s.pc u ≠ .aClear ∧ s.pc u ≠ .rStore)
    (hstuck : ∀ u e, isCall e = false → (stepP s u e).isSome = false) (t : Tid) : s.pc t = .idle := by
  apply Classical.byContradiction
  intro ht
  obtain ⟨u, e, hc, he⟩ := C11_armed_progress h hfa hft hno ht
  rw [hstuck u e hc] at he
  contradiction

/-- non-vacuity: right after the successful `trigger()` of `waitTrace` the state is armed and fired, nobody
stands before a re-arming step, thread 1 still sleeps, and the proviso-respecting step that wakes it is enabled -/
example : ∃ s, Reachable true s ∧ s.flag .act = true ∧ s.flag .trig = true ∧ s.pc 1 = .wSleep .wait ∧
    s.pc 2 = .tRet true ∧ (stepP s 1 (.cwk .trig .notified)).isSome = true ∧ μ s 1 = 5 :=
  ⟨_, ⟨waitTrace.take 12, rfl⟩, by decide, by decide, by decide, by decide, by decide, by decide⟩

end ConcVerif.Trigger
