import ConcVerif.Proof.HBSOH
/-! # C07 for `SearchableObjectHolder` — the two maps, at the level of the model

For EVERY trace accepted by the SearchableObjectHolder model `SOH.step` (the same `step` the observed
traces of `SearchableObjectHolder.hpp` are checked against; any number of threads, any client program
and interleaving, predicate forms, exceptions and the destructor's retry rounds included), mapped to
happens-before events by `SOH.toHB`:

* `mlk` / `mul`  ↦  exclusive acquire / release of mutex 0 (`mapLock`);
* `mac` (a plain access to the header of `objectMap` or of `typeMap`, seen by the plain-access tap)
  ↦  a WRITE of the single plain location 0 — the strongest reading: the model has one event for
  both maps and does not tell reads from writes, so ANY two map accesses count as conflicting;
* everything else (`call`, `ret`, `pcl`, `uth`, `exc`, `rel`, `pdt`, `callD`, `retD`, `yld`, `slp`)  ↦  `nop`.

What is proved.
(a) The mapped trace is consistent with mutex semantics and the happens-before layer's "holds mutex 0"
    is exactly the model's `lock` field (`C07_soh_mutex`).
(b) While the holder exists (`gone = false`) every map access is made holding `mapLock` exclusively:
    the lockset discipline (`C07_soh_lockset_alive`).
(c) The destructor is the one legitimate exception.  The model accepts `mac` from a thread at `dDone`,
    i.e. after the destructor's FINAL `mul` (the members are destroyed without the lock).  What the model
    assumes about that phase is exactly what its `step` enforces and nothing else: no `call` / `callD` /
    `mlk` of a method is accepted once `gone` is set.  What is proved about it (`C07_soh_destructor`,
    `C07_soh_access`): the final release is a unique position `p` of the trace; every access before `p`
    is under the lock; after `p` NO thread ever locks or unlocks `mapLock`, nobody holds it, and the only
    thread that touches the maps is the destructor's own thread.  So the late accesses are NOT protected
    by a lock — the lockset discipline is false for them (see the `example` at the end) — they are
    protected by happens-before alone: `earlier access → unlock → … → lock (destructor) → final unlock
    (destructor) → late access`  (`C07_soh_destructor_ordered`).
(d) Hence any two map accesses of an accepted trace are happens-before ordered (`C07_soh_maps`), no
    accepted trace has a data race (`C07_soh_no_race`) and the executable checker accepts the mapped
    trace (`C07_soh_accepted`).  Nothing here is partial: (d) is full data-race freedom of the maps.

Not part of this file: the payload objects themselves (`shared_ptr<X>` targets handed to callers) —
they are the client's; the model only tracks their reference ledger (C17). -/
namespace ConcVerif.SOH

/-- **Mutex consistency.**  The mapped trace of every accepted trace respects the semantics of
`mapLock` (a lock is taken only when free, a release releases what is held), and after the trace a
thread holds mutex 0 in the happens-before layer exactly if the model's `lock` field names it. -/
theorem C07_soh_mutex {es : List (Tid × Ev)} {s : St} (h : run es = some s) :
    HB.MutexOK (hbTrace es) ∧ ∀ u, HB.held (hbTrace es) u 0 = if s.lock = some u then some .X else none :=
  ⟨(soh_sim h).M, (soh_sim h).H⟩

/-- **Lockset while the holder exists.**  In every accepted trace that has not reached the destructor's
final release, every plain access to the two maps is made while the accessing thread holds `mapLock`
exclusively — during the destructor's waiting rounds too. -/
theorem C07_soh_lockset_alive {es : List (Tid × Ev)} {s : St} (h : run es = some s) (hg : s.gone = false) :
    HB.MutexOK (hbTrace es) ∧ HB.LockSet (hbTrace es) 0 0 :=
  ⟨(soh_sim h).M, (soh_sim h).L hg⟩

/-- **Every map access, position by position.**  In every accepted trace, a map access at position `n`
by thread `t` is made holding `mapLock` exclusively — or `t` is the destructor's thread, it made the
destructor's final release at an earlier position `p`, since `p` nobody has locked or unlocked
`mapLock` nor has any other thread touched the maps, and at `n` the lock is held by nobody. -/
theorem C07_soh_access {es : List (Tid × Ev)} {s : St} (h : run es = some s) {n : Nat} {t : Tid}
    (hn : es[n]? = some (t, .mac)) :
    HB.held ((hbTrace es).take n) t 0 = some .X ∨
    ∃ p, p < n ∧ FinalAt es p t ∧ Quiet es p t ∧ ∀ v, HB.held ((hbTrace es).take n) v 0 = none := by
  have hsim := soh_sim h
  cases hg : s.gone with
  | false => exact .inl (lockedAt_mac hn (hsim.L hg n (by simp; exact HB.lq_lt hn)))
  | true =>
    obtain ⟨p, d, haf, _⟩ := hsim.F hg
    rcases haf.access hn with ⟨_, h1⟩ | ⟨h1, h2, h3⟩
    · exact .inl h1
    · subst h2; exact .inr ⟨p, h1, haf.fin, haf.quiet, h3⟩

/-- **The destructor's teardown.**  In every accepted trace that has reached the destructor's final
release: that release is a position `p` of the trace, made by a thread `d`, and it is the only one;
every map access before `p` is made under `mapLock`; after `p` no `mlk` / `mul` occurs and every map
access is `d`'s; at every later point nobody holds `mapLock`; and a thread that is past the final
release (`dDone`, the only state besides "holds the lock" from which `mac` is accepted) is `d`. -/
theorem C07_soh_destructor {es : List (Tid × Ev)} {s : St} (h : run es = some s) (hg : s.gone = true) :
    ∃ p d, FinalAt es p d ∧ (∀ p' d', FinalAt es p' d' → p' = p ∧ d' = d) ∧
      (∀ n u, n < p → es[n]? = some (u, .mac) → HB.held ((hbTrace es).take n) u 0 = some .X) ∧
      Quiet es p d ∧
      (∀ n, p < n → n ≤ es.length → ∀ u, HB.held ((hbTrace es).take n) u 0 = none) ∧
      (∀ u, s.pc u = .dDone → u = d) := by
  obtain ⟨p, d, haf, hone⟩ := (soh_sim h).F hg
  exact ⟨p, d, haf.fin, fun p' d' h' => haf.unique h', fun n u hn hget => lockedAt_mac hget (haf.before n hn),
    haf.quiet, haf.free, hone⟩

/-- **The late accesses are ordered, not locked.**  In every accepted trace, if `p` is the destructor's
final release and `j > p` a map access (necessarily the destructor's, made without the lock), then every
earlier map access `i` — by any thread, under the lock or itself late — happens-before `j`. -/
theorem C07_soh_destructor_ordered {es : List (Tid × Ev)} {s : St} (h : run es = some s) {p i j : Nat} {d t u : Tid}
    (_hp : FinalAt es p d) (_hpj : p < j) (hij : i < j) (hi : es[i]? = some (t, .mac)) (hj : es[j]? = some (u, .mac)) :
    HB.HB (hbTrace es) i j :=
  soh_hb h hij ⟨t, u, _, _, hbTrace_get hi, hbTrace_get hj, .inr rfl, .inr rfl, .inl rfl⟩

/-- **The maps.**  In every trace accepted by the SearchableObjectHolder model, each plain access to
`objectMap` / `typeMap` happens after every earlier one — even when all of them are counted as
conflicting writes of one location, and including the destructor's accesses after its final release. -/
theorem C07_soh_maps {es : List (Tid × Ev)} {s : St} (h : run es = some s) {i j : Nat} (hij : i < j)
    (hc : HB.ConflictOn (hbTrace es) 0 i j) : HB.HB (hbTrace es) i j :=
  soh_hb h hij hc

/-- … so no accepted trace contains a data race (location 0 is the only plain location of the mapping) … -/
theorem C07_soh_no_race {es : List (Tid × Ev)} {s : St} (h : run es = some s) : ¬ HB.Race (hbTrace es) :=
  soh_no_race h

/-- … and the executable race checker accepts every trace the model accepts: a REJECT of the `hb` driver
on a SearchableObjectHolder trace can only come with a rejection by the model. -/
theorem C07_soh_accepted {es : List (Tid × Ev)} {s : St} (h : run es = some s) : HB.raceFree (hbTrace es) = true :=
  HB.raceFree_complete (soh_no_race h)

/-! ### Non-vacuity -/

/-- thread 1 adds object 1 under name 0; thread 0 enters the destructor, finds the map non-empty,
releases and yields; meanwhile thread 2 removes name 0 (a critical section INSIDE the destructor's
wait); thread 0 re-locks, finds the map empty, makes its final release at position 17 and then touches
the maps once more at position 18 — without the lock -/
def hbWitness : List (Tid × Ev) :=
  [(1, .call (.add 0 1)), (1, .mlk), (1, .mac), (1, .mul), (1, .ret (.bool true)),
   (0, .callD), (0, .mlk), (0, .mac), (0, .mul), (0, .yld),
   (2, .call (.rm 0)), (2, .mlk), (2, .mac), (2, .mul), (2, .ret (.bool true)),
   (0, .mlk), (0, .mac), (0, .mul), (0, .mac), (0, .retD)]

/-- the trace is accepted; the accesses at 2 / 12 (threads 1 / 2, both locked), 12 / 16 (thread 2 /
destructor, both locked) and 12 / 18 (thread 2 locked / destructor UNLOCKED) conflict -/
example : ∃ s, run hbWitness = some s ∧ s.gone = true ∧ HB.ConflictOn (hbTrace hbWitness) 0 2 12 ∧
    HB.ConflictOn (hbTrace hbWitness) 0 12 16 ∧ HB.ConflictOn (hbTrace hbWitness) 0 12 18 :=
  ⟨_, rfl, rfl, ⟨1, 2, _, _, rfl, rfl, .inr rfl, .inr rfl, .inl rfl⟩, ⟨2, 0, _, _, rfl, rfl, .inr rfl, .inr rfl, .inl rfl⟩,
    ⟨2, 0, _, _, rfl, rfl, .inr rfl, .inr rfl, .inl rfl⟩⟩

/-- position 17 is the destructor's final release (second round, object map empty) -/
example : FinalAt hbWitness 17 0 := ⟨_, 1, rfl, rfl, .inl rfl, rfl⟩

/-- the theorem applies: the locked access of thread 2 happens-before the destructor's unlocked one -/
example : HB.HB (hbTrace hbWitness) 12 18 :=
  C07_soh_maps (s := _) (es := hbWitness) rfl (by decide) ⟨2, 0, _, _, rfl, rfl, .inr rfl, .inr rfl, .inl rfl⟩

/-- the same derivation by hand: `mac` (2) → `mul` (2) → `mlk` (0) → … → `mac` (0) -/
example : HB.HB (hbTrace hbWitness) 12 18 :=
  .trans (j := 13) (.po (t := 2) (by decide) rfl rfl)
    (.trans (j := 15) (.sw (.mutex (t := 2) (u := 0) (m := 0) (md := .X) (md' := .X) (by decide) rfl rfl (.inl rfl)))
      (.po (t := 0) (by decide) rfl rfl))

/-- the position-wise theorem on the late access: it is NOT under the lock, so it is the second case -/
example : ∃ p, p < 18 ∧ FinalAt hbWitness p 0 ∧ Quiet hbWitness p 0 ∧
    ∀ v, HB.held ((hbTrace hbWitness).take 18) v 0 = none := by
  rcases C07_soh_access (s := _) (es := hbWitness) (n := 18) (t := 0) rfl rfl with h | h
  · have : HB.held ((hbTrace hbWitness).take 18) 0 0 = none := by decide
    rw [this] at h; cases h
  · exact h

/-- … and on a locked access: the first case -/
example : HB.held ((hbTrace hbWitness).take 12) 2 0 = some .X := by decide

/-- the lockset discipline is FALSE for the whole trace (position 18), true up to the final release —
the destructor's late accesses are ordered by happens-before, not by a lock -/
example : ¬ HB.LockSet (hbTrace hbWitness) 0 0 ∧ HB.LockSet (hbTrace (hbWitness.take 18)) 0 0 ∧
    HB.MutexOK (hbTrace hbWitness) := by
  refine ⟨by decide, by decide, by decide⟩

/-- the checker accepts the mapped trace -/
example : HB.raceFree (hbTrace hbWitness) = true := by decide

/-- … which is an instance of the theorem -/
example : HB.raceFree (hbTrace hbWitness) = true := C07_soh_accepted (s := _) (es := hbWitness) rfl

/-- what the model rejects (so what the theorems rely on): a map access without the lock, … -/
example : run [(1, .call (.add 0 1)), (1, .mlk), (1, .mac), (2, .call (.find 0)), (2, .mac)] = none ∧
    HB.raceFree (hbTrace [(1, .call (.add 0 1)), (1, .mlk), (1, .mac), (2, .call (.find 0)), (2, .mac)]) = false :=
  ⟨rfl, by decide⟩

/-- … a map access after the critical section, … -/
example : run [(1, .call (.add 0 1)), (1, .mlk), (1, .mac), (1, .mul), (1, .mac)] = none := rfl

/-- … and, after the destructor's final release: a map access by another thread, a new call, a
second destructor -/
example : run (hbWitness.take 18 ++ [(2, .mac)]) = none ∧ run (hbWitness.take 18 ++ [(2, .call .get)]) = none ∧
    run (hbWitness.take 18 ++ [(2, .callD)]) = none ∧
    HB.raceFree (hbTrace (hbWitness.take 18 ++ [(2, .mac)])) = false :=
  ⟨rfl, rfl, rfl, by decide⟩

/-- a method that was already inside (`called`, before `mlk`) when the destructor made its final
release can never lock: the model rejects the use-after-destruction instead of calling it race free -/
example : run [(0, .callD), (2, .call .get), (0, .mlk), (0, .mul), (2, .mlk)] = none ∧
    (run [(0, .callD), (2, .call .get), (0, .mlk), (0, .mul)]).isSome = true :=
  ⟨rfl, rfl⟩

end ConcVerif.SOH
