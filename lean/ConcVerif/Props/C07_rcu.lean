import ConcVerif.Proof.HBRcuMain3
import ConcVerif.Proof.HBComplete
/-! # C07 for `rcu_list` / `rcu_guarded` — publication and reclamation are ordered by happens-before, at the level of the model

For EVERY trace accepted by the rcu_list model `Rcu.step` (any number of reader / writer handles, any client program,
any interleaving of primitive steps; the same `step` the observed traces of the real `rcu_list.hpp` are checked
against by the `rcu` component) that has not entered the list destructor (`s.dt = false`; the destructor is ordered
after every other use by the client, as for any object), mapped to happens-before events by `Rcu.toHB` (the atomics
`m_head m_tail m_zombie_head`, `next back` of every node, `next owner` of every log record with their memory orders,
the write mutex, the plain fields `data deleted zombie_node`, construction / destruction / deallocation as plain
writes):

* (a) **publication of nodes** — every access to a list node (atomic or plain, by a reader's iterator, a writer, a
  reclaimer) happens-after the plain initialisation of the node (`deleted`, `data`, the non-atomic initial values of
  its links).  Edges: the write mutex between writers; `m_head.store / next.store → load` that reads it for readers.
* (b) **publication of log records** — every access to a zombie / reader record happens-after its plain initialisation
  (`zombie_node`, initial `owner`, `next`) and after the CAS that pushed it.  Edge: every successful CAS on
  `m_zombie_head` synchronises with every later one (the location is only ever written by RMWs, so its release
  sequences are never broken); a thread only accesses records that were pushed before its own.  The relaxed load of
  `m_zombie_head` and the relaxed store of the new record's `next` before the CAS carry no obligation.
* (c) **reclamation** — the destruction and the deallocation of a node / of a record by a handle release happen-after
  EVERY earlier access to it by any thread.  Edge: `owner.store(nullptr)` (release) → the reclaimer's load of that
  `owner` (acquire) — the happens-before content of the grace period (C05): an access is *covered* by the open
  section of a thread for which the object is protected (`Safe`, layer E of the C05 invariant), then by the store
  that closed that section while its record stays on the log, then by the reclaimer that scanned that record.
* (d) **necessity** — for each of the four orders the proof uses on the reader path, a concrete accepted trace that
  has a data race when that one order is relaxed; for the CAS a trace in which a scanner's atomic load of `owner`
  is no longer ordered after the record's construction.

The theorems are stated for an arbitrary assignment `o : Ords` of memory orders to the operations the model requires
to be `seq_cst`, satisfying `o.OK` (stores of links and of `owner` release, their loads acquire, the CAS acq_rel);
today's code is `Ords.sc`.  `sel` chooses the plain field a whole-node event (construction, destruction,
deallocation) is shown at (`data` / `deleted`); every statement holds for both. -/
namespace ConcVerif.Rcu

/-- acquire / release on the six operations of `Ords.OK`, relaxed everywhere else -/
def Ords.weakest : Ords :=
  { ldLink := .acq, stLink := .rel, cas := .ar, casFail := .rlx, ldZh := .rlx, ldRNext := .rlx, stRNext := .rlx,
    ldOwner := .acq, stOwner := .rel }

theorem Ords.weakest_ok : Ords.weakest.OK := ⟨rfl, rfl, rfl, rfl, rfl, rfl⟩

/-- **(a) Publication of nodes.**  Every access `ej` to node `n` (its `next`, `back`, `deleted`, `data`; by any
thread) happens-after every event `ei` of the initialisation of `n` (`initN`: the constructor and its plain stores). -/
theorem C07_rcu_node_publication {o : Ords} (ho : o.OK) (sel : Bool) {es : List (Tid × Ev)} {s : St} (h : run es = some s)
    (hdt : s.dt = false) {i j : Nat} {u t : Tid} {ei ej : Ev} {n : Nat} (hij : i < j) (hi : es[i]? = some (u, ei))
    (hj : es[j]? = some (t, ej)) (hinit : ei.initN = some n) (hacc : ej.nodeAcc = some n) :
    HB.HB (hbTrace o sel es) i j :=
  node_pub ho h hdt hij hi hj hinit hacc

/-- **(b) Publication of log records.**  Every access `ej` to record `m` (its `next`, `owner`, `zombie_node`) happens-after
every event `ei` of its publication (`initR`: the constructor, its plain store, the CAS that pushed it). -/
theorem C07_rcu_record_publication {o : Ords} (ho : o.OK) (sel : Bool) {es : List (Tid × Ev)} {s : St} (h : run es = some s)
    (hdt : s.dt = false) {i j : Nat} {u t : Tid} {ei ej : Ev} {m : Nat} (hij : i < j) (hi : es[i]? = some (u, ei))
    (hj : es[j]? = some (t, ej)) (hinit : ei.initR = some m) (hacc : ej.recAcc = some m) :
    HB.HB (hbTrace o sel es) i j :=
  rec_pub ho h hdt hij hi hj hinit hacc

/-- **(c) Reclamation of nodes.**  The destruction / deallocation `ej` of node `d` (`des N d`, `fre N d`) happens-after
every earlier access `ei` to `d` — construction, reader dereference, traversal loads, writer stores. -/
theorem C07_rcu_node_reclamation {o : Ords} (ho : o.OK) (sel : Bool) {es : List (Tid × Ev)} {s : St} (h : run es = some s)
    (hdt : s.dt = false) {i j : Nat} {u t : Tid} {ei ej : Ev} {d : Nat} (hij : i < j) (hi : es[i]? = some (u, ei))
    (hj : es[j]? = some (t, ej)) (hacc : ei.nodeAcc = some d) (hend : ej.nodeEnd = some d) :
    HB.HB (hbTrace o sel es) i j :=
  node_reclaim ho h hdt hij hi hj hacc hend

/-- … in particular a reader's plain read of `data` is ordered before the destructor of the element. -/
theorem C07_rcu_reader_before_destroy {es : List (Tid × Ev)} {s : St} (h : run es = some s) (hdt : s.dt = false)
    {i j : Nat} {r t : Tid} {d : Nat} {v : Int} (hij : i < j) (hi : es[i]? = some (r, .pldData d v))
    (hj : es[j]? = some (t, .des false d)) : HB.HB (hbTrace .sc true es) i j :=
  node_reclaim Ords.sc_ok h hdt hij hi hj rfl rfl

/-- **(c) Reclamation of log records.**  The destruction / deallocation `ej` of record `m` happens-after every earlier
access `ei` to `m` — construction, the owner's own loads and stores, the scans of other releasing threads. -/
theorem C07_rcu_record_reclamation {o : Ords} (ho : o.OK) (sel : Bool) {es : List (Tid × Ev)} {s : St} (h : run es = some s)
    (hdt : s.dt = false) {i j : Nat} {u t : Tid} {ei ej : Ev} {m : Nat} (hij : i < j) (hi : es[i]? = some (u, ei))
    (hj : es[j]? = some (t, ej)) (hacc : ei.recAcc = some m) (hend : ej.recEnd = some m) :
    HB.HB (hbTrace o sel es) i j :=
  rec_reclaim ho h hdt hij hi hj hacc hend

/-- acquire / release on the six operations and relaxed everywhere else is enough for (a)–(c) (NOT for the
interleaving the model describes, which the operational abstraction of `Base/HB.lean` takes as given) -/
theorem C07_rcu_weakest_orders (sel : Bool) {es : List (Tid × Ev)} {s : St} (h : run es = some s) (hdt : s.dt = false)
    {i j : Nat} {u t : Tid} {ei ej : Ev} {d : Nat} (hij : i < j) (hi : es[i]? = some (u, ei))
    (hj : es[j]? = some (t, ej)) (hacc : ei.nodeAcc = some d) (hend : ej.nodeEnd = some d) :
    HB.HB (hbTrace Ords.weakest sel es) i j :=
  node_reclaim Ords.weakest_ok h hdt hij hi hj hacc hend

/-! ## non-vacuity and necessity of the orders -/

/-- writer 1 pushes element N0; reader 2 parks on it and reads it; writer 1 erases it (zombie record Z2); both release
(neither can reclaim: the other's record is below its own / nothing is below); handle 3 registers and releases: it scans
Z2, Z1, Z0 (all inactive), destroys and frees N0 and the three records -/
def hbWitness : List (Tid × Ev) :=
  [(1, .call (.lock true)), (1, .ret (.lock true)), (1, .call (.push false false 5)),
   (1, .alo true 0), (1, .pstZn 0 true), (1, .conR 0 (some 1) none), (1, .ald .zhead .rlx none), (1, .ast (.rnext 0) .rlx none),
   (1, .cas .sc none (some 0) true none),
   (1, .mlk), (1, .alo false 0), (1, .pstDel 0 false), (1, .pstData 0 5), (1, .conN 0 5), (1, .ald .tail .rlx none),
   (1, .ast .head .sc (some 0)), (1, .ast .tail .sc (some 0)), (1, .mul), (1, .ret (.push false false 5)),
   (2, .call (.lock false)), (2, .ret (.lock false)), (2, .call .beg), (2, .alo true 1), (2, .pstZn 1 true),
   (2, .conR 1 (some 2) none), (2, .ald .zhead .rlx (some 0)), (2, .ast (.rnext 1) .rlx (some 0)),
   (2, .cas .sc (some 0) (some 1) true (some 0)), (2, .ald .head .sc (some 0)), (2, .ret .beg),
   (2, .call .der), (2, .pldData 0 5), (2, .ret .der),
   (1, .call .beg), (1, .ald .head .sc (some 0)), (1, .ret .beg), (1, .call (.erase true)), (1, .mlk),
   (1, .ald (.nnext 0) .sc none), (1, .pldDel 0 false), (1, .alo true 2), (1, .pstZn 2 false), (1, .conR 2 none (some 0)),
   (1, .pstDel 0 true), (1, .ald (.nback 0) .sc none),
   (1, .ald (.nnext 0) .sc none), (1, .ast .head .sc none), (1, .ast .tail .sc none), (1, .ald .zhead .rlx (some 1)),
   (1, .ast (.rnext 2) .rlx (some 1)), (1, .cas .sc (some 1) (some 2) true (some 1)), (1, .mul), (1, .ret (.erase true)),
   (2, .call .rel), (2, .ald (.rnext 1) .sc (some 0)), (2, .ald (.rowner 0) .sc (some 1)), (2, .ast (.rowner 1) .sc none), (2, .ret .rel),
   (1, .call .rel), (1, .ald (.rnext 0) .sc none), (1, .ast (.rnext 0) .sc none), (1, .ast (.rowner 0) .sc none), (1, .ret .rel),
   (3, .call (.lock false)), (3, .ret (.lock false)), (3, .call .beg), (3, .alo true 3), (3, .pstZn 3 true),
   (3, .conR 3 (some 3) none), (3, .ald .zhead .rlx (some 2)), (3, .ast (.rnext 3) .rlx (some 2)),
   (3, .cas .sc (some 2) (some 3) true (some 2)), (3, .ald .head .sc none), (3, .ret .beg),
   (3, .call .rel), (3, .ald (.rnext 3) .sc (some 2)), (3, .ald (.rowner 2) .sc none), (3, .ald (.rnext 2) .sc (some 1)),
   (3, .ald (.rowner 1) .sc none), (3, .ald (.rnext 1) .sc (some 0)), (3, .ald (.rowner 0) .sc none), (3, .ald (.rnext 0) .sc none),
   (3, .pldZn 2 false), (3, .des false 0), (3, .fre false 0), (3, .ald (.rnext 2) .sc (some 1)), (3, .des true 2), (3, .fre true 2),
   (3, .pldZn 1 true), (3, .ald (.rnext 1) .sc (some 0)), (3, .des true 1), (3, .fre true 1),
   (3, .pldZn 0 true), (3, .ald (.rnext 0) .sc none), (3, .des true 0), (3, .fre true 0),
   (3, .ast (.rnext 3) .sc none), (3, .ast (.rowner 3) .sc none), (3, .ret .rel)]

/-- the trace is accepted, the destructor has not started, and it contains: the construction of N0 by thread 1 (13) and
its read by thread 2 (31); that read and the destruction of N0 by thread 3 (83); the construction of Z2 by thread 1 (42)
and its plain read by thread 3 (82); thread 2's store to `owner` of Z1 (56) and the destruction of Z1 by thread 3 (90) -/
example : ∃ s, run hbWitness = some s ∧ s.dt = false ∧
    hbWitness[13]? = some (1, .conN 0 5) ∧ hbWitness[31]? = some (2, .pldData 0 5) ∧ hbWitness[83]? = some (3, .des false 0) ∧
    hbWitness[42]? = some (1, .conR 2 none (some 0)) ∧ hbWitness[82]? = some (3, .pldZn 2 false) ∧
    hbWitness[56]? = some (2, .ast (.rowner 1) .sc none) ∧ hbWitness[90]? = some (3, .des true 1) :=
  ⟨_, rfl, rfl, rfl, rfl, rfl, rfl, rfl, rfl, rfl⟩

example : HB.HB (hbTrace .sc true hbWitness) 13 31 ∧ HB.HB (hbTrace .sc true hbWitness) 31 83 ∧
    HB.HB (hbTrace .sc true hbWitness) 42 82 ∧ HB.HB (hbTrace .sc true hbWitness) 56 90 :=
  ⟨C07_rcu_node_publication Ords.sc_ok true (s := _) rfl rfl (by decide) rfl rfl rfl rfl,
   C07_rcu_node_reclamation Ords.sc_ok true (s := _) rfl rfl (by decide) rfl rfl rfl rfl,
   C07_rcu_record_publication Ords.sc_ok true (s := _) rfl rfl (by decide) rfl rfl rfl rfl,
   C07_rcu_record_reclamation Ords.sc_ok true (s := _) rfl rfl (by decide) rfl rfl rfl rfl⟩

/-- the executable race checker accepts the mapped witness (both views of the whole-node events) -/
example : HB.raceFree (hbTrace .sc true hbWitness) = true ∧ HB.raceFree (hbTrace .sc false hbWitness) = true :=
  ⟨by decide, by decide⟩

/-- a REJECT of the checker is a race of the declarative definition (completeness of the checker) -/
theorem C07_rcu_reject_is_race {tr : HB.Trace} (h : HB.raceFree tr = false) : HB.Race tr :=
  Classical.byContradiction fun hn => by
    have := HB.raceFree_complete hn
    rw [h] at this; cases this

/-- **`owner.store(nullptr)` must release.**  With a relaxed store the same accepted trace has a data race: the
destruction of N0 by handle 3 is not ordered after reader 2's read of its `data`. -/
theorem C07_rcu_stOwner_needed : ∃ s, run hbWitness = some s ∧ HB.Race (hbTrace { stOwner := .rlx } true hbWitness) :=
  ⟨_, rfl, C07_rcu_reject_is_race (by decide)⟩

/-- **The reclaimer's load of `owner` must acquire.** -/
theorem C07_rcu_ldOwner_needed : ∃ s, run hbWitness = some s ∧ HB.Race (hbTrace { ldOwner := .rlx } true hbWitness) :=
  ⟨_, rfl, C07_rcu_reject_is_race (by decide)⟩

/-- **The stores that link a node (`m_head`, `next`) must release**: otherwise reader 2's read of `data` of N0 is not
ordered after its construction. -/
theorem C07_rcu_stLink_needed : ∃ s, run hbWitness = some s ∧ HB.Race (hbTrace { stLink := .rlx } true hbWitness) :=
  ⟨_, rfl, C07_rcu_reject_is_race (by decide)⟩

/-- **The traversal loads (`m_head`, `next`) must acquire.** -/
theorem C07_rcu_ldLink_needed : ∃ s, run hbWitness = some s ∧ HB.Race (hbTrace { ldLink := .rlx } true hbWitness) :=
  ⟨_, rfl, C07_rcu_reject_is_race (by decide)⟩

/-- the witness is race free under the weakest admissible orders -/
example : HB.raceFree (hbTrace Ords.weakest true hbWitness) = true := by decide

/-- writer 1 and reader 2 still hold their handles; handle 3 registers and releases: it scans the zombie record Z2 and
stops at reader 2's active record Z1, whose `owner` it loads (68); reader 2 constructed Z1 at 24 -/
def hbWitness2 : List (Tid × Ev) := hbWitness.take 53 ++
  [(3, .call (.lock false)), (3, .ret (.lock false)), (3, .call .beg), (3, .alo true 3), (3, .pstZn 3 true),
   (3, .conR 3 (some 3) none), (3, .ald .zhead .rlx (some 2)), (3, .ast (.rnext 3) .rlx (some 2)),
   (3, .cas .sc (some 2) (some 3) true (some 2)), (3, .ald .head .sc none), (3, .ret .beg),
   (3, .call .rel), (3, .ald (.rnext 3) .sc (some 2)), (3, .ald (.rowner 2) .sc none), (3, .ald (.rnext 2) .sc (some 1)),
   (3, .ald (.rowner 1) .sc (some 2)), (3, .ast (.rowner 3) .sc none), (3, .ret .rel)]

/-- **The CAS on `m_zombie_head` must be acquire-release.**  With a relaxed CAS the accepted trace `hbWitness2` no
longer orders the construction of reader 2's record Z1 (its non-atomic initialisation of `owner`) before handle 3's atomic
load of that `owner`: nothing else synchronises the two threads (reader 2 has only loaded so far; the initial load of
`m_zombie_head` and the store of the new record's `next` are relaxed in the code).  Plain locations do not show this
(hence no `Race`): it is the lifetime of the atomic member that is at stake — theorem (b) above.  (For the zombie record of
an `erase` the unlink stores that follow its construction publish it as well.) -/
theorem C07_rcu_cas_needed : ∃ s, run hbWitness2 = some s ∧
    hbWitness2[24]? = some (2, .conR 1 (some 2) none) ∧ hbWitness2[68]? = some (3, .ald (.rowner 1) .sc (some 2)) ∧
    HB.HB (hbTrace .sc true hbWitness2) 24 68 ∧ ¬ HB.HB (hbTrace { cas := .rlx } true hbWitness2) 24 68 := by
  refine ⟨_, rfl, rfl, rfl, ?_, ?_⟩
  · exact C07_rcu_record_publication Ords.sc_ok true (s := _) (es := hbWitness2) rfl rfl (by decide) rfl rfl rfl rfl
  · intro h
    have := HB.hb_clock h 2 3 _ _ rfl rfl 2
    revert this
    decide

end ConcVerif.Rcu
