import ConcVerif.Proof.RcuAll
import ConcVerif.Proof.RcuFail
/-! # C13 — rcu_list destroys and frees everything it allocated exactly once, for any T

All statements are over `Reachable s`: every accepted event sequence of the model in `Model/Rcu.lean`,
i.e. any number of threads, any client program built from `lock_read / lock_write / begin / ++ / * /
push_front / push_back / emplace_* / erase / release / ~rcu_list`, any interleaving of their primitive
steps, spurious `compare_exchange_weak` failures, throwing element constructors and ALLOCATION FAILURES (the allocator
throws at the registration of a handle, in `push_* / emplace_*`, in `erase`) included.  No bound.

The model does not *check* the allocation ledger: `nled` / `rled` are ghost fields that `alo / con /
des / fre` events update unconditionally.  The theorems say that in every reachable state such an event
finds the block in the right ledger state — so `destroy` / `deallocate` are never applied to a block
that is not constructed / allocated (a null or phantom node has no ledger entry at all: the event
vocabulary of the model has no `des null`, the driver rejects it), and never twice. -/
namespace ConcVerif.Rcu

/-- ledger of the block an allocator event names -/
def St.led (s : St) (z : Bool) (b : Nat) : Led := if z then s.rled b else s.nled b

/-- the successor relation of the ledger: `alo → con → des → fre`, or `alo → fre` when the element
constructor threw (`allocate_unique`'s catch block) -/
inductive LedNext : Led → Led → Prop
  | alo : LedNext .none .alloc
  | con : LedNext .alloc .cons
  | des : LedNext .cons .dest
  | fre : LedNext .dest .freed
  | thr : LedNext .alloc .freed

/-- `allocate`: the block is new. -/
theorem C13_alo {s s' : St} {t : Tid} {z : Bool} {b : Nat} (h : Reachable s) (hs : step s t (.alo z b) = some s') :
    s.led z b = .none ∧ s'.led z b = .alloc := by
  have hi := inv_reachable h
  have hS := step_sound hs
  cases hS
  · exact ⟨by simp only [St.led]; exact (hi.b.cntR s.nR).2 (Nat.le_refl _), by simp [St.led, St.setRled, St.setPc]⟩
  · exact ⟨by simp only [St.led]; exact (hi.d.cntN s.nN).2 (Nat.le_refl _), by simp [St.led, St.setNled, St.setPc]⟩
  · exact ⟨by simp only [St.led]; exact (hi.b.cntR s.nR).2 (Nat.le_refl _), by simp [St.led, St.setRled, St.setPc]⟩

/-- `construct` of a node: the block is allocated and not yet constructed. -/
theorem C13_con_node {s s' : St} {t : Tid} {n : Nat} {v : Int} (h : Reachable s) (hs : step s t (.conN n v) = some s') :
    s.nled n = .alloc ∧ s'.nled n = .cons := by
  have hi := inv_reachable h
  have hS := step_sound hs
  cases hS
  rename_i f em hpc
  have hh := hi.d.held t
  simp only [dview_vpc, hpc, DView, HeldP, dview_nled] at hh
  exact ⟨hh, by simp [St.setNled, St.setPc]⟩

/-- `construct` of a log record: the block is allocated and not yet constructed. -/
theorem C13_con_rec {s s' : St} {t : Tid} {r : Nat} {o : Option Tid} {zn : Option Nat} (h : Reachable s)
    (hs : step s t (.conR r o zn) = some s') : s.rled r = .alloc ∧ s'.rled r = .cons := by
  have hi := inv_reachable h
  have hS := step_sound hs
  cases hS
  · rename_i k hpc
    have hp := hi.b.privOk t r (by simp [hpc, BView, privRec])
    simp only [bview_vpc, hpc, BView, privLed, bview_rled] at hp
    exact ⟨hp.2, by simp [St.setRled, St.setPc]⟩
  · rename_i c orig hpc
    have hp := hi.b.privOk t r (by simp [hpc, BView, privRec])
    simp only [bview_vpc, hpc, BView, privLed, bview_rled] at hp
    exact ⟨hp.2, by simp [St.setRled, St.setPc]⟩

/-- `destroy`: the block is constructed (in particular it exists: never a null / unconstructed /
already destroyed one). -/
theorem C13_des {s s' : St} {t : Tid} {z : Bool} {b : Nat} (h : Reachable s) (hs : step s t (.des z b) = some s') :
    s.led z b = .cons ∧ s'.led z b = .dest := by
  have hi := inv_reachable h
  have hS := step_sound hs
  cases hS
  · rename_i r m hpc
    have hh := hi.d.held t
    simp only [dview_vpc, hpc, DView, HeldP, dview_nled] at hh
    exact ⟨by simp only [St.led]; exact hh.2, by simp [St.led, St.setNled, St.setPc]⟩
  · rename_i r nx hpc
    have hp := hi.b.privOk t b (by simp [hpc, BView, privRec])
    simp only [bview_vpc, hpc, BView, privLed, bview_rled] at hp
    exact ⟨by simp only [St.led]; exact hp.2, by simp [St.led, St.setRled, St.setPc]⟩
  · rename_i nx hpc
    have hh := hi.d.held t
    simp only [dview_vpc, hpc, DView, HeldP, dview_nled] at hh
    exact ⟨by simp only [St.led]; exact hh, by simp [St.led, St.setNled, St.setPc]⟩
  · rename_i m nx hpc
    have hh := hi.d.held t
    simp only [dview_vpc, hpc, DView, HeldP, dview_nled] at hh
    exact ⟨by simp only [St.led]; exact hh.2, by simp [St.led, St.setNled, St.setPc]⟩
  · rename_i nx hpc
    have hp := hi.b.privOk t b (by simp [hpc, BView, privRec])
    simp only [bview_vpc, hpc, BView, privLed, bview_rled] at hp
    exact ⟨by simp only [St.led]; exact hp.2, by simp [St.led, St.setRled, St.setPc]⟩

/-- `deallocate`: the block has been destroyed — or was never constructed because the element
constructor threw inside `allocate_unique` (the thread is at `pCons`, between `allocate` and
`construct`).  It is never freed twice (`freed` has no successor, `C13_ledger_step`). -/
theorem C13_fre {s s' : St} {t : Tid} {z : Bool} {b : Nat} (h : Reachable s) (hs : step s t (.fre z b) = some s') :
    (s.led z b = .dest ∨ (s.led z b = .alloc ∧ ∃ k, s.pc t = .pCons k b)) ∧ s'.led z b = .freed := by
  have hi := inv_reachable h
  have hS := step_sound hs
  cases hS
  · rename_i r m hpc
    have hh := hi.d.held t
    simp only [dview_vpc, hpc, DView, HeldP, dview_nled] at hh
    exact ⟨Or.inl (by simp only [St.led]; exact hh.2), by simp [St.led, St.setNled, St.setPc]⟩
  · rename_i r nx hpc
    have hp := hi.b.privOk t b (by simp [hpc, BView, privRec])
    simp only [bview_vpc, hpc, BView, privLed, bview_rled] at hp
    refine ⟨Or.inl (by simp only [St.led]; exact hp.2), ?_⟩
    cases nx <;> simp [St.led, St.setRled, St.setPc, St.reapAt]
  · rename_i f em x hpc
    have hh := hi.d.held t
    simp only [dview_vpc, hpc, DView, HeldP, dview_nled] at hh
    exact ⟨Or.inr ⟨by simp only [St.led]; exact hh, _, hpc⟩, by simp [St.led, St.setNled, St.setPc]⟩
  · rename_i nx hpc
    have hh := hi.d.held t
    simp only [dview_vpc, hpc, DView, HeldP, dview_nled] at hh
    refine ⟨Or.inl (by simp only [St.led]; exact hh), ?_⟩
    cases nx <;> simp [St.led, St.setNled, St.setPc, St.dNodeAt]
  · rename_i m nx hpc
    have hh := hi.d.held t
    simp only [dview_vpc, hpc, DView, HeldP, dview_nled] at hh
    exact ⟨Or.inl (by simp only [St.led]; exact hh.2), by simp [St.led, St.setNled, St.setPc]⟩
  · rename_i nx hpc
    have hp := hi.b.privOk t b (by simp [hpc, BView, privRec])
    simp only [bview_vpc, hpc, BView, privLed, bview_rled] at hp
    refine ⟨Or.inl (by simp only [St.led]; exact hp.2), ?_⟩
    cases nx <;> simp [St.led, St.setRled, St.setPc, St.dRecAt]

/-- Exactly once, in order: any step changes the ledger of at most the block its event names, and then
to the successor state.  Since `LedNext` is acyclic and `freed` has no successor, every block goes
through `alo`, `con`, `des`, `fre` at most once each and in this order. -/
theorem C13_ledger_step {s s' : St} {t : Tid} {e : Ev} (h : Reachable s) (hs : step s t e = some s') (z : Bool) (b : Nat) :
    s'.led z b = s.led z b ∨ LedNext (s.led z b) (s'.led z b) := by
  cases e with
  | alo z' b' =>
    by_cases hb : z = z' ∧ b = b'
    · obtain ⟨rfl, rfl⟩ := hb
      obtain ⟨h1, h2⟩ := C13_alo h hs
      right; rw [h1, h2]; exact .alo
    · left
      have hS := step_sound hs
      cases hS <;> cases z <;> simp [St.led, St.setRled, St.setNled, St.setPc]
      all_goals (rw [upd_other]; intro e; exact hb ⟨rfl, e⟩)
  | conN n v =>
    by_cases hb : z = false ∧ b = n
    · obtain ⟨rfl, rfl⟩ := hb
      obtain ⟨h1, h2⟩ := C13_con_node h hs
      right; simp only [St.led]; rw [h1, h2]; exact .con
    · left
      have hS := step_sound hs
      cases hS; cases z <;> simp [St.led, St.setNled, St.setPc]
      rw [upd_other]; intro e; exact hb ⟨rfl, e⟩
  | conR r o zn =>
    by_cases hb : z = true ∧ b = r
    · obtain ⟨rfl, rfl⟩ := hb
      obtain ⟨h1, h2⟩ := C13_con_rec h hs
      right; simp only [St.led]; rw [h1, h2]; exact .con
    · left
      have hS := step_sound hs
      cases hS <;> cases z <;> simp [St.led, St.setRled, St.setPc]
      all_goals (rw [upd_other]; intro e; exact hb ⟨rfl, e⟩)
  | des z' b' =>
    by_cases hb : z = z' ∧ b = b'
    · obtain ⟨rfl, rfl⟩ := hb
      obtain ⟨h1, h2⟩ := C13_des h hs
      right; rw [h1, h2]; exact .des
    · left
      have hS := step_sound hs
      cases hS <;> cases z <;> simp [St.led, St.setRled, St.setNled, St.setPc]
      all_goals (rw [upd_other]; intro e; exact hb ⟨rfl, e⟩)
  | fre z' b' =>
    by_cases hb : z = z' ∧ b = b'
    · obtain ⟨rfl, rfl⟩ := hb
      obtain ⟨h1, h2⟩ := C13_fre h hs
      right
      rcases h1 with h1 | ⟨h1, _⟩
      · rw [h1, h2]; exact .fre
      · rw [h1, h2]; exact .thr
    · left
      have hS := step_sound hs
      cases hS <;> rename_i nx _ <;> cases z <;> cases nx <;>
        simp [St.led, St.setRled, St.setNled, St.setPc, St.reapAt, St.dNodeAt, St.dRecAt]
      all_goals (rw [upd_other]; intro e; exact hb ⟨rfl, e⟩)
  | _ =>
    left
    obtain ⟨h1, h2⟩ := ledger_frame (step_sound hs) (by simp [Ev.kind])
    simp only [St.led, h1, h2]

/-- Nothing that was never constructed is destroyed, nothing that was never allocated is freed. -/
theorem C13_no_phantom {s s' : St} {t : Tid} {z : Bool} {b : Nat} (h : Reachable s) :
    (step s t (.des z b) = some s' → s.led z b = .cons) ∧
    (step s t (.fre z b) = some s' → s.led z b ≠ .none ∧ s.led z b ≠ .freed) := by
  refine ⟨fun hs => (C13_des h hs).1, fun hs => ?_⟩
  rcases (C13_fre h hs).1 with h1 | ⟨h1, _⟩ <;> rw [h1] <;> simp

/-- After the list destructor (which the client may only start when no handle is alive) every block
ever allocated — element nodes and log records — is freed. -/
theorem C13_complete {s : St} {t : Tid} (h : Reachable s) (hpc : s.pc t = .retp .dtor) :
    (∀ n, n < s.nN → s.nled n = .freed) ∧ (∀ r, r < s.nR → s.rled r = .freed) := by
  have hi := inv_reachable h
  have hdt := hi.a.dtd t (by simp [hpc, inDtor])
  have hidB := others_idle (t := t) hi.a hdt (by simp [hpc, inDtor])
  have hidD := others_didle_dt (t := t) hi.a hdt (by simp [hpc, inDtor])
  have hlog : s.log = [] := by
    have := hi.b.dtr t; simpa [hpc, BView, DtorP] using this
  have hlst : s.lst = [] := by
    have := hi.c.wr t; simpa [hpc, CView, WriterP] using this
  have hrec : ∀ r, r < s.nR → s.rled r = .freed := by
    intro r hr
    rcases hi.b.cls r hr with f | f | ⟨u, hu⟩
    · exact f
    · simp only [bview_log] at f; rw [hlog] at f; cases f
    · simp only [bview_vpc] at hu
      by_cases hut : u = t
      · subst hut; rw [hpc] at hu; simp [BView, privRec] at hu
      · rw [hidB u hut] at hu; simp [privRec] at hu
  refine ⟨?_, hrec⟩
  intro n hn
  rcases hi.d.cls n hn with f | f | ⟨u, k, hu⟩ | ⟨x, hx1, hx2⟩ | ⟨u, hu⟩
  · exact f
  · simp only [dview_lst] at f; rw [hlst] at f; cases f
  · simp only [dview_vpc] at hu
    by_cases hut : u = t
    · subst hut; rw [hpc] at hu; simp [DView] at hu
    · rw [hidD u hut] at hu; rcases hu with hu | hu <;> cases hu
  · simp only [dview_rled] at hx1
    have hxr : x < s.nR := by
      apply Classical.byContradiction
      intro hc
      have := (hi.b.cntR x).2 (by simp only [bview_nR]; omega)
      simp only [bview_rled] at this; rw [this] at hx1; cases hx1
    rw [hrec x hxr] at hx1; cases hx1
  · simp only [dview_vpc] at hu
    by_cases hut : u = t
    · subst hut; rw [hpc] at hu; simp [DView] at hu
    · rw [hidD u hut] at hu; cases hu

/-- … and this is still so when the destructor has returned. -/
theorem C13_complete_ret {s s' : St} {t : Tid} (h : Reachable s) (hs : step s t (.ret .dtor) = some s') :
    (∀ n, n < s'.nN → s'.nled n = .freed) ∧ (∀ r, r < s'.nR → s'.rled r = .freed) := by
  have hS := step_sound hs
  cases hS
  rename_i hpc
  exact C13_complete (s := s) h hpc

/-- Taking and releasing handles with nothing erased destroys and frees only the handles' own records:
a release (`rcu_guard::unlock`, pcs with `myRec`) destroys / frees a node only if some node has been
erased (its `deleted` flag is set). -/
theorem C13_handles_only {s s' : St} {t : Tid} {d : Nat} {r : Nat} (h : Reachable s)
    (hrel : myRec (s.pc t) = some r)
    (hs : step s t (.des false d) = some s' ∨ step s t (.fre false d) = some s') :
    (s.nodes d).deleted = true := by
  have hi := inv_reachable h
  rcases hs with hs | hs
  · have hS := step_sound hs
    cases hS
    · rename_i r' m hpc
      have hp := hi.b.privOk t m (by simp [hpc, BView, privRec])
      simp only [bview_vpc, hpc, BView, privLed, bview_rled] at hp
      have hh := hi.d.held t
      simp only [dview_vpc, hpc, DView, HeldP, dview_zn] at hh
      exact (zdel_priv hi (t := t) (by simp [hpc, BView, privRec]) (by intro c z hv; simp [hpc, DView] at hv) hp.2 hh.1).1
    · rename_i nx hpc; rw [hpc] at hrel; simp [myRec] at hrel
    · rename_i m nx hpc; rw [hpc] at hrel; simp [myRec] at hrel
  · have hS := step_sound hs
    cases hS
    · rename_i r' m hpc
      have hp := hi.b.privOk t m (by simp [hpc, BView, privRec])
      simp only [bview_vpc, hpc, BView, privLed, bview_rled] at hp
      have hh := hi.d.held t
      simp only [dview_vpc, hpc, DView, HeldP, dview_zn] at hh
      exact (zdel_priv hi (t := t) (by simp [hpc, BView, privRec]) (by intro c z hv; simp [hpc, DView] at hv) hp.2 hh.1).1
    · rename_i f em x hpc; rw [hpc] at hrel; simp [myRec] at hrel
    · rename_i nx hpc; rw [hpc] at hrel; simp [myRec] at hrel
    · rename_i m nx hpc; rw [hpc] at hrel; simp [myRec] at hrel

/-! ## Allocation failures

The allocator may throw instead of allocating (`afl`): a log record at the registration of a handle or inside `erase`, a
node inside `push_* / emplace_*`.  Every step on the resulting exception path changes nothing but the pc of the thread
and the holder of the write mutex (`C13_alloc_failure_frame`), so when the exception reaches the client the list, the
log, both ledgers, the handles and the iterators are exactly what they were before the call: nothing is lost, nothing
leaks.  (`C13_complete`, `C13_ledger_step` … are statements over all reachable states, i.e. also over the traces with
allocation failures.) -/

/-- Any step on an exception path caused by an allocation failure — from the `call` to the `exc` — leaves every field of
the state except the pcs and the mutex holder unchanged; in particular `afl` itself allocates and changes nothing. -/
theorem C13_alloc_failure_frame {s s' : St} {t : Tid} {e : Ev} (hs : step s t e = some s')
    (hp : onFailPath (s.pc t) e = true) : SameData s s' ∧ ∀ u, u ≠ t → s'.pc u = s.pc u :=
  failPath_frame (step_sound hs) hp

/-- `erase` whose zombie-record allocation fails (the thread runs alone from the call to the exception): the state is
exactly the state before the call. -/
theorem C13_erase_alloc_failure {s s' : St} {t : Tid} {adv : Bool} {c : Nat} {o : Ord} {v : Option Nat}
    (h : runFrom step s [(t, .call (.erase adv)), (t, .mlk), (t, .ald (.nnext c) o v), (t, .pldDel c false), (t, .afl true),
      (t, .mul), (t, .exc (.erase true))] = some s') : s' = s := by
  obtain ⟨s1, h1, h⟩ := run_cons_some h
  obtain ⟨s2, h2, h⟩ := run_cons_some h
  obtain ⟨s3, h3, h⟩ := run_cons_some h
  obtain ⟨s4, h4, h⟩ := run_cons_some h
  obtain ⟨s5, h5, h⟩ := run_cons_some h
  obtain ⟨s6, h6, h⟩ := run_cons_some h
  obtain ⟨s7, h7, h⟩ := run_cons_some h
  simp [runFrom_nil] at h; subst h
  have p0 := call_idle h1
  obtain ⟨p1, w1, f1⟩ := shape_call (by simp) p0 h1
  obtain ⟨⟨c0, p2⟩, w2, w2', f2⟩ := shape_mlk_erase p1 h2
  obtain ⟨⟨orig, p3⟩, w3, f3⟩ := shape_eOrig p2 h3
  obtain ⟨p4, w4, f4⟩ := shape_eDel_fresh p3 h4
  obtain ⟨p5, w5, f5⟩ := shape_eAlloc_fail p4 h5
  obtain ⟨p6, w6, f6⟩ := shape_pThrown p5 h6
  obtain ⟨p7, w7, f7⟩ := shape_pExc p6 h7
  refine st_eq_of_frame (frame_trans (frame_trans (frame_trans (frame_trans (frame_trans (frame_trans f1 f2) f3) f4) f5) f6) f7) ?_ ?_
  · rw [w7, w6, ← w1, w2]
  · rw [p7, p0]

/-- `push_front / push_back / emplace_*` whose node allocation fails: the state is exactly the state before the call. -/
theorem C13_push_alloc_failure {s s' : St} {t : Tid} {f em : Bool} {x : Int}
    (h : runFrom step s [(t, .call (.push f em x)), (t, .mlk), (t, .afl false), (t, .mul), (t, .exc (.push f em x))] = some s') :
    s' = s := by
  obtain ⟨s1, h1, h⟩ := run_cons_some h
  obtain ⟨s2, h2, h⟩ := run_cons_some h
  obtain ⟨s3, h3, h⟩ := run_cons_some h
  obtain ⟨s4, h4, h⟩ := run_cons_some h
  obtain ⟨s5, h5, h⟩ := run_cons_some h
  simp [runFrom_nil] at h; subst h
  have p0 := call_idle h1
  obtain ⟨p1, w1, f1⟩ := shape_call (by simp) p0 h1
  obtain ⟨p2, w2, w2', f2⟩ := shape_mlk_push p1 h2
  obtain ⟨p3, w3, f3⟩ := shape_pAlloc_fail p2 h3
  obtain ⟨p4, w4, f4⟩ := shape_pThrown p3 h4
  obtain ⟨p5, w5, f5⟩ := shape_pExc p4 h5
  refine st_eq_of_frame (frame_trans (frame_trans (frame_trans (frame_trans f1 f2) f3) f4) f5) ?_ ?_
  · rw [w5, w4, ← w1, w2]
  · rw [p5, p0]

/-- The first use of a handle (`begin`, `push_*`, `emplace_*`) whose registration fails to allocate its log record: the
state is exactly the state before the call; the handle is still unregistered. -/
theorem C13_register_alloc_failure {s s' : St} {t : Tid} {k : Op} (hk : k ≠ .dtor)
    (h : runFrom step s [(t, .call k), (t, .afl true), (t, .exc k)] = some s') : s' = s := by
  obtain ⟨s1, h1, h⟩ := run_cons_some h
  obtain ⟨s2, h2, h⟩ := run_cons_some h
  obtain ⟨s3, h3, h⟩ := run_cons_some h
  simp [runFrom_nil] at h; subst h
  have p0 := call_idle h1
  obtain ⟨p1, w1, f1⟩ := shape_call hk p0 h1
  obtain ⟨p2, w2, f2⟩ := shape_reg_fail p1 h2
  obtain ⟨p3, w3, f3⟩ := shape_rExc p2 h3
  refine st_eq_of_frame (frame_trans (frame_trans f1 f2) f3) ?_ ?_
  · rw [w3, w2, w1]
  · rw [p3, p0]

/-! ## Non-vacuity

`witness` is a primitive-level trace of the REAL code (script `obj-a;lw,pf=7,beg,erc,rel,lr,beg,rel`, recorded by the
harness and accepted by the driver): a write handle pushes 7, erases it and is released; a read handle registers and,
on release, reclaims the zombie record `Z1` with its node `N0` and the old handle record `Z0`; then the list is destroyed.
Prefixes of it reach the hypotheses of the theorems above. -/
def witness : List (Tid × Ev) :=
  [(1, .call (.lock true)),
   (1, .ret (.lock true)),
   (1, .call (.push true false 7)),
   (1, .alo true 0),
   (1, .pstZn 0 true),
   (1, .conR 0 (some 1) none),
   (1, .ald .zhead .rlx none),
   (1, .ast (.rnext 0) .rlx none),
   (1, .cas .sc none (some 0) false none),
   (1, .ast (.rnext 0) .rlx none),
   (1, .cas .sc none (some 0) true none),
   (1, .mlk),
   (1, .alo false 0),
   (1, .pstDel 0 false),
   (1, .conN 0 7),
   (1, .ald .head .sc none),
   (1, .ast .head .sc (some 0)),
   (1, .ast .tail .sc (some 0)),
   (1, .mul),
   (1, .ret (.push true false 7)),
   (1, .call .beg),
   (1, .ald .head .sc (some 0)),
   (1, .ret .beg),
   (1, .call (.erase true)),
   (1, .mlk),
   (1, .ald (.nnext 0) .sc none),
   (1, .pldDel 0 false),
   (1, .alo true 1),
   (1, .pstZn 1 false),
   (1, .conR 1 none (some 0)),
   (1, .pstDel 0 true),
   (1, .ald (.nback 0) .sc none),
   (1, .ald (.nnext 0) .sc none),
   (1, .ast .head .sc none),
   (1, .ast .tail .sc none),
   (1, .ald .zhead .sc (some 0)),
   (1, .ast (.rnext 1) .sc (some 0)),
   (1, .cas .sc (some 0) (some 1) true (some 0)),
   (1, .mul),
   (1, .ret (.erase true)),
   (1, .call .rel),
   (1, .ald (.rnext 0) .sc none),
   (1, .ast (.rnext 0) .sc none),
   (1, .ast (.rowner 0) .sc none),
   (1, .ret .rel),
   (1, .call (.lock false)),
   (1, .ret (.lock false)),
   (1, .call .beg),
   (1, .alo true 2),
   (1, .pstZn 2 true),
   (1, .conR 2 (some 1) none),
   (1, .ald .zhead .rlx (some 1)),
   (1, .ast (.rnext 2) .rlx (some 1)),
   (1, .cas .sc (some 1) (some 2) true (some 1)),
   (1, .ald .head .sc none),
   (1, .ret .beg),
   (1, .call .rel),
   (1, .ald (.rnext 2) .sc (some 1)),
   (1, .ald (.rowner 1) .sc none),
   (1, .ald (.rnext 1) .sc (some 0)),
   (1, .ald (.rowner 0) .sc none),
   (1, .ald (.rnext 0) .sc none),
   (1, .pldZn 1 false),
   (1, .des false 0),
   (1, .fre false 0),
   (1, .ald (.rnext 1) .sc (some 0)),
   (1, .des true 1),
   (1, .fre true 1),
   (1, .pldZn 0 true),
   (1, .ald (.rnext 0) .sc none),
   (1, .des true 0),
   (1, .fre true 0),
   (1, .ast (.rnext 2) .sc none),
   (1, .ast (.rowner 2) .sc none),
   (1, .ret .rel),
   (0, .call .dtor),
   (0, .ald .head .sc none),
   (0, .ald .zhead .sc (some 2)),
   (0, .ald (.rowner 2) .sc none),
   (0, .ald (.rnext 2) .sc none),
   (0, .pldZn 2 true),
   (0, .des true 2),
   (0, .fre true 2),
   (0, .ret .dtor)]

/-- the node is destroyed by a handle release (not the destructor): a reachable state just before `des N0` -/
example : ∃ s, Reachable s ∧ s.pc 1 = .rDesN 2 1 0 ∧ s.nled 0 = .cons ∧ (s.nodes 0).deleted = true ∧
    (step s 1 (.des false 0)).isSome = true ∧ myRec (s.pc 1) = some 2 :=
  ⟨_, ⟨witness.take 63, rfl⟩, by decide, by decide, by decide, by decide, by decide⟩

/-- after the destructor everything (1 node, 3 records) is freed, and the hypothesis of `C13_complete` is reachable -/
example : ∃ s, Reachable s ∧ s.pc 0 = .retp .dtor ∧ s.nN = 1 ∧ s.nR = 3 ∧ s.nled 0 = .freed ∧ s.rled 0 = .freed ∧
    s.rled 1 = .freed ∧ s.rled 2 = .freed :=
  ⟨_, ⟨witness.take 83, rfl⟩, by decide, by decide, by decide, by decide, by decide, by decide, by decide⟩

/-- the `alloc → freed` branch of `C13_fre` (throwing element constructor) is reachable -/
def witnessThrow : List (Tid × Ev) :=
  [(1, .call (.lock true)), (1, .ret (.lock true)), (1, .call (.push true false 1)), (1, .alo true 0), (1, .pstZn 0 true),
   (1, .conR 0 (some 1) none), (1, .ald .zhead .rlx none), (1, .ast (.rnext 0) .rlx none), (1, .cas .sc none (some 0) true none),
   (1, .mlk), (1, .alo false 0), (1, .pstDel 0 false)]

example : ∃ s, Reachable s ∧ s.pc 1 = .pCons (.push true false 1) 0 ∧ s.nled 0 = .alloc ∧
    (step s 1 (.fre false 0)).isSome = true :=
  ⟨_, ⟨witnessThrow, rfl⟩, by decide, by decide, by decide⟩

/-- a real trace with allocation failures (script `obj-d;lw,pf=1!n,beg!z,pf=1,beg,erc!z,rel`): the node allocation of the
first push fails, the second push succeeds, the record allocation inside `erase` fails, the handle is released, the list
destroyed -/
def witnessFail : List (Tid × Ev) :=
  [(1, .call (.lock true)),
   (1, .ret (.lock true)),
   (1, .call (.push true false 1)),
   (1, .alo true 0),
   (1, .pstZn 0 true),
   (1, .conR 0 (some 1) none),
   (1, .ald .zhead .rlx none),
   (1, .ast (.rnext 0) .rlx none),
   (1, .cas .sc none (some 0) true none),
   (1, .mlk),
   (1, .afl false),
   (1, .mul),
   (1, .exc (.push true false 1)),
   (1, .call .beg),
   (1, .ald .head .sc none),
   (1, .ret .beg),
   (1, .call (.push true false 1)),
   (1, .mlk),
   (1, .alo false 0),
   (1, .pstDel 0 false),
   (1, .conN 0 1),
   (1, .ald .head .sc none),
   (1, .ast .head .sc (some 0)),
   (1, .ast .tail .sc (some 0)),
   (1, .mul),
   (1, .ret (.push true false 1)),
   (1, .call .beg),
   (1, .ald .head .sc (some 0)),
   (1, .ret .beg),
   (1, .call (.erase true)),
   (1, .mlk),
   (1, .ald (.nnext 0) .sc none),
   (1, .pldDel 0 false),
   (1, .afl true),
   (1, .mul),
   (1, .exc (.erase true)),
   (1, .call .rel),
   (1, .ald (.rnext 0) .sc none),
   (1, .ast (.rnext 0) .sc none),
   (1, .ast (.rowner 0) .sc none),
   (1, .ret .rel),
   (0, .call .dtor),
   (0, .ald .head .sc (some 0)),
   (0, .ald (.nnext 0) .sc none),
   (0, .des false 0),
   (0, .fre false 0),
   (0, .ald .zhead .sc (some 0)),
   (0, .ald (.rowner 0) .sc none),
   (0, .ald (.rnext 0) .sc none),
   (0, .pldZn 0 true),
   (0, .des true 0),
   (0, .fre true 0),
   (0, .ret .dtor)]

/-- the hypothesis of `C13_push_alloc_failure` is reachable -/
example : ∃ s, Reachable s ∧ (runFrom step s [(1, .call (.push true false 1)), (1, .mlk), (1, .afl false), (1, .mul),
    (1, .exc (.push true false 1))]).isSome = true :=
  ⟨_, ⟨witnessFail.take 13, rfl⟩, by decide⟩

/-- the hypothesis of `C13_erase_alloc_failure` is reachable: the element stays linked, constructed and not flagged -/
example : ∃ s, Reachable s ∧ s.lst = [0] ∧ (runFrom step s [(1, .call (.erase true)), (1, .mlk), (1, .ald (.nnext 0) .sc none),
    (1, .pldDel 0 false), (1, .afl true), (1, .mul), (1, .exc (.erase true))]).isSome = true :=
  ⟨_, ⟨witnessFail.take 29, rfl⟩, by decide, by decide⟩

/-- after the failed erase: nothing was allocated, the element is still linked and is freed by the destructor -/
example : ∃ s, Reachable s ∧ s.pc 1 = .idle ∧ s.lst = [0] ∧ s.nR = 1 ∧ s.nled 0 = .cons ∧ (s.nodes 0).deleted = false :=
  ⟨_, ⟨witnessFail.take 36, rfl⟩, by decide, by decide, by decide, by decide, by decide⟩

example : ∃ s, Reachable s ∧ s.pc 0 = .retp .dtor ∧ s.nN = 1 ∧ s.nR = 1 ∧ s.nled 0 = .freed ∧ s.rled 0 = .freed :=
  ⟨_, ⟨witnessFail.take 52, rfl⟩, by decide, by decide, by decide, by decide, by decide⟩

/-- the hypothesis of `C13_register_alloc_failure` is reachable -/
example : ∃ s, Reachable s ∧ (runFrom step s [(1, .call .beg), (1, .afl true), (1, .exc .beg)]).isSome = true :=
  ⟨_, ⟨witnessFail.take 2, rfl⟩, by decide⟩

end ConcVerif.Rcu
