import ConcVerif.Props.C01
/-! # C20 (lock-based wrappers) — throwing user code never leaves a wrapper locked or half-modified

In the wrapper model (`Model/LockFam.lean`) user code (the wrapped type's copy / assignment /
comparison, a `modify` / `read` functor) may throw at any point inside a whole-object operation:
event `uth`, accepted in every state of the bracket.  The theorems below therefore quantify over
every choice of the throwing invocation and every interleaving.  (lr_guarded, cow_guarded,
deferred_guarded, DelayedDestructor and SearchableObjectHolder have their own C20 files.) -/
namespace ConcVerif.LockFam

/-- Whatever lock the operation took is released before the exception reaches the caller: at the
`exc` event the thread holds nothing, and it is back at rest. -/
theorem C20_lock_unwind_releases {en cap : Bool} {s s' : St} {t : Tid} (h : Reachable en cap s)
    (hs : step s t .exc = some s') : s.held t = .none ∧ s'.held t = .none ∧ (s'.loc t).pc = .idle := by
  have hl := (inv_reachable h).l t
  cases hp : (s.loc t).pc <;> simp [step, hp] at hs
  have hn := hl.plain_none (by simp [hp, Pc.plain])
  subst hs
  exact ⟨hn, hn, by simp [St.setPc, St.setLoc]⟩

/-- A throw happens either in the call itself before any lock operation (user code that builds a by-value
parameter: nothing is held, nothing was touched, the thread goes straight to the exceptional exit), or inside
the bracket, and the bracket can be closed after it in every state in which the wrapped object has not been
written by the operation. -/
theorem C20_lock_throw_inside {s s' : St} {t : Tid} (hs : step s t .uth = some s') :
    (∃ w, (s.loc t).pc = .wCalled w ∧ (s'.loc t).pc = .wExc ∧ s'.val = s.val ∧ s'.excl = s.excl ∧
      s'.shared = s.shared ∧ s'.held = s.held) ∨
    ∃ w m a b c, (s.loc t).pc = .whole w m a b c ∧ (s'.loc t).pc = .whole w m a b true := by
  cases hp : (s.loc t).pc <;> simp [step, hp] at hs
  · subst hs
    exact .inl ⟨_, rfl, by simp [St.setPc, St.setLoc], rfl, rfl, rfl, rfl⟩
  · subst hs
    exact .inr ⟨_, _, _, _, _, rfl, by simp [St.setPc, St.setLoc]⟩

/-- Not half-modified: an operation that ends with an exception has not written the wrapped object
(the model accepts the closing release after a throw only then), so the value other threads see
afterwards is the value from before the failed operation. -/
theorem C20_lock_no_partial_write {s s' : St} {t : Tid} {sd : Side} {w : WOp} {m : Mode} {a b : Option Int}
    (hp : (s.loc t).pc = .whole w m a b true) (hs : step s t (.rel sd) = some s') :
    b = none ∧ s'.val = s.val ∧ (s'.loc t).pc = .wExc := by
  simp [step, hp] at hs
  obtain ⟨_, hb, s1, hr, hs⟩ := hs
  subst hs
  have hv := (release_spec hr).2.2.2.2.2.2.2.1
  exact ⟨hb, hv, by simp [St.setPc, St.setLoc]⟩

/-- The wrapper stays usable by all threads: after an exceptional exit the mutex is free again if the
failed operation was the only holder — every blocked or later acquirer is enabled (C01's
deadlock-freedom applies verbatim because all invariants hold on traces that contain throws). -/
theorem C20_lock_usable_after {en cap : Bool} {s s' : St} {t u : Tid} (h : Reachable en cap s)
    (he : s.enabled = true) (hs : step s t .exc = some s') (hfree : s'.excl = none ∧ s'.shared = [])
    {w : WOp} (hp : (s'.loc u).pc = .wCalled w) : (step s' u (.lk .X .block true)).isSome = true := by
  have hr' : Reachable en cap s' := by
    obtain ⟨es, hes⟩ := h
    refine ⟨es ++ [(t, .exc)], ?_⟩
    simp [run, runFrom_append] at hes ⊢
    rw [hes]; simp [runFrom_cons, hs]
  have he' : s'.enabled = true := by
    cases hp0 : (s.loc t).pc <;> simp [step, hp0] at hs
    subst hs; exact he
  exact (C01_free_acquirer_enabled hr' he' hfree).2 w hp

/-! Non-vacuity: `store(v)` whose assignment throws (thread 1), then a successful `load` by thread 2
that sees the old value. -/
example : ∃ s, Reachable true false s ∧ s.val = 0 ∧ s.excl = none ∧ (s.loc 1).pc = .idle ∧
    (s.loc 2).pc = .wDone (.val 0) :=
  ⟨_, ⟨[(1, .callW (.st 5)), (1, .lk .X .block true), (1, .uth), (1, .rel .X), (1, .exc),
        (2, .callW .ld), (2, .lk .X .block true), (2, .rd 0), (2, .rel .X)], rfl⟩,
   by decide, by decide, by decide, by decide⟩

/-- the early throw: `exchange(lvalue)` whose parameter copy throws before the lock is taken (thread 1) -/
example : ∃ s, Reachable true false s ∧ s.val = 0 ∧ s.excl = none ∧ (s.loc 1).pc = .idle :=
  ⟨_, ⟨[(1, .callW (.xc 5)), (1, .uth), (1, .exc)], rfl⟩, by decide, by decide, by decide⟩

end ConcVerif.LockFam
