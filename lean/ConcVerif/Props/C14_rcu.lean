import ConcVerif.Proof.RcuAll
/-! # C14 (rcu part) — reads on rcu_guarded / rcu_list never wait for writers

Read-side operations of the model in `Model/Rcu.lean`: registration (`rcu_read_lock`, performed lazily by
the first use of a handle: allocate and construct a record, push it with a CAS loop), `begin`, `++`, `*`,
and release (`rcu_guard::unlock`: scan the older records, reclaim, clear `owner`).  The same code runs
for read and write handles.

* `C14_rcu_no_mutex`  — at a read-side pc the model accepts no mutex event at all (the event vocabulary
  has no condition-variable event): a reader taking `m_write_mutex` is rejected by trace acceptance.
* `C14_rcu_enabled`   — in EVERY reachable state, whatever the pcs of all other threads (a writer may be
  suspended at any primitive step of push / erase, other readers anywhere), a thread at a read-side pc has
  an accepted next event: it is never blocked.
* `C14_rcu_traversal_bounded` — `begin`, `++`, `*` are three own steps each (call, one load, return).
* `C14_rcu_cas_retry` / `C14_rcu_cas_succeeds` / `C14_rcu_reg_measure` — the registration loop: a failed
  CAS leaves the thread with the value of `m_zombie_head` it observed; if nobody moved `m_zombie_head`
  since, the next CAS succeeds (lock-free); every own step other than a CAS that fails strictly
  decreases a bounded measure, and a CAS can fail (non-spuriously) only if another thread's push
  succeeded in between — so with everybody else suspended registration takes at most 9 own steps
  (wait-free), under the stated assumption that `compare_exchange_weak` does not fail spuriously forever. -/
namespace ConcVerif.Rcu

/-- pcs of registration, traversal and release -/
def readSide : Pc → Bool
  | .called .rel | .called .beg | .called .nxt | .called .der => true
  | .retp .rel | .retp .beg | .retp .nxt | .retp .der => true
  | .regAlloc .beg _ | .regCons .beg _ | .pushStore (.reg .beg) _ _ | .pushCas (.reg .beg) _ _ => true
  | .uOwner .. | .uNext .. | .rZn .. | .rDesN .. | .rFreN .. | .rNext .. | .rDesZ .. | .rFreZ .. | .uTrunc _ | .uClear _ => true
  | _ => false

/-- Read-side operations never touch the write mutex. -/
theorem C14_rcu_no_mutex {s : St} {t : Tid} (hr : readSide (s.pc t) = true) :
    step s t .mlk = none ∧ step s t .mul = none := by
  constructor
  · cases h : step s t .mlk with
    | none => rfl
    | some s' =>
      have hS := step_sound h
      cases hS <;> simp_all [readSide]
  · cases h : step s t .mul with
    | none => rfl
    | some s' =>
      have hS := step_sound h
      cases hS <;> simp_all [readSide]

/-- A thread at a read-side pc always has an accepted next event — in every reachable state, wherever
the writers (and everybody else) are. -/
theorem C14_rcu_enabled {s : St} {t : Tid} (h : Reachable s) (hr : readSide (s.pc t) = true) :
    ∃ e, (step s t e).isSome = true := by
  have hi := inv_reachable h
  have hok := hi.a.hok t
  have hitc := hi.a.itc t
  cases hp : s.pc t <;> rw [hp] at hr hok hitc <;> simp [readSide] at hr
  case called k =>
    cases k <;> simp [readSide] at hr
    case rel =>
      cases hh : s.hnd t with
      | none => rw [hh] at hok; simp [hndOk, hcls, Hnd.isNone] at hok
      | fresh w => exact ⟨.ret .rel, by simp [step, hp, hh]⟩
      | reg w r =>
        cases hn : (s.recs r).next with
        | none => exact ⟨.ald (.rnext r) .sc none, by simp [step, hp, hh, Ord.isSc, hn]⟩
        | some m => exact ⟨.ald (.rnext r) .sc (some m), by simp [step, hp, hh, Ord.isSc, hn]⟩
    case beg =>
      cases hh : s.hnd t with
      | none => rw [hh] at hok; simp [hndOk, hcls, Hnd.isNone] at hok
      | fresh w => exact ⟨.alo true s.nR, by simp [step, hp, hh]⟩
      | reg w r => exact ⟨.ald .head .sc s.head, by simp [step, hp, hh, Ord.isSc]⟩
    case nxt =>
      obtain ⟨c, hc⟩ := hitc (by simp [needsIt])
      cases hh : s.hnd t with
      | none => rw [hh] at hok; simp [hndOk, hcls, Hnd.isReg] at hok
      | fresh w => rw [hh] at hok; simp [hndOk, hcls, Hnd.isReg] at hok
      | reg w r => exact ⟨.ald (.nnext c) .sc (s.nodes c).next, by simp [step, hp, hh, hc, Ord.isSc]⟩
    case der =>
      obtain ⟨c, hc⟩ := hitc (by simp [needsIt])
      cases hh : s.hnd t with
      | none => rw [hh] at hok; simp [hndOk, hcls, Hnd.isReg] at hok
      | fresh w => rw [hh] at hok; simp [hndOk, hcls, Hnd.isReg] at hok
      | reg w r => exact ⟨.pldData c (s.nodes c).val, by simp [step, hp, hh, hc]⟩
  case retp k => exact ⟨.ret k, by simp [step, hp]⟩
  case regAlloc k r => exact ⟨.conR r (some t) none, by simp [step, hp]⟩
  case regCons k r => exact ⟨.ald .zhead .rlx s.zhead, by simp [step, hp]⟩
  case pushStore c r exp => exact ⟨.ast (.rnext r) .sc exp, by simp [step, hp]⟩
  case pushCas c r exp =>
    by_cases hz : s.zhead = exp
    · cases c with
      | reg k => exact ⟨.cas .sc exp (some r) true s.zhead, by simp [step, hp, Ord.isSc, hz]⟩
      | erase o => simp [readSide] at hr
    · exact ⟨.cas .sc exp (some r) false s.zhead, by simp [step, hp, Ord.isSc]⟩
  case uOwner r c m =>
    cases ho : (s.recs m).owner with
    | none => exact ⟨.ald (.rowner m) .sc none, by simp [step, hp, Ord.isSc, ho]⟩
    | some u => exact ⟨.ald (.rowner m) .sc (some u), by simp [step, hp, Ord.isSc, ho]⟩
  case uNext r c m =>
    cases hn : (s.recs m).next with
    | none => exact ⟨.ald (.rnext m) .sc none, by simp [step, hp, Ord.isSc, hn]⟩
    | some m2 => exact ⟨.ald (.rnext m) .sc (some m2), by simp [step, hp, Ord.isSc, hn]⟩
  case rZn r m =>
    cases hz : (s.recs m).znode with
    | none => exact ⟨.pldZn m true, by simp [step, hp, hz]⟩
    | some d => exact ⟨.pldZn m false, by simp [step, hp, hz]⟩
  case rDesN r m d => exact ⟨.des false d, by simp [step, hp]⟩
  case rFreN r m d => exact ⟨.fre false d, by simp [step, hp]⟩
  case rNext r m => exact ⟨.ald (.rnext m) .sc (s.recs m).next, by simp [step, hp, Ord.isSc]⟩
  case rDesZ r m nx => exact ⟨.des true m, by simp [step, hp]⟩
  case rFreZ r m nx => exact ⟨.fre true m, by simp [step, hp]⟩
  case uTrunc r => exact ⟨.ast (.rnext r) .sc none, by simp [step, hp, Ord.isSc]⟩
  case uClear r => exact ⟨.ast (.rowner r) .sc none, by simp [step, hp, Ord.isSc]⟩

/-- `begin`, `++`, `*` with a registered handle: one call marker, one load, one return marker. -/
def travRem : Pc → Nat
  | .called .beg | .called .nxt | .called .der => 2
  | .retp .beg | .retp .nxt | .retp .der => 1
  | _ => 0

theorem C14_rcu_traversal_bounded {s s' : St} {t : Tid} {e : Ev} (hs : step s t e = some s')
    (hreg : (s.hnd t).isReg = true) (hpos : 0 < travRem (s.pc t)) : travRem (s'.pc t) < travRem (s.pc t) := by
  have hS := step_sound hs
  cases hS <;> rename_i hpc <;> (try (rw [hpc] at hpos; simp [travRem] at hpos)) <;>
    simp_all [travRem, St.setPc, Hnd.isReg]
  all_goals (rename_i k _; cases k <;> simp_all [travRem])

/-- remaining own steps of a registration whose next CAS succeeds -/
def regRem : Pc → Nat
  | .regAlloc .. => 5
  | .regCons .. => 4
  | .pushStore (.reg _) .. => 2
  | .pushCas (.reg _) .. => 1
  | _ => 0

/-- A CAS that fails leaves the thread with the value of `m_zombie_head` it has just observed as its next
expected value: the loop retries with up-to-date information, it never waits. -/
theorem C14_rcu_cas_retry {s s' : St} {t : Tid} {o : Ord} {e d obs : Option Nat}
    (hs : step s t (.cas o e d false obs) = some s') :
    obs = s.zhead ∧ ∃ c r, s.pc t = .pushCas c r e ∧ s'.pc t = .pushStore c r s.zhead := by
  have hS := step_sound hs
  cases hS with
  | casFail c r exp o hpc ho => exact ⟨rfl, c, r, hpc, by simp [St.setPc]⟩

/-- If `m_zombie_head` still has the expected value the CAS succeeds (its success event is accepted) and
registration is complete: lock-freedom of the loop.  Together with `C14_rcu_cas_retry`: the CAS after a
failed one succeeds unless another thread's push moved `m_zombie_head` in between. -/
theorem C14_rcu_cas_succeeds {s : St} {t : Tid} {k : Op} {r : Nat} {exp : Option Nat}
    (hpc : s.pc t = .pushCas (.reg k) r exp) (hz : s.zhead = exp) :
    ∃ s', step s t (.cas .sc exp (some r) true s.zhead) = some s' ∧ s'.pc t = .called k ∧ s'.hnd t = .reg (s.hnd t).isW r := by
  refine ⟨_, by simp [step, hpc, Ord.isSc, hz]; rfl, by simp [St.setPc], by simp [St.setPc]⟩

/-- the store that precedes the CAS never changes `m_zombie_head`, so from `pushStore` with an up-to-date
expected value two own steps complete the registration -/
theorem C14_rcu_two_steps {s : St} {t : Tid} {k : Op} {r : Nat} (hpc : s.pc t = .pushStore (.reg k) r s.zhead) :
    ∃ s1 s2, step s t (.ast (.rnext r) .rlx s.zhead) = some s1 ∧
      step s1 t (.cas .sc s.zhead (some r) true s.zhead) = some s2 ∧ s2.pc t = .called k := by
  have h1 : step s t (.ast (.rnext r) .rlx s.zhead) =
      some ((s.setRNext r s.zhead).setPc t (.pushCas (.reg k) r s.zhead)) := by simp [step, hpc]
  obtain ⟨s2, h2, h3, _⟩ := C14_rcu_cas_succeeds (s := (s.setRNext r s.zhead).setPc t (.pushCas (.reg k) r s.zhead))
    (t := t) (k := k) (r := r) (exp := s.zhead) (by simp [St.setPc]) rfl
  exact ⟨_, s2, h1, h2, h3⟩

/-- potential of a registration: remaining steps, plus a retry (store + CAS) if the expected value is stale -/
def regPot (s : St) (t : Tid) : Nat :=
  match s.pc t with
  | .regAlloc .. => 7
  | .regCons .. => 6
  | .pushStore (.reg _) _ e => if e = s.zhead then 2 else 4
  | .pushCas (.reg _) _ e => if e = s.zhead then 1 else 3
  | _ => 0

/-- Every own step of a registering thread other than a spuriously failing CAS strictly decreases the
potential (7 after the allocation).  `m_zombie_head` — hence the potential of a thread that is not
moving — changes only by another thread's successful push.  So with every other thread suspended a
registration completes after at most 7 further own steps (wait-free); in general a thread is delayed
only by other threads' successful pushes (lock-free). -/
theorem C14_rcu_reg_measure {s s' : St} {t : Tid} {e : Ev} (hs : step s t e = some s') (hin : 0 < regRem (s.pc t))
    (hspur : ∀ o x d, e = .cas o x d false x → False) (hplain : e.kind ≠ .plain) : regPot s' t < regPot s t := by
  have hS := step_sound hs
  cases hp : s.pc t <;> rw [hp] at hin <;> simp [regRem] at hin
  case regAlloc k r =>
    cases hS <;> simp_all [regPot, St.setPc, St.setRled, Ev.kind]
  case regCons k r =>
    cases hS <;> simp_all [regPot, St.setPc]
    rename_i v _
    by_cases hv : v = s.zhead <;> simp [hv]
  case pushStore c r exp =>
    cases c <;> simp [regRem] at hin
    cases hS <;> simp_all [regPot, St.setPc, St.setRNext]
    by_cases hv : exp = s.zhead <;> simp [hv]
  case pushCas c r exp =>
    cases c <;> simp [regRem] at hin
    cases hS <;> simp_all [regPot, St.setPc]
    have hne : ¬ exp = s.zhead := fun e => hspur e.symm
    simp [hne]

/-! Non-vacuity: a reader in the middle of its registration CAS loop while a writer is suspended inside
`push_front` holding the write mutex (after allocating its node, before linking it). -/
def witness14 : List (Tid × Ev) :=
  [(1, .call (.lock true)), (1, .ret (.lock true)), (1, .call (.push true false 5)), (1, .alo true 0),
   (1, .conR 0 (some 1) none), (1, .ald .zhead .rlx none), (1, .ast (.rnext 0) .rlx none),
   (1, .cas .sc none (some 0) true none), (1, .mlk), (1, .alo false 0),
   (2, .call (.lock false)), (2, .ret (.lock false)), (2, .call .beg), (2, .alo true 1), (2, .conR 1 (some 2) none),
   (2, .ald .zhead .rlx none), (2, .ast (.rnext 1) .rlx none)]

example : ∃ s, Reachable s ∧ s.wmtx = some 1 ∧ s.pc 1 = .pCons (.push true false 5) 0 ∧
    s.pc 2 = .pushCas (.reg .beg) 1 none ∧ readSide (s.pc 2) = true ∧ s.zhead = some 0 ∧
    (step s 2 (.cas .sc none (some 1) false (some 0))).isSome = true :=
  ⟨_, ⟨witness14, rfl⟩, by decide, by decide, by decide, by decide, by decide, by decide⟩

end ConcVerif.Rcu
