import ConcVerif.Proof.DDAux
/-! # C20 (DelayedDestructor part) — a throwing callback never leaves the container locked or half-modified

`destroyObjects()` is `noexcept` with a `catch (...)` around the callbacks.  In the model a callback may throw at any
invocation (`uth k` is accepted whenever the callback for `k` is running, under every interleaving). -/
namespace ConcVerif.DD
open ConcVerif

/-- **C20_dd (swallowed, lock not held).** A throw from the callback is always handled inside destroyObjects: the
event is accepted, the thread does not hold `destructionLock` at that moment and nobody's lock state changes, and the
caller's frames are all still there (nothing propagates to the caller). -/
theorem C20_dd_throw_swallowed {cb ns nt} {s : St} {t : Tid} {sz : Nat} {ec cbs todo : List ObjId} {k : ObjId}
    {rest : List Frame} (h : Reachable cb ns nt s) (hfs : s.stk t = .dInCb sz ec cbs k todo :: rest)
    (hu : userLevel rest = true) :
    ∃ s', step s t (.uth k) = some s' ∧ s.lock ≠ some t ∧ s'.lock = s.lock ∧ rest <:+ s'.stk t ∧ s'.vec = s.vec := by
  refine ⟨drain s t sz cbs true rest ec, by simp [step, hfs], ?_, by simp, drain_suffix _ _ _ _ _ hu _, ?_⟩
  · intro hl
    have := (inv_reachable h).lockI t hl
    simp [hfs, holds, holdsF] at this
  · exact drain_vec_user _ _ _ _ _ hu _

/-- **C20_dd (the call still returns).** After the throw the remaining `ecall` entries are released one by one
(`dClear … true`); when the last payload destructor has returned, the call is about to return the recorded size
`sz` normally — no exception, no second lock acquisition. -/
theorem C20_dd_returns_size {s s' : St} {t : Tid} {sz : Nat} {cbs : List ObjId} {k : ObjId} {rest : List Frame}
    (hfs : s.stk t = .inDt k :: .dClear sz [] cbs true :: rest) (hu : userLevel rest = true)
    (hs : step s t (.pde k) = some s') : s'.stk t = .dRet (some sz) :: rest ∧ s'.lock = s.lock := by
  simp [step, hfs, resume, drain, dDone_user _ _ _ hu] at hs
  subst hs; simp

/-- **C20_dd (remaining reaped objects are destroyed).** Every object without a reference — in particular every
object the unwinding `ecall` vector released last — has been destroyed or its destructor is the next action of the
releasing thread; and once the call has returned, the thread owns no `ecall` entry any more. -/
theorem C20_dd_remaining_destroyed {cb ns nt} {s : St} (h : Reachable cb ns nt s) :
    (∀ k, k ∈ s.created → refs s k = 0 → k ∈ s.destroyed ∨ ∃ t, Frame.dying k ∈ s.stk t) ∧
    (∀ t, s.stk t = [] → ∀ k, (t, k) ∉ s.ecs) := by
  have hI := inv_reachable h
  refine ⟨fun k hk h0 => ?_, fun t ht k => own_idle hI.own ht k⟩
  rcases (hI.life.zero k).mp h0 with hc | hp | hd
  · exact absurd hk hc
  · obtain ⟨u, hu⟩ := hI.pend k hp
    exact Or.inr ⟨u, mem_dyingOf hu⟩
  · exact Or.inl hd

/-- **C20_dd (the container stays usable).** Whatever happened before (throws included), a thread back at script
level holds no lock, its next calls are accepted, and whoever holds the lock can release it. -/
theorem C20_dd_usable {cb ns nt} {s : St} {t : Tid} (h : Reachable cb ns nt s) (ht : s.stk t = [])
    (hd : s.dead = none) :
    s.lock ≠ some t ∧ (step s t .callSize).isSome = true ∧ (step s t .callDestroy).isSome = true ∧
    (∀ u, s.lock = some u → (step s u .mul).isSome = true) := by
  have hI := inv_reachable h
  have hv : s.vdead = false := by
    cases hvd : s.vdead with
    | false => rfl
    | true => exact absurd hd (hI.dt.g1 hvd).2
  have hm : s.mayCall t = true := by simp [St.mayCall, ht, userLevel, hd, hv]
  refine ⟨fun hl => ?_, by simp [step, ht, stepUser, hm], by simp [step, ht, stepUser, hm],
    fun u hl => holder_mul hl (hI.lockI u hl)⟩
  have := hI.lockI t hl
  simp [ht, holds] at this

/-! ## Non-vacuity -/

def throwTrace : List (Tid × Ev) :=
  [(1, .new 1), (1, .new 2), (1, .callAdd 1 true), (1, .mlk), (1, .mul), (1, .retAdd true),
   (1, .callAdd 2 true), (1, .mlk), (1, .mul), (1, .retAdd true),
   (1, .callDestroy), (1, .mtf true []), (1, .mul), (1, .ucb 1), (1, .uth 1),
   (1, .pdt 1), (1, .pde 1), (1, .pdt 2), (1, .pde 2), (1, .retDestroy (some 0)), (1, .callSize)]

/-- the callback for object 1 is running and may throw -/
example : ∃ s, Reachable true 0 1 s ∧ s.stk 1 = [.dInCb 0 [1, 2] [] 1 [2]] ∧ (step s 1 (.uth 1)).isSome = true :=
  ⟨_, ⟨throwTrace.take 14, rfl⟩, by decide, by decide⟩

/-- after the throw: object 1 is dying, object 2 (whose callback never ran) is still to be released, the lock is free -/
example : ∃ s, Reachable true 0 1 s ∧ s.stk 1 = [.dying 1, .dClear 0 [2] [] true] ∧ s.lock = none :=
  ⟨_, ⟨throwTrace.take 15, rfl⟩, by decide, by decide⟩

/-- both objects destroyed, the call returned 0, and the next call is under way -/
example : ∃ s, Reachable true 0 1 s ∧ s.destroyed = [2, 1] ∧ s.stk 1 = [.sizeCalled] ∧ s.ecs = [] :=
  ⟨_, ⟨throwTrace, rfl⟩, by decide, by decide, by decide⟩

end ConcVerif.DD
