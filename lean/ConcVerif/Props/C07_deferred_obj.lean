import ConcVerif.Proof.HBDeferredObj
/-! # C07 for `deferred_guarded` — the wrapped object, at the level of the model

`Props/C07_deferred.lean` covers the queued closure (edge `unlock qm → lock qm`).  This file covers the
WRAPPED OBJECT itself.  For EVERY trace accepted by the `deferred_guarded` model `Deferred.step` — any
value of `spur` (try-lock may or may not fail spuriously), any client program, any interleaving — mapped
to happens-before events by the same `Deferred.toHB o` / `hbTrace o` as the closure theorems
(`m` = mutex 0, shared-capable; `qm` = mutex 1; `m_pendingWrites` = atomic 0 with the ARBITRARY orders
`o : FlagOrds`, `relaxed` included; the object = plain location 0: `prd` ↦ `rd 0`, `pwr` ↦ `wr 0`;
successful `mtl` / `slk` / `stl` / `stf` ↦ acquisitions, `mul` / `sul` ↦ releases, failed try-locks and
all markers ↦ `nop`):

* the mapped trace is consistent with (shared) mutex semantics for `m` and for `qm`, and the
  happens-before view of who holds them is exactly the model's `mx` / `sh` / `qm`;
* every write of the object is made by a thread that holds `m` EXCLUSIVELY (the modifying function run
  by the caller of `modify_*` on the direct path, or by whichever thread drains the queue), every read by
  a thread that holds `m` in some mode (those, `load()`, and the holders of a shared handle);
* any two conflicting accesses of the object are ordered by happens-before;
* there is no data race in the whole mapped trace and the executable checker `raceFree` accepts it;
* what a DEFERRED function does to the object comes after the end of its push (object and queue together).

None of this depends on the orders of the flag: the flag never carries an edge that is needed. -/
namespace ConcVerif.Deferred

/-- **Mutex consistency of `m` and `qm`.**  Every accepted trace, mapped to happens-before events, respects
the semantics of (shared) mutexes at every acquisition and release: an acquisition happens only when the
thread holds nothing on that mutex and every other thread's hold is compatible (none, or shared against
shared), a release releases exactly what is held — for `m` (mutex 0) and `qm` (mutex 1), which are the
only mutexes of the mapped trace. -/
theorem C07_deferred_obj_mutex {spur : Bool} (o : FlagOrds) {es : List (Tid × Ev)} {s : St} (h : run spur es = some s) :
    HB.MutexOK (hbTrace o es) :=
  (hb_sim o h).M

/-- **Who holds what.**  After every accepted trace the happens-before bookkeeping of the mapped trace
agrees with the model state: thread `u` holds `m` exclusively iff it is `mx`, shared iff it is in `sh`
(never both), and holds `qm` iff it is the model's `qm`. -/
theorem C07_deferred_obj_held {spur : Bool} (o : FlagOrds) {es : List (Tid × Ev)} {s : St} (h : run spur es = some s)
    (u : Tid) :
    HB.held (hbTrace o es) u 0 = (if s.mx = some u then some .X else if u ∈ s.sh then some .S else none) ∧
    HB.held (hbTrace o es) u 1 = (if s.qm = some u then some .X else none) :=
  ⟨held_m o h u, held_qm o h u⟩

/-- **Lockset discipline of the object.**  In every accepted trace every read of the wrapped object is made
while the reading thread holds `m` (in any mode) and every write while the writing thread holds `m`
exclusively — in the happens-before view of the mapped trace, so the generic lockset theorem
`C07_lockset` applies to every accepted trace. -/
theorem C07_deferred_obj_lockset {spur : Bool} (o : FlagOrds) {es : List (Tid × Ev)} {s : St}
    (h : run spur es = some s) : HB.MutexOK (hbTrace o es) ∧ HB.LockSet (hbTrace o es) 0 0 :=
  ⟨(hb_sim o h).M, (hb_sim o h).L⟩

/-- **Writes are exclusive.**  If position `n` of an accepted trace is a write `pwr v` of the object by
thread `t`, then just before it `t` holds `m` exclusively in the happens-before view, and in the model
state `t` is the exclusive holder and there is no shared holder at all. -/
theorem C07_deferred_obj_write_exclusive {spur : Bool} (o : FlagOrds) {es : List (Tid × Ev)} {s : St}
    (h : run spur es = some s) {n : Nat} {t : Tid} {v : Int} (hn : es[n]? = some (t, .pwr v)) :
    HB.held ((hbTrace o es).take n) t 0 = some .X ∧
    ∃ s1, run spur (es.take n) = some s1 ∧ s1.mx = some t ∧ s1.sh = [] := by
  obtain ⟨s1, h1, hw, _⟩ := obj_access_state h hn
  have hl := (hb_sim o h).L n (by rw [hbTrace_length]; exact HB.lq_lt hn)
  simp only [HB.lockedAt, hbTrace_get hn, toHB] at hl
  exact ⟨hl trivial, s1, h1, hw v rfl⟩

/-- **Reads are locked.**  If position `n` of an accepted trace is a read `prd v` of the object by thread
`t`, then just before it `t` holds `m` in some mode in the happens-before view, and in the model state
`t` is the exclusive holder, or nobody holds `m` exclusively and `t` is one of the shared holders. -/
theorem C07_deferred_obj_read_locked {spur : Bool} (o : FlagOrds) {es : List (Tid × Ev)} {s : St}
    (h : run spur es = some s) {n : Nat} {t : Tid} {v : Int} (hn : es[n]? = some (t, .prd v)) :
    HB.held ((hbTrace o es).take n) t 0 ≠ none ∧
    ∃ s1, run spur (es.take n) = some s1 ∧ (s1.mx = some t ∨ (s1.mx = none ∧ t ∈ s1.sh)) := by
  obtain ⟨s1, h1, _, hr⟩ := obj_access_state h hn
  have hl := (hb_sim o h).L n (by rw [hbTrace_length]; exact HB.lq_lt hn)
  simp only [HB.lockedAt, hbTrace_get hn, toHB] at hl
  exact ⟨hl trivial, s1, h1, hr v rfl⟩

/-- **Conflicting accesses are ordered.**  In every accepted trace, whenever positions `i < j` hold two
accesses of the wrapped object of which at least one is a write, `i` happens-before `j` — for any orders
of the flag.  (The edge is an `unlock m → lock m` pair, at least one side exclusive.) -/
theorem C07_deferred_obj_ordered {spur : Bool} (o : FlagOrds) {es : List (Tid × Ev)} {s : St} (h : run spur es = some s)
    {i j : Nat} (hij : i < j) (hc : HB.ConflictOn (hbTrace o es) 0 i j) : HB.HB (hbTrace o es) i j :=
  obj_hb o h hij hc

/-- … the same in terms of the model events: a `pwr` and a later `prd` / `pwr`, or a `prd` and a later
`pwr`, at positions `i < j` of an accepted trace are ordered by happens-before. -/
theorem C07_deferred_obj_ordered_events {spur : Bool} (o : FlagOrds) {es : List (Tid × Ev)} {s : St}
    (h : run spur es = some s) {i j : Nat} {t u : Tid} {ei ej : Ev} (hij : i < j) (hi : es[i]? = some (t, ei))
    (hj : es[j]? = some (u, ej))
    (hc : (∃ v, ei = .pwr v) ∧ ((∃ w, ej = .prd w) ∨ ∃ w, ej = .pwr w) ∨ (∃ v, ei = .prd v) ∧ ∃ w, ej = .pwr w) :
    HB.HB (hbTrace o es) i j := by
  apply obj_hb o h hij
  refine ⟨t, u, _, _, hbTrace_get hi, hbTrace_get hj, ?_⟩
  rcases hc with ⟨⟨v, rfl⟩, ⟨w, rfl⟩ | ⟨w, rfl⟩⟩ | ⟨⟨v, rfl⟩, ⟨w, rfl⟩⟩
  · exact ⟨.inr rfl, .inl rfl, .inl rfl⟩
  · exact ⟨.inr rfl, .inr rfl, .inl rfl⟩
  · exact ⟨.inl rfl, .inr rfl, .inr rfl⟩

/-- **No data race.**  No accepted trace contains a pair of conflicting plain accesses that is not
ordered by happens-before (the object is the only plain location of the mapped trace). -/
theorem C07_deferred_obj_no_race {spur : Bool} (o : FlagOrds) {es : List (Tid × Ev)} {s : St}
    (h : run spur es = some s) : ¬ HB.Race (hbTrace o es) :=
  obj_no_race o h

/-- **The checker accepts.**  The executable vector-clock checker accepts the whole mapped trace — object,
both mutexes and the flag with ARBITRARY orders — of every trace the model accepts: a REJECT of the `hb`
driver on a `deferred_guarded` trace can only come with a rejection by the model. -/
theorem C07_deferred_obj_accepted {spur : Bool} (o : FlagOrds) {es : List (Tid × Ev)} {s : St}
    (h : run spur es = some s) : HB.raceFree (hbTrace o es) = true :=
  HB.raceFree_complete (obj_no_race o h)

/-- **Object and queue together.**  If thread `t` performs the event at position `n` of an accepted trace
while it is inside the function of QUEUED task `j` (pc `dIn _ j` in the state reached by the prefix: a read
or a write of the object, the return or the throw of the function), then the `unlock qm` that ended the
push of `j` (position `p`) happens-before `n`: everything the submitter did before queueing the closure is
visible to what the closure does to the object, in whichever thread it runs — for any orders of the flag. -/
theorem C07_deferred_obj_after_push {spur : Bool} (o : FlagOrds) {es : List (Tid × Ev)} {s1 : St} {n : Nat} {t : Tid}
    {e : Ev} (hn : es[n]? = some (t, e)) (h1 : run spur (es.take n) = some s1) {c : Ctx} {j : TaskId}
    (hpc : s1.pc t = .dIn c j) : ∃ p, p < n ∧ Pushed spur es p j ∧ HB.HB (hbTrace o es) p n :=
  deferred_after_push o hn h1 hpc

/-- **Where a write comes from.**  Every write of the object in an accepted trace is made either inside the
caller's own function on the direct path (the closure never left the thread), or inside the function of
a queued task — and then after the end of that task's push. -/
theorem C07_deferred_obj_write_origin {spur : Bool} (o : FlagOrds) {es : List (Tid × Ev)} {s : St}
    (h : run spur es = some s) {n : Nat} {t : Tid} {v : Int} (hn : es[n]? = some (t, .pwr v)) :
    ∃ s1, run spur (es.take n) = some s1 ∧
      ((∃ k a, s1.pc t = .aIn k a) ∨
       (∃ c j, s1.pc t = .dIn c j ∧ ∃ p, p < n ∧ Pushed spur es p j ∧ HB.HB (hbTrace o es) p n)) :=
  write_origin o h hn

/-! ### Non-vacuity -/

/-- thread 1 takes a shared handle and reads the object (4); thread 2 calls `modify_detach` (task 7): the
try-lock fails against the reader, the closure is queued (push ends at 8) and the flag raised; thread 1
reads again (11) and releases; thread 3 calls `lock_shared`, sees the flag, takes `m`, drains the queue and
runs task 7, which reads (21) and writes (22) the object, then gets its shared handle and reads (27);
thread 1 calls `load()` (read 31); thread 3 releases; thread 2 calls `modify_async` (task 8), gets `m` at
once and runs its own function on the direct path (read 39, write 40) -/
def hbObjWitness : List (Tid × Ev) :=
  [(1, .callSh .block), (1, .fld false), (1, .slk), (1, .got true), (1, .prd 0),
   (2, .callMod 7 false), (2, .mtl false), (2, .qlk), (2, .qul), (2, .fst true), (2, .ret),
   (1, .prd 0), (1, .sul),
   (3, .callSh .block), (3, .fld true), (3, .mtl true), (3, .fld true), (3, .fst false), (3, .qlk), (3, .qul),
   (3, .ucb 7), (3, .prd 0), (3, .pwr 5), (3, .uce 7 0), (3, .mul), (3, .slk), (3, .got true), (3, .prd 5),
   (1, .callLoad), (1, .fld false), (1, .slk), (1, .prd 5), (1, .sul), (1, .ret),
   (3, .sul),
   (2, .callMod 8 true), (2, .mtl true), (2, .fld false), (2, .ucb 8), (2, .prd 5), (2, .pwr 9), (2, .uce 8 1), (2, .mul),
   (2, .ret)]

/-- relaxed flag operations: the weakest instance -/
def rlxOrds : FlagOrds := { ld := .rlx, st := .rlx }

/-- the trace is accepted (with and without spurious try-lock failures) and contains conflicting accesses
of the object by different threads: reader 1 / deferred writer 3 (11, 22), deferred writer 3 / `load()` of
thread 1 (22, 31), deferred writer 3 / direct writer 2 (22, 40), reader 3 / direct writer 2 (27, 40) -/
example : (∃ s, run false hbObjWitness = some s) ∧ (∃ s, run true hbObjWitness = some s) ∧
    HB.ConflictOn (hbTrace rlxOrds hbObjWitness) 0 11 22 ∧ HB.ConflictOn (hbTrace rlxOrds hbObjWitness) 0 22 31 ∧
    HB.ConflictOn (hbTrace rlxOrds hbObjWitness) 0 22 40 ∧ HB.ConflictOn (hbTrace rlxOrds hbObjWitness) 0 27 40 :=
  ⟨⟨_, rfl⟩, ⟨_, rfl⟩, ⟨1, 3, _, _, rfl, rfl, .inl rfl, .inr rfl, .inr rfl⟩,
    ⟨3, 1, _, _, rfl, rfl, .inr rfl, .inl rfl, .inl rfl⟩, ⟨3, 2, _, _, rfl, rfl, .inr rfl, .inr rfl, .inl rfl⟩,
    ⟨3, 2, _, _, rfl, rfl, .inl rfl, .inr rfl, .inr rfl⟩⟩

/-- the theorems apply to it: the four pairs are ordered although both flag operations are relaxed -/
example : HB.HB (hbTrace rlxOrds hbObjWitness) 11 22 ∧ HB.HB (hbTrace rlxOrds hbObjWitness) 22 31 ∧
    HB.HB (hbTrace rlxOrds hbObjWitness) 22 40 ∧ HB.HB (hbTrace rlxOrds hbObjWitness) 27 40 :=
  have h : run false hbObjWitness = some _ := rfl
  ⟨C07_deferred_obj_ordered_events rlxOrds h (by decide) rfl rfl (.inr ⟨⟨_, rfl⟩, _, rfl⟩),
   C07_deferred_obj_ordered_events rlxOrds h (by decide) rfl rfl (.inl ⟨⟨_, rfl⟩, .inl ⟨_, rfl⟩⟩),
   C07_deferred_obj_ordered_events rlxOrds h (by decide) rfl rfl (.inl ⟨⟨_, rfl⟩, .inr ⟨_, rfl⟩⟩),
   C07_deferred_obj_ordered_events rlxOrds h (by decide) rfl rfl (.inr ⟨⟨_, rfl⟩, _, rfl⟩)⟩

/-- the deferred write at 22 (thread 3, task 7 queued by thread 2) is made holding `m` exclusively with no
shared holder, and comes after the end of the push at 8 -/
example : HB.held ((hbTrace rlxOrds hbObjWitness).take 22) 3 0 = some .X ∧
    ∃ p, p < 22 ∧ Pushed false hbObjWitness p 7 ∧ HB.HB (hbTrace rlxOrds hbObjWitness) p 22 :=
  ⟨(C07_deferred_obj_write_exclusive rlxOrds (es := hbObjWitness) (s := _) (spur := false) rfl (n := 22) rfl).1,
   C07_deferred_obj_after_push rlxOrds (es := hbObjWitness) (n := 22) (s1 := _) (c := .sh (.acq .block)) rfl rfl rfl⟩

/-- the mapped trace is consistent with mutex semantics and satisfies the lockset discipline (decided
directly, independently of the theorem) -/
example : HB.MutexOK (hbTrace rlxOrds hbObjWitness) ∧ HB.LockSet (hbTrace rlxOrds hbObjWitness) 0 0 := by decide

/-- the whole mapped trace is race free with relaxed flag operations -/
example : HB.raceFree (hbTrace rlxOrds hbObjWitness) = true := by decide

/-- the model is not vacuously permissive: a write by a thread that only holds a shared handle, a write
with no lock at all, and a read after the handle was released are all rejected -/
example : run false [(1, .callSh .block), (1, .fld false), (1, .slk), (1, .got true), (1, .pwr 5)] = none ∧
    run false [(1, .pwr 5)] = none ∧
    run false [(1, .callSh .block), (1, .fld false), (1, .slk), (1, .got true), (1, .sul), (1, .prd 0)] = none :=
  ⟨rfl, rfl, rfl⟩

/-- … and the checker does reject the corresponding unprotected write: the reader of position 11 against a
write by thread 3 that is not bracketed by `m` -/
example : HB.raceFree [(1, .acq 0 .S), (1, .rd 0), (3, .wr 0), (1, .rel 0 .S)] = false := by decide

end ConcVerif.Deferred
