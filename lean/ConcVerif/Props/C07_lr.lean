import ConcVerif.Proof.HBLRMain
/-! # C07 for `lr_guarded` — the left-right protocol is data-race free, at the level of the model

For EVERY trace accepted by the left-right model `LR.step` (any number of readers and writers, any
interleaving, exceptions of the user functor included; the same `step` the observed traces of the real
`lr_guarded.hpp` are checked against by the `lr` / `lr_strict` components), mapped to happens-before
events (`LR.toHB`: the flags and counters with their memory orders, the write mutex, the plain accesses
of the two copies):

* every write to a copy (functor application, roll-back / roll-forward copy) happens-after every
  earlier read and write of that copy, and
* every read of a copy (through a reader's handle, or as the source of a copy) happens-after every
  earlier write of it.

The edges: `unlock → lock` of the write mutex between writers; the writer's store of `m_readingLeft` →
the reader's load that read it; the reader's decrement (RMW) → the writer's load of that counter — the
counters are never stored to, so the release sequence headed by each decrement reaches every later load.
The interleaving part (no reader holds the side being written) is `Proof/LR.lean` (C03); the
happens-before part adds five trace invariants (`Proof/HBLRInv.lean`).

The theorems are stated for an arbitrary assignment `o : Ords` of memory orders to the seven kinds of
atomic operation that satisfies `o.OK`: store of `m_readingLeft` and counter decrement at least
`release`, load of `m_readingLeft` and counter load at least `acquire`.  Today's code is `Ords.sc`
(everything seq_cst; the model parses nothing else).  Each of the four requirements is necessary
(`C07_lr_*_needed`: a concrete accepted trace that races when that one order is relaxed).  The orders of
the increment and of `m_countingLeft` carry no happens-before obligation: their seq_cst matters for
the interleaving (the store-buffering pattern `store rl; load cnt ∥ inc cnt; load rl`), which the
operational abstraction of `Base/HB.lean` takes as given — see the `partial` text of C07. -/
namespace ConcVerif.LR

/-- **Left-right, every conflicting pair is ordered.**  In every trace accepted by the model, for every
assignment of memory orders satisfying `o.OK`: if the events at `i < j` access the same copy and at
least one of them writes it (`LRConf`: both ends of an application / copy window count as accesses, a
copy window both as a write of its target and as a read of its source), then `i` happens-before `j`. -/
theorem C07_lr_order {o : Ords} (ho : o.OK) {b : Bool} {es : List (Tid × Ev)} {s : St} (h : run (init b) es = some s)
    {i j : Nat} {u t : Tid} {ei ej : Ev} (hij : i < j) (hi : es[i]? = some (u, ei)) (hj : es[j]? = some (t, ej))
    (hc : LRConf ei ej) : HB.HB (hbTrace o es) i j :=
  lr_order ho h hij hi hj hc

/-- **C07 for lr_guarded (today's code: all seq_cst).** -/
theorem C07_lr {b : Bool} {es : List (Tid × Ev)} {s : St} (h : run (init b) es = some s)
    {i j : Nat} {u t : Tid} {ei ej : Ev} (hij : i < j) (hi : es[i]? = some (u, ei)) (hj : es[j]? = some (t, ej))
    (hc : LRConf ei ej) : HB.HB (hbTrace .sc es) i j :=
  lr_order Ords.sc_ok h hij hi hj hc

/-- Reader → writer: a write to copy `x` (either end of a functor application or of a copy onto `x`)
happens-after every earlier read of `x` through a reader's handle. -/
theorem C07_lr_write_after_read {b : Bool} {es : List (Tid × Ev)} {s : St} (h : run (init b) es = some s)
    {i j : Nat} {r t : Tid} {x : Side} {v : List OpId} {ej : Ev} (hij : i < j) (hi : es[i]? = some (r, .rd x v))
    (hj : es[j]? = some (t, ej)) (hw : ej.wrS = some x) : HB.HB (hbTrace .sc es) i j :=
  lr_order Ords.sc_ok h hij hi hj ⟨x, .inr ⟨.inr rfl, hw⟩⟩

/-- Writer → reader: a read of copy `x` through a handle happens-after every earlier write to `x`. -/
theorem C07_lr_read_after_write {b : Bool} {es : List (Tid × Ev)} {s : St} (h : run (init b) es = some s)
    {i j : Nat} {w r : Tid} {x : Side} {v : List OpId} {ei : Ev} (hij : i < j) (hi : es[i]? = some (w, ei))
    (hw : ei.wrS = some x) (hj : es[j]? = some (r, .rd x v)) : HB.HB (hbTrace .sc es) i j :=
  lr_order Ords.sc_ok h hij hi hj ⟨x, .inl ⟨hw, .inr rfl⟩⟩

/-- Writer → writer: every write / copy access of a writer happens-after every earlier one (through
the write mutex), whatever the sides. -/
theorem C07_lr_write_after_write {b : Bool} {es : List (Tid × Ev)} {s : St} (h : run (init b) es = some s)
    {i j : Nat} {u t : Tid} {x : Side} {ei ej : Ev} (hij : i < j) (hi : es[i]? = some (u, ei))
    (hj : es[j]? = some (t, ej)) (hwi : ei.wrS = some x) (hwj : ej.wrS = some x) : HB.HB (hbTrace .sc es) i j :=
  lr_order Ords.sc_ok h hij hi hj ⟨x, .inl ⟨hwi, .inl hwj⟩⟩

/-- … hence the mapped trace of every accepted trace has no data race (declarative definition), for
every admissible assignment of orders … -/
theorem C07_lr_no_race {o : Ords} (ho : o.OK) {b : Bool} {es : List (Tid × Ev)} {s : St}
    (h : run (init b) es = some s) : ¬ HB.Race (hbTrace o es) :=
  lr_no_race ho h

/-- … and the executable race checker accepts it: a REJECT of the `hb` driver on a left-right trace can
only come with a rejection by the left-right model (or with a weakened memory order). -/
theorem C07_lr_accepted {b : Bool} {es : List (Tid × Ev)} {s : St} (h : run (init b) es = some s) :
    HB.raceFree (hbTrace .sc es) = true :=
  HB.raceFree_complete (lr_no_race Ords.sc_ok h)

/-! ## non-vacuity and necessity of the four orders -/

/-- reader 1 reads L; writer 2 modifies (writes R, flips, waits for reader 1, writes L); reader 3 then
reads R -/
def hbWitness : List (Tid × Ev) :=
  [(1, .call (.ls 0)), (1, .ldCL .L), (1, .inc .L 0), (1, .ldRL .L), (1, .ret (.ls 0)), (1, .rd .L []),
   (2, .call (.modify 7)), (2, .lock), (2, .fBegin .R), (2, .fEnd .R [7]), (2, .stRL .R),
   (2, .ldCnt .L 1), (2, .yld),
   (1, .call .rel), (1, .dec .L 1), (1, .ret .rel),
   (2, .ldCnt .L 0), (2, .ldCnt .R 0), (2, .fBegin .L), (2, .fEnd .L [7]), (2, .unlock), (2, .ret (.modify 7)),
   (3, .call (.ls 0)), (3, .ldCL .L), (3, .inc .L 0), (3, .ldRL .R), (3, .ret (.ls 0)), (3, .rd .R [7])]

/-- the trace is accepted and contains a reader→writer conflict (5, 18) and a writer→reader conflict
(9, 27) between different threads -/
example : ∃ s, run (init false) hbWitness = some s ∧
    hbWitness[5]? = some (1, .rd .L []) ∧ hbWitness[18]? = some (2, .fBegin .L) ∧
    hbWitness[9]? = some (2, .fEnd .R [7]) ∧ hbWitness[27]? = some (3, .rd .R [7]) ∧
    LRConf (.rd .L []) (.fBegin .L) ∧ LRConf (.fEnd .R [7]) (.rd .R [7]) :=
  ⟨_, rfl, rfl, rfl, rfl, rfl, ⟨.L, .inr ⟨.inr rfl, rfl⟩⟩, ⟨.R, .inl ⟨rfl, .inr rfl⟩⟩⟩

example : HB.HB (hbTrace .sc hbWitness) 5 18 ∧ HB.HB (hbTrace .sc hbWitness) 9 27 :=
  ⟨C07_lr (s := _) (b := false) rfl (by decide) rfl rfl ⟨.L, .inr ⟨.inr rfl, rfl⟩⟩,
   C07_lr (s := _) (b := false) rfl (by decide) rfl rfl ⟨.R, .inl ⟨rfl, .inr rfl⟩⟩⟩

/-- a REJECT of the checker is a race of the declarative definition (completeness of the checker) -/
theorem C07_lr_reject_is_race {tr : HB.Trace} (h : HB.raceFree tr = false) : HB.Race tr :=
  Classical.byContradiction fun hn => by
    have := HB.raceFree_complete hn
    rw [h] at this; cases this

/-- **The decrement must release.**  With a relaxed decrement of the reader counter the same accepted
trace has a data race: the writer's second application on L is not ordered after reader 1's read of L. -/
theorem C07_lr_dec_needed : ∃ s, run (init false) hbWitness = some s ∧ HB.Race (hbTrace { dec := .rlx } hbWitness) :=
  ⟨_, rfl, C07_lr_reject_is_race (by decide)⟩

/-- **The writer's counter load must acquire.** -/
theorem C07_lr_ldCnt_needed : ∃ s, run (init false) hbWitness = some s ∧ HB.Race (hbTrace { ldCnt := .rlx } hbWitness) :=
  ⟨_, rfl, C07_lr_reject_is_race (by decide)⟩

/-- **The store of `m_readingLeft` must release**: otherwise reader 3's read of R is not ordered after
the writer's first application on R. -/
theorem C07_lr_stRL_needed : ∃ s, run (init false) hbWitness = some s ∧ HB.Race (hbTrace { stRL := .rlx } hbWitness) :=
  ⟨_, rfl, C07_lr_reject_is_race (by decide)⟩

/-- **The reader's load of `m_readingLeft` must acquire.** -/
theorem C07_lr_ldRL_needed : ∃ s, run (init false) hbWitness = some s ∧ HB.Race (hbTrace { ldRL := .rlx } hbWitness) :=
  ⟨_, rfl, C07_lr_reject_is_race (by decide)⟩

/-- acquire / release on those four and relaxed everywhere else is enough for data-race freedom of
every accepted trace (NOT for the interleaving the model describes: see the header) -/
theorem C07_lr_weakest_orders {b : Bool} {es : List (Tid × Ev)} {s : St} (h : run (init b) es = some s) :
    ¬ HB.Race (hbTrace { ldRL := .acq, stRL := .rel, ldCL := .rlx, stCL := .rlx, inc := .rlx, dec := .rel, ldCnt := .acq } es) :=
  lr_no_race ⟨rfl, rfl, rfl, rfl⟩ h

example : HB.raceFree (hbTrace .sc hbWitness) = true := C07_lr_accepted (s := _) (b := false) rfl

end ConcVerif.LR
