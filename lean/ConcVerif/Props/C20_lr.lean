import ConcVerif.Proof.LRStep
/-! # C20 (lr_guarded part) — a throwing functor leaves the object unlocked and all-or-nothing

Over the model `Model/LR.lean`, in which the user functor may throw (`uth`) before, in the middle of (leaving the
copy torn) or after its work, in the first and in the second application, under every interleaving with readers and
other writers.  `base` is `committed` at the moment the throwing `modify` took the write mutex.  All C03 / C14
theorems are proved over this same model, i.e. they hold on traces containing throws: later readers and writers
see one consistent value.  (The copy assignment of the roll-back / roll-forward throwing as well is the case the
header documents as "indeterminate" and is not modelled; the harness never injects it.) -/
namespace ConcVerif.LR

/-- Every choice of the throwing invocation is a model edge: the first application can throw before, during and
after its write (→ roll-back), the second likewise (→ roll-forward). -/
theorem C20_lr_throw_points (s : St) (t : Tid) (op : OpId) (l : Side) :
    (s.pc t = .wA op l ∨ s.pc t = .wF1 op l ∨ s.pc t = .wF1d op l → step s t .uth = some (s.setPc t (.wRb op l))) ∧
    (s.pc t = .wWait op l true true ∨ s.pc t = .wF2 op l ∨ s.pc t = .wF2d op l →
      step s t .uth = some (s.setPc t (.wRf op l))) := by
  constructor <;> intro h <;> rcases h with h | h | h <;> simp [step, h]

/-- First application throws ⇒ rolled back: when the roll-back copy is complete (the mutex still held) both copies
equal `base`, nothing was committed and the side flag was not flipped — the modification has no effect at all, and
at no point in between could a reader hold the copy that was being written (`C03_no_touch`). -/
theorem C20_lr_first {s : St} (h : Reachable s) {w : Tid} {op : OpId} {l : Side} (hw : s.pc w = .wRbD op l) :
    s.valL = s.base ∧ s.valR = s.base ∧ s.committed = s.base ∧ s.rl = l ∧ s.mtx = some w := by
  have hf := full_reachable h
  have hq : (s.pc w).post = true := by simp [hw, Pc.post]
  have vk := hf.vinv.vk w hq; rw [hw] at vk
  have ph := hf.inv.phase w hq; rw [hw] at ph
  exact ⟨vk.2 .L, vk.2 .R, vk.1, ph.1, (hf.inv.holder w).1 hq⟩

/-- While the first application or its roll-back is in progress, nothing is committed and the copy readers are
directed to is intact: whatever the functor did to the other copy is invisible. -/
theorem C20_lr_first_invisible {s : St} (h : Reachable s) {w : Tid} {op : OpId} {l : Side}
    (hw : s.pc w = .wF1 op l ∨ s.pc w = .wRb op l ∨ s.pc w = .wRbC op l) :
    s.committed = s.base ∧ s.rl = l ∧ s.val l = s.base ∧ ∀ r x, (s.pc r).held = some x → x = l := by
  have hf := full_reachable h
  rcases hw with hw | hw | hw
  all_goals
    have hq : (s.pc w).post = true := by simp [hw, Pc.post]
    have vk := hf.vinv.vk w hq; rw [hw] at vk
    have ph := hf.inv.phase w hq; rw [hw] at ph
  · exact ⟨vk.1, ph.1, vk.2 l, ph.2⟩
  · exact ⟨vk.1, ph.1, vk.2, ph.2⟩
  · exact ⟨vk.1, ph.1, vk.2, ph.2⟩

/-- Second application throws ⇒ rolled forward: when the roll-forward copy is complete both copies equal
`base ++ [op]`, which is `committed` — the modification took effect completely. -/
theorem C20_lr_second {s : St} (h : Reachable s) {w : Tid} {op : OpId} {l : Side} (hw : s.pc w = .wRfD op l) :
    s.valL = s.base ++ [op] ∧ s.valR = s.base ++ [op] ∧ s.committed = s.base ++ [op] ∧ s.rl = l.flip ∧ s.mtx = some w := by
  have hf := full_reachable h
  have hq : (s.pc w).post = true := by simp [hw, Pc.post]
  have vk := hf.vinv.vk w hq; rw [hw] at vk
  have ph := hf.inv.phase w hq; rw [hw] at ph
  exact ⟨vk.2 .L, vk.2 .R, vk.1, ph.1, (hf.inv.holder w).1 hq⟩

/-- While the second application or its roll-forward is in progress, readers can only hold the complete copy. -/
theorem C20_lr_second_invisible {s : St} (h : Reachable s) {w : Tid} {op : OpId} {l : Side}
    (hw : s.pc w = .wF2 op l ∨ s.pc w = .wRf op l ∨ s.pc w = .wRfC op l) :
    s.committed = s.base ++ [op] ∧ s.rl = l.flip ∧ s.val l.flip = s.committed ∧
      ∀ r x, (s.pc r).held = some x → x = l.flip := by
  have hf := full_reachable h
  rcases hw with hw | hw | hw
  all_goals
    have hq : (s.pc w).post = true := by simp [hw, Pc.post]
    have vk := hf.vinv.vk w hq; rw [hw] at vk
    have ph := hf.inv.phase w hq; rw [hw] at ph
  · exact ⟨vk.1, ph.1, by rw [vk.1]; exact vk.2.2, ph.2⟩
  · exact ⟨vk.1, ph.1, by rw [vk.1]; exact vk.2, ph.2⟩
  · exact ⟨vk.1, ph.1, by rw [vk.1]; exact vk.2, ph.2⟩

/-- `base` really is `committed` at the time the mutex was taken: it is written by the `lock` event only. -/
theorem C20_lr_base {s s' : St} {t : Tid} {e : Ev} (hs : step s t e = some s') :
    s'.base = s.base ∨ (e = .lock ∧ s'.base = s.committed) :=
  step_base hs

/-- The lock is released before the exception reaches the caller: a thread whose `modify` is propagating an
exception (or is outside any call) does not hold the write mutex; and the unlock that got it there left both
copies equal to `committed`. -/
theorem C20_lr_released {s : St} (h : Reachable s) {t : Tid} (ht : (∃ op fwd, s.pc t = .wExc op fwd) ∨ s.pc t = .idle) :
    s.mtx ≠ some t := by
  have hi := (full_reachable h).inv
  intro hm
  have := (hi.holder t).2 hm
  rcases ht with ⟨op, fwd, ht⟩ | ht <;> simp [ht, Pc.post] at this

/-- the unlock on the exception path (from either catch block) frees the mutex with both copies = `committed` -/
theorem C20_lr_unlock_consistent {s s' : St} (h : Reachable s) {t : Tid} {op : OpId} {fwd : Bool}
    (hs : step s t .unlock = some s') (h' : s'.pc t = .wExc op fwd) :
    s'.mtx = none ∧ s'.valL = s'.committed ∧ s'.valR = s'.committed ∧
      (fwd = false → s'.committed = s.base) ∧ (fwd = true → s'.committed = s.base ++ [op]) := by
  have h1 := reachable_step h hs
  obtain ⟨hc, hk⟩ := step_to_exc hs h'
  have hm : s'.mtx = none := by
    rcases hk with ⟨_, l, hl⟩ | ⟨_, l, hl⟩ <;> simp [step, hl] at hs <;> obtain ⟨_, rfl⟩ := hs <;> rfl
  have hq := (full_reachable h1).vinv.vquiet hm
  refine ⟨hm, hq .L, hq .R, ?_, ?_⟩
  · intro hf; subst hf
    rcases hk with ⟨_, l, hl⟩ | ⟨hf, _⟩
    · rw [hc]; exact (C20_lr_first h hl).2.2.1
    · cases hf
  · intro hf; subst hf
    rcases hk with ⟨hf, _⟩ | ⟨_, l, hl⟩
    · cases hf
    · rw [hc]; exact (C20_lr_second h hl).2.2.1

/-- after a roll-forward the operation is, and stays, in `committed` when the exception reaches the caller -/
theorem C20_lr_second_committed {s : St} (h : Reachable s) {t : Tid} {op : OpId} (ht : s.pc t = .wExc op true) :
    op ∈ s.committed :=
  ret_committed h t op (Or.inr ht)

/-- The wrapper stays usable: whenever the mutex is free a waiting writer can take it, and readers are enabled in
every state (`C14_lr_reader_enabled`). -/
theorem C20_lr_usable (s : St) (t : Tid) (op : OpId) (h : s.pc t = .wCalled op) (hm : s.mtx = none) :
    (step s t .lock).isSome = true := by
  simp [step, h, hm]

/-! ## non-vacuity -/

/-- first application throws in the middle (copy R torn), rolled back, unlocked: both copies `[]`, nothing committed;
a reader then sees `[]` and another modify goes through -/
example : ∃ s s', Reachable s ∧ s.pc 0 = .wExc 7 false ∧ s.mtx = none ∧ s.valL = [] ∧ s.valR = [] ∧ s.committed = [] ∧
    run s [(0, .exc (.modify 7)), (1, .call (.ls 0)), (1, .ldCL .L), (1, .inc .L 0), (1, .ldRL .L), (1, .ret (.ls 0)),
           (1, .rd .L []), (2, .call (.modify 8)), (2, .lock)] = some s' :=
  ⟨_, _, ⟨false, [(0, .call (.modify 7)), (0, .lock), (0, .ldRL .L), (0, .fBegin .R), (0, .uth), (0, .cpBegin .R), (0, .cpEnd .R []),
         (0, .unlock)], rfl⟩, rfl, rfl, rfl, rfl, rfl, rfl⟩

/-- second application throws, rolled forward: both copies `[7]` = committed -/
example : ∃ s, Reachable s ∧ s.pc 0 = .wRfD 7 .L ∧ s.valL = [7] ∧ s.valR = [7] ∧ s.committed = [7] :=
  ⟨_, ⟨false, [(0, .call (.modify 7)), (0, .lock), (0, .ldRL .L), (0, .fBegin .R), (0, .fEnd .R [7]), (0, .stRL .R), (0, .ldCL .L),
         (0, .ldCnt .R 0), (0, .stCL .R), (0, .ldCnt .L 0), (0, .fBegin .L), (0, .uth), (0, .cpBegin .L), (0, .cpEnd .L [7])],
      rfl⟩, rfl, rfl, rfl, rfl⟩

/-- the model rejects a roll-back that copies the wrong way (onto the side readers use) or a wrong value -/
example : ∃ s, Reachable s ∧ s.pc 0 = .wRb 7 .L ∧ step s 0 (.cpBegin .L) = none ∧
    (∃ s1, step s 0 (.cpBegin .R) = some s1 ∧ step s1 0 (.cpEnd .R [7]) = none) :=
  ⟨_, ⟨false, [(0, .call (.modify 7)), (0, .lock), (0, .ldRL .L), (0, .fBegin .R), (0, .fEnd .R [7]), (0, .uth)], rfl⟩, rfl, rfl,
    ⟨_, rfl, rfl⟩⟩

end ConcVerif.LR
