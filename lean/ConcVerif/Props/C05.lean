import ConcVerif.Proof.RcuAll
/-! # C05 — rcu_list never frees an element (or a log record) a live handle may still reach

All statements are over `Reachable s` (model `Model/Rcu.lean`): any number of reader / writer threads, any
client program, any interleaving of primitive steps.  The model does not consult the allocation ledger
(`nled`, `rled` are ghost); "live" = ledger state `cons` (constructed, not yet destroyed).

Layering as in DESIGN §7.4 / §8.C05.

**Log layer** (R1–R5, from invariant layer B):
* `C05_record_safe`  — every access to a field of a log record (`next`, `owner`, `zombie_node`) hits a
  constructed record (the constructor's own plain stores hit the freshly allocated one);
* `C05_record_once`  — a record is deallocated only in state `dest`, i.e. at most once;
* `C05_reclaimer_unique` — at most one thread is in the reclaim phase of `rcu_guard::unlock`;
* `C05_grace` — a node is destroyed / freed by a handle release only while every record older than the
  reclaimer's own record is inactive (`owner == nullptr`), the reclaimer's record is still active, and the
  node is named by the zombie record the reclaimer has just taken off the log.

**List layer** (N2–N4, invariant layer E):
* `C05_reach` — every node a registered handle can name (its iterator; the node `erase` works on / returns) is
  *protected*: linked, or being erased (zombie record not yet pushed), or named by a zombie record that lies on the log
  above the handle's own record; and the `next` of a protected unlinked node is protected again;
* `C05_deref_live` — every access to the memory of a list node (`next`, `back`, `deleted`, `data`) by any thread — reader
  traversal, writer, destructor — hits a node whose ledger state is `cons`: constructed and neither destroyed nor freed
  (the element constructor's own stores hit the freshly allocated node). -/
namespace ConcVerif.Rcu

/-- the log record whose memory an event reads or writes -/
def Ev.recTouched : Ev → Option Nat
  | .ald (.rnext r) _ _ | .ald (.rowner r) _ _ | .ast (.rnext r) _ _ | .ast (.rowner r) _ _ => some r
  | .pldZn r _ | .pstZn r _ => some r
  | _ => none

/-- Every access to the memory of a log record hits a live record. -/
theorem C05_record_safe {s s' : St} {t : Tid} {e : Ev} {r : Nat} (h : Reachable s) (hs : step s t e = some s')
    (hr : e.recTouched = some r) : s.rled r = .cons ∨ (s.rled r = .alloc ∧ ∃ b, e = .pstZn r b) := by
  have hi := inv_reachable h
  have hS := step_sound hs
  have privc : ∀ m, privRec (BView (s.pc t)) = some m → privLed (BView (s.pc t)) = .cons → s.rled m = .cons :=
    fun m h1 h2 => priv_live hi h1 h2
  have priva : ∀ m, privRec (BView (s.pc t)) = some m → privLed (BView (s.pc t)) = .alloc → s.rled m = .alloc := by
    intro m h1 h2
    have := (hi.b.privOk t m h1).2
    simp only [bview_vpc, bview_rled] at this
    rw [this, h2]
  cases hS with
  | relSome w r' m o hpc hh ho hv => cases hr; exact Or.inl (own_live hi hh)
  | relNone w r' o hpc hh ho hv => cases hr; exact Or.inl (own_live hi hh)
  | regPst k r' hpc => cases hr; exact Or.inr ⟨priva _ (by simp [hpc, BView, privRec]) (by simp [hpc, BView, privLed]), _, rfl⟩
  | ePst c o z hpc => cases hr; exact Or.inr ⟨priva _ (by simp [hpc, BView, privRec]) (by simp [hpc, BView, privLed]), _, rfl⟩
  | pushStore c r' exp o hpc => cases hr; exact Or.inl (privc _ (by simp [hpc, BView, privRec]) (by simp [hpc, BView, privLed]))
  | uOwnerActive r' c m o u hpc ho hv => cases hr; exact Or.inl (scan_cursor_live hi (Or.inl hpc))
  | uOwnerInactive r' c m o hpc ho hv => cases hr; exact Or.inl (scan_cursor_live hi (Or.inl hpc))
  | uNextSome r' c m m2 o hpc ho hv => cases hr; exact Or.inl (scan_cursor_live hi (Or.inr hpc))
  | uNextNone r' c m o hpc ho hv => cases hr; exact Or.inl (scan_cursor_live hi (Or.inr hpc))
  | rZnNode r' m d hpc hz => cases hr; exact Or.inl (privc _ (by simp [hpc, BView, privRec]) (by simp [hpc, BView, privLed]))
  | rZnNull r' m hpc hz => cases hr; exact Or.inl (privc _ (by simp [hpc, BView, privRec]) (by simp [hpc, BView, privLed]))
  | rNext r' m o hpc ho => cases hr; exact Or.inl (privc _ (by simp [hpc, BView, privRec]) (by simp [hpc, BView, privLed]))
  | uTrunc r' o hpc ho =>
    cases hr
    have := hi.b.reap t
    simp only [bview_vpc, hpc, BView, ReapP, bview_log] at this
    have hlc := hi.b.logCons
    simp only [bview_log, bview_rled] at hlc
    exact Or.inl (hlc _ this.1)
  | uClear r' o hpc ho =>
    cases hr
    obtain ⟨w, hw⟩ := hi.a.myr t _ (by simp [hpc, myRec]; rfl)
    exact Or.inl (own_live hi hw)
  | dOwner m o hpc ho hv => cases hr; exact Or.inl (privc _ (by simp [hpc, BView, privRec]) (by simp [hpc, BView, privLed]))
  | dRNext m o hpc ho => cases hr; exact Or.inl (privc _ (by simp [hpc, BView, privRec]) (by simp [hpc, BView, privLed]))
  | dZnNode m nx d hpc hz => cases hr; exact Or.inl (privc _ (by simp [hpc, BView, privRec]) (by simp [hpc, BView, privLed]))
  | dZnNull m nx hpc hz => cases hr; exact Or.inl (privc _ (by simp [hpc, BView, privRec]) (by simp [hpc, BView, privLed]))
  | dDesZNpld m nx d hpc => cases hr; exact Or.inl (privc _ (by simp [hpc, BView, privRec]) (by simp [hpc, BView, privLed]))
  | dFreZNpld m nx d hpc => cases hr; exact Or.inl (privc _ (by simp [hpc, BView, privRec]) (by simp [hpc, BView, privLed]))
  | _ => simp [Ev.recTouched] at hr

/-- A record is deallocated only in ledger state `dest`: at most once, and only after it was destroyed. -/
theorem C05_record_once {s s' : St} {t : Tid} {r : Nat} (h : Reachable s) (hs : step s t (.fre true r) = some s') :
    s.rled r = .dest ∧ s'.rled r = .freed := by
  have hi := inv_reachable h
  have hS := step_sound hs
  cases hS with
  | rFreZ a m nx hpc =>
    have := (hi.b.privOk t r (by simp [hpc, BView, privRec])).2
    simp only [bview_vpc, hpc, BView, privLed, bview_rled] at this
    exact ⟨this, by cases nx <;> simp [St.setRled, St.setPc, St.reapAt]⟩
  | dFreZ m nx hpc =>
    have := (hi.b.privOk t r (by simp [hpc, BView, privRec])).2
    simp only [bview_vpc, hpc, BView, privLed, bview_rled] at this
    exact ⟨this, by cases nx <;> simp [St.setRled, St.setPc, St.dRecAt]⟩

/-- Reclaimer uniqueness: two threads in the reclaim phase of `unlock` are the same thread. -/
theorem C05_reclaimer_unique {s : St} {t u : Tid} {a a' : Nat} (h : Reachable s)
    (ht : reaper (BView (s.pc t)) = some a) (hu : reaper (BView (s.pc u)) = some a') : t = u := by
  have hi := inv_reachable h
  obtain ⟨t1, t2, t3⟩ := reaper_facts hi ht
  obtain ⟨u1, u2, u3⟩ := reaper_facts hi hu
  by_cases e : a = a'
  · subst e; rw [t2] at u2; injection u2
  · rcases below_total t1 u1 e with h' | h'
    · have := u3 a h'; rw [t2] at this; cases this
    · have := t3 a' h'; rw [u2] at this; cases this

/-- Grace period: when a handle release destroys (`des N d`) or frees (`fre N d`) a node, the node is named by the zombie
record `m` the reclaimer has taken off the log, the reclaimer's own record `a` is still on the log and active, and every
record older than `a` — every handle that registered before — is inactive. -/
theorem C05_grace {s s' : St} {t : Tid} {d a : Nat} (h : Reachable s) (hrel : myRec (s.pc t) = some a)
    (hs : step s t (.des false d) = some s' ∨ step s t (.fre false d) = some s') :
    (∃ m, (s.recs m).znode = some d ∧ s.rled m = .cons ∧ m ∉ s.log) ∧ a ∈ s.log ∧ (s.recs a).owner = some t ∧
      ∀ x ∈ Below s.log a, (s.recs x).owner = none := by
  have hi := inv_reachable h
  have key : ∀ m, (s.pc t = .rDesN a m d ∨ s.pc t = .rFreN a m d) →
      (∃ m, (s.recs m).znode = some d ∧ s.rled m = .cons ∧ m ∉ s.log) ∧ a ∈ s.log ∧ (s.recs a).owner = some t ∧
        ∀ x ∈ Below s.log a, (s.recs x).owner = none := by
    intro m hpc
    have hre : reaper (BView (s.pc t)) = some a := by rcases hpc with e | e <;> simp [e, BView, reaper]
    have hp := hi.b.privOk t m (by rcases hpc with e | e <;> simp [e, BView, privRec])
    have hh := hi.d.held t
    have hz : (s.recs m).znode = some d := by
      rcases hpc with e | e <;> simp only [dview_vpc, e, DView, HeldP, dview_zn] at hh <;> exact hh.1
    have hc : s.rled m = .cons := by
      have := hp.2
      rcases hpc with e | e <;> simpa [e, BView, privLed] using this
    exact ⟨⟨m, hz, hc, hp.1⟩, reaper_facts hi hre⟩
  rcases hs with hs | hs
  · have hS := step_sound hs
    cases hS with
    | rDesN r m d' hpc => rw [hpc] at hrel; simp [myRec] at hrel; subst hrel; exact key m (Or.inl hpc)
    | dDesN m nx hpc => rw [hpc] at hrel; simp [myRec] at hrel
    | dDesZN m nx d' hpc => rw [hpc] at hrel; simp [myRec] at hrel
  · have hS := step_sound hs
    cases hS with
    | rFreN r m d' hpc => rw [hpc] at hrel; simp [myRec] at hrel; subst hrel; exact key m (Or.inr hpc)
    | pThrow f em x n hpc => rw [hpc] at hrel; simp [myRec] at hrel
    | dFreN m nx hpc => rw [hpc] at hrel; simp [myRec] at hrel
    | dFreZN m nx d' hpc => rw [hpc] at hrel; simp [myRec] at hrel

/-- the list node whose memory an event reads or writes -/
def Ev.nodeTouched : Ev → Option Nat
  | .ald (.nnext n) _ _ | .ald (.nback n) _ _ | .ast (.nnext n) _ _ | .ast (.nback n) _ _ => some n
  | .pldDel n _ | .pstDel n _ | .pldData n _ | .pstData n _ => some n
  | _ => none

/-- N4 (reachability): what a registered handle can name is protected. -/
theorem C05_reach {s : St} {t : Tid} {w : Bool} {r : Nat} (h : Reachable s) (hh : s.hnd t = .reg w r) :
    (∀ c, s.it t = some (some c) → Safe s.eview r c) ∧
    (∀ x, x ∈ origOf (EView (s.pc t)) → Safe s.eview r x) ∧
    (∀ c ∈ s.order, c ∉ s.lst → ∀ x, (s.nodes c).next = some x → Safe s.eview r c → Safe s.eview r x) := by
  have hx := invX_reachable h
  exact ⟨fun c hc => hx.e.cur t w r c hh hc, fun x hxo => hx.e.org t w r x hh hxo, hx.e.edge t w r hh⟩

/-- a protected node is live (constructed, not destroyed, not freed) -/
theorem C05_protected_live {s : St} {t : Tid} {w : Bool} {r c : Nat} (h : Reachable s) (hh : s.hnd t = .reg w r)
    (hs : Safe s.eview r c) : s.nled c = .cons :=
  safe_live (invX_reachable h).i hh hs

/-- Every access to the memory of a list node hits a live node. -/
theorem C05_deref_live {s s' : St} {t : Tid} {e : Ev} {n : Nat} (h : Reachable s) (hs : step s t e = some s')
    (hn : e.nodeTouched = some n) : s.nled n = .cons ∨ (s.nled n = .alloc ∧ ((∃ b, e = .pstDel n b) ∨ ∃ v, e = .pstData n v)) := by
  have hx := invX_reachable h
  have hi := hx.i
  have hS := step_sound hs
  have wdt : holdsW (s.pc t) = true → s.dt = false := fun hw => (others_cidle hi.a hw).1
  have held := hi.d.held t
  have wr := hi.c.wr t
  simp only [dview_vpc] at held
  simp only [cview_vpc] at wr
  cases hS with
  | nxt w r n' o hpc hh hi' ho =>
    cases hn; exact Or.inl (safe_live hi hh (hx.e.cur t w r _ hh hi'))
  | der w r n' hpc hh hi' =>
    cases hn; exact Or.inl (safe_live hi hh (hx.e.cur t w r _ hh hi'))
  | eOrig c adv o hpc ho =>
    cases hn
    obtain ⟨r0, hr0⟩ := hi.a.wrW t (by simp [hpc, holdsW])
    exact Or.inl (safe_live hi hr0 (hx.e.org t true r0 _ hr0 (by simp [hpc, EView, origOf])))
  | eDelDeleted c orig hpc hv =>
    cases hn
    obtain ⟨r0, hr0⟩ := hi.a.wrW t (by simp [hpc, holdsW])
    exact Or.inl (safe_live hi hr0 (hx.e.org t true r0 _ hr0 (by simp [hpc, EView, origOf])))
  | eDelFresh c orig hpc hv =>
    cases hn
    obtain ⟨r0, hr0⟩ := hi.a.wrW t (by simp [hpc, holdsW])
    exact Or.inl (safe_live hi hr0 (hx.e.org t true r0 _ hr0 (by simp [hpc, EView, origOf])))
  | eMark c orig z hpc =>
    cases hn; rw [hpc] at held; simp only [DView, HeldP, dview_nled] at held; exact Or.inl held.2
  | eBack c orig z o hpc ho =>
    cases hn; rw [hpc] at held; simp only [DView, HeldP, dview_nled] at held; exact Or.inl held.2
  | eNext c orig p z o hpc ho =>
    cases hn; rw [hpc] at held; simp only [DView, HeldP, dview_nled] at held; exact Or.inl held.2
  | eUnlPrev c orig pp x z o hpc ho =>
    cases hn
    rw [hpc] at wr; simp only [CView, WriterP, NextIs, cview_lst] at wr
    exact Or.inl (lst_live hi (wdt (by simp [hpc, holdsW])) wr.2.2.2.1.1)
  | eFixNext c orig p xx z o hpc ho =>
    cases hn
    rw [hpc] at wr; simp only [CView, WriterP, NextIs, cview_lst] at wr
    have hxl : n ∈ s.lst := by
      have := wr.2.2.2.2.1
      cases p with
      | none => exact mem_of_head? this
      | some a => exact mem_of_mem_below (head_mem_below this.2)
    exact Or.inl (lst_live hi (wdt (by simp [hpc, holdsW])) hxl)
  | pPstDel f em x n' hpc =>
    cases hn; rw [hpc] at held; simp only [DView, HeldP, dview_nled] at held
    exact Or.inr ⟨held, Or.inl ⟨_, rfl⟩⟩
  | pPstData f em x n' hpc =>
    cases hn; rw [hpc] at held; simp only [DView, HeldP, dview_nled] at held
    exact Or.inr ⟨held, Or.inr ⟨_, rfl⟩⟩
  | pF1 k n' h0 o hpc ho =>
    cases hn; rw [hpc] at held; simp only [DView, HeldP, dview_nled] at held; exact Or.inl held
  | pB1 k n' h0 o hpc ho =>
    cases hn; rw [hpc] at held; simp only [DView, HeldP, dview_nled] at held; exact Or.inl held
  | pF2 k n' h0 o hpc ho =>
    cases hn
    rw [hpc] at wr; simp only [CView, WriterP, cview_lst] at wr
    exact Or.inl (lst_live hi (wdt (by simp [hpc, holdsW])) (mem_of_head? wr.2))
  | pB2 k n' h0 o hpc ho =>
    cases hn
    rw [hpc] at wr; simp only [CView, WriterP, NextIs, cview_lst] at wr
    exact Or.inl (lst_live hi (wdt (by simp [hpc, holdsW])) wr.2.1.1)
  | dNext m o hpc ho =>
    cases hn; rw [hpc] at held; simp only [DView, HeldP, dview_nled] at held; exact Or.inl held
  | _ => simp [Ev.nodeTouched] at hn

/-! ## Non-vacuity

A reader parked on an element while a writer erases it and a later, short-lived read handle is released: the release
scans, finds the parked reader's record active and does NOT reclaim (`uOwner/active`); the parked reader then advances
through the erased node (still live).  Recorded from the real code (script
`int-a;lw,pb=1,pb=2,rel;lr,beg;lw,eri=0,rel` under a schedule that interleaves as described) — here hand-ordered. -/
def witness05 : List (Tid × Ev) :=
  [-- thread 1: write handle, push_back 1, push_back 2, release
   (1, .call (.lock true)), (1, .ret (.lock true)), (1, .call (.push false false 1)), (1, .alo true 0),
   (1, .conR 0 (some 1) none), (1, .ald .zhead .rlx none), (1, .ast (.rnext 0) .rlx none), (1, .cas .sc none (some 0) true none),
   (1, .mlk), (1, .alo false 0), (1, .conN 0 1), (1, .ald .tail .rlx none), (1, .ast .head .sc (some 0)),
   (1, .ast .tail .sc (some 0)), (1, .mul), (1, .ret (.push false false 1)),
   (1, .call (.push false false 2)), (1, .mlk), (1, .alo false 1), (1, .conN 1 2), (1, .ald .tail .rlx (some 0)),
   (1, .ast (.nback 1) .sc (some 0)), (1, .ast (.nnext 0) .sc (some 1)), (1, .ast .tail .sc (some 1)), (1, .mul),
   (1, .ret (.push false false 2)),
   (1, .call .rel), (1, .ald (.rnext 0) .sc none), (1, .ast (.rnext 0) .sc none), (1, .ast (.rowner 0) .sc none), (1, .ret .rel),
   -- thread 2: read handle, parks its iterator on N0
   (2, .call (.lock false)), (2, .ret (.lock false)), (2, .call .beg), (2, .alo true 1), (2, .conR 1 (some 2) none),
   (2, .ald .zhead .rlx (some 0)), (2, .ast (.rnext 1) .rlx (some 0)), (2, .cas .sc (some 0) (some 1) true (some 0)),
   (2, .ald .head .sc (some 0)), (2, .ret .beg),
   -- thread 3: write handle, erases N0, releases (cannot reclaim: Z1 is active)
   (3, .call (.lock true)), (3, .ret (.lock true)), (3, .call .beg), (3, .alo true 2), (3, .conR 2 (some 3) none),
   (3, .ald .zhead .rlx (some 1)), (3, .ast (.rnext 2) .rlx (some 1)), (3, .cas .sc (some 1) (some 2) true (some 1)),
   (3, .ald .head .sc (some 0)), (3, .ret .beg),
   (3, .call (.erase true)), (3, .mlk), (3, .ald (.nnext 0) .sc (some 1)), (3, .pldDel 0 false),
   (3, .alo true 3), (3, .conR 3 none (some 0)), (3, .pstDel 0 true),
   (3, .ald (.nback 0) .sc none), (3, .ald (.nnext 0) .sc (some 1)), (3, .ast .head .sc (some 1)), (3, .ast (.nback 1) .sc none),
   (3, .ald .zhead .sc (some 2)), (3, .ast (.rnext 3) .sc (some 2)),
   (3, .cas .sc (some 2) (some 3) true (some 2)), (3, .mul), (3, .ret (.erase true)),
   (3, .call .rel), (3, .ald (.rnext 2) .sc (some 1)), (3, .ald (.rowner 1) .sc (some 2)), (3, .ast (.rowner 2) .sc none),
   (3, .ret .rel),
   -- thread 2 reads the erased element and moves on
   (2, .call .der)]

/-- the parked reader dereferences the erased (unlinked, zombie-logged) node: it is still constructed, protected by the
third disjunct of `Safe` (its zombie record `Z3` lies above the reader's record `Z1`) -/
example : ∃ s, Reachable s ∧ s.hnd 2 = .reg false 1 ∧ s.it 2 = some (some 0) ∧ 0 ∉ s.lst ∧ s.log = [3, 2, 1, 0] ∧
    (s.recs 3).znode = some 0 ∧ s.nled 0 = .cons ∧ (step s 2 (.pldData 0 1)).isSome = true :=
  ⟨_, ⟨witness05, rfl⟩, by decide, by decide, by decide, by decide, by decide, by decide, by decide⟩

end ConcVerif.Rcu
