import ConcVerif.Proof.DDAux
import ConcVerif.Proof.DDLive
/-! # C16 — DelayedDestructor destroys late, once, and never under its own lock

Theorems over every reachable state of the model `ConcVerif.DD` (any number of threads, objects, calls,
interleavings, time-outs, re-entrant callbacks / destructors; `cb` = a callback is installed, `ns` objects shared by
`nt` script threads at the start). -/
namespace ConcVerif.DD
open ConcVerif

/-- **C16_once (at most once).** No object's destructor starts twice: the log of destructor starts has no duplicates,
and a destructor start is accepted only for an object that has not been destroyed. -/
theorem C16_once {cb ns nt} {s : St} (h : Reachable cb ns nt s) : s.destroyed.Nodup :=
  (List.nodup_append.mp (inv_reachable h).life.nodup).2.1

theorem C16_once_step {cb ns nt} {s s' : St} {t : Tid} {k : ObjId} (h : Reachable cb ns nt s)
    (hs : step s t (.pdt k) = some s') : k ∉ s.destroyed ∧ s'.destroyed = k :: s.destroyed := by
  obtain ⟨rest, _, hk, hd, _⟩ := pdt_inv hs
  refine ⟨fun hm => ?_, hd⟩
  exact (List.nodup_append.mp (inv_reachable h).life.nodup).2.2 k hk k hm rfl

/-- **C16_not_while_owned.** A destructor starts only when nobody references the object: no external `shared_ptr`,
no entry of the vector, no `ecall` vector of any running destroyObjects call. -/
theorem C16_not_while_owned {cb ns nt} {s s' : St} {t : Tid} {k : ObjId} (h : Reachable cb ns nt s)
    (hs : step s t (.pdt k) = some s') : s.ext k = 0 ∧ k ∉ s.vec ∧ ∀ u, (u, k) ∉ s.ecs := by
  obtain ⟨rest, _, hk, _, _⟩ := pdt_inv hs
  have h0 : refs s k = 0 := ((inv_reachable h).life.zero k).mpr (Or.inr (Or.inl hk))
  simp only [refs] at h0
  refine ⟨by omega, fun hm => ?_, fun u hm => ?_⟩
  · have := List.count_pos_iff.mpr hm; omega
  · have : (s.ecs.map Prod.snd).count k > 0 := List.count_pos_iff.mpr (List.mem_map.mpr ⟨(u, k), hm, rfl⟩)
    omega

/-- the container's destructor returns only after its vector member has released everything -/
theorem C16_dtor_returns_empty {cb ns nt} {s s' : St} {t : Tid} (h : Reachable cb ns nt s)
    (hs : step s t .retDtor = some s') : s.vdead = true ∧ s.vec = [] := by
  have hI := inv_reachable h
  cases hfs : s.stk t with
  | nil => simp [step, hfs, stepUser] at hs
  | cons f rest =>
    cases f <;> simp [step, hfs, stepUser] at hs
    have hp := hI.dt.pf t Frame.xRet (by rw [hfs]; exact List.mem_cons_self)
    have hv := hp.2.1 rfl
    exact ⟨hv, (hI.dt.g1 hv).1⟩

/-- once the vector member is gone it stays empty: nothing can be added behind the destructor's back -/
theorem C16_dtor_done_stays_empty {cb ns nt} {s : St} (h : Reachable cb ns nt s) (hv : s.vdead = true) :
    s.vec = [] := ((inv_reachable h).dt.g1 hv).1

/-- **C16_once (exactly once at the end).** When the container's destructor has destroyed the vector, every thread
is back at script level, and the external owners of `k` are gone, then `k`'s destructor has run — exactly once
(`C16_once`).  This covers both orders: owners gone before the container dies (reaped by the destructor's
destroyObjects calls or released by the vector) and owners that outlive the container (destroyed at their last drop). -/
theorem C16_once_final {cb ns nt} {s : St} (h : Reachable cb ns nt s) (hv : s.vdead = true)
    (hidle : ∀ t, s.stk t = []) {k : ObjId} (hk : k ∈ s.created) (hext : s.ext k = 0) :
    k ∈ s.destroyed ∧ s.destroyed.count k = 1 := by
  have hI := inv_reachable h
  have hvec : s.vec = [] := (hI.dt.g1 hv).1
  have hecs : (s.ecs.map Prod.snd).count k = 0 := by
    apply List.count_eq_zero.mpr
    intro hm
    obtain ⟨⟨u, k'⟩, hm2, rfl⟩ := List.mem_map.mp hm
    exact own_idle hI.own (hidle u) k' hm2
  have h0 : refs s k = 0 := by simp [refs, hext, hvec, hecs]
  have hd : k ∈ s.destroyed := by
    rcases (hI.life.zero k).mp h0 with hc | hp | hd
    · exact absurd hk hc
    · obtain ⟨u, hu⟩ := hI.pend k hp
      rw [hidle u] at hu; cases hu
    · exact hd
  exact ⟨hd, count_one_of_nodup (C16_once h) hd⟩

/-- no object is ever forgotten: an object without any reference has been destroyed, or its destructor is the very
next thing some thread does (a `dying` frame on that thread's stack) -/
theorem C16_no_leak {cb ns nt} {s : St} (h : Reachable cb ns nt s) {k : ObjId} (hk : k ∈ s.created)
    (h0 : refs s k = 0) : k ∈ s.destroyed ∨ ∃ t, Frame.dying k ∈ s.stk t := by
  have hI := inv_reachable h
  rcases (hI.life.zero k).mp h0 with hc | hp | hd
  · exact absurd hk hc
  · obtain ⟨u, hu⟩ := hI.pend k hp
    exact Or.inr ⟨u, mem_dyingOf hu⟩
  · exact Or.inl hd

/-- **C16_outside_lock.** At every payload-destructor event (`pdt`, `pde`) and every callback event (`ucb`, `uce`,
`uth`) the executing thread does not hold `destructionLock`. -/
theorem C16_outside_lock {cb ns nt} {s s' : St} {t : Tid} {e : Ev} (h : Reachable cb ns nt s)
    (hs : step s t e = some s') (he : isCbDt e = true) : s.lock ≠ some t := by
  intro hl
  have := (inv_reachable h).lockI t hl
  rw [cbdt_top hs he] at this; cases this

/-- ... and during the whole callback / payload destructor: while user code of thread `t` runs inside a callback or
inside `~X`, `t` does not hold the lock -/
theorem C16_user_code_unlocked {cb ns nt} {s : St} {t : Tid} (h : Reachable cb ns nt s)
    (hu : userLevel (s.stk t) = true) : s.lock ≠ some t := by
  intro hl
  have hh := (inv_reachable h).lockI t hl
  cases hfs : s.stk t with
  | nil => simp [hfs, holds] at hh
  | cons f rest => cases f <;> simp [hfs, holds, holdsF, userLevel] at hh hu

/-- the lock is held only inside the library's critical sections: a thread whose top frame is not one of them (in
particular one that is about to acquire: `addCalled`, `sizeCalled`, `dCalled`, `dRelock`, `gCalled`, …) does not hold
it — a re-entrant call can never wait for its own thread -/
theorem C16_no_self_deadlock {cb ns nt} {s : St} {t : Tid} (h : Reachable cb ns nt s)
    (hn : holds (s.stk t) = false) : s.lock ≠ some t := by
  intro hl
  have := (inv_reachable h).lockI t hl
  rw [hn] at this; cases this

/-- whoever holds the lock can release it (its next step is enabled): a blocked re-entrant `add` / `size` waits only
for another thread that is able to move -/
theorem C16_holder_enabled {cb ns nt} {s : St} {u : Tid} (h : Reachable cb ns nt s) (hl : s.lock = some u) :
    (step s u .mul).isSome = true :=
  holder_mul hl ((inv_reachable h).lockI u hl)

/-- re-entrant calls are accepted from inside a callback or a payload destructor (before the container's destructor
has started), blocking acquisitions proceed as soon as the lock is free, timed ones never block -/
theorem C16_reentrant_enabled {s : St} {t : Tid} (hu : userLevel (s.stk t) = true) (hd : s.dead = none)
    (hv : s.vdead = false) :
    (step s t .callSize).isSome = true ∧ (step s t .callDestroy).isSome = true ∧
    (∀ ms, (step s t (.callDestroyD ms)).isSome = true) := by
  have hm : s.mayCall t = true := by simp [St.mayCall, hu, hd, hv]
  cases hfs : s.stk t with
  | nil => simp [step, hfs, stepUser, hm]
  | cons f rest => cases f <;> simp [hfs, userLevel] at hu <;> simp [step, hfs, stepUser, hm]

theorem C16_acquire_enabled {s : St} {t : Tid} {rest : List Frame} :
    (s.stk t = .sizeCalled :: rest → s.lock = none → (step s t .mlk).isSome = true) ∧
    (s.stk t = .dCalled :: rest → (step s t (.mtf false [])).isSome = true ∧
      (s.lock = none → (step s t (.mtf true [])).isSome = true)) ∧
    (∀ k mv, s.stk t = .addCalled k mv :: rest → s.lock = none → s.ext k > 0 → (step s t .mlk).isSome = true) := by
  refine ⟨fun h hl => by simp [step, h, hl], fun h => ⟨by simp [step, h], fun hl => by simp [step, h, hl]⟩,
    fun k mv h hl he => by simp [step, h, hl, he]⟩

/-- **C16_callback_once.** With a callback installed and no throw: while a destroyObjects call destroys its `ecall`
vector (`dClear … false`), every object still in it had its callback exactly once in this call (`cbs` = the callbacks
this call completed, in order) — so each reaped object's callback ran exactly once before its destruction. -/
theorem C16_callback_once {ns nt} {s : St} {t : Tid} {sz : Nat} {ec cbs : List ObjId}
    (h : Reachable true ns nt s) (hf : Frame.dClear sz ec cbs false ∈ s.stk t) {k : ObjId} (hk : k ∈ ec) :
    cbs.count k = 1 := by
  have hw := (inv_reachable h).wf t _ hf
  obtain ⟨hsuf, hnd⟩ := hw rfl (reachable_hasCb h)
  exact count_one_of_nodup hnd (suffix_mem hsuf hk)

/-- **C16_callback_once (the object being destroyed).** With a callback installed and no throw: when an object's
last reference was the `ecall` vector of a destroyObjects call (its `dying` frame — destructor about to start — sits
directly on that call's clearing frame), the call has completed that object's callback exactly once. -/
theorem C16_callback_once_dying {ns nt} {s : St} {t : Tid} {k : ObjId} {sz : Nat} {ec cbs : List ObjId}
    {rest : List Frame} (h : Reachable true ns nt s)
    (hfs : s.stk t = .dying k :: .dClear sz ec cbs false :: rest) : cbs.count k = 1 := by
  have hI := inv_reachable h
  have hcb := reachable_hasCb h
  have ha := hI.adjI t
  rw [hfs] at ha
  have hsuf := ha.1 rfl hcb
  have hw := hI.wf t (.dClear sz ec cbs false) (by rw [hfs]; simp)
  obtain ⟨_, hnd⟩ := hw rfl hcb
  exact count_one_of_nodup hnd (suffix_mem hsuf List.mem_cons_self)

/-- the callbacks of one call run over its `ecall` vector front to back, one per entry, no entry twice; when the last
one returns, the completed callbacks are exactly the `ecall` vector -/
theorem C16_callback_order {cb ns nt} {s : St} {t : Tid} (h : Reachable cb ns nt s) :
    (∀ sz ec cbs todo, Frame.dCb sz ec cbs todo ∈ s.stk t → ec = cbs ++ todo ∧ ec.Nodup) ∧
    (∀ sz ec cbs k todo, Frame.dInCb sz ec cbs k todo ∈ s.stk t → ec = cbs ++ k :: todo ∧ ec.Nodup) := by
  have hw := (inv_reachable h).wf t
  exact ⟨fun sz ec cbs todo hf => by simpa [wfF] using hw _ hf,
         fun sz ec cbs k todo hf => by simpa [wfF] using hw _ hf⟩

/-- callbacks come before destruction: no object of a call's `ecall` vector is destroyed (or even pending) while the
call still holds it — in particular not before or during the callbacks -/
theorem C16_callback_before_destruction {cb ns nt} {s : St} {t : Tid} {f : Frame} (h : Reachable cb ns nt s)
    (hf : f ∈ s.stk t) {k : ObjId} (hk : k ∈ ecOf f) : k ∉ s.destroyed ∧ k ∉ s.pend := by
  have hI := inv_reachable h
  have hpos := refs_pos_of_mem (own_mem hI.own hf hk)
  constructor
  · intro hd; have := (hI.life.zero k).mpr (Or.inr (Or.inr hd)); omega
  · intro hp; have := (hI.life.zero k).mpr (Or.inr (Or.inl hp)); omega

/-- **C16_accounting.** Concurrent add / size / destroyObjects never lose or duplicate an object: with multiplicity,
every `push_back` is still in the vector, or was moved out by a destroyObjects selection, or was released by the
vector member's destructor. -/
theorem C16_accounting {cb ns nt} {s : St} (h : Reachable cb ns nt s) (k : ObjId) :
    s.added.count k = s.vec.count k + s.reaped.count k + s.vrel.count k :=
  (inv_reachable h).acct k

/-- an object leaves the vector through destroyObjects only when the vector is its only owner
(`use_count() == 1`: no external copy, no second vector entry, no `ecall` entry) -/
theorem C16_reap_only_unowned {s s' : St} {t : Tid} {skip : List ObjId} {rest : List Frame}
    (hfs : s.stk t = .dCalled :: rest) (hs : step s t (.mtf true skip) = some s') {k : ObjId}
    (hk : k ∈ s'.reaped) : k ∈ s.reaped ∨ (s.ext k = 0 ∧ s.vec.count k = 1 ∧ ∀ u, (u, k) ∉ s.ecs) := by
  simp only [step, hfs, if_true] at hs
  split at hs
  · cases hs
    unfold select at hk; dsimp only at hk
    split at hk
    · exact Or.inl hk
    · simp only [setStk_reaped, List.mem_append, List.mem_filter, Bool.and_eq_true] at hk
      rcases hk with ⟨hv, hsel, _⟩ | hk
      · right
        have hc : s.vec.count k ≥ 1 := List.count_pos_iff.mpr hv
        simp only [selectable, refs, beq_iff_eq] at hsel
        refine ⟨by omega, by omega, fun u hm => ?_⟩
        have : (s.ecs.map Prod.snd).count k > 0 := List.count_pos_iff.mpr (List.mem_map.mpr ⟨(u, k), hm, rfl⟩)
        omega
      · exact Or.inl hk
  · cases hs

/-- `size()` returns the length the vector has at the release of its critical section, which its thread holds -/
theorem C16_size_value {s s' : St} {t : Tid} {rest : List Frame} (hfs : s.stk t = .sizeLocked :: rest)
    (hs : step s t .mul = some s') : s.lock = some t ∧ s'.stk t = .sizeRet s.vec.length :: rest := by
  simp only [step, hfs] at hs
  split at hs
  · cases hs; exact ⟨by assumption, by simp⟩
  · cases hs

theorem C16_size_returned {s s' : St} {t : Tid} {n : Nat} (hs : step s t (.retSize n) = some s') :
    ∃ rest, s.stk t = .sizeRet n :: rest := by
  cases hfs : s.stk t with
  | nil => simp [step, hfs, stepUser] at hs
  | cons f rest =>
    cases f <;> simp [step, hfs, stepUser] at hs
    exact ⟨rest, by rw [hs.1]⟩

/-- **C16_accounting (returned sizes).** For a destroyObjects() call made by user code (`rest` = the caller's frames):
a time-out of the first `try_lock_for` returns the sentinel `size_t(-1)` and touches nothing; a successful first
acquisition records, under the lock, the length of the vector after the erase (`sz`); the call returns the vector's
length at the release of its last critical section, or, when the second `try_lock_for` times out (or a callback
threw), the recorded `sz`. -/
theorem C16_destroy_timeout_sentinel {s s' : St} {t : Tid} {skip : List ObjId} {rest : List Frame}
    (hfs : s.stk t = .dCalled :: rest) (hu : userLevel rest = true) (hs : step s t (.mtf false skip) = some s') :
    s'.stk t = .dRet none :: rest ∧ s'.vec = s.vec ∧ s'.lock = s.lock := by
  simp [step, hfs, dDone_user _ _ _ hu] at hs
  subst hs; simp

theorem C16_destroy_records_size {s s' : St} {t : Tid} {skip : List ObjId} {rest : List Frame}
    (hfs : s.stk t = .dCalled :: rest) (hs : step s t (.mtf true skip) = some s') :
    s.lock = none ∧ s'.lock = some t ∧
      ((s'.stk t = .dUnlock0 :: rest ∧ s'.vec = s.vec) ∨ ∃ ec, s'.stk t = .dUnlock1 s'.vec.length ec :: rest) := by
  simp only [step, hfs, if_true] at hs
  split at hs
  · cases hs
    refine ⟨by assumption, select_lock _ _ _ _, ?_⟩
    unfold select; dsimp only; split
    · left; simp
    · right; exact ⟨_, by simp only [setStk_stk_same, setStk_vec]; rfl⟩
  · cases hs

theorem C16_destroy_returns_length {s s' : St} {t : Tid} {rest : List Frame}
    (hfs : s.stk t = .dUnlock0 :: rest ∨ s.stk t = .dUnlock2 :: rest) (hu : userLevel rest = true)
    (hs : step s t .mul = some s') : s.lock = some t ∧ s'.stk t = .dRet (some s.vec.length) :: rest := by
  rcases hfs with hfs | hfs
  all_goals
    simp only [step, hfs] at hs
    split at hs
    · cases hs; exact ⟨by assumption, by simp [dDone_user _ _ _ hu, unlock]⟩
    · cases hs

theorem C16_destroy_second_timeout {s s' : St} {t : Tid} {sz : Nat} {skip : List ObjId} {rest : List Frame}
    (hfs : s.stk t = .dRelock sz :: rest) (hu : userLevel rest = true) (hs : step s t (.mtf false skip) = some s') :
    s'.stk t = .dRet (some sz) :: rest := by
  simp [step, hfs, dDone_user _ _ _ hu] at hs
  subst hs; simp

theorem C16_destroy_returned {s s' : St} {t : Tid} {r : Option Nat} (hs : step s t (.retDestroy r) = some s') :
    ∃ rest, s.stk t = .dRet r :: rest := by
  cases hfs : s.stk t with
  | nil => simp [step, hfs, stepUser] at hs
  | cons f rest =>
    cases f <;> simp [step, hfs, stepUser] at hs
    exact ⟨rest, by rw [hs.1]⟩

/-! ## Non-vacuity: concrete reachable states (callback installed, one script thread, two objects) -/

/-- thread 1 creates objects 1 and 2, hands both over, destroyObjects reaps both: callbacks, then destructors -/
def witnessTrace : List (Tid × Ev) :=
  [(1, .new 1), (1, .new 2), (1, .callAdd 1 true), (1, .mlk), (1, .mul), (1, .retAdd true),
   (1, .callAdd 2 true), (1, .mlk), (1, .mul), (1, .retAdd true),
   (1, .callDestroy), (1, .mtf true []), (1, .mul), (1, .ucb 1), (1, .uce 1), (1, .ucb 2), (1, .uce 2),
   (1, .pdt 1), (1, .pde 1), (1, .pdt 2), (1, .pde 2), (1, .mtf true []), (1, .mul), (1, .retDestroy (some 0)),
   (0, .callDtor), (0, .retDtor)]

/-- after the last callback: object 1 is dying (its destructor is next), object 2 is still in `ecall`, both callbacks
have run once; the lock is free (`C16_callback_once`, `C16_outside_lock`, `C16_no_leak`) -/
example : ∃ s, Reachable true 0 1 s ∧ s.stk 1 = [.dying 1, .dClear 0 [2] [1, 2] false] ∧ s.lock = none ∧
    s.pend = [1] ∧ s.ecs = [(1, 2)] ∧ s.vec = [] ∧ (step s 1 (.pdt 1)).isSome = true :=
  ⟨_, ⟨witnessTrace.take 17, rfl⟩, by decide, by decide, by decide, by decide, by decide, by decide⟩

/-- under the lock, right after the selection: both objects moved from the vector to `ecall` (`C16_reap_only_unowned`,
`C16_destroy_records_size`, `C16_accounting`) -/
example : ∃ s, Reachable true 0 1 s ∧ s.stk 1 = [.dUnlock1 0 [1, 2]] ∧ s.lock = some 1 ∧ s.reaped = [1, 2] ∧
    s.added = [2, 1] ∧ s.vec = [] :=
  ⟨_, ⟨witnessTrace.take 12, rfl⟩, by decide, by decide, by decide, by decide, by decide⟩

/-- the whole run: both objects destroyed exactly once, the container's destructor has returned, everybody idle
(`C16_once`, `C16_once_final`, `C16_dtor_returns_empty`) -/
example : ∃ s, Reachable true 0 1 s ∧ s.destroyed = [2, 1] ∧ s.vdead = true ∧ s.stk 0 = [] ∧ s.stk 1 = [] ∧
    s.created = [2, 1] ∧ s.ext 1 = 0 ∧ s.ext 2 = 0 :=
  ⟨_, ⟨witnessTrace, rfl⟩, by decide, by decide, by decide, by decide, by decide, by decide, by decide⟩

/-- inside a callback the thread may re-enter (`C16_reentrant_enabled`): a nested size() is accepted and its
acquisition is enabled -/
example : ∃ s, Reachable true 0 1 s ∧ userLevel (s.stk 1) = true ∧ s.stk 1 ≠ [] ∧
    (step s 1 .callSize).isSome = true :=
  ⟨_, ⟨witnessTrace.take 14, rfl⟩, by decide, by decide, by decide⟩

/-! ## Liveness: re-entrant calls never deadlock and every call returns — for every scheduler

Environment events (`isEnv`, Proof/DDLive.lean) are the decisions of user code: `new` / `dup` / `drop` and the five
calls, at script level, inside a callback or inside a payload destructor.  Every other event is a step of the
library: lock, unlock, `try_lock_for` outcomes (a time-out ends the call), the start and the end of a callback,
the start and the end of a payload destructor, sleeps, yields, returns.
* `C16_terminates` (no livelock): an execution that makes no environment event from some point on cannot be infinite,
  whatever the scheduler does: every library step lowers `5·|vec| + Σ_t srank (stk t)` (each stored element pays
  for its selection, its callback and its destruction; the retry loops of `destroyObjects(delay)` and of the
  container's destructor pay for their remaining rounds).
* `C16_thread_cases`, `C16_progress`, `C16_stuck_all_returned` (no deadlock, also for calls made from inside a
  callback or a payload destructor): every thread inside a call has an enabled library step, or waits in
  `addObjectsToBeDestroyed` / `size` for the lock held by ANOTHER thread, which can release it.  Needs the stack
  grammar (`Shape`), `HoldsL` and `DyP` (Proof/DDProg.lean, DDHold.lean, DDDying.lean, DDDyP.lean).
  The only exception is a client error: `addObjectsToBeDestroyed(k)` in flight while no external reference to `k`
  exists (the model counts external references per object, not per owner).
Not covered: starvation of one caller by infinitely many calls of others under an unfair mutex. -/

theorem C16_terminates (x : Live.Exec step) (N : Nat) (ts : List Tid) (hnd : ts.Nodup)
    (hts : ∀ n, N ≤ n → x.who n ∈ ts) (hnc : ∀ n, N ≤ n → isEnv (x.ev n) = false) : False :=
  Live.no_infinite_runG rankedG ts hnd x N trivial hts hnc

/-- every library step lowers the potential `5·|vec| + srank (stk t)` seen from the stepping thread and leaves the
stacks of the other threads alone -/
theorem C16_step_lowers_potential {s s' : St} {t : Tid} {e : Ev} (h : step s t e = some s') (he : isEnv e = false) :
    pot s' t < pot s t ∧ ∀ u, u ≠ t → s'.stk u = s.stk u :=
  ⟨step_dec h he, fun _ hu => step_stk_other h hu⟩

/-- every thread of a reachable state: outside every call, or a library step is enabled, or it waits in a blocking
acquisition for the lock held by another thread, or the client error `Unowned` -/
theorem C16_thread_cases {cb ns nt} {s : St} (h : Reachable cb ns nt s) (t : Tid) :
    s.stk t = [] ∨ LibEnabled s t ∨ (Waiting s t ∧ ∃ u, s.lock = some u ∧ u ≠ t) ∨ Unowned s t :=
  thread_cases (progInv_reachable h) t

/-- user code running inside a callback or a payload destructor is never blocked by the library: the frame can end
(`uce` / `pde`), and the nested calls it may make are accepted (`C16_reentrant_enabled`) -/
theorem C16_user_code_can_return {s : St} {t : Tid} {rest : List Frame} :
    (∀ sz ec cbs k todo, s.stk t = .dInCb sz ec cbs k todo :: rest → (step s t (.uce k)).isSome = true) ∧
    (∀ k, s.stk t = .inDt k :: rest → (step s t (.pde k)).isSome = true) := by
  refine ⟨fun sz ec cbs k todo h => ?_, fun k h => by simp [step, h]⟩
  simp only [step, h, if_true]
  split <;> rfl

/-- deadlock-freedom: if some thread is inside a call, some thread has an enabled library step (the thread itself,
or the holder of the lock it waits for) — unless the thread is the client error `Unowned` -/
theorem C16_progress {cb ns nt} {s : St} (h : Reachable cb ns nt s) {t : Tid} (ht : s.stk t ≠ []) :
    (∃ u, LibEnabled s u) ∨ Unowned s t := by
  have hP := progInv_reachable h
  rcases thread_cases hP t with h1 | h1 | ⟨_, u, hu, _⟩ | h1
  · exact absurd h1 ht
  · exact Or.inl ⟨t, h1⟩
  · exact Or.inl ⟨u, holder_lib hP hu⟩
  · exact Or.inr h1

/-- a reachable state without enabled library step: every thread has returned from every call (nested ones
included), except client errors `Unowned` -/
theorem C16_stuck_all_returned {cb ns nt} {s : St} (h : Reachable cb ns nt s) (hstuck : ∀ u, ¬ LibEnabled s u)
    (t : Tid) : s.stk t = [] ∨ Unowned s t := by
  by_cases ht : s.stk t = []
  · exact Or.inl ht
  · rcases C16_progress h ht with ⟨u, hu⟩ | h1
    · exact absurd hu (hstuck u)
    · exact Or.inr h1

/-- the object of a `dying` frame is pending and no two threads are about to destroy the same object -/
theorem C16_dying_unique {cb ns nt} {s : St} (h : Reachable cb ns nt s) {t u : Tid} {k : ObjId} {r1 r2 : List Frame}
    (ht : s.stk t = .dying k :: r1) (hu : s.stk u = .dying k :: r2) : k ∈ s.pend ∧ t = u :=
  ⟨(progInv_reachable h).dyP.pend t k r1 ht, (progInv_reachable h).dyP.uniq t u k r1 r2 ht hu⟩

/-- non-vacuity: in the witness run, inside the callback of object 1 (nested frame on the stack) the potential seen
from thread 1 is positive, the thread has an enabled library step, and after the whole run nobody has one -/
example : ∃ s, Reachable true 0 1 s ∧ userLevel (s.stk 1) = true ∧ s.stk 1 ≠ [] ∧ 0 < pot s 1 ∧ LibEnabled s 1 :=
  ⟨_, ⟨witnessTrace.take 14, rfl⟩, by decide, by decide, by decide, ⟨.uce 1, rfl, by decide⟩⟩

example : ∃ s, Reachable true 0 1 s ∧ s.stk 0 = [] ∧ s.stk 1 = [] ∧ pot s 0 = 0 ∧ pot s 1 = 0 :=
  ⟨_, ⟨witnessTrace, rfl⟩, by decide, by decide, by decide, by decide⟩

end ConcVerif.DD
