import ConcVerif.Props.C01
import ConcVerif.Proof.LockFamCounts
/-! # C08 — a handle is non-null exactly when it holds the lock, and releases it once

Same model (`Model/LockFam.lean`): handle slots with `live / owns / nonnull / husk` (moved-from),
handle operations `destroy`, `unlock`, `movec` (move-construct), `movea` (move-assign).  The
deferred_guarded half of C08 is in `Props/C08_deferred.lean`. -/
namespace ConcVerif.LockFam

/-- The handle returned by any acquisition (blocking, try, timed; exclusive or shared) is non-null
exactly when the lock was obtained: at the `got` event the reported truth value equals "this thread
now holds the mutex". -/
theorem C08_null_iff {en cap : Bool} {s s' : St} {t : Tid} {i : Slot} {nn : Bool} (h : Reachable en cap s)
    (he : s.enabled = true) (hs : step s t (.got i nn) = some s') : (nn = true ↔ s.held t ≠ .none) := by
  have hl := (inv_reachable h).l t
  cases hp : (s.loc t).pc <;> simp [step, hp, he] at hs
  rename_i ok m
  obtain ⟨⟨_, hnn, _⟩, _⟩ := hs
  rw [hnn, hl.link]; simp only [ownMode, hp]
  exact hl.acqdOk ok m hp

/-- The try / timed forms never block: whatever the other threads hold, their lock event is enabled
(with outcome "obtained" if the mutex allows it, "not obtained" otherwise). -/
theorem C08_try_nonblocking {en cap : Bool} {s : St} {t : Tid} {sd : Side} {how : How} (he : s.enabled = true)
    (hp : (s.loc t).pc = .acq sd how) (hh : how ≠ .block) :
    (step s t (.lk (effSide s.capable sd) how false)).isSome = true := by
  cases how <;> simp [step, hp, he] at hh ⊢

/-- A non-null handle keeps the lock: between handle operations a live, non-null, not moved-from
handle owns the lock (`C01_handle_holds`), and the lock is released only inside an operation on the
handle that owns it (destroy / unlock / being move-assigned over) or at the end of a whole-object
bracket — never spontaneously. -/
theorem C08_release_only_by_owner {s s' : St} {t : Tid} {sd : Side} (hs : step s t (.rel sd) = some s') :
    (∃ k, (s.loc t).pc = .hop k true ∧ modeSide ((s.loc t).get k.relSlot).owns = some sd) ∨
    (∃ w m a b c, (s.loc t).pc = .whole w m a b c ∧ modeSide m = some sd) := by
  cases hp : (s.loc t).pc <;> simp [step, hp] at hs
  · rename_i k p
    cases p <;> simp at hs
    exact Or.inl ⟨k, rfl, hs.1⟩
  · rename_i w m a b c
    refine Or.inr ⟨w, m, a, b, c, rfl, ?_⟩
    split at hs <;> exact hs.1

/-- Released exactly once: per thread, successful acquisition events = release events + (1 if it
holds the mutex now).  In particular every thread that is outside all operations has released
exactly as often as it acquired. -/
theorem C08_released_once {en cap : Bool} {s : St} (h : Reachable en cap s) (t : Tid) :
    s.acqs t = s.rels t + (if s.held t = .none then 0 else 1) :=
  ((inv_reachable h).l t).counts

theorem C08_released_once_idle {en cap : Bool} {s : St} (h : Reachable en cap s) {t : Tid}
    (hp : (s.loc t).pc = .idle) : s.acqs t = s.rels t := by
  have := C08_released_once h t
  rw [C01_no_leak h hp] at this; simpa using this

/-- An owning handle cannot be destroyed / unlocked / assigned over without the release happening:
after the operation begins on a slot that owns, the only accepted next event is the release. -/
theorem C08_op_must_release {s s' : St} {t : Tid} {k : HopK} {e : Ev} (hp : (s.loc t).pc = .hop k true)
    (hs : step s t e = some s') : ∃ sd, e = .rel sd := by
  cases e <;> simp [step, hp] at hs
  exact ⟨_, rfl⟩

/-- After `unlock()` the handle is null and owns nothing (the model accepts the end of an `unlock`
operation only if the real handle reported `false`). -/
theorem C08_unlock_null {s s' : St} {t : Tid} {i : Slot} {r : Option Bool}
    (hp : (s.loc t).pc = .hop (.unlock i) false) (hs : step s t (.hend r) = some s') :
    r = some false ∧ ((s'.loc t).get i).nonnull = false ∧ ((s'.loc t).get i).owns = .none := by
  simp [step, hp] at hs
  obtain ⟨hr, hs⟩ := hs
  subst hs
  refine ⟨hr, ?_, ?_⟩ <;> cases i <;> simp [St.setLoc, Loc.set, Loc.get]

/-- A moved-from handle owns nothing: destroying it releases nothing (no release event is accepted). -/
theorem C08_husk_destroy_silent {en cap : Bool} {s s' : St} {t : Tid} {i : Slot} (h : Reachable en cap s)
    (hp : (s.loc t).pc = .sess) (hh : ((s.loc t).get i).husk = true)
    (hs : step s t (.hbegin (.destroy i)) = some s') : (s'.loc t).pc = .hop (.destroy i) false := by
  have hl := (inv_reachable h).l t
  have hown : ((s.loc t).get i).owns = .none := by
    apply Classical.byContradiction; intro hne
    have := (slot_ok hl i hne).2.2; rw [hh] at this; cases this
  simp [step, hp] at hs
  obtain ⟨_, hs⟩ := hs
  subst hs; simp [St.setPc, St.setLoc, hown]

/-- Locking disabled: every acquisition returns a usable (non-null) handle immediately — the `got`
event is enabled in every global state, whatever other threads hold — and performs no lock
operation at all (no lock event is accepted from an acquisition), so it never waits. -/
theorem C08_disabled {en cap : Bool} {s : St} (h : Reachable en cap s) (he : s.enabled = false) {t : Tid}
    {sd : Side} {how : How} (hp : (s.loc t).pc = .acq sd how) :
    (step s t (.got .a true)).isSome = true ∧ ∀ sd' how' ok, step s t (.lk sd' how' ok) = none := by
  have hl := (inv_reachable h).l t
  have hd := hl.dead (by simp [hp, Pc.inSession])
  constructor
  · simp [step, hp, he, hd.1]
  · intro sd' how' ok; simp [step, hp, he]

/-! Non-vacuity: a failed `try_lock` (thread 2, while thread 1 holds the lock) yields a null handle;
thread 1 unlocks its handle (release, then null), later destroys it silently. -/
example : ∃ s, Reachable true false s ∧ (s.loc 2).ha.nonnull = false ∧ (s.loc 2).ha.live = true ∧
    (s.loc 1).ha.nonnull = false ∧ s.acqs 1 = 1 ∧ s.rels 1 = 1 ∧ s.held 1 = .none :=
  ⟨_, ⟨[(1, .callSess), (1, .acq .X .block), (1, .lk .X .block true), (1, .got .a true),
        (2, .callSess), (2, .acq .X .try_), (2, .lk .X .try_ false), (2, .got .a false),
        (1, .hbegin (.unlock .a)), (1, .rel .X), (1, .hend (some false))], rfl⟩,
   by decide, by decide, by decide, by decide, by decide, by decide⟩

/-! ## The ghost counters are tied to the events of the trace

`C08_released_once` speaks about the ghost counters `acqs` / `rels`.  For every accepted trace they
are exactly the numbers of successful lock events and of unlock events the thread made. -/

theorem C08_counts_are_events {en cap : Bool} {es : List (Tid × Ev)} {s : St} (h : run en cap es = some s)
    (t : Tid) : s.acqs t = locksOf t es ∧ s.rels t = unlocksOf t es := by
  have := run_counts es h t
  simpa [init] using this

/-- "released exactly once", on the trace itself: in every accepted trace each thread's successful
lock events (mutex lock / successful try / timed / shared forms) exceed its unlock events by one
exactly while it holds the mutex, and are equal in number whenever it holds nothing. -/
theorem C08_released_once_trace {en cap : Bool} {es : List (Tid × Ev)} {s : St} (h : run en cap es = some s)
    (t : Tid) : locksOf t es = unlocksOf t es + (if s.held t = .none then 0 else 1) := by
  have h1 := C08_released_once ⟨es, h⟩ t
  have h2 := C08_counts_are_events h t
  omega

/-- a thread outside every operation has unlocked exactly as often as it locked -/
theorem C08_released_once_idle_trace {en cap : Bool} {es : List (Tid × Ev)} {s : St}
    (h : run en cap es = some s) {t : Tid} (hp : (s.loc t).pc = .idle) : locksOf t es = unlocksOf t es := by
  have h1 := C08_released_once_idle ⟨es, h⟩ hp
  have h2 := C08_counts_are_events h t
  omega

end ConcVerif.LockFam
