import ConcVerif.Proof.LockFam
/-! # C01 — exclusive handles and whole-object operations are mutually exclusive

Statements are over `Reachable en cap s`: every accepted event sequence of the wrapper model in
`Model/LockFam.lean` (any number of threads, any client program mixing lock / try_lock /
try_lock_for / try_lock_until / load / store / operator= / modify / handle life-cycle operations,
any interleaving), for both kinds of mutex (`cap` = has a shared mode) — the four C++ mutex types
differ only in `cap` and in which try/timed events occur.  `s.held t` is the ghost record of what
thread `t` holds on the wrapper's mutex; the first theorems tie it to the observable events. -/
namespace ConcVerif.LockFam

/-- Every payload read the model accepts (locking enabled) is made while the reading thread holds the
mutex, and returns the current value. -/
theorem C01_read_protected {en cap : Bool} {s s' : St} {t : Tid} {v : Int} (h : Reachable en cap s)
    (he : s.enabled = true) (hs : step s t (.rd v) = some s') : s.held t ≠ .none ∧ v = s.val := by
  have hi := inv_reachable h
  have hl := hi.l t
  cases hp : (s.loc t).pc <;> simp [step, hp, he] at hs
  · exact ⟨hs.1.1, hs.1.2⟩
  · rename_i w m sn wr th
    refine ⟨?_, hs.1.2⟩
    rw [hl.link]; simp only [ownMode, hp]
    exact hl.wholeM w m sn wr th hp

/-- Every payload write the model accepts (locking enabled) is made while the writing thread holds
the mutex exclusively. -/
theorem C01_write_exclusive {en cap : Bool} {s s' : St} {t : Tid} {v : Int} (h : Reachable en cap s)
    (he : s.enabled = true) (hs : step s t (.wr v) = some s') : s.held t = .X := by
  have hi := inv_reachable h
  have hl := hi.l t
  cases hp : (s.loc t).pc <;> simp [step, hp, he] at hs
  · exact hs.1
  · rename_i w m sn wr th
    rw [hl.link]; simp only [ownMode, hp]; exact hs.1.1

/-- Mutual exclusion: while one thread holds the mutex exclusively, no other thread holds it in any
mode. -/
theorem C01_excl {en cap : Bool} {s : St} (h : Reachable en cap s) {t u : Tid} (hx : s.held t = .X)
    (hne : u ≠ t) : s.held u = .none := by
  have hg := (inv_reachable h).g
  have hex := (hg.exclHeld t).2 hx
  cases hu : s.held u with
  | none => rfl
  | X =>
    have := (hg.exclHeld u).2 hu
    rw [hex] at this; injection this with this; exact absurd this.symm hne
  | S =>
    have hin := (hg.sharedHeld u).2 hu
    have := hg.xorRW (by rw [hex]; simp)
    rw [this] at hin; simp at hin

/-- … hence while a thread holds an exclusive handle or is inside a modifying whole-object operation,
no access by any other thread is accepted. -/
theorem C01_no_concurrent_access {en cap : Bool} {s : St} (h : Reachable en cap s) (he : s.enabled = true)
    {t u : Tid} (hx : s.held t = .X) (hne : u ≠ t) (v : Int) :
    step s u (.rd v) = none ∧ step s u (.wr v) = none := by
  have hu := C01_excl h hx hne
  constructor
  · cases hr : step s u (.rd v) with
    | none => rfl
    | some s' => exact absurd hu (C01_read_protected h he hr).1
  · cases hr : step s u (.wr v) with
    | none => rfl
    | some s' => have := C01_write_exclusive h he hr; rw [hu] at this; cases this

/-- A live, non-null, not moved-from handle (between handle operations, locking enabled) owns the
lock, and its thread holds the mutex in exactly that mode. -/
theorem C01_handle_holds {en cap : Bool} {s : St} (h : Reachable en cap s) (he : s.enabled = true) {t : Tid}
    (hp : (s.loc t).pc = .sess) (i : Slot) (hlive : ((s.loc t).get i).live = true)
    (hnn : ((s.loc t).get i).nonnull = true) (hh : ((s.loc t).get i).husk = false) :
    ((s.loc t).get i).owns ≠ .none ∧ s.held t = ((s.loc t).get i).owns := by
  have hl := (inv_reachable h).l t
  have hk := hl.keeps he i (by intro k p hk; rw [hk] at hp; cases hp) hlive hnn hh
  refine ⟨hk, ?_⟩
  rw [hl.link]; simp only [ownMode, hp, slotsMode]
  cases i <;> simp only [Loc.get] at hk ⊢
  · simp [hk]
  · have : (s.loc t).ha.owns = .none := by
      apply Classical.byContradiction; intro hne; exact hl.one ⟨hne, hk⟩
    simp [this]

/-- No lost update: while `t` holds the mutex exclusively, no step of another thread changes the
wrapped value or takes the lock away — a read-modify-write made under a handle or inside `modify`
is atomic. -/
theorem C01_no_lost_update {en cap : Bool} {s s' : St} (h : Reachable en cap s) (he : s.enabled = true)
    {t u : Tid} {e : Ev} (hx : s.held t = .X) (hne : u ≠ t) (hs : step s u e = some s') :
    s'.val = s.val ∧ s'.held t = .X := by
  have hi := inv_reachable h
  have hu := C01_excl h hx hne
  refine ⟨?_, ?_⟩
  · apply step_val hs
    intro v hv; subst hv
    have := C01_write_exclusive h he hs; rw [hu] at this; cases this
  · rw [step_held_other hs (Ne.symm hne)]; exact hx

/-- No leaked lock: a thread that is outside every operation holds nothing, so a held mutex always
has a holder that is still inside an operation (with a live owning handle or inside a bracket). -/
theorem C01_no_leak {en cap : Bool} {s : St} (h : Reachable en cap s) {t : Tid}
    (hp : (s.loc t).pc = .idle) : s.held t = .none :=
  ((inv_reachable h).l t).plain_none (by simp [hp, Pc.plain])

theorem C01_holder_inside {en cap : Bool} {s : St} (h : Reachable en cap s) {t : Tid}
    (hx : s.excl = some t) : (s.loc t).pc ≠ .idle := by
  intro hp
  have := C01_no_leak h hp
  have h2 := ((inv_reachable h).g.exclHeld t).1 hx
  rw [this] at h2; cases h2

/-- (L2) A thread that holds the mutex always has an enabled step: a holder is never blocked by
anybody else, so every critical section can be completed. -/
theorem C01_holder_enabled {en cap : Bool} {s : St} (h : Reachable en cap s) {t : Tid}
    (hh : s.held t ≠ .none) : ∃ e, (step s t e).isSome = true := by
  have hi := inv_reachable h
  have hl := hi.l t
  have hg := hi.g
  -- releasing what it holds is possible in the global state
  have hrel : ∀ sd, s.held t = sd.mode → (s.release t sd).isSome = true := by
    intro sd hm
    cases sd
    · have := (hg.exclHeld t).2 (by simpa [Side.mode] using hm)
      simp [St.release, this, hm, Side.mode]
    · have := (hg.sharedHeld t).2 (by simpa [Side.mode] using hm)
      simp [St.release, this, hm, Side.mode]
  cases hp : (s.loc t).pc
  case idle => exact absurd (hl.plain_none (by simp [hp, Pc.plain])) hh
  case sessCalled => exact absurd (hl.plain_none (by simp [hp, Pc.plain])) hh
  case acq => exact absurd (hl.plain_none (by simp [hp, Pc.plain])) hh
  case wCalled => exact absurd (hl.plain_none (by simp [hp, Pc.plain])) hh
  case wDone => exact absurd (hl.plain_none (by simp [hp, Pc.plain])) hh
  case wExc => exact absurd (hl.plain_none (by simp [hp, Pc.plain])) hh
  case acqd ok m =>
    have hd := hl.dead (by simp [hp, Pc.inSession])
    exact ⟨.got .a ok, by simp [step, hp, hd.1]⟩
  case sess =>
    -- some slot owns: destroying it is enabled
    have hown : s.held t = slotsMode (s.loc t) := by rw [hl.link]; simp [ownMode, hp]
    by_cases ha : (s.loc t).ha.owns = .none
    · have hb : (s.loc t).hb.owns ≠ .none := by
        intro hb; apply hh; rw [hown]; simp [slotsMode, ha, hb]
      exact ⟨.hbegin (.destroy .b), by simp [step, hp, Loc.get, (hl.hb hb).1]⟩
    · exact ⟨.hbegin (.destroy .a), by simp [step, hp, Loc.get, (hl.ha ha).1]⟩
  case hop k p =>
    obtain ⟨hwf, hpp⟩ := hl.hopOk k p hp
    cases p
    · -- the operation can end
      cases k with
      | destroy i => exact ⟨.hend none, by simp [step, hp]⟩
      | unlock i => exact ⟨.hend (some false), by simp [step, hp]⟩
      | movec a b => exact ⟨.hend none, by simp [step, hp]⟩
      | movea a b => exact ⟨.hend none, by simp [step, hp]⟩
    · -- the pending release is enabled
      have hown := hpp.1 rfl
      have hheld : s.held t = ((s.loc t).get k.relSlot).owns := by
        rw [hl.link]; simp only [ownMode, hp, slotsMode]
        cases hi' : k.relSlot <;> rw [hi'] at hown <;> simp only [Loc.get] at hown ⊢
        · simp [hown]
        · have : (s.loc t).ha.owns = .none := by
            apply Classical.byContradiction; intro hne; exact hl.one ⟨hne, hown⟩
          simp [this]
      cases hm : ((s.loc t).get k.relSlot).owns with
      | none => exact absurd hm hown
      | X =>
        have := hrel .X (by rw [hheld, hm]; rfl)
        refine ⟨.rel .X, ?_⟩
        simp only [step, hp, hm, modeSide]
        cases hr : s.release t .X with
        | none => rw [hr] at this; cases this
        | some s1 => simp
      | S =>
        have := hrel .S (by rw [hheld, hm]; rfl)
        refine ⟨.rel .S, ?_⟩
        simp only [step, hp, hm, modeSide]
        cases hr : s.release t .S with
        | none => rw [hr] at this; cases this
        | some s1 => simp
  case whole w m sn wr th => exact ⟨.uth, by simp [step, hp]⟩

/-- (L4) Deadlock-freedom: when nobody holds the mutex, every thread waiting in a blocking
acquisition (handle or whole-object operation) can proceed — so a blocked acquirer proceeds once
the current holder releases, and holders always can (`C01_holder_enabled`). -/
theorem C01_free_acquirer_enabled {en cap : Bool} {s : St} (h : Reachable en cap s) (he : s.enabled = true)
    (hfree : s.excl = none ∧ s.shared = []) {t : Tid} :
    (∀ sd how, (s.loc t).pc = .acq sd how → (step s t (.lk (effSide s.capable sd) how true)).isSome = true) ∧
    (∀ w, (s.loc t).pc = .wCalled w → (step s t (.lk .X .block true)).isSome = true) := by
  have hl := (inv_reachable h).l t
  constructor
  · intro sd how hp
    have hn := hl.plain_none (by simp [hp, Pc.plain])
    cases hc : s.capable <;> cases sd <;> simp [step, hp, he, effSide, hc, St.acquire, hn, hfree.1, hfree.2]
  · intro w hp
    have hn := hl.plain_none (by simp [hp, Pc.plain])
    simp [step, hp, St.acquire, hn, hfree.1, hfree.2]

/-! Non-vacuity: a concrete accepted trace in which thread 1 holds an exclusive handle (value read
0, written 1) while thread 2 is parked in a blocking `lock()`; the hypotheses of the theorems above
are met by reachable states. -/
def witness : List (Tid × Ev) :=
  [(1, .callSess), (1, .acq .X .block), (1, .lk .X .block true), (1, .got .a true),
   (2, .callSess), (2, .acq .X .block),
   (1, .rd 0), (1, .wr 1)]

example : ∃ s, Reachable true false s ∧ s.held 1 = .X ∧ (s.loc 1).pc = .sess ∧ (s.loc 2).pc = .acq .X .block ∧
    s.val = 1 ∧ (step s 2 (.lk .X .block true)) = none ∧ (step s 2 (.rd 1)) = none :=
  ⟨_, ⟨witness, rfl⟩, by decide, by decide, by decide, by decide, by decide, by decide⟩

end ConcVerif.LockFam
