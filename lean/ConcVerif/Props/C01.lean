import ConcVerif.Proof.LockFam
import ConcVerif.Proof.LockFamLive
/-! # C01 — exclusive handles and whole-object operations are mutually exclusive

Statements are over `Reachable en cap s`: every accepted event sequence of the wrapper model in
`Model/LockFam.lean` (any number of threads, any client program mixing lock / try_lock /
try_lock_for / try_lock_until / load / store / operator= / modify / handle life-cycle operations,
any interleaving), for both kinds of mutex (`cap` = has a shared mode) — the four C++ mutex types
differ only in `cap` and in which try/timed events occur.  `s.held t` is the ghost record of what
thread `t` holds on the wrapper's mutex; the first theorems tie it to the observable events. -/
namespace ConcVerif.LockFam

/-- Every payload read the model accepts (locking enabled) is made while the reading thread holds the
mutex, and returns the current value. -/
theorem C01_read_protected {en cap : Bool} {s s' : St} {t : Tid} {v : Int} (h : Reachable en cap s)
    (he : s.enabled = true) (hs : step s t (.rd v) = some s') : s.held t ≠ .none ∧ v = s.val := by
  have hi := inv_reachable h
  have hl := hi.l t
  cases hp : (s.loc t).pc <;> simp [step, hp, he] at hs
  · exact ⟨hs.1.1, hs.1.2⟩
  · rename_i w m sn wr th
    refine ⟨?_, hs.1.2⟩
    rw [hl.link]; simp only [ownMode, hp]
    exact hl.wholeM w m sn wr th hp

/-- Every payload write the model accepts (locking enabled) is made while the writing thread holds
the mutex exclusively. -/
theorem C01_write_exclusive {en cap : Bool} {s s' : St} {t : Tid} {v : Int} (h : Reachable en cap s)
    (he : s.enabled = true) (hs : step s t (.wr v) = some s') : s.held t = .X := by
  have hi := inv_reachable h
  have hl := hi.l t
  cases hp : (s.loc t).pc <;> simp [step, hp, he] at hs
  · exact hs.1
  · rename_i w m sn wr th
    rw [hl.link]; simp only [ownMode, hp]; exact hs.1.1

/-- Mutual exclusion: while one thread holds the mutex exclusively, no other thread holds it in any
mode. -/
theorem C01_excl {en cap : Bool} {s : St} (h : Reachable en cap s) {t u : Tid} (hx : s.held t = .X)
    (hne : u ≠ t) : s.held u = .none := by
  have hg := (inv_reachable h).g
  have hex := (hg.exclHeld t).2 hx
  cases hu : s.held u with
  | none => rfl
  | X =>
    have := (hg.exclHeld u).2 hu
    rw [hex] at this; injection this with this; exact absurd this.symm hne
  | S =>
    have hin := (hg.sharedHeld u).2 hu
    have := hg.xorRW (by rw [hex]; simp)
    rw [this] at hin; simp at hin

/-- … hence while a thread holds an exclusive handle or is inside a modifying whole-object operation,
no access by any other thread is accepted. -/
theorem C01_no_concurrent_access {en cap : Bool} {s : St} (h : Reachable en cap s) (he : s.enabled = true)
    {t u : Tid} (hx : s.held t = .X) (hne : u ≠ t) (v : Int) :
    step s u (.rd v) = none ∧ step s u (.wr v) = none := by
  have hu := C01_excl h hx hne
  constructor
  · cases hr : step s u (.rd v) with
    | none => rfl
    | some s' => exact absurd hu (C01_read_protected h he hr).1
  · cases hr : step s u (.wr v) with
    | none => rfl
    | some s' => have := C01_write_exclusive h he hr; rw [hu] at this; cases this

/-- A live, non-null, not moved-from handle (between handle operations, locking enabled) owns the
lock, and its thread holds the mutex in exactly that mode. -/
theorem C01_handle_holds {en cap : Bool} {s : St} (h : Reachable en cap s) (he : s.enabled = true) {t : Tid}
    (hp : (s.loc t).pc = .sess) (i : Slot) (hlive : ((s.loc t).get i).live = true)
    (hnn : ((s.loc t).get i).nonnull = true) (hh : ((s.loc t).get i).husk = false) :
    ((s.loc t).get i).owns ≠ .none ∧ s.held t = ((s.loc t).get i).owns := by
  have hl := (inv_reachable h).l t
  have hk := hl.keeps he i (by intro k p hk; rw [hk] at hp; cases hp) hlive hnn hh
  refine ⟨hk, ?_⟩
  rw [hl.link]; simp only [ownMode, hp, slotsMode]
  cases i <;> simp only [Loc.get] at hk ⊢
  · simp [hk]
  · have : (s.loc t).ha.owns = .none := by
      apply Classical.byContradiction; intro hne; exact hl.one ⟨hne, hk⟩
    simp [this]

/-- No lost update: while `t` holds the mutex exclusively, no step of another thread changes the
wrapped value or takes the lock away — a read-modify-write made under a handle or inside `modify`
is atomic. -/
theorem C01_no_lost_update {en cap : Bool} {s s' : St} (h : Reachable en cap s) (he : s.enabled = true)
    {t u : Tid} {e : Ev} (hx : s.held t = .X) (hne : u ≠ t) (hs : step s u e = some s') :
    s'.val = s.val ∧ s'.held t = .X := by
  have hi := inv_reachable h
  have hu := C01_excl h hx hne
  refine ⟨?_, ?_⟩
  · apply step_val hs
    intro v hv; subst hv
    have := C01_write_exclusive h he hs; rw [hu] at this; cases this
  · rw [step_held_other hs (Ne.symm hne)]; exact hx

/-- No leaked lock: a thread that is outside every operation holds nothing, so a held mutex always
has a holder that is still inside an operation (with a live owning handle or inside a bracket). -/
theorem C01_no_leak {en cap : Bool} {s : St} (h : Reachable en cap s) {t : Tid}
    (hp : (s.loc t).pc = .idle) : s.held t = .none :=
  ((inv_reachable h).l t).plain_none (by simp [hp, Pc.plain])

theorem C01_holder_inside {en cap : Bool} {s : St} (h : Reachable en cap s) {t : Tid}
    (hx : s.excl = some t) : (s.loc t).pc ≠ .idle := by
  intro hp
  have := C01_no_leak h hp
  have h2 := ((inv_reachable h).g.exclHeld t).1 hx
  rw [this] at h2; cases h2

/-- (L2) A thread that holds the mutex always has an enabled step: a holder is never blocked by
anybody else, so every critical section can be completed. -/
theorem C01_holder_enabled {en cap : Bool} {s : St} (h : Reachable en cap s) {t : Tid}
    (hh : s.held t ≠ .none) : ∃ e, (step s t e).isSome = true := by
  have hi := inv_reachable h
  have hl := hi.l t
  have hg := hi.g
  -- releasing what it holds is possible in the global state
  have hrel : ∀ sd, s.held t = sd.mode → (s.release t sd).isSome = true := by
    intro sd hm
    cases sd
    · have := (hg.exclHeld t).2 (by simpa [Side.mode] using hm)
      simp [St.release, this, hm, Side.mode]
    · have := (hg.sharedHeld t).2 (by simpa [Side.mode] using hm)
      simp [St.release, this, hm, Side.mode]
  cases hp : (s.loc t).pc
  case idle => exact absurd (hl.plain_none (by simp [hp, Pc.plain])) hh
  case sessCalled => exact absurd (hl.plain_none (by simp [hp, Pc.plain])) hh
  case acq => exact absurd (hl.plain_none (by simp [hp, Pc.plain])) hh
  case wCalled => exact absurd (hl.plain_none (by simp [hp, Pc.plain])) hh
  case wDone => exact absurd (hl.plain_none (by simp [hp, Pc.plain])) hh
  case wExc => exact absurd (hl.plain_none (by simp [hp, Pc.plain])) hh
  case acqd ok m =>
    have hd := hl.dead (by simp [hp, Pc.inSession])
    exact ⟨.got .a ok, by simp [step, hp, hd.1]⟩
  case sess =>
    -- some slot owns: destroying it is enabled
    have hown : s.held t = slotsMode (s.loc t) := by rw [hl.link]; simp [ownMode, hp]
    by_cases ha : (s.loc t).ha.owns = .none
    · have hb : (s.loc t).hb.owns ≠ .none := by
        intro hb; apply hh; rw [hown]; simp [slotsMode, ha, hb]
      exact ⟨.hbegin (.destroy .b), by simp [step, hp, Loc.get, (hl.hb hb).1]⟩
    · exact ⟨.hbegin (.destroy .a), by simp [step, hp, Loc.get, (hl.ha ha).1]⟩
  case hop k p =>
    obtain ⟨hwf, hpp⟩ := hl.hopOk k p hp
    cases p
    · -- the operation can end
      cases k with
      | destroy i => exact ⟨.hend none, by simp [step, hp]⟩
      | unlock i => exact ⟨.hend (some false), by simp [step, hp]⟩
      | movec a b => exact ⟨.hend none, by simp [step, hp]⟩
      | movea a b => exact ⟨.hend none, by simp [step, hp]⟩
    · -- the pending release is enabled
      have hown := hpp.1 rfl
      have hheld : s.held t = ((s.loc t).get k.relSlot).owns := by
        rw [hl.link]; simp only [ownMode, hp, slotsMode]
        cases hi' : k.relSlot <;> rw [hi'] at hown <;> simp only [Loc.get] at hown ⊢
        · simp [hown]
        · have : (s.loc t).ha.owns = .none := by
            apply Classical.byContradiction; intro hne; exact hl.one ⟨hne, hown⟩
          simp [this]
      cases hm : ((s.loc t).get k.relSlot).owns with
      | none => exact absurd hm hown
      | X =>
        have := hrel .X (by rw [hheld, hm]; rfl)
        refine ⟨.rel .X, ?_⟩
        simp only [step, hp, hm, modeSide]
        cases hr : s.release t .X with
        | none => rw [hr] at this; cases this
        | some s1 => simp
      | S =>
        have := hrel .S (by rw [hheld, hm]; rfl)
        refine ⟨.rel .S, ?_⟩
        simp only [step, hp, hm, modeSide]
        cases hr : s.release t .S with
        | none => rw [hr] at this; cases this
        | some s1 => simp
  case whole w m sn wr th => exact ⟨.uth, by simp [step, hp]⟩

/-- (L4) Deadlock-freedom: when nobody holds the mutex, every thread waiting in a blocking
acquisition (handle or whole-object operation) can proceed — so a blocked acquirer proceeds once
the current holder releases, and holders always can (`C01_holder_enabled`). -/
theorem C01_free_acquirer_enabled {en cap : Bool} {s : St} (h : Reachable en cap s) (he : s.enabled = true)
    (hfree : s.excl = none ∧ s.shared = []) {t : Tid} :
    (∀ sd how, (s.loc t).pc = .acq sd how → (step s t (.lk (effSide s.capable sd) how true)).isSome = true) ∧
    (∀ w, (s.loc t).pc = .wCalled w → (step s t (.lk .X .block true)).isSome = true) := by
  have hl := (inv_reachable h).l t
  constructor
  · intro sd how hp
    have hn := hl.plain_none (by simp [hp, Pc.plain])
    cases hc : s.capable <;> cases sd <;> simp [step, hp, he, effSide, hc, St.acquire, hn, hfree.1, hfree.2]
  · intro w hp
    have hn := hl.plain_none (by simp [hp, Pc.plain])
    simp [step, hp, St.acquire, hn, hfree.1, hfree.2]

/-! Non-vacuity: a concrete accepted trace in which thread 1 holds an exclusive handle (value read
0, written 1) while thread 2 is parked in a blocking `lock()`; the hypotheses of the theorems above
are met by reachable states. -/
def witness : List (Tid × Ev) :=
  [(1, .callSess), (1, .acq .X .block), (1, .lk .X .block true), (1, .got .a true),
   (2, .callSess), (2, .acq .X .block),
   (1, .rd 0), (1, .wr 1)]

example : ∃ s, Reachable true false s ∧ s.held 1 = .X ∧ (s.loc 1).pc = .sess ∧ (s.loc 2).pc = .acq .X .block ∧
    s.val = 1 ∧ (step s 2 (.lk .X .block true)) = none ∧ (step s 2 (.rd 1)) = none :=
  ⟨_, ⟨witness, rfl⟩, by decide, by decide, by decide, by decide, by decide, by decide⟩

/-! ## Liveness: no deadlock, no leaked lock, no livelock — for every scheduler

"Every blocked acquirer proceeds once the current holder releases" is proved without any fairness
assumption, in the vocabulary of `Proof/LockFamLive.lean`:
* environment events (`isEnv`) = the CLIENT's decisions: the call of an operation, the handle operation it
  chooses to perform while it keeps a handle (`hbegin`: destroy / unlock / move), the accesses and throws of
  client code (`rd`/`wr`/`uth` through a held handle or as the body of a whole-object bracket) and the
  end-of-run observation `final`; every other event is a step of the LIBRARY;
* `ClientTurn s t`: thread `t` keeps a live handle between two handle operations, or its code runs as the
  body of a whole-object bracket that is not complete; `Waiting s t`: `t` is inside a blocking
  acquisition before its lock event; `Moves s t`: `t` has an enabled library step other than a lock
  acquisition (nobody else can disable it); `LibEnabled s t`: some library step of `t` is enabled.

* `C01_terminates` (no livelock): an execution that makes no environment event from some point on cannot be
  infinite — every library step strictly lowers the summed rank, failed `try_lock`s and time-outs included.
* `C01_progress_cases` (no deadlock, no leaked lock): in every reachable state either some thread `Moves`,
  or the mutex is free and every waiting acquirer can take it now, or the mutex is held, EVERY holder is a
  client whose move it is, and every other thread inside an operation is such a client or a waiting acquirer.
* `C01_stuck_means_client_holds`, `C01_progress`, `C01_stuck_no_client_all_returned`: the same read as a
  statement about states without enabled library step.
What is NOT covered: an execution with infinitely many acquisitions by other threads in which the mutex
(C++ mutexes are not fair) never picks one particular waiter. -/

/-- no livelock: an execution which makes no environment event from step `N` on (threads drawn from any
finite list `ts`) cannot be infinite; no assumption on the state at `N` or on the scheduler -/
theorem C01_terminates (x : Live.Exec step) (N : Nat) (ts : List Tid) (hnd : ts.Nodup)
    (hts : ∀ n, N ≤ n → x.who n ∈ ts) (hnc : ∀ n, N ≤ n → isEnv (x.ev n) = false) : False :=
  Live.no_infinite_run ranked ts hnd x N trivial hts hnc

/-- quantitative form: a trace with `c` environment events has at most `(total rank) + 5·c` steps -/
theorem C01_bounded_run {s s' : St} (ts : List Tid) (hnd : ts.Nodup) {es : List (Tid × Ev)}
    (hts : ∀ y ∈ es, y.1 ∈ ts) (hrun : runFrom step s es = some s') :
    es.length + Live.total μ ts s' ≤ Live.total μ ts s + 5 * Live.calls isEnv es :=
  Live.bounded_run ranked ts hnd trivial hts hrun

/-- every thread of a reachable state is outside every operation, or has a library step nobody can
disable, or it is the client's move there, or it waits in a blocking acquisition -/
theorem C01_thread_cases {en cap : Bool} {s : St} (h : Reachable en cap s) (t : Tid) :
    (s.loc t).pc = .idle ∨ Moves s t ∨ ClientTurn s t ∨ Waiting s t :=
  thread_cases (inv_reachable h) t

/-- a holder of the mutex (handle or bracket) is never blocked by anybody: it has a library step nobody
can disable, or it is the client's move (and then the client has one: `C01_client_can_move`) -/
theorem C01_holder_moves_or_client {en cap : Bool} {s : St} (h : Reachable en cap s) {t : Tid}
    (hh : s.held t ≠ .none) : Moves s t ∨ ClientTurn s t :=
  holder_cases (inv_reachable h) hh

theorem C01_client_can_move {s : St} {t : Tid} (h : ClientTurn s t) :
    ∃ e, isEnv e = true ∧ (step s t e).isSome = true := client_can_move h

/-- when the mutex is free, every waiting acquirer can take it at once: a session on the side it asked
for, a whole-object operation on the exclusive side and, if the mutex has one, on the shared side -/
theorem C01_free_waiting_enabled {en cap : Bool} {s : St} (h : Reachable en cap s)
    (hfree : s.excl = none ∧ s.shared = []) {t : Tid} (hw : Waiting s t) :
    (∀ sd, (s.loc t).pc = .acq sd .block → (step s t (.lk (effSide s.capable sd) .block true)).isSome = true) ∧
    (∀ w, (s.loc t).pc = .wCalled w → (step s t (.lk .X .block true)).isSome = true ∧
      (s.capable = true → (step s t (.lk .S .block true)).isSome = true)) :=
  free_waiting_enabled (inv_reachable h) hfree hw

/-- **no deadlock, no leaked lock**: (1) some thread has a library step nobody can disable, or (2) the
mutex is free and every thread inside an operation is a client whose move it is or a waiting acquirer
that can take the mutex now, or (3) the mutex is held, every holder is a client whose move it is, and
every thread inside an operation is such a client or a waiting acquirer -/
theorem C01_progress_cases {en cap : Bool} {s : St} (h : Reachable en cap s) :
    (∃ u, Moves s u) ∨
    ((s.excl = none ∧ s.shared = []) ∧
      ∀ t, (s.loc t).pc = .idle ∨ ClientTurn s t ∨ (Waiting s t ∧ LibEnabled s t)) ∨
    ((∃ u, s.held u ≠ .none) ∧ (∀ u, s.held u ≠ .none → ClientTurn s u) ∧
      ∀ t, (s.loc t).pc = .idle ∨ ClientTurn s t ∨ Waiting s t) :=
  trichotomy (inv_reachable h)

/-- a reachable state without enabled library step: nobody is inside an operation except clients whose
move it is and acquirers waiting for a mutex that such a client holds (handle kept between operations, or
its code running inside a bracket) — "no deadlock, no leaked lock" -/
theorem C01_stuck_means_client_holds {en cap : Bool} {s : St} (h : Reachable en cap s)
    (hstuck : ∀ u, ¬ LibEnabled s u) (t : Tid) (ht : (s.loc t).pc ≠ .idle) :
    ClientTurn s t ∨ (Waiting s t ∧ ∃ u, u ≠ t ∧ s.held u ≠ .none ∧ ClientTurn s u) := by
  have hi := inv_reachable h
  rcases trichotomy hi with ⟨u, hm⟩ | ⟨_, hall⟩ | ⟨⟨u, hu⟩, hcl, hall⟩
  · exact absurd hm.lib (hstuck u)
  · rcases hall t with h1 | h1 | ⟨_, h1⟩
    · exact absurd h1 ht
    · exact Or.inl h1
    · exact absurd h1 (hstuck t)
  · rcases hall t with h1 | h1 | h1
    · exact absurd h1 ht
    · exact Or.inl h1
    · refine Or.inr ⟨h1, u, ?_, hu, hcl u hu⟩
      intro hut; subst hut
      exact hu (h1.holds_none hi)

/-- deadlock-freedom: if some thread is inside an operation, then some thread has an enabled library step,
or it is the clients' turn — every thread inside an operation is a client whose move it is or waits for a
mutex held by such a client -/
theorem C01_progress {en cap : Bool} {s : St} (h : Reachable en cap s) {t₀ : Tid} (_ht₀ : (s.loc t₀).pc ≠ .idle) :
    (∃ u, LibEnabled s u) ∨
    (∀ t, (s.loc t).pc ≠ .idle →
      ClientTurn s t ∨ (Waiting s t ∧ ∃ u, u ≠ t ∧ s.held u ≠ .none ∧ ClientTurn s u)) := by
  by_cases hl : ∃ u, LibEnabled s u
  · exact Or.inl hl
  · exact Or.inr (C01_stuck_means_client_holds h (fun u hu => hl ⟨u, hu⟩))

/-- … so when the library cannot move and no client keeps a handle or is inside a bracket body, every
thread has returned -/
theorem C01_stuck_no_client_all_returned {en cap : Bool} {s : St} (h : Reachable en cap s)
    (hstuck : ∀ u, ¬ LibEnabled s u) (hnc : ∀ u, ¬ ClientTurn s u) (t : Tid) : (s.loc t).pc = .idle := by
  apply Classical.byContradiction
  intro ht
  rcases C01_stuck_means_client_holds h hstuck t ht with h1 | ⟨_, u, _, _, h1⟩
  · exact hnc t h1
  · exact hnc u h1

/-! Non-vacuity.  In the state after `witness` case (3) holds: thread 1 is a client keeping an exclusive
handle, thread 2 waits and cannot acquire.  After the client destroys the handle (`witness2`) the mutex is
free and thread 2's acquisition is enabled — case (2); `witness3` runs both sessions to the end. -/
example : ∃ s, Reachable true false s ∧ ClientTurn s 1 ∧ Waiting s 2 ∧ s.held 1 = .X ∧
    step s 2 (.lk .X .block true) = none ∧ ¬ LibEnabled s 1 ∧ ¬ LibEnabled s 2 := by
  refine ⟨_, ⟨witness, rfl⟩, Or.inl ⟨by decide, Or.inl (by decide)⟩, Or.inl ⟨.X, by decide, by decide⟩, by decide,
    by decide, sess_live_not_lib (by decide) (Or.inl (by decide)), fun h => ?_⟩
  have := acq_block_lib (sd := .X) (by decide) (by decide) h
  revert this; decide

def witness2 : List (Tid × Ev) :=
  witness ++ [(1, .hbegin (.destroy .a)), (1, .rel .X), (1, .hend none)]

example : ∃ s, Reachable true false s ∧ (s.excl = none ∧ s.shared = []) ∧ Waiting s 2 ∧
    (step s 2 (.lk .X .block true)).isSome = true :=
  ⟨_, ⟨witness2, rfl⟩, by decide, Or.inl ⟨.X, by decide, by decide⟩, by decide⟩

def witness3 : List (Tid × Ev) :=
  witness2 ++ [(2, .lk .X .block true), (2, .got .a true), (1, .retSess), (2, .hbegin (.unlock .a)), (2, .rel .X),
    (2, .hend (some false)), (2, .hbegin (.destroy .a)), (2, .hend none), (2, .retSess)]

example : ∃ s, Reachable true false s ∧ (s.loc 1).pc = .idle ∧ (s.loc 2).pc = .idle ∧ s.excl = none :=
  ⟨_, ⟨witness3, rfl⟩, by decide, by decide, by decide⟩

end ConcVerif.LockFam
