import ConcVerif.Proof.TripWire
/-! # C19 — a trip line is one-way, per line, and publishes what preceded it

All statements are over `Reachable n s` (`n` = size of the indexed table): every accepted event sequence
of the model in `Model/TripWire.lean` — any number of lines, trigger objects, detectors, threads, moves,
interleavings.  Loads and stores are the `ald` / `ast` events of the real `atomic<bool>`; the model
rejects a load weaker than `acquire` and a store weaker than `release`. -/
namespace ConcVerif.TripWire

/-! ## one-way: false until the first destruction of a trigger holding the line, true for ever after -/

/-- Before the first tripping store on `l` every detector load on `l` returns `false`. -/
theorem C19_monotone_false_before {n : Nat} {s s' : St} {t : Tid} {l : LineId} {o : Ord} {v : Bool}
    (h : Reachable n s) (h0 : s.trips l = []) (hs : step s t (.ld l o v) = some s') : v = false := by
  have hi := inv_reachable h
  obtain ⟨_, _, hv, _⟩ := ld_inv hs
  subst hv
  cases hl : s.line l
  · rfl
  · exact absurd h0 ((hi.tripped l).1 hl)

/-- The history of tripping stores on `l` (hence, by the invariant, the value of `l`) changes only by a
step of a trigger destructor that entered holding `l` and has not stored yet … -/
theorem C19_monotone_only_destructor {s s' : St} {t : Tid} {e : Ev} {l : LineId}
    (hs : step s t e = some s') (hc : s'.trips l ≠ s.trips l ∨ s'.line l ≠ s.line l) :
    ∃ id, s.pc t = .rm id (some l) false := by
  rcases step_lines hs with ⟨⟨h1, _, h3⟩, _⟩ | ⟨j, htr⟩
  · rw [h1, h3] at hc; rcases hc with hc | hc <;> exact absurd rfl hc
  · by_cases hj : l = j
    · subst hj; obtain ⟨id, hp, _⟩ := htr.pc; exact ⟨id, hp⟩
    · rw [htr.line, htr.trips] at hc; simp [hj] at hc

/-- … and that pc is entered only by the destructor call of a live trigger object holding `l`
(the object's lifetime ends there: `trig id` becomes `none`). -/
theorem C19_monotone_destructor_entry {s s' : St} {t : Tid} {e : Ev} {id : Nat} {held : Option LineId}
    (hs : step s t e = some s') (hp : s'.pc t = .rm id held false) (hne : s.pc t ≠ .rm id held false) :
    e = .callRm id ∧ s.trig id = some held ∧ s'.trig id = none :=
  rm_entry hs hp hne

/-- Once tripped, tripped for ever: a line that is `true` stays `true` along every accepted run. -/
theorem C19_monotone_sticky_state {s s' : St} {es : List (Tid × Ev)} {l : LineId}
    (hr : runFrom step s es = some s') (hl : s.line l = true) : s'.line l = true :=
  line_mono_run hr l hl

/-- Once any detector load on `l` (by any thread) returned `true`, every later load on `l` by any thread
returns `true`. -/
theorem C19_monotone {s s1 s2 s3 : St} {t u : Tid} {l : LineId} {o o' : Ord} {v : Bool}
    {es : List (Tid × Ev)} (h1 : step s t (.ld l o true) = some s1) (hr : runFrom step s1 es = some s2)
    (h2 : step s2 u (.ld l o' v) = some s3) : v = true := by
  obtain ⟨_, _, hv, _⟩ := ld_inv h1
  obtain ⟨_, _, hv', _⟩ := ld_inv h2
  have := line_mono_run hr l (line_mono_step h1 l hv.symm)
  rw [hv', this]

/-- When the destructor of a trigger that held `l` returns, `l` is `true` (the destructor cannot return
without having stored), so by `C19_monotone_sticky_state` every later load on `l` returns `true`. -/
theorem C19_monotone_after_destroy {n : Nat} {s s' s2 s3 : St} {t u : Tid} {id id' : Nat} {l : LineId}
    {d : Bool} {o : Ord} {v : Bool} {es : List (Tid × Ev)} (h : Reachable n s)
    (hp : s.pc t = .rm id (some l) d) (hs : step s t (.retRm id') = some s')
    (hr : runFrom step s' es = some s2) (h2 : step s2 u (.ld l o v) = some s3) :
    s'.line l = true ∧ v = true := by
  have hi := inv_reachable h
  have hd : d = true := by
    simp [step, hp] at hs
    exact hs.1.2
  subst hd
  have hl : s'.line l = true := line_mono_step hs l (hi.done t id l hp)
  obtain ⟨_, _, hv', _⟩ := ld_inv h2
  exact ⟨hl, by rw [hv', line_mono_run hr l hl]⟩

/-! ## per line: independence -/

/-- An event that is not an atomic operation on line `j` changes nothing about line `j` (value, attached
view, history) — in particular every event on line `i ≠ j` and every non-atomic event. -/
theorem C19_independent {s s' : St} {t : Tid} {e : Ev} {j : LineId} (hs : step s t e = some s')
    (hj : e.line? ≠ some j) : s'.line j = s.line j ∧ s'.msg j = s.msg j ∧ s'.trips j = s.trips j := by
  rcases step_lines hs with ⟨⟨h1, h2, h3⟩, _⟩ | ⟨l, htr⟩
  · rw [h1, h2, h3]; exact ⟨rfl, rfl, rfl⟩
  · have hne : j ≠ l := by
      intro hjl; subst hjl; exact hj htr.ev.1
    rw [htr.line, htr.trips, htr.msgOther j hne]
    simp [hne]

/-- Atomic events on line `j` occur only inside `isTripped` of a detector bound to `j` (loads) or inside
the destructor of a trigger that held `j` (the store): operations on objects of line `i` never touch `j`. -/
theorem C19_independent_ops {s s' : St} {t : Tid} {e : Ev} {j : LineId} (hs : step s t e = some s')
    (hj : e.line? = some j) :
    (∃ d seen, s.pc t = .ck d j seen ∧ e.isWrite = false) ∨ (∃ id, s.pc t = .rm id (some j) false ∧ e.isWrite = true) := by
  cases e <;> simp [Ev.line?] at hj
  · subst hj
    obtain ⟨⟨d, seen, hp, _⟩, _⟩ := ld_inv hs
    exact Or.inl ⟨d, seen, hp, rfl⟩
  · subst hj
    obtain ⟨⟨id, hp⟩, _⟩ := st_inv hs
    exact Or.inr ⟨id, hp, rfl⟩
  · subst hj
    rcases step_lines hs with ⟨⟨_, _, _⟩, _⟩ | ⟨l, htr⟩
    · rename_i l o new old _ _ _ _
      cases hp : s.pc t <;> simp [step, hp] at hs
      rename_i id held done
      cases held <;> cases done <;> simp at hs
      obtain ⟨⟨h1, _⟩, _⟩ := hs
      subst h1
      exact Or.inr ⟨id, rfl, rfl⟩
    · obtain ⟨id, hp, _⟩ := htr.pc
      have : l = _ := Option.some.inj htr.ev.1.symm
      subst this
      exact Or.inr ⟨id, hp, rfl⟩

/-! ## indexed lines: `at()` -/

/-- An out-of-range index makes the trigger constructor end with the exception — the only event the
model accepts next — and the state is exactly what it was before the call: nothing changed. -/
theorem C19_index {n : Nat} {s s1 : St} {t : Tid} {id k : Nat} (h : Reachable n s) (hk : n ≤ k)
    (hc : step s t (.callMkT id (.idx k)) = some s1) :
    (step s1 t (.retMkT id none)).isSome = true ∧
      ∀ e s2, step s1 t e = some s2 → e = .retMkT id none ∧ s2 = s := by
  have hn := nIdx_reachable h
  cases hp : s.pc t <;> simp [step, hp] at hc
  obtain ⟨_, hc⟩ := hc
  subst hc
  have hlook : lookup s.nIdx (.idx k) = none := by simp [lookup, hn]; omega
  refine ⟨by simp [step, hlook], ?_⟩
  intro e s2 h2
  cases e <;> simp [step, hlook] at h2
  obtain ⟨⟨h3, h4⟩, h5⟩ := h2
  subst h3 h4 h5
  refine ⟨rfl, ?_⟩
  cases s
  simp [St.setPc] at hp ⊢
  funext u
  by_cases hu : u = t
  · subst hu; simp [hp]
  · simp [hu]

/-- the same for a detector -/
theorem C19_index_detector {n : Nat} {s s1 : St} {t : Tid} {id k : Nat} (h : Reachable n s) (hk : n ≤ k)
    (hc : step s t (.callMkD id (.idx k)) = some s1) :
    (step s1 t (.retMkD id none)).isSome = true ∧
      ∀ e s2, step s1 t e = some s2 → e = .retMkD id none ∧ s2 = s := by
  have hn := nIdx_reachable h
  cases hp : s.pc t <;> simp [step, hp] at hc
  obtain ⟨_, hc⟩ := hc
  subst hc
  have hlook : lookup s.nIdx (.idx k) = none := by simp [lookup, hn]; omega
  refine ⟨by simp [step, hlook], ?_⟩
  intro e s2 h2
  cases e <;> simp [step, hlook] at h2
  obtain ⟨⟨h3, h4⟩, h5⟩ := h2
  subst h3 h4 h5
  refine ⟨rfl, ?_⟩
  cases s
  simp [St.setPc] at hp ⊢
  funext u
  by_cases hu : u = t
  · subst hu; simp [hp]
  · simp [hu]

/-- An index inside the table binds the new object to exactly that entry, without any atomic operation
and without an exception. -/
theorem C19_index_in_range {n : Nat} {s s1 : St} {t : Tid} {id k : Nat} (h : Reachable n s) (hk : k < n)
    (hc : step s t (.callMkT id (.idx k)) = some s1) :
    ∀ e s2, step s1 t e = some s2 →
      e = .retMkT id (some (.idx k)) ∧ s2.trig id = some (some (.idx k)) ∧ SameLines s s2 := by
  have hn := nIdx_reachable h
  cases hp : s.pc t <;> simp [step, hp] at hc
  obtain ⟨_, hc⟩ := hc
  subst hc
  have hlook : lookup s.nIdx (.idx k) = some (.idx k) := by simp [lookup, hn, hk]
  intro e s2 h2
  cases e <;> simp [step, hlook] at h2
  obtain ⟨⟨h3, h4⟩, h5⟩ := h2
  subst h3 h4 h5
  exact ⟨rfl, by simp, rfl, rfl, rfl⟩

/-! ## moves transfer the duty -/

/-- Move construction: the only way out of the call hands the source's binding to the new object, leaves
the source empty, and touches no line. -/
theorem C19_move {s s' : St} {t : Tid} {e : Ev} {new old : Nat} (hp : s.pc t = .mv new old)
    (hs : step s t e = some s') :
    ∃ b, s.trig old = some b ∧ e = .retMv new old b none ∧ s'.trig new = some b ∧
      (new ≠ old → s'.trig old = some none) ∧ SameLines s s' := by
  cases e <;> simp [step, hp] at hs
  rename_i new' old' ln lo
  cases hb : s.trig old <;> simp [hb] at hs
  rename_i b
  obtain ⟨⟨h1, h2, h3, h4⟩, h5⟩ := hs
  subst h1 h2 h3 h4 h5
  refine ⟨ln, rfl, rfl, by simp, ?_, rfl, rfl, rfl⟩
  intro hne
  simp [Ne.symm hne]

/-- Destroying an empty (moved-from) trigger is accepted, performs NO atomic write — no store or exchange
on any line is accepted from that destructor — and leaves every line as it was. -/
theorem C19_move_from_destroy {s s1 : St} {t : Tid} {id : Nat} (he : s.trig id = some none)
    (hc : step s t (.callRm id) = some s1) :
    SameLines s s1 ∧ (step s1 t (.retRm id)).isSome = true ∧
      ∀ e s2, step s1 t e = some s2 → e = .retRm id ∧ SameLines s s2 := by
  cases hp : s.pc t <;> simp [step, hp, he] at hc
  subst hc
  refine ⟨⟨rfl, rfl, rfl⟩, by simp [step], ?_⟩
  intro e s2 h2
  cases e <;> simp [step] at h2
  obtain ⟨h3, h4⟩ := h2
  subst h3 h4
  exact ⟨rfl, rfl, rfl, rfl⟩

/-- Destroying a trigger that holds `l` (for instance the moved-to object): the destructor cannot return
before it has written, the release store of `true` to `l` is what it may do, and after that store `l`
is `true` (`C19_monotone_after_destroy` covers everything later). -/
theorem C19_move_to_destroy {s s1 : St} {t : Tid} {id : Nat} {l : LineId} (he : s.trig id = some (some l))
    (hc : step s t (.callRm id) = some s1) :
    s1.pc t = .rm id (some l) false ∧ step s1 t (.retRm id) = none ∧
      ∃ s2, step s1 t (.st l .rel true) = some s2 ∧ s2.line l = true ∧ s2.pc t = .rm id (some l) true := by
  cases hp : s.pc t <;> simp [step, hp, he] at hc
  subst hc
  refine ⟨by simp, by simp [step], ?_⟩
  simp [step, Ord.isRelease, St.trip]

/-- Move assignment (defaulted): the target takes the source's binding, the source is left empty, and NO
line changes — in particular the line the target held before is not tripped by the assignment. -/
theorem C19_move_assign {s s' : St} {t : Tid} {e : Ev} {dst src : Nat} (hp : s.pc t = .as dst src)
    (hne : dst ≠ src) (hs : step s t e = some s') :
    ∃ b, s.trig src = some b ∧ e = .retAs dst src b none ∧ s'.trig dst = some b ∧ s'.trig src = some none ∧
      SameLines s s' := by
  cases e <;> simp [step, hp] at hs
  rename_i dst' src' ld ls
  cases hb : s.trig src <;> simp [hb, hne] at hs
  rename_i b
  obtain ⟨⟨h1, h2⟩, ⟨h3, h4⟩, h5⟩ := hs
  subst h1 h2 h3 h4 h5
  refine ⟨ld, rfl, rfl, by simp, ?_, rfl, rfl, rfl⟩
  simp [Ne.symm hne]

/-! ## publication -/

/-- The tripping store is at least a release store, and what it records is exactly what the storing
thread knew at that moment. -/
theorem C19_publish_store {s s' : St} {t : Tid} {l : LineId} {o : Ord} {v : Bool}
    (hs : step s t (.st l o v) = some s') :
    o.isRelease = true ∧ v = true ∧ s'.trips l = (t, s.know t) :: s.trips l := by
  obtain ⟨_, h1, h2, h3, _⟩ := st_inv hs
  exact ⟨h1, h2, h3⟩

/-- If thread `r`'s load on `l` returned `true` then it was at least an acquire load, some trigger
destructor has stored to `l`, and after the load `r` knows everything the thread of the store it read
(the latest one) knew at that store — in particular every plain write that thread made before
destroying the trigger. -/
theorem C19_publish {n : Nat} {s s' : St} {r : Tid} {l : LineId} {o : Ord} (h : Reachable n s)
    (hs : step s r (.ld l o true) = some s') :
    o.isAcquire = true ∧ ∃ t K rest, s.trips l = (t, K) :: rest ∧ ∀ w ∈ K, w ∈ s'.know r := by
  have hi := inv_reachable h
  obtain ⟨_, ho, hv, hk⟩ := ld_inv hs
  refine ⟨ho, ?_⟩
  have hne := (hi.tripped l).1 hv.symm
  cases ht : s.trips l with
  | nil => exact absurd ht hne
  | cons x rest =>
    obtain ⟨t, K⟩ := x
    refine ⟨t, K, rest, rfl, ?_⟩
    intro w hw
    rw [hk]
    exact List.mem_append_right _ (hi.head l t K rest ht w hw)

/-- a thread knows its own writes, and knowledge is never lost -/
theorem C19_publish_own_write {s s' : St} {t : Tid} {d v : Nat} (hs : step s t (.pwr d v) = some s') :
    (d, v) ∈ s'.know t := by
  cases hp : s.pc t <;> simp [step, hp] at hs
  obtain ⟨_, hs⟩ := hs
  subst hs
  simp

theorem C19_publish_know_mono {s s' : St} {es : List (Tid × Ev)} (hr : runFrom step s es = some s')
    (u : Tid) (w : Wr) (hw : w ∈ s.know u) : w ∈ s'.know u :=
  know_mono_run hr u w hw

/-- End to end: thread `t` writes datum `d`, later destroys a trigger holding `l` (the store), and a
thread `r` whose load on `l` reads that store (no other store on `l` in between) returns `true`:
then `r` knows the write, and a plain read of `d` by `r` that returns `v` is one the model accepts. -/
theorem C19_publish_trace {n : Nat} {s0 s1 s2 s3 s4 s5 : St} {t r : Tid} {d v : Nat} {l : LineId}
    {o o' : Ord} {tv : Bool} {es1 es2 : List (Tid × Ev)} (h : Reachable n s0)
    (hw : step s0 t (.pwr d v) = some s1) (hr1 : runFrom step s1 es1 = some s2)
    (hst : step s2 t (.st l o tv) = some s3) (hr2 : runFrom step s3 es2 = some s4)
    (hsame : s4.trips l = s3.trips l) (hld : step s4 r (.ld l o' true) = some s5) :
    o.isRelease = true ∧ o'.isAcquire = true ∧ (d, v) ∈ s5.know r := by
  have h4 : Reachable n s4 :=
    reachable_run (reachable_step (reachable_run (reachable_step h hw) hr1) hst) hr2
  obtain ⟨hrel, _, htr⟩ := C19_publish_store hst
  obtain ⟨hacq, t', K, rest, hK, hsub⟩ := C19_publish h4 hld
  rw [hsame, htr] at hK
  injection hK with hK _
  injection hK with _ hK
  subst hK
  exact ⟨hrel, hacq, hsub _ (know_mono_run hr1 t _ (C19_publish_own_write hw))⟩

/-- The model rejects a tripping store weaker than release and a detector load weaker than acquire. -/
theorem C19_publish_orders {s : St} {t : Tid} {l : LineId} {v : Bool} :
    step s t (.st l .rlx v) = none ∧ step s t (.ld l .rlx v) = none ∧ step s t (.ld l .con v) = none ∧
      step s t (.st l .acq v) = none ∧ step s t (.ld l .rel v) = none := by
  have hst : ∀ o, o.isRelease = false → step s t (.st l o v) = none := by
    intro o ho
    cases h : step s t (.st l o v) with
    | none => rfl
    | some s' => have := (st_inv h).2.1; rw [ho] at this; contradiction
  have hld : ∀ o, o.isAcquire = false → step s t (.ld l o v) = none := by
    intro o ho
    cases h : step s t (.ld l o v) with
    | none => rfl
    | some s' => have := (ld_inv h).2.1; rw [ho] at this; contradiction
  exact ⟨hst _ rfl, hld _ rfl, hld _ rfl, hst _ rfl, hld _ rfl⟩

/-! ## Non-vacuity: concrete accepted traces -/

/-- thread 0 (main) makes a trigger and a detector on explicit line 0 and a detector on indexed line 1;
thread 1 writes datum 7, moves the trigger, destroys the moved-from object, then the moved-to object;
thread 2 polls before and after. -/
def witness : List (Tid × Ev) :=
  [(0, .callMkT 0 (.line (.expl 0))), (0, .retMkT 0 (some (.expl 0))),
   (0, .callMkD 0 (.line (.expl 0))), (0, .retMkD 0 (some (.expl 0))),
   (0, .callMkD 1 (.idx 1)), (0, .retMkD 1 (some (.idx 1))),
   (1, .fork), (2, .fork),
   (2, .callCk 0), (2, .ld (.expl 0) .acq false), (2, .retCk 0 false),
   (1, .pwr 7 1),
   (1, .callMv 1 0), (1, .retMv 1 0 (some (.expl 0)) none),
   (1, .callRm 0), (1, .retRm 0),
   (1, .callRm 1), (1, .st (.expl 0) .rel true), (1, .retRm 1),
   (2, .callCk 0), (2, .ld (.expl 0) .acq true), (2, .retCk 0 true),
   (2, .prd 7 1),
   (2, .callCk 1), (2, .ld (.idx 1) .acq false), (2, .retCk 1 false)]

/-- the whole trace is accepted; at the end line `expl 0` is tripped by thread 1, line `idx 1` is not,
thread 2 knows thread 1's write, both trigger objects are gone -/
example : ∃ s, Reachable 4 s ∧ s.line (.expl 0) = true ∧ s.line (.idx 1) = false ∧
    s.trips (.expl 0) = [(1, [(7, 1)])] ∧ (7, 1) ∈ s.know 2 ∧ s.trig 0 = none ∧ s.trig 1 = none :=
  ⟨_, ⟨witness, rfl⟩, by decide, by decide, by decide, by decide, by decide, by decide⟩

/-- `C19_monotone_false_before` / `C19_monotone`: a load returning `false` before the store (prefix of
length 9) and loads returning `true` after it (prefix of length 20, then the rest) are accepted -/
example : ∃ s, Reachable 4 s ∧ s.trips (.expl 0) = [] ∧ (step s 2 (.ld (.expl 0) .acq false)).isSome = true :=
  ⟨_, ⟨witness.take 9, rfl⟩, by decide, by decide⟩

example : ∃ s s1 s2, Reachable 4 s ∧ step s 2 (.ld (.expl 0) .acq true) = some s1 ∧
    runFrom step s1 [(2, .retCk 0 true), (0, .callCk 0)] = some s2 ∧
    (step s2 0 (.ld (.expl 0) .sc true)).isSome = true :=
  ⟨_, _, _, ⟨witness.take 20, rfl⟩, rfl, rfl, by decide⟩

/-- `C19_monotone_after_destroy`: the destructor of the moved-to trigger is about to return -/
example : ∃ s, Reachable 4 s ∧ s.pc 1 = .rm 1 (some (.expl 0)) true ∧ (step s 1 (.retRm 1)).isSome = true :=
  ⟨_, ⟨witness.take 18, rfl⟩, by decide, by decide⟩

/-- `C19_monotone_only_destructor` / `C19_independent`: the store step changes line `expl 0` and nothing
of line `idx 1` -/
example : ∃ s s', Reachable 4 s ∧ step s 1 (.st (.expl 0) .rel true) = some s' ∧
    s'.line (.expl 0) ≠ s.line (.expl 0) ∧ s'.line (.idx 1) = s.line (.idx 1) :=
  ⟨_, _, ⟨witness.take 17, rfl⟩, rfl, by decide, by decide⟩

/-- `C19_index`: with a table of 4 entries index 4 is out of range — the call is accepted and the only
continuation is the exception; index 3 is in range -/
example : ∃ s s1, Reachable 4 s ∧ step s 1 (.callMkT 5 (.idx 4)) = some s1 ∧
    (step s1 1 (.retMkT 5 none)).isSome = true ∧ step s1 1 (.retMkT 5 (some (.idx 4))) = none :=
  ⟨_, _, ⟨witness.take 8, rfl⟩, rfl, by decide, by decide⟩

example : ∃ s s1, Reachable 4 s ∧ step s 1 (.callMkD 5 (.idx 9)) = some s1 ∧
    (step s1 1 (.retMkD 5 none)).isSome = true :=
  ⟨_, _, ⟨witness.take 8, rfl⟩, rfl, by decide⟩

example : ∃ s s1, Reachable 4 s ∧ step s 1 (.callMkT 5 (.idx 3)) = some s1 ∧
    (step s1 1 (.retMkT 5 (some (.idx 3)))).isSome = true :=
  ⟨_, _, ⟨witness.take 8, rfl⟩, rfl, by decide⟩

/-- `C19_move`: inside the move construction; `C19_move_from_destroy`: the moved-from trigger 0 is alive
and empty, its destructor call is accepted; `C19_move_to_destroy`: trigger 1 holds the line -/
example : ∃ s, Reachable 4 s ∧ s.pc 1 = .mv 1 0 ∧ s.trig 0 = some (some (.expl 0)) :=
  ⟨_, ⟨witness.take 13, rfl⟩, by decide, by decide⟩

example : ∃ s, Reachable 4 s ∧ s.trig 0 = some none ∧ s.trig 1 = some (some (.expl 0)) ∧
    (step s 1 (.callRm 0)).isSome = true ∧ (step s 1 (.callRm 1)).isSome = true :=
  ⟨_, ⟨witness.take 14, rfl⟩, by decide, by decide, by decide, by decide⟩

/-- `C19_move_assign`: trigger 0 on line `expl 0` is overwritten by trigger 1 on line `expl 1`; line
`expl 0` stays `false` although no object holds it any more -/
def witnessAssign : List (Tid × Ev) :=
  [(1, .callMkT 0 (.line (.expl 0))), (1, .retMkT 0 (some (.expl 0))),
   (1, .callMkT 1 (.line (.expl 1))), (1, .retMkT 1 (some (.expl 1))),
   (1, .callAs 0 1), (1, .retAs 0 1 (some (.expl 1)) none),
   (1, .callRm 1), (1, .retRm 1), (1, .callRm 0), (1, .st (.expl 1) .rel true), (1, .retRm 0)]

example : ∃ s, Reachable 0 s ∧ s.pc 1 = .as 0 1 ∧ s.trig 0 = some (some (.expl 0)) :=
  ⟨_, ⟨witnessAssign.take 5, rfl⟩, by decide, by decide⟩

example : ∃ s, Reachable 0 s ∧ s.line (.expl 0) = false ∧ s.line (.expl 1) = true ∧
    s.trig 0 = none ∧ s.trig 1 = none :=
  ⟨_, ⟨witnessAssign, rfl⟩, by decide, by decide, by decide, by decide⟩

/-- `C19_publish` / `C19_publish_trace`: the hypotheses are met by `witness` (write at position 11, store
at 17, load at 20, no store on the line in between) -/
example : ∃ s0 s1 s2 s3 s4 s5, Reachable 4 s0 ∧ step s0 1 (.pwr 7 1) = some s1 ∧
    runFrom step s1 ((witness.drop 12).take 5) = some s2 ∧ step s2 1 (.st (.expl 0) .rel true) = some s3 ∧
    runFrom step s3 ((witness.drop 18).take 2) = some s4 ∧ s4.trips (.expl 0) = s3.trips (.expl 0) ∧
    step s4 2 (.ld (.expl 0) .acq true) = some s5 ∧ (step s5 2 (.retCk 0 true)).isSome = true :=
  ⟨_, _, _, _, _, _, ⟨witness.take 11, rfl⟩, rfl, rfl, rfl, rfl, by decide, rfl, by decide⟩

end ConcVerif.TripWire
