import ConcVerif.Proof.DeferredN
import ConcVerif.Proof.DeferredLive
/-! # C06 — deferred_guarded applies each modification once, exclusively, in order

Model: `Model/Deferred.lean` (`m` = the shared mutex, `flag` = `m_pendingWrites`, `qm` + `queue` =
`m_pendingList`).  `applied` lists the tasks in the order their functions were entered (`ucb k`);
`batch` is the swapped-out vector of the draining thread; `sub k` the submitting thread; `done` the
tasks whose `modify_*` call has returned; `before k` the tasks that had returned when `k` was
submitted; `out k` what the function of `k` produced (the content of its future).
All theorems quantify over every reachable state, i.e. every number of threads, every client
program and every interleaving, for both values of the parameter `spur` (try_lock may / may not fail
spuriously) except the no-stranding theorem, which needs `spur = false` and says so. -/
namespace ConcVerif.Deferred

/-! ## exactly once -/

/-- `applied` has no duplicates (no function is entered twice), every applied task was submitted,
and conservation: the applied tasks, the drainer's batch and the queue are pairwise disjoint and
duplicate-free; every submitted task is in one of them or still in the hands of its submitter, who
is then inside the `modify_*` call (and the task is in none of the three). -/
theorem C06_once {spur : Bool} {s : St} (h : Reachable spur s) :
    s.applied.Nodup ∧ (∀ k, k ∈ s.applied → s.sub k ≠ none) ∧
    (s.applied ++ s.batch ++ s.queue).Nodup ∧
    (∀ k u, s.sub k = some u → (k ∈ s.applied ∨ k ∈ s.batch ∨ k ∈ s.queue) ∨ (s.pc u).prePub = some k) ∧
    (∀ u k, (s.pc u).prePub = some k → k ∉ s.applied ∧ k ∉ s.batch ∧ k ∉ s.queue) := by
  have hC := (inv_reachable h).C
  refine ⟨?_, fun k hk => hC.seqSub k (Or.inl hk), hC.nodup, hC.cons, ?_⟩
  · exact (List.nodup_append.1 (List.nodup_append.1 hC.nodup).1).1
  · intro u k hk
    have := hC.pre u k hk
    simp only [St.inSeq, not_or] at this
    exact this

/-- Once the submitting call has returned the task is in exactly one of: applied, the batch of the
thread that is draining, the queue. -/
theorem C06_once_returned {spur : Bool} {s : St} (h : Reachable spur s) {k : TaskId} (hk : k ∈ s.done) :
    (k ∈ s.applied ∧ k ∉ s.batch ∧ k ∉ s.queue) ∨ (k ∉ s.applied ∧ k ∈ s.batch ∧ k ∉ s.queue) ∨
      (k ∉ s.applied ∧ k ∉ s.batch ∧ k ∈ s.queue) := by
  have hI := inv_reachable h
  have hnd := hI.C.nodup
  rw [List.nodup_append] at hnd
  obtain ⟨hab, _, hdq⟩ := hnd
  rw [List.nodup_append] at hab
  obtain ⟨_, _, hda⟩ := hab
  rcases returned_where hI.C hI.F hk with h1 | h1 | ⟨h1, _⟩
  · exact Or.inl ⟨h1, fun hb => hda k h1 k hb rfl, fun hq => hdq k (List.mem_append_left _ h1) k hq rfl⟩
  · exact Or.inr (Or.inl ⟨fun ha => hda k ha k h1 rfl, h1, fun hq => hdq k (List.mem_append_right _ h1) k hq rfl⟩)
  · exact Or.inr (Or.inr ⟨fun ha => hdq k (List.mem_append_left _ ha) k h1 rfl,
      fun hb => hdq k (List.mem_append_right _ hb) k h1 rfl, h1⟩)

/-- The step that enters the function of task `k` is the one that appends `k` to `applied`; `k` was
submitted and had not been applied before.  No other kind of step changes `applied`. -/
theorem C06_once_entered {spur : Bool} {s s' : St} {t : Tid} {k : TaskId} (h : Reachable spur s)
    (hs : step s t (.ucb k) = some s') : s'.applied = s.applied ++ [k] ∧ k ∉ s.applied ∧ s.sub k ≠ none := by
  have hC := (inv_reachable h).C
  have hnd := hC.nodup
  cases hp : s.pc t <;> simp [step, hp] at hs
  rename_i c
  split at hs
  · rename_i b rest hb
    split at hs
    · rename_i hkb; subst hkb; injection hs with hs; subst hs
      refine ⟨rfl, ?_, hC.seqSub k (Or.inr (Or.inl (by rw [hb]; simp)))⟩
      intro hin
      rw [hb] at hnd
      exact (List.nodup_append.1 (List.nodup_append.1 hnd).1).2.2 k hin k (by simp) rfl
    · contradiction
  · rename_i hb
    split at hs
    · rename_i k' a
      split at hs
      · rename_i hkk; subst hkk; injection hs with hs; subst hs
        have hpre : (s.pc t).prePub = some k := by simp [hp, Pc.prePub, Ctx.task]
        refine ⟨rfl, fun hin => hC.pre t k hpre (Or.inl hin), ?_⟩
        rw [hC.own t k (Pc.prePub_task hpre)]; simp
      · contradiction
    · contradiction

theorem C06_once_only_ucb {s s' : St} {t : Tid} {e : Ev} (hs : step s t e = some s') (he : ∀ k, e ≠ .ucb k) :
    s'.applied = s.applied := by
  unfold step at hs
  split at hs
  all_goals (try (split at hs))
  all_goals (try (split at hs))
  all_goals (try (split at hs))
  all_goals (try contradiction)
  all_goals first
    | (exact absurd rfl (he _))
    | (injection hs with hs; subst hs; rfl)

/-! ## exclusively -/

/-- Every apply step — and every step inside the function of a task, in particular every write of
the wrapped object — is made by the thread that holds `m` exclusively, while nobody holds `m` shared
(no shared handle is alive, no `load` is copying) and no other thread is inside a function. -/
theorem C06_exclusive {spur : Bool} {s s' : St} {t : Tid} {k : TaskId} (h : Reachable spur s)
    (hs : step s t (.ucb k) = some s') :
    s.mx = some t ∧ s.sh = [] ∧ (∀ u, (s.pc u).holdsS = false) ∧ (∀ u j, (s.pc u).running = some j → False) := by
  have hL := (inv_reachable h).L
  have hX : (s.pc t).holdsX = true := by
    cases hp : s.pc t <;> simp [step, hp] at hs
    simp [Pc.holdsX]
  have hm := (hL.mxP t).2 hX
  have hsh := hL.xs (by rw [hm]; simp)
  refine ⟨hm, hsh, ?_, ?_⟩
  · intro u
    cases hc : (s.pc u).holdsS with
    | false => rfl
    | true => have := (hL.shP u).2 hc; rw [hsh] at this; cases this
  · intro u j hj
    have hu := hL.holder_eq hX (Pc.running_holdsX hj)
    subst hu
    cases hp : s.pc u <;> simp [step, hp] at hs
    simp [hp, Pc.running] at hj

theorem C06_exclusive_inside {spur : Bool} {s : St} {t : Tid} {k : TaskId} (h : Reachable spur s)
    (hr : (s.pc t).running = some k) :
    s.mx = some t ∧ s.sh = [] ∧ (∀ u, (s.pc u).holdsS = false) ∧ (∀ u j, (s.pc u).running = some j → u = t) := by
  have hL := (inv_reachable h).L
  have hX := Pc.running_holdsX hr
  have hm := (hL.mxP t).2 hX
  have hsh := hL.xs (by rw [hm]; simp)
  refine ⟨hm, hsh, ?_, fun u j hj => hL.holder_eq hX (Pc.running_holdsX hj)⟩
  intro u
  cases hc : (s.pc u).holdsS with
  | false => rfl
  | true => have := (hL.shP u).2 hc; rw [hsh] at this; cases this

theorem C06_exclusive_write {spur : Bool} {s s' : St} {t : Tid} {v : Int} (h : Reachable spur s)
    (hs : step s t (.pwr v) = some s') : s.mx = some t ∧ s.sh = [] ∧ ∃ k, (s.pc t).running = some k := by
  have hr : ∃ k, (s.pc t).running = some k := by
    cases hp : s.pc t <;> simp [step, hp] at hs <;> simp [Pc.running]
  obtain ⟨k, hk⟩ := hr
  have := C06_exclusive_inside h hk
  exact ⟨this.1, this.2.1, k, hk⟩

/-! ## in order -/

/-- Order: if `a`'s submitting call had returned when `b` was submitted (`a ∈ before b`, i.e.
`ret a < call b` in real time — this includes every earlier task of `b`'s own submitter, see
`C06_order_same_thread`), then `b` applied ⇒ `a` applied, and `a` comes before `b` in `applied`. -/
theorem C06_order {spur : Bool} {s : St} (h : Reachable spur s) {a b : TaskId} (hb : b ∈ s.applied)
    (hab : a ∈ s.before b) : a ∈ s.applied ∧ Prec s.applied a b := by
  have := (inv_reachable h).O.p1 b hb a hab
  exact ⟨this.mem_left, this⟩

/-- `before b` is fixed at the call of `b`: it is the set of tasks whose call has returned … -/
theorem C06_order_before_at_call {s s' : St} {t : Tid} {b : TaskId} {ab : Bool}
    (hs : step s t (.callMod b ab) = some s') : s'.before b = s.done ∧ s'.sub b = some t := by
  obtain ⟨_, _, h3⟩ := step_callMod hs
  subst h3; simp [St.setPc, upd]

/-- … `done` grows exactly at the `ret` / `exc` event that ends a `modify_*` call … -/
theorem C06_order_done_at_ret {s s' : St} {t : Tid} {e : Ev} {a : TaskId} {aa thr : Bool}
    (hp : s.pc t = .mRet a aa thr) (hs : step s t e = some s') : a ∈ s'.done ∧ (e = .ret ∨ e = .exc) := by
  cases e <;> simp [step, hp] at hs
  · obtain ⟨_, hs⟩ := hs; subst hs; simp [St.setPc]
  · obtain ⟨_, hs⟩ := hs; subst hs; simp [St.setPc]

/-- … and every task the calling thread submitted earlier is in it (program order). -/
theorem C06_order_same_thread {spur : Bool} {s s' : St} {t : Tid} {a b : TaskId} {ab : Bool} (h : Reachable spur s)
    (hs : step s t (.callMod b ab) = some s') (ha : s.sub a = some t) : a ∈ s'.before b := by
  have hC := (inv_reachable h).C
  rw [(C06_order_before_at_call hs).1]
  rcases hC.retd a t ha with hd | htk
  · exact hd
  · rw [(step_callMod hs).1] at htk; simp [Pc.task] at htk

/-- Real-time order on traces: whenever the call that submitted `a` returns (the event accepted at
pc `mRet a`) before the call that submits `b` starts, then in every later state `b` applied implies
`a` applied earlier. -/
theorem C06_order_realtime {spur : Bool} {es1 es2 es3 : List (Tid × Ev)} {ta tb : Tid} {a b : TaskId}
    {aa thr ab : Bool} {e : Ev} {s1 s : St} (h1 : run spur es1 = some s1) (hp : s1.pc ta = .mRet a aa thr)
    (hrun : run spur (es1 ++ (ta, e) :: (es2 ++ (tb, .callMod b ab) :: es3)) = some s) (hb : b ∈ s.applied) :
    a ∈ s.applied ∧ Prec s.applied a b := by
  have hR : Reachable spur s := ⟨_, hrun⟩
  unfold run at h1 hrun
  obtain ⟨sa, s2, hsa, hstep1, hrest⟩ := runFrom_split hrun
  rw [h1] at hsa; injection hsa with hsa; subst hsa
  obtain ⟨s3, s4, h23, hstep2, h4⟩ := runFrom_split hrest
  have ha2 : a ∈ s2.done := (C06_order_done_at_ret hp hstep1).1
  have ha3 : a ∈ s3.done :=
    runFrom_rel (R := fun x y => a ∈ x.done → a ∈ y.done) (fun _ hx => hx) (fun _ _ _ h1 h2 hx => h2 (h1 hx))
      (fun x t e y hxy => (step_sound hxy).done_mono) h23 ha2
  obtain ⟨hbef, hsub⟩ := C06_order_before_at_call hstep2
  have hfin : s4.sub b ≠ none → (s.sub b ≠ none ∧ s.before b = s4.before b) := by
    refine runFrom_rel (step := step)
      (R := fun (x y : St) => x.sub b ≠ none → (y.sub b ≠ none ∧ y.before b = x.before b)) ?_ ?_ ?_ h4
    · intro x hx; exact ⟨hx, rfl⟩
    · intro x y z h1 h2 hx
      have h1' := h1 hx
      have h2' := h2 h1'.1
      exact ⟨h2'.1, by rw [h2'.2, h1'.2]⟩
    · intro x t e y hxy hx
      have hS := step_sound hxy
      refine ⟨?_, hS.before_frozen hx⟩
      cases hu : x.sub b with
      | none => exact absurd hu hx
      | some u => rw [hS.sub_mono hu]; simp
  have hfin := hfin (by rw [hsub]; simp)
  exact C06_order hR hb (by rw [hfin.2, hbef]; exact ha3)

/-! ## no stranding -/

/-- A queued task is never hidden: whenever no submitter sits between its push and its
`flag.store(true)` and no drainer sits between its `flag.store(false)` and its swap — in particular
whenever all `modify_*` calls have returned and no drain is in progress — a non-empty queue implies
that the flag is up. -/
theorem C06_no_stranding_flag {spur : Bool} {s : St} (h : Reachable spur s)
    (hq : ∀ u, (s.pc u).atFlag = none ∧ (s.pc u).between = false) (hne : s.queue ≠ []) : s.flag = true := by
  have hI := inv_reachable h
  cases hqu : s.queue with
  | nil => exact absurd hqu hne
  | cons k rest =>
    have hk : k ∈ s.queue := by rw [hqu]; simp
    cases hu : s.sub k with
    | none => exact absurd hu (hI.C.seqSub k (Or.inr (Or.inr hk)))
    | some u =>
      rcases hI.F.flagI k hk u hu with hf | ha | ⟨d, _, hb⟩
      · exact hf
      · rw [(hq u).1] at ha; cases ha
      · rw [(hq d).2] at hb; cases hb

/-- At quiescence (every thread at rest, with or without a handle): nothing is in a batch, every
submitted task is applied or queued, a non-empty queue has the flag up, and every applied task's
outcome is recorded (its future is ready). -/
theorem C06_no_stranding_quiescent {spur : Bool} {s : St} (h : Reachable spur s) (hq : ∀ u, ∃ hh, s.pc u = .idle hh) :
    (s.queue ≠ [] → s.flag = true) ∧ s.batch = [] ∧ (∀ k, s.sub k ≠ none → k ∈ s.applied ∨ k ∈ s.queue) ∧
      (∀ k, k ∈ s.applied → s.out k ≠ none) := by
  have hI := inv_reachable h
  have hb : s.batch = [] := by
    cases hbb : s.batch with
    | nil => rfl
    | cons x xs =>
      obtain ⟨d, _, hr⟩ := hI.C.batchX (by rw [hbb]; simp)
      obtain ⟨hh, hd⟩ := hq d
      rw [hd] at hr; simp [Pc.runs] at hr
  refine ⟨C06_no_stranding_flag h (fun u => ?_), hb, ?_, ?_⟩
  · obtain ⟨hh, hu⟩ := hq u; rw [hu]; simp [Pc.atFlag, Pc.between]
  · intro k hk
    cases hu : s.sub k with
    | none => exact absurd hu hk
    | some u =>
      rcases hI.C.cons k u hu with hin | hpre
      · rcases hin with h1 | h1 | h1
        · exact Or.inl h1
        · rw [hb] at h1; cases h1
        · exact Or.inr h1
      · obtain ⟨hh, hu'⟩ := hq u; rw [hu'] at hpre; simp [Pc.prePub] at hpre
  · intro k hk hn
    obtain ⟨d, hd⟩ := hI.U.outD k hk hn
    obtain ⟨hh, hd'⟩ := hq d; rw [hd'] at hd; simp [Pc.running] at hd

/-- **The next call drains before granting** (hypothesis: try_lock does not fail spuriously,
`spur = false`).  From a quiescent state in which nobody holds a handle, let one thread run alone
(any sequence of its own steps — one call or several).  Whenever it has been granted shared access
(it holds `m` shared: inside `lock_shared` / `try_lock_shared*` after the acquisition, with the handle,
or copying inside `load`) or has entered its own function in `modify_detach` / `modify_async`, the queue
and the batch are empty and every task that had been submitted at the quiescent point is applied;
in the shared case all their outcomes are recorded (every `modify_async` future is ready). -/
theorem C06_no_stranding_next {s s' : St} {t : Tid} {es : List (Tid × Ev)} (h : Reachable false s)
    (hq : ∀ u, s.pc u = .idle false) (hsolo : ∀ x, x ∈ es → x.1 = t) (hrun : runFrom step s es = some s')
    (hg : (s'.pc t).holdsS = true ∨ ∃ k a, s'.pc t = .aIn k a) :
    s'.queue = [] ∧ s'.batch = [] ∧ (∀ k, s.sub k ≠ none → k ∈ s'.applied) ∧
      ((s'.pc t).holdsS = true → ∀ k, s.sub k ≠ none → s'.out k ≠ none) := by
  have hq0 := C06_no_stranding_quiescent h (fun u => ⟨false, hq u⟩)
  have key : ∀ (es : List (Tid × Ev)) (s1 : St), Reachable false s1 → (∀ u, u ≠ t → s1.pc u = .idle false) →
      SoloOK (s1.pc t) s1 → (∀ k, s.sub k ≠ none → s1.sub k ≠ none) → (∀ x, x ∈ es → x.1 = t) →
      runFrom step s1 es = some s' →
      Reachable false s' ∧ (∀ u, u ≠ t → s'.pc u = .idle false) ∧ SoloOK (s'.pc t) s' ∧
        (∀ k, s.sub k ≠ none → s'.sub k ≠ none) := by
    intro es
    induction es with
    | nil => intro s1 hr ho hk hsb _ hrun; simp at hrun; subst hrun; exact ⟨hr, ho, hk, hsb⟩
    | cons x xs ih =>
      intro s1 hr ho hk hsb hso hrun
      obtain ⟨t', e⟩ := x
      have ht' : t' = t := hso (t', e) (by simp)
      subst ht'
      rw [runFrom_cons] at hrun
      cases hst : step s1 t' e with
      | none => simp [hst] at hrun
      | some s2 =>
        simp only [hst, Option.bind_some] at hrun
        have hsolo2 := solo_step (inv_reachable hr).L hr.spur_eq ho hk hst
        refine ih s2 (hr.step hst) hsolo2.1 hsolo2.2.1 ?_ (fun x hx => hso x (List.mem_cons_of_mem _ hx)) hrun
        intro k hk0
        cases hu : s1.sub k with
        | none => exact absurd hu (hsb k hk0)
        | some u => rw [(step_sound hst).sub_mono hu]; simp
  obtain ⟨hr', ho', hk', hsb'⟩ := key es s h (fun u _ => hq u) (by rw [hq t]; exact ⟨hq0.2.1, hq0.1⟩) (fun _ hk => hk) hsolo hrun
  have hI' := inv_reachable hr'
  have hqb : s'.queue = [] ∧ s'.batch = [] := by
    rcases hg with hg | ⟨k, a, hg⟩
    · exact SoloOK_of_holdsS hg hk'
    · rw [hg] at hk'; simpa [SoloOK] using hk'
  have hnp : (s'.pc t).prePub = none ∧ ((s'.pc t).holdsS = true → (s'.pc t).running = none) := by
    rcases hg with hg | ⟨k, a, hg⟩
    · cases hp : s'.pc t <;> simp [hp, Pc.holdsS] at hg <;> simp [Pc.prePub, Pc.running]
    · rw [hg]; simp [Pc.prePub, Pc.holdsS]
  have happ : ∀ k, s.sub k ≠ none → k ∈ s'.applied := by
    intro k hk
    cases hu : s'.sub k with
    | none => exact absurd hu (hsb' k hk)
    | some u =>
      rcases hI'.C.cons k u hu with hin | hpre
      · rcases hin with h1 | h1 | h1
        · exact h1
        · rw [hqb.2] at h1; cases h1
        · rw [hqb.1] at h1; cases h1
      · by_cases hut : u = t
        · subst hut; rw [hnp.1] at hpre; cases hpre
        · rw [ho' u hut] at hpre; simp [Pc.prePub] at hpre
  refine ⟨hqb.1, hqb.2, happ, ?_⟩
  intro hS k hk hn
  obtain ⟨d, hd⟩ := hI'.U.outD k (happ k hk) hn
  by_cases hdt : d = t
  · subst hdt; rw [hnp.2 hS] at hd; cases hd
  · rw [ho' d hdt] at hd; simp [Pc.running] at hd

/-- the quiescent state used by the two examples below: a reader (thread 1) parked on a shared
handle while thread 2 submitted task 7 (queued path), then released: everybody at rest, nobody holds
a handle, queue = [7], flag up -/
def strandedPrefix : List (Tid × Ev) :=
  [(1, .callSh .block), (1, .fld false), (1, .slk), (1, .got true),
   (2, .callMod 7 false), (2, .mtl false), (2, .qlk), (2, .qul), (2, .fst true), (2, .ret),
   (1, .sul)]

/-- What happens without the hypothesis: if try_lock may fail spuriously (`spur = true`), the model
accepts a run in which `lock_shared` called at that quiescent point grants the handle to thread 3 while
task 7 is still queued and not applied — the reader sees the object without an accepted modification.
With `spur = false` the same event sequence is rejected (a failing `mtl` on a free mutex). -/
theorem C06_no_stranding_needs_no_spurious_failure :
    (∃ s, run true (strandedPrefix ++ [(3, .callSh .block), (3, .fld true), (3, .mtl false), (3, .slk), (3, .got true)])
        = some s ∧ s.pc 3 = .idle true ∧ s.queue = [7] ∧ s.applied = [] ∧ s.done = [7]) ∧
    run false (strandedPrefix ++ [(3, .callSh .block), (3, .fld true), (3, .mtl false)]) = none :=
  ⟨⟨_, rfl, rfl, rfl, rfl, rfl⟩, rfl⟩

/-- non-vacuity of `C06_no_stranding_next`: from the same quiescent point, without spurious failures,
`lock_shared` by thread 3 drains task 7 and only then acquires -/
example : ∃ s s', Reachable false s ∧ (s.queue = [7] ∧ s.flag = true ∧ s.pc 1 = .idle false ∧ s.pc 2 = .idle false) ∧
    runFrom step s [(3, .callSh .block), (3, .fld true), (3, .mtl true), (3, .fld true), (3, .fst false), (3, .qlk), (3, .qul),
      (3, .ucb 7), (3, .prd 0), (3, .pwr 7), (3, .uce 7 7), (3, .mul), (3, .slk), (3, .got true)] = some s' ∧
    s'.pc 3 = .idle true ∧ s'.applied = [7] ∧ s'.queue = [] ∧ s'.out 7 = some (.val 7) :=
  ⟨_, _, ⟨strandedPrefix, rfl⟩, ⟨rfl, rfl, rfl, rfl⟩, rfl, rfl, rfl, rfl, rfl⟩

/-- **… under any concurrency** (same hypothesis `spur = false`).  From a quiescent state in which
nobody holds a handle let ANY threads make ANY calls in ANY interleaving (several "next" callers at
once, new submitters, readers).  Whenever some thread holds `m` shared (granted by `lock_shared` /
`try_lock_shared*`, or copying in `load`) or is inside its own function on the direct path of
`modify_*`, every task that had been submitted at the quiescent point is applied: nobody is granted
access before the tasks accepted earlier have been applied. -/
theorem C06_no_stranding_next_concurrent {s s' : St} {es : List (Tid × Ev)} (h : Reachable false s)
    (hq : ∀ u, s.pc u = .idle false) (hrun : runFrom step s es = some s') {u : Tid}
    (hg : (s'.pc u).holdsS = true ∨ ∃ k a, s'.pc u = .aIn k a) : ∀ k, s.sub k ≠ none → k ∈ s'.applied := by
  have hq0 := C06_no_stranding_quiescent h (fun u => ⟨false, hq u⟩)
  have hL := (inv_reachable h).L
  have hfree := solo_free hL (t := u) (fun v _ => hq v)
  have hD0 : Draining s.queue s := by
    by_cases hne : s.queue = []
    · left; intro k hk; rw [hne] at hk; cases hk
    · right
      refine ⟨hfree.2 (by simp [hq u, Pc.holdsS]), ?_, Or.inl ⟨hfree.1 (by simp [hq u, Pc.holdsX]), hq0.1 hne, fun _ hk => hk⟩⟩
      intro v hv; rw [hq v] at hv; simp [Pc.atAcq] at hv
  obtain ⟨hr', hD'⟩ := draining_run h hD0 hrun
  have hO := hD'.granted (inv_reachable hr').L hg
  have hmono : ∀ k, k ∈ s.applied → k ∈ s'.applied :=
    runFrom_rel (step := step) (R := fun (x y : St) => ∀ k, k ∈ x.applied → k ∈ y.applied) (fun _ _ hk => hk)
      (fun _ _ _ h1 h2 k hk => h2 k (h1 k hk))
      (fun x t e y hxy k hk => by
        obtain ⟨l, hl⟩ := (step_sound hxy).applied_mono
        rw [hl]; exact List.mem_append_left _ hk) hrun
  intro k hk
  rcases hq0.2.2.1 k hk with h1 | h1
  · exact hmono k h1
  · exact hO k h1

/-- Why the previous theorem starts from a quiescent state (no call in flight): the drain is best effort.  Accepted run
(no spurious failure involved): reader 1 holds a handle; `lock_shared` of thread 2 is in flight and
has already seen `flag = false`; task 7 is queued and its submitter returns; reader 1 releases — now
all submitters have returned and no handle is held.  Thread 4 calls `lock_shared`; thread 2 acquires
(without draining), so the try-lock of thread 4 fails and it is granted the handle too, with task 7
still queued.  Task 7 is not lost (the flag stays up: the next successful drain applies it). -/
theorem C06_no_stranding_inflight_caveat :
    ∃ s, run false [(1, .callSh .block), (1, .fld false), (1, .slk), (1, .got true),
        (2, .callSh .block), (2, .fld false),
        (3, .callMod 7 false), (3, .mtl false), (3, .qlk), (3, .qul), (3, .fst true), (3, .ret),
        (1, .sul),
        (4, .callSh .block), (4, .fld true),
        (2, .slk), (2, .got true),
        (4, .mtl false), (4, .slk), (4, .got true)] = some s ∧
      s.pc 4 = .idle true ∧ s.queue = [7] ∧ s.applied = [] ∧ s.done = [7] ∧ s.flag = true :=
  ⟨_, rfl, rfl, rfl, rfl, rfl, rfl⟩

/-! ## futures -/

/-- The outcome of a task (the shared state of its future) is written at most once: once recorded it
never changes. -/
theorem C06_future_once {spur : Bool} {s s' : St} {t : Tid} {e : Ev} {k : TaskId} {o : Outcome} (h : Reachable spur s)
    (hs : step s t e = some s') (hk : s.out k = some o) : s'.out k = some o :=
  (step_sound hs).out_stable (inv_reachable h).U hk

/-- It is written by the step that ends the function of that very task — with the value the function
returned (`uce k r`) or the fact that it threw (`uth k`) — executed by the thread that is inside the
function (which holds `m` exclusively, `C06_exclusive_inside`). -/
theorem C06_future_at_apply {s s' : St} {t : Tid} {e : Ev} {k : TaskId} {o : Outcome}
    (hs : step s t e = some s') (hk : s.out k = none) (hk' : s'.out k = some o) :
    (s.pc t).running = some k ∧ ((∃ r, e = .uce k r ∧ o = .val r) ∨ (e = .uth k ∧ o = .exc)) := by
  have hrun := ((step_sound hs).out_set hk (by rw [hk']; simp)).1
  refine ⟨hrun, ?_⟩
  cases hp : s.pc t <;> simp [hp, Pc.running] at hrun
  all_goals (subst hrun; cases e <;> simp [step, hp] at hs)
  all_goals first
    | (subst hs; rw [hk] at hk'; cases hk')
    | (obtain ⟨_, hs⟩ := hs; subst hs; rw [hk] at hk'; cases hk')
    | (obtain ⟨h1, hs⟩ := hs; subst h1; subst hs; simp [St.setPc, upd] at hk'; simp [hk'])
    | (obtain ⟨h1, hs⟩ := hs; subst h1; subst hs; simp [St.setPc, upd] at hk'; simp [← hk'])

/-- an outcome exists only for applied tasks … -/
theorem C06_future_applied {spur : Bool} {s : St} (h : Reachable spur s) {k : TaskId} (hk : s.out k ≠ none) :
    k ∈ s.applied := (inv_reachable h).U.outA k hk

/-- … and every applied task whose function has ended has one: the future is ready. -/
theorem C06_future_fulfilled {spur : Bool} {s : St} (h : Reachable spur s) {k : TaskId} (hk : k ∈ s.applied)
    (hn : ∀ u, (s.pc u).running ≠ some k) : s.out k ≠ none := by
  intro ho
  obtain ⟨d, hd⟩ := (inv_reachable h).U.outD k hk ho
  exact hn d hd

/-- What the client observes through the real `std::future` is what the model recorded: a poll
reports "ready" iff the outcome exists, `get()` yields exactly it (value or exception). -/
theorem C06_future_observed {s s' : St} {t : Tid} {k : TaskId} :
    (∀ r, step s t (.fpoll k r) = some s' → r = (s.out k).isSome) ∧
    (∀ o, step s t (.fget k o) = some s' → s.out k = some o) := by
  constructor
  · intro r hs
    cases hp : s.pc t <;> simp [step, hp] at hs
    exact hs.1
  · intro o hs
    cases hp : s.pc t <;> simp [step, hp] at hs
    exact hs.1

/-! ## non-vacuity: direct path, queued path (reader parked), drain by a later `modify_async`, futures -/
example : ∃ s, Reachable false s ∧ s.applied = [1, 2, 3] ∧ s.queue = [] ∧ s.val = 6 ∧
    s.before 3 = [2, 1] ∧ s.out 2 = some .exc ∧ s.out 3 = some (.val 6) ∧ s.done = [3, 2, 1] :=
  ⟨_, ⟨[(1, .callMod 1 false), (1, .mtl true), (1, .fld false), (1, .ucb 1), (1, .prd 0), (1, .pwr 1), (1, .uce 1 1),
        (1, .mul), (1, .ret),
        (2, .callSh .try_), (2, .fld false), (2, .stl true), (2, .got true), (2, .prd 1),
        (1, .callMod 2 true), (1, .mtl false), (1, .qlk), (1, .qul), (1, .fst true), (1, .ret), (1, .fpoll 2 false),
        (2, .sul),
        (3, .callMod 3 true), (3, .mtl true), (3, .fld true), (3, .fst false), (3, .qlk), (3, .qul),
        (3, .ucb 2), (3, .uth 2), (3, .ucb 3), (3, .prd 1), (3, .pwr 6), (3, .uce 3 6), (3, .mul), (3, .ret),
        (3, .fpoll 3 true), (3, .fget 3 (.val 6)), (1, .fpoll 2 true), (1, .fget 2 .exc)], rfl⟩,
   rfl, rfl, rfl, rfl, rfl, rfl, rfl⟩

/-! ## Liveness: every call returns, the drain loop terminates — for every scheduler

Environment events (`isEnv`, Proof/DeferredLive.lean): the calls (`callMod`, `callSh`, `callLoad`), the accesses
to the wrapped object (`prd`, `pwr`: bodies of task functions, `load()`'s copy, reads through a held handle — the
model does not bound their number) and the client's future operations (`fpoll`, `fget`).  Everything else is a
library step — try-lock outcomes, flag loads and stores, queue bracket, the start `ucb` and the end `uce`/`uth`
of every task function in a drain, releases, returns; the release `sul` of a held shared handle counts as one
pending step of its holder.
* `C06_terminates` (no livelock): an execution that makes no environment event from some point on cannot be infinite
  — every library step lowers `2·(|batch| + |queue|) + Σ_t rank (pc t)`; in particular a drain loop runs exactly
  the batch it swapped out and ends, whatever is submitted meanwhile (`C06_drain_bounded`).
* `C06_progress` / `C06_stuck_all_returned` (no deadlock): while some thread is inside a call, some thread inside a
  call has an enabled library step; a state without one has every thread at rest (possibly holding a shared
  handle it has not released yet).
Not covered: starvation of one caller under an unfair mutex when others call infinitely often; and (a safety
caveat, see `C06_no_stranding_inflight_caveat`) tasks left in the queue of such a final state wait for the next call. -/

theorem C06_terminates (x : Live.Exec step) (N : Nat) (ts : List Tid) (hnd : ts.Nodup)
    (hts : ∀ n, N ≤ n → x.who n ∈ ts) (hnc : ∀ n, N ≤ n → isEnv (x.ev n) = false) : False :=
  Live.no_infinite_runG rankedG ts hnd x N trivial hts hnc

/-- every library step lowers the potential seen from the stepping thread and does not touch the other threads -/
theorem C06_step_lowers_potential {s s' : St} {t : Tid} {e : Ev} (hs : step s t e = some s') (he : isEnv e = false) :
    G s' + μ s' t < G s + μ s t ∧ ∀ u, u ≠ t → s'.pc u = s.pc u :=
  ⟨step_dec hs he, fun _ hu => step_pc_other hs hu⟩

/-- the drain loop is bounded by the batch it swapped out: each iteration (`ucb` of the head) removes one task from
the batch, no step of anybody adds to the batch while it is not empty (a swap needs an empty batch), so a drainer
makes at most `2·|batch|` further `ucb`/`uce`/`uth` steps before it leaves the loop -/
theorem C06_drain_bounded {s s' : St} {t : Tid} {e : Ev} (hs : step s t e = some s') :
    s'.batch.length ≤ s.batch.length ∨ s.batch = [] := by
  cases hp : s.pc t <;> cases e <;> simp [step, hp] at hs
  all_goals (try (repeat' (split at hs)))
  all_goals (first | contradiction | skip)
  all_goals (try (obtain ⟨h1, hs⟩ := hs))
  all_goals (try (repeat' (split at hs)))
  all_goals (first | contradiction | skip)
  all_goals (try (injection hs with hs))
  all_goals (try subst hs)
  all_goals (first | (left; simp [St.setPc]; done) | (right; simp_all; done) | (left; simp_all [St.setPc]; done))

/-- deadlock-freedom: if some thread is inside a call, some thread inside a call has an enabled library step -/
theorem C06_progress {spur : Bool} {s : St} (h : Reachable spur s) {t : Tid} (ht : Inside s t) :
    ∃ u, LibEnabled s u := progress (inv_reachable h) ht

/-- a reachable state without enabled library step: every thread is at rest (outside every call) -/
theorem C06_stuck_all_returned {spur : Bool} {s : St} (h : Reachable spur s) (hstuck : ∀ u, ¬ LibEnabled s u)
    (t : Tid) : ∃ hd, s.pc t = .idle hd := by
  apply Classical.byContradiction
  intro hn
  have ht : Inside s t := fun hd hp => hn ⟨hd, hp⟩
  obtain ⟨u, hu⟩ := C06_progress h ht
  exact hstuck u hu

/-- … and then no mutex is held exclusively, the queue mutex is free and no drain is in progress -/
theorem C06_stuck_quiescent {spur : Bool} {s : St} (h : Reachable spur s) (hstuck : ∀ u, ¬ LibEnabled s u) :
    s.mx = none ∧ s.qm = none ∧ s.batch = [] := by
  have hi := inv_reachable h
  have hidle := C06_stuck_all_returned h hstuck
  have hm : s.mx = none := by
    cases hm : s.mx with
    | none => rfl
    | some u =>
      obtain ⟨hd, hp⟩ := hidle u
      have := (hi.L.mxP u).mp hm
      rw [hp] at this; simp [Pc.holdsX] at this
  have hq : s.qm = none := by
    cases hq : s.qm with
    | none => rfl
    | some u =>
      obtain ⟨hd, hp⟩ := hidle u
      have := (hi.L.qmP u).mp hq
      rw [hp] at this; simp [Pc.holdsQ] at this
  exact ⟨hm, hq, hi.C.no_batch_unless (t := 0) (Or.inl hm)⟩

/-- non-vacuity: thread 3 is draining a batch of one queued task while thread 1 is about to queue another one;
potential 2·(1+0) + 5 + 10 -/
example : ∃ s, Reachable false s ∧ s.batch = [2] ∧ s.pc 3 = .dRun (.mod 3 true) ∧ s.pc 1 = .mTry 4 false ∧
    G s = 2 ∧ μ s 3 = 5 ∧ μ s 1 = 10 ∧ LibEnabled s 3 :=
  ⟨_, ⟨[(2, .callSh .try_), (2, .fld false), (2, .stl true), (2, .got true),
        (1, .callMod 2 true), (1, .mtl false), (1, .qlk), (1, .qul), (1, .fst true), (1, .ret),
        (2, .sul),
        (3, .callMod 3 true), (3, .mtl true), (3, .fld true), (3, .fst false), (3, .qlk), (3, .qul),
        (1, .callMod 4 false)], rfl⟩,
   rfl, rfl, rfl, rfl, rfl, rfl, ⟨by intro hd; cases hd <;> decide, .ucb 2, rfl, by decide⟩⟩

end ConcVerif.Deferred
