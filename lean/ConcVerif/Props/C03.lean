import ConcVerif.Proof.LRStep
/-! # C03 — lr_guarded readers see only complete, current states

Theorems over the executable model `Model/LR.lean` (`step` is the function the trace driver runs on the traces of
the real `lr_guarded.hpp`).  All statements quantify over every `Reachable` state / every accepted trace: any
number of threads, calls and interleavings, throwing functors included.

Reading guide: `(s.pc r).held = some x` — thread `r` has a handle that points to copy `x` (from the load of
`m_readingLeft` that produced the handle until the deleter's decrement); `s.val x` — content of copy `x` (list of
operation ids applied); `s.committed` — the operations whose flip of `m_readingLeft` has happened, in that order
(linearisation order of `modify`); `(s.pc w).writing = some x` — the mutex holder is inside the functor or the
roll-back / roll-forward copy on `x`, or has left `x` torn by a functor that threw. -/
namespace ConcVerif.LR

/-! ## no writer touches a copy while a handle points to it -/

/-- While the mutex holder `w` is writing copy `x` (user functor, roll-back / roll-forward copy, or a torn state
left by a throwing functor not yet repaired), no thread holds a handle to `x`. -/
theorem C03_no_touch {s : St} (h : Reachable s) {w r : Tid} {x : Side} (hw : (s.pc w).writing = some x) :
    (s.pc r).held ≠ some x := by
  have hi := (full_reachable h).inv
  intro hr
  cases hp : s.pc w <;> rw [hp] at hw <;> simp only [Pc.writing] at hw <;> (try cases hw)
  all_goals
    have ph := hi.phase w (by simp [hp, Pc.post]); rw [hp] at ph
    have := ph.2 r _ hr
    simp at this

/-- Step form: no step of any thread changes the content of a copy some handle points to. -/
theorem C03_held_value_constant {s s' : St} (h : Reachable s) {t r : Tid} {e : Ev} {x : Side}
    (hs : step s t e = some s') (hr : (s.pc r).held = some x) : s'.val x = s.val x := by
  rcases step_val x hs with hv | hw
  · exact hv
  · exact absurd hr (C03_no_touch h hw)

/-- Trace form: from the moment `lock_shared` has returned until the owner starts destroying the handle, the handle
keeps pointing to the same copy and that copy's content does not change, whatever all threads do in between
(writers may complete any number of `modify` calls on the other copy and block on this reader). -/
theorem C03_handle_stable {s s' : St} {es : List (Tid × Ev)} {r : Tid} {c x : Side} (h : Reachable s)
    (hr : s.pc r = .rdHold c x) (hrun : run s es = some s') (hno : (r, Ev.call .rel) ∉ es) :
    s'.pc r = .rdHold c x ∧ s'.val x = s.val x := by
  induction es generalizing s with
  | nil => simp [run] at hrun; subst hrun; exact ⟨hr, rfl⟩
  | cons a es ih =>
    obtain ⟨t, e⟩ := a
    simp only [run, runFrom_cons] at hrun
    cases hst : step s t e with
    | none => simp [hst] at hrun
    | some s1 =>
      simp [hst] at hrun
      have hv : s1.val x = s.val x := C03_held_value_constant (r := r) h hst (by simp [hr, Pc.held])
      have hr1 : s1.pc r = .rdHold c x := by
        by_cases htr : r = t
        · subst htr
          rcases step_hold hr hst with ⟨v, _, _, hp, _⟩ | ⟨he, _⟩
          · exact hp
          · subst he; simp at hno
        · rw [step_pc_other hst htr]; exact hr
      have := ih (reachable_step h hst) hr1 hrun (by intro hm; exact hno (List.mem_cons_of_mem _ hm))
      exact ⟨this.1, by rw [this.2, hv]⟩

/-! ## every modify takes effect atomically -/

/-- What a complete read through a handle returns is the content of the copy the handle points to. -/
theorem C03_read_observes {s s' : St} {r : Tid} {x : Side} {v : List OpId} (hs : step s r (.rd x v) = some s') :
    (s.pc r).held = some x ∧ v = s.val x := by
  cases hp : s.pc r <;> simp [step, hp, Pc.post, stutter] at hs
  obtain ⟨⟨rfl, rfl⟩, _⟩ := hs
  simp [Pc.held]

/-- The content of a copy a handle points to is `committed` — all modifications linearised so far, completely
applied — or, only while the mutex holder `w` is between its flip and the end of its wait loops, `committed`
without its last element, which is `w`'s operation in progress.  Never a partial state, never anything else. -/
theorem C03_atomic {s : St} (h : Reachable s) {r : Tid} {x : Side} (hr : (s.pc r).held = some x) :
    s.val x = s.committed ∨
    ∃ w op l, s.mtx = some w ∧ (s.pc w).vk = .mid op l ∧ x = l ∧ s.val x ++ [op] = s.committed :=
  held_val (full_reachable h).inv (full_reachable h).vinv hr

/-- Event form of `C03_atomic`: every value a reader observes. -/
theorem C03_atomic_read {s s' : St} (h : Reachable s) {r : Tid} {x : Side} {v : List OpId}
    (hs : step s r (.rd x v) = some s') :
    v = s.committed ∨ ∃ w op l, s.mtx = some w ∧ (s.pc w).vk = .mid op l ∧ v ++ [op] = s.committed := by
  obtain ⟨hh, rfl⟩ := C03_read_observes hs
  rcases C03_atomic h hh with h1 | ⟨w, op, l, a, b, _, d⟩
  · exact Or.inl h1
  · exact Or.inr ⟨w, op, l, a, b, d⟩

/-! ## a lock_shared that starts after modify returned observes it and all earlier ones -/

/-- Invariant form: the copy a handle points to extends everything that was committed when its `lock_shared`
was called (`snap r` = `committed` at the call event). -/
theorem C03_realtime_inv {s : St} (h : Reachable s) {r : Tid} {x : Side} (hr : (s.pc r).held = some x) :
    s.snap r <+: s.val x :=
  ((full_reachable h).rinv.hold r x hr).1

/-- Trace form.  `modify(op)` of thread `w` returns (event `ret modify op`, leading from `s0` to `s1`); thread `r`
is idle at that point, so whatever `lock_shared` it makes is called later.  In every later state in which `r` has
a handle, the copy it points to contains `op` and has everything committed before that return as a prefix. -/
theorem C03_realtime {s0 s1 s2 : St} {es : List (Tid × Ev)} {w r : Tid} {op : OpId} {x : Side} (h0 : Reachable s0)
    (hret : step s0 w (.ret (.modify op)) = some s1) (hidle : s1.pc r = .idle)
    (hrun : run s1 es = some s2) (hh : (s2.pc r).held = some x) :
    op ∈ s2.val x ∧ s0.committed <+: s2.val x := by
  have hw : s0.pc w = .wRet op := by
    cases hp : s0.pc w <;> simp [step, hp, Pc.post, stutter] at hret
    obtain ⟨rfl, _⟩ := hret; rfl
  have hop : op ∈ s0.committed := ret_committed h0 w op (Or.inl hw)
  have h01 : s0.committed <+: s1.committed := step_committed_le hret
  have h1 : Reachable s1 := reachable_step h0 hret
  -- invariant along the run from s1
  have key := runFrom_inv
    (Inv := fun s => Reachable s ∧ s0.committed <+: s.committed ∧ ((s.pc r).inRead = true → s0.committed <+: s.snap r))
    (step := step) (s := s1) (s' := s2) (es := es)
    (by
      intro s t e s' ⟨hre, hc, hsn⟩ hst
      refine ⟨reachable_step hre hst, hc.trans (step_committed_le hst), ?_⟩
      intro hin
      rcases step_snap hst r with ⟨e1, e2⟩ | ⟨_, _, e3⟩
      · rw [e1]; exact hsn (e2 hin)
      · rw [e3]; exact hc)
    ⟨h1, h01, by simp [hidle, Pc.inRead]⟩ hrun
  obtain ⟨h2, _, hsn⟩ := key
  have hpre : s0.committed <+: s2.val x := (hsn (held_inRead hh)).trans (C03_realtime_inv h2 hh)
  exact ⟨hpre.subset hop, hpre⟩

/-! ## the values one reader observes never go backwards -/

/-- The copy a handle of thread `r` points to extends the value `r` last read (through this or an earlier handle). -/
theorem C03_monotone {s : St} (h : Reachable s) {r : Tid} {x : Side} (hr : (s.pc r).held = some x) :
    s.lastSeen r <+: s.val x :=
  ((full_reachable h).rinv.hold r x hr).2

/-- Event form: each value a thread reads extends the one it read before. -/
theorem C03_monotone_read {s s' : St} (h : Reachable s) {r : Tid} {x : Side} {v : List OpId}
    (hs : step s r (.rd x v) = some s') : s.lastSeen r <+: v ∧ s'.lastSeen r = v := by
  obtain ⟨hh, rfl⟩ := C03_read_observes hs
  refine ⟨C03_monotone h hh, ?_⟩
  have hs' := hs
  cases hp : s.pc r <;> simp [step, hp, Pc.post, stutter] at hs'
  rcases step_hold hp hs with ⟨v, he, _, _, hl, _⟩ | ⟨he, _⟩
  · injection he with _ he; subst he; exact hl
  · cases he

/-- Across threads, in real-time order: the copy a new handle points to (chosen by the load of `m_readingLeft`
inside `lock_shared`) extends every value any thread has read so far, and all of `committed`. -/
theorem C03_monotone_global {s s' : St} (h : Reachable s) {r : Tid} {c v : Side} (hp : s.pc r = .rdInc c)
    (hs : step s r (.ldRL v) = some s') :
    s'.val v = s'.committed ∧ (s'.pc r).held = some v ∧ ∀ u, s'.lastSeen u <+: s'.val v := by
  have hf' := full_reachable (reachable_step h hs)
  simp [step, hp] at hs
  obtain ⟨rfl, rfl⟩ := hs
  have hv : (s.setPc r (.rdGot c s.rl)).val s.rl = (s.setPc r (.rdGot c s.rl)).committed := val_rl hf'.inv hf'.vinv
  refine ⟨hv, by simp [Pc.held], ?_⟩
  intro u; rw [hv]; exact hf'.rinv.seenLe u

/-! ## modifications of different threads are applied one at a time to the same sequence of states -/

/-- At most one thread is between `mlk` and `mul` of the write mutex. -/
theorem C03_serial_one_writer {s : St} (h : Reachable s) {w w' : Tid} (hw : (s.pc w).post = true)
    (hw' : (s.pc w').post = true) : w = w' := by
  have hi := (full_reachable h).inv
  have a := (hi.holder w).1 hw
  have b := (hi.holder w').1 hw'
  rw [a] at b; injection b

/-- `committed` is append-only, and only the mutex holder appends — exactly its own operation, exactly at its flip. -/
theorem C03_serial_order {s s' : St} (h : Reachable s) {t : Tid} {e : Ev} (hs : step s t e = some s') :
    s'.committed = s.committed ∨
    ∃ op l, s.mtx = some t ∧ s.pc t = .wF1d op l ∧ s'.committed = s.committed ++ [op] := by
  rcases step_committed hs with h1 | ⟨op, l, hp, _, _, hc⟩
  · exact Or.inl h1
  · exact Or.inr ⟨op, l, ((full_reachable h).inv.holder t).1 (by simp [hp, Pc.post]), hp, hc⟩

/-- Both copies go through the same sequence of states: relative to `base` (= `committed` when the holder `w` took
the mutex) each copy is `base` or `base ++ [op]` as tabulated by `VX` for `w`'s position — in particular the
second application appends the same `op` to the other copy, and after a throw the intact copy is the source. -/
theorem C03_serial_copies {s : St} (h : Reachable s) {w : Tid} (hm : s.mtx = some w) :
    VX s.committed s.base s.val (s.pc w).vk :=
  (full_reachable h).vinv.vk w (((full_reachable h).inv.holder w).2 hm)

/-- Whenever nobody holds the write mutex the two copies are equal and equal to `committed`. -/
theorem C03_serial_quiescent {s : St} (h : Reachable s) (hm : s.mtx = none) :
    s.valL = s.committed ∧ s.valR = s.committed :=
  ⟨(full_reachable h).vinv.vquiet hm .L, (full_reachable h).vinv.vquiet hm .R⟩

/-- The end-of-run inspection of the two copies (`fin` event of the harness) is accepted only with both equal to
`committed`. -/
theorem C03_serial_final {s s' : St} (h : Reachable s) {t : Tid} {l r : List OpId} (hs : step s t (.fin l r) = some s') :
    l = s.committed ∧ r = s.committed := by
  cases hp : s.pc t <;> simp [step, hp, Pc.post, stutter] at hs
  obtain ⟨⟨hm, rfl, rfl⟩, _⟩ := hs
  exact C03_serial_quiescent h hm

/-! ## non-vacuity: concrete reachable states meeting the hypotheses -/

/-- writer 0 inside its second application on the left copy while reader 1 holds the right copy (`C03_no_touch`) -/
example : ∃ s, Reachable s ∧ (s.pc 0).writing = some .L ∧ (s.pc 1).held = some .R :=
  ⟨_, ⟨false, [(0, .call (.modify 7)), (0, .lock), (0, .ldRL .L), (0, .fBegin .R), (0, .fEnd .R [7]), (0, .stRL .R), (0, .ldCL .L),
         (0, .ldCnt .R 0), (0, .stCL .R), (1, .call (.ls 0)), (1, .ldCL .R), (1, .inc .R 0), (1, .ldRL .R), (1, .ret (.ls 0)),
         (0, .ldCnt .L 0), (0, .fBegin .L)], rfl⟩, rfl, rfl⟩

/-- reader 1 holds the old copy while writer 0 has flipped and waits for it: the second disjunct of `C03_atomic`
(value = `committed` without the operation in progress); the reader reads `[]` while `committed = [7]` -/
example : ∃ s s', Reachable s ∧ (s.pc 1).held = some .L ∧ s.val .L ++ [7] = s.committed ∧ s.mtx = some 0 ∧
    step s 1 (.rd .L []) = some s' :=
  ⟨_, _, ⟨false, [(1, .call (.ls 0)), (1, .ldCL .L), (1, .inc .L 0), (1, .ldRL .L), (1, .ret (.ls 0)),
         (0, .call (.modify 7)), (0, .lock), (0, .ldRL .L), (0, .fBegin .R), (0, .fEnd .R [7]), (0, .stRL .R), (0, .ldCL .L),
         (0, .ldCnt .R 0), (0, .stCL .R), (0, .ldCnt .L 1), (0, .yld)], rfl⟩, rfl, rfl, rfl, rfl⟩

/-- `C03_realtime`: modify(7) returns, then thread 1 takes a handle: it points to a copy containing 7 -/
example : ∃ s0 s1 s2, Reachable s0 ∧ step s0 0 (.ret (.modify 7)) = some s1 ∧ s1.pc 1 = .idle ∧
    run s1 [(1, .call (.ls 0)), (1, .ldCL .R), (1, .inc .R 0), (1, .ldRL .R)] = some s2 ∧ (s2.pc 1).held = some .R ∧
    s2.val .R = [7] :=
  ⟨_, _, _, ⟨false, [(0, .call (.modify 7)), (0, .lock), (0, .ldRL .L), (0, .fBegin .R), (0, .fEnd .R [7]), (0, .stRL .R), (0, .ldCL .L),
         (0, .ldCnt .R 0), (0, .stCL .R), (0, .ldCnt .L 0), (0, .fBegin .L), (0, .fEnd .L [7]), (0, .unlock)], rfl⟩,
    rfl, rfl, rfl, rfl, rfl⟩

/-- `C03_monotone_read`: one thread reads `[]`, a modify completes, it takes a new handle and reads `[7]` -/
example : ∃ s s', Reachable s ∧ s.lastSeen 1 = [] ∧ step s 1 (.rd .R [7]) = some s' ∧ s'.lastSeen 1 = [7] :=
  ⟨_, _, ⟨false, [(1, .call (.ls 0)), (1, .ldCL .L), (1, .inc .L 0), (1, .ldRL .L), (1, .ret (.ls 0)), (1, .rd .L []),
         (1, .call .rel), (1, .dec .L 1), (1, .ret .rel),
         (0, .call (.modify 7)), (0, .lock), (0, .ldRL .L), (0, .fBegin .R), (0, .fEnd .R [7]), (0, .stRL .R), (0, .ldCL .L),
         (0, .ldCnt .R 0), (0, .stCL .R), (0, .ldCnt .L 0), (0, .fBegin .L), (0, .fEnd .L [7]), (0, .unlock), (0, .ret (.modify 7)),
         (1, .call (.ls 0)), (1, .ldCL .R), (1, .inc .R 0), (1, .ldRL .R), (1, .ret (.ls 0))], rfl⟩, rfl, rfl, rfl⟩

/-- `C03_serial_*`: two writers, the second one blocked until the first unlocks; afterwards both copies = `[7, 8]` -/
example : ∃ s, Reachable s ∧ s.mtx = none ∧ s.valL = [7, 8] ∧ s.valR = [7, 8] ∧ s.committed = [7, 8] ∧
    step s 0 (.fin [7, 8] [7, 8]) = some s :=
  ⟨_, ⟨false, [(0, .call (.modify 7)), (2, .call (.modify 8)), (0, .lock), (0, .ldRL .L), (0, .fBegin .R), (0, .fEnd .R [7]),
         (0, .stRL .R), (0, .ldCL .L), (0, .ldCnt .R 0), (0, .stCL .R), (0, .ldCnt .L 0), (0, .fBegin .L), (0, .fEnd .L [7]),
         (0, .unlock), (2, .lock), (0, .ret (.modify 7)), (2, .ldRL .R), (2, .fBegin .L), (2, .fEnd .L [7, 8]), (2, .stRL .L),
         (2, .ldCL .R), (2, .ldCnt .L 0), (2, .stCL .L), (2, .ldCnt .R 0), (2, .fBegin .R), (2, .fEnd .R [7, 8]), (2, .unlock),
         (2, .ret (.modify 8))], rfl⟩, rfl, rfl, rfl, rfl, rfl⟩

/-- the model rejects what the theorems exclude: a second `lock` while the mutex is held, a functor on the side
readers are directed to, a read of the other copy, a torn / wrong value -/
example : ∃ s, Reachable s ∧ step s 2 .lock = none ∧ step s 0 (.fBegin .L) = none ∧ step s 1 (.rd .R []) = none ∧
    step s 1 (.rd .L [9]) = none :=
  ⟨_, ⟨false, [(0, .call (.modify 7)), (2, .call (.modify 8)), (0, .lock), (0, .ldRL .L),
         (1, .call (.ls 0)), (1, .ldCL .L), (1, .inc .L 0), (1, .ldRL .L), (1, .ret (.ls 0))], rfl⟩, rfl, rfl, rfl, rfl⟩

end ConcVerif.LR
