import ConcVerif.Props.C01
/-! # C02 — readers and writers never overlap; readers can share

Same model (`Model/LockFam.lean`).  `cap = true` models `shared_mutex` / `shared_timed_mutex`,
`cap = false` models `mutex` / `timed_mutex` (the `shared_locker` fallback).  The deferred_guarded
half of C02 is in `Props/C02_deferred.lean`. -/
namespace ConcVerif.LockFam

/-- A thread holding a shared handle (or inside `read`) never coexists with an exclusive holder. -/
theorem C02_rw_excl {en cap : Bool} {s : St} (h : Reachable en cap s) {t u : Tid} (hs : s.held t = .S) :
    s.held u ≠ .X := by
  intro hx
  by_cases hut : t = u
  · subst hut; rw [hs] at hx; cases hx
  · have := C01_excl h hx hut; rw [hs] at this; cases this

/-- … no modification is accepted while any thread holds the mutex in shared mode … -/
theorem C02_no_write_under_reader {en cap : Bool} {s : St} (h : Reachable en cap s) (he : s.enabled = true)
    {t u : Tid} (hs : s.held t = .S) (v : Int) : step s u (.wr v) = none := by
  cases hr : step s u (.wr v) with
  | none => rfl
  | some s' => exact absurd (C01_write_exclusive h he hr) (C02_rw_excl h hs)

/-- … and no exclusive acquisition (handle or modifying operation) can start while a shared handle is
alive: the mutex refuses it. -/
theorem C02_no_writer_starts {en cap : Bool} {s : St} (h : Reachable en cap s) {t u : Tid} (hs : s.held t = .S) :
    s.acquire u .X = none := by
  have hg := (inv_reachable h).g
  have hin := (hg.sharedHeld t).2 hs
  have : s.shared ≠ [] := by intro h0; rw [h0] at hin; simp at hin
  simp [St.acquire, this]

/-- A reader is never blocked merely by other readers: with a shared-capable mutex a blocking
`lock_shared` is enabled whenever no thread holds the mutex exclusively. -/
theorem C02_reader_not_blocked_by_readers {en cap : Bool} {s : St} (h : Reachable en cap s)
    (he : s.enabled = true) (hc : s.capable = true) (hx : s.excl = none) {t : Tid} {how : How}
    (hp : (s.loc t).pc = .acq .S how) : (step s t (.lk .S how true)).isSome = true := by
  have hn := ((inv_reachable h).l t).plain_none (by simp [hp, Pc.plain])
  simp [step, hp, he, effSide, hc, St.acquire, hn, hx]

/-- Two readers really can hold shared handles at the same time (constructive witness). -/
theorem C02_readers_share : ∃ s, Reachable true true s ∧ s.held 1 = .S ∧ s.held 2 = .S ∧
    (s.loc 1).pc = .sess ∧ (s.loc 2).pc = .sess :=
  ⟨_, ⟨[(1, .callSess), (1, .acq .S .block), (1, .lk .S .block true), (1, .got .a true),
        (2, .callSess), (2, .acq .S .try_), (2, .lk .S .try_ true), (2, .got .a true),
        (1, .rd 0), (2, .rd 0)], rfl⟩, by decide, by decide, by decide, by decide⟩

/-- With a plain mutex the shared API degrades to exclusive access: nobody ever holds a shared
mode, so C01's mutual exclusion applies to "readers" too. -/
theorem C02_plain_degrades {en : Bool} {s : St} (h : Reachable en false s) (t : Tid) : s.held t ≠ .S := by
  intro hs
  have hg := (inv_reachable h).g
  have hin := (hg.sharedHeld t).2 hs
  have hcap : s.capable = false := by
    obtain ⟨es, hes⟩ := h
    refine runFrom_rel (R := fun a b => b.capable = a.capable) (fun _ => rfl)
      (fun a b c h1 h2 => by rw [h2, h1]) ?_ hes
    intro a u e b hab
    unfold step at hab; simp only at hab
    split at hab
    all_goals (try split at hab)
    all_goals (try split at hab)
    all_goals (try split at hab)
    all_goals (try split at hab)
    all_goals (try contradiction)
    all_goals (try (injection hab with hab; subst hab; rfl))
    all_goals (simp only [Option.map_eq_some_iff] at hab; obtain ⟨s1, ha, hab⟩ := hab; subst hab)
    all_goals first
      | (have h1 := (acquire_spec ha).2.2.2.2.2.2.1; exact h1)
      | (have h1 := (release_spec ha).2.2.2.2.2.2.1; exact h1)
  have := hg.capS (by intro h0; rw [h0] at hin; simp at hin)
  rw [hcap] at this; cases this

/-- and on a plain mutex a `lock_shared` is accepted only as an exclusive acquisition -/
example : (run true false [(1, .callSess), (1, .acq .S .block), (1, .lk .S .block true)]).isSome = false ∧
    (run true false [(1, .callSess), (1, .acq .S .block), (1, .lk .X .block true)]).isSome = true := by
  decide

end ConcVerif.LockFam
