import ConcVerif.Proof.Latch
import ConcVerif.Proof.LatchLive
import ConcVerif.Proof.LatchCalls
/-! # C10 — Latch opens exactly when the count is reached and never loses a wake-up

All statements are over `Reachable start s`: every accepted event sequence of the model in
`Model/Latch.lean`, i.e. any number of threads, any mix of `arrive` / `wait` / `arrive_and_wait`
calls, any interleaving, any number of spurious wake-ups.  No bound anywhere. -/
namespace ConcVerif.Latch

/-- `wait` / `arrive_and_wait` return only after at least `start` arrivals have taken place. -/
theorem C10_wait_sound {start : Int} {s s' : St} {t : Tid} {k : Kind} (h : Reachable start s)
    (hk : k ≠ .arrive) (hs : step s t (.ret k) = some s') : start ≤ (s.arrived : Int) := by
  have hi := inv_reachable h
  have hst : s.start = start := by
    obtain ⟨es, hes⟩ := h
    have : ∀ (s0 s1 : St) (es : List (Tid × Ev)), runFrom step s0 es = some s1 → s1.start = s0.start := by
      intro s0 s1 es hr
      refine runFrom_rel (R := fun a b => b.start = a.start) (fun _ => rfl) (fun a b c h1 h2 => by rw [h2, h1]) ?_ hr
      intro a u e b hab
      unfold step at hab
      split at hab <;> (repeat' (split at hab)) <;> first | contradiction | (injection hab with hab; subst hab; rfl)
    exact this _ _ es hes
  cases hp : s.pc t <;> cases k <;> simp [step, hp] at hs <;> first | exact absurd rfl hk | skip
  all_goals
    rename_i k0
    have := hi.opened t k0 (Or.inr hp)
    have hc := hi.cnt
    omega

/-- No lost wake-up: once the latch is open (counter ≤ 0) nobody is left in the condition
variable's wait set, except during the instant in which the arriver that opened it — which holds
the mutex and is therefore never blocked — is between its decrement and its `notify_all`. -/
theorem C10_no_lost_wakeup {start : Int} {s : St} (h : Reachable start s) (ho : s.counter ≤ 0)
    (hq : ∀ t, (s.pc t).notifying = false) : s.waiters = [] := by
  have hi := inv_reachable h
  apply Classical.byContradiction
  intro hne
  rcases hi.lost hne with hp | ⟨_, u, hu⟩
  · omega
  · simp [hq u] at hu

/-- the pending notifier of `C10_no_lost_wakeup` holds the mutex -/
theorem C10_notifier_holds {start : Int} {s : St} (h : Reachable start s) {t : Tid}
    (hn : (s.pc t).notifying = true) : s.mtx = some t := by
  have hi := inv_reachable h
  apply (hi.holder t).1
  cases hp : s.pc t <;> simp [hp, Pc.notifying] at hn <;> simp [Pc.holds]

/-- (L2) the holder of the mutex always has an enabled step: it is never blocked. -/
theorem C10_holder_enabled {start : Int} {s : St} (h : Reachable start s) {t : Tid}
    (hm : s.mtx = some t) : ∃ e, (step s t e).isSome = true := by
  have hi := inv_reachable h
  have hh := (hi.holder t).2 hm
  cases hp : s.pc t <;> simp [hp, Pc.holds] at hh
  · exact ⟨.dec s.counter, by simp [step, hp]⟩
  · exact ⟨.ld s.counter, by simp [step, hp]⟩
  · exact ⟨.cna, by simp [step, hp]⟩
  · exact ⟨.mul, by simp [step, hp, hm]⟩
  · exact ⟨.ld s.counter, by simp [step, hp]⟩
  · exact ⟨.cwt, by simp [step, hp, hm]⟩
  · exact ⟨.mul, by simp [step, hp, hm]⟩

/-- remaining own steps of a thread inside `wait` once the latch is open -/
def Pc.waitRem : Pc → Nat
  | .wCalled _ => 5
  | .wLock _ => 4
  | .wSleep _ => 4
  | .wLocked _ => 3
  | .wUnlock _ => 2
  | .wRet _ => 1
  | _ => 0

def Pc.inWait : Pc → Bool
  | .wCalled _ | .wLock _ | .wSleep _ | .wLocked _ | .wUnlock _ | .wRet _ | .wWait _ => true
  | _ => false

/-- (L3) once the latch is open every own step of a thread inside `wait` strictly decreases a
bounded measure: it returns after at most 5 more own steps and never re-enters the cv wait. -/
theorem C10_open_bounded {start : Int} {s s' : St} {t : Tid} {e : Ev} (h : Reachable start s)
    (ho : s.counter ≤ 0) (hw : (s.pc t).inWait = true) (hs : step s t e = some s') :
    (s'.pc t).waitRem < (s.pc t).waitRem := by
  have hi := inv_reachable h
  cases hp : s.pc t <;> simp [hp, Pc.inWait] at hw
  case wWait k => exact absurd (hi.waitPos t k hp) (by omega)
  all_goals
    cases e <;> simp [step, hp] at hs
  all_goals (repeat' (split at hs))
  all_goals (first | contradiction | (injection hs with hs; subst hs; simp [Pc.waitRem]) | skip)
  all_goals (try (split <;> simp [Pc.waitRem]))
  all_goals (try omega)
  all_goals
    obtain ⟨_, hs⟩ := hs
    try (repeat' (split at hs))
    all_goals (first | contradiction | (subst hs; simp [Pc.waitRem]) | (injection hs with hs; subst hs; simp [Pc.waitRem]))
    all_goals (try (split <;> simp [Pc.waitRem]))
    all_goals (try omega)

/-- (L1 + L4) once the latch is open and no notification is pending, a thread inside `wait` is
enabled whenever the mutex is free: it can only be delayed by a mutex holder, and holders are
never blocked (`C10_holder_enabled`). -/
theorem C10_open_enabled {start : Int} {s : St} {t : Tid} (h : Reachable start s)
    (ho : s.counter ≤ 0) (hq : ∀ u, (s.pc u).notifying = false)
    (hw : (s.pc t).inWait = true) (hm : s.mtx = none ∨ s.mtx = some t) :
    ∃ e, (step s t e).isSome = true := by
  have hi := inv_reachable h
  have hnw := C10_no_lost_wakeup h ho hq
  have hh := hi.holder t
  cases hp : s.pc t <;> simp [hp, Pc.inWait] at hw <;> simp [hp, Pc.holds] at hh
  · exact ⟨.ld s.counter, by simp [step, hp]⟩
  · exact ⟨.mlk, by simp [step, hp]; rcases hm with h | h <;> simp_all⟩
  · exact ⟨.ld s.counter, by simp [step, hp]⟩
  · exact ⟨.cwt, by simp [step, hp, hh]⟩
  · exact ⟨.cwk .notified, by simp [step, hp, hnw]; rcases hm with h | h <;> simp_all⟩
  · exact ⟨.mul, by simp [step, hp, hh]⟩
  · rename_i k
    exact ⟨.ret k.toKind, by simp [step, hp]⟩

/-- `arrive` never waits on the condition variable: `cv.wait` is entered only from the loop of
`wait` … -/
theorem C10_arrive_no_cvwait {s s' : St} {t : Tid} (hs : step s t .cwt = some s') :
    ∃ k, s.pc t = .wWait k := by
  unfold step at hs
  split at hs <;> first | contradiction | exact ⟨_, by assumption⟩

def Pc.arriveRem : Pc → Nat
  | .aCalled _ => 6
  | .aLocked _ => 5
  | .aDec _ => 4
  | .aNotify _ => 3
  | .aUnlock _ => 2
  | .aRet => 1
  | _ => 0

/-- … and each own step inside `arrive` strictly decreases a bounded measure (≤ 6 own steps), the
only possibly delayed one being the acquisition of the short mutex bracket. -/
theorem C10_arrive_bounded {s s' : St} {t : Tid} {e : Ev} (hs : step s t e = some s')
    (ha : 0 < (s.pc t).arriveRem) : (s'.pc t).arriveRem < (s.pc t).arriveRem := by
  unfold step at hs
  split at hs <;> rename_i hpc <;> simp [hpc, Pc.arriveRem] at ha
  all_goals (repeat' (split at hs))
  all_goals (first | contradiction | (injection hs with hs; subst hs; simp [hpc, Pc.arriveRem]))
  all_goals (try (split <;> simp [Pc.arriveRem]))

theorem C10_arrive_enabled {start : Int} {s : St} {t : Tid} (h : Reachable start s)
    (ha : 0 < (s.pc t).arriveRem) (hm : s.mtx = none ∨ s.mtx = some t) :
    ∃ e, (step s t e).isSome = true := by
  have hi := inv_reachable h
  have hh := hi.holder t
  cases hp : s.pc t <;> simp [hp, Pc.arriveRem] at ha <;> simp [hp, Pc.holds] at hh
  · exact ⟨.mlk, by simp [step, hp]; rcases hm with h | h <;> simp_all⟩
  · exact ⟨.dec s.counter, by simp [step, hp]⟩
  · exact ⟨.ld s.counter, by simp [step, hp]⟩
  · exact ⟨.cna, by simp [step, hp]⟩
  · exact ⟨.mul, by simp [step, hp, hh]⟩
  · exact ⟨.ret .arrive, by simp [step, hp]⟩

/-! Non-vacuity: a concrete accepted trace (start = 1; thread 1 waits and really sleeps, thread 2
arrives and notifies, thread 1 wakes and returns) reaches the hypotheses of the theorems above. -/
def witnessTrace : List (Tid × Ev) :=
  [(1, .call .wait), (1, .ld 1), (1, .mlk), (1, .ld 1), (1, .cwt),
   (2, .call .arrive), (2, .mlk), (2, .dec 1), (2, .ld 0), (2, .cna), (2, .mul), (2, .ret .arrive),
   (1, .cwk .notified), (1, .ld 0), (1, .mul)]

example : ∃ s, Reachable 1 s ∧ s.pc 1 = .wRet .wait ∧ s.counter ≤ 0 ∧ s.arrived = 1 ∧
    (step s 1 (.ret .wait)).isSome = true :=
  ⟨_, ⟨witnessTrace, rfl⟩, by decide, by decide, by decide, by decide⟩

/-- and the window of `C10_no_lost_wakeup` is real: after the decrement, before the notify, the
waiter is still in the wait set although the counter is 0 -/
example : ∃ s, Reachable 1 s ∧ s.counter = 0 ∧ s.waiters = [1] ∧ (s.pc 2).notifying = true :=
  ⟨_, ⟨witnessTrace.take 8, rfl⟩, by decide, by decide, by decide⟩

/-! ## Liveness: once the latch is open, every waiter returns — for every scheduler

The clause "once that many have taken place every current and future waiter returns" is proved in
two halves that need no fairness assumption:
* `C10_open_progress` (deadlock-freedom): in every reachable open state in which some thread is
  still inside a call, some thread has an enabled non-`call` step;
* `C10_open_terminates` (no livelock, Base/Live.lean): an execution that reaches an open state
  and makes no further `call` from then on cannot be infinite — the summed rank of the threads
  strictly decreases with every step, spurious wake-ups included.
Hence every maximal execution with finitely many calls ends in a state where every thread has
returned (`C10_stuck_all_returned`).  What is NOT covered: an execution with infinitely many calls
by other threads under a scheduler or mutex that starves one particular waiter (that needs a
fairness assumption on the mutex which C++ does not give). -/

theorem call_only_idle {s : St} {t : Tid} {e : Ev} (hc : isCall e = true) (h : (step s t e).isSome = true) :
    s.pc t = .idle := by
  cases e <;> simp [isCall] at hc
  rename_i k
  cases hp : s.pc t <;> cases k <;> simp [step, hp] at h
  all_goals rfl

/-- deadlock-freedom once open: if some thread is inside a call, some thread can take a
non-`call` step -/
theorem C10_open_progress {start : Int} {s : St} (h : Reachable start s) (ho : s.counter ≤ 0)
    {t : Tid} (ht : s.pc t ≠ .idle) : ∃ u e, isCall e = false ∧ (step s u e).isSome = true := by
  have hi := inv_reachable h
  have noncall : ∀ u e, s.pc u ≠ .idle → (step s u e).isSome = true → isCall e = false := by
    intro u e hu he
    cases hc : isCall e with
    | false => rfl
    | true => exact absurd (call_only_idle hc he) hu
  cases hm : s.mtx with
  | some hd =>
    obtain ⟨e, he⟩ := C10_holder_enabled h hm
    have hh := (hi.holder hd).2 hm
    have hne : s.pc hd ≠ .idle := by intro hid; simp [hid, Pc.holds] at hh
    exact ⟨hd, e, noncall hd e hne he, he⟩
  | none =>
    have hq : ∀ u, (s.pc u).notifying = false := by
      intro u
      cases hn : (s.pc u).notifying with
      | false => rfl
      | true => have := C10_notifier_holds h hn; simp [hm] at this
    by_cases hw : (s.pc t).inWait = true
    · obtain ⟨e, he⟩ := C10_open_enabled h ho hq hw (Or.inl hm)
      exact ⟨t, e, noncall t e ht he, he⟩
    · have ha : 0 < (s.pc t).arriveRem := by
        cases hp : s.pc t <;> simp [hp, Pc.inWait, Pc.arriveRem] at hw ht ⊢
      obtain ⟨e, he⟩ := C10_arrive_enabled h ha (Or.inl hm)
      exact ⟨t, e, noncall t e ht he, he⟩

/-- no livelock once open: an execution whose state at step `N` is reachable and open and which
makes no `call` from `N` on (threads drawn from any finite list `ts`) cannot be infinite -/
theorem C10_open_terminates {start : Int} (x : Live.Exec step) (N : Nat)
    (hr : Reachable start (x.σ N)) (ho : (x.σ N).counter ≤ 0)
    (ts : List Tid) (hnd : ts.Nodup) (hts : ∀ n, N ≤ n → x.who n ∈ ts)
    (hnc : ∀ n, N ≤ n → isCall (x.ev n) = false) : False :=
  Live.no_infinite_run ranked ts hnd x N ⟨inv_reachable hr, ho⟩ hts hnc

/-- quantitative form: from a reachable open state, a trace with `c` calls has at most
`(total rank) + 12·c` steps -/
theorem C10_open_bounded_run {start : Int} {s s' : St} (hr : Reachable start s) (ho : s.counter ≤ 0)
    (ts : List Tid) (hnd : ts.Nodup) {es : List (Tid × Ev)} (hts : ∀ y ∈ es, y.1 ∈ ts)
    (hrun : runFrom step s es = some s') :
    es.length + Live.total μ ts s' ≤ Live.total μ ts s + 12 * Live.calls isCall es :=
  Live.bounded_run ranked ts hnd ⟨inv_reachable hr, ho⟩ hts hrun

/-- a reachable open state in which no non-`call` step is enabled has every thread returned -/
theorem C10_stuck_all_returned {start : Int} {s : St} (h : Reachable start s) (ho : s.counter ≤ 0)
    (hstuck : ∀ u e, isCall e = false → (step s u e).isSome = false) (t : Tid) : s.pc t = .idle := by
  apply Classical.byContradiction
  intro ht
  obtain ⟨u, e, hc, he⟩ := C10_open_progress h ho ht
  simp [hstuck u e hc] at he

/-- non-vacuity: after the witness trace thread 1 is in `wRet`; one more step and all have returned -/
example : ∃ s, Reachable 1 s ∧ s.counter ≤ 0 ∧ s.pc 1 ≠ .idle := ⟨_, ⟨witnessTrace, rfl⟩, by decide, by decide⟩

/-! ## The ghost counter is tied to the calls in the trace

`C10_wait_sound` speaks about `St.arrived`, the number of decrements performed.  The property speaks
about *arrive calls that have taken place*.  The theorems below close that gap for every trace: a
decrement is always made by a thread inside an `arrive` / `arrive_and_wait` call that has not
decremented before, so `arrived` is the number of such calls started minus the callers still in
front of their decrement. -/

/-- exact accounting: calls started = decrements performed + callers still before their decrement -/
theorem C10_arrived_accounting {start : Int} {es : List (Tid × Ev)} {s : St} (h : run start es = some s) :
    ∃ P : List Tid, s.arrived + P.length = arriveCalls es ∧ ∀ t, (s.pc t).pending = true → t ∈ P := by
  obtain ⟨P, hj⟩ := J_run es (J_init start) h
  exact ⟨P, by simpa using hj.sum, hj.mem⟩

/-- a decrement is never counted without an `arrive` / `arrive_and_wait` call behind it -/
theorem C10_arrived_le_calls {start : Int} {es : List (Tid × Ev)} {s : St} (h : run start es = some s) :
    s.arrived ≤ arriveCalls es := by
  obtain ⟨P, hs, _⟩ := C10_arrived_accounting h
  omega

/-- `wait` / `arrive_and_wait` return only after at least `start` calls of `arrive` /
`arrive_and_wait` have been made (the statement of the property, on the trace itself). -/
theorem C10_wait_needs_calls {start : Int} {es : List (Tid × Ev)} {s s' : St} {t : Tid} {k : Kind}
    (h : run start es = some s) (hk : k ≠ .arrive) (hs : step s t (.ret k) = some s') :
    start ≤ (arriveCalls es : Int) := by
  have h1 := C10_wait_sound ⟨es, h⟩ hk hs
  have h2 := C10_arrived_le_calls h
  omega

/-- Conversely ("once that many have taken place ..."): when at least `start` calls of `arrive` /
`arrive_and_wait` have been made and none of them is still in front of its decrement, the latch is
open (`counter ≤ 0`), which is the hypothesis of `C10_no_lost_wakeup`, `C10_open_progress`,
`C10_open_terminates` and `C10_stuck_all_returned`: every current and future waiter returns. -/
theorem C10_calls_open {start : Int} {es : List (Tid × Ev)} {s : St} (h : run start es = some s)
    (hc : start ≤ (arriveCalls es : Int)) (hp : ∀ t, (s.pc t).pending = false) : s.counter ≤ 0 := by
  obtain ⟨P, hj⟩ := J_run es (J_init start) h
  have hP : P = [] := by
    cases P with
    | nil => rfl
    | cons u P => have := hj.only u (List.mem_cons_self ..); rw [hp u] at this; cases this
  have hsum := hj.sum
  rw [hP] at hsum
  have hcnt := (inv_reachable ⟨es, h⟩).cnt
  have hst := run_start h
  simp at hsum
  omega

/-- non-vacuity: a trace with one arrive call, one decrement, and a waiter that returns -/
example : ∃ s, run 1 witnessTrace = some s ∧ arriveCalls witnessTrace = 1 ∧ s.arrived = 1 :=
  ⟨_, rfl, by decide, by decide⟩

end ConcVerif.Latch
