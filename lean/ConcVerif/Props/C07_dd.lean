import ConcVerif.Proof.HBDDOrd
import ConcVerif.Proof.HBDDTie
/-! # C07 for `DelayedDestructor` — `destructionLock` and the vector `ElementsToBeDestroyed`, at the level of the model

For EVERY trace accepted by the DelayedDestructor model `DD.step` (the same `step` the observed traces of
`DelayedDestructor.hpp` are checked against; any number of threads, nested calls from callbacks and payload
destructors, failing and succeeding `try_lock_for`, throwing callbacks), mapped to happens-before events by
`DD.hbTrace js` (`Proof/HBDDMap.lean`: the model has no events for the plain accesses to the vector — the code between two
scheduling points runs with the preceding event — so one model event maps to a short list: `lock_guard` / successful
`try_lock_for` ↦ `acq 0 X`, `mul` ↦ `rel 0 X`, `push_back` / scan+erase ↦ `wr 0`, `size()` ↦ `rd 0`, the `empty()` tests of
`~DelayedDestructor` ↦ `rd 0` and the destruction of the vector member ↦ `wr 0`, both WITHOUT the lock as in the code;
callbacks, payload destructors, failed try-locks, sleeps ↦ `nop`):

* `C07_dd_mutex`: the mapped trace is consistent with mutex semantics and mirrors the model's lock;
* `C07_dd_lockset`: while the container is alive every access to the vector is made holding `destructionLock`;
  `C07_dd_lockset_dtor`: in general, every access is under the lock OR is made by the thread running
  `~DelayedDestructor`, after it started; `C07_dd_dtor_exclusive`: from that point on that thread is the only one that
  touches the lock or the vector (model's client obligation: no call in progress when the destructor starts, none after);
* `C07_dd_writes_mapped`: the mapping misses no mutation of the vector (an event mapped without `wr 0` leaves it unchanged);
* `C07_dd_user_code_unlocked`: callbacks and payload destructors start, end and throw with the lock NOT held;
* `C07_dd_vector` / `C07_dd_accepted`: container alive ⇒ conflicting accesses are happens-before ordered, `raceFree`
  accepts;
* `C07_dd_vector_partial` / `C07_dd_accepted_partial` / `C07_dd_joined_partial`: the same with the destructor,
  under the client obligation `DtorOrdered` (the destructor call is ordered after the other threads' accesses —
  e.g. they are joined, `js`).  The obligation is necessary: `C07_dd_unordered_dtor_races`.

`js` = the threads the client joins before destroying the container (`callDtor ↦ nop, join u…, rd 0`); `js = []` is
the bare model.  Single-thread variant `DelayedDestructorSingleThread`: no lock at all, every access is free; the
model does not cover it (its discipline would be "all events by one thread", i.e. program order). -/
namespace ConcVerif.DD

/-- **Mutex consistency.**  In every accepted trace the mapped events respect the semantics of `destructionLock`
(an acquisition — blocking or by a successful `try_lock_for` — only when nobody holds it, a release only by the
holder), and what the happens-before layer computes as "held by `u`" is exactly the model's `lock` field. -/
theorem C07_dd_mutex (js : List Tid) {cb : Bool} {ns nt : Nat} {es : List (Tid × Ev)} {s : St}
    (h : run cb ns nt es = some s) :
    HB.MutexOK (hbTrace js cb ns nt es) ∧
    ∀ u, HB.held (hbTrace js cb ns nt es) u 0 = if s.lock = some u then some .X else none :=
  ⟨(sim_run js h).ti.2, (sim_run js h).ti.1⟩

/-- **Lockset, container alive.**  In every accepted trace in which `~DelayedDestructor` has not started, every plain
access to the vector (`push_back`, scan / `remove_if` / `erase`, every `size()`) is made while the accessing thread
holds `destructionLock` exclusively. -/
theorem C07_dd_lockset (js : List Tid) {cb : Bool} {ns nt : Nat} {es : List (Tid × Ev)} {s : St}
    (h : run cb ns nt es = some s) (hd : s.dead = none) : HB.LockSet (hbTrace js cb ns nt es) 0 0 :=
  (sim_run js h).live hd

/-- **From the start of the destructor on, one thread.**  If `callDtor` of thread `d` is at position `p` of an accepted
trace, then from the corresponding position of the mapped trace on every event that is not a `nop` — every
acquisition, release and access — is an event of `d`; the part before it is the mapped trace of the prefix, an
accepted trace with the container alive (so `C07_dd_lockset` applies to it).  This is the model's client obligation
made visible: `callDtor` is accepted only when no call is in progress, and no call is accepted afterwards; other
threads can only run payload destructors. -/
theorem C07_dd_dtor_exclusive (js : List Tid) {cb : Bool} {ns nt : Nat} {es : List (Tid × Ev)} {s : St} {p : Nat}
    {d : Tid} (h : run cb ns nt es = some s) (hp : es[p]? = some (d, Ev.callDtor)) :
    (∃ rest, hbTrace js cb ns nt es = hbTrace js cb ns nt (es.take p) ++ rest) ∧
    HB.LockSet (hbTrace js cb ns nt (es.take p)) 0 0 ∧
    ∀ n u x, (hbTrace js cb ns nt (es.take p)).length ≤ n → (hbTrace js cb ns nt es)[n]? = some (u, x) →
      x ≠ .nop → u = d := by
  obtain ⟨s1, rest, hr1, hd1, htr⟩ := hbTrace_dtor js h hp
  refine ⟨⟨_, htr⟩, (sim_run js hr1).live hd1, ?_⟩
  obtain ⟨p', hp', hown⟩ := (sim_run js h).dt d (dead_of_callDtor h hp)
  -- `callDtor` occurs once: a second one is rejected because `dead` is already set
  have hpp : p' = p := by
    apply Classical.byContradiction; intro hne
    obtain ⟨a, b, hab, ha, hb⟩ : ∃ a b, a < b ∧ es[a]? = some (d, Ev.callDtor) ∧ es[b]? = some (d, Ev.callDtor) := by
      rcases Nat.lt_or_gt_of_ne hne with hlt | hlt
      · exact ⟨p', p, hlt, hp', hp⟩
      · exact ⟨p, p', hlt, hp, hp'⟩
    obtain ⟨sb, sb', hrb, hsb⟩ := HB.runFrom_at h hb
    have hat : (es.take b)[a]? = some (d, Ev.callDtor) := by rw [List.getElem?_take]; simp [hab, ha]
    have := dead_of_callDtor (cb := cb) (ns := ns) (nt := nt) hrb hat
    rw [(callDtor_inv hsb).2.2.1] at this; cases this
  subst hpp
  exact hown

/-- **Lockset, in general.**  In every accepted trace, each plain access to the vector is made holding
`destructionLock`, OR it is an access of the thread running `~DelayedDestructor`, made after that destructor started
(the code takes no lock for its `empty()` tests and for the destruction of the vector member). -/
theorem C07_dd_lockset_dtor (js : List Tid) {cb : Bool} {ns nt : Nat} {es : List (Tid × Ev)} {s : St}
    (h : run cb ns nt es = some s) {n : Nat} (hn : n < (hbTrace js cb ns nt es).length) :
    HB.lockedAt (hbTrace js cb ns nt es) 0 0 n ∨
    ∃ p d, es[p]? = some (d, Ev.callDtor) ∧ s.dead = some d ∧ (hbTrace js cb ns nt (es.take p)).length ≤ n ∧
      ∀ u x, (hbTrace js cb ns nt es)[n]? = some (u, x) → x ≠ .nop → u = d := by
  cases hd : s.dead with
  | none => exact .inl ((sim_run js h).live hd n hn)
  | some d =>
    obtain ⟨p, hp, _⟩ := (sim_run js h).dt d hd
    obtain ⟨⟨rest, htr⟩, hls, hown⟩ := C07_dd_dtor_exclusive js h hp
    by_cases hlt : n < (hbTrace js cb ns nt (es.take p)).length
    · left; rw [htr]; exact (HB.lockedAt_old _ hlt).mpr (hls n hlt)
    · exact .inr ⟨p, d, hp, rfl, by omega, fun u x hx hne => hown n u x (by omega) hx hne⟩

/-- **The mapping misses no write.**  If the model accepts an event whose happens-before content has no `wr 0`, the
event leaves `ElementsToBeDestroyed` unchanged and does not destroy the vector member: every mutation the model
performs on the vector (`push_back`, `erase`, the element releases and the end of the vector member's destructor)
is visible to the race check as a write — under the lock or not. -/
theorem C07_dd_writes_mapped (js : List Tid) {s s' : St} {t : Tid} {e : Ev} (hs : step s t e = some s')
    (h : HB.Ev.wr 0 ∉ toHB js s t e) : s'.vec = s.vec ∧ s'.vdead = s.vdead :=
  vec_write_mapped hs h

/-- **User code runs outside the lock.**  Whenever the model accepts the start / end / throw of a callback or the
start / end of a payload destructor by thread `t`, `t` does not hold `destructionLock` (in the happens-before
bookkeeping of the mapped trace). -/
theorem C07_dd_user_code_unlocked (js : List Tid) {cb : Bool} {ns nt : Nat} {es : List (Tid × Ev)} {s s' : St}
    {t : Tid} {e : Ev} (h : run cb ns nt es = some s) (hs : step s t e = some s') (he : isCbDt e = true) :
    HB.held (hbTrace js cb ns nt es) t 0 = none := by
  rw [(sim_run js h).ti.1]
  simp only [ofMtx]
  split
  · rename_i hl
    have := (inv_reachable ⟨es, h⟩).lockI t hl
    rw [cbdt_top hs he] at this; cases this
  · rfl

/-- **The vector, container alive.**  In every accepted trace in which `~DelayedDestructor` has not started, each
access to the vector happens after every earlier conflicting access (any threads, any nesting). -/
theorem C07_dd_vector (js : List Tid) {cb : Bool} {ns nt : Nat} {es : List (Tid × Ev)} {s : St}
    (h : run cb ns nt es = some s) (hd : s.dead = none) {i j : Nat} (hij : i < j)
    (hc : HB.ConflictOn (hbTrace js cb ns nt es) 0 i j) : HB.HB (hbTrace js cb ns nt es) i j :=
  dd_hb h (dtorOrdered_live h hd) hij hc

/-- … and the executable race checker accepts the mapped trace. -/
theorem C07_dd_accepted (js : List Tid) {cb : Bool} {ns nt : Nat} {es : List (Tid × Ev)} {s : St}
    (h : run cb ns nt es = some s) (hd : s.dead = none) : HB.raceFree (hbTrace js cb ns nt es) = true :=
  HB.raceFree_complete (dd_no_race h (dtorOrdered_live h hd))

/-- **The vector, destructor included (partial: needs the client obligation).**  In every accepted trace that
satisfies `DtorOrdered` — the accesses other threads made before `callDtor` happen-before the destructor's first
`empty()` test — each access to the vector happens after every earlier conflicting access, the unlocked accesses of
`~DelayedDestructor` included.  Missing for "every accepted trace": the model accepts `callDtor` as soon as no call
is in progress (an interleaving-level condition) and records no synchronisation between the last users and the
destroying thread; without one the destructor's unlocked accesses DO race (`C07_dd_unordered_dtor_races`). -/
theorem C07_dd_vector_partial (js : List Tid) {cb : Bool} {ns nt : Nat} {es : List (Tid × Ev)} {s : St}
    (h : run cb ns nt es = some s) (ho : DtorOrdered js cb ns nt es) {i j : Nat} (hij : i < j)
    (hc : HB.ConflictOn (hbTrace js cb ns nt es) 0 i j) : HB.HB (hbTrace js cb ns nt es) i j :=
  dd_hb h ho hij hc

/-- … and the executable race checker accepts the mapped trace (partial: same obligation). -/
theorem C07_dd_accepted_partial (js : List Tid) {cb : Bool} {ns nt : Nat} {es : List (Tid × Ev)} {s : St}
    (h : run cb ns nt es = some s) (ho : DtorOrdered js cb ns nt es) : HB.raceFree (hbTrace js cb ns nt es) = true :=
  HB.raceFree_complete (dd_no_race h ho)

/-- **Join, then destroy (partial: the joins are the client's).**  If every thread that ever accesses the vector is
among the threads `js` the client joins before destroying the container, or is the destroying thread itself, then
the whole mapped trace — locked accesses and the destructor's unlocked ones — is race free. -/
theorem C07_dd_joined_partial (js : List Tid) {cb : Bool} {ns nt : Nat} {es : List (Tid × Ev)} {s : St}
    (h : run cb ns nt es = some s)
    (hj : ∀ p ∈ hbTrace js cb ns nt es, p.2.accesses 0 → p.1 ∈ js ∨ (p.1, Ev.callDtor) ∈ es) :
    HB.raceFree (hbTrace js cb ns nt es) = true :=
  C07_dd_accepted_partial js h (dtorOrdered_joined' h hj)

/-! ## Non-vacuity -/

/-- thread 1 pushes object 1; thread 2 runs `destroyObjects()` (scan + erase under the lock, callback and payload
destructor outside, second `try_lock_for`, `size()`); thread 1 calls `size()` and pushes object 2; thread 3 destroys
the container: `empty()` test without the lock, one `destroyObjects()` that reaps object 2, `empty()` again, the
vector member destroyed -/
def hbWitness : List (Tid × Ev) :=
  [(1, .new 1), (1, .callAdd 1 true), (1, .mlk), (1, .mul), (1, .retAdd true),
   (2, .callDestroy), (2, .mtf true []), (2, .mul), (2, .ucb 1), (2, .uce 1), (2, .pdt 1), (2, .pde 1),
   (2, .mtf true []), (2, .mul), (2, .retDestroy (some 0)),
   (1, .callSize), (1, .mlk), (1, .mul), (1, .retSize 0),
   (1, .new 2), (1, .callAdd 2 true), (1, .mlk), (1, .mul), (1, .retAdd true),
   (3, .callDtor), (3, .mtf true []), (3, .mul), (3, .ucb 2), (3, .uce 2), (3, .pdt 2), (3, .pde 2),
   (3, .mtf true []), (3, .mul), (3, .retDtor)]

/-- the trace is accepted; thread 3 ran the destructor to its end -/
example : ∃ s, run true 0 0 hbWitness = some s ∧ s.dead = some 3 ∧ s.vdead = true ∧ s.destroyed = [2, 1] :=
  ⟨_, rfl, rfl, rfl, rfl⟩

/-- what it maps to when the client joins threads 1 and 2 before destroying: the part around the destructor call -/
example : ((hbTrace [1, 2] true 0 0 hbWitness).drop 25).take 11 =
    [(1, .acq 0 .X), (1, .wr 0), (1, .rel 0 .X), (1, .nop),
     (3, .nop), (3, .join 1), (3, .join 2), (3, .rd 0), (3, .acq 0 .X), (3, .wr 0), (3, .rel 0 .X)] := by decide

/-- conflicting accesses of different threads: `push_back` of thread 1 (3) / scan+erase of thread 2 (8) under the
lock; `push_back` of thread 1 (26) / the destructor's unlocked `empty()` test of thread 3 (32) and its final
destruction of the vector member (44) -/
example : HB.ConflictOn (hbTrace [1, 2] true 0 0 hbWitness) 0 3 8 ∧
    HB.ConflictOn (hbTrace [1, 2] true 0 0 hbWitness) 0 26 32 ∧
    HB.ConflictOn (hbTrace [1, 2] true 0 0 hbWitness) 0 8 44 :=
  ⟨⟨1, 2, _, _, rfl, rfl, .inr rfl, .inr rfl, .inl rfl⟩, ⟨1, 3, _, _, rfl, rfl, .inr rfl, .inl rfl, .inl rfl⟩,
   ⟨2, 3, _, _, rfl, rfl, .inr rfl, .inr rfl, .inl rfl⟩⟩

/-- the container-alive theorems apply to the prefix before the destructor -/
example : HB.LockSet (hbTrace [] true 0 0 (hbWitness.take 24)) 0 0 ∧
    HB.raceFree (hbTrace [] true 0 0 (hbWitness.take 24)) = true :=
  ⟨C07_dd_lockset [] (s := _) rfl rfl, C07_dd_accepted [] (s := _) rfl rfl⟩

/-- the join theorem applies to the whole trace: threads 1, 2 are joined, thread 3 is the destroying thread -/
example : HB.raceFree (hbTrace [1, 2] true 0 0 hbWitness) = true :=
  C07_dd_joined_partial [1, 2] (s := _) rfl (by simp only [HB.Ev.accesses]; decide)

/-- … hence the destructor's unlocked accesses happen after the locked accesses of the other threads -/
example : HB.HB (hbTrace [1, 2] true 0 0 hbWitness) 26 32 ∧ HB.HB (hbTrace [1, 2] true 0 0 hbWitness) 8 44 := by
  have ho : DtorOrdered [1, 2] true 0 0 hbWitness :=
    dtorOrdered_joined' (s := _) rfl (by simp only [HB.Ev.accesses]; decide)
  exact ⟨C07_dd_vector_partial [1, 2] (s := _) rfl ho (by decide)
      ⟨1, 3, _, _, rfl, rfl, .inr rfl, .inl rfl, .inl rfl⟩,
    C07_dd_vector_partial [1, 2] (s := _) rfl ho (by decide) ⟨2, 3, _, _, rfl, rfl, .inr rfl, .inr rfl, .inl rfl⟩⟩

/-- the checker agrees -/
example : HB.raceFree (hbTrace [1, 2] true 0 0 hbWitness) = true := by decide

/-- joining thread 1 alone is enough here: thread 2's critical section is ordered before thread 1's later ones
through the lock -/
example : HB.raceFree (hbTrace [1] true 0 0 hbWitness) = true := by decide

/-- **The client obligation is necessary.**  The bare model (`js = []`: no edge into the destructor) accepts a trace
in which thread 1's call has returned and thread 2 then destroys the container; the destructor's first `empty()` test
takes no lock, so it is not ordered after thread 1's `push_back`: a data race by the declarative definition, and the
checker rejects. -/
theorem C07_dd_unordered_dtor_races :
    ∃ es s, run true 0 0 es = some s ∧ HB.raceFree (hbTrace [] true 0 0 es) = false ∧
      HB.Race (hbTrace [] true 0 0 es) := by
  refine ⟨[(1, .new 1), (1, .callAdd 1 true), (1, .mlk), (1, .mul), (1, .retAdd true), (2, .callDtor)], _, rfl,
    by decide, ?_⟩
  apply Classical.byContradiction
  intro hn
  have := (HB.raceFree_iff _).mpr hn
  revert this; decide

/-- the same happens on the witness when nobody is joined … -/
example : HB.raceFree (hbTrace [] true 0 0 hbWitness) = false := by decide

/-- … unless the destroying thread has itself synchronised through the lock after the others' last use (here: it
calls `size()` first) -/
example : HB.raceFree (hbTrace [] true 0 0
    (hbWitness.take 24 ++ [(3, .callSize), (3, .mlk), (3, .mul), (3, .retSize 1)] ++ hbWitness.drop 24)) = true := by
  decide

end ConcVerif.DD
