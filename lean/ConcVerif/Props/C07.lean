import ConcVerif.Base.HB
namespace ConcVerif.HB
theorem C07_placeholder : raceFree [] = true := by decide
end ConcVerif.HB
