import ConcVerif.Proof.HB
import ConcVerif.Proof.HBLock
import ConcVerif.Proof.HBPub
import ConcVerif.Proof.HBComplete
import ConcVerif.Proof.HBLockFam
import ConcVerif.Proof.HBBarrier
import ConcVerif.Proof.HBLatch
/-! # C07 — no data races; every granted access happens-after conflicting earlier ones

Generic layer (`ConcVerif.HB`, `Base/HB.lean`): a trace is ANY list of `(thread, event)` pairs — any
number of threads, mutexes, atomic and plain locations; events carry the memory order written in the
source.  `HB` is the declarative happens-before relation (program order ∪ synchronises-with, closed
transitively; C++20 release sequences; `unlock → lock` edges except `unlock_shared → lock_shared`;
spawn/join), `Race` a pair of conflicting plain accesses not ordered by it, `raceFree` the executable
vector-clock checker that `Driver/HB.lean` runs on every observed trace of every client.

(i)   `C07_raceFree_sound` / `C07_raceFree_ordered` / `C07_raceFree_iff`: the checker DECIDES the
      declarative definition (sound: an accepted trace has no race; complete: it raises no false alarm).
(ii)  `C07_lockset`: one mutex held at every access (exclusively at writes) ⇒ every access happens
      after every earlier conflicting one — for EVERY trace consistent with mutex semantics.
(iii) `C07_publication`: release store / RMW-continued release sequence → acquire load.
(iv)  `C07_weak_*`: non-releasing stores / non-acquiring loads give no edge; a concrete racy trace.
(v)   `C07_lockfam_*`, `C07_barrier_*`, `C07_latch_*`: every trace ACCEPTED by the component models,
      mapped to happens-before events, satisfies the hypotheses of (ii) / (iii).

Memory-model abstraction (trusted base): operational, the trace is an SC interleaving and every
load reads the latest write; edges come from the DECLARED orders. -/
namespace ConcVerif.HB

/-! ## (i) soundness of the executable checker -/

/-- If the vector-clock checker accepts a trace, every pair of conflicting plain accesses is ordered
by happens-before: the later access happens after the earlier one. -/
theorem C07_raceFree_ordered {tr : Trace} (h : raceFree tr = true) {i j : Nat} (hij : i < j)
    (hc : Conflict tr i j) : HB tr i j :=
  raceFree_ordered h i j hij hc

/-- … hence an accepted trace contains no data race. -/
theorem C07_raceFree_sound {tr : Trace} (h : raceFree tr = true) : ¬ Race tr :=
  raceFree_sound h

/-- Every clock entry the checker ever computes is justified by a happens-before path (the invariant
behind soundness, stated for the final clock of each thread): if the clock of `t` knows the local
time of position `i`, then `i` happens-before-or-equals an event of `t` or the creation of `t`. -/
theorem C07_clocks_justified (tr : Trace) (t u : Tid) (e : Ev) (i : Nat) (hi : tr[i]? = some (u, e))
    (hl : lt tr i u ≤ vget ((vrun {} tr).c t) u) : ∃ j, Anch tr t j ∧ HBeq tr i j :=
  ((just_vrun tr).jC t).2 i u e hi hl

/-- Completeness: a trace without a data race is accepted — a REJECT of the checker is always a
genuine race of the declarative definition. -/
theorem C07_raceFree_complete {tr : Trace} (h : ¬ Race tr) : raceFree tr = true :=
  raceFree_complete h

/-- The executable checker decides the declarative definition. -/
theorem C07_raceFree_iff (tr : Trace) : raceFree tr = true ↔ ¬ Race tr :=
  raceFree_iff tr

/-- Vector clocks reflect happens-before exactly (completeness half): if `i` happens before `j`, the
clock of `j`'s thread right after `j` knows the local time of `i`. -/
theorem C07_clocks_complete {tr : Trace} {i j : Nat} {t u : Tid} {ei ej : Ev} (h : HB tr i j)
    (hi : tr[i]? = some (t, ei)) (hj : tr[j]? = some (u, ej)) :
    lt tr i t ≤ vget ((vrun {} (tr.take (j + 1))).c u) t :=
  hb_known h hi hj

/-! ## (ii) lockset theorem -/

/-- **Lockset.**  For every trace that is consistent with the semantics of (shared) mutexes, any number
of threads: if every plain access to `x` is made while the accessing thread holds `m` — in any mode
for a read, exclusively for a write — then each access to `x` happens after every earlier conflicting
access (so the writes made under one hold are visible to the next holder). -/
theorem C07_lockset {tr : Trace} {x m : Loc} (hok : MutexOK tr) (hls : LockSet tr x m) {i j : Nat} (hij : i < j)
    (hc : ConflictOn tr x i j) : HB tr i j :=
  lockset_hb hok hls hij hc

/-- … hence a trace in which every plain location is protected by some mutex has no data race. -/
theorem C07_lockset_no_race {tr : Trace} (hok : MutexOK tr) (hall : ∀ x, ∃ m, LockSet tr x m) : ¬ Race tr := by
  intro ⟨i, j, hij, ⟨x, hc⟩, hn⟩
  obtain ⟨m, hls⟩ := hall x
  exact hn (lockset_hb hok hls hij hc)

/-- … and is accepted by the executable checker. -/
theorem C07_lockset_accepted {tr : Trace} (hok : MutexOK tr) (hall : ∀ x, ∃ m, LockSet tr x m) : raceFree tr = true :=
  raceFree_complete (C07_lockset_no_race hok hall)

/-- The mutex-consistency hypothesis yields mutual exclusion (it is not an extra assumption about
who holds what): two different threads never hold conflicting modes of a mutex at the same time. -/
theorem C07_mutex_exclusion {tr : Trace} (hok : MutexOK tr) {n : Nat} (hn : n ≤ tr.length) {t u : Tid} {m : Loc}
    {a b : Mode} (htu : t ≠ u) (ht : held (tr.take n) t m = some a) (hu : held (tr.take n) u m = some b) :
    a = .S ∧ b = .S :=
  held_excl hok hn htu ht hu

/-! ## (iii) publication through an atomic -/

/-- **Publication.**  Anything thread `t` did at `i` (e.g. a plain write) before a releasing
(`release` / `acq_rel` / `seq_cst`) store or RMW at `k` on atomic `a` happens before anything thread `u`
does at `j` (e.g. a plain read) after an acquiring (`acquire` / `acq_rel` / `seq_cst`) load or RMW at `l`
that reads from that write or from a write `w` of its RMW-continued release sequence — the pattern of
TripWire, the Latch fast path, the left-right flags and counters and the RCU link stores. -/
theorem C07_publication {tr : Trace} {a : Loc} {i k w l j : Nat} {t u : Tid} {ei ew er ej : Ev}
    (hik : i < k) (hlj : l < j) (hi : tr[i]? = some (t, ei)) (hk : tr[k]? = some (t, ew)) (hrel : RelWrite ew a)
    (hseq : InRelSeq tr a k w) (hrf : ReadsFrom tr a w l) (hl : tr[l]? = some (u, er)) (hacq : AcqRead er a)
    (hj : tr[j]? = some (u, ej)) : HB tr i j :=
  publication hik hlj hi hk hrel hseq hrf hl hacq hj

/-! ## (iv) weak orders give no edge -/

/-- A store whose order is weaker than `release` synchronises with nothing (the only
synchronises-with edge leaving it is the join of its whole thread). -/
theorem C07_weak_store_no_edge {tr : Trace} {i j : Nat} {t : Tid} {a : Loc} {o : Ord}
    (hi : tr[i]? = some (t, .st a o)) (ho : o.isRel = false) (h : Sw tr i j) : ∃ v, tr[j]? = some (v, .join t) :=
  sw_weak_store hi ho h

/-- A load whose order is weaker than `acquire` synchronises with nothing (the only
synchronises-with edge entering it is the creation of its thread). -/
theorem C07_weak_load_no_edge {tr : Trace} {i j : Nat} {u : Tid} {a : Loc} {o : Ord}
    (hj : tr[j]? = some (u, .ld a o)) (ho : o.isAcq = false) (h : Sw tr i j) : ∃ v, tr[i]? = some (v, .fork u) :=
  sw_weak_load hj ho h

/-- Without mutexes, thread edges and releasing writes, happens-before is program order only. -/
theorem C07_weak_orders_only_po {tr : Trace}
    (hno : ∀ (i : Nat) (t : Tid) (e : Ev), tr[i]? = some (t, e) →
      (∀ m md, e ≠ .acq m md) ∧ (∀ u, e ≠ .fork u) ∧ (∀ u, e ≠ .join u) ∧ (∀ a, ¬ RelWrite e a))
    {i j : Nat} (h : HB tr i j) : ∃ t ei ej, tr[i]? = some (t, ei) ∧ tr[j]? = some (t, ej) :=
  hb_po_of_no_release hno h

/-- message passing with a RELAXED flag store: plain data `0`, flag `1` -/
def racyTrace : Trace := [(1, .wr 0), (1, .st 1 .rlx), (2, .ld 1 .acq), (2, .rd 0)]

/-- the same with a release store -/
def publishedTrace : Trace := [(1, .wr 0), (1, .st 1 .rel), (2, .ld 1 .acq), (2, .rd 0)]

/-- Non-vacuity of the order checks: with a relaxed flag store the checker rejects, and the trace IS
racy by the declarative definition (the read of the data is not ordered after the write) — although
the interleaving is sequentially consistent and the reader did see the flag. -/
theorem C07_relaxed_counterexample : raceFree racyTrace = false ∧ Race racyTrace := by
  refine ⟨by decide, 0, 3, by decide, ⟨0, 1, 2, _, _, rfl, rfl, .inr rfl, .inl rfl, .inl rfl⟩, ?_⟩
  intro h
  have hno : ∀ (i : Nat) (t : Tid) (e : Ev), racyTrace[i]? = some (t, e) →
      (∀ m md, e ≠ .acq m md) ∧ (∀ u, e ≠ .fork u) ∧ (∀ u, e ≠ .join u) ∧ (∀ a, ¬ RelWrite e a) := by
    intro i t e hi
    have : e = .wr 0 ∨ e = .st 1 .rlx ∨ e = .ld 1 .acq ∨ e = .rd 0 := by
      match i, hi with
      | 0, hi => simp [racyTrace] at hi; exact .inl hi.2.symm
      | 1, hi => simp [racyTrace] at hi; exact .inr (.inl hi.2.symm)
      | 2, hi => simp [racyTrace] at hi; exact .inr (.inr (.inl hi.2.symm))
      | 3, hi => simp [racyTrace] at hi; exact .inr (.inr (.inr hi.2.symm))
      | n + 4, hi => simp [racyTrace] at hi
    refine ⟨?_, ?_, ?_, ?_⟩
    · intro m md he; rcases this with h | h | h | h <;> rw [h] at he <;> cases he
    · intro u he; rcases this with h | h | h | h <;> rw [h] at he <;> cases he
    · intro u he; rcases this with h | h | h | h <;> rw [h] at he <;> cases he
    · intro a ⟨o, ho, he⟩
      rcases this with h | h | h | h <;> rw [h] at he <;> rcases he with he | he <;>
        first | (cases he; cases ho) | cases he
  obtain ⟨t, ei, ej, h1, h2⟩ := hb_po_of_no_release hno h
  simp [racyTrace] at h1 h2
  exact absurd (h1.1.trans h2.1.symm) (by decide)

/-- … and with the release store the same program is accepted and has no race. -/
theorem C07_release_accepted : raceFree publishedTrace = true ∧ ¬ Race publishedTrace :=
  ⟨by decide, raceFree_sound (by decide)⟩

/-! ### Non-vacuity of (i)–(iii) -/

/-- two threads (forked by thread 0) access `x = 0` under mutex `0`; thread 0 joins them -/
def lockedTrace : Trace :=
  [(0, .fork 1), (0, .fork 2), (1, .acq 0 .X), (1, .wr 0), (1, .rel 0 .X), (2, .acq 0 .S), (2, .rd 0), (2, .rel 0 .S),
   (2, .acq 0 .X), (2, .wr 0), (2, .rel 0 .X), (0, .join 1), (0, .join 2)]

/-- the hypotheses of (i) and (ii) hold on a trace with genuine cross-thread conflicts, and the
conclusion is not trivial: the conflicting accesses at 3 and 9 belong to different threads -/
example : raceFree lockedTrace = true ∧ MutexOK lockedTrace ∧ LockSet lockedTrace 0 0 ∧
    ConflictOn lockedTrace 0 3 9 ∧ ConflictOn lockedTrace 0 3 6 ∧ HB lockedTrace 3 9 := by
  have h1 : MutexOK lockedTrace := by decide
  have h2 : LockSet lockedTrace 0 0 := by decide
  have hc : ConflictOn lockedTrace 0 3 9 := ⟨1, 2, _, _, rfl, rfl, .inr rfl, .inr rfl, .inl rfl⟩
  exact ⟨by decide, h1, h2, hc, ⟨1, 2, _, _, rfl, rfl, .inr rfl, .inl rfl, .inl rfl⟩,
    C07_lockset h1 h2 (by decide) hc⟩

/-- after the joins the main thread may read without the lock (join edges) -/
example : raceFree (lockedTrace ++ [(0, .rd 0)]) = true := by decide

/-- … but not before them -/
example : raceFree (lockedTrace.take 11 ++ [(0, .rd 0)]) = false := by decide

/-- writes under a SHARED hold are not protected: the checker rejects (the mutant "shared_lock used
for a writing operation") -/
example : raceFree [(1, .acq 0 .S), (1, .wr 0), (1, .rel 0 .S), (2, .acq 0 .S), (2, .wr 0), (2, .rel 0 .S)] = false := by
  decide

/-- publication through a release sequence continued by a (relaxed) RMW of a third thread -/
def chainTrace : Trace := [(1, .wr 5), (1, .st 0 .rel), (3, .rmw 0 .rlx), (2, .ld 0 .acq), (2, .rd 5)]

example : HB chainTrace 0 4 ∧ raceFree chainTrace = true := by
  refine ⟨?_, by decide⟩
  refine C07_publication (a := 0) (i := 0) (k := 1) (w := 2) (l := 3) (j := 4) (by decide) (by decide) rfl rfl
    ⟨.rel, rfl, .inl rfl⟩ ⟨by decide, ?_⟩ ⟨by decide, ⟨3, _, rfl, .rlx, .inr rfl⟩, ?_⟩ rfl ⟨.acq, rfl, .inl rfl⟩ rfl
  · intro k' v o h1 h2
    have : k' = 2 := by omega
    subst this; simp [chainTrace]
  · intro k v e h1 h2; omega

/-- a plain store by another thread in between breaks the release sequence: rejected -/
example : raceFree [(1, .wr 5), (1, .st 0 .rel), (3, .st 0 .rlx), (2, .ld 0 .acq), (2, .rd 5)] = false := by decide

end ConcVerif.HB

/-! ## (v) the component models -/

namespace ConcVerif.LockFam

/-- **Lock-based wrappers.**  In every trace accepted by the wrapper model with locking enabled (any
wrapper, any of the four mutex types, any client program and interleaving), mapped to happens-before
events, each access to the wrapped object happens after every earlier conflicting access. -/
theorem C07_lockfam_payload {cap : Bool} {es : List (Tid × Ev)} {s : St} (h : run true cap es = some s) {i j : Nat}
    (hij : i < j) (hc : HB.ConflictOn (hbTrace es) 0 i j) : HB.HB (hbTrace es) i j :=
  lockfam_hb h hij hc

/-- … the mapped trace is consistent with mutex semantics and satisfies the lockset discipline, so
`C07_lockset` applies to every accepted trace, not only to the observed ones. -/
theorem C07_lockfam_lockset {cap : Bool} {es : List (Tid × Ev)} {s : St} (h : run true cap es = some s) :
    HB.MutexOK (hbTrace es) ∧ HB.LockSet (hbTrace es) 0 0 :=
  (hb_sim h).2

/-- … and the executable race checker accepts every trace the wrapper model accepts: a REJECT of the
`hb` driver on a wrapper trace can only come with a rejection by the wrapper model. -/
theorem C07_lockfam_accepted {cap : Bool} {es : List (Tid × Ev)} {s : St} (h : run true cap es = some s) :
    HB.raceFree (hbTrace es) = true :=
  HB.raceFree_complete (lockfam_no_race h)

def hbWitness : List (Tid × Ev) :=
  [(1, .callW (.st 5)), (1, .lk .X .block true), (1, .wr 5), (1, .rel .X), (1, .retW .unit),
   (2, .callW .ld), (2, .lk .X .block true), (2, .rd 5), (2, .rel .X), (2, .retW (.val 5))]

example : ∃ s, run true false hbWitness = some s ∧ HB.ConflictOn (hbTrace hbWitness) 0 2 7 :=
  ⟨_, rfl, 1, 2, _, _, rfl, rfl, .inr rfl, .inl rfl, .inl rfl⟩

end ConcVerif.LockFam

namespace ConcVerif.Barrier

/-- **Barrier.**  In every trace accepted by the Barrier model (any number of participants and
generations, drops, spurious wake-ups), each plain access to `threshold_` / `count_` / `generation_`
happens after every earlier one — even when all of them are counted as conflicting writes. -/
theorem C07_barrier_fields {P : List Tid} {es : List (Tid × Ev)} {s : St} (h : run P es = some s) {i j : Nat}
    (hij : i < j) (hc : HB.ConflictOn (hbTrace es) 0 i j) : HB.HB (hbTrace es) i j :=
  barrier_hb h hij hc

theorem C07_barrier_lockset {P : List Tid} {es : List (Tid × Ev)} {s : St} (h : run P es = some s) :
    HB.MutexOK (hbTrace es) ∧ HB.LockSet (hbTrace es) 0 0 :=
  (hb_sim h).2

theorem C07_barrier_accepted {P : List Tid} {es : List (Tid × Ev)} {s : St} (h : run P es = some s) :
    HB.raceFree (hbTrace es) = true :=
  HB.raceFree_complete (barrier_no_race h)

def hbWitness : List (Tid × Ev) :=
  [(1, .call .wait), (1, .mlk), (1, .plain), (1, .cwt ⟨none, some 1, some 0⟩),
   (2, .call .wait), (2, .mlk), (2, .plain), (2, .cna), (2, .mul ⟨some 2, some 2, some 1⟩), (2, .ret .wait),
   (1, .cwk .notified), (1, .plain), (1, .mul ⟨some 2, some 2, some 1⟩), (1, .ret .wait)]

/-- accesses on both sides of a condition-variable wait conflict with the other thread's -/
example : ∃ s, run [1, 2] hbWitness = some s ∧ HB.ConflictOn (hbTrace hbWitness) 0 2 6 ∧
    HB.ConflictOn (hbTrace hbWitness) 0 6 11 :=
  ⟨_, rfl, ⟨1, 2, _, _, rfl, rfl, .inr rfl, .inr rfl, .inl rfl⟩, ⟨2, 1, _, _, rfl, rfl, .inr rfl, .inr rfl, .inl rfl⟩⟩

end ConcVerif.Barrier

namespace ConcVerif.Latch

/-- **Latch, release sequence of the counter.**  For any sequence of Latch-model events: every
decrement of `counter_` (a seq_cst RMW) happens before every later seq_cst load of it, because the
counter is never written by a plain store. -/
theorem C07_latch_counter (es : List (Tid × Ev)) {i j : Nat} {t u : Tid} {old v : Int} (hij : i < j)
    (hi : es[i]? = some (t, .dec old)) (hj : es[j]? = some (u, .ld v)) : HB.HB (hbTrace es) i j :=
  dec_hb_ld es hij hi hj

/-- **Latch, fast path included.**  In every trace accepted by the Latch model, when `wait` /
`arrive_and_wait` returns at `r`, the thread has loaded the counter at some `l < r` and seen `v ≤ 0`;
`start - v ≥ start` decrements precede that load and each of them happens-before the return — whatever
the arriving threads wrote before `arrive()` is visible after `wait()`, also when `wait()` took no lock. -/
theorem C07_latch_fast {start : Int} {es : List (Tid × Ev)} {s : St} (h : run start es = some s) {r : Nat} {u : Tid}
    {k : Kind} (hr : es[r]? = some (u, .ret k)) (hk : k ≠ .arrive) :
    ∃ l v, l < r ∧ es[l]? = some (u, .ld v) ∧ v ≤ 0 ∧ (start - v : Int) = decs (es.take l) ∧
      ∀ i t old, i < l → es[i]? = some (t, .dec old) → HB.HB (hbTrace es) i r :=
  latch_wait_hb h hr hk

/-- thread 2 arrives (lock, decrement, notify); thread 1 calls `wait` afterwards and returns on the
lock-free fast path -/
def hbWitness : List (Tid × Ev) :=
  [(2, .call .arrive), (2, .mlk), (2, .dec 1), (2, .ld 0), (2, .cna), (2, .mul), (2, .ret .arrive),
   (1, .call .wait), (1, .ld 0), (1, .ret .wait)]

example : ∃ s, run 1 hbWitness = some s ∧ hbWitness[9]? = some (1, .ret .wait) ∧ hbWitness[2]? = some (2, .dec 1) :=
  ⟨_, rfl, rfl, rfl⟩

end ConcVerif.Latch
