import ConcVerif.Props.C06
/-! # C20 (deferred_guarded part) — throwing user code never leaves the wrapper locked

In the model (`Model/Deferred.lean`) a task's function may throw at any point of its execution
(`uth k`, accepted in every state inside the function, before or after it has written the object),
on the direct path and inside a drain, and the copy made by `load()` may throw under the shared lock.
The theorems therefore quantify over every choice of the throwing invocation and every interleaving.
What the code does with the exception (and the model with it):
* direct path of `modify_detach`: it propagates to the caller, after `m` has been released;
* direct path of `modify_async`: it is captured in the returned future, the call returns normally;
* queued task (either kind) run by a drain: it is captured by the `packaged_task` — delivered through
  the future of a `modify_async`, dropped for a `modify_detach` — and the drain goes on with the rest
  of the batch;
* `load()`: it propagates after the shared lock has been released.
All invariants (C06, C02) are proved for traces that contain throws, so the wrapper stays usable. -/
namespace ConcVerif.Deferred

/-- When an exception reaches the caller (`exc`) the thread holds none of the wrapper's locks and is
back at rest. -/
theorem C20_deferred_unwind_releases {spur : Bool} {s s' : St} {t : Tid} (h : Reachable spur s)
    (hs : step s t .exc = some s') :
    s.mx ≠ some t ∧ t ∉ s.sh ∧ s.qm ≠ some t ∧ s'.pc t = .idle false ∧ s'.mx = s.mx ∧ s'.sh = s.sh := by
  have hL := (inv_reachable h).L
  have key : (s.pc t).holdsX = false ∧ (s.pc t).holdsS = false ∧ (s.pc t).holdsQ = false ∧
      s'.pc t = .idle false ∧ s'.mx = s.mx ∧ s'.sh = s.sh := by
    cases hp : s.pc t with
    | mRet k a thr =>
      simp [step, hp] at hs
      obtain ⟨_, hs⟩ := hs; subst hs; simp [St.setPc, Pc.holdsX, Pc.holdsS, Pc.holdsQ]
    | ldRet thr =>
      simp [step, hp] at hs
      obtain ⟨_, hs⟩ := hs; subst hs; simp [St.setPc, Pc.holdsX, Pc.holdsS, Pc.holdsQ]
    | idle hh => cases hh <;> simp [step, hp] at hs
    | _ => simp [step, hp] at hs
  obtain ⟨hX, hS, hQ, h4, h5, h6⟩ := key
  refine ⟨?_, ?_, ?_, h4, h5, h6⟩
  · intro hm; have := (hL.mxP t).1 hm; rw [hX] at this; cases this
  · intro hin; have := (hL.shP t).1 hin; rw [hS] at this; cases this
  · intro hq; have := (hL.qmP t).1 hq; rw [hQ] at this; cases this

/-- A thread at rest never holds `m` exclusively nor the queue mutex, and holds `m` shared exactly when
it owns a handle: no operation — in particular no drain, whatever threw inside it — leaves a lock
behind. -/
theorem C20_deferred_rest_holds_nothing {spur : Bool} {s : St} {t : Tid} {hh : Bool} (h : Reachable spur s)
    (hp : s.pc t = .idle hh) : s.mx ≠ some t ∧ s.qm ≠ some t ∧ (t ∈ s.sh ↔ hh = true) := by
  have hL := (inv_reachable h).L
  refine ⟨?_, ?_, ?_⟩
  · intro hm; have := (hL.mxP t).1 hm; simp [hp, Pc.holdsX] at this
  · intro hq; have := (hL.qmP t).1 hq; simp [hp, Pc.holdsQ] at this
  · rw [hL.shP t, hp]; cases hh <;> simp [Pc.holdsS]

/-- Direct path of `modify_detach`: a throw of the function leads to the release of `m` and then to
the exception at the caller — nothing else is accepted on the way. -/
theorem C20_deferred_direct_detach_propagates {s s1 : St} {t : Tid} {k : TaskId} (hp : s.pc t = .aIn k false)
    (hs : step s t (.uth k) = some s1) :
    s1.pc t = .mUnl k false true ∧ s1.mx = s.mx ∧
    (∀ e s2, step s1 t e = some s2 → e = .mul ∧ s2.mx = none ∧ s2.pc t = .mRet k false true ∧
      ∀ e' s3, step s2 t e' = some s3 → e' = .exc ∧ s3.pc t = .idle false) := by
  simp [step, hp] at hs
  subst hs
  refine ⟨by simp [St.setPc], rfl, ?_⟩
  intro e s2 hs2
  have hp1 : ({ s with out := upd s.out k (some Outcome.exc) }.setPc t (.mUnl k false true)).pc t = .mUnl k false true := by
    simp [St.setPc]
  cases e <;> simp [step, hp1] at hs2
  obtain ⟨_, hs2⟩ := hs2
  subst hs2
  refine ⟨rfl, rfl, by simp [St.setPc], ?_⟩
  intro e' s3 hs3
  have hp2 : (({ s with out := upd s.out k (some Outcome.exc) }.setPc t (.mUnl k false true)).setPc t
      (.mRet k false true)).pc t = .mRet k false true := by simp [St.setPc]
  generalize hgen : ({ s with out := upd s.out k (some Outcome.exc) }.setPc t (.mUnl k false true)) = sa at hs3 hp2
  have hp3 : ({ sa with mx := none }.setPc t (.mRet k false true)).pc t = .mRet k false true := by simp [St.setPc]
  cases e' <;> simp [step, hp3] at hs3
  subst hs3
  exact ⟨rfl, by simp [St.setPc]⟩

/-- Direct path of `modify_async`: the exception is captured in the future (`out k = exc`), the lock
is released next and the call returns normally. -/
theorem C20_deferred_direct_async_captures {s s1 : St} {t : Tid} {k : TaskId} (hp : s.pc t = .aIn k true)
    (hs : step s t (.uth k) = some s1) :
    s1.out k = some .exc ∧ s1.pc t = .mUnl k true false ∧
    (∀ e s2, step s1 t e = some s2 → e = .mul ∧ s2.mx = none ∧ s2.pc t = .mRet k true false) := by
  simp [step, hp] at hs
  subst hs
  refine ⟨by simp [St.setPc, upd], by simp [St.setPc], ?_⟩
  intro e s2 hs2
  have hp1 : ({ s with out := upd s.out k (some Outcome.exc) }.setPc t (.mUnl k true false)).pc t = .mUnl k true false := by
    simp [St.setPc]
  cases e <;> simp [step, hp1] at hs2
  obtain ⟨_, hs2⟩ := hs2
  subst hs2
  exact ⟨rfl, rfl, by simp [St.setPc]⟩

/-- A queued task that throws inside a drain: the exception is captured (`out j = exc`: delivered by
the future of a `modify_async`, dropped for a `modify_detach`), the drainer still holds `m`, the rest
of the batch is untouched and the loop goes on. -/
theorem C20_deferred_queued_captures {s s1 : St} {t : Tid} {c : Ctx} {j : TaskId} (hp : s.pc t = .dIn c j)
    (hs : step s t (.uth j) = some s1) :
    s1.out j = some .exc ∧ s1.pc t = .dRun c ∧ s1.batch = s.batch ∧ s1.queue = s.queue ∧ s1.mx = s.mx ∧
      s1.applied = s.applied := by
  simp [step, hp] at hs
  subst hs
  simp [St.setPc, upd]

/-- The drain loop never gives `m` back with tasks left in its batch: `m` is released only when the
batch is empty (no task is lost by an exception in an earlier one). -/
theorem C20_deferred_release_after_batch {spur : Bool} {s s' : St} {t : Tid} (h : Reachable spur s)
    (hs : step s t .mul = some s') : s.batch = [] ∧ s.mx = some t ∧ s'.mx = none := by
  have hI := inv_reachable h
  cases hp : s.pc t with
  | dRun c =>
    cases c with
    | mod k a => simp [step, hp] at hs
    | sh c' =>
      simp [step, hp] at hs
      obtain ⟨⟨hb, hm⟩, hs⟩ := hs
      subst hs; exact ⟨hb, hm, rfl⟩
  | mUnl k a thr =>
    simp [step, hp] at hs
    obtain ⟨hm, hs⟩ := hs
    subst hs
    exact ⟨hI.C.no_batch_unless (t := t) (Or.inr ⟨hm, by simp [hp, Pc.runs]⟩), hm, rfl⟩
  | idle hh => cases hh <;> simp [step, hp] at hs
  | _ => simp [step, hp] at hs

/-- `load()`: a throwing copy is followed by the release of the shared lock, then by the exception. -/
theorem C20_deferred_load_throw {s s1 : St} {t : Tid} {n : TaskId} (hp : s.pc t = .ldHold false)
    (hs : step s t (.uth n) = some s1) :
    s1.pc t = .ldHold true ∧ s1.sh = s.sh ∧
    (∀ e s2, step s1 t e = some s2 → (∃ v, e = .prd v) ∨ (e = .sul ∧ s2.pc t = .ldRet true ∧ s2.sh = s.sh.erase t)) := by
  simp [step, hp] at hs
  subst hs
  refine ⟨by simp [St.setPc], rfl, ?_⟩
  intro e s2 hs2
  have hp1 : (s.setPc t (.ldHold true)).pc t = .ldHold true := by simp [St.setPc]
  cases e <;> simp [step, hp1] at hs2
  · obtain ⟨_, hs2⟩ := hs2; subst hs2; exact Or.inr ⟨rfl, by simp [St.setPc], rfl⟩
  · exact Or.inl ⟨_, rfl⟩

/-- The wrapper stays usable: once nobody holds `m` (e.g. after the exceptional exits above) every
acquisition is enabled again — exclusive try-locks succeed, blocked `lock_shared` proceed. -/
theorem C20_deferred_usable_after {s : St} {u : Tid} (hm : s.mx = none) (hsh : s.sh = []) :
    (∀ k a, s.pc u = .mTry k a → (step s u (.mtl true)).isSome = true) ∧
    (∀ c, s.pc u = .sTry c → (step s u (.mtl true)).isSome = true) ∧
    (s.pc u = .sAcq (.acq .block) → (step s u .slk).isSome = true) := by
  refine ⟨?_, ?_, ?_⟩
  · intro k a hp; simp [step, hp, St.tryX, hm, hsh]
  · intro c hp; simp [step, hp, St.tryX, hm, hsh]
  · intro hp; simp [step, hp, hm]

/-! Non-vacuity: a direct `modify_detach` whose function throws after having written (thread 1, exception
at the caller); a reader parks; a queued `modify_detach` and a queued `modify_async` whose functions
throw; the drain by `try_lock_shared` of thread 3 captures both, applies the third task and releases. -/
example : ∃ s, Reachable false s ∧ s.applied = [1, 2, 3, 4] ∧ s.mx = none ∧ s.qm = none ∧ s.sh = [3] ∧ s.val = 22 ∧
    s.out 1 = some .exc ∧ s.out 2 = some .exc ∧ s.out 3 = some .exc ∧ s.out 4 = some (.val 22) ∧ s.pc 1 = .idle false :=
  ⟨_, ⟨[(1, .callMod 1 false), (1, .mtl true), (1, .fld false), (1, .ucb 1), (1, .prd 0), (1, .pwr 1), (1, .uth 1),
        (1, .mul), (1, .exc),
        (2, .callSh .block), (2, .fld false), (2, .slk), (2, .got true),
        (1, .callMod 2 false), (1, .mtl false), (1, .qlk), (1, .qul), (1, .fst true), (1, .ret),
        (1, .callMod 3 true), (1, .mtl false), (1, .qlk), (1, .qul), (1, .fst true), (1, .ret),
        (1, .callMod 4 true), (1, .mtl false), (1, .qlk), (1, .qul), (1, .fst true), (1, .ret),
        (2, .sul),
        (3, .callSh .try_), (3, .fld true), (3, .mtl true), (3, .fld true), (3, .fst false), (3, .qlk), (3, .qul),
        (3, .ucb 2), (3, .uth 2), (3, .ucb 3), (3, .prd 1), (3, .pwr 6), (3, .uth 3),
        (3, .ucb 4), (3, .prd 6), (3, .pwr 22), (3, .uce 4 22), (3, .mul), (3, .stl true), (3, .got true),
        (1, .fpoll 3 true), (1, .fget 3 .exc), (1, .fget 4 (.val 22))], rfl⟩,
   rfl, rfl, rfl, rfl, rfl, rfl, rfl, rfl, rfl, rfl⟩

end ConcVerif.Deferred
