import ConcVerif.Proof.RcuSorted
import ConcVerif.Proof.RcuSer
import ConcVerif.Proof.RcuVal
/-! # C12 — rcu_list traversals are consistent and writers are serialised

Model `Model/Rcu.lean` (any number of reader / writer threads, any client program, any interleaving).  `order` is the
model's ghost list of every node ever linked, in list order; `lst` is the ghost list of the currently linked nodes.
Two sets of history variables are added *outside* the model (they never block a step: `reachableH_fst / reachableH_of`,
`reachableW_fst / reachableW_of`):

* per thread, `base t` = the linked nodes at the moment its current traversal called `begin`, `seen t` = the nodes its
  iterator has pointed to since (newest first);
* `ncs` = number of acquisitions of the write mutex, `hist` = the mutations of the linked list, each tagged with the
  number of the critical section it happened in.

**Traversal** (DESIGN §8.C12 `C12_traversal`, from N1 / N2)
* `C12_traversal_sorted` — the visited nodes are strictly increasing in `order`: list order; `C12_traversal_nodup` — no
  node is visited twice; `C12_traversal_inserted`, `C12_order_grows`, `C12_value_stable`, `C12_deref_value` — only nodes
  that a `push` linked, whose value is the one that `push` was called with, and `*it` returns that value;
* `C12_traversal_begin` — a traversal starts at the first linked node; `C12_traversal_noskip`,
  `C12_traversal_complete` — a node linked when the traversal began and still linked (`C12_no_relink`: hence linked
  all the time) has been visited or is still ahead of the iterator; all of them are visited when the iterator reaches
  the end;
* `C12_list_order`, `C12_next_forward`, `C12_visible_list` — the structure behind it: the linked nodes are a sublist of
  `order`, every `next` pointer (also of an unlinked node) points strictly forward, and what a reader can walk from
  `head` is exactly `lst`.

**Writers** (`C12_serial`)
* `C12_mutex_events`, `C12_writer_unique` — `mlk` / `mul` bracket critical sections, at most one thread is inside;
* `C12_mutation_by_holder` — until the destructor runs, the linked list changes only by a step of the mutex holder and
  then by exactly one `push_front / push_back / erase` of the sequential reference (`applyW` on a `List`);
* `C12_serial`, `C12_serial_order`, `C12_push_linearised`, `C12_mutation_logged` — the linked list is the result of
  executing the logged mutations one after the other on the empty list; they are logged in acquisition order, at most
  one per critical section; a `push` that reaches its unlock, and an `erase` of a not yet erased node after its
  unlinking store, has logged exactly its own. -/
namespace ConcVerif.Rcu

/-! ## Traversal -/

/-- The nodes a traversal has visited (newest first) are strictly increasing in list order. -/
theorem C12_traversal_sorted {s : St} {g : Gh} (h : ReachableH (s, g)) (t : Tid) :
    (g.seen t).Pairwise (fun newer older => newer ∈ Below s.order older) :=
  (invT_reachable h).h.sorted t

/-- No node is visited twice. -/
theorem C12_traversal_nodup {s : St} {g : Gh} (h : ReachableH (s, g)) (t : Tid) : (g.seen t).Nodup := by
  have hi := invT_reachable h
  have hond : s.order.Nodup := hi.x.i.c.ordNd
  refine (hi.h.sorted t).imp ?_
  intro a b hab e
  subst e
  exact not_mem_below_self hond hab

/-- Only nodes that were linked into the list are visited. -/
theorem C12_traversal_inserted {s : St} {g : Gh} (h : ReachableH (s, g)) {t : Tid} {c : Nat} (hc : c ∈ g.seen t) :
    c ∈ s.order :=
  (invT_reachable h).h.seenOrd t c hc

/-- The iterator's node is the newest visited node. -/
theorem C12_traversal_current {s : St} {g : Gh} (h : ReachableH (s, g)) {t : Tid} {c : Nat}
    (hc : s.it t = some (some c)) : (g.seen t).head? = some c :=
  (invT_reachable h).h.hd t c hc

/-- `begin` starts the traversal at the first linked node (or at the end if the list is empty). -/
theorem C12_traversal_begin {s s' : St} {g g' : Gh} {t : Tid} {o : Ord} {v : Option Nat} (h : ReachableH (s, g))
    (hs : stepH (s, g) t (.ald .head o v) = some (s', g')) (hpc : s.pc t = .called .beg) :
    v = s.lst.head? ∧ s'.it t = some v ∧ g'.base t = s.lst ∧ g'.seen t = v.toList := by
  have hi := invT_reachable h
  simp only [stepH] at hs
  cases h1 : step s t (.ald .head o v) with
  | none => rw [h1] at hs; cases hs
  | some s1 =>
    rw [h1] at hs; simp at hs
    obtain ⟨rfl, rfl⟩ := hs
    have hS := step_sound h1
    cases hS with
    | dtorHead o hpc' ho => rw [hpc] at hpc'; cases hpc'
    | beg w r o hpc' hh ho =>
      have hdt := dt_false_of_hnd hi.x.i.a (t := t) (by rw [hh]; simp)
      have hhd : s.head = s.lst.head? := hi.x.i.c.hd hdt
      refine ⟨hhd, by simp, ?_, ?_⟩ <;> simp [ghUpd, hpc]
    | pLoadFrontNone em x n o hpc' ho hv => rw [hpc] at hpc'; cases hpc'
    | pLoadFrontSome em x n h0 o hpc' ho hv => rw [hpc] at hpc'; cases hpc'

/-- Mid-traversal: a node that was linked at `begin` and is still linked has been visited or is still ahead. -/
theorem C12_traversal_noskip {s : St} {g : Gh} (h : ReachableH (s, g)) {t : Tid} {c y : Nat}
    (hc : s.it t = some (some c)) (hb : y ∈ g.base t) (hl : y ∈ s.lst) : y ∈ g.seen t ∨ y ∈ Below s.order c := by
  have hi := invT_reachable h
  rcases hi.g.noskip t (by rw [hc]; simp) y hb hl with f | ⟨c', f1, f2⟩
  · exact Or.inl f
  · rw [hc] at f1; injection f1 with f1; injection f1 with f1; subst f1
    rcases reach_below hi.f hi.x.i.c.ordNd (hi.x.i.c.itv t c hc) f2 with e | e
    · left; rw [e]; exact hi.g.cursorSeen t c hc
    · exact Or.inr e

/-- A complete traversal has visited every node that was linked when it began and is still linked. -/
theorem C12_traversal_complete {s : St} {g : Gh} (h : ReachableH (s, g)) {t : Tid} {y : Nat}
    (hend : s.it t = some none) (hb : y ∈ g.base t) (hl : y ∈ s.lst) : y ∈ g.seen t := by
  have hi := invT_reachable h
  rcases hi.g.noskip t (by rw [hend]; simp) y hb hl with f | ⟨c', f1, _⟩
  · exact f
  · rw [hend] at f1; cases f1

/-- An unlinked node never comes back: "linked at `begin` and linked now" means linked all the time. -/
theorem C12_no_relink {s s' : St} {t : Tid} {e : Ev} {y : Nat} (h : Reachable s) (hs : step s t e = some s')
    (hy : y ∈ s.order) (hn : y ∉ s.lst) : y ∉ s'.lst := by
  have hi := inv_reachable h
  have wr := hi.c.wr t
  simp only [cview_vpc] at wr
  have hS := step_sound hs
  cases hS
  all_goals (try (exact hn))
  case pE1 k n o hpc ho =>
    rw [hpc] at wr; simp only [CView, WriterP, FreshN, cview_order] at wr
    intro hm; rcases List.mem_cons.1 hm with e | e
    · subst e; exact wr.1.1 hy
    · exact hn e
  case pF3 k n o hpc ho =>
    rw [hpc] at wr; simp only [CView, WriterP, FreshN, cview_order] at wr
    obtain ⟨h0, hfr, _⟩ := wr
    intro hm; rcases List.mem_cons.1 hm with e | e
    · subst e; exact hfr.1 hy
    · exact hn e
  case pB2 k n h0 o hpc ho =>
    rw [hpc] at wr; simp only [CView, WriterP, FreshN, cview_order] at wr
    intro hm; rcases List.mem_append.1 hm with e | e
    · exact hn e
    · simp at e; subst e; exact wr.1.1 hy
  case eUnlPrev c orig pp x o hpc ho => intro hm; exact hn (List.mem_of_mem_erase hm)
  case eUnlHead c orig x o hpc ho => intro hm; exact hn (List.mem_of_mem_erase hm)
  case dFreN m nx hpc =>
    intro hm
    have : y ∈ s.lst.erase m := by cases nx <;> exact hm
    exact hn (List.mem_of_mem_erase this)
  all_goals (simp only [St.dNodeAt, St.dRecAt, St.reapAt]; split <;> exact hn)

/-- `order` grows only by the linking store of a `push` inside its critical section: the new node is the one this
`push` constructed, it carries the value the `push` was called with, and it goes to the front or to the back. -/
theorem C12_order_grows {s s' : St} {t : Tid} {e : Ev} (h : Reachable s) (hs : step s t e = some s') :
    s'.order = s.order ∨ ∃ x n, pushNode (s.pc t) = some (x, n) ∧ (s.nodes n).val = x ∧ n ∉ s.order ∧
      s.wmtx = some t ∧ (s'.order = n :: s.order ∨ s'.order = s.order ++ [n]) := by
  have hi := inv_reachable h
  have hv := invV_reachable h
  have wr := hi.c.wr t
  simp only [cview_vpc] at wr
  have hk := hi.a.opk t
  have hS := step_sound hs
  cases hS
  all_goals (try (exact Or.inl rfl))
  case pE1 k n o hpc ho =>
    right
    rw [hpc] at wr hk; simp only [CView, WriterP, FreshN, cview_order] at wr
    cases k <;> simp [opOk, Op.isPush] at hk
    rename_i f em x
    have hp : pushNode (s.pc t) = some (x, n) := by rw [hpc]; rfl
    exact ⟨x, n, hp, hv t x n hp, wr.1.1, (hi.a.wm t).1 (by rw [hpc]; rfl), Or.inl rfl⟩
  case pF3 k n o hpc ho =>
    right
    rw [hpc] at wr hk; simp only [CView, WriterP, FreshN, cview_order] at wr
    obtain ⟨h0, hfr, _⟩ := wr
    cases k <;> simp [opOk, Op.isPush] at hk
    rename_i f em x
    have hp : pushNode (s.pc t) = some (x, n) := by rw [hpc]; rfl
    exact ⟨x, n, hp, hv t x n hp, hfr.1, (hi.a.wm t).1 (by rw [hpc]; rfl), Or.inl rfl⟩
  case pB2 k n h0 o hpc ho =>
    right
    rw [hpc] at wr hk; simp only [CView, WriterP, FreshN, cview_order] at wr
    cases k <;> simp [opOk, Op.isPush] at hk
    rename_i f em x
    have hp : pushNode (s.pc t) = some (x, n) := by rw [hpc]; rfl
    exact ⟨x, n, hp, hv t x n hp, wr.1.1, (hi.a.wm t).1 (by rw [hpc]; rfl), Or.inr rfl⟩
  all_goals (left; simp only [St.dNodeAt, St.dRecAt, St.reapAt]; split <;> rfl)

/-- The value of a node that was ever linked never changes. -/
theorem C12_value_stable {s s' : St} {t : Tid} {e : Ev} {n : Nat} (h : Reachable s) (hs : step s t e = some s')
    (hn : n ∈ s.order) : (s'.nodes n).val = (s.nodes n).val := by
  have hi := inv_reachable h
  rcases val_step (step_sound hs) n with v | ⟨f, em, x, v1, _⟩
  · exact v
  · exfalso
    have wr := hi.c.wr t
    simp only [cview_vpc] at wr
    rw [v1] at wr; simp only [CView, WriterP, cview_order] at wr
    exact wr.1 hn

/-- `*it` reads the value of the iterator's node. -/
theorem C12_deref_value {s s' : St} {t : Tid} {n : Nat} {v : Int} (hs : step s t (.pldData n v) = some s') :
    s.it t = some (some n) ∧ v = (s.nodes n).val := by
  have hS := step_sound hs
  cases hS with
  | der w r n hpc hh hi => exact ⟨hi, rfl⟩

/-- The linked nodes are a sublist of `order` (which has no duplicates): sorted in `order` = list order. -/
theorem C12_list_order {s : St} (h : Reachable s) : s.lst.Sublist s.order ∧ s.order.Nodup :=
  ⟨(invF_reachable h).subl, (inv_reachable h).c.ordNd⟩

/-- Every `next` pointer — also that of an unlinked node — points strictly forward in `order`. -/
theorem C12_next_forward {s : St} (h : Reachable s) {c x : Nat} (hc : c ∈ s.order) (hn : (s.nodes c).next = some x) :
    x ∈ Below s.order c :=
  (invF_reachable h).fwd c hc x hn

/-- What a reader can walk from `head` along `next` is exactly the list `lst` (until the destructor runs). -/
theorem C12_visible_list {s : St} (h : Reachable s) (hdt : s.dt = false) :
    s.head = s.lst.head? ∧ ∀ a ∈ s.lst, (s.nodes a).next = (Below s.lst a).head? :=
  ⟨(inv_reachable h).c.hd hdt, (inv_reachable h).c.nx⟩

/-! ## Writers -/

/-- `mlk` is accepted only while the write mutex is free and gives it to the caller; `mul` only from the holder; no
other event changes the holder. -/
theorem C12_mutex_events {s s' : St} {t : Tid} {e : Ev} (hs : step s t e = some s') :
    (e = .mlk → s.wmtx = none ∧ s'.wmtx = some t) ∧ (e = .mul → s.wmtx = some t ∧ s'.wmtx = none) ∧
      (e ≠ .mlk → e ≠ .mul → s'.wmtx = s.wmtx) := by
  have hS := step_sound hs
  cases hS
  all_goals (try (refine ⟨fun h => ?_, fun h => ?_, fun _ _ => rfl⟩ <;> cases h; done))
  all_goals (try (refine ⟨fun h => ?_, fun h => ?_, fun h1 h2 => ?_⟩ <;> first | (cases h; done) | (exact absurd rfl h1) | (exact absurd rfl h2) | (refine ⟨?_, ?_⟩ <;> first | assumption | rfl); done))
  all_goals (refine ⟨fun h => ?_, fun h => ?_, fun _ _ => ?_⟩ <;> first | (cases h; done) | (simp only [St.dNodeAt, St.dRecAt, St.reapAt]; split <;> rfl))

/-- At most one thread is inside a critical section of the write mutex. -/
theorem C12_writer_unique {s : St} (h : Reachable s) {t u : Tid} (ht : holdsW (s.pc t) = true)
    (hu : holdsW (s.pc u) = true) : t = u := by
  have hi := inv_reachable h
  have a := (hi.a.wm t).1 ht
  have b := (hi.a.wm u).1 hu
  rw [a] at b; injection b

/-- Until the destructor runs, the linked list changes only by a step of the thread that holds the write mutex, and then
by exactly one mutation of the sequential reference list. -/
theorem C12_mutation_by_holder {s s' : St} {t : Tid} {e : Ev} (h : Reachable s) (hs : step s t e = some s')
    (hdt : s.dt = false) (hne : s'.lst ≠ s.lst) :
    s.wmtx = some t ∧ ∃ op, linOf (s.pc t) = some op ∧ s'.lst = applyW s.lst op := by
  have hi := inv_reachable h
  have wr := hi.c.wr t
  simp only [cview_vpc] at wr
  have hS := step_sound hs
  cases hS
  all_goals (try (exact absurd rfl hne))
  case pE1 k n o hpc ho =>
    rw [hpc] at wr; simp only [CView, WriterP, cview_lst] at wr
    refine ⟨(hi.a.wm t).1 (by rw [hpc]; rfl), _, by rw [hpc]; rfl, ?_⟩
    simp only [setPc_lst]; rw [wr.2.1]; split <;> rfl
  case pF3 k n o hpc ho => exact ⟨(hi.a.wm t).1 (by rw [hpc]; rfl), _, by rw [hpc]; rfl, rfl⟩
  case pB2 k n h0 o hpc ho => exact ⟨(hi.a.wm t).1 (by rw [hpc]; rfl), _, by rw [hpc]; rfl, rfl⟩
  case eUnlPrev c orig pp x o hpc ho => exact ⟨(hi.a.wm t).1 (by rw [hpc]; rfl), _, by rw [hpc]; rfl, rfl⟩
  case eUnlHead c orig x o hpc ho => exact ⟨(hi.a.wm t).1 (by rw [hpc]; rfl), _, by rw [hpc]; rfl, rfl⟩
  case dFreN m nx hpc =>
    have := hi.a.dtd t (by rw [hpc]; rfl)
    rw [hdt] at this; cases this
  all_goals (exfalso; apply hne; simp only [St.dNodeAt, St.dRecAt, St.reapAt]; split <;> rfl)

/-- The linked list is what the logged mutations produce when executed one after the other, in the order in which
they were logged, on the empty sequential reference list. -/
theorem C12_serial {s : St} {w : Wh} (h : ReachableW (s, w)) (hdt : s.dt = false) : s.lst = seqOf w.hist :=
  (invW_reachable h).seq hdt

/-- The mutations are logged in the order in which their critical sections acquired the mutex, at most one per
critical section. -/
theorem C12_serial_order {s : St} {w : Wh} (h : ReachableW (s, w)) :
    w.hist.Pairwise (fun a b => a.1 < b.1) ∧ ∀ x ∈ w.hist, x.1 ≤ w.ncs := by
  have hi := invW_reachable h
  exact ⟨hi.tags, hi.le⟩

/-- A `push` that reaches the release of the mutex has performed its mutation in this critical section. -/
theorem C12_push_linearised {s : St} {w : Wh} (h : ReachableW (s, w)) {t : Tid} {k : Op} (hp : s.pc t = .pUnlock k) :
    ∃ x ∈ w.hist, x.1 = w.ncs :=
  (invW_reachable h).done t (by rw [hp]; rfl)

/-- More generally: a `push` after its linking store, and an `erase` that found its node not yet erased, after its
unlinking store (`pushDone`: the pcs from there up to the release of the mutex), has logged its mutation in this
critical section. -/
theorem C12_mutation_logged {s : St} {w : Wh} (h : ReachableW (s, w)) {t : Tid} (hp : pushDone (s.pc t) = true) :
    ∃ x ∈ w.hist, x.1 = w.ncs :=
  (invW_reachable h).done t hp

/-! ## Non-vacuity: a real trace (harness seed 201, sticky-random scheduler) of
`int-d;lw,pb=1,pb=2,pb=3,rel,lw,eri=1,rel;lr,all,rel`.  The reader (thread 2) starts while the third push is
still running and sits on node `N1` while the writer (thread 1) erases it. -/
def witness12 : List (Tid × Ev) :=
  [(2, .call (.lock false)),
   (2, .ret (.lock false)),
   (2, .call .beg),
   (2, .alo true 0),
   (2, .pstZn 0 true),
   (2, .conR 0 (some 2) none),
   (2, .ald .zhead .rlx none),
   (1, .call (.lock true)),
   (1, .ret (.lock true)),
   (1, .call (.push false false 1)),
   (1, .alo true 1),
   (1, .pstZn 1 true),
   (1, .conR 1 (some 1) none),
   (1, .ald .zhead .rlx none),
   (1, .ast (.rnext 1) .rlx none),
   (1, .cas .sc none (some 1) true none),
   (1, .mlk),
   (1, .alo false 0),
   (1, .pstDel 0 false),
   (1, .pstData 0 1),
   (1, .conN 0 1),
   (1, .ald .tail .rlx none),
   (1, .ast .head .sc (some 0)),
   (1, .ast .tail .sc (some 0)),
   (1, .mul),
   (1, .ret (.push false false 1)),
   (1, .call (.push false false 2)),
   (1, .mlk),
   (1, .alo false 1),
   (1, .pstDel 1 false),
   (1, .pstData 1 2),
   (1, .conN 1 2),
   (1, .ald .tail .rlx (some 0)),
   (1, .ast (.nback 1) .sc (some 0)),
   (1, .ast (.nnext 0) .sc (some 1)),
   (1, .ast .tail .sc (some 1)),
   (1, .mul),
   (1, .ret (.push false false 2)),
   (1, .call (.push false false 3)),
   (1, .mlk),
   (1, .alo false 2),
   (1, .pstDel 2 false),
   (1, .pstData 2 3),
   (1, .conN 2 3),
   (1, .ald .tail .rlx (some 1)),
   (2, .ast (.rnext 0) .rlx none),
   (2, .cas .sc none (some 0) false (some 1)),
   (2, .ast (.rnext 0) .rlx (some 1)),
   (2, .cas .sc (some 1) (some 0) true (some 1)),
   (2, .ald .head .sc (some 0)),
   (2, .ret .beg),
   (2, .call .der),
   (2, .pldData 0 1),
   (2, .ret .der),
   (2, .call .nxt),
   (1, .ast (.nback 2) .sc (some 1)),
   (1, .ast (.nnext 1) .sc (some 2)),
   (1, .ast .tail .sc (some 2)),
   (1, .mul),
   (1, .ret (.push false false 3)),
   (1, .call .rel),
   (1, .ald (.rnext 1) .sc none),
   (1, .ast (.rnext 1) .sc none),
   (1, .ast (.rowner 1) .sc none),
   (1, .ret .rel),
   (1, .call (.lock true)),
   (1, .ret (.lock true)),
   (1, .call .beg),
   (1, .alo true 2),
   (1, .pstZn 2 true),
   (1, .conR 2 (some 1) none),
   (1, .ald .zhead .rlx (some 0)),
   (2, .ald (.nnext 0) .sc (some 1)),
   (2, .ret .nxt),
   (2, .call .der),
   (2, .pldData 1 2),
   (2, .ret .der),
   (2, .call .nxt),
   (1, .ast (.rnext 2) .rlx (some 0)),
   (1, .cas .sc (some 0) (some 2) true (some 0)),
   (1, .ald .head .sc (some 0)),
   (1, .ret .beg),
   (1, .call .nxt),
   (1, .ald (.nnext 0) .sc (some 1)),
   (1, .ret .nxt),
   (1, .call (.erase true)),
   (1, .mlk),
   (1, .ald (.nnext 1) .sc (some 2)),
   (1, .pldDel 1 false),
   (1, .alo true 3),
   (1, .pstZn 3 false),
   (1, .conR 3 none (some 1)),
   (1, .pstDel 1 true),
   (1, .ald (.nback 1) .sc (some 0)),
   (1, .ald (.nnext 1) .sc (some 2)),
   (1, .ast (.nnext 0) .sc (some 2)),
   (1, .ast (.nback 2) .sc (some 0)),
   (1, .ald .zhead .sc (some 2)),
   (1, .ast (.rnext 3) .sc (some 2)),
   (1, .cas .sc (some 2) (some 3) true (some 2)),
   (1, .mul),
   (1, .ret (.erase true)),
   (1, .call .rel),
   (1, .ald (.rnext 2) .sc (some 0)),
   (1, .ald (.rowner 0) .sc (some 2)),
   (1, .ast (.rowner 2) .sc none),
   (1, .ret .rel),
   (2, .ald (.nnext 1) .sc (some 2)),
   (2, .ret .nxt),
   (2, .call .der),
   (2, .pldData 2 3),
   (2, .ret .der),
   (2, .call .nxt),
   (2, .ald (.nnext 2) .sc none),
   (2, .ret .nxt),
   (2, .call .rel),
   (2, .ald (.rnext 0) .sc (some 1)),
   (2, .ald (.rowner 1) .sc none),
   (2, .ald (.rnext 1) .sc none),
   (2, .pldZn 1 true),
   (2, .ald (.rnext 1) .sc none),
   (2, .des true 1),
   (2, .fre true 1),
   (2, .ast (.rnext 0) .sc none),
   (2, .ast (.rowner 0) .sc none),
   (2, .ret .rel),
   (0, .call .dtor),
   (0, .ald .head .sc (some 0)),
   (0, .ald (.nnext 0) .sc (some 2)),
   (0, .des false 0),
   (0, .fre false 0),
   (0, .ald (.nnext 2) .sc none),
   (0, .des false 2),
   (0, .fre false 2),
   (0, .ald .zhead .sc (some 3)),
   (0, .ald (.rowner 3) .sc none),
   (0, .ald (.rnext 3) .sc (some 2)),
   (0, .pldZn 3 false),
   (0, .des false 1),
   (0, .pldZn 3 false),
   (0, .fre false 1),
   (0, .des true 3),
   (0, .fre true 3),
   (0, .ald (.rowner 2) .sc none),
   (0, .ald (.rnext 2) .sc (some 0)),
   (0, .pldZn 2 true),
   (0, .des true 2),
   (0, .fre true 2),
   (0, .ald (.rowner 0) .sc none),
   (0, .ald (.rnext 0) .sc none),
   (0, .pldZn 0 true),
   (0, .des true 0),
   (0, .fre true 0),
   (0, .ret .dtor)]

/-- the writer's `erase` has returned; the reader still stands on the unlinked node 1; node 2 is still ahead -/
example : ∃ s g, ReachableH (s, g) ∧ s.it 2 = some (some 1) ∧ s.lst = [0, 2] ∧ s.order = [0, 1, 2] ∧
    g.base 2 = [0, 1] ∧ g.seen 2 = [1, 0] ∧ 2 ∈ Below s.order 1 :=
  ⟨_, _, ⟨witness12.take 102, rfl⟩, by decide, by decide, by decide, by decide, by decide, by decide⟩

/-- the reader has reached the end: it visited 0, the erased 1, and 2 (which was pushed after the traversal began) -/
example : ∃ s g, ReachableH (s, g) ∧ s.it 2 = some none ∧ s.lst = [0, 2] ∧ g.base 2 = [0, 1] ∧ g.seen 2 = [2, 1, 0] :=
  ⟨_, _, ⟨witness12.take 114, rfl⟩, by decide, by decide, by decide, by decide⟩

/-- four critical sections, four mutations, and the list they produce -/
example : ∃ s w, ReachableW (s, w) ∧ w.ncs = 4 ∧ w.hist = [(1, .back 0), (2, .back 1), (3, .back 2), (4, .erase 1)] ∧
    s.lst = [0, 2] ∧ s.dt = false :=
  ⟨_, _, ⟨witness12.take 114, rfl⟩, by decide, by decide, by decide, by decide⟩

/-- the whole run, including the list destructor, is accepted -/
example : (run witness12).isSome = true := by decide +kernel

end ConcVerif.Rcu
