import ConcVerif.Proof.Barrier
import ConcVerif.Proof.BarrierLive
import ConcVerif.Proof.BarrierCalls
/-! # C09 — Barrier releases a generation only when every participant has arrived

All statements are over `Reachable P s`: every accepted event sequence of the model in
`Model/Barrier.lean` started with an arbitrary duplicate-free list `P` of participating threads
(`Barrier(P.length)`): any number of participants, any number of generations, any interleaving, any
subset dropping out (`wait_and_drop`) at any generation, any number of spurious wake-ups.  No bound.

Vocabulary (ghost fields of the model): `s.arr t` = number of arrivals thread `t` has made (calls of
`wait`/`wait_and_drop` whose `--count_` has been executed); `s.parts` = current participants = `P`
minus the threads whose `wait_and_drop` arrival has been counted (`C09_parts_change`);
`s.pending` = current participants that have not yet arrived in the current generation.
A thread in the wait loop (`Pc.waiting`: inside `cv.wait` or just woken) is *released* when the
predicate of the real `cv.wait(lck, pred)` is true: `s.generation ≠ s.lGen t`. -/
namespace ConcVerif.Barrier

/-! ## C09_release_iff — return from the n-th arrival ⇔ every current participant arrived n times -/

/-- Soundness of a return: when a thread returns from its n-th arrival (`n = s.arr t`) the barrier
has completed generation n and every current participant has arrived at least n times. -/
theorem C09_return_sound {P : List Tid} (hP : P.Nodup) {s s' : St} {t : Tid} {k : Kind}
    (h : Reachable P s) (hs : step s t (.ret k) = some s') :
    s.arr t ≤ s.generation ∧ ∀ u, u ∈ s.parts → s.arr t ≤ s.arr u := by
  have hi := inv_reachable hP h
  have hd : s.arr t ≤ s.generation := by
    cases hp : s.pc t <;> simp [step, hp] at hs
    exact hi.done t (by simp [hp, Pc.done])
  refine ⟨hd, fun u hu => ?_⟩
  have := hi.arrP u hu
  omega

/-- The wait-loop predicate is exactly the property: a thread that has made its n-th arrival and is in
the wait loop is released (`generation ≠ lGen`, the only condition under which the model lets it
leave the loop, see `C09_leave_only_released`) if and only if every current participant has made its
n-th arrival. -/
theorem C09_release_iff {P : List Tid} (hP : P.Nodup) {s : St} {t : Tid} (h : Reachable P s)
    (hw : (s.pc t).waiting = true) :
    s.generation ≠ s.lGen t ↔ ∀ u, u ∈ s.parts → s.arr t ≤ s.arr u := by
  have hi := inv_reachable hP h
  have hg := hi.waitg t hw
  constructor
  · intro hne u hu
    have := hi.arrP u hu
    omega
  · intro hall heq
    have hne := hi.live t hw heq.symm
    cases hq : s.pending with
    | nil => exact hne hq
    | cons u rest =>
      have hup : u ∈ s.pending := by simp [hq]
      have h1 := hall u (hi.sub u hup)
      have h2 := hi.arrP u (hi.sub u hup)
      simp [hup] at h2
      omega

/-- the wait loop is left (`mul` after a wake-up) only by a released thread, and a released thread
never re-enters `cv.wait` -/
theorem C09_leave_only_released {s s' : St} {t : Tid} {k : Kind} {e : Ev} (hp : s.pc t = .woken k)
    (hs : step s t e = some s') :
    (e = .plain ∧ s' = s) ∨ (∃ o, e = .mul o ∧ s.generation ≠ s.lGen t ∧ s'.pc t = .unlocked k) ∨
    (∃ o, e = .cwt o ∧ s.generation = s.lGen t ∧ s'.pc t = .sleep k) := by
  cases e <;> simp [step, hp] at hs
  · exact Or.inl ⟨rfl, hs.2.symm⟩
  · rename_i o; obtain ⟨hc, hs⟩ := hs; subst hs
    exact Or.inr (Or.inr ⟨o, rfl, hc.2.1, by simp⟩)
  · rename_i o; obtain ⟨hc, hs⟩ := hs; subst hs
    exact Or.inr (Or.inl ⟨o, rfl, hc.2.1, by simp⟩)

/-- A generation is released exactly by the arrival of the LAST pending participant: at a
`notify_all` every other current participant has already arrived in this generation; afterwards every
remaining participant has arrived exactly `generation` times, the count is reset to the number of
remaining participants and the wait set is empty. -/
theorem C09_release_complete {P : List Tid} (hP : P.Nodup) {s s' : St} {t : Tid} (h : Reachable P s)
    (hs : step s t .cna = some s') :
    s.pending = [t] ∧ s.arr t = s.generation ∧ (∀ u, u ∈ s.parts → u ≠ t → s.arr u = s.generation + 1) ∧
    s'.generation = s.generation + 1 ∧ (∀ u, u ∈ s'.parts → s'.arr u = s'.generation) ∧
    s'.count = s'.parts.length ∧ s'.pending = s'.parts ∧ s'.waiters = [] := by
  have hi := inv_reachable hP h
  have hi' := inv_step s t .cna s' hi hs
  cases hp : s.pc t <;> simp [step, hp] at hs
  rename_i k
  obtain ⟨⟨_, hc⟩, hs⟩ := hs
  obtain ⟨hpe, hq, ha, _, _⟩ := locked_facts hi hp
  have hpend : s.pending = [t] := by
    rw [hi.cnt] at hc
    obtain ⟨a, ha'⟩ := List.length_eq_one_iff.1 hc
    rw [ha'] at hpe ⊢; simp at hpe; rw [hpe]
  have hpp : s'.pending = s'.parts := by subst hs; simp [St.arriveRelease]
  have hgen : s'.generation = s.generation + 1 := by subst hs; simp [St.arriveRelease]
  refine ⟨hpend, ha, ?_, hgen, ?_, ?_, hpp, ?_⟩
  · intro u hu hne
    have := hi.arrP u hu
    simp [hpend, hne] at this; exact this
  · intro u hu
    have := hi'.arrP u hu
    rw [hpp] at this; simp [hu] at this; exact this
  · rw [hi'.cnt, hpp]
  · subst hs; simp [St.arriveRelease]

/-! ## C09_no_lost_wakeup -/

/-- No lost wake-up: whoever is in the condition variable's wait set is waiting for the CURRENT
generation.  (The bump of the generation and `notify_all` are one critical section: there is no
window.) -/
theorem C09_no_lost_wakeup {P : List Tid} (hP : P.Nodup) {s : St} {t : Tid} (h : Reachable P s)
    (hw : t ∈ s.waiters) : s.lGen t = s.generation ∧ ∃ k, s.pc t = .sleep k := by
  have hi := inv_reachable hP h
  exact ⟨(hi.sleepers t hw).2, (hi.sleepers t hw).1⟩

/-- … hence once every current participant has made its n-th arrival, no thread that waits for that
arrival is left in the wait set: it only needs the mutex to leave `cv.wait`. -/
theorem C09_all_arrived_not_waiting {P : List Tid} (hP : P.Nodup) {s : St} {t : Tid} (h : Reachable P s)
    (hw : (s.pc t).waiting = true) (hall : ∀ u, u ∈ s.parts → s.arr t ≤ s.arr u) : t ∉ s.waiters := by
  intro hin
  exact (C09_release_iff hP h hw).2 hall (C09_no_lost_wakeup hP h hin).1.symm

/-! ## C09_drop -/

/-- the participant set changes only at the arrival of a `wait_and_drop` call, which removes the
caller; the threshold is the number of current participants, the count the number of those that have
not yet arrived in the current generation -/
theorem C09_parts_change {s s' : St} {t : Tid} {e : Ev} (hs : step s t e = some s') :
    s'.parts = s.parts ∨ (s.pc t = .locked .drop ∧ (e = .cna ∨ ∃ o, e = .cwt o) ∧ s'.parts = s.parts.erase t) := by
  rcases step_shape hs with ⟨_, h⟩ | ⟨_, _, _, _, h⟩ | ⟨k, hp, he, h⟩ | ⟨k, o, hp, he, h⟩
  · left; rw [h]
  · left; rw [h]; rfl
  · cases k
    · left; rw [h]; simp [St.arriveRelease]
    · right; exact ⟨hp, Or.inl he, by rw [h]; simp [St.arriveRelease]⟩
  · cases k
    · left; rw [h]; simp [St.arriveWait]
    · right; exact ⟨hp, Or.inr ⟨o, he⟩, by rw [h]; simp [St.arriveWait]⟩

theorem C09_threshold_count {P : List Tid} (hP : P.Nodup) {s : St} (h : Reachable P s) :
    s.threshold = s.parts.length ∧ s.count = s.pending.length ∧ (∀ u, u ∈ s.pending → u ∈ s.parts) := by
  have hi := inv_reachable hP h
  exact ⟨hi.thr, hi.cnt, hi.sub⟩

/-- `wait_and_drop` is an arrival of the CURRENT generation (the caller's arrival count goes from
`generation` to `generation + 1`; it either completes the generation or is counted in `count_`), the
caller stops being a participant, and from now on every generation needs one arrival less. -/
theorem C09_drop {P : List Tid} (hP : P.Nodup) {s s' : St} {t : Tid} {e : Ev} (h : Reachable P s)
    (hp : s.pc t = .locked .drop) (he : e = .cna ∨ ∃ o, e = .cwt o) (hs : step s t e = some s') :
    s.arr t = s.generation ∧ s'.arr t = s.generation + 1 ∧ t ∈ s.parts ∧
    s'.parts = s.parts.erase t ∧ t ∉ s'.parts ∧ s'.threshold + 1 = s.threshold ∧
    s'.threshold = s'.parts.length ∧
    ((e = .cna ∧ s'.generation = s.generation + 1 ∧ s'.count = s'.threshold) ∨
     ((∃ o, e = .cwt o) ∧ s'.generation = s.generation ∧ s'.count + 1 = s.count ∧ t ∉ s'.pending)) := by
  have hi := inv_reachable hP h
  have hi' := inv_step s t e s' hi hs
  obtain ⟨hpe, hq, ha, _, _⟩ := locked_facts hi hp
  have hthr := hi.thr
  have hpos : 1 ≤ s.parts.length := by
    cases hl : s.parts with
    | nil => rw [hl] at hq; simp at hq
    | cons a l => simp
  rcases he with he | ⟨o, he⟩ <;> subst he <;> simp [step, hp] at hs <;> obtain ⟨hc, hs⟩ := hs
  · have hpa : s'.parts = s.parts.erase t := by subst hs; simp [St.arriveRelease]
    have hth : s'.threshold = s.threshold - 1 := by subst hs; simp [St.arriveRelease]
    refine ⟨ha, ?_, hq, hpa, ?_, ?_, hi'.thr, Or.inl ⟨rfl, ?_, ?_⟩⟩
    · subst hs; simp [St.arriveRelease, ha]
    · rw [hpa]; exact hi.ndP.not_mem_erase
    · omega
    · subst hs; simp [St.arriveRelease]
    · subst hs; simp [St.arriveRelease]
  · have hpa : s'.parts = s.parts.erase t := by subst hs; simp [St.arriveWait]
    have hth : s'.threshold = s.threshold - 1 := by subst hs; simp [St.arriveWait]
    refine ⟨ha, ?_, hq, hpa, ?_, ?_, hi'.thr, Or.inr ⟨⟨o, rfl⟩, ?_, ?_, ?_⟩⟩
    · subst hs; simp [St.arriveWait, ha]
    · rw [hpa]; exact hi.ndP.not_mem_erase
    · omega
    · subst hs; simp [St.arriveWait]
    · have : s'.count = s.count - 1 := by subst hs; simp [St.arriveWait]
      omega
    · have : s'.pending = s.pending.erase t := by subst hs; simp [St.arriveWait]
      rw [this]; exact hi.ndQ.not_mem_erase

/-- a thread that has dropped out stays out: it cannot call again (client obligation enforced by the
model) and nobody re-enters the participant set -/
theorem C09_dropped_stays_out {s s' : St} {t u : Tid} {e : Ev} (hu : u ∉ s.parts) (hs : step s t e = some s') :
    u ∉ s'.parts ∧ ∀ k, step s u (.call k) = none := by
  constructor
  · rcases C09_parts_change hs with h | ⟨_, _, h⟩
    · rw [h]; exact hu
    · rw [h]; exact fun hin => hu (List.mem_of_mem_erase hin)
  · intro k; cases hp : s.pc u <;> simp [step, hp, hu]

/-! ## C09_lapping — fast re-entering threads -/

/-- every arrival, whoever makes it and however early it re-enters, is an arrival of the generation
that is current when it is counted, made by a thread that has not yet arrived in it; if it does not
complete the generation the thread waits for exactly that generation -/
theorem C09_lapping_arrival {P : List Tid} (hP : P.Nodup) {s s' : St} {t : Tid} {k : Kind} {e : Ev}
    (h : Reachable P s) (hp : s.pc t = .locked k) (he : e ≠ .plain) (hs : step s t e = some s') :
    s.arr t = s.generation ∧ t ∈ s.pending ∧ s'.arr t = s.generation + 1 ∧
    (e = .cna ∨ ((∃ o, e = .cwt o) ∧ s'.lGen t = s.generation ∧ s'.generation = s.generation ∧ t ∈ s'.waiters)) := by
  have hi := inv_reachable hP h
  obtain ⟨hpe, _, ha, _, _⟩ := locked_facts hi hp
  cases e <;> simp [step, hp] at hs <;> try contradiction
  · obtain ⟨_, hs⟩ := hs; subst hs
    exact ⟨ha, hpe, by simp [St.arriveRelease, ha], Or.inl rfl⟩
  · rename_i o; obtain ⟨_, hs⟩ := hs; subst hs
    exact ⟨ha, hpe, by simp [St.arriveWait, ha], Or.inr ⟨⟨o, rfl⟩, by simp [St.arriveWait], by simp [St.arriveWait],
      by simp [St.arriveWait]⟩⟩

/-- a fast thread cannot release the wrong generation: when a generation is released no current
participant is still in the wait loop of an EARLIER generation — every participant found in the wait
loop has re-arrived and waits for the generation being released -/
theorem C09_lapping_no_early_release {P : List Tid} (hP : P.Nodup) {s s' : St} {t u : Tid}
    (h : Reachable P s) (hs : step s t .cna = some s') (hu : u ∈ s.parts)
    (hw : (s.pc u).waiting = true) : s.lGen u = s.generation := by
  have hi := inv_reachable hP h
  obtain ⟨hpend, _, hall, _⟩ := C09_release_complete hP h hs
  have hne : u ≠ t := by
    intro he; subst he
    cases hp : s.pc u <;> simp [step, hp] at hs
    simp [hp, Pc.waiting] at hw
  have := hall u hu hne
  have := (hi.waitg u hw).1
  omega

/-- the barrier never runs more than one generation ahead of a participant that is still in the wait
loop (so `lGen != generation_` can never become false again by a lap) -/
theorem C09_lapping_bound {P : List Tid} (hP : P.Nodup) {s : St} {t : Tid} (h : Reachable P s)
    (ht : t ∈ s.parts) (hw : (s.pc t).waiting = true) :
    s.lGen t ≤ s.generation ∧ s.generation ≤ s.lGen t + 1 := by
  have hi := inv_reachable hP h
  have := hi.waitg t hw
  have := hi.arrP t ht
  omega

def Pc.passed : Pc → Bool
  | .notified _ | .unlocked _ => true
  | _ => false

/-- thread `t` has passed the barrier in its current call: it released the generation itself, or it
has left the wait loop, or it is in the wait loop and its generation has been released -/
def St.released (s : St) (t : Tid) : Prop :=
  (s.pc t).passed = true ∨ ((s.pc t).waiting = true ∧ s.generation ≠ s.lGen t)

/-- a slow thread cannot be "un-released" by fast threads: whatever the other threads do (re-enter,
arrive for later generations, release them, drop) a released thread stays released until it returns -/
theorem C09_lapping_released_stable {P : List Tid} (hP : P.Nodup) {s s' : St} {t u : Tid} {e : Ev}
    (h : Reachable P s) (hr : s.released t) (hs : step s u e = some s') :
    s'.released t ∨ (u = t ∧ s'.pc t = .idle) := by
  have hi := inv_reachable hP h
  by_cases hu : u = t
  · subst hu
    rcases hr with hr | ⟨hw, hne⟩
    · cases hp : s.pc u <;> simp [hp, Pc.passed] at hr <;> cases e <;> simp [step, hp] at hs
      · left; left; rw [← hs.2]; simp [hp, Pc.passed]
      · obtain ⟨_, hs⟩ := hs; subst hs; left; left; simp [Pc.passed]
      · obtain ⟨_, hs⟩ := hs; subst hs; right; simp
    · cases hp : s.pc u <;> simp [hp, Pc.waiting] at hw <;> cases e <;> simp [step, hp] at hs
      · rename_i k r; obtain ⟨_, hs⟩ := hs
        cases r <;> simp at hs
        · obtain ⟨_, hs⟩ := hs; subst hs; left; right; simp [Pc.waiting]; exact hne
        · obtain ⟨_, hs⟩ := hs; subst hs; left; right; simp [Pc.waiting]; exact hne
      · left; right; rw [← hs.2]; simp [hp, Pc.waiting]; exact hne
      · exact absurd hs.1.2.1 hne
      · obtain ⟨_, hs⟩ := hs; subst hs; left; left; simp [Pc.passed]
  · left
    have hut : t ≠ u := fun h => hu h.symm
    have hfacts : s'.pc t = s.pc t ∧ s.generation ≤ s'.generation ∧ s'.lGen t = s.lGen t := by
      rcases step_shape hs with ⟨_, h⟩ | ⟨_, _, _, _, h⟩ | ⟨k, _, _, h⟩ | ⟨k, o, _, _, h⟩
      · rw [h]; simp
      · rw [h]; simp [hut]
      · rw [h]; simp [St.arriveRelease, hut]
      · rw [h]; simp [St.arriveWait, hut]
    obtain ⟨hpc, hmono, hlg⟩ := hfacts
    rcases hr with hr | ⟨hw, hne⟩
    · left; rw [hpc]; exact hr
    · right; rw [hpc, hlg]; refine ⟨hw, ?_⟩
      have hle := (hi.waitg t hw).2
      omega

/-! ## L2–L4: the safety facts that give termination of a released generation under weak fairness -/

/-- events that are real progress of the protocol: not a plain field access (stutter), not a spurious
wake-up (which the environment may or may not supply) -/
def Ev.progress : Ev → Bool
  | .plain => false
  | .cwk .spurious => false
  | _ => true

/-- (L2) the holder of the mutex always has an enabled protocol step: it is never blocked
(`cv.wait` releases the mutex). -/
theorem C09_holder_enabled {P : List Tid} (hP : P.Nodup) {s : St} {t : Tid} (h : Reachable P s)
    (hm : s.mtx = some t) : ∃ e, e.progress = true ∧ (step s t e).isSome = true := by
  have hi := inv_reachable hP h
  have hh := (hi.holder t).2 hm
  cases hp : s.pc t <;> simp [hp, Pc.holds] at hh
  · rename_i k
    obtain ⟨hpe, _, _, _, _⟩ := locked_facts hi hp
    have hpos : 1 ≤ s.count := by
      rw [hi.cnt]; cases hl : s.pending with
      | nil => rw [hl] at hpe; simp at hpe
      | cons a l => simp
    by_cases hc : s.count = 1
    · exact ⟨.cna, rfl, by simp [step, hp, hm, hc]⟩
    · exact ⟨.cwt (s.arriveWait t k).obs, rfl, by
        have : 2 ≤ s.count := by omega
        simp [step, hp, hm, this, sees_obs]⟩
  · exact ⟨.mul s.obs, rfl, by simp [step, hp, hm, sees_obs]⟩
  · by_cases hg : s.generation = s.lGen t
    · exact ⟨.cwt s.obs, rfl, by simp [step, hp, hm, hg, sees_obs]⟩
    · exact ⟨.mul s.obs, rfl, by simp [step, hp, hm, hg, sees_obs]⟩

/-- remaining protocol steps of a thread that has passed the barrier -/
def Pc.rem : Pc → Nat
  | .sleep _ => 3
  | .woken _ => 2
  | .notified _ => 2
  | .unlocked _ => 1
  | _ => 0

/-- (L3) every own step of a released thread is either a plain field access (which changes nothing;
the real code performs finitely many between two primitive operations) or strictly decreases a
measure bounded by 3: wake up, unlock, return — it never re-enters `cv.wait`. -/
theorem C09_released_bounded {s s' : St} {t : Tid} {e : Ev}
    (hr : s.released t) (hs : step s t e = some s') :
    (e = .plain ∧ s' = s) ∨ (s'.pc t).rem < (s.pc t).rem := by
  rcases hr with hr | ⟨hw, hne⟩
  · cases hp : s.pc t <;> simp [hp, Pc.passed] at hr <;> cases e <;> simp [step, hp] at hs
    · exact Or.inl ⟨rfl, hs.2.symm⟩
    · obtain ⟨_, hs⟩ := hs; subst hs; right; simp [Pc.rem]
    · obtain ⟨_, hs⟩ := hs; subst hs; right; simp [Pc.rem]
  · cases hp : s.pc t <;> simp [hp, Pc.waiting] at hw <;> cases e <;> simp [step, hp] at hs
    · rename_i k r; obtain ⟨_, hs⟩ := hs
      cases r <;> simp at hs
      · obtain ⟨_, hs⟩ := hs; subst hs; right; simp [Pc.rem]
      · obtain ⟨_, hs⟩ := hs; subst hs; right; simp [Pc.rem]
    · exact Or.inl ⟨rfl, hs.2.symm⟩
    · exact absurd hs.1.2.1 hne
    · obtain ⟨_, hs⟩ := hs; subst hs; right; simp [Pc.rem]

/-- (L1 + L4) a released thread has an enabled protocol step whenever the mutex is free or its own:
it is not in the wait set (no lost wake-up), so it can only be delayed by a mutex holder, and holders
are never blocked (`C09_holder_enabled`). -/
theorem C09_released_enabled {P : List Tid} (hP : P.Nodup) {s : St} {t : Tid} (h : Reachable P s)
    (hr : s.released t) (hm : s.mtx = none ∨ s.mtx = some t) :
    ∃ e, e.progress = true ∧ (step s t e).isSome = true := by
  have hi := inv_reachable hP h
  have hh := hi.holder t
  rcases hr with hr | ⟨hw, hne⟩
  · cases hp : s.pc t <;> simp [hp, Pc.passed] at hr <;> simp [hp, Pc.holds] at hh
    · exact ⟨.mul s.obs, rfl, by simp [step, hp, hh, sees_obs]⟩
    · rename_i k; exact ⟨.ret k, rfl, by simp [step, hp]⟩
  · cases hp : s.pc t <;> simp [hp, Pc.waiting] at hw <;> simp [hp, Pc.holds] at hh
    · have hnw : t ∉ s.waiters := fun hin => hne ((hi.sleepers t hin).2).symm
      have hm' : s.mtx = none := by
        rcases hm with hm | hm
        · exact hm
        · exact absurd hm hh
      exact ⟨.cwk .notified, rfl, by simp [step, hp, hm', hnw]⟩
    · exact ⟨.mul s.obs, rfl, by simp [step, hp, hh, hne, sees_obs]⟩

/-- (L4) a participant that still has to arrive in the current generation is never blocked inside the
barrier: it is outside (the client has to call) or it has an enabled protocol step as soon as the
mutex is free. -/
theorem C09_pending_not_blocked {P : List Tid} (hP : P.Nodup) {s : St} {u : Tid} (h : Reachable P s)
    (hu : u ∈ s.pending) (hm : s.mtx = none ∨ s.mtx = some u) :
    s.pc u = .idle ∨ ∃ e, e.progress = true ∧ (step s u e).isSome = true := by
  have hi := inv_reachable hP h
  have ha := hi.arrP u (hi.sub u hu)
  simp [hu] at ha
  have hh := hi.holder u
  cases hp : s.pc u
  · exact Or.inl rfl
  · right
    simp [hp, Pc.holds] at hh
    have hm' : s.mtx = none := by
      rcases hm with hm | hm
      · exact hm
      · exact absurd hm hh
    exact ⟨.mlk, rfl, by simp [step, hp, hm']⟩
  · right; exact C09_holder_enabled hP h (hh.1 (by simp [hp, Pc.holds]))
  · right; exact C09_released_enabled hP h (Or.inl (by simp [hp, Pc.passed])) hm
  · right
    have hw := hi.waitg u (by simp [hp, Pc.waiting])
    exact C09_released_enabled hP h (Or.inr ⟨by simp [hp, Pc.waiting], by omega⟩) hm
  · right
    have hw := hi.waitg u (by simp [hp, Pc.waiting])
    exact C09_released_enabled hP h (Or.inr ⟨by simp [hp, Pc.waiting], by omega⟩) hm
  · right; exact C09_released_enabled hP h (Or.inl (by simp [hp, Pc.passed])) hm

/-- (L4) the only way a thread inside the barrier can be without an enabled protocol step while the
mutex is available is the intended one: it sits in the wait set, waiting for the current generation,
and some participant has not arrived yet. -/
theorem C09_blocked_only_on_pending {P : List Tid} (hP : P.Nodup) {s : St} {t : Tid} (h : Reachable P s)
    (hni : s.pc t ≠ .idle) (hm : s.mtx = none ∨ s.mtx = some t) :
    (∃ e, e.progress = true ∧ (step s t e).isSome = true) ∨
    (t ∈ s.waiters ∧ s.lGen t = s.generation ∧ s.pending ≠ []) := by
  have hi := inv_reachable hP h
  have hh := hi.holder t
  have hm' : (s.pc t).holds = false → s.mtx = none := by
    intro hf
    rcases hm with hm | hm
    · exact hm
    · have := hh.2 hm; simp [hf] at this
  cases hp : s.pc t
  · exact absurd hp hni
  · left; exact ⟨.mlk, rfl, by simp [step, hp, hm' (by simp [hp, Pc.holds])]⟩
  · left; exact C09_holder_enabled hP h (hh.1 (by simp [hp, Pc.holds]))
  · left; exact C09_holder_enabled hP h (hh.1 (by simp [hp, Pc.holds]))
  · by_cases hin : t ∈ s.waiters
    · right
      have hg := (hi.sleepers t hin).2
      exact ⟨hin, hg, hi.live t (by simp [hp, Pc.waiting]) hg⟩
    · left; exact ⟨.cwk .notified, rfl, by simp [step, hp, hm' (by simp [hp, Pc.holds]), hin]⟩
  · left; exact C09_holder_enabled hP h (hh.1 (by simp [hp, Pc.holds]))
  · rename_i k; left; exact ⟨.ret k, rfl, by simp [step, hp]⟩

/-- (L4) deadlock-freedom: if some thread is inside the barrier then some thread has an enabled
protocol step, unless everybody inside waits for a participant that is outside the barrier (then it
is the client's turn to call `wait`/`wait_and_drop` for it). -/
theorem C09_deadlock_free {P : List Tid} (hP : P.Nodup) {s : St} (h : Reachable P s)
    (hin : ∃ t, s.pc t ≠ .idle) :
    (∃ t e, e.progress = true ∧ (step s t e).isSome = true) ∨ (∃ u, u ∈ s.pending ∧ s.pc u = .idle) := by
  cases hm : s.mtx with
  | some t => obtain ⟨e, he⟩ := C09_holder_enabled hP h hm; exact Or.inl ⟨t, e, he⟩
  | none =>
    obtain ⟨t, ht⟩ := hin
    rcases C09_blocked_only_on_pending hP h ht (Or.inl hm) with ⟨e, he⟩ | ⟨_, _, hne⟩
    · exact Or.inl ⟨t, e, he⟩
    · obtain ⟨u, hu⟩ := List.exists_mem_of_ne_nil _ hne
      rcases C09_pending_not_blocked hP h hu (Or.inl hm) with hid | ⟨e, he⟩
      · exact Or.inr ⟨u, hu, hid⟩
      · exact Or.inl ⟨u, e, he⟩

/-! ## Non-vacuity: concrete accepted traces reach the hypotheses of the theorems above.

Two participants.  Thread 1 arrives first and sleeps; thread 2 completes generation 0, returns,
re-enters at once with `wait_and_drop` (lapping thread 1, which has not even woken up yet) and sleeps
for generation 1; thread 1 wakes up (spuriously woken threads re-wait, see the second trace), returns,
arrives again and — being the only participant left — releases generation 1. -/
def witnessTrace : List (Tid × Ev) :=
  [(1, .call .wait), (1, .mlk), (1, .plain), (1, .cwt ⟨none, some 1, some 0⟩),
   (2, .call .wait), (2, .mlk), (2, .plain), (2, .cna), (2, .mul ⟨some 2, some 2, some 1⟩), (2, .ret .wait),
   (2, .call .drop), (2, .mlk), (2, .plain), (2, .cwt ⟨some 1, some 1, some 1⟩),
   (1, .cwk .notified), (1, .plain), (1, .mul ⟨some 1, some 1, some 1⟩), (1, .ret .wait),
   (1, .call .wait), (1, .mlk), (1, .cna), (1, .mul ⟨some 1, some 1, some 2⟩), (1, .ret .wait),
   (2, .cwk .notified), (2, .mul ⟨some 1, some 1, some 2⟩)]

/-- thread 2 is about to return from its 2nd arrival (the drop): generation 2 is complete, thread 1
(the only remaining participant) has arrived twice, the threshold is 1 -/
example : ∃ s, Reachable [1, 2] s ∧ (step s 2 (.ret .drop)).isSome = true ∧ s.arr 2 = 2 ∧ s.arr 1 = 2 ∧
    s.generation = 2 ∧ s.parts = [1] ∧ s.threshold = 1 ∧ s.count = 1 :=
  ⟨_, ⟨witnessTrace, rfl⟩, by decide, by decide, by decide, by decide, by decide, by decide, by decide⟩

/-- lapping is real: after 14 events thread 2 has re-entered and sleeps for generation 1 while thread 1
is still inside `cv.wait` of generation 0 — released (`generation ≠ lGen`), not in the wait set -/
example : ∃ s, Reachable [1, 2] s ∧ s.pc 1 = .sleep .wait ∧ s.lGen 1 = 0 ∧ s.generation = 1 ∧
    s.released 1 ∧ s.waiters = [2] ∧ s.pc 2 = .sleep .drop ∧ s.lGen 2 = 1 ∧ s.parts = [1] ∧ s.pending = [1] :=
  ⟨_, ⟨witnessTrace.take 14, rfl⟩, by decide, by decide, by decide, Or.inr ⟨by decide, by decide⟩, by decide,
    by decide, by decide, by decide, by decide⟩

/-- the hypothesis of `C09_drop` / `C09_lapping_arrival` is reachable (thread 2 at its drop arrival) -/
example : ∃ s, Reachable [1, 2] s ∧ s.pc 2 = .locked .drop ∧
    (step s 2 (.cwt ⟨some 1, some 1, some 1⟩)).isSome = true :=
  ⟨_, ⟨witnessTrace.take 12, rfl⟩, by decide, by decide⟩

/-- the hypothesis of `C09_release_complete` is reachable (thread 1 releasing generation 1) -/
example : ∃ s, Reachable [1, 2] s ∧ (step s 1 .cna).isSome = true ∧ s.generation = 1 :=
  ⟨_, ⟨witnessTrace.take 20, rfl⟩, by decide, by decide⟩

/-- spurious wake-ups are ordinary events: thread 1 is woken spuriously, finds the generation
unchanged, re-waits, and is still waiting for the current generation in the wait set -/
example : ∃ s, Reachable [1, 2] s ∧ s.pc 1 = .sleep .wait ∧ s.waiters = [1] ∧ s.lGen 1 = s.generation ∧
    ¬ s.released 1 :=
  ⟨_, ⟨[(1, .call .wait), (1, .mlk), (1, .plain), (1, .cwt ⟨none, some 1, some 0⟩), (1, .cwk .spurious),
        (1, .plain), (1, .cwt ⟨none, some 1, some 0⟩)], rfl⟩, by decide, by decide, by decide,
    fun h => by rcases h with h | ⟨_, h⟩ <;> revert h <;> decide⟩

/-- three participants: threads 1 and 2 sleep for generation 0, thread 3 is about to release it — the
hypotheses of `C09_lapping_no_early_release` (u = 1) and of `C09_release_complete` hold together -/
example : ∃ s, Reachable [1, 2, 3] s ∧ (step s 3 .cna).isSome = true ∧ 1 ∈ s.parts ∧
    (s.pc 1).waiting = true ∧ s.waiters = [2, 1] ∧ s.pending = [3] :=
  ⟨_, ⟨[(1, .call .wait), (1, .mlk), (1, .cwt ⟨none, some 2, some 0⟩), (2, .call .wait), (3, .call .wait),
        (2, .mlk), (2, .plain), (2, .cwt ⟨none, some 1, some 0⟩), (3, .mlk)], rfl⟩,
    by decide, by decide, by decide, by decide, by decide⟩

/-! ## Termination: a released generation really is released — for every scheduler

`C09_terminates`: an execution in which, from some point on, no `call`, no plain field access and no
spurious wake-up occurs cannot be infinite (every other event strictly lowers the summed rank of the
threads, Base/Live.lean) — so with finitely many calls, finitely many spurious wake-ups and
straight-line plain accesses every execution is finite, whatever the scheduler does.
`C09_stuck_owes_arrival`: when no protocol step is enabled although some thread is inside the barrier,
a current participant that has not yet arrived in the current generation is OUTSIDE the barrier: the
client owes its call.  Together: every maximal execution ends either with everybody returned or
waiting for an arrival the client still owes — nobody is left blocked on a completed generation. -/

theorem awake_reachable {P : List Tid} (hP : P.Nodup) {s : St} (h : Reachable P s) : Good s := by
  obtain ⟨es, hes⟩ := h
  exact runFrom_inv (Inv := Good) (fun s t e s' hg hs => ranked.good s t e s' hg hs)
    ⟨inv_init P hP, awake_init P⟩ hes

theorem C09_terminates {P : List Tid} (hP : P.Nodup) (x : Live.Exec step) (N : Nat)
    (hr : Reachable P (x.σ N)) (ts : List Tid) (hnd : ts.Nodup) (hts : ∀ n, N ≤ n → x.who n ∈ ts)
    (hnc : ∀ n, N ≤ n → isEnv (x.ev n) = false) : False :=
  Live.no_infinite_run ranked ts hnd x N (awake_reachable hP hr) hts hnc

/-- quantitative form: a trace with `c` environment events (calls, plain accesses, spurious wake-ups)
has at most `(total rank at its start) + 8·c` events -/
theorem C09_bounded_run {P : List Tid} (hP : P.Nodup) {s s' : St} (hr : Reachable P s)
    (ts : List Tid) (hnd : ts.Nodup) {es : List (Tid × Ev)} (hts : ∀ y ∈ es, y.1 ∈ ts)
    (hrun : runFrom step s es = some s') :
    es.length + Live.total μ ts s' ≤ Live.total μ ts s + 8 * Live.calls isEnv es :=
  Live.bounded_run ranked ts hnd (awake_reachable hP hr) hts hrun

/-- if no protocol (non-environment) step is enabled and some thread is inside the barrier, then some
participant still pending for the current generation is outside the barrier (the client owes its call) -/
theorem C09_stuck_owes_arrival {P : List Tid} (hP : P.Nodup) {s : St} (h : Reachable P s)
    (hin : ∃ t, s.pc t ≠ .idle)
    (hstuck : ∀ u e, isEnv e = false → (step s u e).isSome = false) :
    ∃ u, u ∈ s.pending ∧ s.pc u = .idle := by
  have key : ∀ u e, e.progress = true → (step s u e).isSome = true → s.pc u ≠ .idle → False := by
    intro u e hp he hni
    have hne : isEnv e = false := by
      cases e <;> simp [Ev.progress, isEnv] at hp ⊢
      · -- a call is only accepted from `idle`
        cases hpc : s.pc u <;> simp [step, hpc] at he
        exact hni hpc
      · rename_i r; cases r <;> simp [Ev.progress, isEnv] at hp ⊢
    simp [hstuck u e hne] at he
  cases hm : s.mtx with
  | some t =>
    obtain ⟨e, hp, he⟩ := C09_holder_enabled hP h hm
    have hi := inv_reachable hP h
    have hh := (hi.holder t).2 hm
    exact absurd (key t e hp he (by intro hid; simp [hid, Pc.holds] at hh)) id
  | none =>
    obtain ⟨t, ht⟩ := hin
    rcases C09_blocked_only_on_pending hP h ht (Or.inl hm) with ⟨e, hp, he⟩ | ⟨_, _, hne⟩
    · exact absurd (key t e hp he ht) id
    · obtain ⟨u, hu⟩ := List.exists_mem_of_ne_nil _ hne
      rcases C09_pending_not_blocked hP h hu (Or.inl hm) with hid | ⟨e, hp, he⟩
      · exact ⟨u, hu, hid⟩
      · by_cases hui : s.pc u = .idle
        · exact ⟨u, hu, hui⟩
        · exact absurd (key u e hp he hui) id

/-! ## The ghost arrival counter is tied to the calls in the trace

`C09_return_sound` speaks about `s.arr t`.  The property speaks about a thread's *n-th wait*.  For
every accepted trace the two coincide: `arr t` is the number of `wait` / `wait_and_drop` calls `t`
has started, minus the one whose arrival is not yet counted (pc `called` / `locked`). -/

/-- arrivals counted + (1 if inside a call before its arrival) = calls started, per thread -/
theorem C09_arrivals_are_calls {P : List Tid} {es : List (Tid × Ev)} {s : St} (h : run P es = some s)
    (t : Tid) : s.arr t + (s.pc t).pre = callsOf t es := by
  have := K_run es (K_init P) h t
  simpa using this

/-- The property on the trace itself: when thread `t` returns from its n-th call (`n` = the number
of `wait` / `wait_and_drop` calls of `t` in the trace) the barrier has completed `n` generations and
every current participant has made at least `n` arrivals (and hence at least `n` calls). -/
theorem C09_return_sound_calls {P : List Tid} (hP : P.Nodup) {es : List (Tid × Ev)} {s s' : St} {t : Tid}
    {k : Kind} (h : run P es = some s) (hs : step s t (.ret k) = some s') :
    callsOf t es ≤ s.generation ∧
      ∀ u, u ∈ s.parts → callsOf t es ≤ s.arr u ∧ callsOf t es ≤ callsOf u es := by
  have hr := C09_return_sound hP ⟨es, h⟩ hs
  have ht := C09_arrivals_are_calls h t
  have hpre : (s.pc t).pre = 0 := by
    cases hp : s.pc t <;> simp [step, hp] at hs <;> rfl
  refine ⟨by omega, fun u hu => ?_⟩
  have h1 := hr.2 u hu
  have h2 := C09_arrivals_are_calls h u
  constructor <;> omega

/-- non-vacuity: in the witness trace thread 2 made two calls and two arrivals -/
example : ∃ s, run [1, 2] witnessTrace = some s ∧ callsOf 2 witnessTrace = s.arr 2 + (s.pc 2).pre :=
  ⟨_, rfl, by decide⟩

end ConcVerif.Barrier
