import ConcVerif.Props.C06
/-! # C02 (deferred_guarded part) — readers and modifications never overlap; readers can share

Model: `Model/Deferred.lean` (shared-capable mutex: `std::shared_timed_mutex`, `std::shared_mutex`).
A *reader* is a thread at a pc with `holdsS`: it owns a non-null shared handle (`idle true`), has just
acquired one (`sGot true`), or is copying the object inside `load()` (`ldHold`).  A *modification* is
the execution of a task's function (`running`), on the direct path or in a drain.  The lock-family
half of C02 is in `Props/C02.lean`. -/
namespace ConcVerif.Deferred

/-- A thread holding a shared handle (or copying inside `load`) never coexists with the application of
a modification, nor with any exclusive holder of `m`. -/
theorem C02_deferred_rw_excl {spur : Bool} {s : St} (h : Reachable spur s) {u : Tid} (hu : (s.pc u).holdsS = true)
    (t : Tid) : (s.pc t).running = none ∧ (s.pc t).holdsX = false ∧ s.mx = none := by
  have hL := (inv_reachable h).L
  have hin := (hL.shP u).2 hu
  have hmx : s.mx = none := by
    cases hm : s.mx with
    | none => rfl
    | some d => have := hL.xs (by rw [hm]; simp); rw [this] at hin; cases hin
  have hX : (s.pc t).holdsX = false := by
    cases hc : (s.pc t).holdsX with
    | false => rfl
    | true => have := (hL.mxP t).2 hc; rw [hmx] at this; cases this
  refine ⟨?_, hX, hmx⟩
  cases hr : (s.pc t).running with
  | none => rfl
  | some k => rw [Pc.running_holdsX hr] at hX; cases hX

/-- No modification is applied and the object is not written while a shared handle is alive: the model
accepts neither the entry of a task's function nor a write of the object. -/
theorem C02_deferred_no_apply_under_reader {spur : Bool} {s : St} (h : Reachable spur s) {u : Tid}
    (hu : (s.pc u).holdsS = true) (t : Tid) : (∀ k, step s t (.ucb k) = none) ∧ (∀ v, step s t (.pwr v) = none) := by
  have hin := ((inv_reachable h).L.shP u).2 hu
  constructor
  · intro k
    cases hs : step s t (.ucb k) with
    | none => rfl
    | some s' => have := (C06_exclusive h hs).2.1; rw [this] at hin; cases hin
  · intro v
    cases hs : step s t (.pwr v) with
    | none => rfl
    | some s' => have := (C06_exclusive_write h hs).2.1; rw [this] at hin; cases hin

/-- … and no exclusive acquisition of `m` (the only way to a modification) succeeds meanwhile. -/
theorem C02_deferred_no_writer_starts {spur : Bool} {s : St} (h : Reachable spur s) {u : Tid}
    (hu : (s.pc u).holdsS = true) (t : Tid) : step s t (.mtl true) = none := by
  have hin := ((inv_reachable h).L.shP u).2 hu
  have hne : s.sh ≠ [] := by intro h0; rw [h0] at hin; cases hin
  cases hp : s.pc t <;> simp [step, hp, St.tryX, hne]

/-- The wrapped object is only read under the lock (shared handle, `load`, or inside a task's
function under the exclusive lock), and a read returns the committed value. -/
theorem C02_deferred_read_under_lock {spur : Bool} {s s' : St} {t : Tid} {v : Int} (h : Reachable spur s)
    (hs : step s t (.prd v) = some s') :
    v = s.val ∧ ((t ∈ s.sh ∧ s.mx = none) ∨ (s.mx = some t ∧ s.sh = [])) := by
  have hL := (inv_reachable h).L
  have hcl : v = s.val ∧ ((s.pc t).holdsS = true ∨ (s.pc t).holdsX = true) := by
    cases hp : s.pc t with
    | idle hh => cases hh <;> simp [step, hp] at hs; exact ⟨hs.1, by simp [Pc.holdsS]⟩
    | dIn c j => simp [step, hp] at hs; exact ⟨hs.1, by simp [Pc.holdsX]⟩
    | aIn k a => simp [step, hp] at hs; exact ⟨hs.1, by simp [Pc.holdsX]⟩
    | ldHold thr => simp [step, hp] at hs; exact ⟨hs.1, by simp [Pc.holdsS]⟩
    | _ => simp [step, hp] at hs
  refine ⟨hcl.1, ?_⟩
  rcases hcl.2 with hS | hX
  · exact Or.inl ⟨(hL.shP t).2 hS, (C02_deferred_rw_excl h hS t).2.2⟩
  · have hm := (hL.mxP t).2 hX
    exact Or.inr ⟨hm, hL.xs (by rw [hm]; simp)⟩

/-- A reader is never blocked merely by other readers: whenever nobody holds `m` exclusively the
blocking shared acquisition of `lock_shared` / `load` is enabled, and a try / timed one may succeed. -/
theorem C02_deferred_reader_not_blocked_by_readers {s : St} {t : Tid} (hm : s.mx = none) :
    (s.pc t = .sAcq (.acq .block) → (step s t .slk).isSome = true) ∧
    (s.pc t = .sAcq .load → (step s t .slk).isSome = true) ∧
    (s.pc t = .sAcq (.acq .try_) → (step s t (.stl true)).isSome = true) ∧
    (s.pc t = .sAcq (.acq .for_) → (step s t (.stf true)).isSome = true) ∧
    (s.pc t = .sAcq (.acq .until_) → (step s t (.stf true)).isSome = true) := by
  refine ⟨?_, ?_, ?_, ?_, ?_⟩ <;> intro hp <;> simp [step, hp, hm]

/-- Two readers really can hold shared handles at the same time (constructive witness), while a
third thread's modification is deferred to the queue. -/
theorem C02_deferred_readers_share : ∃ s, Reachable false s ∧ s.pc 1 = .idle true ∧ s.pc 2 = .idle true ∧
    s.sh = [2, 1] ∧ s.queue = [5] ∧ s.applied = [] :=
  ⟨_, ⟨[(1, .callSh .block), (1, .fld false), (1, .slk), (1, .got true),
        (2, .callSh .try_), (2, .fld false), (2, .stl true), (2, .got true),
        (1, .prd 0), (2, .prd 0),
        (3, .callMod 5 false), (3, .mtl false), (3, .qlk), (3, .qul), (3, .fst true), (3, .ret)], rfl⟩,
   rfl, rfl, rfl, rfl, rfl⟩

end ConcVerif.Deferred
