import ConcVerif.Proof.HBCowMain
import ConcVerif.Proof.HBComplete
/-! # C07 for `cow_guarded` — the private copy is published through the left-right protocol, at the level of the model

`cow_guarded<T>` is `lr_guarded<shared_ptr<const T>> m_data` plus the writer mutex; the model (`Model/Cow.lean`) EMBEDS
the left-right model's state and delegates every primitive operation on `m_data` to `LR.step`.  For EVERY trace
accepted by `Cow.step` (any number of readers, writers, snapshot handles; the same `step` the observed traces of the
real `cow_guarded.hpp` are checked against by the `cow` component), mapped to happens-before events by `Cow.toHBc`
(inner left-right events as in `LR.toHB`, `m_writeMutex` = mutex 1, the plain accesses of the two `shared_ptr` copies,
the payload accesses `pcp / pwr / prd / pdt` of each version):

* the accepted cow trace projects to an accepted LEFT-RIGHT trace (the delegated events) whose happens-before image
  embeds into the cow trace's (`Proof/HBCowProj.lean`, `Proof/HBEmbed.lean`), so `C07_lr` applies:
  `C07_cow_sides` — a store that opens an assignment window on a side of `m_data` happens-after every earlier load of
  that side's pointer under a read handle and every earlier window on it, and a load happens-after every earlier window;
* `C07_cow_write_under_mutex` — the payload of a version is written (copy construction, write through the write
  handle) only by the thread that holds the writer mutex;
* `C07_cow_read_after_write` — every read of the payload of version `v` (through a snapshot, or as the source of the
  next writer's copy) happens-after EVERY write to it: the writes are program-order-before the writer's store that
  installs `v` on a side (`stPtr x v`), the reader's load of that side's pointer is ordered after that store by the
  left-right theorem, and the read follows the reader's own load;
* `C07_cow_destroy_after_snapshot` — the destruction of a version happens-after every read of it through a snapshot,
  in happens-before EXTENDED by the edges of the `shared_ptr` control block (assumption, libstdc++ is not traced: the
  destruction of a snapshot handle happens-before the destruction of the managed object by the last owner): the model
  accepts `pdt v` only when no snapshot of `v` is left, and a snapshot disappears only by its owner's `call drop`.

Stated for every assignment `o` of memory orders to the left-right atomics satisfying `LR.Ords.OK` (today's code:
`LR.Ords.sc`); `pay` chooses which of the two payload accesses of a copy construction is shown (write of the new
version / read of the source). -/
namespace ConcVerif.Cow
open ConcVerif.LR (Side)

/-- **The two `shared_ptr` copies of `m_data`.**  Conflicting accesses through the left-right model are ordered. -/
theorem C07_cow_sides {o : LR.Ords} (ho : o.OK) (pay : Bool) {b : Bool} {es : List (Tid × Ev)} {s : St}
    (h : run (init b) es = some s) {q r : Nat} {t u : Tid} {e1 e2 : Ev} (hqr : q < r) (hq : es[q]? = some (t, e1))
    (hr : es[r]? = some (u, e2)) (hc : SideConf e1 e2) : HB.HB (hbTraceC o pay es) q r :=
  cow_lr_order ho h hqr hq hr hc

/-- **Writes need the writer mutex.**  An accepted event that writes the payload of a version (`pcp new ..`, `pwr v ..`)
is made by the thread that holds `m_writeMutex`. -/
theorem C07_cow_write_under_mutex {s s' : St} {t : Tid} {e : Ev} {v : Ver} (h : Reachable s) (hs : step s t e = some s')
    (hw : e.wrP = some v) : s.wm = some t :=
  write_holds h hs hw

/-- **Publication of a version.**  Every read of the payload of `v` happens-after every write to it. -/
theorem C07_cow_read_after_write {o : LR.Ords} (ho : o.OK) (pay : Bool) {b : Bool} {es : List (Tid × Ev)} {s : St}
    (h : run (init b) es = some s) {i j : Nat} {t0 u : Tid} {ei ej : Ev} {v : Ver} (hij : i < j)
    (hi : es[i]? = some (t0, ei)) (hw : ei.wrP = some v) (hj : es[j]? = some (u, ej)) (hr : ej.rdP = some v) :
    HB.HB (hbTraceC o pay es) i j :=
  cow_read_after_write ho h hij hi hw hj hr

/-- all writes to the payload of a version are made by one thread (so they are ordered by program order) -/
theorem C07_cow_single_writer {b : Bool} {es : List (Tid × Ev)} {s : St} (h : run (init b) es = some s) {i c : Nat}
    {t0 u : Tid} {e e' : Ev} {v : Ver} (hi : es[i]? = some (t0, e)) (hc : es[c]? = some (u, e')) (hw : e.wrP = some v)
    (hw' : e'.wrP = some v) : t0 = u :=
  (cinv_run h).ww i c t0 u e e' v hi hc hw hw'

/-- **Destruction.**  The destruction `pdt v` happens-after every read of `v` through a snapshot handle — via the
reader's own `call drop v` and the control-block edge (`CBedge`, assumption). -/
theorem C07_cow_destroy_after_snapshot (o : LR.Ords) (pay : Bool) {b : Bool} {es : List (Tid × Ev)} {s : St}
    (h : run (init b) es = some s) {i j : Nat} {u d : Tid} {v : Ver} {c : Nat} (hij : i < j)
    (hi : es[i]? = some (u, .prd v c)) (hsnap : ∀ si, run (init b) (es.take i) = some si → (u, v) ∈ si.snaps)
    (hj : es[j]? = some (d, .pdt v)) :
    ∃ k, i < k ∧ k < j ∧ es[k]? = some (u, Ev.call (.drop v)) ∧ HBx (hbTraceC o pay es) (CBedge es) i j :=
  cow_destroy_after_snapshot h hij hi hsnap hj

/-! ## non-vacuity and necessity -/

/-- writer 1: `lock()` (copies version 0 into version 1), writes 7 into the copy, releases (publishes on R, flips, waits,
publishes on L destroying version 0); reader 2: `lock_shared` (gets version 1 from side R), reads 7, drops the snapshot -/
def hbWitness : List (Tid × Ev) :=
  [(1, .call .lock), (1, .olock), (1, .lr (.ldCL .L)), (1, .lr (.inc .L 0)), (1, .lr (.ldRL .L)), (1, .ldPtr .L 0),
   (1, .pcp 1 0 0), (1, .lr (.dec .L 1)), (1, .retGot .lock 1), (1, .pwr 1 7),
   (1, .call .release), (1, .lr .lock), (1, .stPtr .R 1), (1, .stCtl .R), (1, .lr (.stRL .R)),
   (1, .lr (.ldCnt .L 0)), (1, .lr (.ldCnt .R 0)), (1, .stPtr .L 1), (1, .pdt 0), (1, .stCtl .L), (1, .lr .unlock), (1, .ounlock),
   (1, .ret .release),
   (2, .call (.lockShared 0)), (2, .lr (.ldCL .L)), (2, .lr (.inc .L 0)), (2, .lr (.ldRL .R)), (2, .ldPtr .R 1), (2, .ldCtl .R),
   (2, .lr (.dec .L 1)), (2, .retGot (.lockShared 0) 1), (2, .prd 1 7), (2, .call (.drop 1)), (2, .ret (.drop 1))]

example : ∃ s, run (init false) hbWitness = some s ∧ hbWitness[9]? = some (1, .pwr 1 7) ∧
    hbWitness[12]? = some (1, .stPtr .R 1) ∧ hbWitness[27]? = some (2, .ldPtr .R 1) ∧ hbWitness[31]? = some (2, .prd 1 7) :=
  ⟨_, rfl, rfl, rfl, rfl, rfl⟩

example : HB.HB (hbTraceC .sc true hbWitness) 9 31 ∧ HB.HB (hbTraceC .sc true hbWitness) 12 27 :=
  ⟨C07_cow_read_after_write LR.Ords.sc_ok true (s := _) (b := false) rfl (by decide) rfl rfl rfl rfl,
   C07_cow_sides LR.Ords.sc_ok true (s := _) (b := false) rfl (by decide) rfl rfl ⟨.R, .inl ⟨⟨1, rfl⟩, .inr ⟨1, rfl⟩⟩⟩⟩

/-- the executable race checker accepts the mapped witness (both views of the copy construction) -/
example : HB.raceFree (hbTraceC .sc true hbWitness) = true ∧ HB.raceFree (hbTraceC .sc false hbWitness) = true :=
  ⟨by decide, by decide⟩

theorem C07_cow_reject_is_race {tr : HB.Trace} (h : HB.raceFree tr = false) : HB.Race tr :=
  Classical.byContradiction fun hn => by
    have := HB.raceFree_complete hn
    rw [h] at this; cases this

/-- **The store of `m_readingLeft` must release**: otherwise reader 2's read of the payload of version 1 is not ordered
after writer 1's write of it. -/
theorem C07_cow_stRL_needed : ∃ s, run (init false) hbWitness = some s ∧ HB.Race (hbTraceC { stRL := .rlx } true hbWitness) :=
  ⟨_, rfl, C07_cow_reject_is_race (by decide)⟩

/-- **The reader's load of `m_readingLeft` must acquire.** -/
theorem C07_cow_ldRL_needed : ∃ s, run (init false) hbWitness = some s ∧ HB.Race (hbTraceC { ldRL := .rlx } true hbWitness) :=
  ⟨_, rfl, C07_cow_reject_is_race (by decide)⟩

end ConcVerif.Cow
